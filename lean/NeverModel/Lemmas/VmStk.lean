import NeverModel.Lemmas.VmEffectLoops
set_option linter.unusedSimpArgs false
set_option linter.unusedVariables false
/-! handlers leave the SIZE of the stack array (and the configured stack size) alone: every stack write of M-VM is
`Array.setIfInBounds`.  A third small effect logic, the same shape as `KeepsIp` (most of this file is the same list of lemmas). -/
namespace Never.Vm
open Never Never.Num

/-- a computation that leaves the size of the stack array and the configured stack size alone -/
def KeepsStk {α} (f : M α) : Prop :=
  ∀ vm a vm', f.run vm = .ok (a, vm') → vm'.stack.size = vm.stack.size ∧ vm'.stackSize = vm.stackSize

theorem KeepsStk.bind {α β} {f : M α} {g : α → M β} (hf : KeepsStk f) (hg : ∀ a, KeepsStk (g a)) : KeepsStk (f >>= g) := by
  intro vm b vm'' h
  obtain ⟨a, vm', h1, h2⟩ := (run_bind_ok f g vm vm'' b).mp h
  obtain ⟨a1, a2⟩ := hf vm a vm' h1
  obtain ⟨b1, b2⟩ := hg a vm' b vm'' h2
  exact ⟨b1.trans a1, b2.trans a2⟩

theorem KeepsStk.pure {α} (a : α) : KeepsStk (Pure.pure a : M α) := by
  intro vm b vm' h
  obtain ⟨_, rfl⟩ := (run_pure_ok a vm vm' b).mp h
  exact ⟨rfl, rfl⟩

theorem kst_crash {α} (w : String) : KeepsStk (crash w : M α) := by
  intro vm a vm' h; simp [crash, throw, throwThe, MonadExceptOf.throw, StateT.run, StateT.lift, liftM, monadLift, MonadLift.monadLift, Except.bind, Bind.bind] at h

theorem kst_exit {α} (w : String) (o : List UInt8) : KeepsStk (exitVm w o : M α) := by
  intro vm a vm' h; simp [exitVm, throw, throwThe, MonadExceptOf.throw, StateT.run, StateT.lift, liftM, monadLift, MonadLift.monadLift, Except.bind, Bind.bind] at h

theorem kst_get : KeepsStk (get : M Vm) := by
  intro vm a vm' h
  simp [get, getThe, MonadStateOf.get, StateT.get, StateT.run, Pure.pure, Except.pure] at h
  obtain ⟨_, rfl⟩ := h; exact ⟨rfl, rfl⟩

theorem KeepsStk.get_bind {β} (g : Vm → M β)
    (h : ∀ vm a vm', (g vm).run vm = .ok (a, vm') → vm'.stack.size = vm.stack.size ∧ vm'.stackSize = vm.stackSize) : KeepsStk (get >>= g) := by
  intro vm b vm'' hr
  obtain ⟨a, vm', h1, h2⟩ := (run_bind_ok get g vm vm'' b).mp hr
  simp [get, getThe, MonadStateOf.get, StateT.get, StateT.run, Pure.pure, Except.pure] at h1
  obtain ⟨rfl, rfl⟩ := h1
  exact h _ _ _ h2

theorem kst_set_of (v0 vm : Vm) (h : v0.stack.size = vm.stack.size ∧ v0.stackSize = vm.stackSize) (a : PUnit) (vm' : Vm)
    (hr : (set v0 : M PUnit).run vm = .ok (a, vm')) : vm'.stack.size = vm.stack.size ∧ vm'.stackSize = vm.stackSize := by
  simp [set, StateT.set, StateT.run, Pure.pure, Except.pure] at hr
  obtain ⟨_, rfl⟩ := hr; exact h

theorem kst_modify (f : Vm → Vm) (hf : ∀ vm, (f vm).stack.size = vm.stack.size ∧ (f vm).stackSize = vm.stackSize) : KeepsStk (modify f : M PUnit) := by
  intro v x v' h
  simp [modify, modifyGet, MonadStateOf.modifyGet, StateT.modifyGet, StateT.run, Pure.pure, Except.pure] at h
  obtain ⟨_, rfl⟩ := h
  exact hf v

theorem kst_rdSlot (i : Int) : KeepsStk (rdSlot i) := by
  unfold rdSlot
  apply KeepsStk.bind kst_get; intro vm
  split
  · exact kst_crash _
  · exact KeepsStk.pure _

theorem kst_wrSlot (i : Int) (s : Slot) : KeepsStk (wrSlot i s) := by
  unfold wrSlot
  apply KeepsStk.get_bind; intro vm a vm' h
  split at h
  · exact kst_crash _ _ _ _ h
  · exact kst_set_of _ vm (by exact ⟨by simp, rfl⟩) _ _ h

theorem kst_alloc (o : Obj) : KeepsStk (alloc o) := by
  unfold alloc
  apply KeepsStk.get_bind; intro vm a vm' h
  split at h
  · exact kst_exit _ _ _ _ _ h
  · obtain ⟨u, v1, h1, h2⟩ := (run_bind_ok _ _ vm vm' a).mp h
    have k := kst_set_of _ vm (by exact ⟨rfl, rfl⟩) _ _ h1
    obtain ⟨_, rfl⟩ := (run_pure_ok _ v1 vm' a).mp h2
    exact k

theorem kst_objOf (a : Nat) : KeepsStk (objOf a) := by
  unfold objOf
  apply KeepsStk.bind kst_get; intro vm
  split
  · exact kst_crash _
  · split
    · exact KeepsStk.pure _
    · exact kst_crash _

theorem kst_checkStack : KeepsStk checkStack := by
  unfold checkStack
  apply KeepsStk.bind kst_get; intro vm
  split
  · exact kst_exit _ _
  · exact KeepsStk.pure _

theorem kst_pushAddr (a : Nat) : KeepsStk (pushAddr a) := by
  intro vm u vm' h
  unfold Vm.pushAddr at h
  simp only [Bind.bind, StateT.bind, StateT.run, get, getThe, MonadStateOf.get, StateT.get, Pure.pure, StateT.pure, Except.pure, Except.bind] at h
  cases hp : pushP vm a with
  | error e =>
    rw [hp] at h
    simp [liftE, throw, throwThe, MonadExceptOf.throw, StateT.lift, liftM, monadLift, MonadLift.monadLift, Except.bind, Bind.bind] at h
  | ok v1 =>
    rw [hp] at h
    simp [liftE, set, StateT.set, Pure.pure, StateT.pure, Except.pure] at h
    obtain ⟨_, rfl⟩ := h
    unfold pushP checkP wrP at hp
    simp only [Bind.bind, Except.bind] at hp
    by_cases c1 : vm.sp + 1 ≥ vm.stackSize
    · simp [c1] at hp
    · simp only [c1, if_false] at hp
      split at hp
      · cases hp
      · cases hp; exact ⟨by simp, rfl⟩

/-- automation for `KeepsStk` goals -/
syntax "kst" : tactic
macro_rules
  | `(tactic| kst) => `(tactic|
      first
      | with_reducible exact KeepsStk.pure _
      | with_reducible exact kst_crash _
      | with_reducible exact kst_exit _ _
      | with_reducible exact kst_get
      | with_reducible exact kst_rdSlot _
      | with_reducible exact kst_wrSlot _ _
      | with_reducible exact kst_alloc _
      | with_reducible exact kst_objOf _
      | with_reducible exact kst_checkStack
      | with_reducible exact kst_pushAddr _
      | with_reducible exact kst_modify _ (fun _ => ⟨rfl, rfl⟩)
      | with_reducible apply_assumption (exfalso := false)
      | (with_reducible refine KeepsStk.bind ?hf (fun _ => ?hg); (case hf => kst); (case hg => kst))
      | (split <;> kst)
      | (dsimp only; kst))

theorem kst_rdAddr (i : Int) : KeepsStk (rdAddr i) := by unfold rdAddr; kst
theorem kst_getSp : KeepsStk getSp := by unfold getSp; kst
theorem kst_setSp (v : Int) : KeepsStk (setSp v) := by unfold setSp; kst
theorem kst_raise (e : Nat) : KeepsStk (raise e) := by unfold raise; kst
theorem kst_setObj (a : Nat) (o : Obj) : KeepsStk (setObj a o) := by unfold setObj; kst
theorem kst_emit (bs : List UInt8) : KeepsStk (emit bs) := by unfold emit; kst

macro_rules
  | `(tactic| kst) => `(tactic|
      first | with_reducible exact kst_rdAddr _ | with_reducible exact kst_getSp | with_reducible exact kst_setSp _
            | with_reducible exact kst_raise _ | with_reducible exact kst_setObj _ _ | with_reducible exact kst_emit _)

theorem kst_getInt (a : Nat) : KeepsStk (getInt a) := by unfold getInt; kst
theorem kst_getLong (a : Nat) : KeepsStk (getLong a) := by unfold getLong; kst
theorem kst_getFloat (a : Nat) : KeepsStk (getFloat a) := by unfold getFloat; kst
theorem kst_getDouble (a : Nat) : KeepsStk (getDouble a) := by unfold getDouble; kst
theorem kst_getChar (a : Nat) : KeepsStk (getChar a) := by unfold getChar; kst
theorem kst_getStr (a : Nat) : KeepsStk (getStr a) := by unfold getStr; kst
theorem kst_getStrRef (a : Nat) : KeepsStk (getStrRef a) := by unfold getStrRef; kst
theorem kst_getVecRef (a : Nat) : KeepsStk (getVecRef a) := by unfold getVecRef; kst
theorem kst_getArrRef (a : Nat) : KeepsStk (getArrRef a) := by unfold getArrRef; kst
theorem kst_getVecObj (a : Nat) : KeepsStk (getVecObj a) := by unfold getVecObj; kst
theorem kst_getArrObj (a : Nat) : KeepsStk (getArrObj a) := by unfold getArrObj; kst
theorem kst_getFunc (a : Nat) : KeepsStk (getFunc a) := by unfold getFunc; kst
theorem kst_getCPtr (a : Nat) : KeepsStk (getCPtr a) := by unfold getCPtr; kst

macro_rules
  | `(tactic| kst) => `(tactic|
      first | with_reducible exact kst_getInt _ | with_reducible exact kst_getLong _ | with_reducible exact kst_getFloat _
            | with_reducible exact kst_getDouble _ | with_reducible exact kst_getChar _ | with_reducible exact kst_getStr _
            | with_reducible exact kst_getStrRef _ | with_reducible exact kst_getVecRef _ | with_reducible exact kst_getArrRef _
            | with_reducible exact kst_getVecObj _ | with_reducible exact kst_getArrObj _ | with_reducible exact kst_getFunc _
            | with_reducible exact kst_getCPtr _)

theorem kst_scalarOf (ty : NTy) (a : Nat) : KeepsStk (scalarOf ty a) := by unfold scalarOf; cases ty <;> simp only <;> kst
theorem kst_resOf (r : NRes) : KeepsStk (resOf r) := by unfold resOf; kst
theorem kst_okVal (r : NRes) : KeepsStk (okVal r) := by unfold okVal; kst
theorem kst_getVec (a i : Nat) : KeepsStk (getVec a i) := by unfold getVec; kst
theorem kst_setVec (a i v : Nat) : KeepsStk (setVec a i v) := by unfold setVec; kst
theorem kst_getArrElem (a i : Nat) : KeepsStk (getArrElem a i) := by unfold getArrElem; kst
theorem kst_setArrElem (a i v : Nat) : KeepsStk (setArrElem a i v) := by unfold setArrElem; kst
theorem kst_allocArr (e : List Nat) : KeepsStk (allocArr e) := by unfold allocArr; kst

macro_rules
  | `(tactic| kst) => `(tactic|
      first | with_reducible exact kst_scalarOf _ _ | with_reducible exact kst_resOf _ | with_reducible exact kst_okVal _
            | with_reducible exact kst_getVec _ _ | with_reducible exact kst_setVec _ _ _ | with_reducible exact kst_getArrElem _ _
            | with_reducible exact kst_setArrElem _ _ _ | with_reducible exact kst_allocArr _)

theorem kst_rangePair (r d : Nat) : KeepsStk (rangePair r d) := by unfold rangePair; kst
theorem kst_feCheck (orc : Oracle) : KeepsStk (feCheck orc) := by unfold feCheck; kst

macro_rules
  | `(tactic| kst) => `(tactic| first | with_reducible exact kst_rangePair _ _ | with_reducible exact kst_feCheck _)


theorem kst_allocEach (o : Obj) (n : Nat) : KeepsStk (allocEach o n) := by
  induction n with
  | zero => unfold allocEach; kst
  | succ n ih => unfold allocEach; kst

theorem kst_mapElems (ty : NTy) (f : NVal → M NVal) (hf : ∀ v, KeepsStk (f v)) (es : List Nat) : KeepsStk (mapElems ty f es) := by
  induction es with
  | nil => unfold mapElems; kst
  | cons e es ih => unfold mapElems; kst

theorem kst_zipArith (ty : NTy) (bop : BinOp) (xs ys : List Nat) : KeepsStk (zipArith ty bop xs ys) := by
  induction xs generalizing ys with
  | nil => unfold zipArith; kst
  | cons x xs ih =>
    cases ys with
    | nil => unfold zipArith; kst
    | cons y ys => unfold zipArith; have := ih ys; kst

theorem kst_dotSum (ty : NTy) (es1 es2 : List Nat) (i j inner cols k n : Nat) (acc : NVal) :
    KeepsStk (dotSum ty es1 es2 i j inner cols k n acc) := by
  induction n generalizing k acc with
  | zero => unfold dotSum; kst
  | succ n ih => unfold dotSum; kst

theorem kst_matCols (ty : NTy) (es1 es2 : List Nat) (mres i inner cols j m : Nat) :
    KeepsStk (matCols ty es1 es2 mres i inner cols j m) := by
  induction m generalizing j with
  | zero => unfold matCols; kst
  | succ m ih => unfold matCols; have := kst_dotSum ty es1 es2 i j inner cols 0 inner (zeroOf ty); kst

theorem kst_matRows (ty : NTy) (es1 es2 : List Nat) (mres inner cols i n : Nat) :
    KeepsStk (matRows ty es1 es2 mres inner cols i n) := by
  induction n generalizing i with
  | zero => unfold matRows; kst
  | succ n ih => unfold matRows; have := kst_matCols ty es1 es2 mres i inner cols 0 cols; kst

theorem kst_composeRanges (r1 r2 res d n : Nat) : KeepsStk (composeRanges r1 r2 res d n) := by
  induction n generalizing d with
  | zero => unfold composeRanges; kst
  | succ n ih => unfold composeRanges; kst

theorem kst_rangePairs (r d n : Nat) : KeepsStk (rangePairs r d n) := by
  induction n generalizing d with
  | zero => unfold rangePairs; kst
  | succ n ih => unfold rangePairs; kst

theorem kst_unpackLoop (sp : Int) (fs : List Nat) (size i : Nat) : KeepsStk (unpackLoop sp fs size i) := by
  induction i with
  | zero => unfold unpackLoop; kst
  | succ i ih => unfold unpackLoop; kst

theorem kst_popAddrs (n : Nat) : KeepsStk (popAddrs n) := by
  induction n with
  | zero => unfold popAddrs; kst
  | succ n ih => unfold popAddrs; kst

theorem kst_popInts (n : Nat) : KeepsStk (popInts n) := by
  induction n with
  | zero => unfold popInts; kst
  | succ n ih => unfold popInts; kst

theorem kst_popExts (n : Nat) : KeepsStk (popExts n) := by
  induction n with
  | zero => unfold popExts; kst
  | succ n ih => unfold popExts; kst

theorem kst_popIndices (n : Nat) : KeepsStk (popIndices n) := by
  induction n with
  | zero => unfold popIndices; kst
  | succ n ih => unfold popIndices; kst

theorem kst_rangeDerefLoop (range array d n : Nat) : KeepsStk (rangeDerefLoop range array d n) := by
  induction n generalizing d with
  | zero => unfold rangeDerefLoop; kst
  | succ n ih => unfold rangeDerefLoop; kst

theorem kst_allocLoop (n : Nat) : KeepsStk (allocLoop n) := by
  induction n with
  | zero => unfold allocLoop; kst
  | succ n ih => unfold allocLoop; kst

macro_rules
  | `(tactic| kst) => `(tactic|
      first
      | with_reducible exact kst_allocEach _ _ | with_reducible exact kst_zipArith _ _ _ _
      | with_reducible exact kst_dotSum _ _ _ _ _ _ _ _ _ _ | with_reducible exact kst_matCols _ _ _ _ _ _ _ _ _
      | with_reducible exact kst_matRows _ _ _ _ _ _ _ _ | with_reducible exact kst_composeRanges _ _ _ _ _
      | with_reducible exact kst_rangePairs _ _ _ | with_reducible exact kst_unpackLoop _ _ _ _
      | with_reducible exact kst_popAddrs _ | with_reducible exact kst_popInts _ | with_reducible exact kst_popExts _
      | with_reducible exact kst_popIndices _ | with_reducible exact kst_rangeDerefLoop _ _ _ _ | with_reducible exact kst_allocLoop _
      | (with_reducible refine kst_mapElems _ _ (fun _ => ?hf) _; (case hf => kst)))

theorem kst_execBin (ty : NTy) (bop : BinOp) : KeepsStk (execBin ty bop) := by unfold execBin; kst
theorem kst_execUn (ty : NTy) (uop : UnOp) : KeepsStk (execUn ty uop) := by unfold execUn; kst
theorem kst_execConv (src dst : NTy) : KeepsStk (execConv src dst) := by unfold execConv; kst

set_option maxRecDepth 16000 in
set_option maxHeartbeats 4000000 in
theorem kst_buildIn (id : Nat) (orc : Oracle) : KeepsStk (buildIn id orc) := by unfold buildIn; kst

/-- selects the handler of a concrete opcode inside `exec` and runs the `kst` automation -/
macro "exec_kst" h:ident : tactic => `(tactic|
  (unfold exec
   simp only [$h:ident, binOpOf, unOpOf, convOf, nilCmpOf, strAddOf, arrOpOf, mkArrayElem]
   kst))

end Never.Vm
