/-
Ranges and slices of the reference evaluator (M-Src) against the index arithmetic of C12
(`Never.Idx`, Model/Index.lean): the evaluator's monadic helpers computed on a store whose range
object and bound cells are known.
-/
import NeverModel.Lemmas.SrcAlpha
import NeverModel.Props.C12
namespace Never.Src

/-- no C `int` overflow in `vm_get_slice_range a _ c d` (the additions `a ± c`, `a ± d`) -/
def NoOvf (a c d : Int) : Prop :=
  inInt32 (a + c) = true ∧ inInt32 (a + d) = true ∧ inInt32 (a - c) = true ∧ inInt32 (a - d) = true

theorem load_ok (l : Loc) (s : St) (v : Val) (h : s.mem[l]? = some v) : load l s = .ok v s := by
  simp only [load, h]

theorem getInt_ok (l : Loc) (s : St) (a : Int32) (h : s.mem[l]? = some (.int a)) : getInt l s = .ok a.toInt s := by
  simp only [getInt, bind_eq, M.bind, load_ok l s _ h]; rfl

/-- where no addition overflows, `sliceRangeM` is `vm_get_slice_range` of C12 -/
theorem sliceRangeM_eq (a b c d : Int) (h : NoOvf a c d) (s : St) :
    sliceRangeM a b c d s =
      match Idx.sliceRange a b c d with
      | some r => .ok r s
      | none => throwE .index_out_of_bounds s := by
  obtain ⟨h1, h2, h3, h4⟩ := h
  unfold sliceRangeM
  by_cases hneg : c < 0 ∨ d < 0
  · simp only [hneg, if_true, Idx.sliceRange_neg a b c d hneg]
  · simp only [hneg, if_false, h1, h2, h3, h4, Bool.and_self, Bool.not_true, Bool.false_eq_true]
    cases Idx.sliceRange a b c d <;> rfl

/-- one position of a range: inside → `rangePos`, outside (or negative) → `index_out_of_bounds` -/
theorem sliceRangeM_single (a b i : Int) (h : inInt32 (a + i) = true ∧ inInt32 (a - i) = true) (s : St) :
    sliceRangeM a b i i s =
      if 0 ≤ i ∧ i < (Idx.rangeLen a b : Int) then .ok (Idx.rangePos a b i, Idx.rangePos a b i) s
      else throwE .index_out_of_bounds s := by
  rw [sliceRangeM_eq a b i i ⟨h.1, h.1, h.2, h.2⟩]
  by_cases hi : 0 ≤ i
  · by_cases hlt : i < (Idx.rangeLen a b : Int)
    · rw [(Idx.sliceRange_single a b i hi).1 hlt]
      simp only [hi, hlt, and_self, if_true]
    · rw [(Idx.sliceRange_single a b i hi).2 (by omega)]
      simp only [hlt, and_false, if_false]
  · rw [Idx.sliceRange_neg a b i i (Or.inl (by omega))]
    simp only [hi, false_and, if_false]

/-- the bounds of a 1-dimensional range object, read from its two cells -/
theorem rngBounds_ok (s : St) (o lf lt : Loc) (a b : Int32)
    (ho : s.mem[o]? = some (.rngObj #[lf, lt])) (hf : s.mem[lf]? = some (.int a)) (ht : s.mem[lt]? = some (.int b)) :
    rngBounds o s = .ok [(a.toInt, b.toInt)] s := by
  simp only [rngBounds, bind_eq, M.bind, load_ok o s _ ho, getInts, getInt_ok lf s a hf, getInt_ok lt s b ht]
  rfl

theorem rngLoopInit_ok (s : St) (o lf lt : Loc) (a b : Int32)
    (ho : s.mem[o]? = some (.rngObj #[lf, lt])) (hf : s.mem[lf]? = some (.int a)) (ht : s.mem[lt]? = some (.int b)) :
    rngLoopInit o s = .ok (a.toInt, decide (a.toInt < b.toInt), lt) s := by
  simp only [rngLoopInit, bind_eq, M.bind, load_ok o s _ ho]
  simp [getInt_ok lf s a hf, getInt_ok lt s b ht, M.bind, pure, M.pure]

/-! ### the counter discipline of a loop over a range -/

/-- the values the counter of `for (x in [a..b])` takes while nothing assigns `to`: it starts at `cur`,
moves towards `t`, stops after `t` (`fuel` bounds the number of iterations) -/
def loopVals (asc : Bool) (t : Int) : Nat → Int → List Int
  | 0, _ => []
  | fuel + 1, cur => if inRange asc cur t then cur :: loopVals asc t fuel (stepRange asc cur) else []

theorem loopVals_asc (t : Int) : ∀ (n : Nat) (fuel : Nat) (cur : Int), cur + n = t + 1 → n ≤ fuel →
    loopVals true t fuel cur = (List.range n).map (fun (k : Nat) => cur + (k : Int))
  | 0, fuel, cur, h, _ => by
    cases fuel with
    | zero => rfl
    | succ f =>
      have : ¬ cur ≤ t := by omega
      simp [loopVals, inRange, this]
  | n + 1, fuel, cur, h, hf => by
    cases fuel with
    | zero => omega
    | succ f =>
      have hle : cur ≤ t := by omega
      have ih := loopVals_asc t n f (cur + 1) (by omega) (by omega)
      rw [List.range_succ_eq_map]
      simp only [loopVals, inRange, hle, decide_true, if_true, stepRange, ih, List.map_cons, List.map_map]
      congr 1
      · simp
      · apply List.map_congr_left
        intro k _
        simp only [Function.comp]
        omega

theorem loopVals_desc (t : Int) : ∀ (n : Nat) (fuel : Nat) (cur : Int), cur + 1 = t + n → n ≤ fuel →
    loopVals false t fuel cur = (List.range n).map (fun (k : Nat) => cur - (k : Int))
  | 0, fuel, cur, h, _ => by
    cases fuel with
    | zero => rfl
    | succ f =>
      have : ¬ t ≤ cur := by omega
      simp [loopVals, inRange, this]
  | n + 1, fuel, cur, h, hf => by
    cases fuel with
    | zero => omega
    | succ f =>
      have hle : t ≤ cur := by omega
      have ih := loopVals_desc t n f (cur - 1) (by omega) (by omega)
      rw [List.range_succ_eq_map]
      simp only [loopVals, inRange, hle, decide_true, if_true, stepRange, ih, List.map_cons, List.map_map,
        Bool.false_eq_true, if_false]
      congr 1
      · simp
      · apply List.map_congr_left
        intro k _
        simp only [Function.comp]
        omega

/-- **The loop counter visits the positions of the range, in order.**  A loop over `[a..b]` whose `to` cell is
not assigned takes the counter through `rangePos a b 0, …, rangePos a b (rangeLen a b − 1)` (C12's denotation of
the range) and stops; any fuel above the length suffices -/
theorem loopVals_positions (a b : Int) (fuel : Nat) (hf : Idx.rangeLen a b < fuel) :
    loopVals (decide (a < b)) b fuel a = (List.range (Idx.rangeLen a b)).map (fun (k : Nat) => Idx.rangePos a b k) := by
  by_cases h : a < b
  · have hl : a + (Idx.rangeLen a b : Nat) = b + 1 := by simp only [Idx.rangeLen]; omega
    simp only [h, decide_true]
    rw [loopVals_asc b (Idx.rangeLen a b) fuel a hl (by omega)]
    apply List.map_congr_left
    intro k _
    simp only [Idx.rangePos, h, if_true]
  · have hl : a + 1 = b + (Idx.rangeLen a b : Nat) := by simp only [Idx.rangeLen]; omega
    simp only [h, decide_false]
    rw [loopVals_desc b (Idx.rangeLen a b) fuel a hl (by omega)]
    apply List.map_congr_left
    intro k _
    simp only [Idx.rangePos, h, if_false]

end Never.Src
