/-
Ranges and slices of the reference evaluator (M-Src) against the index arithmetic of C12
(`Never.Idx`, Model/Index.lean): the evaluator's monadic helpers computed on a store whose range
object and bound cells are known.
-/
import NeverModel.Lemmas.SrcAlpha
import NeverModel.Props.C12
namespace Never.Src

/-- no C `int` overflow in `vm_get_slice_range a _ c d` (the additions `a ± c`, `a ± d`) -/
def NoOvf (a c d : Int) : Prop :=
  inInt32 (a + c) = true ∧ inInt32 (a + d) = true ∧ inInt32 (a - c) = true ∧ inInt32 (a - d) = true

theorem load_ok (l : Loc) (s : St) (v : Val) (h : s.mem[l]? = some v) : load l s = .ok v s := by
  simp only [load, h]

theorem getInt_ok (l : Loc) (s : St) (a : Int32) (h : s.mem[l]? = some (.int a)) : getInt l s = .ok a.toInt s := by
  simp only [getInt, bind_eq, M.bind, load_ok l s _ h]; rfl

/-- where no addition overflows, `sliceRangeM` is `vm_get_slice_range` of C12 -/
theorem sliceRangeM_eq (a b c d : Int) (h : NoOvf a c d) (s : St) :
    sliceRangeM a b c d s =
      match Idx.sliceRange a b c d with
      | some r => .ok r s
      | none => throwE .index_out_of_bounds s := by
  obtain ⟨h1, h2, h3, h4⟩ := h
  unfold sliceRangeM
  by_cases hneg : c < 0 ∨ d < 0
  · simp only [hneg, if_true, Idx.sliceRange_neg a b c d hneg]
  · simp only [hneg, if_false, h1, h2, h3, h4, Bool.and_self, Bool.not_true, Bool.false_eq_true]
    cases Idx.sliceRange a b c d <;> rfl

/-- one position of a range: inside → `rangePos`, outside (or negative) → `index_out_of_bounds` -/
theorem sliceRangeM_single (a b i : Int) (h : inInt32 (a + i) = true ∧ inInt32 (a - i) = true) (s : St) :
    sliceRangeM a b i i s =
      if 0 ≤ i ∧ i < (Idx.rangeLen a b : Int) then .ok (Idx.rangePos a b i, Idx.rangePos a b i) s
      else throwE .index_out_of_bounds s := by
  rw [sliceRangeM_eq a b i i ⟨h.1, h.1, h.2, h.2⟩]
  by_cases hi : 0 ≤ i
  · by_cases hlt : i < (Idx.rangeLen a b : Int)
    · rw [(Idx.sliceRange_single a b i hi).1 hlt]
      simp only [hi, hlt, and_self, if_true]
    · rw [(Idx.sliceRange_single a b i hi).2 (by omega)]
      simp only [hlt, and_false, if_false]
  · rw [Idx.sliceRange_neg a b i i (Or.inl (by omega))]
    simp only [hi, false_and, if_false]

/-- the bounds of a 1-dimensional range object, read from its two cells -/
theorem rngBounds_ok (s : St) (o lf lt : Loc) (a b : Int32)
    (ho : s.mem[o]? = some (.rngObj #[lf, lt])) (hf : s.mem[lf]? = some (.int a)) (ht : s.mem[lt]? = some (.int b)) :
    rngBounds o s = .ok [(a.toInt, b.toInt)] s := by
  simp only [rngBounds, bind_eq, M.bind, load_ok o s _ ho, getInts, getInt_ok lf s a hf, getInt_ok lt s b ht]
  rfl

theorem rngLoopInit_ok (s : St) (o lf lt : Loc) (a b : Int32)
    (ho : s.mem[o]? = some (.rngObj #[lf, lt])) (hf : s.mem[lf]? = some (.int a)) (ht : s.mem[lt]? = some (.int b)) :
    rngLoopInit o s = .ok (a.toInt, decide (a.toInt < b.toInt), lt) s := by
  simp only [rngLoopInit, bind_eq, M.bind, load_ok o s _ ho]
  simp [getInt_ok lf s a hf, getInt_ok lt s b ht, M.bind, pure, M.pure]

/-! ### the counter discipline of a loop over a range -/

/-- the values the counter of `for (x in [a..b])` takes while nothing assigns `to`: it starts at `cur`,
moves towards `t`, stops after `t` (`fuel` bounds the number of iterations) -/
def loopVals (asc : Bool) (t : Int) : Nat → Int → List Int
  | 0, _ => []
  | fuel + 1, cur => if inRange asc cur t then cur :: loopVals asc t fuel (stepRange asc cur) else []

theorem loopVals_asc (t : Int) : ∀ (n : Nat) (fuel : Nat) (cur : Int), cur + n = t + 1 → n ≤ fuel →
    loopVals true t fuel cur = (List.range n).map (fun (k : Nat) => cur + (k : Int))
  | 0, fuel, cur, h, _ => by
    cases fuel with
    | zero => rfl
    | succ f =>
      have : ¬ cur ≤ t := by omega
      simp [loopVals, inRange, this]
  | n + 1, fuel, cur, h, hf => by
    cases fuel with
    | zero => omega
    | succ f =>
      have hle : cur ≤ t := by omega
      have ih := loopVals_asc t n f (cur + 1) (by omega) (by omega)
      rw [List.range_succ_eq_map]
      simp only [loopVals, inRange, hle, decide_true, if_true, stepRange, ih, List.map_cons, List.map_map]
      congr 1
      · simp
      · apply List.map_congr_left
        intro k _
        simp only [Function.comp]
        omega

theorem loopVals_desc (t : Int) : ∀ (n : Nat) (fuel : Nat) (cur : Int), cur + 1 = t + n → n ≤ fuel →
    loopVals false t fuel cur = (List.range n).map (fun (k : Nat) => cur - (k : Int))
  | 0, fuel, cur, h, _ => by
    cases fuel with
    | zero => rfl
    | succ f =>
      have : ¬ t ≤ cur := by omega
      simp [loopVals, inRange, this]
  | n + 1, fuel, cur, h, hf => by
    cases fuel with
    | zero => omega
    | succ f =>
      have hle : t ≤ cur := by omega
      have ih := loopVals_desc t n f (cur - 1) (by omega) (by omega)
      rw [List.range_succ_eq_map]
      simp only [loopVals, inRange, hle, decide_true, if_true, stepRange, ih, List.map_cons, List.map_map,
        Bool.false_eq_true, if_false]
      congr 1
      · simp
      · apply List.map_congr_left
        intro k _
        simp only [Function.comp]
        omega

/-- **The loop counter visits the positions of the range, in order.**  A loop over `[a..b]` whose `to` cell is
not assigned takes the counter through `rangePos a b 0, …, rangePos a b (rangeLen a b − 1)` (C12's denotation of
the range) and stops; any fuel above the length suffices -/
theorem loopVals_positions (a b : Int) (fuel : Nat) (hf : Idx.rangeLen a b < fuel) :
    loopVals (decide (a < b)) b fuel a = (List.range (Idx.rangeLen a b)).map (fun (k : Nat) => Idx.rangePos a b k) := by
  by_cases h : a < b
  · have hl : a + (Idx.rangeLen a b : Nat) = b + 1 := by simp only [Idx.rangeLen]; omega
    simp only [h, decide_true]
    rw [loopVals_asc b (Idx.rangeLen a b) fuel a hl (by omega)]
    apply List.map_congr_left
    intro k _
    simp only [Idx.rangePos, h, if_true]
  · have hl : a + 1 = b + (Idx.rangeLen a b : Nat) := by simp only [Idx.rangeLen]; omega
    simp only [h, decide_false]
    rw [loopVals_desc b (Idx.rangeLen a b) fuel a hl (by omega)]
    apply List.map_congr_left
    intro k _
    simp only [Idx.rangePos, h, if_false]

/-! ### the comprehension `[ x | x in r ]` over a range: what it does to the store -/


/-- what one round of the comprehension `[ x | x in r ]` does to the store: a fresh int cell holding `v`, appended to
the array object `o` under construction -/
def genStep (o : Loc) (s : St) (v : Int) : St :=
  match s.mem[o]? with
  | some (.arrObj _ elems) =>
    { s with mem := (s.mem.push (.int (Int32.ofInt v))).setIfInBounds o (.arrObj [elems.size + 1] (elems.push s.mem.size)) }
  | _ => s

theorem lt_size_of_getElem? {α} (a : Array α) (i : Nat) (v : α) (h : a[i]? = some v) : i < a.size :=
  (Array.getElem?_eq_some_iff.mp h).1

theorem evalGenRng_succ (f : Nat) (ctx : Ctx) (env : Env) (x : Name) (ao : Option Loc) (cur : Int) (asc : Bool) (lt : Loc)
    (qs : List Qual) (body : Expr) (ty : Ty) (o : Loc) :
    evalGenRng (f + 1) ctx env x ao cur asc lt qs body ty o = (do
      let t ← getInt lt
      if inRange asc cur t then
        let l ← rngElem ao cur
        evalQuals f ctx ((x, l) :: env) qs body ty o
        if inInt32 (stepRange asc cur) then evalGenRng f ctx env x ao (stepRange asc cur) asc lt qs body ty o
        else stopM (.crash "range counter overflows int")
      else pure ()) := by
  rw [evalGenRng]

theorem genRng_var_run (ctx : Ctx) (env : Env) (x : Name) (asc : Bool) (lt o : Loc) (t : Int32) (hne : lt ≠ o) :
    ∀ (vals : List Int) (f : Nat) (cur : Int) (s : St) (d : List Nat) (elems : Array Loc),
      vals = loopVals asc t.toInt (vals.length + 1) cur →
      (∀ v ∈ vals, inInt32 (stepRange asc v) = true) →
      s.mem[lt]? = some (.int t) → s.mem[o]? = some (.arrObj d elems) →
      vals.length + 3 ≤ f →
      evalGenRng f ctx env x none cur asc lt [] (.var x) .int o s = .ok () (vals.foldl (genStep o) s)
  | [], f, cur, s, d, elems, hv, _, ht, ho, hf => by
    obtain ⟨f', rfl⟩ : ∃ f', f = f' + 1 := ⟨f - 1, by omega⟩
    have hnr : inRange asc cur t.toInt = false := by
      simp only [List.length_nil, loopVals] at hv
      cases h : inRange asc cur t.toInt
      · rfl
      · rw [h] at hv; simp at hv
    rw [evalGenRng_succ]
    simp only [bind_eq, M.bind, getInt_ok lt s t ht, hnr, List.foldl_nil]
    rfl
  | v :: rest, f, cur, s, d, elems, hv, hov, ht, ho, hf => by
    obtain ⟨f', rfl⟩ : ∃ f', f = f' + 3 := ⟨f - 3, by simp at hf; omega⟩
    have hir : inRange asc cur t.toInt = true := by
      cases h : inRange asc cur t.toInt
      · simp only [List.length_cons, loopVals, h] at hv; simp at hv
      · rfl
    have hv' : v = cur ∧ rest = loopVals asc t.toInt (rest.length + 1) (stepRange asc cur) := by
      simp only [List.length_cons, loopVals, hir, if_true] at hv
      injection hv with h1 h2
      exact ⟨h1, h2⟩
    obtain ⟨rfl, hrest⟩ := hv'
    have hlt := lt_size_of_getElem? _ _ _ ht
    have hos := lt_size_of_getElem? _ _ _ ho
    have hstep : inInt32 (stepRange asc v) = true := hov v (by simp)
    -- the state after one round
    have hs2 : genStep o s v = { s with mem := (s.mem.push (.int (Int32.ofInt v))).setIfInBounds o (.arrObj [elems.size + 1] (elems.push s.mem.size)) } := by
      simp only [genStep, ho]
    have ht2 : (genStep o s v).mem[lt]? = some (.int t) := by
      rw [hs2]
      simp only [Array.getElem?_setIfInBounds, Array.size_push, Array.getElem?_push]
      have h1 : ¬ o = lt := fun h => hne h.symm
      have h2 : ¬ lt = s.mem.size := Nat.ne_of_lt hlt
      simp only [h1, if_false, h2]
      exact ht
    have ho2 : (genStep o s v).mem[o]? = some (.arrObj [elems.size + 1] (elems.push s.mem.size)) := by
      rw [hs2]
      simp only [Array.getElem?_setIfInBounds, Array.size_push]
      have : o < s.mem.size + 1 := Nat.lt_succ_of_lt hos
      simp [this]
    have ih := genRng_var_run ctx env x asc lt o t hne rest (f' + 2) (stepRange asc v) (genStep o s v) [elems.size + 1]
      (elems.push s.mem.size) hrest (fun w hw => hov w (by simp [hw])) ht2 ho2 (by simp at hf ⊢; omega)
    simp only [List.foldl_cons]
    have hre : rngElem none v s = .ok s.mem.size { s with mem := s.mem.push (.int (Int32.ofInt v)) } := rfl
    have hq : evalQuals (f' + 2) ctx ((x, s.mem.size) :: env) [] (.var x) .int o
        { s with mem := s.mem.push (.int (Int32.ofInt v)) } = .ok () (genStep o s v) := by
      have hpo : (s.mem.push (Val.int (Int32.ofInt v)))[o]? = some (.arrObj d elems) := by
        simp only [Array.getElem?_push]
        have : ¬ o = s.mem.size := Nat.ne_of_lt hos
        simp only [this, if_false]; exact ho
      simp only [bind_eq, M.bind, evalQuals, evalE, lookup, if_true, pure, M.pure, convCell, load,
        Array.getElem?_push, if_true, convTo, hpo, store, hs2]
    rw [evalGenRng_succ]
    simp only [bind_eq, M.bind, getInt_ok lt s t ht, hir, if_true, hre, hq, hstep]
    exact ih

theorem genStep_eq (o : Loc) (s : St) (v : Int) (d : List Nat) (elems : Array Loc) (ho : s.mem[o]? = some (.arrObj d elems)) :
    genStep o s v = { s with mem := (s.mem.push (.int (Int32.ofInt v))).setIfInBounds o (.arrObj [elems.size + 1] (elems.push s.mem.size)) } := by
  simp only [genStep, ho]

/-- the store after the rounds of `genStep`: the new cells hold the values in order, the array object lists them after
its old elements, nothing else changed -/
theorem genFold_spec (o : Loc) : ∀ (vals : List Int) (s : St) (d : List Nat) (elems : Array Loc),
    s.mem[o]? = some (.arrObj d elems) →
    (vals.foldl (genStep o) s).mem.size = s.mem.size + vals.length ∧
    (vals.foldl (genStep o) s).mem[o]? = some (.arrObj (if vals = [] then d else [elems.size + vals.length])
        (elems ++ ((List.range vals.length).map (fun k => s.mem.size + k)).toArray)) ∧
    (∀ k, (h : k < vals.length) → (vals.foldl (genStep o) s).mem[s.mem.size + k]? = some (.int (Int32.ofInt vals[k]))) ∧
    (∀ l, l < s.mem.size → l ≠ o → (vals.foldl (genStep o) s).mem[l]? = s.mem[l]?) ∧
    (vals.foldl (genStep o) s).out = s.out
  | [], s, d, elems, ho => by
    refine ⟨by simp, ?_, ?_, ?_, rfl⟩
    · simp [ho]
    · intro k h; simp at h
    · intro l _ _; rfl
  | v :: rest, s, d, elems, ho => by
    have hos : o < s.mem.size := lt_size_of_getElem? _ _ _ ho
    have h1 := genStep_eq o s v d elems ho
    have hsz : (genStep o s v).mem.size = s.mem.size + 1 := by rw [h1]; simp
    have ho1 : (genStep o s v).mem[o]? = some (.arrObj [elems.size + 1] (elems.push s.mem.size)) := by
      rw [h1]
      simp only [Array.getElem?_setIfInBounds, Array.size_push]
      have : o < s.mem.size + 1 := Nat.lt_succ_of_lt hos
      simp [this]
    have hnew : (genStep o s v).mem[s.mem.size]? = some (.int (Int32.ofInt v)) := by
      rw [h1]
      simp only [Array.getElem?_setIfInBounds, Array.size_push, Array.getElem?_push]
      have : ¬ o = s.mem.size := Nat.ne_of_lt hos
      simp [this]
    have hframe : ∀ l, l < s.mem.size → l ≠ o → (genStep o s v).mem[l]? = s.mem[l]? := by
      intro l hl hne
      rw [h1]
      simp only [Array.getElem?_setIfInBounds, Array.size_push, Array.getElem?_push]
      have h2 : ¬ o = l := fun h => hne h.symm
      have h3 : ¬ l = s.mem.size := Nat.ne_of_lt hl
      simp [h2, h3]
    obtain ⟨i1, i2, i3, i4, i5⟩ := genFold_spec o rest (genStep o s v) [elems.size + 1] (elems.push s.mem.size) ho1
    simp only [List.foldl_cons, List.length_cons]
    refine ⟨by rw [i1, hsz]; omega, ?_, ?_, ?_, ?_⟩
    · rw [i2, hsz]
      simp only [reduceCtorEq, if_false, Array.size_push]
      congr 2
      · cases rest <;> simp <;> omega
      · rw [List.range_succ_eq_map]
        simp only [List.map_cons, List.map_map, Nat.add_zero]
        apply Array.ext'
        simp only [Array.toList_append, Array.toList_push, List.append_assoc, List.singleton_append]
        congr 2
        apply List.map_congr_left
        intro k _
        simp only [Function.comp]
        omega
    · intro k hk
      cases k with
      | zero =>
        have := i4 s.mem.size (by rw [hsz]; omega) (Nat.ne_of_gt hos)
        simp only [Nat.add_zero, List.getElem_cons_zero]
        rw [this, hnew]
      | succ k =>
        have := i3 k (by simpa using hk)
        rw [hsz] at this
        simp only [List.getElem_cons_succ]
        have e : s.mem.size + (k + 1) = s.mem.size + 1 + k := by omega
        rw [e]
        exact this
    · intro l hl hne
      rw [i4 l (by rw [hsz]; omega) hne, hframe l hl hne]
    · rw [i5, h1]

/-! ### array arithmetic: the shape guards of C12 on extent lists, the cells of an element-wise result -/

theorem canAdd_extDv (d1 d2 : List Nat) : Idx.canAdd (extDv d1) (extDv d2) = true ↔ d1 = d2 := by
  rw [(Idx.shape_conformance (extDv d1) (extDv d2)).1]
  simp only [extDv, List.length_map, List.getElem_map]
  constructor
  · rintro ⟨hl, h⟩
    apply List.ext_getElem hl
    intro k h1 h2
    exact h k h1 h2
  · rintro rfl
    exact ⟨rfl, fun _ _ _ => rfl⟩

theorem canMult_extDv (d1 d2 : List Nat) :
    Idx.canMult (extDv d1) (extDv d2) = true ↔ ∃ r1 c1 c2, d1 = [r1, c1] ∧ d2 = [c1, c2] := by
  rw [(Idx.shape_conformance (extDv d1) (extDv d2)).2]
  constructor
  · rintro ⟨rows1, m1, cols1, m2, rows2, m3, cols2, m4, h1, h2, rfl⟩
    refine ⟨rows1, cols1, cols2, ?_, ?_⟩
    · match d1, h1 with
      | [a, b], h => simp [extDv] at h; obtain ⟨⟨rfl, _⟩, rfl, _⟩ := h; rfl
    · match d2, h2 with
      | [a, b], h => simp [extDv] at h; obtain ⟨⟨rfl, _⟩, rfl, _⟩ := h; rfl
  · rintro ⟨r1, c1, c2, rfl, rfl⟩
    exact ⟨r1, 1, c1, 1, c1, 1, c2, 1, rfl, rfl, rfl⟩

/-- element results that are all values become consecutive fresh cells holding them, in order -/
theorem allocRes_vals : ∀ (vs : List Val) (s : St),
    allocRes (vs.map OpRes.val) s =
      .ok ((List.range vs.length).map (fun k => s.mem.size + k)) { s with mem := s.mem ++ vs.toArray }
  | [], s => by simp [allocRes, pure, M.pure]
  | v :: vs, s => by
    have ih := allocRes_vals vs { s with mem := s.mem.push v }
    simp only [List.map_cons, allocRes, liftOp, bind_eq, M.bind, pure, M.pure, alloc, ih, List.length_cons]
    congr 1
    · rw [List.range_succ_eq_map]
      simp only [List.map_cons, List.map_map, Nat.add_zero, Array.size_push]
      congr 1
      apply List.map_congr_left
      intro k _
      show s.mem.size + 1 + k = s.mem.size + (k + 1)
      omega
    · congr 1
      apply Array.ext'
      simp

end Never.Src
