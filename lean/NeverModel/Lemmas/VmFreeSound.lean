import NeverModel.Model.Verify
import NeverModel.Lemmas.VmFreeOpsA
import NeverModel.Lemmas.VmFreeOpsB
import NeverModel.Lemmas.VmFreeOpsC
import NeverModel.Lemmas.VerRun
set_option linter.unusedSimpArgs false
set_option linter.unusedVariables false
/-! every handler of M-VM, hence every `step`, keeps the heap's bookkeeping invariant `FreeInv` — for any module, verified or not -/
namespace Never.Vm
open Never Never.Num Never.Ver

set_option maxRecDepth 8000 in
theorem kfop_JUMPZ (md : Module) (ins : Instr) (orc : Oracle) (h : ins.op = .JUMPZ) : KF none (exec md ins orc) := by exec_kf h

set_option maxHeartbeats 4000000 in
set_option maxRecDepth 8000 in
/-- every handler of the effect table keeps the heap's bookkeeping invariant and frees no cell -/
theorem exec_kf_table (md : Module) (ins : Instr) (orc : Oracle) (p q : Nat) (h : simpleEffect ins = some (p, q)) :
    KF none (exec md ins orc) := by
  cases hb : binOpOf ins.op with
  | some tb =>
    obtain ⟨ty, bop⟩ := tb
    intro vm a vm' hr; cases a; rw [exec_bin md ins orc ty bop hb] at hr; exact kf_execBin ty bop vm () vm' hr
  | none =>
  cases hu : unOpOf ins.op with
  | some tu =>
    obtain ⟨ty, uop⟩ := tu
    intro vm a vm' hr; cases a; rw [exec_un md ins orc ty uop hb hu] at hr; exact kf_execUn ty uop vm () vm' hr
  | none =>
  cases hc : convOf ins.op with
  | some tc =>
    obtain ⟨src, dst⟩ := tc
    intro vm a vm' hr; cases a; rw [exec_conv md ins orc src dst hb hu hc] at hr; exact kf_execConv src dst vm () vm' hr
  | none =>
  cases hn : nilCmpOf ins.op with
  | some tn => obtain ⟨k, nl, ng⟩ := tn; exact kfop_nilCmp md ins orc k nl ng hb hu hc hn
  | none =>
  cases hs : strAddOf ins.op with
  | some ts => obtain ⟨ty, sl⟩ := ts; exact kfop_strAdd md ins orc ty sl hb hu hc hn hs
  | none =>
  cases ha : arrOpOf ins.op with
  | some ta => obtain ⟨ty, kind⟩ := ta; exact kfop_arrOp md ins orc ty kind hb hu hc hn hs ha
  | none =>
  cases hm : mkArrayElem ins.op with
  | some dflt => exact kfop_mkArray md ins orc dflt hb hu hc hn hs ha hm
  | none =>
  cases hop : ins.op
  all_goals (first
    | (rw [hop] at hb; simp [binOpOf] at hb; done) | (rw [hop] at hu; simp [unOpOf] at hu; done)
    | (rw [hop] at hc; simp [convOf] at hc; done) | (rw [hop] at hn; simp [nilCmpOf] at hn; done)
    | (rw [hop] at hs; simp [strAddOf] at hs; done) | (rw [hop] at ha; simp [arrOpOf] at ha; done)
    | (rw [hop] at hm; simp [mkArrayElem] at hm; done) | skip)
  all_goals simp only [simpleEffect, hop, binOpOf, unOpOf, convOf, nilCmpOf, strAddOf, arrOpOf, mkArrayElem, Option.isSome_none, Bool.false_eq_true, if_false] at h
  all_goals (first | (cases h; done) | skip)
  case JUMPZ => exact kfop_JUMPZ md ins orc hop
  all_goals first
    | exact kfop_INT md ins orc hop
    | exact kfop_LONG md ins orc hop
    | exact kfop_FLOAT md ins orc hop
    | exact kfop_DOUBLE md ins orc hop
    | exact kfop_CHAR md ins orc hop
    | exact kfop_STRING md ins orc hop
    | exact kfop_C_NULL md ins orc hop
    | exact kfop_ID_TOP md ins orc hop
    | exact kfop_ID_LOCAL md ins orc hop
    | exact kfop_ID_DIM_LOCAL md ins orc hop
    | exact kfop_ID_DIM_SLICE md ins orc hop
    | exact kfop_ID_GLOBAL md ins orc hop
    | exact kfop_OP_DUP_INT md ins orc hop
    | exact kfop_COPYGLOB md ins orc hop
    | exact kfop_NIL_RECORD_REF md ins orc hop
    | exact kfop_PUSH_EXCEPT md ins orc hop
    | exact kfop_VEC_DEREF md ins orc hop
    | exact kfop_VECREF_VEC_DEREF md ins orc hop
    | exact kfop_DUP md ins orc hop
    | exact kfop_ID_FUNC_ADDR md ins orc hop
    | exact kfop_ID_FUNC_ENTRY md ins orc hop
    | exact kfop_ENUMTYPE_RECORD_TO_INT md ins orc hop
    | exact kfop_VECREF_DEREF md ins orc hop
    | exact kfop_LABEL md ins orc hop
    | exact kfop_LINE md ins orc hop
    | exact kfop_FUNC_DEF md ins orc hop
    | exact kfop_FUNC_OBJ md ins orc hop
    | exact kfop_OP_INC_INT md ins orc hop
    | exact kfop_OP_DEC_INT md ins orc hop
    | exact kfop_OP_ADD_STRING md ins orc hop
    | exact kfop_OP_EQ_STRING md ins orc hop
    | exact kfop_OP_NEQ_STRING md ins orc hop
    | exact kfop_OP_EQ_C_PTR md ins orc hop
    | exact kfop_OP_NEQ_C_PTR md ins orc hop
    | exact kfop_OP_EQ_NIL md ins orc hop
    | exact kfop_OP_NEQ_NIL md ins orc hop
    | exact kfop_SLICE_ARRAY md ins orc hop
    | exact kfop_SLICE_RANGE md ins orc hop
    | exact kfop_SLICE_SLICE md ins orc hop
    | exact kfop_SLICE_STRING md ins orc hop
    | exact kfop_STRING_DEREF md ins orc hop
    | exact kfop_VECREF_VEC_INDEX_DEREF md ins orc hop
    | exact kfop_OP_ASS_INT md ins orc hop
    | exact kfop_OP_ASS_LONG md ins orc hop
    | exact kfop_OP_ASS_FLOAT md ins orc hop
    | exact kfop_OP_ASS_DOUBLE md ins orc hop
    | exact kfop_OP_ASS_CHAR md ins orc hop
    | exact kfop_OP_ASS_STRING md ins orc hop
    | exact kfop_OP_ASS_C_PTR md ins orc hop
    | exact kfop_OP_ASS_ARRAY md ins orc hop
    | exact kfop_OP_ASS_RECORD md ins orc hop
    | exact kfop_OP_ASS_FUNC md ins orc hop
    | exact kfop_OP_ASS_RECORD_NIL md ins orc hop
    | exact kfop_REWRITE md ins orc hop
    | exact kfop_ARRAY_APPEND md ins orc hop
    | exact kfop_MK_RANGE md ins orc hop
    | exact kfop_RECORD md ins orc hop
    | exact kfop_GLOBAL_VEC md ins orc hop
    | exact kfop_ALLOC md ins orc hop
    | exact kfop_RANGE_DEREF md ins orc hop
    | exact kfop_RECORD_UNPACK md ins orc hop
    | exact kfop_SLICE_DEREF md ins orc hop
    | exact kfop_ARRAY_DEREF md ins orc hop
    | exact kfop_ARRAYREF_DEREF md ins orc hop
    | exact kfop_BUILD_IN md ins orc hop



theorem wrP_gc {vm vm' : Vm} {i : Int} {s : Slot} (h : wrP vm i s = .ok vm') : vm'.gc = vm.gc := (wrP_regs h).2.2.2.2.2.2.2.2.1

theorem markP_gc {vm vm' : Vm} {ra : Nat} (h : markP vm ra = .ok vm') : vm'.gc = vm.gc := by
  unfold markP at h
  simp only [bind, Except.bind] at h
  split at h
  · cases h
  · rename_i v0 h0
    obtain ⟨e0, _⟩ := checkP_regs h0
    subst e0
    split at h
    · cases h
    · rename_i v1 h1
      split at h
      · cases h
      · rename_i v2 h2
        split at h
        · cases h
        · rename_i v3 h3
          split at h
          · cases h
          · rename_i v4 h4
            split at h
            · cases h
            · rename_i v5 h5
              cases h
              show v5.gc = vm.gc
              rw [wrP_gc h5, wrP_gc h4, wrP_gc h3, wrP_gc h2, wrP_gc h1]

theorem slideP_gc {vm vm' : Vm} {q m : Nat} (h : slideP vm q m = .ok vm') : vm'.gc = vm.gc := by
  unfold slideP at h
  split at h
  · cases h; rfl
  · split at h
    · cases h; rfl
    · exact (slideLoopP_regs q m { vm with sp := vm.sp - q - m } _ h).2.2.2.2.2.2.2

theorem retP_gc {vm vm' : Vm} (h : retP vm = .ok vm') : vm'.gc = vm.gc := by
  unfold retP at h
  simp only [bind, Except.bind] at h
  split at h
  · cases h
  · split at h
    · cases h
    · split at h
      · cases h
      · split at h
        · cases h
        · split at h
          · cases h
          · rename_i v hv
            split at h
            · cases h
            · cases h
              show v.gc = vm.gc
              exact wrP_gc hv

/-- the collection a safe point triggers (`gc_run` under the configured schedule) keeps the bookkeeping invariant -/
theorem gcRunPure_freeInv {vm vm' : Vm} (h : gcRunPure vm = .ok vm') (hi : FreeInv vm.gc) : FreeInv vm'.gc := by
  unfold gcRunPure at h
  split at h
  · cases h; exact hi
  · dsimp only at h
    split at h
    · rename_i g hg
      cases h
      show FreeInv g
      split at hg
      · exact freeInv_collect hi hg
      · exact freeInv_run hi hg
    · cases h

theorem kf_fillStrs (arr : Nat) : ∀ (ss : List (List UInt8)) (i : Nat), KF none (fillStrs arr i ss) := by
  intro ss
  induction ss with
  | nil => intro i; unfold fillStrs; kf
  | cons s rest ih => intro i; unfold fillStrs; have := ih (i + 1); kf

theorem kf_pushParams : ∀ (ps : List Param), KF none (pushParams ps) := by
  intro ps
  induction ps with
  | nil => unfold pushParams; kf
  | cons p rest ih =>
    have := kf_fillStrs
    unfold pushParams
    cases p <;> (dsimp only; kf)

set_option maxHeartbeats 4000000 in
set_option maxRecDepth 8000 in
/-- **every handler of M-VM keeps the heap's bookkeeping invariant** (all 222 opcodes, any module, any machine state) -/
theorem exec_keeps_freeInv (md : Module) (ins : Instr) (orc : Oracle) (vm vm' : Vm)
    (h : (exec md ins orc).run vm = .ok ((), vm')) (hi : FreeInv vm.gc) : FreeInv vm'.gc := by
  have ofKF : KF none (exec md ins orc) → FreeInv vm'.gc := fun hk => (hk vm () vm' h).2 (fun a ha => by cases ha) hi
  cases he : simpleEffect ins with
  | some pq => exact ofKF (exec_kf_table md ins orc pq.1 pq.2 he)
  | none =>
    rcases simpleEffect_none_cases ins he with hop | hop | hop | hop | hop | hop | hop | hop | hop | hop | hop | hop | hop | hop
    · exact absurd h (exec_unmodelled_fails md ins orc _ _ (Or.inl hop))
    · exact absurd h (exec_unmodelled_fails md ins orc _ _ (Or.inr (Or.inl hop)))
    · exact absurd h (exec_unmodelled_fails md ins orc _ _ (Or.inr (Or.inr hop)))
    · exec_unfold hop at h
      obtain ⟨sp, s0, h0, hA⟩ := (run_bind_ok _ _ _ _ _).mp h
      obtain ⟨_, e0'⟩ := getSp_run _ _ _ h0
      rw [e0'] at hA
      rw [modify_run _ _ _ _ hA]; exact hi
    · exact ofKF (by exec_kf hop)
    · rw [markP_gc (exec_MARK md ins orc hop _ _ h)]; exact hi
    · obtain ⟨a, env, fip, _, _, e⟩ := exec_CALL md ins orc hop _ _ h
      rw [e]; unfold callP; split <;> exact hi
    · rcases exec_SLIDE md ins orc hop _ _ h with ⟨_, hg0⟩ | ⟨_, v1, hsl, hgc⟩
      · exact gcRunPure_freeInv hg0 hi
      · exact gcRunPure_freeInv hgc (by rw [slideP_gc hsl]; exact hi)
    · rw [exec_CLEAR_STACK md ins orc hop _ _ h]; exact hi
    · obtain ⟨v1, hr, hgc⟩ := exec_RET md ins orc hop _ _ h
      exact gcRunPure_freeInv hgc (by rw [retP_gc hr]; exact hi)
    · obtain ⟨v1, v2, hr, hgc, e⟩ := exec_RETHROW md ins orc hop _ _ h
      rw [e]
      show FreeInv v2.gc
      exact gcRunPure_freeInv hgc (by rw [retP_gc hr]; exact hi)
    · refine ofKF ?_
      unfold exec
      simp only [hop, binOpOf, unOpOf, convOf, nilCmpOf, strAddOf, arrOpOf, mkArrayElem]
      have := kf_pushParams
      kf
    · exact ofKF (by exec_kf hop)
    · rw [exec_HALT md ins orc hop _ _ h]; exact hi

/-- **`FreeInv` is an invariant of execution**: one `step` of any module keeps the heap's bookkeeping intact -/
theorem step_keeps_freeInv (md : Module) (orc : Oracle) (vm vm' : Vm) (hi : FreeInv vm.gc)
    (hstep : (step md orc).run vm = .ok ((), vm')) : FreeInv vm'.gc := by
  cases hc : md.code[vm.ip]? with
  | none =>
    exfalso
    unfold step at hstep
    obtain ⟨v0, s0, h0, hA⟩ := (run_bind_ok _ _ _ _ _).mp hstep
    obtain ⟨e0, e0'⟩ := get_run _ _ _ h0
    rw [e0, e0', hc] at hA
    exact crash_run _ _ _ _ hA
  | some i =>
    obtain ⟨s2, he, hcase⟩ := step_exec md orc vm vm' i hc hstep
    have := exec_keeps_freeInv md i orc _ s2 he hi
    rcases hcase with ⟨_, e⟩ | ⟨_, hd, _, e⟩
    · rw [e]; exact this
    · rw [e]; exact this

/-- … along every run (`RunsTo`: any number of steps, any oracles) -/
theorem runs_keep_freeInv (md : Module) : ∀ (n : Nat) (vm vm' : Vm), FreeInv vm.gc → RunsTo md (fun _ => True) n vm vm' → FreeInv vm'.gc := by
  intro n
  induction n with
  | zero => intro vm vm' hi hr; cases hr; exact hi
  | succ n ih =>
    intro vm vm' hi hr
    cases hr with
    | succ orc _ _ hstep hrest => exact ih _ _ (step_keeps_freeInv md orc _ _ hi hstep) hrest

end Never.Vm
