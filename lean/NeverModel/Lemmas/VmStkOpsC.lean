import NeverModel.Lemmas.VmStk
set_option linter.unusedSimpArgs false
set_option linter.unusedVariables false
/-! per-opcode: the handler leaves the size of the stack array alone (generated list) -/
namespace Never.Vm
open Never Never.Num

set_option maxRecDepth 8000 in
theorem kstop_OP_ASS_FLOAT (md : Module) (ins : Instr) (orc : Oracle) (h : ins.op = .OP_ASS_FLOAT) : KeepsStk (exec md ins orc) := by exec_kst h

set_option maxRecDepth 8000 in
theorem kstop_OP_ASS_DOUBLE (md : Module) (ins : Instr) (orc : Oracle) (h : ins.op = .OP_ASS_DOUBLE) : KeepsStk (exec md ins orc) := by exec_kst h

set_option maxRecDepth 8000 in
theorem kstop_OP_ASS_CHAR (md : Module) (ins : Instr) (orc : Oracle) (h : ins.op = .OP_ASS_CHAR) : KeepsStk (exec md ins orc) := by exec_kst h

set_option maxRecDepth 8000 in
theorem kstop_OP_ASS_STRING (md : Module) (ins : Instr) (orc : Oracle) (h : ins.op = .OP_ASS_STRING) : KeepsStk (exec md ins orc) := by exec_kst h

set_option maxRecDepth 8000 in
theorem kstop_OP_ASS_C_PTR (md : Module) (ins : Instr) (orc : Oracle) (h : ins.op = .OP_ASS_C_PTR) : KeepsStk (exec md ins orc) := by exec_kst h

set_option maxRecDepth 8000 in
theorem kstop_OP_ASS_ARRAY (md : Module) (ins : Instr) (orc : Oracle) (h : ins.op = .OP_ASS_ARRAY) : KeepsStk (exec md ins orc) := by exec_kst h

set_option maxRecDepth 8000 in
theorem kstop_OP_ASS_RECORD (md : Module) (ins : Instr) (orc : Oracle) (h : ins.op = .OP_ASS_RECORD) : KeepsStk (exec md ins orc) := by exec_kst h

set_option maxRecDepth 8000 in
theorem kstop_OP_ASS_FUNC (md : Module) (ins : Instr) (orc : Oracle) (h : ins.op = .OP_ASS_FUNC) : KeepsStk (exec md ins orc) := by exec_kst h

set_option maxRecDepth 8000 in
theorem kstop_OP_ASS_RECORD_NIL (md : Module) (ins : Instr) (orc : Oracle) (h : ins.op = .OP_ASS_RECORD_NIL) : KeepsStk (exec md ins orc) := by exec_kst h

set_option maxRecDepth 8000 in
theorem kstop_REWRITE (md : Module) (ins : Instr) (orc : Oracle) (h : ins.op = .REWRITE) : KeepsStk (exec md ins orc) := by exec_kst h

set_option maxRecDepth 8000 in
theorem kstop_MK_RANGE (md : Module) (ins : Instr) (orc : Oracle) (h : ins.op = .MK_RANGE) : KeepsStk (exec md ins orc) := by exec_kst h

set_option maxRecDepth 8000 in
theorem kstop_RECORD (md : Module) (ins : Instr) (orc : Oracle) (h : ins.op = .RECORD) : KeepsStk (exec md ins orc) := by exec_kst h

set_option maxRecDepth 8000 in
theorem kstop_GLOBAL_VEC (md : Module) (ins : Instr) (orc : Oracle) (h : ins.op = .GLOBAL_VEC) : KeepsStk (exec md ins orc) := by exec_kst h

set_option maxRecDepth 8000 in
theorem kstop_ALLOC (md : Module) (ins : Instr) (orc : Oracle) (h : ins.op = .ALLOC) : KeepsStk (exec md ins orc) := by exec_kst h

set_option maxRecDepth 8000 in
theorem kstop_RANGE_DEREF (md : Module) (ins : Instr) (orc : Oracle) (h : ins.op = .RANGE_DEREF) : KeepsStk (exec md ins orc) := by exec_kst h

set_option maxRecDepth 8000 in
theorem kstop_RECORD_UNPACK (md : Module) (ins : Instr) (orc : Oracle) (h : ins.op = .RECORD_UNPACK) : KeepsStk (exec md ins orc) := by exec_kst h

set_option maxRecDepth 8000 in
theorem kstop_SLICE_DEREF (md : Module) (ins : Instr) (orc : Oracle) (h : ins.op = .SLICE_DEREF) : KeepsStk (exec md ins orc) := by exec_kst h

set_option maxRecDepth 8000 in
theorem kstop_ARRAY_DEREF (md : Module) (ins : Instr) (orc : Oracle) (h : ins.op = .ARRAY_DEREF) : KeepsStk (exec md ins orc) := by exec_kst h

set_option maxRecDepth 8000 in
theorem kstop_ARRAYREF_DEREF (md : Module) (ins : Instr) (orc : Oracle) (h : ins.op = .ARRAYREF_DEREF) : KeepsStk (exec md ins orc) := by exec_kst h

set_option maxRecDepth 8000 in
theorem kstop_BUILD_IN (md : Module) (ins : Instr) (orc : Oracle) (h : ins.op = .BUILD_IN) : KeepsStk (exec md ins orc) := by
  unfold exec
  simp only [h, binOpOf, unOpOf, convOf, nilCmpOf, strAddOf, arrOpOf, mkArrayElem]
  exact KeepsStk.bind kst_getSp (fun _ => kst_buildIn _ _)

theorem kstop_ARRAY_APPEND (md : Module) (ins : Instr) (orc : Oracle) (h : ins.op = .ARRAY_APPEND) : KeepsStk (exec md ins orc) := by
  unfold exec
  simp only [h, binOpOf, unOpOf, convOf, nilCmpOf, strAddOf, arrOpOf, mkArrayElem]
  refine KeepsStk.bind (by kst) (fun _ => ?_)
  refine KeepsStk.bind (by kst) (fun _ => ?_)
  refine KeepsStk.bind (by kst) (fun _ => ?_)
  split
  · kst
  · refine KeepsStk.bind (by kst) (fun _ => ?_)
    refine KeepsStk.bind (by kst) (fun _ => ?_)
    refine KeepsStk.get_bind _ ?_
    intro vm a vm' hr
    split at hr
    · exact kst_set_of _ vm (by exact ⟨rfl, rfl⟩) _ _ hr
    · exact kst_crash _ _ _ _ hr

set_option maxRecDepth 8000 in
theorem kstop_nilCmp (md : Module) (ins : Instr) (orc : Oracle) (k : Nat) (nl ng : Bool)
    (hb : binOpOf ins.op = none) (hu : unOpOf ins.op = none) (hc : convOf ins.op = none)
    (h : nilCmpOf ins.op = some (k, nl, ng)) : KeepsStk (exec md ins orc) := by
  unfold exec; simp only [hb, hu, hc, h]; kst

set_option maxRecDepth 8000 in
theorem kstop_strAdd (md : Module) (ins : Instr) (orc : Oracle) (ty : NTy) (sl : Bool)
    (hb : binOpOf ins.op = none) (hu : unOpOf ins.op = none) (hc : convOf ins.op = none) (hn : nilCmpOf ins.op = none)
    (h : strAddOf ins.op = some (ty, sl)) : KeepsStk (exec md ins orc) := by
  unfold exec; simp only [hb, hu, hc, hn, h]; kst

set_option maxRecDepth 8000 in
theorem kstop_arrOp (md : Module) (ins : Instr) (orc : Oracle) (ty : NTy) (kind : Nat)
    (hb : binOpOf ins.op = none) (hu : unOpOf ins.op = none) (hc : convOf ins.op = none) (hn : nilCmpOf ins.op = none)
    (hs : strAddOf ins.op = none) (h : arrOpOf ins.op = some (ty, kind)) : KeepsStk (exec md ins orc) := by
  unfold exec; simp only [hb, hu, hc, hn, hs, h]; kst

set_option maxRecDepth 8000 in
theorem kstop_mkArray (md : Module) (ins : Instr) (orc : Oracle) (dflt : Obj)
    (hb : binOpOf ins.op = none) (hu : unOpOf ins.op = none) (hc : convOf ins.op = none) (hn : nilCmpOf ins.op = none)
    (hs : strAddOf ins.op = none) (ha : arrOpOf ins.op = none)
    (h : mkArrayElem ins.op = some dflt) : KeepsStk (exec md ins orc) := by
  unfold exec; simp only [hb, hu, hc, hn, hs, ha, h]; kst

end Never.Vm
