import NeverModel.Lemmas.Mark
set_option linter.unusedSimpArgs false
set_option linter.unusedVariables false
/-! termination / definedness of the C marking recursion on a well-kinded heap -/
namespace Never
open Mem

/-- every allocated object's references are well-kinded -/
def WK (m : Mem) : Prop := ∀ a o, objAt m a = some o → m.okObj o = true

theorem okRef_congr {m m' : Mem} (h : ∀ x, objAt m' x = objAt m x) : m'.okRef = m.okRef := by
  funext r; simp [Mem.okRef, h]

theorem okObj_congr {m m' : Mem} (h : ∀ x, objAt m' x = objAt m x) (o : Obj) : m'.okObj o = m.okObj o := by
  cases o <;> simp [Mem.okObj, okRef_congr h, Mem.okStr, Mem.okVec, Mem.okArr, h]

theorem WK.mono {m m' : Mem} (w : WK m) (h : Mono m m') : WK m' := by
  intro a o ho
  rw [okObj_congr h.obj]
  exact w a o (by rw [← h.obj]; exact ho)

def isContainer : Option Obj → Bool
  | some (.vec _) => true
  | some (.arr _ _) => true
  | _ => false

/-- number of unmarked containers: bounds the C recursion depth -/
def U (m : Mem) : Nat := (List.range m.size).countP fun a => isContainer (objAt m a) && !marked m a

theorem countP_lt_of {α} (p q : α → Bool) (l : List α) (a : α)
    (hpq : ∀ x ∈ l, p x = true → q x = true) (ha : a ∈ l) (hq : q a = true) (hp : p a = false) :
    l.countP p < l.countP q := by
  induction l with
  | nil => cases ha
  | cons x xs ih =>
    have hxs : ∀ y ∈ xs, p y = true → q y = true := fun y hy => hpq y (List.mem_cons_of_mem _ hy)
    have hle : xs.countP p ≤ xs.countP q := List.countP_mono_left hxs
    rcases List.mem_cons.mp ha with rfl | ha'
    · simp [List.countP_cons, hq, hp]; omega
    · have := ih hxs ha'
      by_cases hpx : p x = true
      · have := hpq x (List.mem_cons_self) hpx
        simp [List.countP_cons, hpx, this]; omega
      · by_cases hqx : q x = true <;> simp [List.countP_cons, hpx, hqx] <;> omega

theorem U_mono {m m' : Mem} (h : Mono m m') : U m' ≤ U m := by
  unfold U
  rw [h.size]
  apply List.countP_mono_left
  intro x _ hx
  simp only [Bool.and_eq_true, Bool.not_eq_true'] at hx ⊢
  rw [h.obj] at hx
  refine ⟨hx.1, ?_⟩
  cases hm : marked m x
  · rfl
  · have := h.marks x hm; rw [this] at hx; exact absurd hx.2 (by simp)

theorem U_setMark_lt {m : Mem} {a : Nat} (hlt : a < m.size) (hc : isContainer (objAt m a) = true)
    (hm : marked m a = false) : U (setMark m a true) < U m := by
  unfold U
  rw [size_setMark]
  apply countP_lt_of _ _ _ a
  · intro x _ hx
    simp only [Bool.and_eq_true, Bool.not_eq_true', objAt_setMark, marked_setMark] at hx ⊢
    refine ⟨hx.1, ?_⟩
    have := hx.2
    split at this
    · cases this
    · exact this
  · exact List.mem_range.mpr hlt
  · simp [hc, hm]
  · simp [marked_setMark, hlt]

def okTarget (m : Mem) (a : Nat) : Prop := a = 0 ∨ a < m.size

theorem okRef_target {m : Mem} {r : Nat} (h : m.okRef r = true) : okTarget m r := by
  unfold Mem.okRef at h
  simp only [Bool.or_eq_true, decide_eq_true_eq] at h
  rcases h with h | h
  · exact Or.inl h
  · right
    cases ho : objAt m r with
    | none => simp [ho] at h
    | some o => exact objAt_some_lt ho

theorem markL_total_of (f : Nat)
    (hm : ∀ m a, WK m → okTarget m a → 2 * U m + 3 ≤ f → (mark f m a).isSome = true) :
    ∀ xs m, WK m → (∀ x ∈ xs, okTarget m x) → 2 * U m + 3 ≤ f → (markL f m xs).isSome = true := by
  intro xs
  induction xs with
  | nil => intro m _ _ _; rw [markL]; rfl
  | cons x xs ih =>
    intro m w hx hf
    rw [markL]
    have h1 := hm m x w (hx x (by simp)) hf
    cases hmk : mark f m x with
    | none => simp [hmk] at h1
    | some m1 =>
      have mono := (mark_mono_all f).1 _ _ _ hmk
      have hu := U_mono mono
      simp only
      apply ih m1 (w.mono mono)
      · intro y hy
        rcases hx y (List.mem_cons_of_mem _ hy) with h | h
        · exact Or.inl h
        · exact Or.inr (by rw [mono.size]; exact h)
      · omega

/-- what `gc_mark_vec`/`gc_mark_arr` need of their argument -/
def kindOk : CKind → Option Obj → Bool
  | .vec, some (.vec _) => true
  | .arr, some (.arr _ _) => true
  | _, _ => false

def okCTarget (k : CKind) (m : Mem) (a : Nat) : Prop :=
  a = 0 ∨ (a < m.size ∧ (marked m a = true ∨ kindOk k (objAt m a) = true))

theorem okVec_ctarget {m : Mem} {p : Nat} (h : m.okVec p = true) : okCTarget .vec m p := by
  unfold Mem.okVec at h
  simp only [Bool.or_eq_true, decide_eq_true_eq] at h
  rcases h with h | h
  · exact Or.inl h
  · right
    cases ho : objAt m p with
    | none => simp [ho, isVec] at h
    | some o => exact ⟨objAt_some_lt ho, Or.inr (by cases o <;> simp_all [isVec, kindOk])⟩

theorem okArr_ctarget {m : Mem} {p : Nat} (h : m.okArr p = true) : okCTarget .arr m p := by
  unfold Mem.okArr at h
  simp only [Bool.or_eq_true, decide_eq_true_eq] at h
  rcases h with h | h
  · exact Or.inl h
  · right
    cases ho : objAt m p with
    | none => simp [ho, isArr] at h
    | some o => exact ⟨objAt_some_lt ho, Or.inr (by cases o <;> simp_all [isArr, kindOk])⟩

theorem okCTarget_setMark {k : CKind} {m : Mem} {a p : Nat} (h : okCTarget k m p) :
    okCTarget k (setMark m a true) p := by
  rcases h with h | ⟨hlt, h⟩
  · exact Or.inl h
  · right
    refine ⟨by simpa using hlt, ?_⟩
    rcases h with h | h
    · left; simp only [marked_setMark]; split <;> simp [h]
    · right; simpa using h

theorem WK.setMark {m : Mem} (w : WK m) (a : Nat) : WK (setMark m a true) := w.mono (Mono.setMark m a)

theorem mark_total_all (f : Nat) :
    (∀ m a, WK m → okTarget m a → 2 * U m + 3 ≤ f → (mark f m a).isSome = true) ∧
    (∀ k m a, WK m → okCTarget k m a → 2 * U m + 2 ≤ f → (markC f k m a).isSome = true) := by
  induction f with
  | zero =>
    constructor
    · intro m a _ _ h; omega
    · intro k m a _ _ h; omega
  | succ f ih =>
    obtain ⟨ihm, ihc⟩ := ih
    have ihl := markL_total_of f ihm
    constructor
    · intro m a w ht hf
      rw [mark]
      split
      · rfl
      · rename_i ha
        have hlt : a < m.size := by rcases ht with h | h; exact absurd h ha; exact h
        obtain ⟨c, hc⟩ := getElem?_of_lt hlt
        have hobj := getElem?_objAt hc
        simp only [hc]
        have hum : U (setMark m a true) ≤ U m := U_mono (Mono.setMark m a)
        split
        · rfl
        · -- strRef p : p is nil or a string, one more call
          rename_i p hs
          have hok := w a (.strRef p) (by rw [hobj, hs])
          simp only [Mem.okObj, Mem.okStr, Bool.or_eq_true, decide_eq_true_eq] at hok
          obtain ⟨f', rfl⟩ : ∃ f', f = f' + 1 := ⟨f - 1, by omega⟩
          rw [mark]
          rcases hok with h0 | hstr
          · simp [h0]
          · split
            · rfl
            · cases hop : objAt m p with
              | none => simp [hop, isStr] at hstr
              | some o =>
                have hplt := objAt_some_lt hop
                obtain ⟨c2, hc2⟩ := getElem?_of_lt (m := setMark m a true) (a := p) (by simpa using hplt)
                have hobj2 := getElem?_objAt hc2
                rw [objAt_setMark, hop] at hobj2
                simp only [hc2]
                cases o <;> simp [hop, isStr] at hstr
                simp [← hobj2]
        · rename_i fs hs
          apply ihc _ _ _ w _ (by omega)
          exact Or.inr ⟨hlt, Or.inr (by simp [hobj, hs, kindOk])⟩
        · rename_i p hs
          have hok := w a (.vecRef p) (by rw [hobj, hs])
          simp only [Mem.okObj] at hok
          exact ihc _ _ _ (w.setMark a) (okCTarget_setMark (okVec_ctarget hok)) (by omega)
        · rename_i dv es hs
          apply ihc _ _ _ w _ (by omega)
          exact Or.inr ⟨hlt, Or.inr (by simp [hobj, hs, kindOk])⟩
        · rename_i p hs
          have hok := w a (.arrRef p) (by rw [hobj, hs])
          simp only [Mem.okObj] at hok
          exact ihc _ _ _ (w.setMark a) (okCTarget_setMark (okArr_ctarget hok)) (by omega)
        · rename_i env ip hs
          have hok := w a (.func env ip) (by rw [hobj, hs])
          simp only [Mem.okObj] at hok
          exact ihc _ _ _ (w.setMark a) (okCTarget_setMark (okVec_ctarget hok)) (by omega)
        · rfl
    · intro k m a w ht hf
      rw [markC]
      split
      · rfl
      · rename_i ha
        have ht' : a < m.size ∧ (marked m a = true ∨ kindOk k (objAt m a) = true) := by
          rcases ht with h | h; exact absurd h ha; exact h
        obtain ⟨hlt, hk⟩ := ht'
        obtain ⟨c, hc⟩ := getElem?_of_lt hlt
        have hobj := getElem?_objAt hc
        have hmk := getElem?_marked hc
        simp only [hc]
        split
        · rfl
        · rename_i hnm
          have hunm : marked m a = false := by rw [hmk]; simpa using hnm
          have hk' : kindOk k (objAt m a) = true := by
            rcases hk with h | h
            · rw [hunm] at h; cases h
            · exact h
          have wS := w.setMark a
          split
          · rename_i fs hs
            have hcont : isContainer (objAt m a) = true := by simp [hobj, hs, isContainer]
            have hlt' := U_setMark_lt hlt hcont hunm
            have hok := w a (.vec fs) (by rw [hobj, hs])
            simp only [Mem.okObj, List.all_eq_true] at hok
            apply ihl _ _ wS _ (by omega)
            intro x hx
            have := okRef_target (hok x hx)
            rcases this with h | h
            · exact Or.inl h
            · exact Or.inr (by simpa using h)
          · rename_i dv es hs
            have hcont : isContainer (objAt m a) = true := by simp [hobj, hs, isContainer]
            have hlt' := U_setMark_lt hlt hcont hunm
            have hok := w a (.arr dv es) (by rw [hobj, hs])
            simp only [Mem.okObj, List.all_eq_true] at hok
            apply ihl _ _ wS _ (by omega)
            intro x hx
            have := okRef_target (hok x hx)
            rcases this with h | h
            · exact Or.inl h
            · exact Or.inr (by simpa using h)
          · rename_i kk k2 xo hne1 hne2
            exfalso
            rw [hobj] at hk'
            cases hco : c.obj with
            | none => cases kk <;> simp [hco, kindOk] at hk'
            | some o =>
              cases kk <;> cases o <;> simp [hco, kindOk] at hk'
              · exact hne1 _ rfl hco
              · exact hne2 _ _ rfl hco

theorem U_le_size (m : Mem) : U m ≤ m.size := by
  unfold U
  exact Nat.le_trans List.countP_le_length (by simp)

end Never
