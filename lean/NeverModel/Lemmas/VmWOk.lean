import NeverModel.Lemmas.VmNoWC
import NeverModel.Lemmas.VmIpSound
set_option linter.unusedSimpArgs false
set_option linter.unusedVariables false
/-! no handler stores outside the stack array.  `WOk N s f`: on a machine with stack size `N` and `sp = s`, `f` never ends in the wild
stack write.  The combinators mirror those of `EffAt`/`FootAt`; what a store needs — `0 ≤ i < N` — comes from facts the rules put into
the local context: the entry condition `-1 ≤ sp < N`, every stack READ that succeeded before (its index is inside the array), and
`vm_check_stack` (behind it `sp < N`). -/
namespace Never.Vm
open Never Never.Num

def WOk {α} (N : Nat) (s : Int) (f : M α) : Prop :=
  ∀ vm, vm.stackSize = N → vm.sp = s → f.run vm ≠ .error wildWrite

theorem WOk.of_nowc {α} {N : Nat} {s : Int} {f : M α} (h : NoWC f) : WOk N s f := fun vm _ _ => h vm

theorem WOk.wrSlot (N : Nat) (s i : Int) (x : Slot) (h0 : 0 ≤ i) (h1 : i < N) : WOk N s (Vm.wrSlot i x) := by
  intro vm hN _ h
  unfold Vm.wrSlot at h
  rcases (run_bind_err _ _ vm _).mp h with h1' | ⟨v0, v0', h3, h4⟩
  · simp [get, getThe, MonadStateOf.get, StateT.get, StateT.run, Pure.pure, Except.pure] at h1'
  · simp [get, getThe, MonadStateOf.get, StateT.get, StateT.run, Pure.pure, Except.pure] at h3
    obtain ⟨e1, e2⟩ := h3
    rw [← e1, ← e2] at h4
    split at h4
    · rename_i hb; rw [hN] at hb; omega
    · simp [set, StateT.set, StateT.run, Pure.pure, Except.pure] at h4

theorem pushP_not_wild (vm : Vm) (a : Nat) (h0 : -1 ≤ vm.sp) : pushP vm a ≠ .error wildWrite := by
  unfold pushP checkP wrP
  simp only [bind, Except.bind]
  by_cases c1 : vm.sp + 1 ≥ vm.stackSize
  · simp [c1, wildWrite]
  · simp only [c1, if_false]
    split
    · rename_i hb
      have hb' : vm.sp + 1 < 0 ∨ False := hb
      rcases hb' with h | h
      · omega
      · exact h.elim
    · intro h; cases h

theorem WOk.pushAddr (N : Nat) (s : Int) (a : Nat) (h : -1 ≤ s) : WOk N s (Vm.pushAddr a) := by
  intro vm _ hs hr
  unfold Vm.pushAddr at hr
  simp only [bind, StateT.bind, StateT.run, get, getThe, MonadStateOf.get, StateT.get, pure, StateT.pure, Except.pure, Except.bind] at hr
  cases hp : pushP vm a with
  | error e =>
    rw [hp] at hr
    simp [liftE, throw, throwThe, MonadExceptOf.throw, StateT.lift, liftM, monadLift, MonadLift.monadLift, Except.bind, bind] at hr
    rw [hr] at hp
    exact pushP_not_wild vm a (by omega) hp
  | ok v1 =>
    rw [hp] at hr
    simp [liftE, set, StateT.set, pure, StateT.pure, Except.pure] at hr

theorem WOk.keeps_bind {α β} {N : Nat} {s : Int} {f : M α} {g : α → M β} (hk : KeepsSp f) (hf : WOk N s f) (hg : ∀ a, WOk N s (g a)) :
    WOk N s (f >>= g) := by
  intro vm hN hs h
  rcases (run_bind_err f g vm _).mp h with h1 | ⟨a, vm', h1, h2⟩
  · exact hf vm hN hs h1
  · obtain ⟨a1, _, _, a4⟩ := hk vm a vm' h1
    exact hg a vm' (by omega) (by omega) h2

theorem getSp_err (vm : Vm) (e : Stop) : ¬ (getSp.run vm = .error e) := by
  simp [getSp, get, getThe, MonadStateOf.get, StateT.get, StateT.run, pure, StateT.pure, Except.pure, bind, StateT.bind, Except.bind]

theorem WOk.getSp_bind {β} {N : Nat} {s : Int} {g : Int → M β} (hg : WOk N s (g s)) : WOk N s (getSp >>= g) := by
  intro vm hN hs h
  rcases (run_bind_err getSp g vm _).mp h with h1 | ⟨a, vm', h1, h2⟩
  · exact getSp_err _ _ h1
  · obtain ⟨rfl, rfl⟩ := getSp_run _ _ _ h1
    subst hs
    exact hg _ hN rfl h2

/-- a successful stack read puts its index inside the array -/
theorem WOk.rdSlot_bind {β} {N : Nat} {s i : Int} {g : Slot → M β} (hg : ∀ x, 0 ≤ i ∧ i < N → WOk N s (g x)) : WOk N s (rdSlot i >>= g) := by
  intro vm hN hs h
  rcases (run_bind_err _ g vm _).mp h with h1 | ⟨a, vm', h1, h2⟩
  · exact nowc_rdSlot i vm h1
  · have e := readOnly_rdSlot _ _ _ _ h1
    unfold rdSlot at h1
    obtain ⟨v0, v0', h3, h4⟩ := (run_bind_ok _ _ _ _ _).mp h1
    obtain ⟨e0, e0'⟩ := get_run _ _ _ h3
    rw [e0, e0'] at h4
    split at h4
    · exact absurd h4 (by simp [crash, throw, throwThe, MonadExceptOf.throw, StateT.run, StateT.lift, liftM, monadLift, MonadLift.monadLift, Except.bind, Bind.bind])
    · rename_i hb
      rw [e] at h2
      exact hg a ⟨by omega, by rw [← hN]; omega⟩ vm hN hs h2

theorem WOk.rdAddr_bind {β} {N : Nat} {s i : Int} {g : Nat → M β} (hg : ∀ x, 0 ≤ i ∧ i < N → WOk N s (g x)) : WOk N s (rdAddr i >>= g) := by
  unfold rdAddr
  intro vm hN hs h
  have : (rdSlot i >>= fun x => (Pure.pure x.asAddr : M Nat) >>= g).run vm = .error wildWrite := by
    simpa [bind_assoc] using h
  refine WOk.rdSlot_bind (g := fun x => (Pure.pure x.asAddr : M Nat) >>= g) (fun x hb => ?_) vm hN hs this
  intro vm' hN' hs' h'
  simp only [pure_bind] at h'
  exact hg _ hb vm' hN' hs' h'

/-- behind `vm_check_stack` the stack pointer is inside the array -/
theorem WOk.check_bind {β} {N : Nat} {s : Int} {g : PUnit → M β} (hg : ∀ x, s < N → WOk N s (g x)) : WOk N s (checkStack >>= g) := by
  intro vm hN hs h
  rcases (run_bind_err _ g vm _).mp h with h1 | ⟨a, vm', h1, h2⟩
  · exact nowc_checkStack vm h1
  · unfold checkStack at h1
    obtain ⟨v0, v0', h3, h4⟩ := (run_bind_ok _ _ _ _ _).mp h1
    obtain ⟨e0, e0'⟩ := get_run _ _ _ h3
    rw [e0, e0'] at h4
    split at h4
    · exact absurd h4 (by simp [exitVm, throw, throwThe, MonadExceptOf.throw, StateT.run, StateT.lift, liftM, monadLift, MonadLift.monadLift, Except.bind, Bind.bind])
    · rename_i hb
      obtain ⟨_, e⟩ := (run_pure_ok _ _ _ _).mp h4
      rw [e] at h2
      exact hg a (by rw [← hN, ← hs]; omega) vm hN hs h2

theorem setSp_err (v : Int) (vm : Vm) (e : Stop) : ¬ ((Vm.setSp v).run vm = .error e) := by
  simp [Vm.setSp, modify, modifyGet, MonadStateOf.modifyGet, StateT.modifyGet, StateT.run, pure, Except.pure]

theorem WOk.setSp_then {β} (N : Nat) (s v : Int) {g : PUnit → M β} (hg : ∀ a, WOk N v (g a)) : WOk N s (Vm.setSp v >>= g) := by
  intro vm hN hs h
  rcases (run_bind_err _ g vm _).mp h with h1 | ⟨a, vm', h1, h2⟩
  · exact setSp_err _ _ _ h1
  · obtain ⟨t1, _, _, t4, _⟩ := keeps_setSp_run _ _ _ _ h1
    exact hg a vm' (by omega) t1 h2

theorem WOk.mov_bind {α β} {N : Nat} {s d1 : Int} {f : M α} {g : α → M β} (hm : MovAt s d1 f) (hf : WOk N s f)
    (hg : ∀ a, WOk N (s + d1) (g a)) : WOk N s (f >>= g) := by
  intro vm hN hs h
  rcases (run_bind_err f g vm _).mp h with h1 | ⟨a, vm', h1, h2⟩
  · exact hf vm hN hs h1
  · obtain ⟨a1, _, _, a4⟩ := hm vm a vm' hs h1
    exact hg a vm' (by omega) a1 h2

theorem WOk.popOpt_bind {α β} {N : Nat} {s : Int} {n : Nat} {f : M (Option α)} {g : Option α → M β} (hp : PopOpt s n f) (hf : NoWC f)
    (hnone : NoWC (g none)) (hsome : ∀ x, WOk N (s - (n : Int)) (g (some x))) : WOk N s (f >>= g) := by
  intro vm hN hs h
  rcases (run_bind_err f g vm _).mp h with h1 | ⟨r, vm', h1, h2⟩
  · exact hf vm h1
  · obtain ⟨_, _, a3, a4, _⟩ := hp vm r vm' hs h1
    cases r with
    | none => exact hnone vm' h2
    | some x => exact hsome x vm' (by omega) (a4 rfl) h2

theorem WOk.bool_bind {β} {N : Nat} {s : Int} {f : M Bool} {g : Bool → M β} (hk : KeepsSp f) (hf : NoWC f)
    (ht : WOk N s (g true)) (hfalse : NoWC (g false)) : WOk N s (f >>= g) := by
  intro vm hN hs h
  rcases (run_bind_err f g vm _).mp h with h1 | ⟨r, vm', h1, h2⟩
  · exact hf vm h1
  · obtain ⟨a1, _, _, a4⟩ := hk vm r vm' h1
    cases r with
    | true => exact ht vm' (by omega) (by omega) h2
    | false => exact hfalse vm' h2

theorem WOk.boolmov_bind {β} {N : Nat} {s : Int} {n : Nat} {f : M Bool} {g : Bool → M β}
    (hp : ∀ vm r vm', vm.sp = s → f.run vm = .ok (r, vm') →
      vm'.fp = vm.fp ∧ vm'.pp = vm.pp ∧ vm'.stackSize = vm.stackSize ∧ (r = true → vm'.sp = s - (n : Int)) ∧ (r = false → vm'.running = 2))
    (hf : NoWC f) (ht : WOk N (s - (n : Int)) (g true)) (hfalse : NoWC (g false)) : WOk N s (f >>= g) := by
  intro vm hN hs h
  rcases (run_bind_err f g vm _).mp h with h1 | ⟨r, vm', h1, h2⟩
  · exact hf vm h1
  · obtain ⟨_, _, a3, a4, _⟩ := hp vm r vm' hs h1
    cases r with
    | true => exact ht vm' (by omega) (a4 rfl) h2
    | false => exact hfalse vm' h2

/-- automation for `WOk` goals (same search as `eff` / `foot`); stores are discharged by `omega` from the facts in the context -/
syntax "wok" : tactic
macro_rules
  | `(tactic| wok) => `(tactic|
      first
      | exact WOk.pushAddr _ _ _ (by omega)
      | exact WOk.wrSlot _ _ _ _ (by omega) (by omega)
      | exact WOk.of_nowc (by nowc1)
      | (with_reducible refine WOk.getSp_bind ?hg; (case hg => wok))
      | (with_reducible refine WOk.rdAddr_bind (fun _ _ => ?hg); (case hg => wok))
      | (with_reducible refine WOk.rdSlot_bind (fun _ _ => ?hg); (case hg => wok))
      | (with_reducible refine WOk.check_bind (fun _ _ => ?hg); (case hg => wok))
      | (with_reducible refine WOk.setSp_then _ _ _ (fun _ => ?hg); (case hg => wok))
      | (with_reducible refine WOk.keeps_bind (keeps_wrSlot _ _) (WOk.wrSlot _ _ _ _ (by omega) (by omega)) (fun _ => ?hg); (case hg => wok))
      | (with_reducible refine WOk.mov_bind (pushAddr_mov _ _) (WOk.pushAddr _ _ _ (by omega)) (fun _ => ?hg); (case hg => wok))
      | (with_reducible refine WOk.keeps_bind ?hk ?hf (fun _ => ?hg); (case hk => keeps); (case hf => exact WOk.of_nowc (by nowc)); (case hg => wok))
      | (split <;> wok)
      | (dsimp only; wok)
      | fail "wok: no rule")

/-- `popAddrs n` succeeded from `sp = s`: its `n` reads were inside the array, so `0 ≤ s − n + 1` (for `n ≥ 1`) -/
theorem popAddrs_low (n : Nat) : ∀ (vm vm' : Vm) (l : List Nat), (popAddrs n).run vm = .ok (l, vm') → n = 0 ∨ 0 ≤ vm.sp - (n : Int) + 1 := by
  induction n with
  | zero => intro _ _ _ _; exact Or.inl rfl
  | succ n ih =>
    intro vm vm' l h
    right
    unfold popAddrs at h
    obtain ⟨sp, v0, h0, h⟩ := (run_bind_ok _ _ _ _ _).mp h
    obtain ⟨e0, e0'⟩ := getSp_run _ _ _ h0
    rw [e0, e0'] at h
    obtain ⟨a, v1, h1, h⟩ := (run_bind_ok _ _ _ _ _).mp h
    have e1 := readOnly_rdAddr _ _ _ _ h1
    rw [e1] at h
    obtain ⟨u, v2, h2, h⟩ := (run_bind_ok _ _ _ _ _).mp h
    obtain ⟨t1, _⟩ := keeps_setSp_run _ _ _ _ h2
    obtain ⟨rest, v3, h3, _⟩ := (run_bind_ok _ _ _ _ _).mp h
    have hb : 0 ≤ vm.sp := by
      unfold rdAddr rdSlot at h1
      obtain ⟨x, w1, g1, _⟩ := (run_bind_ok _ _ _ _ _).mp h1
      obtain ⟨y, w2, g2, g3⟩ := (run_bind_ok _ _ _ _ _).mp g1
      obtain ⟨e2, e2'⟩ := get_run _ _ _ g2
      rw [e2, e2'] at g3
      split at g3
      · exact absurd g3 (by simp [crash, throw, throwThe, MonadExceptOf.throw, StateT.run, StateT.lift, liftM, monadLift, MonadLift.monadLift, Except.bind, Bind.bind])
      · omega
    rcases ih v2 v3 rest h3 with hz | hz
    · subst hz; omega
    · rw [t1] at hz; omega

theorem WOk.popAddrs_bind {β} {N : Nat} {s : Int} {n : Nat} {g : List Nat → M β}
    (hg : ∀ l, (n = 0 ∨ 0 ≤ s - (n : Int) + 1) → WOk N (s - (n : Int)) (g l)) : WOk N s (popAddrs n >>= g) := by
  intro vm hN hs h
  rcases (run_bind_err _ g vm _).mp h with h1 | ⟨l, vm', h1, h2⟩
  · exact nowc_popAddrs n vm h1
  · obtain ⟨a1, _, _, a4⟩ := popAddrs_mov n s vm l vm' hs h1
    have := popAddrs_low n vm vm' l h1
    rw [hs] at this
    exact hg l this vm' (by omega) (by omega) h2

/-- `allocLoop n` only pushes -/
theorem allocLoop_wok (N : Nat) (n : Nat) : ∀ s, -1 ≤ s → WOk N s (allocLoop n) := by
  induction n with
  | zero => intro s _; unfold allocLoop; exact WOk.of_nowc (NoWC.pure _)
  | succ n ih =>
    intro s h
    unfold allocLoop
    refine WOk.keeps_bind (by keeps) (WOk.of_nowc (by nowc)) (fun a => ?_)
    exact WOk.mov_bind (pushAddr_mov _ _) (WOk.pushAddr _ _ _ h) (fun _ => ih _ (by omega))

/-- `unpackLoop sp … i` writes `sp … sp + i − 1` -/
theorem unpackLoop_wok (N : Nat) (s sp : Int) (fs : List Nat) (size : Nat) (h0 : 0 ≤ sp) : ∀ (i : Nat), sp + (i : Int) ≤ N → WOk N s (unpackLoop sp fs size i) := by
  intro i
  induction i with
  | zero => intro _; unfold unpackLoop; exact WOk.of_nowc (NoWC.pure _)
  | succ i ih =>
    intro h
    unfold unpackLoop
    exact WOk.keeps_bind (keeps_wrSlot _ _) (WOk.wrSlot _ _ _ _ (by omega) (by omega)) (fun _ => ih (by omega))

macro "exec_wok" h:ident : tactic => `(tactic|
  (unfold exec
   simp only [$h:ident, binOpOf, unOpOf, convOf, nilCmpOf, strAddOf, arrOpOf, mkArrayElem]
   wok))

macro "exec_wsel" h:ident : tactic => `(tactic|
  (unfold exec
   simp only [$h:ident, binOpOf, unOpOf, convOf, nilCmpOf, strAddOf, arrOpOf, mkArrayElem]
   refine WOk.getSp_bind ?_))

end Never.Vm
