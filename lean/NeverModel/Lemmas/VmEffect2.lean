import NeverModel.Lemmas.VmEffect
set_option linter.unusedSimpArgs false
set_option linter.unusedVariables false
/-! stack-pointer effect of further handler families of M-VM: a small logic (`EffAt`) and its automation -/
namespace Never.Vm
open Never Never.Num

/-- started with `sp = s`, a completed run of `f` leaves fp/pp/stack size alone and ends with `sp = s + d`,
or with a raised exception (`running = VM_EXCEPTION`; the handler entered next resets `sp` from `fp`, see C03),
or stopped in `VM_ERROR` (a failed `assert`: the machine executes nothing further) -/
def EffAt {α} (s d : Int) (f : M α) : Prop :=
  ∀ vm a vm', vm.sp = s → f.run vm = .ok (a, vm') →
    vm'.fp = vm.fp ∧ vm'.pp = vm.pp ∧ vm'.stackSize = vm.stackSize ∧
    (vm'.sp = s + d ∨ vm'.running = 2 ∨ vm'.running = 3)

theorem EffAt.keeps_bind {α β} {s d : Int} {f : M α} {g : α → M β} (hf : KeepsSp f) (hg : ∀ a, EffAt s d (g a)) :
    EffAt s d (f >>= g) := by
  intro vm b vm'' hs h
  obtain ⟨a, vm', h1, h2⟩ := (run_bind_ok f g vm vm'' b).mp h
  obtain ⟨a1, a2, a3, a4⟩ := hf vm a vm' h1
  obtain ⟨b1, b2, b3, b4⟩ := hg a vm' b vm'' (by omega) h2
  exact ⟨by omega, by omega, by omega, b4⟩

theorem EffAt.getSp_bind {β} {s d : Int} {g : Int → M β} (hg : EffAt s d (g s)) : EffAt s d (getSp >>= g) := by
  intro vm b vm'' hs h
  obtain ⟨a, vm', h1, h2⟩ := (run_bind_ok getSp g vm vm'' b).mp h
  obtain ⟨rfl, rfl⟩ := getSp_run _ _ _ h1
  subst hs
  exact hg _ _ _ rfl h2

theorem EffAt.setSp (s d v : Int) (hv : v = s + d) : EffAt s d (setSp v) := by
  intro vm a vm' hs h
  obtain ⟨t1, t2, t3, t4, _⟩ := keeps_setSp_run _ _ _ _ h
  exact ⟨t2, t3, t4, Or.inl (by omega)⟩

theorem EffAt.raise (s d : Int) (e : Nat) : EffAt s d (raise e) := by
  intro vm a vm' hs h
  simp [Vm.raise, modify, modifyGet, MonadStateOf.modifyGet, StateT.modifyGet, StateT.run, pure, Except.pure] at h
  obtain ⟨_, rfl⟩ := h
  exact ⟨rfl, rfl, rfl, Or.inr (Or.inl rfl)⟩

theorem EffAt.crash {α} (s d : Int) (w : String) : EffAt s d (crash w : M α) := by
  intro vm a vm' hs h; exact absurd h (by simp [Vm.crash, throw, throwThe, MonadExceptOf.throw, StateT.run, StateT.lift, liftM, monadLift, MonadLift.monadLift, Except.bind, bind])

theorem EffAt.exit {α} (s d : Int) (w : String) (o : List UInt8) : EffAt s d (exitVm w o : M α) := by
  intro vm a vm' hs h; exact absurd h (by simp [exitVm, throw, throwThe, MonadExceptOf.throw, StateT.run, StateT.lift, liftM, monadLift, MonadLift.monadLift, Except.bind, bind])

theorem EffAt.of_keeps {α} {s : Int} {f : M α} (hf : KeepsSp f) : EffAt s 0 f := by
  intro vm a vm' hs h
  obtain ⟨a1, a2, a3, a4⟩ := hf vm a vm' h
  exact ⟨a2, a3, a4, Or.inl (by omega)⟩

theorem EffAt.pure_zero {α} (s : Int) (a : α) : EffAt s 0 (pure a : M α) := EffAt.of_keeps (KeepsSp.pure a)

theorem pushP_regs (vm vm' : Vm) (a : Nat) (h : pushP vm a = .ok vm') :
    vm'.sp = vm.sp + 1 ∧ vm'.fp = vm.fp ∧ vm'.pp = vm.pp ∧ vm'.stackSize = vm.stackSize := by
  unfold pushP checkP wrP at h
  simp only [bind, Except.bind] at h
  by_cases c1 : vm.sp + 1 ≥ vm.stackSize
  · simp [c1] at h
  · simp only [c1, if_false] at h
    split at h
    · cases h
    · cases h; exact ⟨rfl, rfl, rfl, rfl⟩

theorem EffAt.pushAddr (s : Int) (a : Nat) : EffAt s 1 (pushAddr a) := by
  intro vm u vm' hs h
  unfold Vm.pushAddr at h
  simp only [bind, StateT.bind, StateT.run, get, getThe, MonadStateOf.get, StateT.get, pure, StateT.pure, Except.pure, Except.bind] at h
  cases hp : pushP vm a with
  | error e =>
    rw [hp] at h
    simp [liftE, throw, throwThe, MonadExceptOf.throw, StateT.lift, liftM, monadLift, MonadLift.monadLift, Except.bind, bind] at h
  | ok v1 =>
    rw [hp] at h
    simp [liftE, set, StateT.set, pure, StateT.pure, Except.pure] at h
    obtain ⟨_, rfl⟩ := h
    obtain ⟨q1, q2, q3, q4⟩ := pushP_regs vm _ a hp
    exact ⟨q2, q3, q4, Or.inl (by omega)⟩


theorem keeps_setObj (a : Nat) (o : Obj) : KeepsSp (setObj a o) := by
  intro v x v' h
  simp [setObj, modify, modifyGet, MonadStateOf.modifyGet, StateT.modifyGet, StateT.run, pure, Except.pure] at h
  obtain ⟨_, rfl⟩ := h
  exact ⟨rfl, rfl, rfl, rfl⟩

theorem keeps_emit (bs : List UInt8) : KeepsSp (emit bs) := by
  intro v x v' h
  simp [emit, modify, modifyGet, MonadStateOf.modifyGet, StateT.modifyGet, StateT.run, pure, Except.pure] at h
  obtain ⟨_, rfl⟩ := h
  exact ⟨rfl, rfl, rfl, rfl⟩

theorem keeps_checkStack : KeepsSp checkStack := by
  unfold checkStack
  apply KeepsSp.bind keeps_get; intro vm
  split
  · exact keeps_exit _ _
  · exact KeepsSp.pure _

/-- automation for `KeepsSp` goals over do-blocks built from the primitives -/
syntax "keeps" : tactic
macro_rules
  | `(tactic| keeps) => `(tactic|
      first
      | with_reducible exact KeepsSp.pure _
      | with_reducible exact keeps_crash _
      | with_reducible exact keeps_exit _ _
      | with_reducible exact keeps_get
      | with_reducible exact keeps_getSp
      | with_reducible exact keeps_rdAddr _
      | with_reducible exact keeps_rdSlot _
      | with_reducible exact keeps_wrSlot _ _
      | with_reducible exact keeps_alloc _
      | with_reducible exact keeps_objOf _
      | with_reducible exact keeps_raise _
      | with_reducible exact keeps_resOf _
      | with_reducible exact keeps_scalarOf _ _
      | with_reducible exact keeps_getInt _ | with_reducible exact keeps_getLong _ | with_reducible exact keeps_getFloat _ | with_reducible exact keeps_getDouble _ | with_reducible exact keeps_getChar _
      | with_reducible exact keeps_setObj _ _
      | with_reducible exact keeps_emit _
      | with_reducible exact keeps_checkStack
      | assumption
      | (with_reducible refine KeepsSp.bind ?hf (fun _ => ?hg); (case hf => keeps); (case hg => keeps))
      | (split <;> keeps))

theorem keeps_getStr (a : Nat) : KeepsSp (getStr a) := by unfold getStr; keeps
theorem keeps_getStrRef (a : Nat) : KeepsSp (getStrRef a) := by unfold getStrRef; keeps
theorem keeps_getVecRef (a : Nat) : KeepsSp (getVecRef a) := by unfold getVecRef; keeps
theorem keeps_getArrRef (a : Nat) : KeepsSp (getArrRef a) := by unfold getArrRef; keeps
theorem keeps_getVecObj (a : Nat) : KeepsSp (getVecObj a) := by unfold getVecObj; keeps
theorem keeps_getArrObj (a : Nat) : KeepsSp (getArrObj a) := by unfold getArrObj; keeps
theorem keeps_getFunc (a : Nat) : KeepsSp (getFunc a) := by unfold getFunc; keeps
theorem keeps_getCPtr (a : Nat) : KeepsSp (getCPtr a) := by unfold getCPtr; keeps
theorem keeps_getVec (a i : Nat) : KeepsSp (getVec a i) := by
  unfold getVec; apply KeepsSp.bind (keeps_getVecObj a); intro fs; keeps
theorem keeps_setVec (a i v : Nat) : KeepsSp (setVec a i v) := by
  unfold setVec; apply KeepsSp.bind (keeps_getVecObj a); intro fs; keeps
theorem keeps_getArrElem (a i : Nat) : KeepsSp (getArrElem a i) := by
  unfold getArrElem; apply KeepsSp.bind (keeps_getArrObj a); intro fs; keeps
theorem keeps_allocArr (e : List Nat) : KeepsSp (allocArr e) := by
  unfold allocArr; keeps


macro_rules
  | `(tactic| keeps) => `(tactic|
      first
      | with_reducible exact keeps_getStr _ | with_reducible exact keeps_getStrRef _ | with_reducible exact keeps_getVecRef _ | with_reducible exact keeps_getArrRef _
      | with_reducible exact keeps_getVecObj _ | with_reducible exact keeps_getArrObj _ | with_reducible exact keeps_getFunc _ | with_reducible exact keeps_getCPtr _
      | with_reducible exact keeps_getVec _ _ | with_reducible exact keeps_setVec _ _ _ | with_reducible exact keeps_getArrElem _ _ | with_reducible exact keeps_allocArr _)

theorem keeps_modify (f : Vm → Vm) (hf : ∀ vm, (f vm).sp = vm.sp ∧ (f vm).fp = vm.fp ∧ (f vm).pp = vm.pp ∧ (f vm).stackSize = vm.stackSize) :
    KeepsSp (modify f : M PUnit) := by
  intro v x v' h
  simp [modify, modifyGet, MonadStateOf.modifyGet, StateT.modifyGet, StateT.run, pure, Except.pure] at h
  obtain ⟨_, rfl⟩ := h
  exact hf v

macro_rules
  | `(tactic| keeps) => `(tactic| with_reducible exact keeps_modify _ (fun _ => ⟨rfl, rfl, rfl, rfl⟩))

/-- `sp` gets its final value, the rest keeps it -/
theorem EffAt.setSp_bind {β} (s d v : Int) (hv : v = s + d) {g : PUnit → M β} (hg : ∀ a, KeepsSp (g a)) :
    EffAt s d (Vm.setSp v >>= g) := by
  intro vm b vm'' hs h
  obtain ⟨a, vm', h1, h2⟩ := (run_bind_ok _ g vm vm'' b).mp h
  obtain ⟨t1, t2, t3, t4, _⟩ := keeps_setSp_run _ _ _ _ h1
  obtain ⟨b1, b2, b3, b4⟩ := hg a vm' b vm'' h2
  exact ⟨by omega, by omega, by omega, Or.inl (by omega)⟩

macro_rules
  | `(tactic| keeps) => `(tactic| with_reducible apply_assumption (exfalso := false))

theorem keeps_okVal (r : NRes) : KeepsSp (okVal r) := by unfold okVal; keeps
theorem keeps_setArrElem (a i v : Nat) : KeepsSp (setArrElem a i v) := by
  unfold setArrElem; refine KeepsSp.bind (keeps_getArrObj a) (fun p => ?_); keeps
theorem keeps_rangePair (r d : Nat) : KeepsSp (rangePair r d) := by unfold rangePair; keeps

macro_rules
  | `(tactic| keeps) => `(tactic|
      first | with_reducible exact keeps_okVal _ | with_reducible exact keeps_setArrElem _ _ _ | with_reducible exact keeps_rangePair _ _)

theorem keeps_allocEach (o : Obj) (n : Nat) : KeepsSp (allocEach o n) := by
  induction n with
  | zero => unfold allocEach; keeps
  | succ n ih => unfold allocEach; keeps

theorem keeps_mapElems (ty : NTy) (f : NVal → M NVal) (hf : ∀ v, KeepsSp (f v)) (es : List Nat) : KeepsSp (mapElems ty f es) := by
  induction es with
  | nil => unfold mapElems; keeps
  | cons e es ih => unfold mapElems; keeps

theorem keeps_zipArith (ty : NTy) (bop : BinOp) (xs ys : List Nat) : KeepsSp (zipArith ty bop xs ys) := by
  induction xs generalizing ys with
  | nil => unfold zipArith; keeps
  | cons x xs ih =>
    cases ys with
    | nil => unfold zipArith; keeps
    | cons y ys => unfold zipArith; have := ih ys; keeps

theorem keeps_dotSum (ty : NTy) (es1 es2 : List Nat) (i j inner cols k n : Nat) (acc : NVal) :
    KeepsSp (dotSum ty es1 es2 i j inner cols k n acc) := by
  induction n generalizing k acc with
  | zero => unfold dotSum; keeps
  | succ n ih => unfold dotSum; keeps

theorem keeps_matCols (ty : NTy) (es1 es2 : List Nat) (mres i inner cols j m : Nat) :
    KeepsSp (matCols ty es1 es2 mres i inner cols j m) := by
  induction m generalizing j with
  | zero => unfold matCols; keeps
  | succ m ih => unfold matCols; have := keeps_dotSum ty es1 es2 i j inner cols 0 inner (zeroOf ty); keeps

theorem keeps_matRows (ty : NTy) (es1 es2 : List Nat) (mres inner cols i n : Nat) :
    KeepsSp (matRows ty es1 es2 mres inner cols i n) := by
  induction n generalizing i with
  | zero => unfold matRows; keeps
  | succ n ih => unfold matRows; have := keeps_matCols ty es1 es2 mres i inner cols 0 cols; keeps

theorem keeps_composeRanges (r1 r2 res d n : Nat) : KeepsSp (composeRanges r1 r2 res d n) := by
  induction n generalizing d with
  | zero => unfold composeRanges; keeps
  | succ n ih => unfold composeRanges; keeps

theorem keeps_rangePairs (r d n : Nat) : KeepsSp (rangePairs r d n) := by
  induction n generalizing d with
  | zero => unfold rangePairs; keeps
  | succ n ih => unfold rangePairs; keeps

theorem keeps_unpackLoop (sp : Int) (fs : List Nat) (size i : Nat) : KeepsSp (unpackLoop sp fs size i) := by
  induction i with
  | zero => unfold unpackLoop; keeps
  | succ i ih => unfold unpackLoop; keeps

theorem keeps_feCheck (orc : Oracle) : KeepsSp (feCheck orc) := by unfold feCheck; keeps

macro_rules
  | `(tactic| keeps) => `(tactic|
      first
      | with_reducible exact keeps_allocEach _ _ | with_reducible exact keeps_zipArith _ _ _ _
      | with_reducible exact keeps_dotSum _ _ _ _ _ _ _ _ _ _ | with_reducible exact keeps_matCols _ _ _ _ _ _ _ _ _
      | with_reducible exact keeps_matRows _ _ _ _ _ _ _ _ | with_reducible exact keeps_composeRanges _ _ _ _ _
      | with_reducible exact keeps_rangePairs _ _ _ | with_reducible exact keeps_unpackLoop _ _ _ _ | with_reducible exact keeps_feCheck _
      | (with_reducible refine keeps_mapElems _ _ (fun _ => ?hf) _; (case hf => keeps)))

theorem EffAt.congr_d {α} {s d d' : Int} {f : M α} (h : EffAt s d' f) (hd : d = d') : EffAt s d f := by subst hd; exact h

theorem EffAt.pushAddr' (s d : Int) (a : Nat) (hd : d = 1) : EffAt s d (Vm.pushAddr a) := by subst hd; exact EffAt.pushAddr s a
theorem EffAt.of_keeps' {α} {s d : Int} {f : M α} (hf : KeepsSp f) (hd : d = 0) : EffAt s d f := by subst hd; exact EffAt.of_keeps hf

/-- `sp` is set to `v`; the rest is judged from there -/
theorem EffAt.setSp_then {β} (s d v : Int) {g : PUnit → M β} (hg : ∀ a, EffAt v (s + d - v) (g a)) :
    EffAt s d (Vm.setSp v >>= g) := by
  intro vm b vm'' hs h
  obtain ⟨a, vm', h1, h2⟩ := (run_bind_ok _ g vm vm'' b).mp h
  obtain ⟨t1, t2, t3, t4, _⟩ := keeps_setSp_run _ _ _ _ h1
  obtain ⟨b1, b2, b3, b4⟩ := hg a vm' b vm'' t1 h2
  refine ⟨by omega, by omega, by omega, ?_⟩
  rcases b4 with b4 | b4
  · left; omega
  · right; exact b4

/-- automation for `EffAt` goals -/
syntax "eff" : tactic
theorem EffAt.stop (s d : Int) (f : Vm → Vm) (hf : ∀ vm, (f vm).fp = vm.fp ∧ (f vm).pp = vm.pp ∧ (f vm).stackSize = vm.stackSize ∧ (f vm).running = 3) :
    EffAt s d (modify f : M PUnit) := by
  intro v x v' hs h
  simp [modify, modifyGet, MonadStateOf.modifyGet, StateT.modifyGet, StateT.run, pure, Except.pure] at h
  obtain ⟨_, rfl⟩ := h
  obtain ⟨a, b, c, e⟩ := hf v
  exact ⟨a, b, c, Or.inr (Or.inr e)⟩

macro_rules
  | `(tactic| eff) => `(tactic|
      first
      | with_reducible exact EffAt.setSp _ _ _ (by omega)
      | with_reducible exact EffAt.stop _ _ _ (fun _ => ⟨rfl, rfl, rfl, rfl⟩)
      | with_reducible exact EffAt.raise _ _ _
      | with_reducible exact EffAt.crash _ _ _
      | with_reducible exact EffAt.exit _ _ _ _
      | with_reducible exact EffAt.pushAddr' _ _ _ (by omega)
      | (with_reducible refine EffAt.of_keeps' ?hf ?hd; (case hd => omega); (case hf => keeps))
      | (with_reducible refine EffAt.getSp_bind ?hg; (case hg => eff))
      | (with_reducible refine EffAt.setSp_bind _ _ _ ?hv (fun _ => ?hg); (case hv => omega); (case hg => keeps))
      | (with_reducible refine EffAt.setSp_then _ _ _ (fun _ => ?hg); (case hg => eff))
      | (with_reducible refine EffAt.keeps_bind ?hf (fun _ => ?hg); (case hf => keeps); (case hg => eff))
      | (split <;> eff))

end Never.Vm
