import NeverModel.Lemmas.CheckCtx
set_option linter.unusedSimpArgs false
set_option linter.unusedVariables false
/-! # a declarative typing relation for the scalar expression fragment, and soundness of `tc`

The operator rules are stated from the promotion order int < long < float < double (`rank`),
not from the checker's tables (`convBasic`, `binTy`), so `tc_sound_frag` says something. -/
namespace Never.Tc

def scalar : Ty → Bool
  | .bool | .int | .long | .float | .double | .char | .string => true
  | _ => false

/-- the promotion order of the numeric kinds -/
def rank : Ty → Option Nat
  | .int => some 0
  | .long => some 1
  | .float => some 2
  | .double => some 3
  | _ => none

/-- `t` is the larger of the numeric kinds `a`, `b` -/
def NumJoin (a b t : Ty) : Prop :=
  ∃ ra rb, rank a = some ra ∧ rank b = some rb ∧ rank t = some (max ra rb)

def intLongK : Ty → Bool
  | .int | .long => true
  | _ => false

/-- what may be concatenated to a string -/
def stringable : Ty → Bool
  | .string | .int | .long | .float | .double | .char => true
  | _ => false

def BinOp.isArith : BinOp → Bool
  | .add | .sub | .mul | .div => true
  | _ => false
def BinOp.isOrder : BinOp → Bool
  | .lt | .gt | .lte | .gte => true
  | _ => false
def BinOp.isEq : BinOp → Bool
  | .eq | .neq => true
  | _ => false
def BinOp.isLogic : BinOp → Bool
  | .and | .or => true
  | _ => false
def BinOp.isBits : BinOp → Bool
  | .band | .bor | .bxor | .shl | .shr => true
  | _ => false

/-- operator rules of the language on scalar operands -/
inductive BinOk : BinOp → Ty → Ty → Ty → Prop
  /-- `+ - * /` on numbers: the operands are promoted to the larger kind -/
  | arith (op : BinOp) (a b t : Ty) : op.isArith = true → NumJoin a b t → BinOk op a b t
  /-- `+` with a string on one side and a string, number or char on the other -/
  | concatL (b : Ty) : stringable b = true → BinOk .add .string b .string
  | concatR (a : Ty) : stringable a = true → BinOk .add a .string .string
  /-- `%` on int/long -/
  | modulo (a b t : Ty) : intLongK a = true → intLongK b = true → NumJoin a b t → BinOk .mod a b t
  /-- `< > <= >=` on numbers (after promotion) and on chars -/
  | order (op : BinOp) (a b t : Ty) : op.isOrder = true → NumJoin a b t → BinOk op a b .bool
  | orderChar (op : BinOp) : op.isOrder = true → BinOk op .char .char .bool
  /-- `== !=` on numbers (after promotion), bools, chars, strings -/
  | equalNum (op : BinOp) (a b t : Ty) : op.isEq = true → NumJoin a b t → BinOk op a b .bool
  | equalBool (op : BinOp) : op.isEq = true → BinOk op .bool .bool .bool
  | equalChar (op : BinOp) : op.isEq = true → BinOk op .char .char .bool
  | equalString (op : BinOp) : op.isEq = true → BinOk op .string .string .bool
  /-- `&& ||` -/
  | logic (op : BinOp) : op.isLogic = true → BinOk op .bool .bool .bool
  /-- bitwise operators and shifts on int/long -/
  | bits (op : BinOp) (a b t : Ty) : op.isBits = true → intLongK a = true → intLongK b = true →
      NumJoin a b t → BinOk op a b t

inductive UnOk : UnOp → Ty → Ty → Prop
  | neg (a : Ty) : (rank a).isSome = true → UnOk .neg a a
  | not : UnOk .not .bool .bool
  | bnot (a : Ty) : intLongK a = true → UnOk .bnot a a

/-- Γ ⊢ e : t for the fragment -/
inductive HasType (Γ : Env) : Expr → Ty → Prop
  | litBool (ln : Ln) : HasType Γ (.litBool ln) .bool
  | litInt (ln : Ln) : HasType Γ (.litInt ln) .int
  | litLong (ln : Ln) : HasType Γ (.litLong ln) .long
  | litFloat (ln : Ln) : HasType Γ (.litFloat ln) .float
  | litDouble (ln : Ln) : HasType Γ (.litDouble ln) .double
  | litChar (ln : Ln) : HasType Γ (.litChar ln) .char
  | litString (ln : Ln) : HasType Γ (.litString ln) .string
  | id (ln : Ln) (x : String) (ent : Entry) (t : Ty) :
      Γ.lookup x = some ent → (idComb x ent).ct = .val t → HasType Γ (.id ln x) t
  | un (ln : Ln) (op : UnOp) (e : Expr) (a t : Ty) :
      HasType Γ e a → UnOk op a t → HasType Γ (.un ln op e) t
  | bin (ln : Ln) (op : BinOp) (l r : Expr) (a b t : Ty) :
      HasType Γ l a → HasType Γ r b → BinOk op a b t → HasType Γ (.bin ln op l r) t
  | sup (ln : Ln) (e : Expr) (t : Ty) : HasType Γ e t → HasType Γ (.sup ln e) t
  /-- both branches of a conditional have the SAME kind (no promotion between them) -/
  | cond (ln : Ln) (c a b : Expr) (t : Ty) :
      HasType Γ c .bool → HasType Γ a t → HasType Γ b t → HasType Γ (.cond ln c a b) t
  | while_ (ln : Ln) (c b : Expr) (t : Ty) :
      HasType Γ c .bool → HasType Γ b t → HasType Γ (.while_ ln c b) .int

/-- the fragment, syntactically -/
inductive Frag : Expr → Prop
  | litBool (ln : Ln) : Frag (.litBool ln)
  | litInt (ln : Ln) : Frag (.litInt ln)
  | litLong (ln : Ln) : Frag (.litLong ln)
  | litFloat (ln : Ln) : Frag (.litFloat ln)
  | litDouble (ln : Ln) : Frag (.litDouble ln)
  | litChar (ln : Ln) : Frag (.litChar ln)
  | litString (ln : Ln) : Frag (.litString ln)
  | id (ln : Ln) (x : String) : Frag (.id ln x)
  | un (ln : Ln) (op : UnOp) (e : Expr) : Frag e → Frag (.un ln op e)
  | bin (ln : Ln) (op : BinOp) (l r : Expr) : Frag l → Frag r → Frag (.bin ln op l r)
  | sup (ln : Ln) (e : Expr) : Frag e → Frag (.sup ln e)
  | cond (ln : Ln) (c a b : Expr) : Frag c → Frag a → Frag b → Frag (.cond ln c a b)
  | while_ (ln : Ln) (c b : Expr) : Frag c → Frag b → Frag (.while_ ln c b)

/-- every visible name is a variable of scalar type -/
def ScalarEnv (Γ : Env) : Prop :=
  ∀ x ent, Γ.lookup x = some ent → ∃ t, (idComb x ent).ct = .val t ∧ scalar t = true

macro "nj" : tactic => `(tactic| exact ⟨_, _, rfl, rfl, rfl⟩)

theorem binTy_scalar_sound (op : BinOp) (a b t : Ty) (ha : scalar a = true) (hb : scalar b = true)
    (h : binTy op a b = some t) : BinOk op a b t ∧ scalar t = true := by
  cases a <;> simp [scalar] at ha <;> cases b <;> simp [scalar] at hb <;> cases op <;>
    simp [binTy, convBasic, convEnum, convString, intLong, isNum] at h <;> subst h <;>
    refine ⟨?_, rfl⟩ <;>
    first
      | exact .arith _ _ _ _ rfl (by nj)
      | exact .modulo _ _ _ rfl rfl (by nj)
      | exact .order _ _ _ .int rfl (by nj)
      | exact .order _ _ _ .long rfl (by nj)
      | exact .order _ _ _ .float rfl (by nj)
      | exact .order _ _ _ .double rfl (by nj)
      | exact .equalNum _ _ _ .int rfl (by nj)
      | exact .equalNum _ _ _ .long rfl (by nj)
      | exact .equalNum _ _ _ .float rfl (by nj)
      | exact .equalNum _ _ _ .double rfl (by nj)
      | exact .bits _ _ _ _ rfl rfl rfl (by nj)
      | exact .concatL _ rfl
      | exact .concatR _ rfl
      | exact .orderChar _ rfl
      | exact .equalBool _ rfl
      | exact .equalChar _ rfl
      | exact .equalString _ rfl
      | exact .logic _ rfl

theorem unTy_scalar_sound (op : UnOp) (a t : Ty) (ha : scalar a = true) (h : unTy op a = some t) :
    UnOk op a t ∧ scalar t = true := by
  cases a <;> simp [scalar] at ha <;> cases op <;> simp [unTy] at h <;> subst h <;>
    refine ⟨?_, rfl⟩ <;>
    first
      | exact .neg _ rfl
      | exact .not
      | exact .bnot _ rfl

theorem combCmp_scalar (a b : Ty) (t : CT) (ha : scalar a = true) (hb : scalar b = true)
    (h : combCmp (.val a) (.val b) = .ok t) : a = b ∧ t = .val a := by
  cases a <;> simp [scalar] at ha <;> cases b <;> simp [scalar] at hb <;> simp [combCmp] at h <;>
    exact ⟨rfl, h.symm⟩

theorem tc_sound_frag (Γ : Env) (e : Expr) (c : Comb) (hΓ : ScalarEnv Γ) (hfrag : Frag e)
    (h : tc Γ e = .ok c) : ∃ t, c.ct = .val t ∧ HasType Γ e t := by
  suffices hs : ∃ t, c.ct = .val t ∧ scalar t = true ∧ HasType Γ e t by
    obtain ⟨t, h1, _, h3⟩ := hs; exact ⟨t, h1, h3⟩
  induction hfrag generalizing c with
  | litBool ln => simp [tc, litComb] at h; subst h; exact ⟨_, rfl, rfl, .litBool ln⟩
  | litInt ln => simp [tc, litComb] at h; subst h; exact ⟨_, rfl, rfl, .litInt ln⟩
  | litLong ln => simp [tc, litComb] at h; subst h; exact ⟨_, rfl, rfl, .litLong ln⟩
  | litFloat ln => simp [tc, litComb] at h; subst h; exact ⟨_, rfl, rfl, .litFloat ln⟩
  | litDouble ln => simp [tc, litComb] at h; subst h; exact ⟨_, rfl, rfl, .litDouble ln⟩
  | litChar ln => simp [tc, litComb] at h; subst h; exact ⟨_, rfl, rfl, .litChar ln⟩
  | litString ln => simp [tc, litComb] at h; subst h; exact ⟨_, rfl, rfl, .litString ln⟩
  | id ln x =>
    simp only [tc] at h
    cases hl : Γ.lookup x with
    | none => simp [hl] at h
    | some ent =>
      simp [hl] at h; subst h
      obtain ⟨t, ht, hsc⟩ := hΓ x ent hl
      exact ⟨t, ht, hsc, .id ln x ent t hl ht⟩
  | un ln op e _ ih =>
    simp only [tc] at h
    cases he : tc Γ e with
    | error d => simp [he] at h
    | ok ce =>
      obtain ⟨a, hca, hsa, hta⟩ := ih ce he
      simp only [he, bind_pure_comp, hca] at h
      cases hu : unTy op a with
      | none => simp [he, hca, hu] at h
      | some t =>
        simp [he, hca, hu] at h; subst h
        obtain ⟨hok, hst⟩ := unTy_scalar_sound op a t hsa hu
        exact ⟨t, rfl, hst, .un ln op e a t hta hok⟩
  | bin ln op l r _ _ ihl ihr =>
    simp only [tc] at h
    cases hl : tc Γ l with
    | error d => simp [hl] at h
    | ok cl =>
      cases hr : tc Γ r with
      | error d => simp [hl, hr] at h
      | ok cr =>
        obtain ⟨a, hca, hsa, hta⟩ := ihl cl hl
        obtain ⟨b, hcb, hsb, htb⟩ := ihr cr hr
        cases hb : binTy op a b with
        | none => simp [hl, hr, hca, hcb, hb] at h
        | some t =>
          simp [hl, hr, hca, hcb, hb] at h; subst h
          obtain ⟨hok, hst⟩ := binTy_scalar_sound op a b t hsa hsb hb
          exact ⟨t, rfl, hst, .bin ln op l r a b t hta htb hok⟩
  | sup ln e _ ih =>
    simp only [tc] at h
    obtain ⟨t, h1, h2, h3⟩ := ih c h
    exact ⟨t, h1, h2, .sup ln e t h3⟩
  | cond ln c0 a0 b0 _ _ _ ihc iha ihb =>
    simp only [tc] at h
    cases hc : tc Γ c0 with
    | error d => simp [hc] at h
    | ok cc =>
      cases ha : tc Γ a0 with
      | error d => simp [hc, ha] at h
      | ok ca =>
        cases hb : tc Γ b0 with
        | error d => simp [hc, ha, hb] at h
        | ok cb =>
          obtain ⟨tc', hcc, _, htc⟩ := ihc cc hc
          obtain ⟨ta, hca, hsa, hta⟩ := iha ca ha
          obtain ⟨tb, hcb, hsb, htb⟩ := ihb cb hb
          simp only [hc, ha, hb, bind_pure_comp] at h
          by_cases hbool : isBool cc.ct = true
          · cases hcmp : combCmp ca.ct cb.ct with
            | error r => simp [hc, ha, hb, hbool, hcmp] at h
            | ok t =>
              simp [hc, ha, hb, hbool, hcmp] at h; subst h
              rw [hca, hcb] at hcmp
              obtain ⟨hab, ht⟩ := combCmp_scalar ta tb t hsa hsb hcmp
              subst hab; subst ht
              have : tc' = .bool := by
                rw [hcc] at hbool
                cases tc' <;> simp [isBool] at hbool
                rfl
              subst this
              exact ⟨ta, rfl, hsa, .cond ln c0 a0 b0 ta htc hta htb⟩
          · simp [hc, ha, hb, hbool] at h
  | while_ ln c0 b0 _ _ ihc ihb =>
    simp only [tc] at h
    cases hc : tc Γ c0 with
    | error d => simp [hc] at h
    | ok cc =>
      cases hb : tc Γ b0 with
      | error d => simp [hc, hb] at h
      | ok cb =>
        obtain ⟨tc', hcc, _, htc⟩ := ihc cc hc
        obtain ⟨tb, hcb, hsb, htb⟩ := ihb cb hb
        by_cases hbool : isBool cc.ct = true
        · simp [hc, hb, hbool] at h; subst h
          have : tc' = .bool := by
            rw [hcc] at hbool
            cases tc' <;> simp [isBool] at hbool
            rfl
          subst this
          exact ⟨.int, rfl, rfl, .while_ ln c0 b0 tb htc htb⟩
        · simp [hc, hb, hbool] at h

end Never.Tc
