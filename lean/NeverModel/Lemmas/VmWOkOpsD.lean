import NeverModel.Lemmas.VmWOk
import NeverModel.Lemmas.VmEffOpsF
set_option linter.unusedSimpArgs false
set_option linter.unusedVariables false
/-! no wild stack write: the opcode families and the opcodes whose operand count depends on an instruction operand -/
namespace Never.Vm
open Never Never.Num

theorem rdSlot_ok_low {vm vm' : Vm} {i : Int} {a : Slot} (h : (rdSlot i).run vm = .ok (a, vm')) : 0 ≤ i := by
  unfold rdSlot at h
  obtain ⟨y, w2, g2, g3⟩ := (run_bind_ok _ _ _ _ _).mp h
  obtain ⟨e2, e2'⟩ := get_run _ _ _ g2
  rw [e2, e2'] at g3
  split at g3
  · exact absurd g3 (by simp [crash, throw, throwThe, MonadExceptOf.throw, StateT.run, StateT.lift, liftM, monadLift, MonadLift.monadLift, Except.bind, Bind.bind])
  · omega

theorem rdAddr_ok_low {vm vm' : Vm} {i : Int} {a : Nat} (h : (rdAddr i).run vm = .ok (a, vm')) : 0 ≤ i := by
  unfold rdAddr rdSlot at h
  obtain ⟨x, w1, g1, _⟩ := (run_bind_ok _ _ _ _ _).mp h
  obtain ⟨y, w2, g2, g3⟩ := (run_bind_ok _ _ _ _ _).mp g1
  obtain ⟨e2, e2'⟩ := get_run _ _ _ g2
  rw [e2, e2'] at g3
  split at g3
  · exact absurd g3 (by simp [crash, throw, throwThe, MonadExceptOf.throw, StateT.run, StateT.lift, liftM, monadLift, MonadLift.monadLift, Except.bind, Bind.bind])
  · omega

/-- `popExts n` / `popInts n` that complete from `sp = s` have read `n` slots inside the array -/
theorem popExts_low (n : Nat) : ∀ (vm vm' : Vm) (l : List Nat), (popExts n).run vm = .ok (some l, vm') → n = 0 ∨ 0 ≤ vm.sp - (n : Int) + 1 := by
  induction n with
  | zero => intro _ _ _ _; exact Or.inl rfl
  | succ n ih =>
    intro vm vm' l h
    right
    unfold popExts at h
    obtain ⟨sp, v0, h0, h⟩ := (run_bind_ok _ _ _ _ _).mp h
    obtain ⟨e0, e0'⟩ := getSp_run _ _ _ h0
    rw [e0, e0'] at h
    obtain ⟨a, v1, h1, h⟩ := (run_bind_ok _ _ _ _ _).mp h
    have hb := rdAddr_ok_low h1
    have e1 := readOnly_rdAddr _ _ _ _ h1
    rw [e1] at h
    obtain ⟨e, v2, h2, h⟩ := (run_bind_ok _ _ _ _ _).mp h
    have e2 := readOnly_getInt _ _ _ _ h2
    rw [e2] at h
    obtain ⟨u, v3, h3, h⟩ := (run_bind_ok _ _ _ _ _).mp h
    obtain ⟨t1, _⟩ := keeps_setSp_run _ _ _ _ h3
    split at h
    · obtain ⟨u2, v4, h4, h⟩ := (run_bind_ok _ _ _ _ _).mp h
      obtain ⟨c, _⟩ := (run_pure_ok _ _ _ _).mp h
      cases c
    · obtain ⟨r2, v4, h4, h⟩ := (run_bind_ok _ _ _ _ _).mp h
      cases r2 with
      | none => obtain ⟨c, _⟩ := (run_pure_ok _ _ _ _).mp h; cases c
      | some rr =>
        rcases ih v3 v4 rr h4 with hz | hz
        · subst hz; omega
        · rw [t1] at hz; omega

theorem popInts_low (n : Nat) : ∀ (vm vm' : Vm) (l : List Int), (popInts n).run vm = .ok (l, vm') → n = 0 ∨ 0 ≤ vm.sp - (n : Int) + 1 := by
  induction n with
  | zero => intro _ _ _ _; exact Or.inl rfl
  | succ n ih =>
    intro vm vm' l h
    right
    unfold popInts at h
    obtain ⟨sp, v0, h0, h⟩ := (run_bind_ok _ _ _ _ _).mp h
    obtain ⟨e0, e0'⟩ := getSp_run _ _ _ h0
    rw [e0, e0'] at h
    obtain ⟨a, v1, h1, h⟩ := (run_bind_ok _ _ _ _ _).mp h
    have hb := rdAddr_ok_low h1
    have e1 := readOnly_rdAddr _ _ _ _ h1
    rw [e1] at h
    obtain ⟨e, v2, h2, h⟩ := (run_bind_ok _ _ _ _ _).mp h
    have e2 := readOnly_getInt _ _ _ _ h2
    rw [e2] at h
    obtain ⟨u, v3, h3, h⟩ := (run_bind_ok _ _ _ _ _).mp h
    obtain ⟨t1, _⟩ := keeps_setSp_run _ _ _ _ h3
    obtain ⟨rest, v4, h4, _⟩ := (run_bind_ok _ _ _ _ _).mp h
    rcases ih v3 v4 rest h4 with hz | hz
    · subst hz; omega
    · rw [t1] at hz; omega

theorem WOk.popExts_bind {β} {N : Nat} {s : Int} {n : Nat} {g : Option (List Nat) → M β}
    (hnone : NoWC (g none)) (hsome : ∀ x, (n = 0 ∨ 0 ≤ s - (n : Int) + 1) → WOk N (s - (n : Int)) (g (some x))) : WOk N s (popExts n >>= g) := by
  intro vm hN hs h
  rcases (run_bind_err _ g vm _).mp h with h1 | ⟨r, vm', h1, h2⟩
  · exact nowc_popExts n vm h1
  · obtain ⟨_, _, a3, a4, _⟩ := popExts_spec n s vm r vm' hs h1
    cases r with
    | none => exact hnone vm' h2
    | some x =>
      have := popExts_low n vm vm' x h1
      rw [hs] at this
      exact hsome x this vm' (by omega) (a4 rfl) h2

theorem WOk.popInts_bind {β} {N : Nat} {s : Int} {n : Nat} {g : List Int → M β}
    (hg : ∀ l, (n = 0 ∨ 0 ≤ s - (n : Int) + 1) → WOk N (s - (n : Int)) (g l)) : WOk N s (popInts n >>= g) := by
  intro vm hN hs h
  rcases (run_bind_err _ g vm _).mp h with h1 | ⟨l, vm', h1, h2⟩
  · exact nowc_popInts n vm h1
  · obtain ⟨a1, _, _, a4⟩ := popInts_mov n s vm l vm' hs h1
    have := popInts_low n vm vm' l h1
    rw [hs] at this
    exact hg l this vm' (by omega) (by omega) h2

theorem wok_execBin (ty : NTy) (bop : BinOp) (N : Nat) (s : Int) (h0 : -1 ≤ s) (h1 : s < N) : WOk N s (execBin ty bop) := by unfold execBin; wok
theorem wok_execUn (ty : NTy) (uop : UnOp) (N : Nat) (s : Int) (h0 : -1 ≤ s) (h1 : s < N) : WOk N s (execUn ty uop) := by unfold execUn; wok
theorem wok_execConv (src dst : NTy) (N : Nat) (s : Int) (h0 : -1 ≤ s) (h1 : s < N) : WOk N s (execConv src dst) := by unfold execConv; wok

/-- a sub-block that keeps `sp`, cannot write wildly, and whose completion establishes a fact (typically: it has read a slot) -/
theorem WOk.fact_bind {α β} {N : Nat} {s : Int} {P : Prop} {f : M α} {g : α → M β} (hk : KeepsSp f) (hf : NoWC f)
    (hp : ∀ vm x vm', vm.sp = s → f.run vm = .ok (x, vm') → P) (hg : ∀ x, P → WOk N s (g x)) : WOk N s (f >>= g) := by
  intro vm hN hs h
  rcases (run_bind_err _ g vm _).mp h with h1 | ⟨x, vm', h1, h2⟩
  · exact hf vm h1
  · obtain ⟨a, b⟩ := hk vm x vm' h1
    exact hg x (hp vm x vm' hs h1) vm' (by omega) (by omega) h2

set_option maxRecDepth 8000 in
set_option maxHeartbeats 2000000 in
theorem wok_nilCmp (md : Module) (ins : Instr) (orc : Oracle) (N : Nat) (s : Int) (h0 : -1 ≤ s) (h1 : s < N) (k : Nat) (nl ng : Bool)
    (hb : binOpOf ins.op = none) (hu : unOpOf ins.op = none) (hc : convOf ins.op = none)
    (h : nilCmpOf ins.op = some (k, nl, ng)) : WOk N s (exec md ins orc) := by
  unfold exec
  simp only [hb, hu, hc, h]
  refine WOk.getSp_bind ?_
  cases nl
  · simp only [Bool.false_eq_true, if_false]
    refine WOk.fact_bind (P := 0 ≤ s - 1) (by keeps) (by nowc) ?_ (fun v hp => ?_)
    · intro vm x vm' _ hr
      obtain ⟨v, w1, g1, _⟩ := (run_bind_ok _ _ _ _ _).mp hr
      obtain ⟨a, w2, g2, _⟩ := (run_bind_ok _ _ _ _ _).mp g1
      exact rdSlot_ok_low g2
    · wok
  · simp only [if_true]
    refine WOk.fact_bind (P := 0 ≤ s - 1) (by keeps) (by nowc) ?_ (fun v hp => ?_)
    · intro vm x vm' _ hr
      obtain ⟨v, w1, g1, _⟩ := (run_bind_ok _ _ _ _ _).mp hr
      obtain ⟨a, w2, g2, _⟩ := (run_bind_ok _ _ _ _ _).mp g1
      exact rdSlot_ok_low g2
    · wok

set_option maxRecDepth 8000 in
set_option maxHeartbeats 2000000 in
theorem wok_strAdd (md : Module) (ins : Instr) (orc : Oracle) (N : Nat) (s : Int) (h0 : -1 ≤ s) (h1 : s < N) (ty : NTy) (sl : Bool)
    (hb : binOpOf ins.op = none) (hu : unOpOf ins.op = none) (hc : convOf ins.op = none) (hn : nilCmpOf ins.op = none)
    (h : strAddOf ins.op = some (ty, sl)) : WOk N s (exec md ins orc) := by
  unfold exec
  simp only [hb, hu, hc, hn, h]
  wok

set_option maxRecDepth 8000 in
set_option maxHeartbeats 4000000 in
theorem wok_arrOp (md : Module) (ins : Instr) (orc : Oracle) (N : Nat) (s : Int) (h0 : -1 ≤ s) (h1 : s < N) (ty : NTy) (kind : Nat)
    (hb : binOpOf ins.op = none) (hu : unOpOf ins.op = none) (hc : convOf ins.op = none) (hn : nilCmpOf ins.op = none)
    (hs : strAddOf ins.op = none)
    (h : arrOpOf ins.op = some (ty, kind)) : WOk N s (exec md ins orc) := by
  unfold exec
  simp only [hb, hu, hc, hn, hs, h]
  refine WOk.getSp_bind ?_
  split <;> wok

set_option maxHeartbeats 1000000 in
theorem wok_SLICE_RANGE (md : Module) (ins : Instr) (orc : Oracle) (N : Nat) (s : Int) (h0 : -1 ≤ s) (h1 : s < N) (h : ins.op = .SLICE_RANGE) : WOk N s (exec md ins orc) := by
  exec_wsel h
  refine WOk.rdAddr_bind (fun _ _ => ?_)
  refine WOk.keeps_bind (by keeps) (WOk.of_nowc (by nowc)) (fun _ => ?_)
  refine WOk.rdAddr_bind (fun _ _ => ?_)
  refine WOk.keeps_bind (by keeps) (WOk.of_nowc (by nowc)) (fun _ => ?_)
  split
  · wok
  · refine WOk.keeps_bind (by keeps) (WOk.of_nowc (by nowc)) (fun _ => ?_)
    refine WOk.bool_bind (keeps_composeRanges _ _ _ _ _) (by nowc) ?_ ?_
    · simp only [if_true]; wok
    · simp only [Bool.false_eq_true, if_false]; nowc

set_option maxHeartbeats 1000000 in
theorem wok_SLICE_SLICE (md : Module) (ins : Instr) (orc : Oracle) (N : Nat) (s : Int) (h0 : -1 ≤ s) (h1 : s < N) (h : ins.op = .SLICE_SLICE) : WOk N s (exec md ins orc) := by
  exec_wsel h
  refine WOk.rdAddr_bind (fun _ _ => ?_)
  refine WOk.keeps_bind (by keeps) (WOk.of_nowc (by nowc)) (fun _ => ?_)
  refine WOk.rdAddr_bind (fun _ _ => ?_)
  refine WOk.keeps_bind (by keeps) (WOk.of_nowc (by nowc)) (fun _ => ?_)
  split
  · wok
  · refine WOk.keeps_bind (by keeps) (WOk.of_nowc (by nowc)) (fun _ => ?_)
    refine WOk.keeps_bind (by keeps) (WOk.of_nowc (by nowc)) (fun _ => ?_)
    split
    · wok
    · refine WOk.keeps_bind (by keeps) (WOk.of_nowc (by nowc)) (fun _ => ?_)
      refine WOk.bool_bind (keeps_composeRanges _ _ _ _ _) (by nowc) ?_ ?_
      · simp only [if_true]; wok
      · simp only [Bool.false_eq_true, if_false]; nowc

set_option maxRecDepth 8000 in
set_option maxHeartbeats 1000000 in
theorem wok_MK_RANGE (md : Module) (ins : Instr) (orc : Oracle) (N : Nat) (s : Int) (h0 : -1 ≤ s) (h1 : s < N) (h : ins.op = .MK_RANGE) :
    WOk N s (exec md ins orc) := by
  exec_wsel h
  refine WOk.keeps_bind (by keeps) (WOk.of_nowc (by nowc)) (fun _ => ?_)
  refine WOk.popAddrs_bind (fun _ _ => ?_)
  wok

set_option maxRecDepth 8000 in
set_option maxHeartbeats 1000000 in
theorem wok_RECORD (md : Module) (ins : Instr) (orc : Oracle) (N : Nat) (s : Int) (h0 : -1 ≤ s) (h1 : s < N) (h : ins.op = .RECORD) :
    WOk N s (exec md ins orc) := by
  exec_wsel h
  refine WOk.keeps_bind (by keeps) (WOk.of_nowc (by nowc)) (fun _ => ?_)
  refine WOk.popAddrs_bind (fun _ _ => ?_)
  wok

set_option maxRecDepth 8000 in
set_option maxHeartbeats 1000000 in
theorem wok_GLOBAL_VEC (md : Module) (ins : Instr) (orc : Oracle) (N : Nat) (s : Int) (h0 : -1 ≤ s) (h1 : s < N) (h : ins.op = .GLOBAL_VEC) :
    WOk N s (exec md ins orc) := by
  exec_wsel h
  refine WOk.keeps_bind (by keeps) (WOk.of_nowc (by nowc)) (fun _ => ?_)
  refine WOk.popAddrs_bind (fun _ _ => ?_)
  refine WOk.keeps_bind (keeps_setObj _ _) (WOk.of_nowc (nowc_setObj _ _)) (fun _ => ?_)
  exact WOk.pushAddr _ _ _ (by omega)

theorem wok_ALLOC (md : Module) (ins : Instr) (orc : Oracle) (N : Nat) (s : Int) (h0 : -1 ≤ s) (h1 : s < N) (h : ins.op = .ALLOC) :
    WOk N s (exec md ins orc) := by
  exec_wsel h
  exact allocLoop_wok _ _ _ h0

set_option maxRecDepth 8000 in
set_option maxHeartbeats 1000000 in
theorem wok_mkArray (md : Module) (ins : Instr) (orc : Oracle) (N : Nat) (s : Int) (h0 : -1 ≤ s) (h1 : s < N) (dflt : Obj)
    (hb : binOpOf ins.op = none) (hu : unOpOf ins.op = none) (hc : convOf ins.op = none) (hn : nilCmpOf ins.op = none)
    (hs : strAddOf ins.op = none) (ha : arrOpOf ins.op = none)
    (h : mkArrayElem ins.op = some dflt) : WOk N s (exec md ins orc) := by
  unfold exec
  simp only [hb, hu, hc, hn, hs, ha, h]
  refine WOk.getSp_bind ?_
  refine WOk.popExts_bind (by nowc) (fun exts _ => ?_)
  dsimp only
  wok

set_option maxRecDepth 8000 in
set_option maxHeartbeats 1000000 in
theorem wok_ARRAY_DEREF (md : Module) (ins : Instr) (orc : Oracle) (N : Nat) (s : Int) (h0 : -1 ≤ s) (h1 : s < N) (h : ins.op = .ARRAY_DEREF ∨ ins.op = .ARRAYREF_DEREF) :
    WOk N s (exec md ins orc) := by
  rcases h with h | h
  all_goals
    exec_wsel h
    refine WOk.popOpt_bind (popIndices_spec _ _) (by nowc) (by nowc) (fun idx => ?_)
    dsimp only
    wok

set_option maxRecDepth 8000 in
set_option maxHeartbeats 1000000 in
theorem wok_SLICE_DEREF (md : Module) (ins : Instr) (orc : Oracle) (N : Nat) (s : Int) (h0 : -1 ≤ s) (h1 : s < N) (h : ins.op = .SLICE_DEREF) :
    WOk N s (exec md ins orc) := by
  exec_wsel h
  refine WOk.popOpt_bind (popIndices_spec _ _) (by nowc) (by nowc) (fun idx => ?_)
  dsimp only
  wok

set_option maxRecDepth 8000 in
set_option maxHeartbeats 1000000 in
theorem wok_RANGE_DEREF (md : Module) (ins : Instr) (orc : Oracle) (N : Nat) (s : Int) (h0 : -1 ≤ s) (h1 : s < N) (h : ins.op = .RANGE_DEREF) :
    WOk N s (exec md ins orc) := by
  exec_wsel h
  refine WOk.rdAddr_bind (fun _ _ => ?_)
  refine WOk.keeps_bind (by keeps) (WOk.of_nowc (by nowc)) (fun _ => ?_)
  split
  · wok
  · refine WOk.keeps_bind (by keeps) (WOk.of_nowc (by nowc)) (fun _ => ?_)
    refine WOk.boolmov_bind (n := ins.w0) (fun vm r vm' hs hr => rangeDerefLoop_spec _ _ _ _ _ vm r vm' hs hr) (by nowc) ?_ ?_
    · simp only [if_true]; wok
    · simp only [Bool.false_eq_true, if_false]; nowc

set_option maxRecDepth 8000 in
set_option maxHeartbeats 1000000 in
theorem wok_RECORD_UNPACK (md : Module) (ins : Instr) (orc : Oracle) (N : Nat) (s : Int) (h0 : -1 ≤ s) (h1 : s < N) (h : ins.op = .RECORD_UNPACK) :
    WOk N s (exec md ins orc) := by
  exec_wsel h
  refine WOk.rdAddr_bind (fun _ hb => ?_)
  refine WOk.keeps_bind (by keeps) (WOk.of_nowc (by nowc)) (fun fs => ?_)
  split
  · wok
  · refine WOk.setSp_then _ _ _ (fun _ => ?_)
    refine WOk.check_bind (fun _ hc => ?_)
    exact unpackLoop_wok _ _ _ _ _ hb.1 _ (by omega)

theorem nowc_appendTail (array obj : Nat) :
    NoWC (do let vm ← get
             match vm.gc.appendArrElem array obj with
             | some g => set { vm with gc := g }
             | none => (crash "assert: append to a non 1-dimensional array" : M PUnit)) := by
  refine NoWC.bind nowc_get (fun vm => ?_)
  split
  · exact nowc_set _
  · exact nowc_crash _ (by decide)

set_option maxRecDepth 8000 in
set_option maxHeartbeats 1000000 in
theorem wok_ARRAY_APPEND (md : Module) (ins : Instr) (orc : Oracle) (N : Nat) (s : Int) (h0 : -1 ≤ s) (h1 : s < N) (h : ins.op = .ARRAY_APPEND) :
    WOk N s (exec md ins orc) := by
  exec_wsel h
  refine WOk.rdAddr_bind (fun _ _ => ?_)
  refine WOk.keeps_bind (by keeps) (WOk.of_nowc (by nowc)) (fun _ => ?_)
  split
  · wok
  · refine WOk.rdAddr_bind (fun _ _ => ?_)
    refine WOk.setSp_then _ _ _ (fun _ => ?_)
    exact WOk.of_nowc (nowc_appendTail _ _)

set_option maxRecDepth 16000 in
set_option maxHeartbeats 16000000 in
/-- the build-ins store their result at `sp` (or `sp − 1`), slots they have read; `read` (id 12) pushes, with `vm_check_stack` before the
store since the `fix:` commit 034394a -/
theorem buildIn_wok (id : Nat) (orc : Oracle) (N : Nat) (s : Int) (h0 : -1 ≤ s) (h1 : s < N) :
    WOk N s (buildIn id orc) := by
  unfold buildIn
  refine WOk.getSp_bind ?_
  by_cases h12 : id = 12
  · have hc : (id == 12) = true := by simp [h12]
    simp only [hc, if_true]
    refine WOk.keeps_bind (by keeps) (WOk.of_nowc (by nowc)) (fun top => ?_)
    try dsimp only
    split
    all_goals first | exact absurd h12 (by decide) | wok
  · have hc : (id == 12) = false := by simpa using h12
    simp only [hc, Bool.false_eq_true, if_false]
    refine WOk.rdAddr_bind (fun top hb => ?_)
    try dsimp only
    split
    all_goals wok

theorem wok_BUILD_IN (md : Module) (ins : Instr) (orc : Oracle) (N : Nat) (s : Int) (h0 : -1 ≤ s) (h1 : s < N)
    (h : ins.op = .BUILD_IN) : WOk N s (exec md ins orc) := by
  unfold exec
  simp only [h, binOpOf, unOpOf, convOf, nilCmpOf, strAddOf, arrOpOf, mkArrayElem]
  refine WOk.getSp_bind ?_
  exact buildIn_wok _ _ _ _ h0 h1

end Never.Vm
