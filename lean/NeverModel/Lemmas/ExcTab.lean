/-
Properties of M-ExcTab (model of back/exctab.c `exctab_search`).

  excSearch_sound      any table: a found index is a real entry whose block contains ip
  excSearch_complete   well-formed table, ip below the sentinel: found, never OOB, never NULL
  excSearch_unique     well-formed table: the containing block is unique
  excSearch_in_bounds  any table with count+1 elements: no read outside tab[0..count]
-/
import NeverModel.Model.ExcTab

namespace Never

/-! ### `excAt` and `excBetween` -/

theorem excAt_some {tab : Array ExcEntry} {i : Int} {e : ExcEntry}
    (h : excAt tab i = some e) : 0 ≤ i ∧ tab[i.toNat]? = some e := by
  unfold excAt at h
  split at h
  · cases h
  · exact ⟨by omega, h⟩

theorem excAt_ofNat (tab : Array ExcEntry) (i : Int) (h : 0 ≤ i) :
    excAt tab i = tab[i.toNat]? := by
  unfold excAt
  split
  · omega
  · rfl

theorem excAt_isSome {tab : Array ExcEntry} {i : Int} (h0 : 0 ≤ i) (h1 : i.toNat < tab.size) :
    ∃ e, excAt tab i = some e := by
  rw [excAt_ofNat tab i h0]
  exact ⟨tab[i.toNat], Array.getElem?_eq_getElem h1⟩

theorem excBetween_neg {a b : ExcEntry} {ip : Nat} :
    excBetween a b ip < 0 ↔ ip < a.block := by
  unfold excBetween
  split
  · simp [*]
  · split <;> simp [*]

theorem excBetween_pos {a b : ExcEntry} {ip : Nat} (h : ¬ excBetween a b ip < 0) :
    excBetween a b ip > 0 ↔ b.block ≤ ip := by
  unfold excBetween at *
  split
  · simp_all
  · split <;> simp_all

/-! ### soundness (any table) -/

theorem excSearchLoop_sound (tab : Array ExcEntry) (ip : Nat) (frm to : Int) (i : Nat)
    (h : excSearchLoop tab ip frm to = some (some i)) :
    frm ≤ (i : Int) ∧ (i : Int) ≤ to ∧
    ∃ e1 e2, tab[i]? = some e1 ∧ tab[i + 1]? = some e2 ∧ e1.block ≤ ip ∧ ip < e2.block := by
  rw [excSearchLoop] at h
  split at h
  · rename_i hle
    simp only [] at h
    split at h
    · rename_i e1 e2 h1 h2
      have ⟨hm0, hm1⟩ := excAt_some h1
      have ⟨_, hm2⟩ := excAt_some h2
      split at h
      · have ih := excSearchLoop_sound tab ip frm (frm + (to - frm) / 2 - 1) i h
        refine ⟨ih.1, by omega, ih.2.2⟩
      · rename_i hneg
        split at h
        · have ih := excSearchLoop_sound tab ip (frm + (to - frm) / 2 + 1) to i h
          refine ⟨by omega, ih.2.1, ih.2.2⟩
        · rename_i hpos
          have hi : (frm + (to - frm) / 2).toNat = i := by simpa using h
          have hi' : (frm + (to - frm) / 2 + 1).toNat = i + 1 := by omega
          rw [hi] at hm1
          rw [hi'] at hm2
          refine ⟨by omega, by omega, e1, e2, hm1, hm2, ?_, ?_⟩
          · have := mt (excBetween_neg (a := e1) (b := e2) (ip := ip)).mpr hneg
            omega
          · have := mt (excBetween_pos hneg).mpr hpos
            omega
    · cases h
  · cases h
termination_by (to - frm + 1).toNat
decreasing_by all_goals omega

/-- Whatever the table, a found index `i` is one of the `count` real entries and
    `tab[i].block ≤ ip < tab[i+1].block`. -/
theorem excSearch_sound (tab : Array ExcEntry) (count ip i : Nat)
    (h : excSearch tab count ip = some (some i)) :
    i < count ∧
    ∃ e1 e2, tab[i]? = some e1 ∧ tab[i + 1]? = some e2 ∧ e1.block ≤ ip ∧ ip < e2.block := by
  unfold excSearch at h
  split at h
  · cases h
  · have := excSearchLoop_sound tab ip 0 ((count : Int) - 1) i h
    exact ⟨by omega, this.2.2⟩

/-! ### in-bounds (any table with `count + 1` elements) -/

theorem excSearchLoop_in_bounds (tab : Array ExcEntry) (ip : Nat) (frm to : Int)
    (h0 : 0 ≤ frm) (h1 : to + 1 < (tab.size : Int)) :
    excSearchLoop tab ip frm to ≠ none := by
  rw [excSearchLoop]
  split
  · rename_i hle
    simp only []
    have ⟨e1, he1⟩ := excAt_isSome (tab := tab) (i := frm + (to - frm) / 2)
      (by omega) (by omega)
    have ⟨e2, he2⟩ := excAt_isSome (tab := tab) (i := frm + (to - frm) / 2 + 1)
      (by omega) (by omega)
    rw [he1, he2]
    simp only []
    split
    · exact excSearchLoop_in_bounds tab ip frm _ h0 (by omega)
    · split
      · exact excSearchLoop_in_bounds tab ip _ to (by omega) h1
      · simp
  · simp
termination_by (to - frm + 1).toNat
decreasing_by all_goals omega

/-- The loop never reads outside `tab[0..count]`, whatever the table contents. -/
theorem excSearch_in_bounds (tab : Array ExcEntry) (count ip : Nat)
    (hsz : tab.size = count + 1) : excSearch tab count ip ≠ none := by
  unfold excSearch
  split
  · simp
  · exact excSearchLoop_in_bounds tab ip 0 _ (by omega) (by omega)

/-! ### completeness

The loop invariant is `tab[frm].block ≤ ip < tab[to+1].block`; bisection keeps it, and it is
contradictory once `frm = to + 1`, so the loop can only leave through `found`.  Monotonicity of
the blocks is not needed for this direction (only for uniqueness). -/

theorem excSearchLoop_complete (tab : Array ExcEntry) (ip : Nat) (frm to : Int)
    (h0 : 0 ≤ frm) (hft : frm ≤ to + 1) (h1 : to + 1 < (tab.size : Int))
    (ef et : ExcEntry)
    (hf : tab[frm.toNat]? = some ef) (ht : tab[(to + 1).toNat]? = some et)
    (hlo : ef.block ≤ ip) (hhi : ip < et.block) :
    ∃ i, excSearchLoop tab ip frm to = some (some i) := by
  rw [excSearchLoop]
  split
  · rename_i hle
    simp only []
    have ⟨e1, he1⟩ := excAt_isSome (tab := tab) (i := frm + (to - frm) / 2)
      (by omega) (by omega)
    have ⟨e2, he2⟩ := excAt_isSome (tab := tab) (i := frm + (to - frm) / 2 + 1)
      (by omega) (by omega)
    rw [he1, he2]
    simp only []
    split
    · rename_i hneg
      have hb := excBetween_neg.mp hneg
      have ⟨_, hm1⟩ := excAt_some he1
      refine excSearchLoop_complete tab ip frm _ h0 (by omega) (by omega) ef e1 hf ?_ hlo hb
      rw [show (frm + (to - frm) / 2 - 1 + 1) = frm + (to - frm) / 2 by omega]
      exact hm1
    · rename_i hneg
      split
      · rename_i hpos
        have hb := (excBetween_pos hneg).mp hpos
        have ⟨_, hm2⟩ := excAt_some he2
        exact excSearchLoop_complete tab ip _ to (by omega) (by omega) h1 e2 et hm2 ht hb hhi
      · exact ⟨_, rfl⟩
  · rename_i hgt
    have : frm = to + 1 := by omega
    subst this
    rw [hf] at ht
    cases ht
    omega
termination_by (to - frm + 1).toNat
decreasing_by all_goals omega

/-! ### unpacking `ExcWF` -/

structure ExcWFP (tab : Array ExcEntry) (count : Nat) : Prop where
  size : tab.size = count + 1
  pos : 0 < count
  first : ∃ e, tab[0]? = some e ∧ e.block = 0
  incr : ∀ i, i < count → ∃ a b, tab[i]? = some a ∧ tab[i + 1]? = some b ∧ a.block < b.block
  last : ∃ e, tab[count]? = some e ∧ e.block = 4294967295

theorem ExcWF_prop {tab : Array ExcEntry} {count : Nat} (h : ExcWF tab count = true) :
    ExcWFP tab count := by
  unfold ExcWF at h
  simp only [Bool.and_eq_true, beq_iff_eq, decide_eq_true_eq, List.all_eq_true,
    List.mem_range] at h
  obtain ⟨⟨⟨⟨hs, hp⟩, hf⟩, hi⟩, hl⟩ := h
  refine ⟨hs, hp, ?_, ?_, ?_⟩
  · cases h0 : tab[0]? with
    | none => simp [h0] at hf
    | some e => exact ⟨e, rfl, by simpa [h0] using hf⟩
  · intro i hic
    have := hi i hic
    split at this
    · rename_i a b ha hb
      exact ⟨a, b, ha, hb, by simpa using this⟩
    · cases this
  · cases h0 : tab[count]? with
    | none => simp [h0] at hl
    | some e => exact ⟨e, rfl, by simpa [h0] using hl⟩

/-- strictly increasing blocks ⇒ `i < j ≤ count → block_i < block_j` -/
theorem ExcWFP.mono {tab : Array ExcEntry} {count : Nat} (w : ExcWFP tab count) :
    ∀ (d i : Nat) (a b : ExcEntry), i + d + 1 ≤ count →
      tab[i]? = some a → tab[i + d + 1]? = some b → a.block < b.block := by
  intro d
  induction d with
  | zero =>
    intro i a b hle ha hb
    obtain ⟨a', b', ha', hb', hlt⟩ := w.incr i (by omega)
    rw [ha] at ha'; rw [show i + 0 + 1 = i + 1 by omega, hb'] at hb
    cases ha'; cases hb
    exact hlt
  | succ d ih =>
    intro i a b hle ha hb
    obtain ⟨a', b', ha', hb', hlt⟩ := w.incr (i + d + 1) (by omega)
    have := ih i a a' (by omega) ha ha'
    rw [show i + (d + 1) + 1 = i + d + 1 + 1 by omega, hb'] at hb
    cases hb
    omega

theorem ExcWFP.lt_of_lt {tab : Array ExcEntry} {count : Nat} (w : ExcWFP tab count)
    {i j : Nat} {a b : ExcEntry} (hij : i < j) (hj : j ≤ count)
    (ha : tab[i]? = some a) (hb : tab[j]? = some b) : a.block < b.block := by
  have : j = i + (j - i - 1) + 1 := by omega
  rw [this] at hb
  exact w.mono (j - i - 1) i a b (by omega) ha hb

/-- On a well-formed table every `ip` below the sentinel is found: no out-of-bounds read, no
    NULL result (so `assert(res != NULL)` in `exception_tab_search` holds), and the index
    returned is the block containing `ip`. -/
theorem excSearch_complete (tab : Array ExcEntry) (count ip : Nat)
    (hwf : ExcWF tab count = true) (hip : ip < 4294967295) :
    ∃ i e1 e2, excSearch tab count ip = some (some i) ∧ i < count ∧
      tab[i]? = some e1 ∧ tab[i + 1]? = some e2 ∧ e1.block ≤ ip ∧ ip < e2.block := by
  have w := ExcWF_prop hwf
  obtain ⟨ef, hf, hf0⟩ := w.first
  obtain ⟨et, ht, ht0⟩ := w.last
  have hpos := w.pos
  have hsz := w.size
  have ⟨i, hi⟩ : ∃ i, excSearch tab count ip = some (some i) := by
    unfold excSearch
    rw [if_neg (by omega)]
    refine excSearchLoop_complete tab ip 0 _ (by omega) (by omega) (by omega) ef et
      (by simpa using hf) ?_ (by omega) (by omega)
    rw [show ((count : Int) - 1 + 1).toNat = count by omega]
    exact ht
  have ⟨hic, e1, e2, h1, h2, hlo, hhi⟩ := excSearch_sound tab count ip i hi
  exact ⟨i, e1, e2, hi, hic, h1, h2, hlo, hhi⟩

/-- On a well-formed table the block containing `ip` is unique. -/
theorem excSearch_unique (tab : Array ExcEntry) (count ip i j : Nat)
    (hwf : ExcWF tab count = true)
    (a1 a2 b1 b2 : ExcEntry)
    (hi : i < count) (hj : j < count)
    (ha1 : tab[i]? = some a1) (ha2 : tab[i + 1]? = some a2)
    (hb1 : tab[j]? = some b1) (hb2 : tab[j + 1]? = some b2)
    (hai : a1.block ≤ ip ∧ ip < a2.block) (hbj : b1.block ≤ ip ∧ ip < b2.block) :
    i = j := by
  have w := ExcWF_prop hwf
  rcases Nat.lt_trichotomy i j with hlt | heq | hgt
  · -- i + 1 ≤ j : block_{i+1} ≤ block_j ≤ ip < block_{i+1}
    exfalso
    by_cases h : i + 1 = j
    · subst h
      rw [ha2] at hb1; cases hb1; omega
    · have := w.lt_of_lt (i := i + 1) (j := j) (by omega) (by omega) ha2 hb1
      omega
  · exact heq
  · exfalso
    by_cases h : j + 1 = i
    · subst h
      rw [hb2] at ha1; cases ha1; omega
    · have := w.lt_of_lt (i := j + 1) (j := i) (by omega) (by omega) hb2 ha1
      omega

/-- Corollary: on a well-formed table, for `ip` below the sentinel, the search returns `i`
    exactly when `i` is the block containing `ip`. -/
theorem excSearch_eq_iff (tab : Array ExcEntry) (count ip i : Nat)
    (hwf : ExcWF tab count = true) (hip : ip < 4294967295) :
    excSearch tab count ip = some (some i) ↔
      i < count ∧ ∃ e1 e2, tab[i]? = some e1 ∧ tab[i + 1]? = some e2 ∧
        e1.block ≤ ip ∧ ip < e2.block := by
  constructor
  · exact excSearch_sound tab count ip i
  · intro ⟨hic, e1, e2, h1, h2, hlo, hhi⟩
    obtain ⟨j, b1, b2, hs, hjc, hb1, hb2, hlo', hhi'⟩ := excSearch_complete tab count ip hwf hip
    have := excSearch_unique tab count ip i j hwf e1 e2 b1 b2 hic hjc h1 h2 hb1 hb2
      ⟨hlo, hhi⟩ ⟨hlo', hhi'⟩
    rw [this]; exact hs

/-- `exception_tab_search` returns the handler of the containing block. -/
theorem excHandler_complete (tab : Array ExcEntry) (count ip : Nat)
    (hwf : ExcWF tab count = true) (hip : ip < 4294967295) :
    ∃ i e1 e2, i < count ∧ tab[i]? = some e1 ∧ tab[i + 1]? = some e2 ∧
      e1.block ≤ ip ∧ ip < e2.block ∧ excHandler tab count ip = some e1.handler := by
  obtain ⟨i, e1, e2, hs, hic, h1, h2, hlo, hhi⟩ := excSearch_complete tab count ip hwf hip
  refine ⟨i, e1, e2, hic, h1, h2, hlo, hhi, ?_⟩
  unfold excHandler
  rw [hs]
  simp [h1]

/-- The sentinel address itself is NOT covered: on every well-formed table
    `exctab_search` returns NULL for `ip = UINT_MAX` (the C `assert` would fail). -/
theorem excSearch_sentinel_null (tab : Array ExcEntry) (count : Nat)
    (hwf : ExcWF tab count = true) :
    excSearch tab count 4294967295 = some none := by
  have w := ExcWF_prop hwf
  have hb := excSearch_in_bounds tab count 4294967295 w.size
  cases hr : excSearch tab count 4294967295 with
  | none => exact absurd hr hb
  | some r =>
    cases r with
    | none => rfl
    | some i =>
      exfalso
      obtain ⟨hic, e1, e2, h1, h2, hlo, hhi⟩ := excSearch_sound tab count _ i hr
      obtain ⟨et, ht, ht0⟩ := w.last
      by_cases h : i + 1 = count
      · subst h; rw [h2] at ht; cases ht; omega
      · have := w.lt_of_lt (i := i + 1) (j := count) (by omega) (by omega) h2 ht
        omega

/-! ### non-vacuity -/

def exTab : Array ExcEntry :=
  #[⟨0, 100⟩, ⟨10, 200⟩, ⟨25, 300⟩, ⟨4294967295, 4294967295⟩]

example : ExcWF exTab 3 = true := by decide
example : excSearch exTab 3 0 = some (some 0) := by decide +kernel
example : excSearch exTab 3 12 = some (some 1) := by decide +kernel
example : excSearch exTab 3 4294967294 = some (some 2) := by decide +kernel
example : excHandler exTab 3 12 = some 200 := by decide +kernel
example : excSearch exTab 3 4294967295 = some none := by decide +kernel
-- a too-large `count` is reported as an out-of-bounds read
example : excSearch exTab 5 4294967295 = none := by decide +kernel


end Never
