import NeverModel.Lemmas.SrcAlpha
namespace Never.Src

variable {ν : Ren}

/-- alpha-invariance of every evaluator function at fuel `n` -/
structure AlphaAt (ν : Ren) (n : Nat) : Prop where
  e : ∀ ctx env e, evalE n (rnCtx ν ctx) (rnEnv ν env) (rnE ν (names env) e) = evalE n ctx env e
  args : ∀ ctx env es, evalArgs n (rnCtx ν ctx) (rnEnv ν env) (rnEs ν (names env) es) = evalArgs n ctx env es
  seq : ∀ ctx env items, evalSeq n (rnCtx ν ctx) (rnEnv ν env) (rnItems ν (names env) items) = evalSeq n ctx env items
  whl : ∀ ctx env c b, evalWhile n (rnCtx ν ctx) (rnEnv ν env) (rnE ν (names env) c) (rnE ν (names env) b) = evalWhile n ctx env c b
  doWhl : ∀ ctx env b c, evalDoWhile n (rnCtx ν ctx) (rnEnv ν env) (rnE ν (names env) b) (rnE ν (names env) c) = evalDoWhile n ctx env b c
  for_ : ∀ ctx env c s b, evalFor n (rnCtx ν ctx) (rnEnv ν env) (rnE ν (names env) c) (rnE ν (names env) s) (rnE ν (names env) b) = evalFor n ctx env c s b
  forIn : ∀ ctx env x lc i b, evalForIn n (rnCtx ν ctx) (rnEnv ν env) (ν x env.length) lc i (rnE ν (x :: names env) b) = evalForIn n ctx env x lc i b
  call : ∀ ctx fid cells as, callClo n (rnCtx ν ctx) fid cells as = callClo n ctx fid cells as
  hdl : ∀ ctx env cs ex, handle n (rnCtx ν ctx) (rnEnv ν env) (rnCatches ν (names env) cs) ex = handle n ctx env cs ex
  guards : ∀ ctx env l gs, evalGuards n (rnCtx ν ctx) (rnEnv ν env) l (rnGuards ν (names env) gs) = evalGuards n ctx env l gs
  quals : ∀ ctx env qs body ty o, evalQuals n (rnCtx ν ctx) (rnEnv ν env) (rnQuals ν (names env) qs) (rnE ν (qualBinders qs ++ names env) body) ty o = evalQuals n ctx env qs body ty o
  gen : ∀ ctx env x lc i qs body ty o, evalGen n (rnCtx ν ctx) (rnEnv ν env) (ν x env.length) lc i (rnQuals ν (x :: names env) qs) (rnE ν (qualBinders qs ++ (x :: names env)) body) ty o = evalGen n ctx env x lc i qs body ty o
  forRng : ∀ ctx env x ao cur asc lt b, evalForRng n (rnCtx ν ctx) (rnEnv ν env) (ν x env.length) ao cur asc lt (rnE ν (x :: names env) b) = evalForRng n ctx env x ao cur asc lt b
  genRng : ∀ ctx env x ao cur asc lt qs body ty o, evalGenRng n (rnCtx ν ctx) (rnEnv ν env) (ν x env.length) ao cur asc lt (rnQuals ν (x :: names env) qs) (rnE ν (qualBinders qs ++ (x :: names env)) body) ty o = evalGenRng n ctx env x ao cur asc lt qs body ty o

theorem alpha_zero : AlphaAt ν 0 := by
  constructor <;> intros <;> simp [evalE, evalArgs, evalSeq, evalWhile, evalDoWhile, evalFor, evalForIn, callClo, handle, evalGuards, evalQuals, evalGen, evalForRng, evalGenRng]

theorem alpha_e (hν : Adm ν) (n : Nat) (ih : AlphaAt ν n) (ctx : Ctx) (env : Env) (e : Expr) :
    evalE (n + 1) (rnCtx ν ctx) (rnEnv ν env) (rnE ν (names env) e) = evalE (n + 1) ctx env e := by
  cases e with
  | lit l => simp only [rnE, evalE]
  | var x => simp only [rnE, evalE, lookup_rn hν]
  | dimVar x => simp only [rnE, evalE, lookup_rn hν]
  | un op a => simp only [rnE, evalE, ih.e]
  | bin op a b => simp only [rnE, evalE, ih.e]
  | and a b => simp only [rnE, evalE, ih.e]
  | or a b => simp only [rnE, evalE, ih.e]
  | cond c t e => simp only [rnE, evalE, ih.e]
  | assign l r => simp only [rnE, evalE, ih.e]
  | seq items => simp only [rnE, evalE, ih.seq]
  | «while» c b => simp only [rnE, evalE, ih.whl]
  | doWhile b c => simp only [rnE, evalE, ih.doWhl]
  | «for» i c s b => simp only [rnE, evalE, ih.e, ih.for_]
  | forIn x coll b => simp only [rnE, evalE, ih.e, length_names, ih.forIn]
  | call f args => simp only [rnE, evalE, ih.e, ih.args, ih.call]
  | pipe l f args => simp only [rnE, evalE, ih.e, ih.args, ih.call]
  | builtin b args => simp only [rnE, evalE, ih.args]
  | lam fn =>
    obtain ⟨id, nm, ps, r, body, cs⟩ := fn
    by_cases hn : nm = ""
    · simp only [rnE, hn, if_true, evalE, rnF, Func.name, Func.id, locs_rnEnv]
    · have hne : ν nm (names env).length ≠ "" := hν.nonempty _ _
      simp only [rnE, hn, if_false, evalE, rnF, Func.name, Func.id, locs_rnEnv, hne]
  | arrLit dims elems ty => simp only [rnE, evalE, ih.args]
  | arrNew dims ty => simp only [rnE, evalE, ih.args]
  | index a idx => simp only [rnE, evalE, ih.e, ih.args]
  | record rn args => simp only [rnE, evalE, ih.args]; rfl
  | tuple args => simp only [rnE, evalE, ih.args]
  | field e f => simp only [rnE, evalE, ih.e]; rfl
  | enumVal en it => simp only [rnE, evalE]; rfl
  | enumRec en it args => simp only [rnE, evalE, ih.args]; rfl
  | matchE e gs => simp only [rnE, evalE, ih.e, ih.guards]
  | ifLet g e els =>
    have h := fun l => ih.guards ctx env l [g, .els els]
    simp only [rnGuards, rnGuard] at h
    simp only [rnE, evalE, ih.e, h]
  | listcomp body quals ty => simp only [rnE, evalE, ih.quals]
  | range bounds => simp only [rnE, evalE, ih.args]
  | slice a bounds => simp only [rnE, evalE, ih.e, ih.args]

theorem bind_congr {m : M α} {k k' : α → M β} (h : ∀ a, k a = k' a) : (m >>= k) = (m >>= k') := by
  have : k = k' := funext h
  rw [this]

theorem rnParams_length (d : Nat) (ps : List Param) : (rnParams ν d ps).length = ps.length := by
  induction ps generalizing d with
  | nil => rfl
  | cons p ps ih => simp [rnParams, ih]

theorem alpha_args (n : Nat) (ih : AlphaAt ν n) (ctx : Ctx) (env : Env) (es : List Expr) :
    evalArgs (n + 1) (rnCtx ν ctx) (rnEnv ν env) (rnEs ν (names env) es) = evalArgs (n + 1) ctx env es := by
  cases es with
  | nil => simp only [rnEs, evalArgs]
  | cons e es => simp only [rnEs, evalArgs, ih.args, ih.e]

theorem alpha_seq (n : Nat) (ih : AlphaAt ν n) (ctx : Ctx) (env : Env) (items : List Item) :
    evalSeq (n + 1) (rnCtx ν ctx) (rnEnv ν env) (rnItems ν (names env) items) = evalSeq (n + 1) ctx env items := by
  cases items with
  | nil => simp only [rnItems, evalSeq]
  | cons it rest =>
    cases it with
    | expr e =>
      cases rest with
      | nil => simp only [rnItems, evalSeq, ih.e]
      | cons it2 rest2 =>
        have h := ih.seq ctx env (it2 :: rest2)
        cases it2 <;> simp only [rnItems, evalSeq, ih.e] at h ⊢ <;> simp only [h]
    | bind v x e =>
      simp only [rnItems, evalSeq, ih.e, length_names]
      apply bind_congr
      intro l
      have := ih.seq ctx ((x, l) :: env) rest
      simpa [rnEnv_cons] using this
    | funcs fs =>
      simp only [rnItems, evalSeq, length_names]
      rw [allocGroup_rn, map_bind]
      apply bind_congr_post (fun env' => names env' = (funcNames fs).reverse ++ names env)
      · intro s a s' h; exact allocGroup_names _ _ _ _ _ h
      · intro env' hn
        have := ih.seq ctx env' rest
        rw [hn] at this
        exact this

theorem alpha_forIn (n : Nat) (ih : AlphaAt ν n) (ctx : Ctx) (env : Env) (x : Name) (lc : Loc) (i : Nat) (b : Expr) :
    evalForIn (n + 1) (rnCtx ν ctx) (rnEnv ν env) (ν x env.length) lc i (rnE ν (x :: names env) b)
      = evalForIn (n + 1) ctx env x lc i b := by
  have h1 : ∀ l, evalE n (rnCtx ν ctx) ((ν x env.length, l) :: rnEnv ν env) (rnE ν (x :: names env) b)
      = evalE n ctx ((x, l) :: env) b := fun l => by
    simpa [rnEnv_cons] using ih.e ctx ((x, l) :: env) b
  simp only [evalForIn, h1, ih.forIn, ih.forRng]

theorem alpha_forRng (n : Nat) (ih : AlphaAt ν n) (ctx : Ctx) (env : Env) (x : Name) (ao : Option Loc) (cur : Int) (asc : Bool)
    (lt : Loc) (b : Expr) :
    evalForRng (n + 1) (rnCtx ν ctx) (rnEnv ν env) (ν x env.length) ao cur asc lt (rnE ν (x :: names env) b)
      = evalForRng (n + 1) ctx env x ao cur asc lt b := by
  have h1 : ∀ l, evalE n (rnCtx ν ctx) ((ν x env.length, l) :: rnEnv ν env) (rnE ν (x :: names env) b)
      = evalE n ctx ((x, l) :: env) b := fun l => by
    simpa [rnEnv_cons] using ih.e ctx ((x, l) :: env) b
  simp only [evalForRng, h1, ih.forRng]

theorem alpha_call (n : Nat) (ih : AlphaAt ν n) (ctx : Ctx) (fid : Nat) (cells as : List Loc) :
    callClo (n + 1) (rnCtx ν ctx) fid cells as = callClo (n + 1) ctx fid cells as := by
  simp only [callClo, findFun_rn]
  cases hf : ctx.findFun fid with
  | none => rfl
  | some fn =>
    simp only [Option.map_some, rnEntry, rnParams_length]
    split
    · rfl
    · rw [mkEnv_rn, ← mkEnv_length fn.bs cells, bindParams_rn, map_bind]
      apply bind_congr_post (fun env' => names env' = (paramBinders fn.params).reverse ++ fn.bs)
      · intro s a s' h
        have := bindParams_names _ _ _ _ _ _ h
        rw [names_mkEnv] at this
        exact this
      · intro env' hn
        have he := ih.e ctx env' fn.body
        have hh := ih.hdl ctx env' fn.catches
        rw [hn] at he hh
        simp only [he, hh]

theorem alpha_hdl (n : Nat) (ih : AlphaAt ν n) (ctx : Ctx) (env : Env) (cs : List Catch) (ex : Exc) :
    handle (n + 1) (rnCtx ν ctx) (rnEnv ν env) (rnCatches ν (names env) cs) ex = handle (n + 1) ctx env cs ex := by
  cases cs with
  | nil => simp only [rnCatches, handle]
  | cons c cs =>
    obtain ⟨cex, b⟩ := c
    simp only [rnCatches, handle, Catch.exc, Catch.body, ih.e, ih.hdl]
    rfl

theorem alpha_guards (n : Nat) (ih : AlphaAt ν n) (ctx : Ctx) (env : Env) (l : Loc) (gs : List Guard) :
    evalGuards (n + 1) (rnCtx ν ctx) (rnEnv ν env) l (rnGuards ν (names env) gs) = evalGuards (n + 1) ctx env l gs := by
  cases gs with
  | nil => simp only [rnGuards, evalGuards]
  | cons g gs =>
    cases g with
    | item en it b => simp only [rnGuards, rnGuard, evalGuards, ih.e, ih.guards]; rfl
    | els b => simp only [rnGuards, rnGuard, evalGuards, ih.e]
    | recd en it binds b =>
      have h1 : ∀ fields : List Loc, evalE n (rnCtx ν ctx) (bindNames (rnNames ν env.length binds) fields (rnEnv ν env))
          (rnE ν (binds.reverse ++ names env) b) = evalE n ctx (bindNames binds fields env) b := fun fields => by
        rw [bindNames_rn]
        have := ih.e ctx (bindNames binds fields env) b
        rw [names_bindNames] at this
        exact this
      simp only [rnGuards, rnGuard, evalGuards, length_names, h1, ih.guards]

theorem alpha_quals (n : Nat) (ih : AlphaAt ν n) (ctx : Ctx) (env : Env) (qs : List Qual) (body : Expr) (ty : Ty) (o : Loc) :
    evalQuals (n + 1) (rnCtx ν ctx) (rnEnv ν env) (rnQuals ν (names env) qs) (rnE ν (qualBinders qs ++ names env) body) ty o
      = evalQuals (n + 1) ctx env qs body ty o := by
  cases qs with
  | nil => simp only [rnQuals, qualBinders, List.nil_append, evalQuals, ih.e]
  | cons q qs =>
    cases q with
    | filter e => simp only [rnQuals, qualBinders, evalQuals, ih.e, ih.quals]
    | gen x coll =>
      simp only [rnQuals, qualBinders, List.append_assoc, List.singleton_append, evalQuals, ih.e, length_names, ih.gen]

theorem alpha_gen (n : Nat) (ih : AlphaAt ν n) (ctx : Ctx) (env : Env) (x : Name) (lc : Loc) (i : Nat) (qs : List Qual)
    (body : Expr) (ty : Ty) (o : Loc) :
    evalGen (n + 1) (rnCtx ν ctx) (rnEnv ν env) (ν x env.length) lc i (rnQuals ν (x :: names env) qs)
        (rnE ν (qualBinders qs ++ (x :: names env)) body) ty o = evalGen (n + 1) ctx env x lc i qs body ty o := by
  have h1 : ∀ l, evalQuals n (rnCtx ν ctx) ((ν x env.length, l) :: rnEnv ν env) (rnQuals ν (x :: names env) qs)
      (rnE ν (qualBinders qs ++ (x :: names env)) body) ty o = evalQuals n ctx ((x, l) :: env) qs body ty o := fun l => by
    simpa [rnEnv_cons] using ih.quals ctx ((x, l) :: env) qs body ty o
  simp only [evalGen, h1, ih.gen, ih.genRng]

theorem alpha_genRng (n : Nat) (ih : AlphaAt ν n) (ctx : Ctx) (env : Env) (x : Name) (ao : Option Loc) (cur : Int) (asc : Bool)
    (lt : Loc) (qs : List Qual) (body : Expr) (ty : Ty) (o : Loc) :
    evalGenRng (n + 1) (rnCtx ν ctx) (rnEnv ν env) (ν x env.length) ao cur asc lt (rnQuals ν (x :: names env) qs)
        (rnE ν (qualBinders qs ++ (x :: names env)) body) ty o = evalGenRng (n + 1) ctx env x ao cur asc lt qs body ty o := by
  have h1 : ∀ l, evalQuals n (rnCtx ν ctx) ((ν x env.length, l) :: rnEnv ν env) (rnQuals ν (x :: names env) qs)
      (rnE ν (qualBinders qs ++ (x :: names env)) body) ty o = evalQuals n ctx ((x, l) :: env) qs body ty o := fun l => by
    simpa [rnEnv_cons] using ih.quals ctx ((x, l) :: env) qs body ty o
  simp only [evalGenRng, h1, ih.genRng]

theorem alphaAt (hν : Adm ν) : ∀ n, AlphaAt ν n
  | 0 => alpha_zero
  | n + 1 =>
    have ih := alphaAt hν n
    { e := alpha_e hν n ih
      args := alpha_args n ih
      seq := alpha_seq n ih
      whl := fun ctx env c b => by simp only [evalWhile, ih.e, ih.whl]
      doWhl := fun ctx env b c => by simp only [evalDoWhile, ih.e, ih.doWhl]
      for_ := fun ctx env c s b => by simp only [evalFor, ih.e, ih.for_]
      forIn := alpha_forIn n ih
      call := alpha_call n ih
      hdl := alpha_hdl n ih
      guards := alpha_guards n ih
      quals := alpha_quals n ih
      gen := alpha_gen n ih
      forRng := alpha_forRng n ih
      genRng := alpha_genRng n ih }

end Never.Src
