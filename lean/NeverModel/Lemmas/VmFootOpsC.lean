import NeverModel.Lemmas.VmFoot
set_option linter.unusedSimpArgs false
set_option linter.unusedVariables false
/-! per-opcode write footprint of `exec`: a handler that pops `p` operands writes no stack slot below `sp − p + 1` (generated list,
each proved by the `foot` automation) -/
namespace Never.Vm
open Never Never.Num

set_option maxRecDepth 8000 in
theorem foot_SLICE_ARRAY (md : Module) (ins : Instr) (orc : Oracle) (s : Int) (h : ins.op = .SLICE_ARRAY) : FootAt s (s - 2 + 1) (exec md ins orc) := by exec_foot h

set_option maxRecDepth 8000 in
theorem foot_SLICE_STRING (md : Module) (ins : Instr) (orc : Oracle) (s : Int) (h : ins.op = .SLICE_STRING) : FootAt s (s - 2 + 1) (exec md ins orc) := by exec_foot h

set_option maxRecDepth 8000 in
theorem foot_STRING_DEREF (md : Module) (ins : Instr) (orc : Oracle) (s : Int) (h : ins.op = .STRING_DEREF) : FootAt s (s - 2 + 1) (exec md ins orc) := by exec_foot h

set_option maxRecDepth 8000 in
theorem foot_VECREF_VEC_INDEX_DEREF (md : Module) (ins : Instr) (orc : Oracle) (s : Int) (h : ins.op = .VECREF_VEC_INDEX_DEREF) : FootAt s (s - 2 + 1) (exec md ins orc) := by exec_foot h

set_option maxRecDepth 8000 in
theorem foot_OP_ASS_INT (md : Module) (ins : Instr) (orc : Oracle) (s : Int) (h : ins.op = .OP_ASS_INT) : FootAt s (s - 2 + 1) (exec md ins orc) := by exec_foot h

set_option maxRecDepth 8000 in
theorem foot_OP_ASS_LONG (md : Module) (ins : Instr) (orc : Oracle) (s : Int) (h : ins.op = .OP_ASS_LONG) : FootAt s (s - 2 + 1) (exec md ins orc) := by exec_foot h

set_option maxRecDepth 8000 in
theorem foot_OP_ASS_FLOAT (md : Module) (ins : Instr) (orc : Oracle) (s : Int) (h : ins.op = .OP_ASS_FLOAT) : FootAt s (s - 2 + 1) (exec md ins orc) := by exec_foot h

set_option maxRecDepth 8000 in
theorem foot_OP_ASS_DOUBLE (md : Module) (ins : Instr) (orc : Oracle) (s : Int) (h : ins.op = .OP_ASS_DOUBLE) : FootAt s (s - 2 + 1) (exec md ins orc) := by exec_foot h

set_option maxRecDepth 8000 in
theorem foot_OP_ASS_CHAR (md : Module) (ins : Instr) (orc : Oracle) (s : Int) (h : ins.op = .OP_ASS_CHAR) : FootAt s (s - 2 + 1) (exec md ins orc) := by exec_foot h

set_option maxRecDepth 8000 in
theorem foot_OP_ASS_STRING (md : Module) (ins : Instr) (orc : Oracle) (s : Int) (h : ins.op = .OP_ASS_STRING) : FootAt s (s - 2 + 1) (exec md ins orc) := by exec_foot h

set_option maxRecDepth 8000 in
theorem foot_OP_ASS_C_PTR (md : Module) (ins : Instr) (orc : Oracle) (s : Int) (h : ins.op = .OP_ASS_C_PTR) : FootAt s (s - 2 + 1) (exec md ins orc) := by exec_foot h

set_option maxRecDepth 8000 in
theorem foot_OP_ASS_ARRAY (md : Module) (ins : Instr) (orc : Oracle) (s : Int) (h : ins.op = .OP_ASS_ARRAY) : FootAt s (s - 2 + 1) (exec md ins orc) := by exec_foot h

set_option maxRecDepth 8000 in
theorem foot_OP_ASS_RECORD (md : Module) (ins : Instr) (orc : Oracle) (s : Int) (h : ins.op = .OP_ASS_RECORD) : FootAt s (s - 2 + 1) (exec md ins orc) := by exec_foot h

set_option maxRecDepth 8000 in
theorem foot_OP_ASS_FUNC (md : Module) (ins : Instr) (orc : Oracle) (s : Int) (h : ins.op = .OP_ASS_FUNC) : FootAt s (s - 2 + 1) (exec md ins orc) := by exec_foot h

set_option maxRecDepth 8000 in
theorem foot_OP_ASS_RECORD_NIL (md : Module) (ins : Instr) (orc : Oracle) (s : Int) (h : ins.op = .OP_ASS_RECORD_NIL) : FootAt s (s - 2 + 1) (exec md ins orc) := by exec_foot h

end Never.Vm
