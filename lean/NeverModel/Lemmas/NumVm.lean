/-
The generated VM handler rows (Gen/VmArith.lean, regenerated from back/vmexec.c on every run) compute
Never.Num's functions for all operand values.  Shared by Props/C10 and Props/C11 (stated there as
`Never.C11.vm_handlers_eq_model`).
-/
import NeverModel.Lemmas.NumC
import NeverModel.Model.NumTables
namespace Never.NumVm
open Never.Num Never.CExpr Never.NumTables

/-- every generated row is, syntactically, the canonical handler of the `Sem` its name stands for -/
theorem all_rows_canonical : (T.vmRows.all fun r => decide (specCore r.sem = some r.core)) = true := by
  decide +kernel

theorem vm_handlers_eq_model :
    ∀ r ∈ T.vmRows, ∀ a b : NVal, r.eval a b = r.sem.eval a b := by
  intro r hr a b
  have h := List.all_eq_true.mp all_rows_canonical r hr
  exact spec_sound r.sem r.core (of_decide_eq_true h) a b

end Never.NumVm
