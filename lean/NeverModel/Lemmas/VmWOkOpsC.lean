import NeverModel.Lemmas.VmWOk
set_option linter.unusedSimpArgs false
set_option linter.unusedVariables false
/-! per-opcode: from `-1 ≤ sp < stackSize` the handler never stores outside the stack array (generated list, each proved by the `wok`
automation) -/
namespace Never.Vm
open Never Never.Num

set_option maxRecDepth 8000 in
theorem wok_SLICE_ARRAY (md : Module) (ins : Instr) (orc : Oracle) (N : Nat) (s : Int) (h0 : -1 ≤ s) (h1 : s < N) (h : ins.op = .SLICE_ARRAY) : WOk N s (exec md ins orc) := by exec_wok h

set_option maxRecDepth 8000 in
theorem wok_SLICE_STRING (md : Module) (ins : Instr) (orc : Oracle) (N : Nat) (s : Int) (h0 : -1 ≤ s) (h1 : s < N) (h : ins.op = .SLICE_STRING) : WOk N s (exec md ins orc) := by exec_wok h

set_option maxRecDepth 8000 in
theorem wok_STRING_DEREF (md : Module) (ins : Instr) (orc : Oracle) (N : Nat) (s : Int) (h0 : -1 ≤ s) (h1 : s < N) (h : ins.op = .STRING_DEREF) : WOk N s (exec md ins orc) := by exec_wok h

set_option maxHeartbeats 2000000 in
set_option maxRecDepth 8000 in
theorem wok_VECREF_VEC_INDEX_DEREF (md : Module) (ins : Instr) (orc : Oracle) (N : Nat) (s : Int) (h0 : -1 ≤ s) (h1 : s < N) (h : ins.op = .VECREF_VEC_INDEX_DEREF) : WOk N s (exec md ins orc) := by exec_wok h

set_option maxRecDepth 8000 in
theorem wok_OP_ASS_INT (md : Module) (ins : Instr) (orc : Oracle) (N : Nat) (s : Int) (h0 : -1 ≤ s) (h1 : s < N) (h : ins.op = .OP_ASS_INT) : WOk N s (exec md ins orc) := by exec_wok h

set_option maxRecDepth 8000 in
theorem wok_OP_ASS_LONG (md : Module) (ins : Instr) (orc : Oracle) (N : Nat) (s : Int) (h0 : -1 ≤ s) (h1 : s < N) (h : ins.op = .OP_ASS_LONG) : WOk N s (exec md ins orc) := by exec_wok h

set_option maxRecDepth 8000 in
theorem wok_OP_ASS_FLOAT (md : Module) (ins : Instr) (orc : Oracle) (N : Nat) (s : Int) (h0 : -1 ≤ s) (h1 : s < N) (h : ins.op = .OP_ASS_FLOAT) : WOk N s (exec md ins orc) := by exec_wok h

set_option maxRecDepth 8000 in
theorem wok_OP_ASS_DOUBLE (md : Module) (ins : Instr) (orc : Oracle) (N : Nat) (s : Int) (h0 : -1 ≤ s) (h1 : s < N) (h : ins.op = .OP_ASS_DOUBLE) : WOk N s (exec md ins orc) := by exec_wok h

set_option maxRecDepth 8000 in
theorem wok_OP_ASS_CHAR (md : Module) (ins : Instr) (orc : Oracle) (N : Nat) (s : Int) (h0 : -1 ≤ s) (h1 : s < N) (h : ins.op = .OP_ASS_CHAR) : WOk N s (exec md ins orc) := by exec_wok h

set_option maxRecDepth 8000 in
theorem wok_OP_ASS_STRING (md : Module) (ins : Instr) (orc : Oracle) (N : Nat) (s : Int) (h0 : -1 ≤ s) (h1 : s < N) (h : ins.op = .OP_ASS_STRING) : WOk N s (exec md ins orc) := by exec_wok h

set_option maxRecDepth 8000 in
theorem wok_OP_ASS_C_PTR (md : Module) (ins : Instr) (orc : Oracle) (N : Nat) (s : Int) (h0 : -1 ≤ s) (h1 : s < N) (h : ins.op = .OP_ASS_C_PTR) : WOk N s (exec md ins orc) := by exec_wok h

set_option maxRecDepth 8000 in
theorem wok_OP_ASS_ARRAY (md : Module) (ins : Instr) (orc : Oracle) (N : Nat) (s : Int) (h0 : -1 ≤ s) (h1 : s < N) (h : ins.op = .OP_ASS_ARRAY) : WOk N s (exec md ins orc) := by exec_wok h

set_option maxRecDepth 8000 in
theorem wok_OP_ASS_RECORD (md : Module) (ins : Instr) (orc : Oracle) (N : Nat) (s : Int) (h0 : -1 ≤ s) (h1 : s < N) (h : ins.op = .OP_ASS_RECORD) : WOk N s (exec md ins orc) := by exec_wok h

set_option maxRecDepth 8000 in
theorem wok_OP_ASS_FUNC (md : Module) (ins : Instr) (orc : Oracle) (N : Nat) (s : Int) (h0 : -1 ≤ s) (h1 : s < N) (h : ins.op = .OP_ASS_FUNC) : WOk N s (exec md ins orc) := by exec_wok h

set_option maxRecDepth 8000 in
theorem wok_OP_ASS_RECORD_NIL (md : Module) (ins : Instr) (orc : Oracle) (N : Nat) (s : Int) (h0 : -1 ≤ s) (h1 : s < N) (h : ins.op = .OP_ASS_RECORD_NIL) : WOk N s (exec md ins orc) := by exec_wok h

end Never.Vm
