import NeverModel.Lemmas.HeapBasic
set_option linter.unusedSimpArgs false
set_option linter.unusedVariables false
/-! `gc_sweep_all`: exact effect of the loop on the free chain, the lists, objects and marks -/
namespace Never
open Mem

/-- the `next`-chain from `h` visits exactly `fl` and ends at nil -/
def Chain (m : Mem) : Nat → List Nat → Prop
  | h, [] => h = 0
  | h, x :: xs => h = x ∧ x ≠ 0 ∧ x < m.size ∧ Chain m (nextAt m x) xs

theorem Chain.congr {m m' : Mem} (hsz : m'.size = m.size) :
    ∀ {fl : List Nat} {h : Nat}, (∀ x ∈ fl, nextAt m' x = nextAt m x) → Chain m h fl → Chain m' h fl := by
  intro fl
  induction fl with
  | nil => intro h _ c; exact c
  | cons x xs ih =>
    intro h hn c
    obtain ⟨h1, h2, h3, h4⟩ := c
    refine ⟨h1, h2, by rw [hsz]; exact h3, ?_⟩
    rw [hn x (by simp)]
    exact ih (fun y hy => hn y (List.mem_cons_of_mem _ hy)) h4

structure SweepRes (m : Mem) (free : Nat) (bl fl l : List Nat) (r : Mem × Nat × List Nat) : Prop where
  bl : r.2.2 = bl ++ l.filter (fun x => marked m x)
  chain : Chain r.1 r.2.1 ((l.filter (fun x => !marked m x)).reverse ++ fl)
  size : r.1.size = m.size
  obj : ∀ x, objAt r.1 x = if x ∈ l ∧ marked m x = false then none else objAt m x
  marks : ∀ x, marked r.1 x = if x ∈ l then false else marked m x
  next : ∀ x, x ∉ l → nextAt r.1 x = nextAt m x

theorem sweep_fold : ∀ (l : List Nat) (m : Mem) (free : Nat) (bl fl : List Nat),
    l.Nodup → (∀ x ∈ l, (objAt m x).isSome = true ∧ x ≠ 0) → (∀ x ∈ l, x ∉ fl) → Chain m free fl →
    SweepRes m free bl fl l (l.foldl sweepStep (m, free, bl)) := by
  intro l
  induction l with
  | nil =>
    intro m free bl fl _ _ _ hc
    exact ⟨by simp, by simpa using hc, rfl, by simp, by simp, by simp⟩
  | cons x xs ih =>
    intro m free bl fl hnd hob hfl hc
    have hx_notin : x ∉ xs := (List.nodup_cons.mp hnd).1
    have hnd' : xs.Nodup := (List.nodup_cons.mp hnd).2
    obtain ⟨hxo, hx0⟩ := hob x (by simp)
    have hxlt : x < m.size := by
      cases ho : objAt m x with
      | none => simp [ho] at hxo
      | some o => exact objAt_some_lt ho
    rw [List.foldl_cons]
    by_cases hmx : marked m x = true
    · -- survivor: clear the mark, append to the other list
      have hstep : sweepStep (m, free, bl) x = (setMark m x false, free, bl ++ [x]) := by
        simp [sweepStep, hmx]
      rw [hstep]
      have r := ih (setMark m x false) free (bl ++ [x]) fl hnd'
        (by intro y hy; simpa using hob y (List.mem_cons_of_mem _ hy))
        (fun y hy => hfl y (List.mem_cons_of_mem _ hy))
        (Chain.congr (by simp) (by intro y _; simp) hc)
      have hmk : ∀ y ∈ xs, marked (setMark m x false) y = marked m y := by
        intro y hy
        have : x ≠ y := fun h => hx_notin (h ▸ hy)
        simp [marked_setMark, this]
      have hf1 : xs.filter (fun y => marked (setMark m x false) y) = xs.filter (fun y => marked m y) :=
        List.filter_congr (fun y hy => by rw [hmk y hy])
      have hf2 : xs.filter (fun y => !marked (setMark m x false) y) = xs.filter (fun y => !marked m y) :=
        List.filter_congr (fun y hy => by rw [hmk y hy])
      refine ⟨?_, ?_, ?_, ?_, ?_, ?_⟩
      · rw [r.bl, hf1]; simp [List.filter_cons, hmx]
      · have := r.chain; rw [hf2] at this; simpa [List.filter_cons, hmx] using this
      · rw [r.size]; simp
      · intro y
        rw [r.obj y]
        by_cases hyx : y = x
        · subst hyx; simp [hx_notin, hmx]
        · have hxy : x ≠ y := fun h => hyx h.symm
          simp [marked_setMark, hxy, hyx]
      · intro y
        rw [r.marks y]
        by_cases hyx : y = x
        · subst hyx; simp [hx_notin, marked_setMark, hxlt]
        · have hxy : x ≠ y := fun h => hyx h.symm
          simp [marked_setMark, hxy, hyx]
      · intro y hy
        have hy' : y ∉ xs := fun h => hy (List.mem_cons_of_mem _ h)
        rw [r.next y hy']; simp
    · -- garbage: delete the object, push the cell on the free list
      have hmx' : marked m x = false := by simpa using hmx
      have hstep : sweepStep (m, free, bl) x = ((m.setObj x none).setNext x free, x, bl) := by
        simp [sweepStep, hmx', hxo]
      rw [hstep]
      have hchain1 : Chain ((m.setObj x none).setNext x free) x (x :: fl) := by
        refine ⟨rfl, hx0, by simpa using hxlt, ?_⟩
        have : nextAt ((m.setObj x none).setNext x free) x = free := by simp [nextAt_setNext, hxlt]
        rw [this]
        apply Chain.congr (by simp) _ hc
        intro y hy
        have : x ≠ y := fun h => hfl x (by simp) (h ▸ hy)
        simp [nextAt_setNext, this]
      have r := ih ((m.setObj x none).setNext x free) x bl (x :: fl) hnd'
        (by intro y hy
            have : x ≠ y := fun h => hx_notin (h ▸ hy)
            simpa [objAt_setObj, this] using hob y (List.mem_cons_of_mem _ hy))
        (by intro y hy hmem
            rcases List.mem_cons.mp hmem with h | h
            · exact hx_notin (h ▸ hy)
            · exact hfl y (List.mem_cons_of_mem _ hy) h)
        hchain1
      have hf1 : xs.filter (fun y => marked ((m.setObj x none).setNext x free) y) = xs.filter (fun y => marked m y) :=
        List.filter_congr (fun y hy => by simp)
      have hf2 : xs.filter (fun y => !marked ((m.setObj x none).setNext x free) y) = xs.filter (fun y => !marked m y) :=
        List.filter_congr (fun y hy => by simp)
      refine ⟨?_, ?_, ?_, ?_, ?_, ?_⟩
      · rw [r.bl, hf1]; simp [List.filter_cons, hmx']
      · have := r.chain; rw [hf2] at this; simpa [List.filter_cons, hmx'] using this
      · rw [r.size]; simp
      · intro y
        rw [r.obj y]
        by_cases hyx : y = x
        · subst hyx; simp [hx_notin, hmx', objAt_setObj, hxlt]
        · have hxy : x ≠ y := fun h => hyx h.symm
          simp [objAt_setObj, hxy, hyx]
      · intro y
        rw [r.marks y]
        by_cases hyx : y = x
        · subst hyx; simp [hx_notin, hmx']
        · simp [hyx]
      · intro y hy
        have hy' : y ∉ xs := fun h => hy (List.mem_cons_of_mem _ h)
        have hxy : x ≠ y := fun h => hy (by simp [h])
        rw [r.next y hy']; simp [nextAt_setNext, hxy]

end Never
