/-
Helper lemmas for Props/C10 and Props/C11:
 * `spec_sound`  : the canonical handler of every `Sem` (CExpr.specCore), run with the C semantics
                   `evalC`, equals Never.Num's `bin / un / conv` for ALL operand values
 * `evalC_congr` : an expression whose operand reads are all at the getter types evaluates equally under
                   any two readers that agree at those types
 * `fold_agrees` : a folding clause that is syntactically the same guarded expression as its handler
                   (FoldRow.agreesWith) folds to exactly what the handler computes
-/
import NeverModel.Model.CExpr
namespace Never.CExpr
open Never.Num

set_option maxRecDepth 4000

macro "num_unfold" : tactic => `(tactic|
  simp [Core.eval, wrongTagB, runGE, evalC, rdVm, NVal.ty, cBin, cBinInt, cBinLong, cBinF32, cBinF64, cUn, cCast, cLit, cBool, CVal.ofN, CVal.toN, CVal.ty,
        Num.bin, Num.un, Num.conv, binInt, binLong, binFloat, binDouble, binChar])

theorem se_slt (x y : BitVec 8) : (BitVec.signExtend 32 x).slt (BitVec.signExtend 32 y) = x.slt y := by
  simp [BitVec.slt, BitVec.toInt_signExtend_of_le]
theorem se_sle (x y : BitVec 8) : (BitVec.signExtend 32 x).sle (BitVec.signExtend 32 y) = x.sle y := by
  simp [BitVec.sle, BitVec.toInt_signExtend_of_le]
theorem se_inj (x y : BitVec 8) : (BitVec.signExtend 32 x = BitVec.signExtend 32 y) ↔ x = y := by
  constructor
  · intro h
    have := congrArg BitVec.toInt h
    simp [BitVec.toInt_signExtend_of_le] at this
    exact BitVec.eq_of_toInt_eq this
  · intro h; rw [h]

theorem f32zero : Float32.ofInt 0 = (0 : Float32) := rfl
theorem f64zero : Float.ofInt 0 = (0 : Float) := rfl

theorem spec_sound_bin_int (op : BinOp) (c : Core) (h : specCore (.bin .int op) = some c) (a b : NVal) :
    c.eval a b = Num.bin .int op a b := by
  cases op <;> simp [specCore, isCmp, binC, zeroOf] at h <;> subst h <;> cases a <;> cases b <;> first
    | rfl
    | (num_unfold; done)
    | (rename_i x y; num_unfold; by_cases hc : (y.toInt < 0 ∨ 32 ≤ y.toInt) <;> simp [hc]; done)
    | (rename_i x y; num_unfold
       by_cases hy : y = 0#32
       · simp [hy]
       · by_cases hm : (x = intMin32 ∧ y = 4294967295#32) <;> simp [hy, hm])

theorem spec_sound_bin_long (op : BinOp) (c : Core) (h : specCore (.bin .long op) = some c) (a b : NVal) :
    c.eval a b = Num.bin .long op a b := by
  cases op <;> simp [specCore, isCmp, binC, zeroOf] at h <;> subst h <;> cases a <;> cases b <;> first
    | rfl
    | (num_unfold; done)
    | (rename_i x y; num_unfold; by_cases hc : (y.toInt < 0 ∨ 64 ≤ y.toInt) <;> simp [hc]; done)
    | (rename_i x y; num_unfold
       by_cases hy : y = 0#64
       · simp [hy]
       · by_cases hm : (x = intMin64 ∧ y = 18446744073709551615#64) <;> simp [hy, hm])

theorem spec_sound_bin_float (op : BinOp) (c : Core) (h : specCore (.bin .float op) = some c) (a b : NVal) :
    c.eval a b = Num.bin .float op a b := by
  cases op <;> simp [specCore, isCmp, binC, zeroOf] at h <;> subst h <;> cases a <;> cases b <;> first
    | rfl
    | (rename_i x y; num_unfold; rw [f32zero]
       by_cases h : (f32 y == 0) = true <;> simp [h])

theorem spec_sound_bin_double (op : BinOp) (c : Core) (h : specCore (.bin .double op) = some c) (a b : NVal) :
    c.eval a b = Num.bin .double op a b := by
  cases op <;> simp [specCore, isCmp, binC, zeroOf] at h <;> subst h <;> cases a <;> cases b <;> first
    | rfl
    | (rename_i x y; num_unfold; rw [f64zero]
       by_cases h : (f64 y == 0) = true <;> simp [h])

theorem spec_sound_bin_char (op : BinOp) (c : Core) (h : specCore (.bin .char op) = some c) (a b : NVal) :
    c.eval a b = Num.bin .char op a b := by
  cases op <;> simp [specCore, isCmp, binC] at h <;> subst h <;> cases a <;> cases b <;> first
    | rfl
    | (rename_i x y; num_unfold; simp [se_slt, se_sle, se_inj, ofBool])

theorem spec_sound_un (ty : NTy) (op : UnOp) (c : Core) (h : specCore (.un ty op) = some c) (a b : NVal) :
    c.eval a b = Num.un ty op a := by
  cases ty <;> cases op <;> simp [specCore] at h <;> subst h <;> cases a <;> first
    | rfl
    | num_unfold

theorem spec_sound_conv (s d : NTy) (c : Core) (h : specCore (.conv s d) = some c) (a b : NVal) :
    c.eval a b = Num.conv s d a := by
  cases s <;> cases d <;> simp [specCore] at h <;> subst h <;> cases a <;> first
    | rfl
    | num_unfold

theorem spec_sound (sem : Sem) (c : Core) (h : specCore sem = some c) (a b : NVal) : c.eval a b = sem.eval a b := by
  cases sem with
  | bin ty op =>
    cases ty
    · exact spec_sound_bin_int op c h a b
    · exact spec_sound_bin_long op c h a b
    · exact spec_sound_bin_float op c h a b
    · exact spec_sound_bin_double op c h a b
    · exact spec_sound_bin_char op c h a b
  | un ty op => exact spec_sound_un ty op c h a b
  | conv s d => exact spec_sound_conv s d c h a b

theorem evalC_congr (ta : NTy) (tb : Option NTy) (ra rb ra' rb' : NTy → CRes)
    (ha : ra ta = ra' ta) (hb : ∀ t, tb = some t → rb t = rb' t) :
    ∀ e, readsAt ta tb e = true → evalC ra rb e = evalC ra' rb' e := by
  intro e
  induction e with
  | opA t => intro h; simp [readsAt] at h; subst h; simpa [evalC] using ha
  | opB t => intro h; simp [readsAt] at h; simpa [evalC] using hb t h
  | lit t v => intro _; rfl
  | un op t e ih => intro h; simp [readsAt] at h; simp [evalC, ih h]
  | bin op t l r ihl ihr => intro h; simp [readsAt] at h; simp [evalC, ihl h.1, ihr h.2]
  | cast s d e ih => intro h; simp [readsAt] at h; simp [evalC, ih h]

theorem runGE_congr (ta : NTy) (tb : Option NTy) (ra rb ra' rb' : NTy → CRes)
    (ha : ra ta = ra' ta) (hb : ∀ t, tb = some t → rb t = rb' t)
    (g : Option (CExpr × Nat)) (e : CExpr) (out : NTy)
    (he : readsAt ta tb e = true) (hg : ∀ x, g = some x → readsAt ta tb x.1 = true) :
    runGE ra rb g e out = runGE ra' rb' g e out := by
  have h1 := evalC_congr ta tb ra rb ra' rb' ha hb e he
  cases g with
  | none => simp [runGE, h1]
  | some x =>
    have h2 := evalC_congr ta tb ra rb ra' rb' ha hb x.1 (hg x rfl)
    simp [runGE, h1, h2]

/-- a clause that is the same guarded expression as its handler folds to exactly what the handler computes -/
theorem fold_agrees (r : FoldRow) (c : Core) (h : r.agreesWith c = true) (a b : NVal) (wk : r.wellKinded a b) :
    r.eval a b = FoldRes.ofNRes r.resKind (c.eval a b) := by
  simp [FoldRow.agreesWith] at h
  obtain ⟨⟨⟨⟨⟨⟨⟨hA, hB⟩, hE⟩, hRE⟩, hG⟩, hRG⟩, hAl⟩, hSt⟩ := h
  have wa : a.ty = r.kindA.storage := wk.1
  have hta : ¬ a.ty ≠ c.getA := by rw [hA]; simp [wa]
  have htb : wrongTagB c.getB b = false := by
    rw [hB]; unfold wrongTagB
    cases hk : r.kindB with
    | none => rfl
    | some kb =>
      have : b.ty = kb.storage := by have := wk.2; rw [hk] at this; exact this
      simp [this]
  have hst : ¬ r.resMember ≠ r.resKind.storage := by simp [hSt]
  unfold FoldRow.eval Core.eval
  rw [if_neg (by simpa using wk), if_neg hst, if_neg hta, htb]
  simp only [Bool.false_eq_true, if_false]
  congr 1
  rw [← hE, ← hG, ← hAl]
  apply runGE_congr c.getA c.getB
  · simp [rdLit, rdVm, hA, wa]
  · intro t ht
    rw [hB] at ht
    cases hk : r.kindB with
    | none => rw [hk] at ht; simp at ht
    | some kb =>
      rw [hk] at ht; simp at ht
      have : b.ty = kb.storage := by have := wk.2; rw [hk] at this; exact this
      simp [FoldRow.rdB, hk, rdLit, rdVm, this, ht]
  · exact hRE
  · intro x hx
    cases hg : r.guard with
    | none => rw [hg] at hx; simp at hx
    | some g =>
      rw [hg] at hx; simp at hx
      rw [hg] at hRG
      rw [← hx]; exact hRG

end Never.CExpr
