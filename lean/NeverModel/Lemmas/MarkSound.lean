import NeverModel.Lemmas.Mark
set_option linter.unusedSimpArgs false
set_option linter.unusedVariables false
/-! soundness of marking: whatever a call marks has an object and is reachable from the call's target -/
namespace Never
open Mem

def Edge (m : Mem) (a b : Nat) : Prop := ∃ o, objAt m a = some o ∧ b ∈ o.refs

inductive Path (m : Mem) : Nat → Nat → Prop
  | refl (a : Nat) : Path m a a
  | tail {a b c : Nat} : Path m a b → Edge m b c → Path m a c

theorem Path.head {m : Mem} {a b c : Nat} (e : Edge m a b) (p : Path m b c) : Path m a c := by
  induction p with
  | refl => exact Path.tail (Path.refl _) e
  | tail _ e' ih => exact Path.tail ih e'

theorem Path.congr {m m' : Mem} (h : ∀ x, objAt m' x = objAt m x) {a b : Nat} (p : Path m a b) : Path m' a b := by
  induction p with
  | refl => exact Path.refl _
  | tail _ e ih =>
    obtain ⟨o, ho, hr⟩ := e
    exact Path.tail ih ⟨o, by rw [h]; exact ho, hr⟩

/-- every cell newly marked between `m` and `m'` is a live-looking cell reachable from one of `xs` -/
def NewFrom (m m' : Mem) (xs : List Nat) : Prop :=
  ∀ b, marked m' b = true → marked m b = false →
    b ≠ 0 ∧ (objAt m b).isSome = true ∧ ∃ x ∈ xs, Path m x b

theorem NewFrom.refl (m : Mem) (xs : List Nat) : NewFrom m m xs := fun b h1 h0 => by simp [h0] at h1

theorem NewFrom.mono_list {m m' : Mem} {xs ys : List Nat} (h : NewFrom m m' xs) (hs : ∀ x ∈ xs, x ∈ ys) :
    NewFrom m m' ys := fun b h1 h0 =>
  let ⟨a, o, x, hx, p⟩ := h b h1 h0
  ⟨a, o, x, hs x hx, p⟩

theorem NewFrom.trans {a b c : Mem} {xs : List Nat} (hab : Mono a b)
    (h1 : NewFrom a b xs) (h2 : NewFrom b c xs) : NewFrom a c xs := by
  intro x hx hx0
  by_cases hb : marked b x = true
  · exact h1 x hb hx0
  · obtain ⟨n0, ho, y, hy, p⟩ := h2 x hx (by simpa using hb)
    exact ⟨n0, by rw [← hab.obj]; exact ho, y, hy, p.congr (fun z => (hab.obj z).symm)⟩

/-- mark `a` (which holds `o`), then a call that marks only things reachable from `o.refs` -/
theorem step_sound {m m' : Mem} {a : Nat} {o : Obj} {ps : List Nat}
    (ha : a ≠ 0) (ho : objAt m a = some o) (hps : ∀ p ∈ ps, p ∈ o.refs)
    (hn : NewFrom (setMark m a true) m' ps) : NewFrom m m' [a] := by
  intro b hb hb0
  by_cases hab : a = b
  · subst hab
    exact ⟨ha, by simp [ho], a, by simp, Path.refl _⟩
  · have : marked (setMark m a true) b = false := by simp [marked_setMark, hab, hb0]
    obtain ⟨n0, hobj, x, hx, p⟩ := hn b hb this
    refine ⟨n0, by simpa using hobj, a, by simp, ?_⟩
    exact Path.head ⟨o, ho, hps x hx⟩ (p.congr (fun z => (objAt_setMark m a z true).symm))

theorem markL_sound_of (f : Nat)
    (hm : ∀ m a m', mark f m a = some m' → NewFrom m m' [a]) :
    ∀ xs m m', markL f m xs = some m' → NewFrom m m' xs := by
  intro xs
  induction xs with
  | nil => intro m m' h; rw [markL] at h; cases h; exact NewFrom.refl _ _
  | cons x xs ih =>
    intro m m' h
    rw [markL] at h
    split at h
    · cases h
    · rename_i m1 h1
      have mono1 := (mark_mono_all f).1 _ _ _ h1
      have n1 := (hm _ _ _ h1).mono_list (ys := x :: xs) (by simp)
      have n2 := (ih _ _ h).mono_list (ys := x :: xs) (by intro y hy; simp [hy])
      exact NewFrom.trans mono1 n1 n2

theorem mark_sound_all (f : Nat) :
    (∀ m a m', mark f m a = some m' → NewFrom m m' [a]) ∧
    (∀ k m a m', markC f k m a = some m' → NewFrom m m' [a]) := by
  induction f with
  | zero =>
    constructor
    · intro m a m' h; rw [mark] at h; cases h
    · intro k m a m' h; rw [markC] at h; cases h
  | succ f ih =>
    obtain ⟨ihm, ihc⟩ := ih
    have ihl := markL_sound_of f ihm
    constructor
    · intro m a m' h
      rw [mark] at h
      split at h
      · cases h; exact NewFrom.refl _ _
      · rename_i ha
        split at h
        · cases h
        · rename_i c hc
          have hobj := getElem?_objAt hc
          split at h
          · cases h; exact NewFrom.refl _ _
          · rename_i p hs
            exact step_sound (o := .strRef p) (ps := [p]) ha (by rw [hobj, hs]) (by simp [Obj.refs]) (ihm _ _ _ h)
          · exact ihc _ _ _ _ h
          · rename_i p hs
            exact step_sound (o := .vecRef p) (ps := [p]) ha (by rw [hobj, hs]) (by simp [Obj.refs]) (ihc _ _ _ _ h)
          · exact ihc _ _ _ _ h
          · rename_i p hs
            exact step_sound (o := .arrRef p) (ps := [p]) ha (by rw [hobj, hs]) (by simp [Obj.refs]) (ihc _ _ _ _ h)
          · rename_i env ip hs
            exact step_sound (o := .func env ip) (ps := [env]) ha (by rw [hobj, hs]) (by simp [Obj.refs]) (ihc _ _ _ _ h)
          · rename_i o h1 h2 h3 h4 h5 h6 hs
            cases h
            exact step_sound (o := o) (ps := []) ha (by rw [hobj, hs]) (by simp) (NewFrom.refl _ _)
    · intro k m a m' h
      rw [markC] at h
      split at h
      · cases h; exact NewFrom.refl _ _
      · rename_i ha
        split at h
        · cases h
        · rename_i c hc
          have hobj := getElem?_objAt hc
          split at h
          · cases h; exact NewFrom.refl _ _
          · split at h
            · rename_i fs hs
              exact step_sound (o := .vec fs) (ps := fs) ha (by rw [hobj, hs]) (by simp [Obj.refs]) (ihl _ _ _ h)
            · rename_i dv es hs
              exact step_sound (o := .arr dv es) (ps := es) ha (by rw [hobj, hs]) (by simp [Obj.refs]) (ihl _ _ _ h)
            · cases h

end Never
