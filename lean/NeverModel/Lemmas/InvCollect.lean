import NeverModel.Lemmas.Inv
set_option linter.unusedSimpArgs false
set_option linter.unusedVariables false
/-! a whole collection (mark phase + sweep) preserves the invariant and keeps exactly the live cells -/
namespace Never
open Mem

theorem collect_eq (g : Gc) (st : List Slot) (gp : Nat) :
    g.collect st gp = (markPhase g.fuel g.mem st gp).map (fun m => ({ g with mem := m } : Gc).sweep) := by
  unfold Gc.collect markPhase
  cases markAccess g.fuel g.mem st with
  | none => rfl
  | some m =>
    simp only
    by_cases hg : gp > 0
    · simp only [hg, if_true]; cases mark g.fuel m gp <;> rfl
    · simp only [hg, if_false]; rfl

theorem runOmfalos_eq (g : Gc) (st : List Slot) : g.runOmfalos st = g.collect st 0 := by
  unfold Gc.runOmfalos Gc.collect
  cases markAccess g.fuel g.mem st <;> simp

theorem length_filter_add {α} (p : α → Bool) (l : List α) :
    (l.filter p).length + (l.filter (fun x => !p x)).length = l.length := by
  induction l with
  | nil => rfl
  | cons x xs ih => by_cases h : p x = true <;> simp [List.filter_cons, h] <;> omega

theorem okObj_of_refs_eq {m m' : Mem} (o : Obj) (h : ∀ p ∈ o.refs, p ≠ 0 → (objAt m p).isSome = true → objAt m' p = objAt m p)
    (hok : m.okObj o = true) : m'.okObj o = true := by
  have kref : ∀ r ∈ o.refs, m.okRef r = true → m'.okRef r = true := by
    intro r hr hk
    simp only [Mem.okRef, Bool.or_eq_true, decide_eq_true_eq] at hk ⊢
    rcases hk with h0 | hs
    · exact Or.inl h0
    · by_cases h0 : r = 0
      · exact Or.inl h0
      · right; rw [h r hr h0 hs]; exact hs
  have kk : ∀ (q : Option Obj → Bool), (q none = false) → ∀ r ∈ o.refs, (r = 0 ∨ q (objAt m r) = true) → (r = 0 ∨ q (objAt m' r) = true) := by
    intro q hq r hr hk
    rcases hk with h0 | hs
    · exact Or.inl h0
    · by_cases h0 : r = 0
      · exact Or.inl h0
      · right
        have : (objAt m r).isSome = true := by cases ho : objAt m r <;> simp_all
        rw [h r hr h0 this]; exact hs
  cases o with
  | strRef p => simpa [Mem.okObj, Mem.okStr] using kk isStr rfl p (by simp [Obj.refs]) (by simpa [Mem.okObj, Mem.okStr] using hok)
  | vecRef p => simpa [Mem.okObj, Mem.okVec] using kk isVec rfl p (by simp [Obj.refs]) (by simpa [Mem.okObj, Mem.okVec] using hok)
  | arrRef p => simpa [Mem.okObj, Mem.okArr] using kk isArr rfl p (by simp [Obj.refs]) (by simpa [Mem.okObj, Mem.okArr] using hok)
  | func e ip => simpa [Mem.okObj, Mem.okVec] using kk isVec rfl e (by simp [Obj.refs]) (by simpa [Mem.okObj, Mem.okVec] using hok)
  | vec fs =>
    simp only [Mem.okObj, List.all_eq_true] at hok ⊢
    intro r hr; exact kref r (by simpa [Obj.refs] using hr) (hok r hr)
  | arr dv es =>
    simp only [Mem.okObj, List.all_eq_true] at hok ⊢
    intro r hr; exact kref r (by simpa [Obj.refs] using hr) (hok r hr)
  | _ => rfl

/-- the state after sweeping `g1 = {g with mem := m'}` -/
theorem sweep_fields (g : Gc) :
    let r := g.cur.foldl sweepStep (g.mem, g.free, g.oth)
    g.sweep.mem = r.1 ∧ g.sweep.free = r.2.1 ∧ g.sweep.cur = r.2.2 ∧ g.sweep.oth = [] := by
  unfold Gc.sweep
  cases hw : g.w <;> simp [Gc.cur, Gc.oth, hw]

theorem collect_spec {g : Gc} {fl : List Nat} {st : List Slot} {gp : Nat} (inv : InvL g fl)
    (hs : st.all (slotOk g.mem) = true) (hg : gp < g.mem.size) :
    ∃ g', g.collect st gp = some g' ∧
      (∀ _ : DecidablePred (Live g.mem (allRoots st gp)), True) ∧
      Inv g' ∧
      (∀ x, (objAt g'.mem x).isSome = true ↔ Live g.mem (allRoots st gp) x) ∧
      (∀ x, Live g.mem (allRoots st gp) x → objAt g'.mem x = objAt g.mem x) ∧
      (∀ x, x ∈ g'.cur ↔ x ∈ g.cur ∧ Live g.mem (allRoots st gp) x) ∧
      g'.mem.size = g.mem.size := by
  have hfuel : 2 * U g.mem + 3 ≤ g.fuel := by have := U_le_size g.mem; unfold Gc.fuel; omega
  have htot := markPhase_total (f := g.fuel) (st := st) (gp := gp) inv.wk hs hg hfuel
  cases hmp : markPhase g.fuel g.mem st gp with
  | none => simp [hmp] at htot
  | some m' =>
    have sp := markPhase_spec hmp
    have live := marked_iff_live sp inv.unmarked inv.nil_none
    have mono := sp.post.mono
    let g1 : Gc := { g with mem := m' }
    refine ⟨g1.sweep, by rw [collect_eq, hmp]; rfl, fun _ => trivial, ?_⟩
    have hcur1 : g1.cur = g.cur := rfl
    have hoth1 : g1.oth = g.oth := rfl
    obtain ⟨fm, ff, fc, fo⟩ := sweep_fields g1
    have hpre_obj : ∀ x ∈ g.cur, (objAt m' x).isSome = true ∧ x ≠ 0 := by
      intro x hx
      have := (inv.cur_alloc x).mp hx
      refine ⟨by rw [mono.obj]; exact this, ?_⟩
      intro h0; subst h0; rw [inv.nil_none] at this; cases this
    have hpre_fl : ∀ x ∈ g.cur, x ∉ fl := by
      intro x hx hfl
      have := (inv.cur_alloc x).mp hx; rw [inv.fl_free x hfl] at this; cases this
    have hchain : Chain m' g.free fl := Chain.congr mono.size (fun x _ => mono.next x) inv.chain
    have r := sweep_fold g.cur m' g.free g.oth fl inv.cur_nodup hpre_obj hpre_fl hchain
    rw [inv.oth_empty] at r
    have hmem : g1.sweep.mem = (g.cur.foldl sweepStep (m', g.free, ([] : List Nat))).1 := by
      rw [fm]; show (g.cur.foldl sweepStep (m', g.free, g.oth)).1 = _; rw [inv.oth_empty]
    have hfree : g1.sweep.free = (g.cur.foldl sweepStep (m', g.free, ([] : List Nat))).2.1 := by
      rw [ff]; show (g.cur.foldl sweepStep (m', g.free, g.oth)).2.1 = _; rw [inv.oth_empty]
    have hcur : g1.sweep.cur = (g.cur.foldl sweepStep (m', g.free, ([] : List Nat))).2.2 := by
      rw [fc]; show (g.cur.foldl sweepStep (m', g.free, g.oth)).2.2 = _; rw [inv.oth_empty]
    -- marked cells hold objects (so they are on the allocated list)
    have hmarked_cur : ∀ x, marked m' x = true → x ∈ g.cur := by
      intro x hx
      have := (live x).mp hx
      exact (inv.cur_alloc x).mpr this.2.1
    have hobj' : ∀ x, objAt g1.sweep.mem x = if marked m' x = true then objAt g.mem x else none := by
      intro x
      rw [hmem, r.obj x]
      by_cases hm : marked m' x = true
      · simp [hm, mono.obj]
      · have hm' : marked m' x = false := by simpa using hm
        by_cases hc : x ∈ g.cur
        · simp [hc, hm']
        · have : objAt g.mem x = none := by
            cases ho : objAt g.mem x with
            | none => rfl
            | some o => exact absurd ((inv.cur_alloc x).mpr (by simp [ho])) hc
          simp [hc, hm', mono.obj, this]
    have hsize : g1.sweep.mem.size = g.mem.size := by rw [hmem, r.size, mono.size]
    have hexact : ∀ x, (objAt g1.sweep.mem x).isSome = true ↔ Live g.mem (allRoots st gp) x := by
      intro x
      rw [hobj' x, ← live x]
      by_cases hm : marked m' x = true
      · simp only [hm, if_true, iff_true]
        exact ((live x).mp hm).2.1
      · simp [hm]
    have hcurmem : ∀ x, x ∈ g1.sweep.cur ↔ x ∈ g.cur ∧ Live g.mem (allRoots st gp) x := by
      intro x
      rw [hcur, r.bl, ← live x]; simp [List.mem_filter]
    refine ⟨⟨(g.cur.filter (fun x => !marked m' x)).reverse ++ fl, ?_⟩, hexact, ?_, hcurmem, hsize⟩
    · refine ⟨?_, ?_, ?_, ?_, ?_, ?_, fo, ?_, ?_, ?_, ?_⟩
      · rw [hobj' 0]; simp [inv.nil_none]
      · rw [hmem, hfree]; exact r.chain
      · apply List.nodup_append.mpr
        refine ⟨((List.reverse_perm _).nodup_iff).mpr (List.Nodup.sublist List.filter_sublist inv.cur_nodup), inv.fl_nodup, ?_⟩
        intro a ha b hb hab
        subst hab
        have : a ∈ g.cur := (List.mem_filter.mp (List.mem_reverse.mp ha)).1
        exact hpre_fl a this hb
      · intro x hx
        rw [hobj' x]
        rcases List.mem_append.mp hx with h | h
        · have := (List.mem_filter.mp (List.mem_reverse.mp h)).2
          have hm : marked m' x = false := by simpa using this
          simp [hm]
        · simp [inv.fl_free x h]
      · rw [hcur, r.bl]; simpa using (List.Nodup.sublist (List.filter_sublist (p := fun x => marked m' x)) inv.cur_nodup)
      · intro x
        rw [hcurmem x, hexact x]
        constructor
        · exact fun h => h.2
        · exact fun h => ⟨(inv.cur_alloc x).mpr h.2.1, h⟩
      · intro x
        rw [hmem, r.marks x]
        by_cases hc : x ∈ g.cur
        · simp [hc]
        · simp only [hc, if_false]
          cases hm : marked m' x with
          | false => rfl
          | true => exact absurd (hmarked_cur x hm) hc
      · rw [hcur, r.bl, hsize]
        have := length_filter_add (fun x => marked m' x) g.cur
        have hc := inv.count
        simp only [List.length_append, List.length_reverse, List.nil_append]
        omega
      · intro x h0 hx
        rw [hsize] at hx
        rcases inv.cover x h0 hx with h | h
        · left; exact List.mem_append.mpr (Or.inr h)
        · rw [hcur, r.bl]
          by_cases hm : marked m' x = true
          · right; simp [List.mem_filter, h, hm]
          · left; apply List.mem_append.mpr; left
            exact List.mem_reverse.mpr (List.mem_filter.mpr ⟨h, by simpa using hm⟩)
      · -- survivors' references survive
        intro a o ho
        rw [hobj' a] at ho
        by_cases hm : marked m' a = true
        · simp only [hm, if_true] at ho
          apply okObj_of_refs_eq o _ (inv.wk a o ho)
          intro p hp hp0 hps
          have cl := sp.post.closed a hm (inv.unmarked a) o (by rw [mono.obj]; exact ho) p hp
          rcases cl with d | d | d
          · exact absurd d hp0
          · rw [mono.obj] at d; rw [d] at hps; cases hps
          · rw [hobj' p]; simp [d]
        · simp [hm] at ho
    · intro x hx
      rw [hobj' x]
      have := (live x).mpr hx
      simp [this]

end Never
