import NeverModel.Lemmas.CheckProg
set_option linter.unusedSimpArgs false
set_option linter.unusedVariables false
/-! # the rules of the catalogue, locally (in a given symbol table) — and the declarative
specification of "a value of this kind may be passed / returned here" -/
namespace Never.Tc

/-! ## S: which kinds of values a parameter (or a function result) accepts -/

mutual
/-- the same type up to the constness of array elements and function results -/
inductive SameTy : Ty → Ty → Prop
  | bool : SameTy .bool .bool
  | int : SameTy .int .int
  | long : SameTy .long .long
  | float : SameTy .float .float
  | double : SameTy .double .double
  | char : SameTy .char .char
  | string : SameTy .string .string
  | record (s : String) : SameTy (.record s) (.record s)
  | enum (s : String) : SameTy (.enum s) (.enum s)
  | array (n : Nat) (c1 c2 : PCst) (e1 e2 : Ty) : SameTy e1 e2 → SameTy (.array n c1 e1) (.array n c2 e2)
  | range (n : Nat) : SameTy (.range n) (.range n)
  | slice (n : Nat) (c1 c2 : PCst) (e1 e2 : Ty) : SameTy e1 e2 → SameTy (.slice n c1 e1) (.slice n c2 e2)
  | tuple (ms1 ms2 : TyList) : SameMembers ms1 ms2 → SameTy (.tuple ms1) (.tuple ms2)
  | func (ps1 ps2 : TyList) (rc1 rc2 : PCst) (r1 r2 : Ty) :
      SameTys ps1 ps2 → SameTy r1 r2 → SameTy (.func ps1 rc1 r1) (.func ps2 rc2 r2)
/-- parameter lists: same length, same constness, same types -/
inductive SameTys : TyList → TyList → Prop
  | nil : SameTys .nil .nil
  | cons (c : PCst) (t1 t2 : Ty) (r1 r2 : TyList) :
      SameTy t1 t2 → SameTys r1 r2 → SameTys (.cons c t1 r1) (.cons c t2 r2)
/-- members of a tuple: same length, same types (their constness is not part of the type) -/
inductive SameMembers : TyList → TyList → Prop
  | nil : SameMembers .nil .nil
  | cons (c1 c2 : PCst) (t1 t2 : Ty) (r1 r2 : TyList) :
      SameTy t1 t2 → SameMembers r1 r2 → SameMembers (.cons c1 t1 r1) (.cons c2 t2 r2)
end

/-- the language rule: numeric kinds convert into each other, an enum value converts to int,
everything else must be the same type -/
inductive Accepts : Ty → CT → Prop
  | bool : Accepts .bool (.val .bool)
  | num (p a : Ty) : isNum p = true → isNum a = true → Accepts p (.val a)
  | enumToInt (e : String) : Accepts .int (.val (.enum e))
  | char : Accepts .char (.val .char)
  | string : Accepts .string (.val .string)
  | array (n : Nat) (c1 c2 : PCst) (e1 e2 : Ty) : SameTy e1 e2 → Accepts (.array n c1 e1) (.val (.array n c2 e2))
  | range (n : Nat) : Accepts (.range n) (.val (.range n))
  | slice (n : Nat) (c1 c2 : PCst) (e1 e2 : Ty) : SameTy e1 e2 → Accepts (.slice n c1 e1) (.val (.slice n c2 e2))
  | tuple (ms1 ms2 : TyList) : SameMembers ms1 ms2 → Accepts (.tuple ms1) (.val (.tuple ms2))
  | record (s : String) : Accepts (.record s) (.val (.record s))
  | recordId (s : String) : Accepts (.record s) (.recordId s)
  | enum (s : String) : Accepts (.enum s) (.val (.enum s))
  | func (ps1 ps2 : TyList) (rc1 rc2 : PCst) (r1 r2 : Ty) :
      SameTys ps1 ps2 → SameTy r1 r2 → Accepts (.func ps1 rc1 r1) (.val (.func ps2 rc2 r2))

mutual
/-- `param_cmp` only says yes to the same type (`long`/`double` never pass: it is too strict
there, never too lax) -/
theorem paramCmp_sound : (t1 : Ty) → (cc : Bool) → (c1 c2 : PCst) → (t2 : Ty) →
    paramCmp cc c1 t1 c2 t2 = true → SameTy t1 t2
  | .bool, cc, c1, c2, t2, h => by
    cases t2 <;> simp [paramCmp] at h; exact .bool
  | .int, cc, c1, c2, t2, h => by
    cases t2 <;> simp [paramCmp] at h; exact .int
  | .long, cc, c1, c2, t2, h => by
    cases t2 <;> simp [paramCmp] at h
  | .float, cc, c1, c2, t2, h => by
    cases t2 <;> simp [paramCmp] at h; exact .float
  | .double, cc, c1, c2, t2, h => by
    cases t2 <;> simp [paramCmp] at h
  | .char, cc, c1, c2, t2, h => by
    cases t2 <;> simp [paramCmp] at h; exact .char
  | .string, cc, c1, c2, t2, h => by
    cases t2 <;> simp [paramCmp] at h; exact .string
  | .named _ _, cc, c1, c2, t2, h => by
    cases t2 <;> simp [paramCmp] at h
  | .record s, cc, c1, c2, t2, h => by
    cases t2 <;> simp [paramCmp] at h
    rw [← h.2]; exact .record s
  | .enum s, cc, c1, c2, t2, h => by
    cases t2 <;> simp [paramCmp] at h
    rw [← h.2]; exact .enum s
  | .func ps1 rc1 r1, cc, c1, c2, t2, h => by
    cases t2 <;> simp [paramCmp] at h
    rename_i ps2 rc2 r2
    exact .func _ _ _ _ _ _ (paramListCmp_sound ps1 ps2 h.2.1) (paramCmp_sound r1 false rc1 rc2 r2 h.2.2)
  | .array n ec e, cc, c1, c2, t2, h => by
    cases t2 <;> simp [paramCmp] at h
    rename_i n2 ec2 e2
    obtain ⟨_, hn, he⟩ := h
    subst hn
    exact .array _ _ _ _ _ (paramCmp_sound e false ec ec2 e2 he)
  | .range n, cc, c1, c2, t2, h => by
    cases t2 <;> simp [paramCmp] at h
    rw [← h.2]; exact .range n
  | .slice n ec e, cc, c1, c2, t2, h => by
    cases t2 <;> simp [paramCmp] at h
    rename_i n2 ec2 e2
    obtain ⟨_, hn, he⟩ := h
    subst hn
    exact .slice _ _ _ _ _ (paramCmp_sound e false ec ec2 e2 he)
  | .tuple ms, cc, c1, c2, t2, h => by
    cases t2 <;> simp [paramCmp] at h
    rename_i ms2
    exact .tuple _ _ (paramListCmpNC_sound ms ms2 h.2)

theorem paramListCmpNC_sound : (ps1 ps2 : TyList) → paramListCmp false ps1 ps2 = true → SameMembers ps1 ps2
  | .nil, .nil, _ => .nil
  | .nil, .cons _ _ _, h => by simp [paramListCmp] at h
  | .cons _ _ _, .nil, h => by simp [paramListCmp] at h
  | .cons c1 t1 r1, .cons c2 t2 r2, h => by
    simp only [paramListCmp, Bool.and_eq_true] at h
    exact .cons _ _ _ _ _ _ (paramCmp_sound t1 false c1 c2 t2 h.1) (paramListCmpNC_sound r1 r2 h.2)

theorem paramListCmp_sound : (ps1 ps2 : TyList) → paramListCmp true ps1 ps2 = true → SameTys ps1 ps2
  | .nil, .nil, _ => .nil
  | .nil, .cons _ _ _, h => by simp [paramListCmp] at h
  | .cons _ _ _, .nil, h => by simp [paramListCmp] at h
  | .cons c1 t1 r1, .cons c2 t2 r2, h => by
    simp only [paramListCmp, Bool.and_eq_true] at h
    have hc : c1 = c2 := by
      have := h.1
      unfold paramCmp at this
      by_cases hcc : c1 = c2
      · exact hcc
      · simp [hcc] at this
    subst hc
    exact .cons _ _ _ _ _ (paramCmp_sound t1 true c1 c1 t2 h.1) (paramListCmp_sound r1 r2 h.2)
end

/-! ### history: `param_cmp` as it was in the pinned tree (032f4cb), before 186dfd9 -/

mutual
/-- the pinned `param_cmp`: `func_cmp(one.params, one.ret, two.params, one.ret)` — the result
type of the second function type was never looked at -/
def paramCmpPinned (constCmp : Bool) (c1 : PCst) (t1 : Ty) (c2 : PCst) (t2 : Ty) : Bool :=
  if constCmp && c1 != c2 then false else
  match t1, t2 with
  | .bool, .bool => true
  | .int, .int => true
  | .float, .float => true
  | .char, .char => true
  | .string, .string => true
  | .array _ ec1 e1, .array _ ec2 e2 => paramCmpPinned false ec1 e1 ec2 e2
  | .enum a, .enum b => a == b
  | .record a, .record b => a == b
  | .func ps1 rc1 r1, .func ps2 _ _ =>
      paramListCmpPinned true ps1 ps2 && paramCmpPinned false rc1 r1 rc1 r1
  | _, _ => false
def paramListCmpPinned (constCmp : Bool) : TyList → TyList → Bool
  | .nil, .nil => true
  | .cons c1 t1 r1, .cons c2 t2 r2 =>
      paramCmpPinned constCmp c1 t1 c2 t2 && paramListCmpPinned constCmp r1 r2
  | _, _ => false
end

/-- soundness of `param_expr_cmp` against the declarative rule, for every parameter type -/
theorem paramExprCmp_sound (cc : Bool) (pc : PCst) (pt : Ty) (ln : Ln) (c : Comb)
    (h : paramExprCmp cc pc pt ln c = .ok) : Accepts pt c.ct := by
  unfold paramExprCmp at h
  split at h
  · cases h
  · cases hct : c.ct with
    | val a =>
      rw [hct] at h
      cases pt with
      | bool => cases a <;> simp at h; exact .bool
      | int =>
        by_cases hn : isNum a = true
        · exact .num _ _ rfl hn
        · cases a <;> simp [isNum] at hn h
          exact .enumToInt _
      | long =>
        by_cases hn : isNum a = true
        · exact .num _ _ rfl hn
        · simp [hn] at h
      | float =>
        by_cases hn : isNum a = true
        · exact .num _ _ rfl hn
        · simp [hn] at h
      | double =>
        by_cases hn : isNum a = true
        · exact .num _ _ rfl hn
        · simp [hn] at h
      | char => cases a <;> simp at h; exact .char
      | string => cases a <;> simp at h; exact .string
      | named l n => cases a <;> simp at h
      | record r =>
        cases a <;> simp at h
        rename_i r'
        by_cases hr : r = r'
        · subst hr; exact .record r
        · simp [hr] at h
      | enum r =>
        cases a <;> simp at h
        rename_i r'
        by_cases hr : r = r'
        · subst hr; exact .enum r
        · simp [hr] at h
      | func ps rc r =>
        cases a <;> simp at h
        rename_i ps2 rc2 r2
        by_cases hf : funcCmp ps rc r ps2 rc2 r2 = true
        · simp only [funcCmp, Bool.and_eq_true] at hf
          exact .func _ _ _ _ _ _ (paramListCmp_sound ps ps2 hf.1)
            (paramCmp_sound r false rc rc2 r2 hf.2)
        · simp [hf] at h
      | array n ec e =>
        cases a <;> simp at h
        rename_i n2 ec2 e2
        by_cases hf : (n == n2 && paramCmp false ec2 e ec2 e2) = true
        · simp only [Bool.and_eq_true, beq_iff_eq] at hf
          obtain ⟨hn, he⟩ := hf
          subst hn
          exact .array _ _ _ _ _ (paramCmp_sound e false ec2 ec2 e2 he)
        · simp at hf; simp_all
      | range n =>
        cases a <;> simp at h
        rename_i n2
        by_cases hn : n = n2
        · subst hn; exact .range n
        · simp [hn] at h
      | slice n ec e =>
        cases a <;> simp at h
        rename_i n2 ec2 e2
        by_cases hf : (n == n2 && paramCmp false ec2 e ec2 e2) = true
        · simp only [Bool.and_eq_true, beq_iff_eq] at hf
          obtain ⟨hn, he⟩ := hf
          subst hn
          exact .slice _ _ _ _ _ (paramCmp_sound e false ec2 ec2 e2 he)
        · simp at hf; simp_all
      | tuple ms =>
        cases a <;> simp at h
        rename_i ms2
        by_cases hf : paramListCmp false ms ms2 = true
        · exact .tuple _ _ (paramListCmpNC_sound ms ms2 hf)
        · simp [hf] at h
    | recordId r' =>
      rw [hct] at h
      cases pt <;> simp at h
      rename_i r
      by_cases hr : r = r'
      · subst hr; exact .recordId r
      · simp [hr] at h
    | enumId r' =>
      rw [hct] at h
      cases pt <;> simp at h

/-! ## the rules, in a given table -/

theorem tc_id_undef (Γ : Env) (ln : Ln) (x : String) (h : Γ.lookup x = none) :
    tc Γ (.id ln x) = .error ⟨ln, .undefId⟩ := by
  simp [tc, h]

theorem tc_attr_undef (Γ : Env) (ln : Ln) (r : Expr) (fld : String) (cr : Comb) (s : String)
    (hr : tc Γ r = .ok cr) (hrec : cr.ct = .val (.record s) ∨ cr.ct = .recordId s)
    (hf : findField (Γ.recordFields s) fld = none) :
    tc Γ (.attr ln r fld) = .error ⟨ln, .undefAttr⟩ := by
  cases hrec with
  | inl h => simp [tc, hr, h, hf]
  | inr h => simp [tc, hr, h, hf]

/-- an identifier that is a `let` binding, or a parameter not declared `var`, is CONST -/
def constEntry : Entry → Bool
  | .bind false _ => true
  | .param c _ => c != .var
  | _ => false

theorem tc_assign_const (Γ : Env) (ln lx : Ln) (x : String) (rhs : Expr) (ent : Entry) (cr : Comb)
    (hx : Γ.lookup x = some ent) (hc : constEntry ent = true) (hr : tc Γ rhs = .ok cr) :
    tc Γ (.ass ln (.id lx x) rhs) = .error ⟨ln, .assignConst⟩ := by
  cases ent with
  | bind v ct =>
    cases v <;> simp [constEntry] at hc
    simp [tc, hx, hr, idComb, isVarCst]
  | param c t =>
    cases c <;> simp [constEntry] at hc <;> simp [tc, hx, hr, idComb, isVarCst, PCst.toCst]
  | _ => simp [constEntry] at hc

/-- more generally: the left side is anything whose constness is not VAR (a call result without
`var`, an element of a `let` array, a loop, …) -/
theorem tc_assign_nonvar (Γ : Env) (ln : Ln) (l rhs : Expr) (cl cr : Comb)
    (hl : tc Γ l = .ok cl) (hc : cl.cst ≠ .var) (hr : tc Γ rhs = .ok cr) :
    tc Γ (.ass ln l rhs) = .error ⟨ln, .assignConst⟩ := by
  have : isVarCst cl = false := by
    simp only [isVarCst]
    cases h : cl.cst <;> simp_all
  simp [tc, hl, hr, this]

theorem tc_call_arity (Γ : Env) (ln : Ln) (f : Expr) (args : ExprList) (cf : Comb)
    (cs : List (Ln × Comb)) (ps : TyList) (rc : PCst) (r : Ty)
    (hf : tc Γ f = .ok cf) (hct : cf.ct = .val (.func ps rc r)) (ha : tcArgs Γ args = .ok cs)
    (hlen : ps.toList.length ≠ cs.length) :
    tc Γ (.call ln f args) = .error ⟨ln, .callMismatch⟩ := by
  simp [tc, hf, hct, ha, paramExprListCmp, hlen, CmpRes.toExcept]

/-- the line of a rejected argument list: the first bad argument's own line when
`param_expr_cmp` names the kinds, else the call's -/
theorem paramExprListGo_fail_line (cc : Bool) : (ps : List (PCst × Ty)) → (cs : List (Ln × Comb)) →
    (od : Option Diag) → paramExprListGo cc ps cs = .fail od →
    ∀ d, od = some d → ∃ a ∈ cs, d.line = a.1
  | [], _, od, h => by simp [paramExprListGo] at h
  | _ :: _, [], od, h => by simp [paramExprListGo] at h
  | (pc, pt) :: ps, (eln, c) :: cs, od, h => by
    intro d hd
    simp only [paramExprListGo] at h
    cases h1 : paramExprCmp cc pc pt eln c with
    | ok =>
      simp [h1] at h
      obtain ⟨a, ha, hl⟩ := paramExprListGo_fail_line cc ps cs od h d hd
      exact ⟨a, List.mem_cons_of_mem _ ha, hl⟩
    | fail od' =>
      simp [h1] at h
      subst h; subst hd
      refine ⟨(eln, c), List.mem_cons_self, ?_⟩
      unfold paramExprCmp at h1
      split at h1
      · cases h1; rfl
      · split at h1 <;> (try split at h1) <;> (try split at h1) <;> first | cases h1; rfl | cases h1

/-- some argument is of a kind the parameter does not accept -/
def SomeArgRejected : List (PCst × Ty) → List (Ln × Comb) → Prop
  | (_, pt) :: ps, (_, c) :: cs => ¬ Accepts pt c.ct ∨ SomeArgRejected ps cs
  | _, _ => False

theorem paramExprListGo_rejects (cc : Bool) : (ps : List (PCst × Ty)) → (cs : List (Ln × Comb)) →
    SomeArgRejected ps cs → ∃ od, paramExprListGo cc ps cs = .fail od
  | [], _, h => by simp [SomeArgRejected] at h
  | _ :: _, [], h => by simp [SomeArgRejected] at h
  | (pc, pt) :: ps, (eln, c) :: cs, h => by
    simp only [paramExprListGo]
    cases h1 : paramExprCmp cc pc pt eln c with
    | fail od => exact ⟨od, rfl⟩
    | ok =>
      have hacc := paramExprCmp_sound cc pc pt eln c h1
      cases h with
      | inl hn => exact absurd hacc hn
      | inr hr => exact paramExprListGo_rejects cc ps cs hr

theorem tc_call_kind (Γ : Env) (ln : Ln) (f : Expr) (args : ExprList) (cf : Comb)
    (cs : List (Ln × Comb)) (ps : TyList) (rc : PCst) (r : Ty)
    (hf : tc Γ f = .ok cf) (hct : cf.ct = .val (.func ps rc r)) (ha : tcArgs Γ args = .ok cs)
    (hbad : SomeArgRejected ps.toList cs) :
    ∃ d, tc Γ (.call ln f args) = .error d ∧ (d.line = ln ∨ ∃ a ∈ cs, d.line = a.1) := by
  by_cases hlen : ps.toList.length = cs.length
  · obtain ⟨od, hgo⟩ := paramExprListGo_rejects true ps.toList cs hbad
    cases od with
    | none =>
      exact ⟨⟨ln, .callMismatch⟩, by simp [tc, hf, hct, ha, paramExprListCmp, hlen, hgo, CmpRes.toExcept], .inl rfl⟩
    | some d =>
      refine ⟨d, by simp [tc, hf, hct, ha, paramExprListCmp, hlen, hgo, CmpRes.toExcept], .inr ?_⟩
      exact paramExprListGo_fail_line true _ _ _ hgo d rfl
  · exact ⟨_, tc_call_arity Γ ln f args cf cs ps rc r hf hct ha hlen, .inl rfl⟩

theorem tc_bin_incompat (Γ : Env) (ln : Ln) (op : BinOp) (l r : Expr) (cl cr : Comb) (tl tr : Ty)
    (hl : tc Γ l = .ok cl) (hr : tc Γ r = .ok cr) (htl : cl.ct = .val tl) (htr : cr.ct = .val tr)
    (hop : binTy op tl tr = none) : tc Γ (.bin ln op l r) = .error ⟨ln, binRule op⟩ := by
  simp [tc, hl, hr, htl, htr, hop]

theorem tc_un_incompat (Γ : Env) (ln : Ln) (op : UnOp) (e : Expr) (c : Comb) (t : Ty)
    (he : tc Γ e = .ok c) (ht : c.ct = .val t) (hop : unTy op t = none) :
    tc Γ (.un ln op e) = .error ⟨ln, unRule op⟩ := by
  simp [tc, he, ht, hop]

theorem tc_cond_nonbool (Γ : Env) (ln : Ln) (c t e : Expr) (cc ct ce : Comb)
    (hc : tc Γ c = .ok cc) (ht : tc Γ t = .ok ct) (he : tc Γ e = .ok ce)
    (hb : isBool cc.ct = false) : tc Γ (.cond ln c t e) = .error ⟨ln, .condNotBool⟩ := by
  simp [tc, hc, ht, he, hb]

theorem tc_while_nonbool (Γ : Env) (ln : Ln) (c b : Expr) (cc cb : Comb)
    (hc : tc Γ c = .ok cc) (hbd : tc Γ b = .ok cb) (hb : isBool cc.ct = false) :
    tc Γ (.while_ ln c b) = .error ⟨ln, .whileNotBool⟩ := by
  simp [tc, hc, hbd, hb]

theorem tc_match_missing (Γ : Env) (ln : Ln) (s : Expr) (g : Guard) (gs : GuardList) (cs : Comb)
    (en : String) (arms : List Comb)
    (hs : tc Γ s = .ok cs) (hen : cs.ct = .val (.enum en))
    (hg : tcGuards Γ (.cons g gs) = .ok arms) (hsame : guardsSameEnum en (.cons g gs) = .ok ())
    (hex : exhaustive Γ en (.cons g gs) = false) :
    tc Γ (.match_ ln s (.cons g gs)) = .error ⟨ln, .matchMissing⟩ := by
  simp [tc, hs, hen, hg, hsame, hex]

/-- `exhaustive` fails exactly when there is no `else` and some enumerator has no guard -/
theorem not_exhaustive_iff (Γ : Env) (en : String) (gs : GuardList) :
    exhaustive Γ en gs = false ↔ hasElse gs = false ∧ ∃ it ∈ Γ.enumItems en, coversItem it gs = false := by
  simp [exhaustive]

/-! ## D11: branches, tuples, array shape, for-in, pipes, the mark flags -/

/-- the two branches of `?:` / if-else are compared by `expr_comb_cmp_and_set` -/
theorem tc_cond_branches (Γ : Env) (ln : Ln) (c t e : Expr) (cc ct ce : Comb) (r : Rule)
    (hc : tc Γ c = .ok cc) (ht : tc Γ t = .ok ct) (he : tc Γ e = .ok ce)
    (hb : isBool cc.ct = true) (hcmp : combCmp ct.ct ce.ct = .error r) :
    tc Γ (.cond ln c t e) = .error ⟨ln, r⟩ := by
  simp [tc, hc, ht, he, hb, hcmp]

/-- the two branches of `if let (En::it = e) t else f` are compared the same way -/
theorem tc_iflet_branches (Γ : Env) (ln gln : Ln) (en it : String) (e t f : Expr) (ce ct cf : Comb) (r : Rule)
    (he : tc Γ e = .ok ce) (hen : ce.ct = .val (.enum en)) (hg : guardItemPre Γ gln en it = .ok ())
    (ht : tc Γ t = .ok ct) (hf : tc Γ f = .ok cf) (hcmp : combCmp ct.ct cf.ct = .error r) :
    tc Γ (.ifLet ln gln en it e t f) = .error ⟨ln, r⟩ := by
  simp [tc, he, hen, hg, ht, hf, hcmp]

/-- … and the guard must name the enum of the tested value -/
theorem tc_iflet_other_enum (Γ : Env) (ln gln : Ln) (en en' it : String) (e t f : Expr) (ce ct cf : Comb)
    (he : tc Γ e = .ok ce) (hen : ce.ct = .val (.enum en')) (hg : guardItemPre Γ gln en it = .ok ())
    (ht : tc Γ t = .ok ct) (hf : tc Γ f = .ok cf) (hne : en' ≠ en) :
    tc Γ (.ifLet ln gln en it e t f) = .error ⟨ln, .matchGuardDiffers⟩ := by
  simp [tc, he, hen, hg, ht, hf, hne]

/-- two tuple types whose member lists `param_list_cmp` tells apart are not unified -/
theorem combCmp_tuple (ms1 ms2 : TyList) (h : paramListCmp false ms1 ms2 = false) :
    combCmp (.val (.tuple ms1)) (.val (.tuple ms2)) = .error .condBranches := by
  simp [combCmp, h]

theorem combCmp_range (n1 n2 : Nat) (h : n1 ≠ n2) :
    combCmp (.val (.range n1)) (.val (.range n2)) = .error .branchRanges := by
  simp [combCmp, h]

theorem combCmp_array (n1 n2 : Nat) (c1 c2 : PCst) (e1 e2 : Ty)
    (h : (n1 == n2 && paramCmp false c1 e1 c2 e2) = false) :
    combCmp (.val (.array n1 c1 e1)) (.val (.array n2 c2 e2)) = .error .branchArrays := by
  simp only [combCmp, h]; rfl

theorem combCmp_slice (n1 n2 : Nat) (c1 c2 : PCst) (e1 e2 : Ty)
    (h : (n1 == n2 && paramCmp false c1 e1 c2 e2) = false) :
    combCmp (.val (.slice n1 c1 e1)) (.val (.slice n2 c2 e2)) = .error .branchSlices := by
  simp only [combCmp, h]; rfl

theorem combCmp_func (ps1 ps2 : TyList) (c1 c2 : PCst) (r1 r2 : Ty)
    (h : funcCmp ps1 c1 r1 ps2 c2 r2 = false) :
    combCmp (.val (.func ps1 c1 r1)) (.val (.func ps2 c2 r2)) = .error .branchFuncs := by
  simp only [combCmp, h]; rfl

/-- member lists of different length are told apart -/
theorem paramListCmp_length (cc : Bool) : (ms1 ms2 : TyList) → ms1.length ≠ ms2.length →
    paramListCmp cc ms1 ms2 = false
  | .nil, .nil, h => by simp [TyList.length] at h
  | .nil, .cons _ _ _, _ => by simp [paramListCmp]
  | .cons _ _ _, .nil, _ => by simp [paramListCmp]
  | .cons c1 t1 r1, .cons c2 t2 r2, h => by
    have := paramListCmp_length cc r1 r2 (by simpa [TyList.length] using h)
    simp [paramListCmp, this]

/-- the arms of a `match`: the first against each later one -/
theorem tc_match_arms (Γ : Env) (ln : Ln) (s : Expr) (g : Guard) (gs : GuardList) (cs : Comb)
    (en : String) (a : Comb) (rest : List Comb) (r : Rule)
    (hs : tc Γ s = .ok cs) (hen : cs.ct = .val (.enum en))
    (hg : tcGuards Γ (.cons g gs) = .ok (a :: rest)) (hsame : guardsSameEnum en (.cons g gs) = .ok ())
    (hex : exhaustive Γ en (.cons g gs) = true) (hcmp : armsCmp a.ct rest = .error r) :
    tc Γ (.match_ ln s (.cons g gs)) = .error ⟨ln, r⟩ := by
  simp [tc, hs, hen, hg, hsame, hex, hcmp]

theorem tc_tuple_arity (Γ : Env) (ln : Ln) (elems : ExprList) (ms ms' : TyList) (cs : List (Ln × Comb))
    (he : tcArgs Γ elems = .ok cs) (hm : resolveTys Γ ms.defaultVar = .ok ms')
    (hlen : ms'.toList.length ≠ cs.length) :
    tc Γ (.tuple ln elems ms) = .error ⟨ln, .tupleForm⟩ := by
  simp [tc, he, hm, paramExprListCmp, hlen, CmpRes.toExcept]

theorem tc_tuple_kind (Γ : Env) (ln : Ln) (elems : ExprList) (ms ms' : TyList) (cs : List (Ln × Comb))
    (he : tcArgs Γ elems = .ok cs) (hm : resolveTys Γ ms.defaultVar = .ok ms')
    (hbad : SomeArgRejected ms'.toList cs) :
    ∃ d, tc Γ (.tuple ln elems ms) = .error d ∧ (d.line = ln ∨ ∃ a ∈ cs, d.line = a.1) := by
  by_cases hlen : ms'.toList.length = cs.length
  · obtain ⟨od, hgo⟩ := paramExprListGo_rejects false ms'.toList cs hbad
    cases od with
    | none =>
      exact ⟨⟨ln, .tupleForm⟩, by simp [tc, he, hm, paramExprListCmp, hlen, hgo, CmpRes.toExcept], .inl rfl⟩
    | some d =>
      refine ⟨d, by simp [tc, he, hm, paramExprListCmp, hlen, hgo, CmpRes.toExcept], .inr ?_⟩
      exact paramExprListGo_fail_line false _ _ _ hgo d rfl
  · exact ⟨_, tc_tuple_arity Γ ln elems ms ms' cs he hm hlen, .inl rfl⟩

theorem tc_proj_bounds (Γ : Env) (ln iln : Ln) (e : Expr) (i : Nat) (c : Comb) (ms : TyList)
    (he : tc Γ e = .ok c) (hct : c.ct = .val (.tuple ms)) (hi : ms.get? i = none) :
    tc Γ (.proj ln e iln i) = .error ⟨ln, .tupleIndex⟩ := by
  simp [tc, he, hct, hi]

theorem TyList.get?_none : (ms : TyList) → (i : Nat) → ms.length ≤ i → ms.get? i = none
  | .nil, _, _ => rfl
  | .cons _ _ r, 0, h => by simp [TyList.length] at h
  | .cons _ _ r, i + 1, h => by
    simp only [TyList.get?]
    exact TyList.get?_none r i (by simpa [TyList.length] using h)

/-! ### array literal shape -/

/-- rows of a level, as `array_depth_list_well_formed` meets them (last row first): the first
fixes the count, a later row with another count — an EMPTY one included — is refused -/
theorem checkRowsSame_differs (n : Nat) : (cnts : List Nat) → (∃ m ∈ cnts, m ≠ n) →
    checkRowsSame n (cnts.map Item.sub) = .error ⟨0, .arrayShape⟩
  | [], h => by simp at h
  | m :: r, h => by
    simp only [List.map, checkRowsSame]
    by_cases hm : m = n
    · subst hm
      simp
      apply checkRowsSame_differs m r
      obtain ⟨m', hm', hne⟩ := h
      cases hm' with
      | head => exact absurd rfl hne
      | tail _ ht => exact ⟨m', ht, hne⟩
    · simp [hm]

theorem checkRows_differs (n : Nat) (cnts : List Nat) (h : ∃ m ∈ cnts, m ≠ n) :
    checkRows ((n :: cnts).map Item.sub) = .error ⟨0, .arrayShape⟩ := by
  simp only [List.map, checkRows]
  exact checkRowsSame_differs n cnts h

/-- a two-level literal `[ row_1, …, row_k ] : T` whose rows do not all have the length of the
last one: refused with the shape diagnostic (which the C code prints at line 0: a row has no
line of its own; "array is not well formed" at the literal's line follows) -/
theorem tc_array_ragged (Γ : Env) (ln : Ln) (elems : ExprList) (ec : PCst) (ety et : Ty)
    (cnts : List Nat) (n : Nat) (leaves : List Item)
    (hrows : tcRows Γ elems = .ok [(cnts ++ [n]).map Item.sub, leaves])
    (hty : resolveTy Γ ety = .ok et)
    (hleaves : checkDeepest ec.normVar et leaves.reverse = .ok ())
    (hdiff : ∃ m ∈ cnts, m ≠ n) :
    tc Γ (.array ln elems ec ety) = .error ⟨0, .arrayShape⟩ := by
  have hr : checkRows (Item.sub n :: (List.map Item.sub cnts).reverse) = .error ⟨0, .arrayShape⟩ := by
    have : Item.sub n :: (List.map Item.sub cnts).reverse = (n :: cnts.reverse).map Item.sub := by
      simp [List.map_reverse]
    rw [this]
    apply checkRows_differs
    obtain ⟨m, hm, hne⟩ := hdiff
    exact ⟨m, by simpa using hm, hne⟩
  simp [tc, hrows, hty, wellFormed, hleaves, checkShallow, hr]

/-! ### for-in -/

/-- the iterator of a for-in over a CONST one-dimensional array is CONST: assigning to it in the
loop body is refused at the assignment -/
theorem tc_forin_assign_const (Γ : Env) (ln la lx : Ln) (x : String) (a rhs : Expr) (ca cr : Comb)
    (n : Nat) (ec : PCst) (et : Ty)
    (ha : tc Γ a = .ok ca) (hct : ca.ct = .val (.array n ec et)) (hn : n = 1) (hconst : ca.cst = .const)
    (hr : tc (Γ.push [(x, .forin ⟨.val et, .const⟩)]) rhs = .ok cr) :
    tc Γ (.forIn ln x a (.ass la (.id lx x) rhs)) = .error ⟨la, .assignConst⟩ := by
  subst hn
  have hit : forinIter ca = some ⟨.val et, .const⟩ := by simp [forinIter, hct, hconst]
  have hlook : (Γ.push [(x, .forin ⟨.val et, .const⟩)]).lookup x = some (.forin ⟨.val et, .const⟩) := by
    simp [Env.lookup, Env.push, lookupScopes, Scope.find]
  simp [tc, ha, hit, hr, hlook, idComb, isVarCst]

/-- the same for a range (its elements are `let int`) -/
theorem tc_forin_assign_range (Γ : Env) (ln la lx : Ln) (x : String) (a rhs : Expr) (ca cr : Comb)
    (ha : tc Γ a = .ok ca) (hct : ca.ct = .val (.range 1))
    (hr : tc (Γ.push [(x, .forin ⟨.val .int, .const⟩)]) rhs = .ok cr) :
    tc Γ (.forIn ln x a (.ass la (.id lx x) rhs)) = .error ⟨la, .assignConst⟩ := by
  have hit : forinIter ca = some ⟨.val .int, .const⟩ := by simp [forinIter, hct]
  have hlook : (Γ.push [(x, .forin ⟨.val .int, .const⟩)]).lookup x = some (.forin ⟨.val .int, .const⟩) := by
    simp [Env.lookup, Env.push, lookupScopes, Scope.find]
  simp [tc, ha, hit, hr, hlook, idComb, isVarCst]

/-! ### pipes -/

/-- `l |> f(args)`, `l` not a tuple: the first parameter takes `l`; then as many explicit
arguments as there are further parameters — fewer AND more are refused at the pipe -/
theorem tc_pipe_arity (Γ : Env) (ln : Ln) (l f : Expr) (args : ExprList) (cl cf : Comb)
    (cs : List (Ln × Comb)) (pc : PCst) (pt : Ty) (ps : TyList) (rc : PCst) (r : Ty)
    (hl : tc Γ l = .ok cl) (hnt : ∀ ms, cl.ct ≠ .val (.tuple ms))
    (hf : tc Γ f = .ok cf) (hct : cf.ct = .val (.func (.cons pc pt ps) rc r))
    (ha : tcArgs Γ args = .ok cs)
    (hfirst : paramExprCmp true pc pt l.ln cl = .ok)
    (hlen : ps.toList.length ≠ cs.length) :
    tc Γ (.pipe ln l f args) = .error ⟨ln, .callMismatch⟩ := by
  cases hcl : cl.ct with
  | val t =>
    cases t with
    | tuple ms => exact absurd hcl (hnt ms)
    | _ => simp [tc, hl, hf, ha, hct, hcl, pipeCmp, TyList.toList, hfirst, hlen, CmpRes.toExcept]
  | _ => simp [tc, hl, hf, ha, hct, hcl, pipeCmp, TyList.toList, hfirst, hlen, CmpRes.toExcept]

/-- a function without parameters takes no piped value -/
theorem tc_pipe_noparams (Γ : Env) (ln : Ln) (l f : Expr) (args : ExprList) (cl cf : Comb)
    (cs : List (Ln × Comb)) (rc : PCst) (r : Ty)
    (hl : tc Γ l = .ok cl) (hf : tc Γ f = .ok cf) (hct : cf.ct = .val (.func .nil rc r))
    (ha : tcArgs Γ args = .ok cs) :
    tc Γ (.pipe ln l f args) = .error ⟨ln, .callMismatch⟩ := by
  cases hcl : cl.ct with
  | val t =>
    cases t <;> simp [tc, hl, hf, ha, hct, hcl, pipeCmp, pipeTupleCmp, TyList.toList, CmpRes.toExcept]
  | _ => simp [tc, hl, hf, ha, hct, hcl, pipeCmp, pipeTupleCmp, TyList.toList, CmpRes.toExcept]

/-- `t |> f(args)`, `t` a tuple: members and explicit arguments together must be as many as the
parameters -/
theorem tc_pipe_tuple_arity (Γ : Env) (ln : Ln) (l f : Expr) (args : ExprList) (cl cf : Comb)
    (cs : List (Ln × Comb)) (ms ps : TyList) (rc : PCst) (r : Ty)
    (hl : tc Γ l = .ok cl) (hlt : cl.ct = .val (.tuple ms))
    (hf : tc Γ f = .ok cf) (hct : cf.ct = .val (.func ps rc r))
    (ha : tcArgs Γ args = .ok cs)
    (hlen : ps.toList.length ≠ ms.toList.length + cs.length) :
    tc Γ (.pipe ln l f args) = .error ⟨ln, .callMismatch⟩ := by
  simp only [tc, hl, hf, ha, hct, hlt, bind_ok]
  by_cases he : ps.toList.isEmpty = true
  · simp [pipeTupleCmp, he, CmpRes.toExcept]
  · simp [pipeTupleCmp, he, hlen, CmpRes.toExcept]

/-! ### exhaustiveness on the shared mark flags -/

theorem contains_unmarkEnum (m : Marks) (en it : String) : (unmarkEnum m en).contains (en, it) = false := by
  induction m with
  | nil => rfl
  | cons p r ih =>
    unfold unmarkEnum at ih ⊢
    rw [List.filter_cons]
    by_cases hp : p.1 = en
    · simp [hp, ih]
    · have h1 : (p.1 != en) = true := by simp [hp]
      rw [if_pos h1, List.contains_cons, ih]
      have h2 : ((en, it) == p) = false := by
        obtain ⟨a, b⟩ := p
        simp at hp ⊢
        intro h; exact absurd h.symm hp
      simp [h2]

theorem contains_markGuards (en it : String) : (gs : GuardList) → (m : Marks) →
    (markGuards en gs m).contains (en, it) = (coversItem it gs || m.contains (en, it))
  | .nil, m => by simp [markGuards, coversItem]
  | .cons (.item _ _ it' _) rest, m => by
    rw [markGuards, contains_markGuards en it rest]
    simp only [coversItem, List.contains_cons]
    by_cases h : it' = it
    · subst h; simp
    · have h' : ¬ it = it' := fun e => h e.symm
      have e1 : ((en, it) == (en, it')) = false := by simp [h']
      have e2 : (it' == it) = false := by simp [h]
      simp [e1, e2, Bool.or_comm]
  | .cons (.recd _ _ it' _ _) rest, m => by
    rw [markGuards, contains_markGuards en it rest]
    simp only [coversItem, List.contains_cons]
    by_cases h : it' = it
    · subst h; simp
    · have h' : ¬ it = it' := fun e => h e.symm
      have e1 : ((en, it) == (en, it')) = false := by simp [h']
      have e2 : (it' == it) = false := by simp [h]
      simp [e1, e2, Bool.or_comm]
  | .cons (.else_ _ _) rest, m => by
    rw [markGuards, contains_markGuards en it rest]
    simp [coversItem]

/-- whatever marks earlier checks left behind, the verdict of `expr_match_guard_list_exhaustive`
is the state-free `exhaustive` (the marks of the matched enum are cleared FIRST) -/
theorem exhaustiveM_fst (Γ : Env) (en : String) (gs : GuardList) (m : Marks) :
    (exhaustiveM Γ en gs m).1 = exhaustive Γ en gs := by
  unfold exhaustiveM exhaustive
  by_cases he : hasElse gs = true
  · simp [he]
  · simp only [he, Bool.false_eq_true, ↓reduceIte, Bool.false_or, allMarked]
    congr 1
    funext it
    rw [contains_markGuards, contains_unmarkEnum]
    simp

/-! ### enum records: constructors, record guards -/

/-- `En::it(args)` with a number of arguments other than the enumerator's fields -/
theorem tc_ctor_arity (Γ : Env) (ln : Ln) (e : Expr) (it s : String) (args : ExprList) (ce : Comb)
    (cs : List (Ln × Comb)) (fs : List Field)
    (he : tc Γ e = .ok ce) (hct : ce.ct = .enumId s) (hit : Γ.hasItem s it = true)
    (ha : tcArgs Γ args = .ok cs) (hf : Γ.enumRecFields s it = some fs) (hlen : fs.length ≠ cs.length) :
    tc Γ (.ctor ln e it args) = .error ⟨ln, .enumCreate⟩ := by
  simp [tc, he, hct, hit, ha, hf, paramExprListCmp, hlen, CmpRes.toExcept]

/-- … or with an argument of a kind the field does not accept -/
theorem tc_ctor_kind (Γ : Env) (ln : Ln) (e : Expr) (it s : String) (args : ExprList) (ce : Comb)
    (cs : List (Ln × Comb)) (fs : List Field)
    (he : tc Γ e = .ok ce) (hct : ce.ct = .enumId s) (hit : Γ.hasItem s it = true)
    (ha : tcArgs Γ args = .ok cs) (hf : Γ.enumRecFields s it = some fs)
    (hbad : SomeArgRejected (fs.map fun f => (f.cst, f.ty)) cs) :
    ∃ d, tc Γ (.ctor ln e it args) = .error d ∧ (d.line = ln ∨ ∃ a ∈ cs, d.line = a.1) := by
  by_cases hlen : fs.length = cs.length
  · obtain ⟨od, hgo⟩ := paramExprListGo_rejects false _ cs hbad
    cases od with
    | none =>
      exact ⟨⟨ln, .enumCreate⟩, by simp [tc, he, hct, hit, ha, hf, paramExprListCmp, hlen, hgo, CmpRes.toExcept], .inl rfl⟩
    | some d =>
      refine ⟨d, by simp [tc, he, hct, hit, ha, hf, paramExprListCmp, hlen, hgo, CmpRes.toExcept], .inr ?_⟩
      exact paramExprListGo_fail_line false _ _ _ hgo d rfl
  · exact ⟨_, tc_ctor_arity Γ ln e it s args ce cs fs he hct hit ha hf hlen, .inl rfl⟩

/-- a plain enumerator is not a constructor -/
theorem tc_ctor_plain (Γ : Env) (ln : Ln) (e : Expr) (it s : String) (args : ExprList) (ce : Comb)
    (cs : List (Ln × Comb))
    (he : tc Γ e = .ok ce) (hct : ce.ct = .enumId s) (hit : Γ.hasItem s it = true)
    (ha : tcArgs Γ args = .ok cs) (hf : Γ.enumRecFields s it = none) :
    tc Γ (.ctor ln e it args) = .error ⟨ln, .enumCreate⟩ := by
  simp [tc, he, hct, hit, ha, hf]

/-- a record guard (first guard of a match) with a number of binds other than the fields -/
theorem tc_match_guard_binds (Γ : Env) (ln gln : Ln) (s : Expr) (en it : String) (binds : List (Ln × String))
    (e : Expr) (gs : GuardList) (cs : Comb) (en' : String) (pre : GuardList) (arms : List Comb)
    (hs : tc Γ s = .ok cs) (hen : cs.ct = .val (.enum en')) (hpre : tcGuards Γ pre = .ok arms)
    (hg : guardItemPre Γ gln en it = .ok ())
    (hbad : guardBindsOk Γ gln en it binds = .error ⟨gln, .guardBinds⟩) :
    tc Γ (.match_ ln s (pre.app (.cons (.recd gln en it binds e) gs))) = .error ⟨gln, .guardBinds⟩ := by
  have h1 : tcGuards Γ (.cons (.recd gln en it binds e) gs) = .error ⟨gln, .guardBinds⟩ := by
    rw [tcGuards_recd]; simp [recdHead, hg, hbad]
  have h2 := tcGuards_app_error Γ _ _ h1 pre arms hpre
  cases pre with
  | nil => simp only [GuardList.app] at h2 ⊢; simp [tc, hs, hen, h2]
  | cons g0 r => simp only [GuardList.app] at h2 ⊢; simp [tc, hs, hen, h2]

/-- … a guard that names an enumerator the enum does not have -/
theorem tc_match_guard_unknown (Γ : Env) (ln gln : Ln) (s : Expr) (en it : String) (binds : List (Ln × String))
    (e : Expr) (gs : GuardList) (cs : Comb) (en' : String) (pre : GuardList) (arms : List Comb) (d : Diag)
    (hs : tc Γ s = .ok cs) (hen : cs.ct = .val (.enum en')) (hpre : tcGuards Γ pre = .ok arms)
    (hg : guardItemPre Γ gln en it = .error d) :
    tc Γ (.match_ ln s (pre.app (.cons (.recd gln en it binds e) gs))) = .error d := by
  have h1 : tcGuards Γ (.cons (.recd gln en it binds e) gs) = .error d := by
    rw [tcGuards_recd]; simp [recdHead, hg]
  have h2 := tcGuards_app_error Γ _ _ h1 pre arms hpre
  cases pre with
  | nil => simp only [GuardList.app] at h2 ⊢; simp [tc, hs, hen, h2]
  | cons g0 r => simp only [GuardList.app] at h2 ⊢; simp [tc, hs, hen, h2]

/-- … guards that all resolve, one of them (item or record) of ANOTHER enum than the matched value -/
theorem tc_match_guard_other_enum (Γ : Env) (ln : Ln) (s : Expr) (g : Guard) (gs : GuardList) (cs : Comb)
    (en : String) (arms : List Comb) (d : Diag)
    (hs : tc Γ s = .ok cs) (hen : cs.ct = .val (.enum en))
    (hg : tcGuards Γ (.cons g gs) = .ok arms) (hsame : guardsSameEnum en (.cons g gs) = .error d) :
    tc Γ (.match_ ln s (.cons g gs)) = .error d := by
  simp [tc, hs, hen, hg, hsame]

theorem tc_ifletrec_binds (Γ : Env) (ln gln : Ln) (en it : String) (binds : List (Ln × String)) (e t f : Expr)
    (ce : Comb) (en' : String)
    (he : tc Γ e = .ok ce) (hen : ce.ct = .val (.enum en')) (hg : guardItemPre Γ gln en it = .ok ())
    (hbad : guardBindsOk Γ gln en it binds = .error ⟨gln, .guardBinds⟩) :
    tc Γ (.ifLetRec ln gln en it binds e t f) = .error ⟨gln, .guardBinds⟩ := by
  simp [tc, he, hen, hg, hbad]

/-! ### a function item needs a name; a main unit needs a function -/

theorem declFuncs_noname (Γ : Env) (f : Func) (fpost : FuncList) (hn : f.name = "") :
    declFuncs Γ (.cons f fpost) = .error ⟨f.ln, .funcNoName⟩ := by
  simp [declFuncs, addFunc, hn]

theorem declFuncs_app_noname (Γ Γ1 : Env) (fpre : FuncList) (ss : List Sig) (f : Func) (fpost : FuncList)
    (hpre : declFuncs Γ fpre = .ok (Γ1, ss)) (hn : f.name = "") :
    declFuncs Γ (fpre.app (.cons f fpost)) = .error ⟨f.ln, .funcNoName⟩ := by
  rw [declFuncs_app, hpre]
  simp [declFuncs_noname Γ1 f fpost hn]

/-- a nameless function item in a block -/
theorem tc_seq_noname (Γ Γ1 Γ2 : Env) (ln : Ln) (pre post : SeqList) (fpre fpost : FuncList) (ss : List Sig)
    (f : Func) (hpre : seqEnv Γ.push pre = .ok Γ1) (hf : declFuncs Γ1 fpre = .ok (Γ2, ss)) (hn : f.name = "") :
    tc Γ (.seq ln (pre.app (.cons (.funcs (fpre.app (.cons f fpost))) post))) = .error ⟨f.ln, .funcNoName⟩ := by
  have h : tcSeq Γ1 (.cons (.funcs (fpre.app (.cons f fpost))) post) = .error ⟨f.ln, .funcNoName⟩ := by
    simp [tcSeq, declFuncs_app_noname Γ1 Γ2 fpre ss f fpost hf hn]
  simp [tc, tcSeq_app_error pre Γ.push Γ1 _ _ hpre h]

/-! ## function-level rules (`tcRest`) -/

theorem tcRest_unknown_exc (Γf : Env) (s : Sig) (ln : Ln) (name : String) (ps : List Param) (rc : PCst)
    (rty : Ty) (body : Expr) (xpre xpost : ExcList) (xln : Ln) (xname : String) (xbody : Expr)
    (hpre : tcExcs Γf s xpre = .ok ()) (hun : unknownExc xname = true) :
    tcRest Γf s (.mk ln name ps rc rty body (xpre.app (.cons (.mk xln xname xbody) xpost)))
      = .error ⟨xln, .unknownException⟩ := by
  simp [tcRest, tcExcs_app, hpre, tcExcs, hun]

theorem tcRest_result_kind (Γf : Env) (s : Sig) (ln : Ln) (name : String) (ps : List Param) (rc : PCst)
    (rty : Ty) (body : Expr) (excs : ExcList) (c : Comb)
    (hx : tcExcs Γf s excs = .ok ()) (hb : tc Γf body = .ok c)
    (hbad : ¬ Accepts s.r c.ct) :
    ∃ d, tcRest Γf s (.mk ln name ps rc rty body excs) = .error d ∧ (d.line = ln ∨ d.line = body.ln) := by
  cases h1 : paramExprCmp true s.rc s.r body.ln c with
  | ok => exact absurd (paramExprCmp_sound _ _ _ _ _ h1) hbad
  | fail od =>
    cases od with
    | none => exact ⟨⟨ln, .returnType⟩, by simp [tcRest, hx, hb, h1, CmpRes.toExcept], .inl rfl⟩
    | some d =>
      refine ⟨d, by simp [tcRest, hx, hb, h1, CmpRes.toExcept], .inr ?_⟩
      have := paramExprListGo_fail_line true [(s.rc, s.r)] [(body.ln, c)] (some d)
        (by simp [paramExprListGo, h1]) d rfl
      simpa using this

end Never.Tc
