import NeverModel.Lemmas.VerCert
import NeverModel.Model.VerifyRun
import NeverModel.Lemmas.VmFrameOps
import NeverModel.Lemmas.VmInitArray
import NeverModel.Lemmas.ExcTab
set_option linter.unusedSimpArgs false
set_option linter.unusedVariables false
/-! from the certificate `flowOk` to executions of M-VM: the invariant "running at the recorded height", one step, many steps -/
namespace Never.Ver
open Never Never.Vm

/-- the machine is running at a reached address with `sp` exactly the recorded height above the parameters of the running
function: `sp = pp + nparams + h(ip)` -/
def AtHeight (md : Module) (hm : HMap) (vm : Vm) : Prop :=
  vm.running = 1 ∧ ∃ st, hm[vm.ip]? = some (some st) ∧ vm.sp = vm.pp + (fnParamsAt md vm.ip : Int) + (st.h : Int)

/-- the machine is running at the entry of an exception handler (`[LABEL] CLEAR_STACK/RETHROW/UNHANDLED_EXCEPTION`): `sp` is
whatever the faulting instruction left, the handler's first effective instruction resets it from `pp` -/
def AtHandler (md : Module) (hm : HMap) (vm : Vm) : Prop :=
  vm.running = 1 ∧ handlerEntry md vm.ip = true ∧ ∃ st, hm[vm.ip]? = some (some st)

/-- the calls in preparation the certificate records behind the instruction at `a`: MARK adds its height, CLEAR_STACK drops them all,
every other instruction keeps them -/
def marksNext (md : Module) (hm : HMap) (a : Nat) : List Nat :=
  match md.code[a]?, hm[a]? with
  | some i, some (some st) => if i.op = .MARK then st.h :: st.marks else if i.op = .CLEAR_STACK then [] else st.marks
  | _, _ => []

/-- what the certificate says about the edge `a → t` a step has taken: same function, the recorded calls in preparation are those
behind `a`, and `t` continues a run of `INT` pushes only when the step was an `INT` falling through -/
def EdgeOk (md : Module) (hm : HMap) (a t : Nat) : Prop :=
  sameFn (funcStarts md) a t = true ∧ marksAt hm t = marksNext md hm a ∧
  (intRun md t = [] ∨ (t = a + 1 ∧ ∃ i, md.code[a]? = some i ∧ i.op = .INT))

/-- outcome of one step that stays inside the running activation -/
def Succ (md : Module) (hm : HMap) (vm vm' : Vm) : Prop :=
  vm'.pp = vm.pp ∧ vm'.stackSize = vm.stackSize ∧
  ((AtHeight md hm vm' ∧ EdgeOk md hm vm.ip vm'.ip) ∨
   (AtHandler md hm vm' ∧ (vm'.ip = vm.ip + 1 ∨ excHandler md.exctab md.excCount vm.ip = some vm'.ip)) ∨
   vm'.running = 3)

section
variable {md : Module} {hm : HMap}

theorem flow_table (hf : flowOk md hm = true) {a : Nat} {i : Instr} {st : AbsSt} {p q : Nat}
    (hi : md.code[a]? = some i) (hs : hm[a]? = some (some st)) (he : simpleEffect i = some (p, q)) (hj : i.op ≠ .JUMPZ) :
    ∃ st', hm[a + 1]? = some (some st') ∧ p ≤ st.h ∧ st'.h + p = st.h + q := by
  have := (flowOk_at hf (lt_size_of_getElem? hi)).1
  unfold flowOkAt at this
  simp only [hi, hs, he] at this
  have hj' : (i.op == Opc.JUMPZ) = false := by simpa using hj
  simp only [hj'] at this
  cases hn : hm[a + 1]? with
  | none => simp [hn] at this
  | some o =>
    cases o with
    | none => simp [hn] at this
    | some st' =>
      simp [hn] at this
      exact ⟨st', rfl, this.1, this.2⟩

theorem flow_branch (hf : flowOk md hm = true) {a : Nat} {i : Instr} {st : AbsSt}
    (hi : md.code[a]? = some i) (hs : hm[a]? = some (some st)) :
    (i.op = .JUMPZ → 1 ≤ st.h ∧ (∃ s1, hm[a + 1]? = some (some s1) ∧ s1.h + 1 = st.h) ∧
        (∃ s2, hm[((a : Int) + 1 + i32 i.w0).toNat]? = some (some s2) ∧ s2.h + 1 = st.h)) ∧
    (i.op = .JUMP → ∃ s2, hm[((a : Int) + 1 + i32 i.w0).toNat]? = some (some s2) ∧ s2.h = st.h) := by
  have key := (flowOk_at hf (lt_size_of_getElem? hi)).1
  unfold flowOkAt at key
  simp only [hi, hs] at key
  constructor
  · intro hop
    have he : simpleEffect i = some (1, 0) := by simp [simpleEffect, hop, binOpOf, unOpOf, convOf, nilCmpOf, strAddOf, arrOpOf, mkArrayElem]
    simp only [he, hop, beq_self_eq_true, if_true, Bool.and_eq_true] at key
    obtain ⟨k1, k2⟩ := key
    cases hn : hm[a + 1]? with
    | none => simp [hn] at k1
    | some o =>
      cases o with
      | none => simp [hn] at k1
      | some s1 =>
        simp [hn] at k1
        cases ht : hm[((a : Int) + 1 + i32 i.w0).toNat]? with
        | none => simp [ht] at k2
        | some o2 =>
          cases o2 with
          | none => simp [ht] at k2
          | some s2 =>
            simp [ht] at k2
            exact ⟨k1.1, ⟨s1, rfl, by omega⟩, ⟨s2, rfl, by omega⟩⟩
  · intro hop
    have he : simpleEffect i = none := by simp [simpleEffect, hop, binOpOf, unOpOf, convOf, nilCmpOf, strAddOf, arrOpOf, mkArrayElem]
    simp only [he, hop, beq_self_eq_true, if_true] at key
    cases ht : hm[((a : Int) + 1 + i32 i.w0).toNat]? with
    | none => simp [ht] at key
    | some o2 =>
      cases o2 with
      | none => simp [ht] at key
      | some s2 =>
        simp [ht] at key
        exact ⟨s2, rfl, key⟩

theorem frame_at (hf : flowOk md hm = true) {a : Nat} {i : Instr} (hi : md.code[a]? = some i) :
    frameOkAt md (funcStarts md) hm a = true := (flowOk_at hf (lt_size_of_getElem? hi)).2

theorem fnParamsAt_same {a t : Nat} (h : sameFn (funcStarts md) a t = true) : fnParamsAt md t = fnParamsAt md a :=
  (sameFn_np h).1

theorem marksNext_other {a : Nat} {i : Instr} {st : AbsSt} (hi : md.code[a]? = some i) (hs : hm[a]? = some (some st))
    (h1 : i.op ≠ .MARK) (h2 : i.op ≠ .CLEAR_STACK) : marksNext md hm a = st.marks := by
  unfold marksNext; simp only [hi, hs, h1, h2, if_false]

theorem marksNext_MARK {a : Nat} {i : Instr} {st : AbsSt} (hi : md.code[a]? = some i) (hs : hm[a]? = some (some st))
    (h1 : i.op = .MARK) : marksNext md hm a = st.h :: st.marks := by
  unfold marksNext; simp only [hi, hs, h1, if_true]

theorem marksNext_CLEAR {a : Nat} {i : Instr} {st : AbsSt} (hi : md.code[a]? = some i) (hs : hm[a]? = some (some st))
    (h1 : i.op = .CLEAR_STACK) : marksNext md hm a = [] := by
  unfold marksNext; simp [hi, hs, h1]

/-- the fall-through edge `a → a + 1` -/
theorem edge_next {a : Nat} {i : Instr} (hi : md.code[a]? = some i) (hsame : sameFn (funcStarts md) a (a + 1) = true)
    (hm' : mAt hm (a + 1) (marksNext md hm a) = true) : EdgeOk md hm a (a + 1) := by
  refine ⟨hsame, mAt_marksAt hm', ?_⟩
  rw [intRun_succ md a i hi]
  by_cases h : i.op = .INT
  · exact Or.inr ⟨rfl, i, hi, h⟩
  · exact Or.inl (by simp [h])

/-- every handler address the exception table can return is a handler entry the height map reached -/
theorem handler_entry (hf : flowOk md hm = true) {a hd : Nat} (h : excHandler md.exctab md.excCount a = some hd) :
    handlerEntry md hd = true ∧ ∃ st, hm[hd]? = some (some st) := by
  have hk := flowOk_handlers hf
  unfold handlersOk at hk
  unfold excHandler at h
  split at h
  · rename_i idx hsr
    obtain ⟨hlt, e1, e2, he1, _, _, _⟩ := excSearch_sound _ _ _ _ hsr
    rw [he1] at h
    simp only [Option.map_some, Option.some.injEq] at h
    have hmem : e1 ∈ md.exctab.toList.take md.excCount := by
      have : (md.exctab.toList.take md.excCount)[idx]? = some e1 := by
        rw [List.getElem?_take]; simp [hlt, he1]
      exact List.mem_of_getElem? this
    have := (List.all_eq_true.mp hk) e1 hmem
    simp only [Bool.and_eq_true] at this
    rw [h] at this
    refine ⟨this.1, ?_⟩
    cases hh : hm[hd]? with
    | none => simp [hh] at this
    | some o =>
      cases o with
      | none => simp [hh] at this
      | some st => exact ⟨st, rfl⟩
  · cases h

/-- the generic shape of one step inside an activation: if the handler of the fetched instruction keeps `pp` and the stack size,
leaves the running state only by raising (with `ip` still behind the faulting instruction) or stopping, and when it completes the
machine is at a recorded height in the same function, then the step's outcome is `Succ` -/
theorem succ_generic (hf : flowOk md hm = true) (orc : Oracle) (vm vm' : Vm) (i : Instr)
    (hi : md.code[vm.ip]? = some i) (hstep : (step md orc).run vm = .ok ((), vm'))
    (hexec : ∀ s2, (exec md i orc).run { vm with ip := vm.ip + 1 } = .ok ((), s2) →
      s2.pp = vm.pp ∧ s2.stackSize = vm.stackSize ∧ (s2.running = 1 ∨ s2.running = 2 ∨ s2.running = 3) ∧
      (s2.running = 2 → s2.ip = vm.ip + 1) ∧
      (s2.running = 1 → AtHeight md hm s2 ∧ EdgeOk md hm vm.ip s2.ip)) :
    Succ md hm vm vm' := by
  obtain ⟨s2, he, hcase⟩ := step_exec md orc vm vm' i hi hstep
  obtain ⟨a1, a2, a3, a4, a5⟩ := hexec s2 he
  rcases hcase with ⟨hne, rfl⟩ | ⟨h2, hd, hh, rfl⟩
  · refine ⟨a1, a2, ?_⟩
    rcases a3 with a3 | a3 | a3
    · exact Or.inl (a5 a3)
    · exact absurd a3 hne
    · exact Or.inr (Or.inr a3)
  · refine ⟨a1, a2, Or.inr (Or.inl ?_)⟩
    have hip : s2.ip - 1 = vm.ip := by rw [a4 h2]; omega
    rw [hip] at hh
    obtain ⟨k1, k2⟩ := handler_entry hf hh
    exact ⟨⟨rfl, k1, k2⟩, Or.inr hh⟩

end
end Never.Ver
