import NeverModel.Lemmas.VmEffectLoops
set_option linter.unusedSimpArgs false
set_option linter.unusedVariables false
/-! stack effects of the opcodes whose effect depends on an instruction operand -/
namespace Never.Vm
open Never Never.Num

set_option maxRecDepth 8000 in
theorem eff_MK_RANGE (md : Module) (ins : Instr) (orc : Oracle) (s : Int) (h : ins.op = .MK_RANGE) :
    EffAt s (1 - (2 * ins.w0 : Nat)) (exec md ins orc) := by
  exec_sel h
  refine EffAt.keeps_bind (by keeps) (fun _ => ?_)
  refine EffAt.mov_bind (popAddrs_mov _ _) (fun _ => ?_) (d2 := 1) (by omega)
  eff

set_option maxRecDepth 8000 in
theorem eff_RECORD (md : Module) (ins : Instr) (orc : Oracle) (s : Int) (h : ins.op = .RECORD) :
    EffAt s (1 - (ins.w0 : Nat)) (exec md ins orc) := by
  exec_sel h
  refine EffAt.keeps_bind (by keeps) (fun _ => ?_)
  refine EffAt.mov_bind (popAddrs_mov _ _) (fun _ => ?_) (d2 := 1) (by omega)
  eff

set_option maxRecDepth 8000 in
theorem eff_GLOBAL_VEC (md : Module) (ins : Instr) (orc : Oracle) (s : Int) (h : ins.op = .GLOBAL_VEC) :
    EffAt s (1 - (ins.w0 : Nat)) (exec md ins orc) := by
  exec_sel h
  refine EffAt.keeps_bind (by keeps) (fun _ => ?_)
  refine EffAt.mov_bind (popAddrs_mov _ _) (fun _ => ?_) (d2 := 1) (by omega)
  eff

theorem eff_ALLOC (md : Module) (ins : Instr) (orc : Oracle) (s : Int) (h : ins.op = .ALLOC) :
    EffAt s (ins.w0 : Nat) (exec md ins orc) := by
  exec_sel h
  exact (allocLoop_mov _ _).toEff

set_option maxRecDepth 8000 in
theorem eff_mkArray (md : Module) (ins : Instr) (orc : Oracle) (s : Int) (dflt : Obj)
    (hb : binOpOf ins.op = none) (hu : unOpOf ins.op = none) (hc : convOf ins.op = none) (hn : nilCmpOf ins.op = none)
    (hs : strAddOf ins.op = none) (ha : arrOpOf ins.op = none)
    (h : mkArrayElem ins.op = some dflt) : EffAt s (1 - (ins.w0 : Nat)) (exec md ins orc) := by
  unfold exec
  simp only [hb, hu, hc, hn, hs, ha, h]
  refine EffAt.getSp_bind ?_
  refine EffAt.popOpt_bind (popExts_spec _ _) ?_ (fun exts => ?_) (d2 := 1) (by omega)
  · intro vm b vm' hr; exact ((run_pure_ok _ _ _ _).mp hr).2
  · dsimp only
    eff

set_option maxRecDepth 8000 in
theorem eff_ARRAY_DEREF (md : Module) (ins : Instr) (orc : Oracle) (s : Int) (h : ins.op = .ARRAY_DEREF ∨ ins.op = .ARRAYREF_DEREF) :
    EffAt s (-(ins.w0 : Nat)) (exec md ins orc) := by
  rcases h with h | h
  all_goals
    exec_sel h
    refine EffAt.popOpt_bind (popIndices_spec _ _) ?_ (fun idx => ?_) (d2 := 0) (by omega)
    · intro vm b vm' hr; exact ((run_pure_ok _ _ _ _).mp hr).2
    · dsimp only
      eff

set_option maxRecDepth 8000 in
theorem eff_SLICE_DEREF (md : Module) (ins : Instr) (orc : Oracle) (s : Int) (h : ins.op = .SLICE_DEREF) :
    EffAt s (-(ins.w0 : Nat)) (exec md ins orc) := by
  exec_sel h
  refine EffAt.popOpt_bind (popIndices_spec _ _) ?_ (fun idx => ?_) (d2 := 0) (by omega)
  · intro vm b vm' hr; exact ((run_pure_ok _ _ _ _).mp hr).2
  · dsimp only
    eff


set_option maxRecDepth 8000 in
theorem eff_RANGE_DEREF (md : Module) (ins : Instr) (orc : Oracle) (s : Int) (h : ins.op = .RANGE_DEREF) :
    EffAt s (-(ins.w0 : Nat)) (exec md ins orc) := by
  exec_sel h
  refine EffAt.keeps_bind (by keeps) (fun _ => ?_)
  refine EffAt.keeps_bind (by keeps) (fun _ => ?_)
  split
  · eff
  · refine EffAt.keeps_bind (by keeps) (fun _ => ?_)
    refine EffAt.boolmov_bind (n := ins.w0) (d2 := 0) (fun vm r vm' hs hr => rangeDerefLoop_spec _ _ _ _ _ vm r vm' hs hr) ?_ ?_ (by omega)
    · simp only [if_true]; eff
    · intro vm b vm' hr
      simp only [Bool.false_eq_true, if_false] at hr
      exact ((run_pure_ok _ _ _ _).mp hr).2

set_option maxRecDepth 8000 in
theorem eff_RECORD_UNPACK (md : Module) (ins : Instr) (orc : Oracle) (s : Int) (h : ins.op = .RECORD_UNPACK) :
    EffAt s ((ins.w0 : Nat) - 1) (exec md ins orc) := by
  exec_sel h
  refine EffAt.keeps_bind (by keeps) (fun _ => ?_)
  refine EffAt.keeps_bind (by keeps) (fun fs => ?_)
  split
  · eff
  · rename_i hne
    have hw : ins.w0 = fs.length := by
      have := hne; simp only [bne_iff_ne, ne_eq, Decidable.not_not] at this; exact this
    refine EffAt.setSp_bind _ _ _ (by omega) (fun _ => ?_)
    keeps

theorem keeps_appendTail (array obj : Nat) :
    KeepsSp (do let vm ← get
                match vm.gc.appendArrElem array obj with
                | some g => set { vm with gc := g }
                | none => (crash "assert: append to a non 1-dimensional array" : M PUnit)) := by
  refine KeepsSp.get_bind _ ?_
  intro vm a vm' hr
  split at hr
  · exact keeps_set_of _ vm (by exact ⟨rfl, rfl, rfl, rfl⟩) _ _ hr
  · exact keeps_crash _ _ _ _ hr

set_option maxRecDepth 8000 in
theorem eff_ARRAY_APPEND (md : Module) (ins : Instr) (orc : Oracle) (s : Int) (h : ins.op = .ARRAY_APPEND) :
    EffAt s (-1) (exec md ins orc) := by
  exec_sel h
  refine EffAt.keeps_bind (by keeps) (fun _ => ?_)
  refine EffAt.keeps_bind (by keeps) (fun _ => ?_)
  split
  · eff
  · refine EffAt.keeps_bind (by keeps) (fun _ => ?_)
    refine EffAt.setSp_bind _ _ _ (by omega) (fun _ => ?_)
    exact keeps_appendTail _ _

end Never.Vm
