import NeverModel.Lemmas.VmEffectLoops
set_option linter.unusedSimpArgs false
set_option linter.unusedVariables false
/-! per-opcode stack effects of `exec` (generated list of statements, each proved by the `eff` automation) -/
namespace Never.Vm
open Never Never.Num

set_option maxRecDepth 8000 in
theorem eff_INT (md : Module) (ins : Instr) (orc : Oracle) (s : Int) (h : ins.op = .INT) : EffAt s (1) (exec md ins orc) := by exec_eff h

set_option maxRecDepth 8000 in
theorem eff_LONG (md : Module) (ins : Instr) (orc : Oracle) (s : Int) (h : ins.op = .LONG) : EffAt s (1) (exec md ins orc) := by exec_eff h

set_option maxRecDepth 8000 in
theorem eff_FLOAT (md : Module) (ins : Instr) (orc : Oracle) (s : Int) (h : ins.op = .FLOAT) : EffAt s (1) (exec md ins orc) := by exec_eff h

set_option maxRecDepth 8000 in
theorem eff_DOUBLE (md : Module) (ins : Instr) (orc : Oracle) (s : Int) (h : ins.op = .DOUBLE) : EffAt s (1) (exec md ins orc) := by exec_eff h

set_option maxRecDepth 8000 in
theorem eff_CHAR (md : Module) (ins : Instr) (orc : Oracle) (s : Int) (h : ins.op = .CHAR) : EffAt s (1) (exec md ins orc) := by exec_eff h

set_option maxRecDepth 8000 in
theorem eff_STRING (md : Module) (ins : Instr) (orc : Oracle) (s : Int) (h : ins.op = .STRING) : EffAt s (1) (exec md ins orc) := by exec_eff h

set_option maxRecDepth 8000 in
theorem eff_C_NULL (md : Module) (ins : Instr) (orc : Oracle) (s : Int) (h : ins.op = .C_NULL) : EffAt s (1) (exec md ins orc) := by exec_eff h

set_option maxRecDepth 8000 in
theorem eff_ID_TOP (md : Module) (ins : Instr) (orc : Oracle) (s : Int) (h : ins.op = .ID_TOP) : EffAt s (1) (exec md ins orc) := by exec_eff h

set_option maxRecDepth 8000 in
theorem eff_ID_LOCAL (md : Module) (ins : Instr) (orc : Oracle) (s : Int) (h : ins.op = .ID_LOCAL) : EffAt s (1) (exec md ins orc) := by exec_eff h

set_option maxRecDepth 8000 in
theorem eff_ID_DIM_LOCAL (md : Module) (ins : Instr) (orc : Oracle) (s : Int) (h : ins.op = .ID_DIM_LOCAL) : EffAt s (1) (exec md ins orc) := by exec_eff h

set_option maxRecDepth 8000 in
theorem eff_ID_DIM_SLICE (md : Module) (ins : Instr) (orc : Oracle) (s : Int) (h : ins.op = .ID_DIM_SLICE) : EffAt s (1) (exec md ins orc) := by exec_eff h

set_option maxRecDepth 8000 in
theorem eff_ID_GLOBAL (md : Module) (ins : Instr) (orc : Oracle) (s : Int) (h : ins.op = .ID_GLOBAL) : EffAt s (1) (exec md ins orc) := by exec_eff h

set_option maxRecDepth 8000 in
theorem eff_OP_DUP_INT (md : Module) (ins : Instr) (orc : Oracle) (s : Int) (h : ins.op = .OP_DUP_INT) : EffAt s (1) (exec md ins orc) := by exec_eff h

set_option maxRecDepth 8000 in
theorem eff_COPYGLOB (md : Module) (ins : Instr) (orc : Oracle) (s : Int) (h : ins.op = .COPYGLOB) : EffAt s (1) (exec md ins orc) := by exec_eff h

set_option maxRecDepth 8000 in
theorem eff_NIL_RECORD_REF (md : Module) (ins : Instr) (orc : Oracle) (s : Int) (h : ins.op = .NIL_RECORD_REF) : EffAt s (1) (exec md ins orc) := by exec_eff h

set_option maxRecDepth 8000 in
theorem eff_PUSH_EXCEPT (md : Module) (ins : Instr) (orc : Oracle) (s : Int) (h : ins.op = .PUSH_EXCEPT) : EffAt s (1) (exec md ins orc) := by exec_eff h

set_option maxRecDepth 8000 in
theorem eff_VEC_DEREF (md : Module) (ins : Instr) (orc : Oracle) (s : Int) (h : ins.op = .VEC_DEREF) : EffAt s (1) (exec md ins orc) := by exec_eff h

set_option maxRecDepth 8000 in
theorem eff_VECREF_VEC_DEREF (md : Module) (ins : Instr) (orc : Oracle) (s : Int) (h : ins.op = .VECREF_VEC_DEREF) : EffAt s (1) (exec md ins orc) := by exec_eff h

set_option maxRecDepth 8000 in
theorem eff_DUP (md : Module) (ins : Instr) (orc : Oracle) (s : Int) (h : ins.op = .DUP) : EffAt s (1) (exec md ins orc) := by exec_eff h

end Never.Vm
