/-
Modules (Model/SrcMod.lean): every unit is loaded once; qualification renames exactly the top-level binders of a unit.
-/
import NeverModel.Model.SrcMod
import NeverModel.Lemmas.SrcCollect
namespace Never.Src.Mod
open Never.Src

structure NodupAt (us : List Unit) (n : Nat) : Prop where
  v : ∀ stack acc x, acc.Nodup → (visit us n stack acc x).Nodup
  va : ∀ stack acc xs, acc.Nodup → (visitAll us n stack acc xs).Nodup

theorem nodupAt (us : List Unit) : ∀ n, NodupAt us n
  | 0 => ⟨fun _ _ _ h => by simpa [visit] using h, fun _ _ _ h => by simpa [visitAll] using h⟩
  | n + 1 => by
    have ih := nodupAt us n
    constructor
    · intro stack acc x h
      simp only [visit]
      split
      · exact h
      · split
        · exact h
        · rename_i u _
          have h' := ih.va (x :: stack) acc u.uses h
          split
          · exact h'
          · rename_i hx
            rw [List.nodup_append]
            refine ⟨h', by simp, ?_⟩
            intro a ha b hb
            simp at hb
            subst hb
            intro hab
            subst hab
            exact hx ha
    · intro stack acc xs h
      cases xs with
      | nil => simpa [visitAll] using h
      | cons x xs =>
        simp only [visitAll]
        exact ih.va stack _ xs (ih.v stack acc x h)

theorem loadOrder_nodup (us : List Unit) (main : Unit) : (loadOrder us main).Nodup :=
  (nodupAt us _).va [] [] main.uses List.nodup_nil

/-! ### qualification -/

theorem rnNames_qual (q : Name → Name → Name) (m : Name) (pairs : List (Name × Nat)) :
    ∀ (xs : List Name) (d : Nat), (∀ p ∈ idxFrom d xs, p ∈ pairs) → rnNames (qualNu q m pairs) d xs = xs.map (q m)
  | [], _, _ => rfl
  | x :: xs, d, h => by
    have hx : (x, d) ∈ pairs := h _ (by simp [idxFrom])
    have ih := rnNames_qual q m pairs xs (d + 1) (fun p hp => h p (by simp [idxFrom, hp]))
    simp only [rnNames, qualNu, hx, if_true, List.map_cons, ih]

theorem funcNames_length (fs : List Func) : (funcNames fs).length = fs.length := by
  induction fs with
  | nil => rfl
  | cons f fs ih => simp [funcNames, ih]

/-- the top-level binders of the renamed items are the qualified top-level binders, in order -/
theorem itemBinders_rnItems (q : Name → Name → Name) (m : Name) (pairs : List (Name × Nat)) :
    ∀ (items : List Item) (bs : List Name), (∀ p ∈ modDepths bs.length items, p ∈ pairs) →
      itemBinders (rnItems (qualNu q m pairs) bs items) = (itemBinders items).map (q m)
  | [], _, _ => rfl
  | .expr e :: rest, bs, h => by
    simp only [rnItems, itemBinders]
    exact itemBinders_rnItems q m pairs rest bs (fun p hp => h p (by simpa [modDepths] using hp))
  | .bind v x e :: rest, bs, h => by
    have hx : (x, bs.length) ∈ pairs := h _ (by simp [modDepths])
    have ih := itemBinders_rnItems q m pairs rest (x :: bs) (fun p hp => h p (by simp [modDepths]; exact Or.inr hp))
    simp only [rnItems, itemBinders, ih, List.map_cons, qualNu, hx, if_true]
  | .funcs fs :: rest, bs, h => by
    have h1 : ∀ p ∈ idxFrom bs.length (funcNames fs), p ∈ pairs := fun p hp => h p (by simp [modDepths]; exact Or.inl hp)
    have hlen : ((funcNames fs).reverse ++ bs).length = bs.length + fs.length := by
      simp [funcNames_length]; omega
    have ih := itemBinders_rnItems q m pairs rest ((funcNames fs).reverse ++ bs)
      (fun p hp => h p (by rw [hlen] at hp; simp [modDepths]; exact Or.inr hp))
    simp only [rnItems, itemBinders, ih, funcNames_rnFs, rnNames_qual q m pairs _ _ h1, List.map_append]

theorem itemBinders_qualItems (q : Name → Name → Name) (m : Name) (items : List Item) :
    itemBinders (qualItems q m items) = (itemBinders items).map (q m) :=
  itemBinders_rnItems q m _ items [] (fun _ hp => hp)

end Never.Src.Mod
