import NeverModel.Lemmas.VmEffectLoops
set_option linter.unusedSimpArgs false
set_option linter.unusedVariables false
/-! handlers that leave the instruction pointer alone and can only leave the running state by raising or stopping -/
namespace Never.Vm
open Never Never.Num

abbrev RunOk (r0 r1 : Nat) : Prop := r1 = r0 ∨ r1 = 2 ∨ r1 = 3

theorem RunOk.refl (r : Nat) : RunOk r r := Or.inl rfl
theorem RunOk.trans {a b c : Nat} (h1 : RunOk a b) (h2 : RunOk b c) : RunOk a c := by
  unfold RunOk at *; omega

/-- a computation that does not touch `ip` and leaves `running` as it was, or raises (2), or stops in VM_ERROR (3) -/
def KeepsIp {α} (f : M α) : Prop :=
  ∀ vm a vm', f.run vm = .ok (a, vm') → vm'.ip = vm.ip ∧ RunOk vm.running vm'.running

theorem KeepsIp.bind {α β} {f : M α} {g : α → M β} (hf : KeepsIp f) (hg : ∀ a, KeepsIp (g a)) : KeepsIp (f >>= g) := by
  intro vm b vm'' h
  obtain ⟨a, vm', h1, h2⟩ := (run_bind_ok f g vm vm'' b).mp h
  obtain ⟨a1, a2⟩ := hf vm a vm' h1
  obtain ⟨b1, b2⟩ := hg a vm' b vm'' h2
  exact ⟨b1.trans a1, a2.trans b2⟩

theorem KeepsIp.pure {α} (a : α) : KeepsIp (Pure.pure a : M α) := by
  intro vm b vm' h
  obtain ⟨_, rfl⟩ := (run_pure_ok a vm vm' b).mp h
  exact ⟨rfl, RunOk.refl _⟩

theorem kip_crash {α} (w : String) : KeepsIp (crash w : M α) := by
  intro vm a vm' h; simp [crash, throw, throwThe, MonadExceptOf.throw, StateT.run, StateT.lift, liftM, monadLift, MonadLift.monadLift, Except.bind, Bind.bind] at h

theorem kip_exit {α} (w : String) (o : List UInt8) : KeepsIp (exitVm w o : M α) := by
  intro vm a vm' h; simp [exitVm, throw, throwThe, MonadExceptOf.throw, StateT.run, StateT.lift, liftM, monadLift, MonadLift.monadLift, Except.bind, Bind.bind] at h

theorem kip_get : KeepsIp (get : M Vm) := by
  intro vm a vm' h
  simp [get, getThe, MonadStateOf.get, StateT.get, StateT.run, Pure.pure, Except.pure] at h
  obtain ⟨_, rfl⟩ := h; exact ⟨rfl, RunOk.refl _⟩

theorem KeepsIp.get_bind {β} (g : Vm → M β)
    (h : ∀ vm a vm', (g vm).run vm = .ok (a, vm') → vm'.ip = vm.ip ∧ RunOk vm.running vm'.running) : KeepsIp (get >>= g) := by
  intro vm b vm'' hr
  obtain ⟨a, vm', h1, h2⟩ := (run_bind_ok get g vm vm'' b).mp hr
  simp [get, getThe, MonadStateOf.get, StateT.get, StateT.run, Pure.pure, Except.pure] at h1
  obtain ⟨rfl, rfl⟩ := h1
  exact h _ _ _ h2

theorem kip_set_of (v0 vm : Vm) (h : v0.ip = vm.ip ∧ RunOk vm.running v0.running) (a : PUnit) (vm' : Vm)
    (hr : (set v0 : M PUnit).run vm = .ok (a, vm')) : vm'.ip = vm.ip ∧ RunOk vm.running vm'.running := by
  simp [set, StateT.set, StateT.run, Pure.pure, Except.pure] at hr
  obtain ⟨_, rfl⟩ := hr; exact h

theorem kip_modify (f : Vm → Vm) (hf : ∀ vm, (f vm).ip = vm.ip ∧ RunOk vm.running (f vm).running) : KeepsIp (modify f : M PUnit) := by
  intro v x v' h
  simp [modify, modifyGet, MonadStateOf.modifyGet, StateT.modifyGet, StateT.run, Pure.pure, Except.pure] at h
  obtain ⟨_, rfl⟩ := h
  exact hf v

theorem kip_rdSlot (i : Int) : KeepsIp (rdSlot i) := by
  unfold rdSlot
  apply KeepsIp.bind kip_get; intro vm
  split
  · exact kip_crash _
  · exact KeepsIp.pure _

theorem kip_wrSlot (i : Int) (s : Slot) : KeepsIp (wrSlot i s) := by
  unfold wrSlot
  apply KeepsIp.get_bind; intro vm a vm' h
  split at h
  · exact kip_crash _ _ _ _ h
  · exact kip_set_of _ vm (by exact ⟨rfl, RunOk.refl _⟩) _ _ h

theorem kip_alloc (o : Obj) : KeepsIp (alloc o) := by
  unfold alloc
  apply KeepsIp.get_bind; intro vm a vm' h
  split at h
  · exact kip_exit _ _ _ _ _ h
  · obtain ⟨u, v1, h1, h2⟩ := (run_bind_ok _ _ vm vm' a).mp h
    have k := kip_set_of _ vm (by exact ⟨rfl, RunOk.refl _⟩) _ _ h1
    obtain ⟨_, rfl⟩ := (run_pure_ok _ v1 vm' a).mp h2
    exact k

theorem kip_objOf (a : Nat) : KeepsIp (objOf a) := by
  unfold objOf
  apply KeepsIp.bind kip_get; intro vm
  split
  · exact kip_crash _
  · split
    · exact KeepsIp.pure _
    · exact kip_crash _

theorem kip_checkStack : KeepsIp checkStack := by
  unfold checkStack
  apply KeepsIp.bind kip_get; intro vm
  split
  · exact kip_exit _ _
  · exact KeepsIp.pure _

theorem kip_pushAddr (a : Nat) : KeepsIp (pushAddr a) := by
  intro vm u vm' h
  unfold Vm.pushAddr at h
  simp only [Bind.bind, StateT.bind, StateT.run, get, getThe, MonadStateOf.get, StateT.get, Pure.pure, StateT.pure, Except.pure, Except.bind] at h
  cases hp : pushP vm a with
  | error e =>
    rw [hp] at h
    simp [liftE, throw, throwThe, MonadExceptOf.throw, StateT.lift, liftM, monadLift, MonadLift.monadLift, Except.bind, Bind.bind] at h
  | ok v1 =>
    rw [hp] at h
    simp [liftE, set, StateT.set, Pure.pure, StateT.pure, Except.pure] at h
    obtain ⟨_, rfl⟩ := h
    unfold pushP checkP wrP at hp
    simp only [Bind.bind, Except.bind] at hp
    by_cases c1 : vm.sp + 1 ≥ vm.stackSize
    · simp [c1] at hp
    · simp only [c1, if_false] at hp
      split at hp
      · cases hp
      · cases hp; exact ⟨rfl, RunOk.refl _⟩

/-- automation for `KeepsIp` goals -/
syntax "kip" : tactic
macro_rules
  | `(tactic| kip) => `(tactic|
      first
      | with_reducible exact KeepsIp.pure _
      | with_reducible exact kip_crash _
      | with_reducible exact kip_exit _ _
      | with_reducible exact kip_get
      | with_reducible exact kip_rdSlot _
      | with_reducible exact kip_wrSlot _ _
      | with_reducible exact kip_alloc _
      | with_reducible exact kip_objOf _
      | with_reducible exact kip_checkStack
      | with_reducible exact kip_pushAddr _
      | with_reducible exact kip_modify _ (fun _ => ⟨rfl, Or.inl rfl⟩)
      | with_reducible exact kip_modify _ (fun _ => ⟨rfl, Or.inr (Or.inl rfl)⟩)
      | with_reducible exact kip_modify _ (fun _ => ⟨rfl, Or.inr (Or.inr rfl)⟩)
      | with_reducible apply_assumption (exfalso := false)
      | (with_reducible refine KeepsIp.bind ?hf (fun _ => ?hg); (case hf => kip); (case hg => kip))
      | (split <;> kip)
      | (dsimp only; kip))

theorem kip_rdAddr (i : Int) : KeepsIp (rdAddr i) := by unfold rdAddr; kip
theorem kip_getSp : KeepsIp getSp := by unfold getSp; kip
theorem kip_setSp (v : Int) : KeepsIp (setSp v) := by unfold setSp; kip
theorem kip_raise (e : Nat) : KeepsIp (raise e) := by unfold raise; kip
theorem kip_setObj (a : Nat) (o : Obj) : KeepsIp (setObj a o) := by unfold setObj; kip
theorem kip_emit (bs : List UInt8) : KeepsIp (emit bs) := by unfold emit; kip

macro_rules
  | `(tactic| kip) => `(tactic|
      first | with_reducible exact kip_rdAddr _ | with_reducible exact kip_getSp | with_reducible exact kip_setSp _
            | with_reducible exact kip_raise _ | with_reducible exact kip_setObj _ _ | with_reducible exact kip_emit _)

theorem kip_getInt (a : Nat) : KeepsIp (getInt a) := by unfold getInt; kip
theorem kip_getLong (a : Nat) : KeepsIp (getLong a) := by unfold getLong; kip
theorem kip_getFloat (a : Nat) : KeepsIp (getFloat a) := by unfold getFloat; kip
theorem kip_getDouble (a : Nat) : KeepsIp (getDouble a) := by unfold getDouble; kip
theorem kip_getChar (a : Nat) : KeepsIp (getChar a) := by unfold getChar; kip
theorem kip_getStr (a : Nat) : KeepsIp (getStr a) := by unfold getStr; kip
theorem kip_getStrRef (a : Nat) : KeepsIp (getStrRef a) := by unfold getStrRef; kip
theorem kip_getVecRef (a : Nat) : KeepsIp (getVecRef a) := by unfold getVecRef; kip
theorem kip_getArrRef (a : Nat) : KeepsIp (getArrRef a) := by unfold getArrRef; kip
theorem kip_getVecObj (a : Nat) : KeepsIp (getVecObj a) := by unfold getVecObj; kip
theorem kip_getArrObj (a : Nat) : KeepsIp (getArrObj a) := by unfold getArrObj; kip
theorem kip_getFunc (a : Nat) : KeepsIp (getFunc a) := by unfold getFunc; kip
theorem kip_getCPtr (a : Nat) : KeepsIp (getCPtr a) := by unfold getCPtr; kip

macro_rules
  | `(tactic| kip) => `(tactic|
      first | with_reducible exact kip_getInt _ | with_reducible exact kip_getLong _ | with_reducible exact kip_getFloat _
            | with_reducible exact kip_getDouble _ | with_reducible exact kip_getChar _ | with_reducible exact kip_getStr _
            | with_reducible exact kip_getStrRef _ | with_reducible exact kip_getVecRef _ | with_reducible exact kip_getArrRef _
            | with_reducible exact kip_getVecObj _ | with_reducible exact kip_getArrObj _ | with_reducible exact kip_getFunc _
            | with_reducible exact kip_getCPtr _)

theorem kip_scalarOf (ty : NTy) (a : Nat) : KeepsIp (scalarOf ty a) := by unfold scalarOf; cases ty <;> simp only <;> kip
theorem kip_resOf (r : NRes) : KeepsIp (resOf r) := by unfold resOf; kip
theorem kip_okVal (r : NRes) : KeepsIp (okVal r) := by unfold okVal; kip
theorem kip_getVec (a i : Nat) : KeepsIp (getVec a i) := by unfold getVec; kip
theorem kip_setVec (a i v : Nat) : KeepsIp (setVec a i v) := by unfold setVec; kip
theorem kip_getArrElem (a i : Nat) : KeepsIp (getArrElem a i) := by unfold getArrElem; kip
theorem kip_setArrElem (a i v : Nat) : KeepsIp (setArrElem a i v) := by unfold setArrElem; kip
theorem kip_allocArr (e : List Nat) : KeepsIp (allocArr e) := by unfold allocArr; kip

macro_rules
  | `(tactic| kip) => `(tactic|
      first | with_reducible exact kip_scalarOf _ _ | with_reducible exact kip_resOf _ | with_reducible exact kip_okVal _
            | with_reducible exact kip_getVec _ _ | with_reducible exact kip_setVec _ _ _ | with_reducible exact kip_getArrElem _ _
            | with_reducible exact kip_setArrElem _ _ _ | with_reducible exact kip_allocArr _)

theorem kip_rangePair (r d : Nat) : KeepsIp (rangePair r d) := by unfold rangePair; kip
theorem kip_feCheck (orc : Oracle) : KeepsIp (feCheck orc) := by unfold feCheck; kip

macro_rules
  | `(tactic| kip) => `(tactic| first | with_reducible exact kip_rangePair _ _ | with_reducible exact kip_feCheck _)


theorem kip_allocEach (o : Obj) (n : Nat) : KeepsIp (allocEach o n) := by
  induction n with
  | zero => unfold allocEach; kip
  | succ n ih => unfold allocEach; kip

theorem kip_mapElems (ty : NTy) (f : NVal → M NVal) (hf : ∀ v, KeepsIp (f v)) (es : List Nat) : KeepsIp (mapElems ty f es) := by
  induction es with
  | nil => unfold mapElems; kip
  | cons e es ih => unfold mapElems; kip

theorem kip_zipArith (ty : NTy) (bop : BinOp) (xs ys : List Nat) : KeepsIp (zipArith ty bop xs ys) := by
  induction xs generalizing ys with
  | nil => unfold zipArith; kip
  | cons x xs ih =>
    cases ys with
    | nil => unfold zipArith; kip
    | cons y ys => unfold zipArith; have := ih ys; kip

theorem kip_dotSum (ty : NTy) (es1 es2 : List Nat) (i j inner cols k n : Nat) (acc : NVal) :
    KeepsIp (dotSum ty es1 es2 i j inner cols k n acc) := by
  induction n generalizing k acc with
  | zero => unfold dotSum; kip
  | succ n ih => unfold dotSum; kip

theorem kip_matCols (ty : NTy) (es1 es2 : List Nat) (mres i inner cols j m : Nat) :
    KeepsIp (matCols ty es1 es2 mres i inner cols j m) := by
  induction m generalizing j with
  | zero => unfold matCols; kip
  | succ m ih => unfold matCols; have := kip_dotSum ty es1 es2 i j inner cols 0 inner (zeroOf ty); kip

theorem kip_matRows (ty : NTy) (es1 es2 : List Nat) (mres inner cols i n : Nat) :
    KeepsIp (matRows ty es1 es2 mres inner cols i n) := by
  induction n generalizing i with
  | zero => unfold matRows; kip
  | succ n ih => unfold matRows; have := kip_matCols ty es1 es2 mres i inner cols 0 cols; kip

theorem kip_composeRanges (r1 r2 res d n : Nat) : KeepsIp (composeRanges r1 r2 res d n) := by
  induction n generalizing d with
  | zero => unfold composeRanges; kip
  | succ n ih => unfold composeRanges; kip

theorem kip_rangePairs (r d n : Nat) : KeepsIp (rangePairs r d n) := by
  induction n generalizing d with
  | zero => unfold rangePairs; kip
  | succ n ih => unfold rangePairs; kip

theorem kip_unpackLoop (sp : Int) (fs : List Nat) (size i : Nat) : KeepsIp (unpackLoop sp fs size i) := by
  induction i with
  | zero => unfold unpackLoop; kip
  | succ i ih => unfold unpackLoop; kip

theorem kip_popAddrs (n : Nat) : KeepsIp (popAddrs n) := by
  induction n with
  | zero => unfold popAddrs; kip
  | succ n ih => unfold popAddrs; kip

theorem kip_popInts (n : Nat) : KeepsIp (popInts n) := by
  induction n with
  | zero => unfold popInts; kip
  | succ n ih => unfold popInts; kip

theorem kip_popExts (n : Nat) : KeepsIp (popExts n) := by
  induction n with
  | zero => unfold popExts; kip
  | succ n ih => unfold popExts; kip

theorem kip_popIndices (n : Nat) : KeepsIp (popIndices n) := by
  induction n with
  | zero => unfold popIndices; kip
  | succ n ih => unfold popIndices; kip

theorem kip_rangeDerefLoop (range array d n : Nat) : KeepsIp (rangeDerefLoop range array d n) := by
  induction n generalizing d with
  | zero => unfold rangeDerefLoop; kip
  | succ n ih => unfold rangeDerefLoop; kip

theorem kip_allocLoop (n : Nat) : KeepsIp (allocLoop n) := by
  induction n with
  | zero => unfold allocLoop; kip
  | succ n ih => unfold allocLoop; kip

macro_rules
  | `(tactic| kip) => `(tactic|
      first
      | with_reducible exact kip_allocEach _ _ | with_reducible exact kip_zipArith _ _ _ _
      | with_reducible exact kip_dotSum _ _ _ _ _ _ _ _ _ _ | with_reducible exact kip_matCols _ _ _ _ _ _ _ _ _
      | with_reducible exact kip_matRows _ _ _ _ _ _ _ _ | with_reducible exact kip_composeRanges _ _ _ _ _
      | with_reducible exact kip_rangePairs _ _ _ | with_reducible exact kip_unpackLoop _ _ _ _
      | with_reducible exact kip_popAddrs _ | with_reducible exact kip_popInts _ | with_reducible exact kip_popExts _
      | with_reducible exact kip_popIndices _ | with_reducible exact kip_rangeDerefLoop _ _ _ _ | with_reducible exact kip_allocLoop _
      | (with_reducible refine kip_mapElems _ _ (fun _ => ?hf) _; (case hf => kip)))

theorem kip_execBin (ty : NTy) (bop : BinOp) : KeepsIp (execBin ty bop) := by unfold execBin; kip
theorem kip_execUn (ty : NTy) (uop : UnOp) : KeepsIp (execUn ty uop) := by unfold execUn; kip
theorem kip_execConv (src dst : NTy) : KeepsIp (execConv src dst) := by unfold execConv; kip

set_option maxRecDepth 16000 in
set_option maxHeartbeats 4000000 in
theorem kip_buildIn (id : Nat) (orc : Oracle) : KeepsIp (buildIn id orc) := by unfold buildIn; kip

/-- selects the handler of a concrete opcode inside `exec` and runs the `kip` automation -/
macro "exec_kip" h:ident : tactic => `(tactic|
  (unfold exec
   simp only [$h:ident, binOpOf, unOpOf, convOf, nilCmpOf, strAddOf, arrOpOf, mkArrayElem]
   kip))

end Never.Vm
