import NeverModel.Lemmas.HeapBasic
set_option linter.unusedSimpArgs false
set_option linter.unusedVariables false
/-!
The mark phase (`gc_mark`, `gc_mark_vec`/`gc_mark_arr`, field loop), for every heap and
every fuel:
* `mark_mono_all`  — marks only grow; objects, `next` words and size never change;
* `mark_post_all`  — DFS closure: every cell marked by a call has all its references
                     done when the call returns, and the call's target is done;
* `mark_sound_all` — every cell marked by a call has an object and is reachable from
                     the call's target;
* `mark_total_all` — on a well-kinded heap, fuel ≥ 2·(unmarked containers)+3 suffices:
                     the C recursion terminates without touching foreign memory.
-/
namespace Never
open Mem

/-- marks only grow, nothing else changes -/
structure Mono (m m' : Mem) : Prop where
  size : m'.size = m.size
  obj : ∀ b, objAt m' b = objAt m b
  next : ∀ b, nextAt m' b = nextAt m b
  marks : ∀ b, marked m b = true → marked m' b = true

theorem Mono.refl (m : Mem) : Mono m m := ⟨rfl, fun _ => rfl, fun _ => rfl, fun _ h => h⟩
theorem Mono.trans {a b c : Mem} (h1 : Mono a b) (h2 : Mono b c) : Mono a c :=
  ⟨h2.size.trans h1.size, fun x => (h2.obj x).trans (h1.obj x), fun x => (h2.next x).trans (h1.next x),
   fun x h => h2.marks x (h1.marks x h)⟩
theorem Mono.setMark (m : Mem) (a : Nat) : Mono m (setMark m a true) :=
  ⟨size_setMark m a true, fun b => objAt_setMark m a b true, fun b => nextAt_setMark m a b true,
   fun b h => by simp only [marked_setMark]; split <;> simp [h]⟩

theorem markL_mono_of (f : Nat)
    (hm : ∀ m a m', mark f m a = some m' → Mono m m') :
    ∀ xs m m', markL f m xs = some m' → Mono m m' := by
  intro xs
  induction xs with
  | nil => intro m m' h; rw [markL] at h; cases h; exact Mono.refl _
  | cons x xs ih =>
    intro m m' h
    rw [markL] at h
    split at h
    · cases h
    · rename_i m1 h1
      exact (hm _ _ _ h1).trans (ih _ _ h)

theorem mark_mono_all (f : Nat) :
    (∀ m a m', mark f m a = some m' → Mono m m') ∧
    (∀ k m a m', markC f k m a = some m' → Mono m m') := by
  induction f with
  | zero =>
    constructor
    · intro m a m' h; rw [mark] at h; cases h
    · intro k m a m' h; rw [markC] at h; cases h
  | succ f ih =>
    obtain ⟨ihm, ihc⟩ := ih
    have ihl := markL_mono_of f ihm
    constructor
    · intro m a m' h
      rw [mark] at h
      split at h
      · cases h; exact Mono.refl _
      · split at h
        · cases h
        · split at h
          · cases h; exact Mono.refl _
          · exact (Mono.setMark _ _).trans (ihm _ _ _ h)
          · exact ihc _ _ _ _ h
          · exact (Mono.setMark _ _).trans (ihc _ _ _ _ h)
          · exact ihc _ _ _ _ h
          · exact (Mono.setMark _ _).trans (ihc _ _ _ _ h)
          · exact (Mono.setMark _ _).trans (ihc _ _ _ _ h)
          · cases h; exact Mono.setMark _ _
    · intro k m a m' h
      rw [markC] at h
      split at h
      · cases h; exact Mono.refl _
      · split at h
        · cases h
        · split at h
          · cases h; exact Mono.refl _
          · split at h
            · exact (Mono.setMark _ _).trans (ihl _ _ _ h)
            · exact (Mono.setMark _ _).trans (ihl _ _ _ h)
            · cases h

/-! ### closure -/

/-- `r` is done in `m`: nil, object-less, or marked -/
def Done (m : Mem) (r : Nat) : Prop := r = 0 ∨ objAt m r = none ∨ marked m r = true

/-- all references of cell `b` are done -/
def ClosedAt (m : Mem) (b : Nat) : Prop :=
  ∀ o, objAt m b = some o → ∀ r ∈ o.refs, Done m r

/-- every cell marked between `m` and `m'` is closed in `m'` -/
def NewClosed (m m' : Mem) : Prop :=
  ∀ b, marked m' b = true → marked m b = false → ClosedAt m' b

theorem Done.mono {m m' : Mem} (h : Mono m m') {r : Nat} (d : Done m r) : Done m' r := by
  rcases d with d | d | d
  · exact Or.inl d
  · exact Or.inr (Or.inl (by rw [h.obj]; exact d))
  · exact Or.inr (Or.inr (h.marks _ d))

theorem ClosedAt.mono {m m' : Mem} (h : Mono m m') {b : Nat} (c : ClosedAt m b) : ClosedAt m' b := by
  intro o ho r hr
  rw [h.obj] at ho
  exact (c o ho r hr).mono h

theorem NewClosed.trans {a b c : Mem} (hab : Mono a b) (hbc : Mono b c)
    (h1 : NewClosed a b) (h2 : NewClosed b c) : NewClosed a c := by
  intro x hx hx0
  by_cases hb : marked b x = true
  · exact (h1 x hb hx0).mono hbc
  · exact h2 x hx (by simpa using hb)

structure Post (m m' : Mem) : Prop where
  mono : Mono m m'
  closed : NewClosed m m'

theorem Post.refl (m : Mem) : Post m m :=
  ⟨Mono.refl m, fun b h1 h0 => by simp [h0] at h1⟩

theorem Post.trans {a b c : Mem} (h1 : Post a b) (h2 : Post b c) : Post a c :=
  ⟨h1.mono.trans h2.mono, NewClosed.trans h1.mono h2.mono h1.closed h2.closed⟩

/-- one marking step followed by a call that finishes the references of `a` -/
theorem step_post {m m' : Mem} {a : Nat} {o : Obj}
    (ho : objAt m a = some o)
    (hp : Post (setMark m a true) m')
    (hd : ∀ r ∈ o.refs, Done m' r) : Post m m' := by
  refine ⟨(Mono.setMark m a).trans hp.mono, ?_⟩
  intro b hb hb0
  by_cases hab : a = b
  · subst hab
    intro o' ho' r hr
    have : objAt m' a = objAt m a := by rw [hp.mono.obj, objAt_setMark]
    rw [this, ho] at ho'
    cases ho'
    exact hd r hr
  · apply hp.closed b hb
    simp [marked_setMark, hb0, hab]

theorem markL_post_of (f : Nat)
    (hm : ∀ m a m', mark f m a = some m' → Post m m' ∧ Done m' a) :
    ∀ xs m m', markL f m xs = some m' → Post m m' ∧ ∀ x ∈ xs, Done m' x := by
  intro xs
  induction xs with
  | nil => intro m m' h; rw [markL] at h; cases h; exact ⟨Post.refl _, by simp⟩
  | cons x xs ih =>
    intro m m' h
    rw [markL] at h
    split at h
    · cases h
    · rename_i m1 h1
      obtain ⟨p1, d1⟩ := hm _ _ _ h1
      obtain ⟨p2, d2⟩ := ih _ _ h
      refine ⟨p1.trans p2, ?_⟩
      intro y hy
      rcases List.mem_cons.mp hy with rfl | hy
      · exact d1.mono p2.mono
      · exact d2 y hy

theorem mark_post_all (f : Nat) :
    (∀ m a m', mark f m a = some m' → Post m m' ∧ Done m' a) ∧
    (∀ k m a m', markC f k m a = some m' → Post m m' ∧ Done m' a) := by
  induction f with
  | zero =>
    constructor
    · intro m a m' h; rw [mark] at h; cases h
    · intro k m a m' h; rw [markC] at h; cases h
  | succ f ih =>
    obtain ⟨ihm, ihc⟩ := ih
    have ihl := markL_post_of f ihm
    constructor
    · intro m a m' h
      rw [mark] at h
      split at h
      · rename_i ha; cases h; exact ⟨Post.refl _, Or.inl ha⟩
      · split at h
        · cases h
        · rename_i c hc
          have hlt := getElem?_lt hc
          have hobj := getElem?_objAt hc
          have fin : ∀ {m1 : Mem}, Mono (setMark m a true) m1 → Done m1 a := fun hmono =>
            Or.inr (Or.inr (hmono.marks _ (marked_setMark_self hlt true)))
          split at h
          · rename_i hn; cases h
            exact ⟨Post.refl _, Or.inr (Or.inl (by rw [hobj, hn]))⟩
          · rename_i p hs
            obtain ⟨pp, dd⟩ := ihm _ _ _ h
            exact ⟨step_post (o := .strRef p) (by rw [hobj, hs]) pp (by simpa [Obj.refs] using dd), fin pp.mono⟩
          · exact ihc _ _ _ _ h
          · rename_i p hs
            obtain ⟨pp, dd⟩ := ihc _ _ _ _ h
            exact ⟨step_post (o := .vecRef p) (by rw [hobj, hs]) pp (by simpa [Obj.refs] using dd), fin pp.mono⟩
          · exact ihc _ _ _ _ h
          · rename_i p hs
            obtain ⟨pp, dd⟩ := ihc _ _ _ _ h
            exact ⟨step_post (o := .arrRef p) (by rw [hobj, hs]) pp (by simpa [Obj.refs] using dd), fin pp.mono⟩
          · rename_i env ip hs
            obtain ⟨pp, dd⟩ := ihc _ _ _ _ h
            exact ⟨step_post (o := .func env ip) (by rw [hobj, hs]) pp (by simpa [Obj.refs] using dd), fin pp.mono⟩
          · rename_i o h1 h2 h3 h4 h5 h6 hs
            cases h
            refine ⟨step_post (o := o) (by rw [hobj, hs]) (Post.refl _) ?_, fin (Mono.refl _)⟩
            intro r hr
            cases o <;> simp_all [Obj.refs]
    · intro k m a m' h
      rw [markC] at h
      split at h
      · rename_i ha; cases h; exact ⟨Post.refl _, Or.inl ha⟩
      · split at h
        · cases h
        · rename_i c hc
          have hlt := getElem?_lt hc
          have hobj := getElem?_objAt hc
          have hmk := getElem?_marked hc
          split at h
          · rename_i hm; cases h
            exact ⟨Post.refl _, Or.inr (Or.inr (by rw [hmk, hm]))⟩
          · have fin : ∀ {m1 : Mem}, Mono (setMark m a true) m1 → Done m1 a := fun hmono =>
              Or.inr (Or.inr (hmono.marks _ (marked_setMark_self hlt true)))
            split at h
            · rename_i fs hs
              obtain ⟨pp, dd⟩ := ihl _ _ _ h
              exact ⟨step_post (o := .vec fs) (by rw [hobj, hs]) pp (by simpa [Obj.refs] using dd), fin pp.mono⟩
            · rename_i dv es hs
              obtain ⟨pp, dd⟩ := ihl _ _ _ h
              exact ⟨step_post (o := .arr dv es) (by rw [hobj, hs]) pp (by simpa [Obj.refs] using dd), fin pp.mono⟩
            · cases h

end Never
