import NeverModel.Lemmas.VmStk
set_option linter.unusedSimpArgs false
set_option linter.unusedVariables false
/-! per-opcode: the handler leaves the size of the stack array alone (generated list) -/
namespace Never.Vm
open Never Never.Num

set_option maxRecDepth 8000 in
theorem kstop_INT (md : Module) (ins : Instr) (orc : Oracle) (h : ins.op = .INT) : KeepsStk (exec md ins orc) := by exec_kst h

set_option maxRecDepth 8000 in
theorem kstop_LONG (md : Module) (ins : Instr) (orc : Oracle) (h : ins.op = .LONG) : KeepsStk (exec md ins orc) := by exec_kst h

set_option maxRecDepth 8000 in
theorem kstop_FLOAT (md : Module) (ins : Instr) (orc : Oracle) (h : ins.op = .FLOAT) : KeepsStk (exec md ins orc) := by exec_kst h

set_option maxRecDepth 8000 in
theorem kstop_DOUBLE (md : Module) (ins : Instr) (orc : Oracle) (h : ins.op = .DOUBLE) : KeepsStk (exec md ins orc) := by exec_kst h

set_option maxRecDepth 8000 in
theorem kstop_CHAR (md : Module) (ins : Instr) (orc : Oracle) (h : ins.op = .CHAR) : KeepsStk (exec md ins orc) := by exec_kst h

set_option maxRecDepth 8000 in
theorem kstop_STRING (md : Module) (ins : Instr) (orc : Oracle) (h : ins.op = .STRING) : KeepsStk (exec md ins orc) := by exec_kst h

set_option maxRecDepth 8000 in
theorem kstop_C_NULL (md : Module) (ins : Instr) (orc : Oracle) (h : ins.op = .C_NULL) : KeepsStk (exec md ins orc) := by exec_kst h

set_option maxRecDepth 8000 in
theorem kstop_ID_TOP (md : Module) (ins : Instr) (orc : Oracle) (h : ins.op = .ID_TOP) : KeepsStk (exec md ins orc) := by exec_kst h

set_option maxRecDepth 8000 in
theorem kstop_ID_LOCAL (md : Module) (ins : Instr) (orc : Oracle) (h : ins.op = .ID_LOCAL) : KeepsStk (exec md ins orc) := by exec_kst h

set_option maxRecDepth 8000 in
theorem kstop_ID_DIM_LOCAL (md : Module) (ins : Instr) (orc : Oracle) (h : ins.op = .ID_DIM_LOCAL) : KeepsStk (exec md ins orc) := by exec_kst h

set_option maxRecDepth 8000 in
theorem kstop_ID_DIM_SLICE (md : Module) (ins : Instr) (orc : Oracle) (h : ins.op = .ID_DIM_SLICE) : KeepsStk (exec md ins orc) := by exec_kst h

set_option maxRecDepth 8000 in
theorem kstop_ID_GLOBAL (md : Module) (ins : Instr) (orc : Oracle) (h : ins.op = .ID_GLOBAL) : KeepsStk (exec md ins orc) := by exec_kst h

set_option maxRecDepth 8000 in
theorem kstop_OP_DUP_INT (md : Module) (ins : Instr) (orc : Oracle) (h : ins.op = .OP_DUP_INT) : KeepsStk (exec md ins orc) := by exec_kst h

set_option maxRecDepth 8000 in
theorem kstop_COPYGLOB (md : Module) (ins : Instr) (orc : Oracle) (h : ins.op = .COPYGLOB) : KeepsStk (exec md ins orc) := by exec_kst h

set_option maxRecDepth 8000 in
theorem kstop_NIL_RECORD_REF (md : Module) (ins : Instr) (orc : Oracle) (h : ins.op = .NIL_RECORD_REF) : KeepsStk (exec md ins orc) := by exec_kst h

set_option maxRecDepth 8000 in
theorem kstop_PUSH_EXCEPT (md : Module) (ins : Instr) (orc : Oracle) (h : ins.op = .PUSH_EXCEPT) : KeepsStk (exec md ins orc) := by exec_kst h

set_option maxRecDepth 8000 in
theorem kstop_VEC_DEREF (md : Module) (ins : Instr) (orc : Oracle) (h : ins.op = .VEC_DEREF) : KeepsStk (exec md ins orc) := by exec_kst h

set_option maxRecDepth 8000 in
theorem kstop_VECREF_VEC_DEREF (md : Module) (ins : Instr) (orc : Oracle) (h : ins.op = .VECREF_VEC_DEREF) : KeepsStk (exec md ins orc) := by exec_kst h

set_option maxRecDepth 8000 in
theorem kstop_DUP (md : Module) (ins : Instr) (orc : Oracle) (h : ins.op = .DUP) : KeepsStk (exec md ins orc) := by exec_kst h

set_option maxRecDepth 8000 in
theorem kstop_ID_FUNC_ADDR (md : Module) (ins : Instr) (orc : Oracle) (h : ins.op = .ID_FUNC_ADDR) : KeepsStk (exec md ins orc) := by exec_kst h

set_option maxRecDepth 8000 in
theorem kstop_ID_FUNC_ENTRY (md : Module) (ins : Instr) (orc : Oracle) (h : ins.op = .ID_FUNC_ENTRY) : KeepsStk (exec md ins orc) := by exec_kst h

set_option maxRecDepth 8000 in
theorem kstop_ENUMTYPE_RECORD_TO_INT (md : Module) (ins : Instr) (orc : Oracle) (h : ins.op = .ENUMTYPE_RECORD_TO_INT) : KeepsStk (exec md ins orc) := by exec_kst h

end Never.Vm
