import NeverModel.Lemmas.CheckCtx
set_option linter.unusedSimpArgs false
set_option linter.unusedVariables false
/-! # `check` is compositional: errors propagate through every frame -/
namespace Never.Tc

/-- `m >>= fun _ => pure Γ` is ok iff `m` is -/
theorem seq_pure_ok {α} {m : Except Diag α} {Γ Γ' : Env} (h : (m >>= fun _ => (pure Γ : Except Diag Env)) = .ok Γ') :
    (∃ a, m = .ok a) ∧ Γ' = Γ := by
  cases m with
  | error d => simp at h
  | ok a => simp at h; exact ⟨⟨a, rfl⟩, h.symm⟩

theorem Frame.plug_error (F : Frame) (Γ Γ' : Env) (e : Expr) (d : Diag)
    (henv : F.env Γ = .ok Γ') (he : tc Γ' e = .error d) : tc Γ (F.plug e) = .error d := by
  cases F with
  | enumVal ln item => simp [Frame.env] at henv; subst henv; simp [Frame.plug, tc, he]
  | un ln op => simp [Frame.env] at henv; subst henv; simp [Frame.plug, tc, he]
  | binL ln op r => simp [Frame.env] at henv; subst henv; simp [Frame.plug, tc, he]
  | binR ln op l =>
    obtain ⟨⟨a, h1⟩, rfl⟩ := seq_pure_ok (by simpa [Frame.env] using henv)
    simp [Frame.plug, tc, h1, he]
  | sup ln => simp [Frame.env] at henv; subst henv; simp [Frame.plug, tc, he]
  | condC ln t e' => simp [Frame.env] at henv; subst henv; simp [Frame.plug, tc, he]
  | condT ln c e' =>
    obtain ⟨⟨a, h1⟩, rfl⟩ := seq_pure_ok (by simpa [Frame.env] using henv)
    simp [Frame.plug, tc, h1, he]
  | condE ln c t =>
    simp only [Frame.env] at henv
    cases h1 : tc Γ c with
    | error d' => simp [h1] at henv
    | ok a =>
      cases h2 : tc Γ t with
      | error d' => simp [h1, h2] at henv
      | ok b => simp [h1, h2] at henv; subst henv; simp [Frame.plug, tc, h1, h2, he]
  | assL ln r => simp [Frame.env] at henv; subst henv; simp [Frame.plug, tc, he]
  | assR ln l =>
    obtain ⟨⟨a, h1⟩, rfl⟩ := seq_pure_ok (by simpa [Frame.env] using henv)
    simp [Frame.plug, tc, h1, he]
  | whileC ln b => simp [Frame.env] at henv; subst henv; simp [Frame.plug, tc, he]
  | whileB ln c =>
    obtain ⟨⟨a, h1⟩, rfl⟩ := seq_pure_ok (by simpa [Frame.env] using henv)
    simp [Frame.plug, tc, h1, he]
  | forInA ln x b => simp [Frame.env] at henv; subst henv; simp [Frame.plug, tc, he]
  | forInB ln x a =>
    simp only [Frame.env] at henv
    cases h1 : tc Γ a with
    | error d' => simp [h1] at henv
    | ok ca =>
      simp only [h1, bind_ok] at henv
      simp only [Frame.plug, tc, h1, bind_ok]
      cases hit : forinIter ca with
      | none => simp [hit] at henv
      | some it =>
        simp [hit] at henv; subst henv
        simp [he]
  | callF ln args => simp [Frame.env] at henv; subst henv; simp [Frame.plug, tc, he]
  | callA ln f pre post =>
    simp only [Frame.env] at henv
    cases h1 : tc Γ f with
    | error d' => simp [h1] at henv
    | ok cf =>
      cases h2 : tcArgs Γ pre with
      | error d' => simp [h1, h2] at henv
      | ok cs =>
        simp [h1, h2] at henv; subst henv
        simp [Frame.plug, tc, h1, tcArgs_app_error Γ e post d he pre cs h2]
  | attr ln fld => simp [Frame.env] at henv; subst henv; simp [Frame.plug, tc, he]
  | matchS ln gs => simp [Frame.env] at henv; subst henv; simp [Frame.plug, tc, he]
  | matchArm ln s pre k post =>
    simp only [Frame.env] at henv
    cases h1 : tc Γ s with
    | error d' => simp [h1] at henv
    | ok cs =>
      simp only [h1, bind_ok] at henv
      split at henv
      · rename_i en hct
        cases h2 : tcGuards Γ pre with
        | error d' => simp [h2] at henv
        | ok arms =>
          cases h3 : k.pre Γ with
          | error d' => simp [h2, h3] at henv
          | ok u =>
            simp [h2, h3] at henv; subst henv
            have hg := tcGuards_app_error Γ (.cons (k.mk e) post) d
              (tcGuards_head_error Γ k e post d h3 he) pre arms h2
            simp only [Frame.plug, tc, h1, bind_ok, hct]
            cases pre <;> simp [GuardList.app] at hg ⊢ <;> simp [hg]
      · simp at henv
  | arrayE ln pre post ec ety =>
    obtain ⟨⟨cs, h1⟩, rfl⟩ := seq_pure_ok (by simpa [Frame.env] using henv)
    simp [Frame.plug, tc, tcRows_app_error Γ' e post d he pre cs h1]
  | derefA ln idx => simp [Frame.env] at henv; subst henv; simp [Frame.plug, tc, he]
  | derefI ln a pre post =>
    simp only [Frame.env] at henv
    cases h1 : tc Γ a with
    | error d' => simp [h1] at henv
    | ok ca =>
      cases h2 : tcArgs Γ pre with
      | error d' => simp [h1, h2] at henv
      | ok cs =>
        simp [h1, h2] at henv; subst henv
        simp [Frame.plug, tc, h1, tcArgs_app_error Γ e post d he pre cs h2]
  | lcE ln qs rc rty =>
    simp only [Frame.env] at henv
    simp [Frame.plug, tc, henv, he]
  | lcQ ln e' pre k post rc rty =>
    simp only [Frame.env] at henv
    simp [Frame.plug, tc, tcQuals_app, henv, tcQuals_head_error _ k e post d he]
  | seqBind ln pre bln v x post =>
    simp only [Frame.env] at henv
    have : tcSeq Γ' (.cons (.bind bln v x e) post) = .error d := by simp [tcSeq, he]
    simp [Frame.plug, tc, tcSeq_app_error pre Γ.push Γ' _ d henv this]
  | seqExpr ln pre post =>
    simp only [Frame.env] at henv
    have : tcSeq Γ' (.cons (.expr e) post) = .error d := by simp [tcSeq, he]
    simp [Frame.plug, tc, tcSeq_app_error pre Γ.push Γ' _ d henv this]
  | seqFunc ln pre fpre h fpost post =>
    simp only [Frame.env] at henv
    cases h1 : seqEnv Γ.push pre with
    | error d' => simp [h1] at henv
    | ok Γ1 =>
      simp only [h1, bind_ok] at henv
      cases h2 : declFuncs Γ1 fpre with
      | error d' => simp [h2] at henv
      | ok p =>
        obtain ⟨Γa, spre⟩ := p
        simp only [h2, bind_ok] at henv
        cases h3 : declFuncs Γa (.cons (h.plug default) fpost) with
        | error d' => simp [h3] at henv
        | ok q =>
          obtain ⟨Γ2, srest⟩ := q
          simp only [h3, bind_ok] at henv
          cases srest with
          | nil =>
            -- impossible: the declaration pass returns one signature per function
            have := declFuncs_length _ _ _ _ h3
            simp [FuncList.length] at this
          | cons s spost =>
            simp only at henv
            cases h4 : tcBodies Γ2 fpre spre with
            | error d' => simp [h4] at henv
            | ok u =>
              cases h5 : h.pre (funcEnv Γ2 h.name s) s with
              | error d' => simp [h4, h5] at henv
              | ok u' =>
                simp [h4, h5] at henv; subst henv
                have hrest : tcBodies Γ2 (.cons (h.plug e) fpost) (s :: spost) = .error d := by
                  simp [tcBodies, FuncHole.plug_error _ s h e d h5 he]
                have hlen := declFuncs_length _ _ _ _ h2
                have hb := tcBodies_app_error Γ2 _ _ d hrest fpre spre hlen h4
                have hdecl : declFuncs Γ1 (fpre.app (.cons (h.plug e) fpost)) = .ok (Γ2, spre ++ s :: spost) := by
                  rw [declFuncs_app, h2]
                  simp only [bind_ok]
                  rw [declFuncs_plug h e default, h3]
                  rfl
                have : tcSeq Γ1 (.cons (.funcs (fpre.app (.cons (h.plug e) fpost))) post) = .error d := by
                  simp [tcSeq, hdecl, hb]
                simp [Frame.plug, tc, tcSeq_app_error pre Γ.push Γ1 _ d h1 this]
  | funcLit h =>
    simp only [Frame.env] at henv
    cases h1 : declFunc Γ h.name h.params h.rc h.rty with
    | error d' => simp [h1] at henv
    | ok s =>
      cases h2 : h.pre (funcEnv Γ h.name s) s with
      | error d' => simp [h1, h2] at henv
      | ok u =>
        simp [h1, h2] at henv; subst henv
        simp [Frame.plug, tc, h1, FuncHole.plug_error _ s h e d h2 he]

  | tupleE ln pre post ms =>
    obtain ⟨⟨cs, h1⟩, rfl⟩ := seq_pure_ok (by simpa [Frame.env] using henv)
    simp [Frame.plug, tc, tcArgs_app_error Γ' e post d he pre cs h1]
  | projE ln iln i => simp [Frame.env] at henv; subst henv; simp [Frame.plug, tc, he]
  | rangeF ln ps t post =>
    obtain ⟨⟨n, h1⟩, rfl⟩ := seq_pure_ok (by simpa [Frame.env] using henv)
    simp [Frame.plug, tc, tcBounds_flat_error Γ' _ d (tcBounds_from_error Γ' e t post d he) ps n h1]
  | rangeT ln ps f post =>
    simp only [Frame.env] at henv
    cases h1 : tcBounds Γ (flatPairs ps .nil) with
    | error d' => simp [h1] at henv
    | ok n =>
      cases h2 : tc Γ f with
      | error d' => simp [h1, h2] at henv
      | ok cf =>
        simp [h1, h2] at henv; subst henv
        simp [Frame.plug, tc, tcBounds_flat_error Γ _ d (tcBounds_to_error Γ f e post cf d h2 he) ps n h1]
  | sliceA ln bounds => simp [Frame.env] at henv; subst henv; simp [Frame.plug, tc, he]
  | sliceF ln a ps t post =>
    simp only [Frame.env] at henv
    cases h0 : tc Γ a with
    | error d' => simp [h0] at henv
    | ok ca =>
      cases h1 : tcBounds Γ (flatPairs ps .nil) with
      | error d' => simp [h0, h1] at henv
      | ok n =>
        simp [h0, h1] at henv; subst henv
        simp [Frame.plug, tc, h0, tcBounds_flat_error Γ _ d (tcBounds_from_error Γ e t post d he) ps n h1]
  | sliceT ln a ps f post =>
    simp only [Frame.env] at henv
    cases h0 : tc Γ a with
    | error d' => simp [h0] at henv
    | ok ca =>
      cases h1 : tcBounds Γ (flatPairs ps .nil) with
      | error d' => simp [h0, h1] at henv
      | ok n =>
        cases h2 : tc Γ f with
        | error d' => simp [h0, h1, h2] at henv
        | ok cf =>
          simp [h0, h1, h2] at henv; subst henv
          simp [Frame.plug, tc, h0, tcBounds_flat_error Γ _ d (tcBounds_to_error Γ f e post cf d h2 he) ps n h1]
  | pipeL ln f args => simp [Frame.env] at henv; subst henv; simp [Frame.plug, tc, he]
  | pipeF ln l args =>
    obtain ⟨⟨a, h1⟩, rfl⟩ := seq_pure_ok (by simpa [Frame.env] using henv)
    simp [Frame.plug, tc, h1, he]
  | pipeA ln l f pre post =>
    simp only [Frame.env] at henv
    cases h0 : tc Γ l with
    | error d' => simp [h0] at henv
    | ok cl =>
      cases h1 : tc Γ f with
      | error d' => simp [h0, h1] at henv
      | ok cf =>
        cases h2 : tcArgs Γ pre with
        | error d' => simp [h0, h1, h2] at henv
        | ok cs =>
          simp [h0, h1, h2] at henv; subst henv
          simp [Frame.plug, tc, h0, h1, tcArgs_app_error Γ e post d he pre cs h2]
  | subE pre post =>
    obtain ⟨⟨lv, h1⟩, rfl⟩ := seq_pure_ok (by simpa [Frame.env] using henv)
    simp [Frame.plug, tc, tcRows_app_error Γ' e post d he pre lv h1]
  | ifLetE ln gln en it t f => simp [Frame.env] at henv; subst henv; simp [Frame.plug, tc, he]
  | ifLetT ln gln en it e0 f =>
    simp only [Frame.env] at henv
    cases h1 : tc Γ e0 with
    | error d' => simp [h1] at henv
    | ok ce =>
      simp only [h1, bind_ok] at henv
      simp only [Frame.plug, tc, h1, bind_ok]
      split at henv
      · rename_i en' hct
        cases h2 : guardItemPre Γ gln en it with
        | error d' => simp [h2] at henv
        | ok u => simp [h2] at henv; subst henv; simp [hct, h2, he]
      · simp at henv
  | ifLetF ln gln en it e0 t =>
    simp only [Frame.env] at henv
    cases h1 : tc Γ e0 with
    | error d' => simp [h1] at henv
    | ok ce =>
      simp only [h1, bind_ok] at henv
      simp only [Frame.plug, tc, h1, bind_ok]
      split at henv
      · rename_i en' hct
        cases h2 : guardItemPre Γ gln en it with
        | error d' => simp [h2] at henv
        | ok u =>
          cases h3 : tc Γ t with
          | error d' => simp [h2, h3] at henv
          | ok ct => simp [h2, h3] at henv; subst henv; simp [hct, h2, h3, he]
      · simp at henv

theorem seq_pure_error {α} {m : Except Diag α} {Γ : Env} {d : Diag}
    (h : (m >>= fun _ => (pure Γ : Except Diag Env)) = .error d) : m = .error d := by
  cases m with
  | error d' => simpa using h
  | ok a => simp at h

theorem Frame.plug_prefix (F : Frame) (Γ : Env) (e : Expr) (d : Diag)
    (henv : F.env Γ = .error d) : tc Γ (F.plug e) = .error d := by
  cases F with
  | enumVal ln item => simp [Frame.env] at henv
  | un ln op => simp [Frame.env] at henv
  | binL ln op r => simp [Frame.env] at henv
  | binR ln op l =>
    have h1 := seq_pure_error (by simpa [Frame.env] using henv)
    simp [Frame.plug, tc, h1]
  | sup ln => simp [Frame.env] at henv
  | condC ln t e' => simp [Frame.env] at henv
  | condT ln c e' =>
    have h1 := seq_pure_error (by simpa [Frame.env] using henv)
    simp [Frame.plug, tc, h1]
  | condE ln c t =>
    simp only [Frame.env] at henv
    cases h1 : tc Γ c with
    | error d' => simp [h1] at henv; subst henv; simp [Frame.plug, tc, h1]
    | ok a =>
      cases h2 : tc Γ t with
      | error d' => simp [h1, h2] at henv; subst henv; simp [Frame.plug, tc, h1, h2]
      | ok b => simp [h1, h2] at henv
  | assL ln r => simp [Frame.env] at henv
  | assR ln l =>
    have h1 := seq_pure_error (by simpa [Frame.env] using henv)
    simp [Frame.plug, tc, h1]
  | whileC ln b => simp [Frame.env] at henv
  | whileB ln c =>
    have h1 := seq_pure_error (by simpa [Frame.env] using henv)
    simp [Frame.plug, tc, h1]
  | forInA ln x b => simp [Frame.env] at henv
  | forInB ln x a =>
    simp only [Frame.env] at henv
    cases h1 : tc Γ a with
    | error d' => simp [h1] at henv; subst henv; simp [Frame.plug, tc, h1]
    | ok ca =>
      simp only [h1, bind_ok] at henv
      simp only [Frame.plug, tc, h1, bind_ok]
      cases hit : forinIter ca with
      | none => simp [hit] at henv; subst henv; rfl
      | some it => simp [hit] at henv
  | callF ln args => simp [Frame.env] at henv
  | callA ln f pre post =>
    simp only [Frame.env] at henv
    cases h1 : tc Γ f with
    | error d' => simp [h1] at henv; subst henv; simp [Frame.plug, tc, h1]
    | ok cf =>
      cases h2 : tcArgs Γ pre with
      | error d' =>
        simp [h1, h2] at henv; subst henv
        simp [Frame.plug, tc, h1, tcArgs_app_prefix Γ pre _ d' h2]
      | ok cs => simp [h1, h2] at henv
  | attr ln fld => simp [Frame.env] at henv
  | matchS ln gs => simp [Frame.env] at henv
  | matchArm ln s pre k post =>
    simp only [Frame.env] at henv
    cases h1 : tc Γ s with
    | error d' => simp [h1] at henv; subst henv; simp [Frame.plug, tc, h1]
    | ok cs =>
      simp only [h1, bind_ok] at henv
      simp only [Frame.plug, tc, h1, bind_ok]
      split at henv
      · rename_i en hct
        simp only [hct]
        have hg : tcGuards Γ (pre.app (.cons (k.mk e) post)) = .error d := by
          cases h2 : tcGuards Γ pre with
          | error d' =>
            simp [h2] at henv; subst henv
            exact tcGuards_app_prefix Γ _ pre d' h2
          | ok arms =>
            cases h3 : k.pre Γ with
            | error d' =>
              simp [h2, h3] at henv; subst henv
              exact tcGuards_app_error Γ _ d' (tcGuards_head_prefix Γ k e post d' h3) pre arms h2
            | ok u => simp [h2, h3] at henv
        cases pre <;> simp [GuardList.app] at hg ⊢ <;> simp [hg]
      · rename_i hne
        simp at henv; subst henv
        split
        · rename_i en hct
          exact absurd hct (hne en)
        · rfl
  | arrayE ln pre post ec ety =>
    have h1 := seq_pure_error (by simpa [Frame.env] using henv)
    simp [Frame.plug, tc, tcRows_app_prefix Γ pre _ d h1]
  | derefA ln idx => simp [Frame.env] at henv
  | derefI ln a pre post =>
    simp only [Frame.env] at henv
    cases h1 : tc Γ a with
    | error d' => simp [h1] at henv; subst henv; simp [Frame.plug, tc, h1]
    | ok ca =>
      cases h2 : tcArgs Γ pre with
      | error d' =>
        simp [h1, h2] at henv; subst henv
        simp [Frame.plug, tc, h1, tcArgs_app_prefix Γ pre _ d' h2]
      | ok cs => simp [h1, h2] at henv
  | lcE ln qs rc rty =>
    simp only [Frame.env] at henv
    simp [Frame.plug, tc, henv]
  | lcQ ln e' pre k post rc rty =>
    simp only [Frame.env] at henv
    simp [Frame.plug, tc, tcQuals_app, henv]
  | seqBind ln pre bln v x post =>
    simp only [Frame.env] at henv
    simp [Frame.plug, tc, tcSeq_app_prefix pre Γ.push _ d henv]
  | seqExpr ln pre post =>
    simp only [Frame.env] at henv
    simp [Frame.plug, tc, tcSeq_app_prefix pre Γ.push _ d henv]
  | seqFunc ln pre fpre h fpost post =>
    simp only [Frame.env] at henv
    cases h1 : seqEnv Γ.push pre with
    | error d' =>
      simp [h1] at henv; subst henv
      simp [Frame.plug, tc, tcSeq_app_prefix pre Γ.push _ d' h1]
    | ok Γ1 =>
      simp only [h1, bind_ok] at henv
      have key : tcSeq Γ1 (.cons (.funcs (fpre.app (.cons (h.plug e) fpost))) post) = .error d := by
        simp only [tcSeq]
        rw [declFuncs_app]
        cases h2 : declFuncs Γ1 fpre with
        | error d' => simp [h2] at henv; subst henv; simp
        | ok p =>
          obtain ⟨Γa, spre⟩ := p
          simp only [h2, bind_ok] at henv ⊢
          rw [declFuncs_plug h e default]
          cases h3 : declFuncs Γa (.cons (h.plug default) fpost) with
          | error d' => simp [h3] at henv; subst henv; simp
          | ok q =>
            obtain ⟨Γ2, srest⟩ := q
            simp only [h3, bind_ok] at henv ⊢
            cases srest with
            | nil =>
              have := declFuncs_length _ _ _ _ h3
              simp [FuncList.length] at this
            | cons s spost =>
              simp only at henv
              cases h4 : tcBodies Γ2 fpre spre with
              | error d' =>
                simp [h4] at henv; subst henv
                simp [tcBodies_app_prefix Γ2 _ (s :: spost) fpre spre d' h4]
              | ok u =>
                cases h5 : h.pre (funcEnv Γ2 h.name s) s with
                | error d' =>
                  simp [h4, h5] at henv; subst henv
                  have hrest : tcBodies Γ2 (.cons (h.plug e) fpost) (s :: spost) = .error d' := by
                    simp [tcBodies, FuncHole.plug_prefix _ s h e d' h5]
                  have hlen := declFuncs_length _ _ _ _ h2
                  simp [tcBodies_app_error Γ2 _ _ d' hrest fpre spre hlen h4]
                | ok u' => simp [h4, h5] at henv
      simp [Frame.plug, tc, tcSeq_app_error pre Γ.push Γ1 _ d h1 key]
  | funcLit h =>
    simp only [Frame.env] at henv
    cases h1 : declFunc Γ h.name h.params h.rc h.rty with
    | error d' => simp [h1] at henv; subst henv; simp [Frame.plug, tc, h1]
    | ok s =>
      cases h2 : h.pre (funcEnv Γ h.name s) s with
      | error d' =>
        simp [h1, h2] at henv; subst henv
        simp [Frame.plug, tc, h1, FuncHole.plug_prefix _ s h e d' h2]
      | ok u => simp [h1, h2] at henv
  | tupleE ln pre post ms =>
    have h1 := seq_pure_error (by simpa [Frame.env] using henv)
    simp [Frame.plug, tc, tcArgs_app_prefix Γ pre _ d h1]
  | projE ln iln i => simp [Frame.env] at henv
  | rangeF ln ps t post =>
    have h1 := seq_pure_error (by simpa [Frame.env] using henv)
    simp [Frame.plug, tc, tcBounds_flat_prefix Γ _ ps d h1]
  | rangeT ln ps f post =>
    simp only [Frame.env] at henv
    cases h1 : tcBounds Γ (flatPairs ps .nil) with
    | error d' => simp [h1] at henv; subst henv; simp [Frame.plug, tc, tcBounds_flat_prefix Γ _ ps d' h1]
    | ok n =>
      cases h2 : tc Γ f with
      | error d' =>
        simp [h1, h2] at henv; subst henv
        simp [Frame.plug, tc, tcBounds_flat_error Γ _ d' (tcBounds_to_prefix Γ f e post d' h2) ps n h1]
      | ok cf => simp [h1, h2] at henv
  | sliceA ln bounds => simp [Frame.env] at henv
  | sliceF ln a ps t post =>
    simp only [Frame.env] at henv
    cases h0 : tc Γ a with
    | error d' => simp [h0] at henv; subst henv; simp [Frame.plug, tc, h0]
    | ok ca =>
      cases h1 : tcBounds Γ (flatPairs ps .nil) with
      | error d' =>
        simp [h0, h1] at henv; subst henv
        simp [Frame.plug, tc, h0, tcBounds_flat_prefix Γ _ ps d' h1]
      | ok n => simp [h0, h1] at henv
  | sliceT ln a ps f post =>
    simp only [Frame.env] at henv
    cases h0 : tc Γ a with
    | error d' => simp [h0] at henv; subst henv; simp [Frame.plug, tc, h0]
    | ok ca =>
      cases h1 : tcBounds Γ (flatPairs ps .nil) with
      | error d' =>
        simp [h0, h1] at henv; subst henv
        simp [Frame.plug, tc, h0, tcBounds_flat_prefix Γ _ ps d' h1]
      | ok n =>
        cases h2 : tc Γ f with
        | error d' =>
          simp [h0, h1, h2] at henv; subst henv
          simp [Frame.plug, tc, h0, tcBounds_flat_error Γ _ d' (tcBounds_to_prefix Γ f e post d' h2) ps n h1]
        | ok cf => simp [h0, h1, h2] at henv
  | pipeL ln f args => simp [Frame.env] at henv
  | pipeF ln l args =>
    have h1 := seq_pure_error (by simpa [Frame.env] using henv)
    simp [Frame.plug, tc, h1]
  | pipeA ln l f pre post =>
    simp only [Frame.env] at henv
    cases h0 : tc Γ l with
    | error d' => simp [h0] at henv; subst henv; simp [Frame.plug, tc, h0]
    | ok cl =>
      cases h1 : tc Γ f with
      | error d' => simp [h0, h1] at henv; subst henv; simp [Frame.plug, tc, h0, h1]
      | ok cf =>
        cases h2 : tcArgs Γ pre with
        | error d' =>
          simp [h0, h1, h2] at henv; subst henv
          simp [Frame.plug, tc, h0, h1, tcArgs_app_prefix Γ pre _ d' h2]
        | ok cs => simp [h0, h1, h2] at henv
  | subE pre post =>
    have h1 := seq_pure_error (by simpa [Frame.env] using henv)
    simp [Frame.plug, tc, tcRows_app_prefix Γ pre _ d h1]
  | ifLetE ln gln en it t f => simp [Frame.env] at henv
  | ifLetT ln gln en it e0 f =>
    simp only [Frame.env] at henv
    cases h1 : tc Γ e0 with
    | error d' => simp [h1] at henv; subst henv; simp [Frame.plug, tc, h1]
    | ok ce =>
      simp only [h1, bind_ok] at henv
      simp only [Frame.plug, tc, h1, bind_ok]
      split at henv
      · rename_i en' hct
        cases h2 : guardItemPre Γ gln en it with
        | error d' => simp [h2] at henv; subst henv; simp [hct, h2]
        | ok u => simp [h2] at henv
      · rename_i hne
        simp at henv; subst henv
        split
        · rename_i en' hct
          exact absurd hct (hne en')
        · rfl
  | ifLetF ln gln en it e0 t =>
    simp only [Frame.env] at henv
    cases h1 : tc Γ e0 with
    | error d' => simp [h1] at henv; subst henv; simp [Frame.plug, tc, h1]
    | ok ce =>
      simp only [h1, bind_ok] at henv
      simp only [Frame.plug, tc, h1, bind_ok]
      split at henv
      · rename_i en' hct
        cases h2 : guardItemPre Γ gln en it with
        | error d' => simp [h2] at henv; subst henv; simp [hct, h2]
        | ok u =>
          cases h3 : tc Γ t with
          | error d' => simp [h2, h3] at henv; subst henv; simp [hct, h2, h3]
          | ok ct => simp [h2, h3] at henv
      · rename_i hne
        simp at henv; subst henv
        split
        · rename_i en' hct
          exact absurd hct (hne en')
        · rfl


/-! ## stacks of frames and whole programs -/

def plugFrames : List Frame → Expr → Expr
  | [], e => e
  | F :: r, e => F.plug (plugFrames r e)

def framesEnv : List Frame → Env → Except Diag Env
  | [], Γ => .ok Γ
  | F :: r, Γ => F.env Γ >>= framesEnv r

theorem frames_plug_error : (Fs : List Frame) → (Γ Γ' : Env) → (e : Expr) → (d : Diag) →
    framesEnv Fs Γ = .ok Γ' → tc Γ' e = .error d → tc Γ (plugFrames Fs e) = .error d
  | [], Γ, Γ', e, d, h, he => by simp [framesEnv] at h; subst h; simpa [plugFrames] using he
  | F :: r, Γ, Γ', e, d, h, he => by
    simp only [framesEnv] at h
    cases h1 : F.env Γ with
    | error d' => simp [h1] at h
    | ok Γ1 =>
      simp [h1] at h
      exact F.plug_error Γ Γ1 _ d h1 (frames_plug_error r Γ1 Γ' e d h he)

theorem frames_plug_prefix : (Fs : List Frame) → (Γ : Env) → (e : Expr) → (d : Diag) →
    framesEnv Fs Γ = .error d → tc Γ (plugFrames Fs e) = .error d
  | [], Γ, e, d, h => by simp [framesEnv] at h
  | F :: r, Γ, e, d, h => by
    simp only [framesEnv] at h
    cases h1 : F.env Γ with
    | error d' => simp [h1] at h; subst h; exact F.plug_prefix Γ _ d' h1
    | ok Γ1 =>
      simp [h1] at h
      exact F.plug_error Γ Γ1 _ d h1 (frames_plug_prefix r Γ1 e d h)

/-- a function placed among the functions of a run: what happens before its catch clauses are
reached, namely the declaration pass of the whole run and the bodies of the earlier ones.
Returns the function's own table and its resolved signature. -/
def runEnv (Γ : Env) (fpre : FuncList) (f : Func) (fpost : FuncList) : Except Diag (Env × Sig) := do
  let (Γa, spre) ← declFuncs Γ fpre
  let (Γ2, srest) ← declFuncs Γa (.cons f fpost)
  match srest with
  | s :: _ => do
    tcBodies Γ2 fpre spre
    pure (funcEnv Γ2 f.name s, s)
  | [] => .error ⟨0, .seqLast⟩

/-- `declFuncs` only reads the signature -/
theorem declFuncs_sig (f g : Func) (fpost : FuncList) (Γ : Env)
    (h1 : f.ln = g.ln) (h2 : f.name = g.name) (h3 : f.params = g.params) (h4 : f.rc = g.rc)
    (h5 : f.rty = g.rty) : declFuncs Γ (.cons f fpost) = declFuncs Γ (.cons g fpost) := by
  simp [declFuncs, h1, h2, h3, h4, h5]

/-- the two passes over a run of functions, with the fault inside function `f` -/
theorem run_error (Γ : Env) (fpre : FuncList) (f : Func) (fpost : FuncList) (Γf : Env) (s : Sig)
    (d : Diag) (hr : runEnv Γ fpre f fpost = .ok (Γf, s)) (hf : tcRest Γf s f = .error d) :
    (declFuncs Γ (fpre.app (.cons f fpost)) >>= fun p => tcBodies p.1 (fpre.app (.cons f fpost)) p.2)
      = .error d := by
  simp only [runEnv] at hr
  cases h2 : declFuncs Γ fpre with
  | error d' => simp [h2] at hr
  | ok p =>
    obtain ⟨Γa, spre⟩ := p
    simp only [h2, bind_ok] at hr
    cases h3 : declFuncs Γa (.cons f fpost) with
    | error d' => simp [h3] at hr
    | ok q =>
      obtain ⟨Γ2, srest⟩ := q
      simp only [h3, bind_ok] at hr
      cases srest with
      | nil => simp at hr
      | cons s' spost =>
        simp only at hr
        cases h4 : tcBodies Γ2 fpre spre with
        | error d' => simp [h4] at hr
        | ok u =>
          simp [h4] at hr
          obtain ⟨hΓ, hs⟩ := hr
          subst hs; subst hΓ
          have hrest : tcBodies Γ2 (.cons f fpost) (s' :: spost) = .error d := by
            simp [tcBodies, hf]
          have hlen := declFuncs_length _ _ _ _ h2
          have hb := tcBodies_app_error Γ2 _ _ d hrest fpre spre hlen h4
          rw [declFuncs_app, h2]
          simp [h3, hb]

theorem run_prefix (Γ : Env) (fpre : FuncList) (f : Func) (fpost : FuncList) (d : Diag)
    (hr : runEnv Γ fpre f fpost = .error d) :
    (declFuncs Γ (fpre.app (.cons f fpost)) >>= fun p => tcBodies p.1 (fpre.app (.cons f fpost)) p.2)
      = .error d := by
  simp only [runEnv] at hr
  rw [declFuncs_app]
  cases h2 : declFuncs Γ fpre with
  | error d' => simp [h2] at hr; subst hr; simp
  | ok p =>
    obtain ⟨Γa, spre⟩ := p
    simp only [h2, bind_ok] at hr ⊢
    cases h3 : declFuncs Γa (.cons f fpost) with
    | error d' => simp [h3] at hr; subst hr; simp
    | ok q =>
      obtain ⟨Γ2, srest⟩ := q
      simp only [h3, bind_ok] at hr ⊢
      cases srest with
      | nil =>
        have := declFuncs_length _ _ _ _ h3
        simp [FuncList.length] at this
      | cons s' spost =>
        simp only at hr
        cases h4 : tcBodies Γ2 fpre spre with
        | error d' =>
          simp [h4] at hr; subst hr
          simp [tcBodies_app_prefix Γ2 _ (s' :: spost) fpre spre d' h4]
        | ok u => simp [h4] at hr

end Never.Tc
