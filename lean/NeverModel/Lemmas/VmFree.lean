import NeverModel.Lemmas.VmEffectLoops
import NeverModel.Lemmas.FreeInv
set_option linter.unusedSimpArgs false
set_option linter.unusedVariables false
/-! every handler of M-VM keeps the heap's bookkeeping invariant `FreeInv`.  A fifth effect logic over the VM monad: `KF t f` — `f` never
frees a cell and keeps `FreeInv`, provided the cell `t` (if any) holds an object when `f` starts.  The proviso is what a raw `setObj a`
needs (a store into a FREE cell would put an object on the free chain); every handler establishes it just before — it has read the
object at `a` (`guard_*`) or allocated `a` (`KF.alloc_bind`) — and nothing in between frees a cell. -/
namespace Never.Vm
open Never Never.Num

/-- cell `a` holds an object -/
def Alive (vm : Vm) (a : Nat) : Prop := (vm.gc.mem.objAt a).isSome = true

/-- no cell that held an object has lost it -/
def AliveMono (vm vm' : Vm) : Prop := ∀ x, Alive vm x → Alive vm' x

def KF {α} (t : Option Nat) (f : M α) : Prop :=
  ∀ vm b vm', f.run vm = .ok (b, vm') →
    AliveMono vm vm' ∧ ((∀ a, t = some a → Alive vm a) → FreeInv vm.gc → FreeInv vm'.gc)

/-- a read that succeeds only if cell `a` holds an object, and changes nothing -/
def Guard {α} (a : Nat) (f : M α) : Prop := ∀ vm b vm', f.run vm = .ok (b, vm') → vm' = vm ∧ Alive vm a

theorem KF.weaken {α} {t : Option Nat} {f : M α} (h : KF none f) : KF t f := by
  intro vm b vm' hr
  obtain ⟨h1, h2⟩ := h vm b vm' hr
  exact ⟨h1, fun _ hi => h2 (fun a ha => by cases ha) hi⟩

theorem KF.bind {α β} {t : Option Nat} {f : M α} {g : α → M β} (hf : KF t f) (hg : ∀ a, KF t (g a)) : KF t (f >>= g) := by
  intro vm b vm'' h
  obtain ⟨a, vm', h1, h2⟩ := (run_bind_ok f g vm vm'' b).mp h
  obtain ⟨a1, a2⟩ := hf vm a vm' h1
  obtain ⟨b1, b2⟩ := hg a vm' b vm'' h2
  exact ⟨fun x hx => b1 x (a1 x hx), fun ht hi => b2 (fun c hc => a1 c (ht c hc)) (a2 ht hi)⟩

/-- after a successful read of cell `a` the rest may store into `a` -/
theorem KF.guard_bind {α β} {t : Option Nat} {a : Nat} {f : M α} {g : α → M β} (hf : Guard a f) (hg : ∀ x, KF (some a) (g x)) :
    KF t (f >>= g) := by
  intro vm b vm'' h
  obtain ⟨x, vm', h1, h2⟩ := (run_bind_ok f g vm vm'' b).mp h
  obtain ⟨e, ha⟩ := hf vm x vm' h1
  subst e
  obtain ⟨b1, b2⟩ := hg x vm' b vm'' h2
  exact ⟨b1, fun _ hi => b2 (fun c hc => by cases hc; exact ha) hi⟩

theorem KF.pure {α} (a : α) : KF none (Pure.pure a : M α) := by
  intro vm b vm' h
  obtain ⟨_, rfl⟩ := (run_pure_ok a vm vm' b).mp h
  exact ⟨fun _ h => h, fun _ h => h⟩

theorem kf_crash {α} (w : String) : KF none (crash w : M α) := by
  intro vm a vm' h; simp [crash, throw, throwThe, MonadExceptOf.throw, StateT.run, StateT.lift, liftM, monadLift, MonadLift.monadLift, Except.bind, Bind.bind] at h

theorem kf_exit {α} (w : String) (o : List UInt8) : KF none (exitVm w o : M α) := by
  intro vm a vm' h; simp [exitVm, throw, throwThe, MonadExceptOf.throw, StateT.run, StateT.lift, liftM, monadLift, MonadLift.monadLift, Except.bind, Bind.bind] at h

theorem kf_of_gc {vm vm' : Vm} (h : vm'.gc = vm.gc) :
    AliveMono vm vm' ∧ ((∀ a, (none : Option Nat) = some a → Alive vm a) → FreeInv vm.gc → FreeInv vm'.gc) := by
  refine ⟨fun x hx => by unfold Alive at hx ⊢; rw [h]; exact hx, fun _ hi => by rw [h]; exact hi⟩

theorem kf_get : KF none (get : M Vm) := by
  intro vm a vm' h
  simp [get, getThe, MonadStateOf.get, StateT.get, StateT.run, Pure.pure, Except.pure] at h
  obtain ⟨_, rfl⟩ := h; exact kf_of_gc rfl

theorem KF.get_bind {β} (g : Vm → M β)
    (h : ∀ vm a vm', (g vm).run vm = .ok (a, vm') →
      AliveMono vm vm' ∧ ((∀ a, (none : Option Nat) = some a → Alive vm a) → FreeInv vm.gc → FreeInv vm'.gc)) : KF none (get >>= g) := by
  intro vm b vm'' hr
  obtain ⟨a, vm', h1, h2⟩ := (run_bind_ok get g vm vm'' b).mp hr
  simp [get, getThe, MonadStateOf.get, StateT.get, StateT.run, Pure.pure, Except.pure] at h1
  obtain ⟨rfl, rfl⟩ := h1
  exact h _ _ _ h2

theorem kf_set_of (v0 vm : Vm) (h : v0.gc = vm.gc) (a : PUnit) (vm' : Vm) (hr : (set v0 : M PUnit).run vm = .ok (a, vm')) :
    AliveMono vm vm' ∧ ((∀ a, (none : Option Nat) = some a → Alive vm a) → FreeInv vm.gc → FreeInv vm'.gc) := by
  simp [set, StateT.set, StateT.run, Pure.pure, Except.pure] at hr
  obtain ⟨_, rfl⟩ := hr; exact kf_of_gc h

theorem kf_modify (f : Vm → Vm) (hf : ∀ vm, (f vm).gc = vm.gc) : KF none (modify f : M PUnit) := by
  intro v x v' h
  simp [modify, modifyGet, MonadStateOf.modifyGet, StateT.modifyGet, StateT.run, Pure.pure, Except.pure] at h
  obtain ⟨_, rfl⟩ := h
  exact kf_of_gc (hf v)

theorem kf_rdSlot (i : Int) : KF none (rdSlot i) := by
  unfold rdSlot
  apply KF.bind kf_get; intro vm
  split
  · exact kf_crash _
  · exact KF.pure _

theorem kf_wrSlot (i : Int) (s : Slot) : KF none (wrSlot i s) := by
  unfold wrSlot
  apply KF.get_bind; intro vm a vm' h
  split at h
  · exact kf_crash _ _ _ _ h
  · exact kf_set_of _ vm (by rfl) _ _ h

theorem kf_objOf (a : Nat) : KF none (objOf a) := by
  unfold objOf
  apply KF.bind kf_get; intro vm
  split
  · exact kf_crash _
  · split
    · exact KF.pure _
    · exact kf_crash _

theorem kf_checkStack : KF none checkStack := by
  unfold checkStack
  apply KF.bind kf_get; intro vm
  split
  · exact kf_exit _ _
  · exact KF.pure _

theorem kf_pushAddr (a : Nat) : KF none (pushAddr a) := by
  intro vm u vm' h
  unfold Vm.pushAddr at h
  simp only [Bind.bind, StateT.bind, StateT.run, get, getThe, MonadStateOf.get, StateT.get, Pure.pure, StateT.pure, Except.pure, Except.bind] at h
  cases hp : pushP vm a with
  | error e =>
    rw [hp] at h
    simp [liftE, throw, throwThe, MonadExceptOf.throw, StateT.lift, liftM, monadLift, MonadLift.monadLift, Except.bind, Bind.bind] at h
  | ok v1 =>
    rw [hp] at h
    simp [liftE, set, StateT.set, Pure.pure, StateT.pure, Except.pure] at h
    obtain ⟨_, rfl⟩ := h
    unfold pushP checkP wrP at hp
    simp only [Bind.bind, Except.bind] at hp
    by_cases c1 : vm.sp + 1 ≥ vm.stackSize
    · simp [c1] at hp
    · simp only [c1, if_false] at hp
      split at hp
      · cases hp
      · cases hp; exact kf_of_gc rfl

/-- `alloc`: the bookkeeping stays intact, no cell is freed -/
theorem kf_alloc (o : Obj) : KF none (alloc o) := by
  intro vm loc vm' h
  unfold alloc at h
  obtain ⟨v0, v0', h3, h4⟩ := (run_bind_ok _ _ _ _ _).mp h
  simp [get, getThe, MonadStateOf.get, StateT.get, StateT.run, Pure.pure, Except.pure] at h3
  obtain ⟨e1, e2⟩ := h3
  rw [← e1, ← e2] at h4
  split at h4
  · simp [exitVm, throw, throwThe, MonadExceptOf.throw, StateT.run, StateT.lift, liftM, monadLift, MonadLift.monadLift, Except.bind, Bind.bind] at h4
  · rename_i g l hg
    obtain ⟨u, v1, h5, h6⟩ := (run_bind_ok _ _ _ _ _).mp h4
    simp [set, StateT.set, StateT.run, Pure.pure, Except.pure] at h5
    obtain ⟨e6, e7⟩ := (run_pure_ok _ _ _ _).mp h6
    rw [e7, ← h5]
    have hmem : g.mem = vm.gc.mem.setObj vm.gc.free (some o) := by
      unfold Gc.alloc at hg
      simp only at hg
      split at hg
      · cases hg
      · split at hg <;> (cases hg; rfl)
    refine ⟨fun x hx => ?_, fun _ hi => (freeInv_alloc hi hg).1⟩
    unfold Alive at hx ⊢
    show ((g.mem).objAt x).isSome = true
    rw [hmem, Mem.objAt_setObj]
    split
    · rfl
    · exact hx

/-- after an allocation the rest may store into the new cell -/
theorem KF.alloc_bind {β} {t : Option Nat} {o : Obj} {g : Nat → M β} (hg : ∀ loc, KF (some loc) (g loc)) : KF t (alloc o >>= g) := by
  intro vm b vm'' h
  obtain ⟨loc, vm', h1, h2⟩ := (run_bind_ok _ g vm vm'' b).mp h
  obtain ⟨a1, a2⟩ := kf_alloc o vm loc vm' h1
  obtain ⟨b1, b2⟩ := hg loc vm' b vm'' h2
  refine ⟨fun x hx => b1 x (a1 x hx), fun _ hi => ?_⟩
  refine b2 (fun c hc => ?_) (a2 (fun a ha => by cases ha) hi)
  cases hc
  -- the new cell holds the object
  unfold alloc at h1
  obtain ⟨v0, v0', h3, h4⟩ := (run_bind_ok _ _ _ _ _).mp h1
  simp [get, getThe, MonadStateOf.get, StateT.get, StateT.run, Pure.pure, Except.pure] at h3
  obtain ⟨e1, e2⟩ := h3
  rw [← e1, ← e2] at h4
  split at h4
  · simp [exitVm, throw, throwThe, MonadExceptOf.throw, StateT.run, StateT.lift, liftM, monadLift, MonadLift.monadLift, Except.bind, Bind.bind] at h4
  · rename_i g' l hg'
    obtain ⟨u, v1, h5, h6⟩ := (run_bind_ok _ _ _ _ _).mp h4
    simp [set, StateT.set, StateT.run, Pure.pure, Except.pure] at h5
    obtain ⟨e6, e7⟩ := (run_pure_ok _ _ _ _).mp h6
    rw [e7, ← h5, e6]
    unfold Alive
    show ((g'.mem).objAt l).isSome = true
    rw [(freeInv_alloc hi hg').2.2.2]; rfl

/-- a raw store into cell `a`, which holds an object -/
theorem kf_setObj (a : Nat) (o : Obj) : KF (some a) (setObj a o) := by
  intro v x v' h
  simp [setObj, modify, modifyGet, MonadStateOf.modifyGet, StateT.modifyGet, StateT.run, Pure.pure, Except.pure] at h
  obtain ⟨_, rfl⟩ := h
  refine ⟨fun y hy => ?_, fun ht hi => freeInv_setObj hi (Or.inl (ht a rfl))⟩
  unfold Alive at hy ⊢
  show ((v.gc.mem.setObj a (some o)).objAt y).isSome = true
  rw [Mem.objAt_setObj]
  split
  · rfl
  · exact hy

theorem guard_objOf (a : Nat) : Guard a (objOf a) := by
  intro vm o vm' h
  unfold objOf at h
  obtain ⟨v0, v0', h3, h4⟩ := (run_bind_ok _ _ _ _ _).mp h
  simp [get, getThe, MonadStateOf.get, StateT.get, StateT.run, Pure.pure, Except.pure] at h3
  obtain ⟨e1, e2⟩ := h3
  rw [← e1, ← e2] at h4
  split at h4
  · simp [crash, throw, throwThe, MonadExceptOf.throw, StateT.run, StateT.lift, liftM, monadLift, MonadLift.monadLift, Except.bind, Bind.bind] at h4
  · split at h4
    · rename_i o' ho
      obtain ⟨_, e⟩ := (run_pure_ok _ _ _ _).mp h4
      exact ⟨e, by unfold Alive; rw [ho]; rfl⟩
    · simp [crash, throw, throwThe, MonadExceptOf.throw, StateT.run, StateT.lift, liftM, monadLift, MonadLift.monadLift, Except.bind, Bind.bind] at h4

/-- a typed read: `objOf a`, then a tag test that returns or crashes -/
theorem Guard.typed {α} (a : Nat) (k : Obj → M α) (hk : ∀ o vm b vm', (k o).run vm = .ok (b, vm') → vm' = vm) : Guard a (objOf a >>= k) := by
  intro vm b vm'' h
  obtain ⟨o, vm', h1, h2⟩ := (run_bind_ok _ k vm vm'' b).mp h
  obtain ⟨e, ha⟩ := guard_objOf a vm o vm' h1
  subst e
  exact ⟨hk o _ _ _ h2, ha⟩

/-- automation for `KF` goals -/
syntax "kf" : tactic
syntax "kf_guard" : tactic
macro_rules
  | `(tactic| kf) => `(tactic|
      first
      | with_reducible exact KF.weaken (KF.pure _)
      | with_reducible exact KF.weaken (kf_crash _)
      | with_reducible exact KF.weaken (kf_exit _ _)
      | with_reducible exact KF.weaken kf_get
      | with_reducible exact KF.weaken (kf_rdSlot _)
      | with_reducible exact KF.weaken (kf_wrSlot _ _)
      | with_reducible exact KF.weaken (kf_alloc _)
      | with_reducible exact KF.weaken (kf_objOf _)
      | with_reducible exact KF.weaken kf_checkStack
      | with_reducible exact KF.weaken (kf_pushAddr _)
      | with_reducible exact KF.weaken (kf_modify _ (fun _ => rfl))
      | with_reducible exact kf_setObj _ _
      | with_reducible apply_assumption (exfalso := false)
      | (with_reducible refine KF.guard_bind (by kf_guard) (fun _ => ?hg); (case hg => kf))
      | (with_reducible refine KF.alloc_bind (fun _ => ?hg); (case hg => kf))
      | (with_reducible refine KF.bind ?hf (fun _ => ?hg); (case hf => kf); (case hg => kf))
      | (split <;> kf)
      | (dsimp only; kf) | fail "kf: no rule")

macro_rules
  | `(tactic| kf_guard) => `(tactic| with_reducible exact guard_objOf _)

theorem kf_rdAddr (i : Int) : KF none (rdAddr i) := by unfold rdAddr; kf
theorem kf_getSp : KF none getSp := by unfold getSp; kf
theorem kf_setSp (v : Int) : KF none (setSp v) := by unfold setSp; kf
theorem kf_raise (e : Nat) : KF none (raise e) := by unfold raise; kf
theorem kf_emit (bs : List UInt8) : KF none (emit bs) := by unfold emit; kf

macro_rules
  | `(tactic| kf) => `(tactic|
      first | with_reducible exact KF.weaken (kf_rdAddr _) | with_reducible exact KF.weaken (kf_getSp) | with_reducible exact KF.weaken (kf_setSp _)
            | with_reducible exact KF.weaken (kf_raise _) | with_reducible exact KF.weaken (kf_emit _) | fail "kf: no rule")

theorem kf_getInt (a : Nat) : KF none (getInt a) := by unfold getInt; kf
theorem kf_getLong (a : Nat) : KF none (getLong a) := by unfold getLong; kf
theorem kf_getFloat (a : Nat) : KF none (getFloat a) := by unfold getFloat; kf
theorem kf_getDouble (a : Nat) : KF none (getDouble a) := by unfold getDouble; kf
theorem kf_getChar (a : Nat) : KF none (getChar a) := by unfold getChar; kf
theorem kf_getStr (a : Nat) : KF none (getStr a) := by unfold getStr; kf
theorem kf_getStrRef (a : Nat) : KF none (getStrRef a) := by unfold getStrRef; kf
theorem kf_getVecRef (a : Nat) : KF none (getVecRef a) := by unfold getVecRef; kf
theorem kf_getArrRef (a : Nat) : KF none (getArrRef a) := by unfold getArrRef; kf
theorem kf_getVecObj (a : Nat) : KF none (getVecObj a) := by unfold getVecObj; kf
theorem kf_getArrObj (a : Nat) : KF none (getArrObj a) := by unfold getArrObj; kf
theorem kf_getFunc (a : Nat) : KF none (getFunc a) := by unfold getFunc; kf
theorem kf_getCPtr (a : Nat) : KF none (getCPtr a) := by unfold getCPtr; kf

macro_rules
  | `(tactic| kf) => `(tactic|
      first | with_reducible exact KF.weaken (kf_getInt _) | with_reducible exact KF.weaken (kf_getLong _) | with_reducible exact KF.weaken (kf_getFloat _)
            | with_reducible exact KF.weaken (kf_getDouble _) | with_reducible exact KF.weaken (kf_getChar _) | with_reducible exact KF.weaken (kf_getStr _)
            | with_reducible exact KF.weaken (kf_getStrRef _) | with_reducible exact KF.weaken (kf_getVecRef _) | with_reducible exact KF.weaken (kf_getArrRef _)
            | with_reducible exact KF.weaken (kf_getVecObj _) | with_reducible exact KF.weaken (kf_getArrObj _) | with_reducible exact KF.weaken (kf_getFunc _)
            | with_reducible exact KF.weaken (kf_getCPtr _) | fail "kf: no rule")

theorem guard_getInt (a : Nat) : Guard a (getInt a) := by
  unfold getInt
  refine Guard.typed a _ (fun o vm b vm' h => ?_)
  split at h <;> first | exact ((run_pure_ok _ _ _ _).mp h).2 | (simp [crash, throw, throwThe, MonadExceptOf.throw, StateT.run, StateT.lift, liftM, monadLift, MonadLift.monadLift, Except.bind, Bind.bind] at h)

theorem guard_getLong (a : Nat) : Guard a (getLong a) := by
  unfold getLong
  refine Guard.typed a _ (fun o vm b vm' h => ?_)
  split at h <;> first | exact ((run_pure_ok _ _ _ _).mp h).2 | (simp [crash, throw, throwThe, MonadExceptOf.throw, StateT.run, StateT.lift, liftM, monadLift, MonadLift.monadLift, Except.bind, Bind.bind] at h)

theorem guard_getFloat (a : Nat) : Guard a (getFloat a) := by
  unfold getFloat
  refine Guard.typed a _ (fun o vm b vm' h => ?_)
  split at h <;> first | exact ((run_pure_ok _ _ _ _).mp h).2 | (simp [crash, throw, throwThe, MonadExceptOf.throw, StateT.run, StateT.lift, liftM, monadLift, MonadLift.monadLift, Except.bind, Bind.bind] at h)

theorem guard_getDouble (a : Nat) : Guard a (getDouble a) := by
  unfold getDouble
  refine Guard.typed a _ (fun o vm b vm' h => ?_)
  split at h <;> first | exact ((run_pure_ok _ _ _ _).mp h).2 | (simp [crash, throw, throwThe, MonadExceptOf.throw, StateT.run, StateT.lift, liftM, monadLift, MonadLift.monadLift, Except.bind, Bind.bind] at h)

theorem guard_getChar (a : Nat) : Guard a (getChar a) := by
  unfold getChar
  refine Guard.typed a _ (fun o vm b vm' h => ?_)
  split at h <;> first | exact ((run_pure_ok _ _ _ _).mp h).2 | (simp [crash, throw, throwThe, MonadExceptOf.throw, StateT.run, StateT.lift, liftM, monadLift, MonadLift.monadLift, Except.bind, Bind.bind] at h)

theorem guard_getStr (a : Nat) : Guard a (getStr a) := by
  unfold getStr
  refine Guard.typed a _ (fun o vm b vm' h => ?_)
  split at h <;> first | exact ((run_pure_ok _ _ _ _).mp h).2 | (simp [crash, throw, throwThe, MonadExceptOf.throw, StateT.run, StateT.lift, liftM, monadLift, MonadLift.monadLift, Except.bind, Bind.bind] at h)

theorem guard_getStrRef (a : Nat) : Guard a (getStrRef a) := by
  unfold getStrRef
  refine Guard.typed a _ (fun o vm b vm' h => ?_)
  split at h <;> first | exact ((run_pure_ok _ _ _ _).mp h).2 | (simp [crash, throw, throwThe, MonadExceptOf.throw, StateT.run, StateT.lift, liftM, monadLift, MonadLift.monadLift, Except.bind, Bind.bind] at h)

theorem guard_getVecRef (a : Nat) : Guard a (getVecRef a) := by
  unfold getVecRef
  refine Guard.typed a _ (fun o vm b vm' h => ?_)
  split at h <;> first | exact ((run_pure_ok _ _ _ _).mp h).2 | (simp [crash, throw, throwThe, MonadExceptOf.throw, StateT.run, StateT.lift, liftM, monadLift, MonadLift.monadLift, Except.bind, Bind.bind] at h)

theorem guard_getArrRef (a : Nat) : Guard a (getArrRef a) := by
  unfold getArrRef
  refine Guard.typed a _ (fun o vm b vm' h => ?_)
  split at h <;> first | exact ((run_pure_ok _ _ _ _).mp h).2 | (simp [crash, throw, throwThe, MonadExceptOf.throw, StateT.run, StateT.lift, liftM, monadLift, MonadLift.monadLift, Except.bind, Bind.bind] at h)

theorem guard_getVecObj (a : Nat) : Guard a (getVecObj a) := by
  unfold getVecObj
  refine Guard.typed a _ (fun o vm b vm' h => ?_)
  split at h <;> first | exact ((run_pure_ok _ _ _ _).mp h).2 | (simp [crash, throw, throwThe, MonadExceptOf.throw, StateT.run, StateT.lift, liftM, monadLift, MonadLift.monadLift, Except.bind, Bind.bind] at h)

theorem guard_getArrObj (a : Nat) : Guard a (getArrObj a) := by
  unfold getArrObj
  refine Guard.typed a _ (fun o vm b vm' h => ?_)
  split at h <;> first | exact ((run_pure_ok _ _ _ _).mp h).2 | (simp [crash, throw, throwThe, MonadExceptOf.throw, StateT.run, StateT.lift, liftM, monadLift, MonadLift.monadLift, Except.bind, Bind.bind] at h)

theorem guard_getFunc (a : Nat) : Guard a (getFunc a) := by
  unfold getFunc
  refine Guard.typed a _ (fun o vm b vm' h => ?_)
  split at h <;> first | exact ((run_pure_ok _ _ _ _).mp h).2 | (simp [crash, throw, throwThe, MonadExceptOf.throw, StateT.run, StateT.lift, liftM, monadLift, MonadLift.monadLift, Except.bind, Bind.bind] at h)

theorem guard_getCPtr (a : Nat) : Guard a (getCPtr a) := by
  unfold getCPtr
  refine Guard.typed a _ (fun o vm b vm' h => ?_)
  split at h <;> first | exact ((run_pure_ok _ _ _ _).mp h).2 | (simp [crash, throw, throwThe, MonadExceptOf.throw, StateT.run, StateT.lift, liftM, monadLift, MonadLift.monadLift, Except.bind, Bind.bind] at h)

macro_rules
  | `(tactic| kf_guard) => `(tactic|
      first | with_reducible exact guard_getInt _ | with_reducible exact guard_getLong _ | with_reducible exact guard_getFloat _ | with_reducible exact guard_getDouble _ | with_reducible exact guard_getChar _ | with_reducible exact guard_getStr _ | with_reducible exact guard_getStrRef _ | with_reducible exact guard_getVecRef _ | with_reducible exact guard_getArrRef _ | with_reducible exact guard_getVecObj _ | with_reducible exact guard_getArrObj _ | with_reducible exact guard_getFunc _ | with_reducible exact guard_getCPtr _ | fail "kf: no rule")

theorem kf_scalarOf (ty : NTy) (a : Nat) : KF none (scalarOf ty a) := by unfold scalarOf; cases ty <;> simp only <;> kf
theorem kf_resOf (r : NRes) : KF none (resOf r) := by unfold resOf; kf
theorem kf_okVal (r : NRes) : KF none (okVal r) := by unfold okVal; kf
theorem kf_getVec (a i : Nat) : KF none (getVec a i) := by unfold getVec; kf
theorem kf_setVec (a i v : Nat) : KF none (setVec a i v) := by unfold setVec; kf
theorem kf_getArrElem (a i : Nat) : KF none (getArrElem a i) := by unfold getArrElem; kf
theorem kf_setArrElem (a i v : Nat) : KF none (setArrElem a i v) := by unfold setArrElem; kf
theorem kf_allocArr (e : List Nat) : KF none (allocArr e) := by unfold allocArr; kf

macro_rules
  | `(tactic| kf) => `(tactic|
      first | with_reducible exact KF.weaken (kf_scalarOf _ _) | with_reducible exact KF.weaken (kf_resOf _) | with_reducible exact KF.weaken (kf_okVal _)
            | with_reducible exact KF.weaken (kf_getVec _ _) | with_reducible exact KF.weaken (kf_setVec _ _ _) | with_reducible exact KF.weaken (kf_getArrElem _ _)
            | with_reducible exact KF.weaken (kf_setArrElem _ _ _) | with_reducible exact KF.weaken (kf_allocArr _) | fail "kf: no rule")

theorem kf_rangePair (r d : Nat) : KF none (rangePair r d) := by unfold rangePair; kf
theorem kf_feCheck (orc : Oracle) : KF none (feCheck orc) := by unfold feCheck; kf

macro_rules
  | `(tactic| kf) => `(tactic| first | with_reducible exact KF.weaken (kf_rangePair _ _) | with_reducible exact KF.weaken (kf_feCheck _) | fail "kf: no rule")


theorem kf_allocEach (o : Obj) (n : Nat) : KF none (allocEach o n) := by
  induction n with
  | zero => unfold allocEach; kf
  | succ n ih => unfold allocEach; kf

theorem kf_mapElems (ty : NTy) (f : NVal → M NVal) (hf : ∀ v, KF none (f v)) (es : List Nat) : KF none (mapElems ty f es) := by
  induction es with
  | nil => unfold mapElems; kf
  | cons e es ih => unfold mapElems; kf

theorem kf_zipArith (ty : NTy) (bop : BinOp) (xs ys : List Nat) : KF none (zipArith ty bop xs ys) := by
  induction xs generalizing ys with
  | nil => unfold zipArith; kf
  | cons x xs ih =>
    cases ys with
    | nil => unfold zipArith; kf
    | cons y ys => unfold zipArith; have := ih ys; kf

theorem kf_dotSum (ty : NTy) (es1 es2 : List Nat) (i j inner cols k n : Nat) (acc : NVal) :
    KF none (dotSum ty es1 es2 i j inner cols k n acc) := by
  induction n generalizing k acc with
  | zero => unfold dotSum; kf
  | succ n ih => unfold dotSum; kf

theorem kf_matCols (ty : NTy) (es1 es2 : List Nat) (mres i inner cols j m : Nat) :
    KF none (matCols ty es1 es2 mres i inner cols j m) := by
  induction m generalizing j with
  | zero => unfold matCols; kf
  | succ m ih => unfold matCols; have := kf_dotSum ty es1 es2 i j inner cols 0 inner (zeroOf ty); kf

theorem kf_matRows (ty : NTy) (es1 es2 : List Nat) (mres inner cols i n : Nat) :
    KF none (matRows ty es1 es2 mres inner cols i n) := by
  induction n generalizing i with
  | zero => unfold matRows; kf
  | succ n ih => unfold matRows; have := kf_matCols ty es1 es2 mres i inner cols 0 cols; kf

theorem kf_composeRanges (r1 r2 res d n : Nat) : KF none (composeRanges r1 r2 res d n) := by
  induction n generalizing d with
  | zero => unfold composeRanges; kf
  | succ n ih => unfold composeRanges; kf

theorem kf_rangePairs (r d n : Nat) : KF none (rangePairs r d n) := by
  induction n generalizing d with
  | zero => unfold rangePairs; kf
  | succ n ih => unfold rangePairs; kf

theorem kf_unpackLoop (sp : Int) (fs : List Nat) (size i : Nat) : KF none (unpackLoop sp fs size i) := by
  induction i with
  | zero => unfold unpackLoop; kf
  | succ i ih => unfold unpackLoop; kf

theorem kf_popAddrs (n : Nat) : KF none (popAddrs n) := by
  induction n with
  | zero => unfold popAddrs; kf
  | succ n ih => unfold popAddrs; kf

theorem kf_popInts (n : Nat) : KF none (popInts n) := by
  induction n with
  | zero => unfold popInts; kf
  | succ n ih => unfold popInts; kf

theorem kf_popExts (n : Nat) : KF none (popExts n) := by
  induction n with
  | zero => unfold popExts; kf
  | succ n ih => unfold popExts; kf

theorem kf_popIndices (n : Nat) : KF none (popIndices n) := by
  induction n with
  | zero => unfold popIndices; kf
  | succ n ih => unfold popIndices; kf

theorem kf_rangeDerefLoop (range array d n : Nat) : KF none (rangeDerefLoop range array d n) := by
  induction n generalizing d with
  | zero => unfold rangeDerefLoop; kf
  | succ n ih => unfold rangeDerefLoop; kf

theorem kf_allocLoop (n : Nat) : KF none (allocLoop n) := by
  induction n with
  | zero => unfold allocLoop; kf
  | succ n ih => unfold allocLoop; kf

macro_rules
  | `(tactic| kf) => `(tactic|
      first
      | with_reducible exact KF.weaken (kf_allocEach _ _) | with_reducible exact KF.weaken (kf_zipArith _ _ _ _)
      | with_reducible exact KF.weaken (kf_dotSum _ _ _ _ _ _ _ _ _ _) | with_reducible exact KF.weaken (kf_matCols _ _ _ _ _ _ _ _ _)
      | with_reducible exact KF.weaken (kf_matRows _ _ _ _ _ _ _ _) | with_reducible exact KF.weaken (kf_composeRanges _ _ _ _ _)
      | with_reducible exact KF.weaken (kf_rangePairs _ _ _) | with_reducible exact KF.weaken (kf_unpackLoop _ _ _ _)
      | with_reducible exact KF.weaken (kf_popAddrs _) | with_reducible exact KF.weaken (kf_popInts _) | with_reducible exact KF.weaken (kf_popExts _)
      | with_reducible exact KF.weaken (kf_popIndices _) | with_reducible exact KF.weaken (kf_rangeDerefLoop _ _ _ _) | with_reducible exact KF.weaken (kf_allocLoop _)
      | (with_reducible refine KF.weaken (kf_mapElems _ _ (fun _ => ?hf) _); (case hf => kf)) | fail "kf: no rule")

theorem kf_execBin (ty : NTy) (bop : BinOp) : KF none (execBin ty bop) := by unfold execBin; kf
theorem kf_execUn (ty : NTy) (uop : UnOp) : KF none (execUn ty uop) := by unfold execUn; kf
theorem kf_execConv (src dst : NTy) : KF none (execConv src dst) := by unfold execConv; kf

set_option maxRecDepth 16000 in
set_option maxHeartbeats 4000000 in
theorem kf_buildIn (id : Nat) (orc : Oracle) : KF none (buildIn id orc) := by unfold buildIn; kf

/-- selects the handler of a concrete opcode inside `exec` and runs the `kf` automation -/
macro "exec_kf" h:ident : tactic => `(tactic|
  (unfold exec
   simp only [$h:ident, binOpOf, unOpOf, convOf, nilCmpOf, strAddOf, arrOpOf, mkArrayElem]
   kf))

end Never.Vm
