import NeverModel.Model.Verify
set_option linter.unusedSimpArgs false
set_option linter.unusedVariables false
/-! the certificate re-check `flowOk` of M-Ver, taken apart: what it says at one address -/
namespace Never.Ver
open Never Never.Vm

theorem flowOk_at {md : Module} {hm : HMap} (h : flowOk md hm = true) {a : Nat} (ha : a < md.code.size) :
    flowOkAt md hm a = true ∧ frameOkAt md (funcStarts md) hm a = true := by
  unfold flowOk at h
  simp only [Bool.and_eq_true] at h
  have := (List.all_eq_true.mp h.1.1.1) a (List.mem_range.mpr ha)
  simp only [Bool.and_eq_true] at this
  exact this.1

theorem flowOk_pend {md : Module} {hm : HMap} (h : flowOk md hm = true) {a : Nat} (ha : a < md.code.size) :
    pendOkAt md hm a = true := by
  unfold flowOk at h
  simp only [Bool.and_eq_true] at h
  have := (List.all_eq_true.mp h.1.1.1) a (List.mem_range.mpr ha)
  simp only [Bool.and_eq_true] at this
  exact this.2

theorem flowOk_handlers {md : Module} {hm : HMap} (h : flowOk md hm = true) : handlersOk md hm = true := by
  unfold flowOk at h
  simp only [Bool.and_eq_true] at h
  exact h.1.1.2

theorem flowOk_starts {md : Module} {hm : HMap} (h : flowOk md hm = true) {a : Nat} (ha : a ∈ funcStarts md) :
    ∃ st, hm[a]? = some (some st) ∧ st.h = 0 ∧ st.marks = [] ∧ intRun md a = [] := by
  unfold flowOk at h
  simp only [Bool.and_eq_true] at h
  have := (List.all_eq_true.mp h.1.2) a ha
  simp only [Bool.and_eq_true, List.isEmpty_iff] at this
  obtain ⟨t1, t2⟩ := this
  split at t1
  · rename_i s hs
    simp only [Bool.and_eq_true, beq_iff_eq] at t1
    exact ⟨s, hs, t1.1, t1.2, t2⟩
  · cases t1

theorem flowOk_entry {md : Module} {hm : HMap} (h : flowOk md hm = true) :
    ∃ st, hm[0]? = some (some st) ∧ npAt md (funcStarts md) 0 + st.h = 0 ∧ st.marks = [] := by
  unfold flowOk at h
  simp only [Bool.and_eq_true] at h
  have := h.2
  unfold entryOk at this
  split at this
  · rename_i s hs
    simp only [Bool.and_eq_true, beq_iff_eq] at this
    exact ⟨s, hs, this.1, this.2⟩
  · cases this

theorem lt_size_of_getElem? {α} {xs : Array α} {a : Nat} {x : α} (h : xs[a]? = some x) : a < xs.size := by
  rcases Nat.lt_or_ge a xs.size with h' | h'
  · exact h'
  · rw [Array.getElem?_eq_none (by omega)] at h; cases h

/-- `hAt` spelled out -/
theorem hAt_spec {starts : List Nat} {hm : HMap} {a t k : Nat} (h : hAt starts hm a t k = true) :
    ∃ s', hm[t]? = some (some s') ∧ s'.h = k ∧ sameFn starts a t = true := by
  unfold hAt at h
  split at h
  · rename_i s' hs
    simp only [Bool.and_eq_true, beq_iff_eq] at h
    exact ⟨s', hs, h.1, h.2⟩
  · cases h

theorem sameFn_np {md : Module} {starts : List Nat} {a t : Nat} (h : sameFn starts a t = true) :
    npAt md starts t = npAt md starts a ∧ topAt starts t = topAt starts a := by
  unfold sameFn at h
  have e : regionStart starts a = regionStart starts t := by simpa using h
  unfold npAt paramsAt topAt
  rw [e]; exact ⟨rfl, rfl⟩

end Never.Ver

namespace Never.Ver
open Never Never.Vm

/-! ### what `frameOkAt` says for each opcode it re-checks -/

section
variable {md : Module} {starts : List Nat} {hm : HMap} {a : Nat} {i : Instr} {s : AbsSt}

theorem frameOkAt_MARK (hi : md.code[a]? = some i) (hs : hm[a]? = some (some s)) (hop : i.op = .MARK)
    (h : frameOkAt md starts hm a = true) :
    hAt starts hm a i.w0 (s.h + 1) = true ∧ hAt starts hm a (a + 1) (s.h + 5) = true := by
  unfold frameOkAt at h
  simp only [hi, hs, hop, Bool.and_eq_true] at h
  exact h

theorem frameOkAt_CALL (hi : md.code[a]? = some i) (hs : hm[a]? = some (some s)) (hop : i.op = .CALL)
    (h : frameOkAt md starts hm a = true) :
    (markedCall md a = true ∧ 1 ≤ s.h) ∨ (markedCall md a = false ∧ s.h = 1) := by
  unfold frameOkAt at h
  simp only [hi, hs, hop] at h
  by_cases hm' : markedCall md a = true
  · simp only [hm', if_true, decide_eq_true_eq] at h; exact Or.inl ⟨hm', h⟩
  · have : markedCall md a = false := by simpa using hm'
    simp only [this, Bool.false_eq_true, if_false, beq_iff_eq] at h; exact Or.inr ⟨this, h⟩

theorem frameOkAt_RET (hi : md.code[a]? = some i) (hs : hm[a]? = some (some s)) (hop : i.op = .RET)
    (h : frameOkAt md starts hm a = true) : s.h = 1 := by
  unfold frameOkAt at h
  simp only [hi, hs, hop, beq_iff_eq] at h
  exact h

theorem frameOkAt_CLEAR_STACK (hi : md.code[a]? = some i) (hs : hm[a]? = some (some s)) (hop : i.op = .CLEAR_STACK)
    (h : frameOkAt md starts hm a = true) : i.w0 = npAt md starts a ∧ hAt starts hm a (a + 1) 0 = true := by
  unfold frameOkAt at h
  simp only [hi, hs, hop, Bool.and_eq_true, beq_iff_eq] at h
  exact h

theorem frameOkAt_PUSH_PARAM (hi : md.code[a]? = some i) (hs : hm[a]? = some (some s)) (hop : i.op = .PUSH_PARAM)
    (h : frameOkAt md starts hm a = true) : hAt starts hm a (a + 1) (s.h + md.params.length) = true := by
  unfold frameOkAt at h
  simp only [hi, hs, hop] at h
  exact h

theorem frameOkAt_SLIDE (hi : md.code[a]? = some i) (hs : hm[a]? = some (some s)) (hop : i.op = .SLIDE)
    (h : frameOkAt md starts hm a = true) :
    (i.w0 = 0 ∧ hAt starts hm a (a + 1) s.h = true) ∨
    (i.w0 ≠ 0 ∧ i.w0 + i.w1 ≤ s.h ∧ hAt starts hm a (a + 1) (s.h - i.w0) = true) ∨
    (i.w0 ≠ 0 ∧ s.h < i.w0 + i.w1 ∧ s.h = i.w0 + 1 ∧ i.w1 = npAt md starts a + 1 ∧ (md.code[a + 1]?.map (·.op)) = some .CALL ∧
      hAt starts hm a (a + 1) 1 = true) := by
  unfold frameOkAt at h
  simp only [hi, hs, hop] at h
  by_cases hq : i.w0 = 0
  · simp only [hq, beq_self_eq_true, if_true] at h
    exact Or.inl ⟨hq, h⟩
  · have hq' : (i.w0 == 0) = false := by simpa using hq
    simp only [hq', Bool.false_eq_true, if_false] at h
    by_cases hle : i.w0 + i.w1 ≤ s.h
    · simp only [hle, if_true] at h
      exact Or.inr (Or.inl ⟨hq, hle, h⟩)
    · simp only [hle, if_false, Bool.and_eq_true, beq_iff_eq] at h
      exact Or.inr (Or.inr ⟨hq, by omega, h.1.1.1, h.1.1.2, h.1.2, h.2⟩)

theorem frameOkAt_MK_INIT_ARRAY (hi : md.code[a]? = some i) (hs : hm[a]? = some (some s)) (hop : i.op = .MK_INIT_ARRAY)
    (h : frameOkAt md starts hm a = true) :
    ∃ ds, initExts s i.w0 = some ds ∧ extsCount ds < 4294967296 ∧ i.w0 + extsCount ds ≤ s.h ∧
      hAt starts hm a (a + 1) (s.h - (i.w0 + extsCount ds) + 1) = true := by
  unfold frameOkAt at h
  simp only [hi, hs, hop] at h
  split at h
  · rename_i ds hds
    simp only [Bool.and_eq_true, decide_eq_true_eq] at h
    exact ⟨ds, hds, h.1.1, h.1.2, h.2⟩
  · cases h

theorem frameOkAt_JUMP (hi : md.code[a]? = some i) (hs : hm[a]? = some (some s)) (hop : i.op = .JUMP)
    (h : frameOkAt md starts hm a = true) : sameFn starts a ((a : Int) + 1 + i32 i.w0).toNat = true := by
  unfold frameOkAt at h
  simp only [hi, hs, hop] at h
  exact h

theorem frameOkAt_JUMPZ (hi : md.code[a]? = some i) (hs : hm[a]? = some (some s)) (hop : i.op = .JUMPZ)
    (h : frameOkAt md starts hm a = true) :
    sameFn starts a ((a : Int) + 1 + i32 i.w0).toNat = true ∧ sameFn starts a (a + 1) = true := by
  unfold frameOkAt at h
  simp only [hi, hs, hop, Bool.and_eq_true] at h
  exact h

theorem frameOkAt_reach (hi : md.code[a]? = some i) (hs : hm[a]? = some (some s)) {d : Int} (hd : frameDist i = some d)
    (h : frameOkAt md starts hm a = true) : reachB (topAt starts a) (npAt md starts a) s.h d = true := by
  unfold frameDist at hd
  unfold frameOkAt at h
  simp only [hi, hs] at h
  split at hd <;> rename_i hop <;> first
    | (cases hd; simp only [hop, Bool.and_eq_true] at h; exact h.1)
    | cases hd

/-- every fall-through edge of the effect table stays inside its function -/
theorem frameOkAt_next (hi : md.code[a]? = some i) (hs : hm[a]? = some (some s)) {p q : Nat} (he : simpleEffect i = some (p, q))
    (h : frameOkAt md starts hm a = true) : sameFn starts a (a + 1) = true := by
  unfold frameOkAt at h
  simp only [hi, hs] at h
  split at h
  all_goals (rename_i hop)
  all_goals first
    | (simp only [Bool.and_eq_true] at h; exact h.2)
    | (exfalso; simp [simpleEffect, hop, binOpOf, unOpOf, convOf, nilCmpOf, strAddOf, arrOpOf, mkArrayElem] at he; done)
    | (simp only [he, Option.isNone_some, Bool.false_or] at h; exact h)

end
end Never.Ver

namespace Never.Ver
open Never Never.Vm

/-! ### what `pendOkAt` says: the calls in preparation -/

theorem mAt_spec {hm : HMap} {t : Nat} {ms : List Nat} (h : mAt hm t ms = true) : ∃ s', hm[t]? = some (some s') ∧ s'.marks = ms := by
  unfold mAt at h
  split at h
  · rename_i s' hs; exact ⟨s', hs, by simpa using h⟩
  · cases h

/-- the marks recorded at address `a` (none if unreached) -/
def marksAt (hm : HMap) (a : Nat) : List Nat := match hm[a]? with | some (some st) => st.marks | _ => []

theorem marksAt_eq {hm : HMap} {a : Nat} {st : AbsSt} (h : hm[a]? = some (some st)) : marksAt hm a = st.marks := by
  unfold marksAt; rw [h]

theorem mAt_marksAt {hm : HMap} {t : Nat} {ms : List Nat} (h : mAt hm t ms = true) : marksAt hm t = ms := by
  obtain ⟨s', e1, e2⟩ := mAt_spec h
  rw [marksAt_eq e1, e2]

section
variable {md : Module} {hm : HMap} {a : Nat} {i : Instr} {s : AbsSt}

theorem pendOkAt_nested (hi : md.code[a]? = some i) (hs : hm[a]? = some (some s)) (h : pendOkAt md hm a = true) :
    marksNested s.h s.marks = true := by
  unfold pendOkAt at h
  simp only [hi, hs, Bool.and_eq_true] at h
  exact h.1.1

theorem pendOkAt_word (hi : md.code[a]? = some i) (hs : hm[a]? = some (some s)) {d : Int} (hd : frameDist i = some d)
    (h : pendOkAt md hm a = true) : notPendingWord s.h s.marks d = true := by
  unfold pendOkAt at h
  simp only [hi, hs, hd, Bool.and_eq_true] at h
  exact h.1.2

theorem pendOkAt_MARK (hi : md.code[a]? = some i) (hs : hm[a]? = some (some s)) (hop : i.op = .MARK) (h : pendOkAt md hm a = true) :
    mAt hm (a + 1) (s.h :: s.marks) = true ∧ mAt hm i.w0 s.marks = true ∧ intRun md i.w0 = [] := by
  unfold pendOkAt at h
  simp only [hi, hs, hop, Bool.and_eq_true, List.isEmpty_iff] at h
  exact ⟨h.2.1.1, h.2.1.2, h.2.2⟩

theorem pendOkAt_SLIDE (hi : md.code[a]? = some i) (hs : hm[a]? = some (some s)) (hop : i.op = .SLIDE) (h : pendOkAt md hm a = true) :
    (i.w0 = 0 ∧ mAt hm (a + 1) s.marks = true) ∨
    (i.w0 ≠ 0 ∧ i.w0 + i.w1 ≤ s.h ∧ pendFloor s.marks + i.w0 + i.w1 ≤ s.h ∧ mAt hm (a + 1) s.marks = true) ∨
    (i.w0 ≠ 0 ∧ s.h < i.w0 + i.w1 ∧ s.marks = [] ∧ mAt hm (a + 1) [] = true) := by
  unfold pendOkAt at h
  simp only [hi, hs, hop, Bool.and_eq_true] at h
  have h2 := h.2
  by_cases hq : i.w0 = 0
  · simp only [hq, beq_self_eq_true, if_true] at h2; exact Or.inl ⟨hq, h2⟩
  · have hq' : (i.w0 == 0) = false := by simpa using hq
    simp only [hq', Bool.false_eq_true, if_false] at h2
    by_cases hle : i.w0 + i.w1 ≤ s.h
    · simp only [hle, if_true, Bool.and_eq_true, decide_eq_true_eq] at h2
      exact Or.inr (Or.inl ⟨hq, hle, h2.1, h2.2⟩)
    · simp only [hle, if_false, Bool.and_eq_true, beq_iff_eq] at h2
      exact Or.inr (Or.inr ⟨hq, by omega, h2.1, h2.2⟩)

theorem pendOkAt_CLEAR_STACK (hi : md.code[a]? = some i) (hs : hm[a]? = some (some s)) (hop : i.op = .CLEAR_STACK)
    (h : pendOkAt md hm a = true) : mAt hm (a + 1) [] = true := by
  unfold pendOkAt at h
  simp only [hi, hs, hop, Bool.and_eq_true] at h
  exact h.2

theorem pendOkAt_CALL (hi : md.code[a]? = some i) (hs : hm[a]? = some (some s)) (hop : i.op = .CALL)
    (h : pendOkAt md hm a = true) : pendFloor s.marks + 1 ≤ s.h := by
  unfold pendOkAt at h
  simp only [hi, hs, hop, Bool.and_eq_true, decide_eq_true_eq] at h
  exact h.2

theorem pendOkAt_PUSH_PARAM (hi : md.code[a]? = some i) (hs : hm[a]? = some (some s)) (hop : i.op = .PUSH_PARAM)
    (h : pendOkAt md hm a = true) : mAt hm (a + 1) s.marks = true := by
  unfold pendOkAt at h
  simp only [hi, hs, hop, Bool.and_eq_true] at h
  exact h.2

theorem pendOkAt_MK_INIT_ARRAY (hi : md.code[a]? = some i) (hs : hm[a]? = some (some s)) (hop : i.op = .MK_INIT_ARRAY)
    (h : pendOkAt md hm a = true) :
    ∃ ds, initExts s i.w0 = some ds ∧ pendFloor s.marks + i.w0 + extsCount ds ≤ s.h ∧ mAt hm (a + 1) s.marks = true ∧
      i.w0 ≤ (intRun md a).length ∧ ds = (intRun md a).take i.w0 := by
  unfold pendOkAt at h
  simp only [hi, hs, hop, Bool.and_eq_true] at h
  have h2 := h.2
  split at h2
  · rename_i ds hds
    simp only [Bool.and_eq_true, decide_eq_true_eq, beq_iff_eq] at h2
    exact ⟨ds, hds, h2.1.1.1, h2.1.1.2, h2.1.2, h2.2⟩
  · cases h2

theorem pendOkAt_JUMP (hi : md.code[a]? = some i) (hs : hm[a]? = some (some s)) (hop : i.op = .JUMP) (h : pendOkAt md hm a = true) :
    mAt hm ((a : Int) + 1 + i32 i.w0).toNat s.marks = true ∧ intRun md ((a : Int) + 1 + i32 i.w0).toNat = [] := by
  unfold pendOkAt at h
  simp only [hi, hs, hop, Bool.and_eq_true, List.isEmpty_iff] at h
  exact h.2

theorem pendOkAt_JUMPZ (hi : md.code[a]? = some i) (hs : hm[a]? = some (some s)) (hop : i.op = .JUMPZ) (h : pendOkAt md hm a = true) :
    pendFloor s.marks + 1 ≤ s.h ∧ mAt hm ((a : Int) + 1 + i32 i.w0).toNat s.marks = true ∧ mAt hm (a + 1) s.marks = true ∧
    intRun md ((a : Int) + 1 + i32 i.w0).toNat = [] := by
  unfold pendOkAt at h
  simp only [hi, hs, hop, Bool.and_eq_true, decide_eq_true_eq, List.isEmpty_iff] at h
  exact ⟨h.2.1.1.1, h.2.1.1.2, h.2.1.2, h.2.2⟩

/-- an instruction of the effect table (not JUMPZ): after popping its operands it still stands at or above the innermost pending
record, and its successor carries the same marks -/
theorem pendOkAt_table (hi : md.code[a]? = some i) (hs : hm[a]? = some (some s)) {p q : Nat} (he : simpleEffect i = some (p, q))
    (hj : i.op ≠ .JUMPZ) (h : pendOkAt md hm a = true) : pendFloor s.marks + p ≤ s.h ∧ mAt hm (a + 1) s.marks = true := by
  unfold pendOkAt at h
  simp only [hi, hs, Bool.and_eq_true] at h
  have h2 := h.2
  split at h2
  all_goals (rename_i hop)
  all_goals first
    | (exfalso; simp [simpleEffect, hop, binOpOf, unOpOf, convOf, nilCmpOf, strAddOf, arrOpOf, mkArrayElem] at he; done)
    | (exact absurd hop hj)
    | (simp only [he, Bool.and_eq_true, decide_eq_true_eq] at h2; exact h2)

end

/-- behind an instruction that is not `INT` no constant run continues; behind `INT c` it is `c ::` the run before it -/
theorem intRun_succ (md : Module) (a : Nat) (i : Instr) (hi : md.code[a]? = some i) :
    intRun md (a + 1) = if i.op = .INT then (bv32 i.w0).toInt :: intRun md a else [] := by
  show (match md.code[a]? with | some i => if i.op == Opc.INT then (bv32 i.w0).toInt :: intRun md a else [] | none => []) = _
  rw [hi]
  by_cases h : i.op = .INT <;> simp [h]

theorem marksNested_floor : ∀ {h : Nat} {ms : List Nat}, marksNested h ms = true → pendFloor ms ≤ h := by
  intro h ms hn
  cases ms with
  | nil => simp [pendFloor]
  | cons m rest =>
    unfold marksNested at hn
    simp only [Bool.and_eq_true, decide_eq_true_eq] at hn
    simp only [pendFloor]; exact hn.1

end Never.Ver
