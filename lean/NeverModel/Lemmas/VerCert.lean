import NeverModel.Model.Verify
set_option linter.unusedSimpArgs false
set_option linter.unusedVariables false
/-! the certificate re-check `flowOk` of M-Ver, taken apart: what it says at one address -/
namespace Never.Ver
open Never Never.Vm

theorem flowOk_at {md : Module} {hm : HMap} (h : flowOk md hm = true) {a : Nat} (ha : a < md.code.size) :
    flowOkAt md hm a = true ∧ frameOkAt md (funcStarts md) hm a = true := by
  unfold flowOk at h
  simp only [Bool.and_eq_true] at h
  have := (List.all_eq_true.mp h.1.1.1) a (List.mem_range.mpr ha)
  simpa using this

theorem flowOk_handlers {md : Module} {hm : HMap} (h : flowOk md hm = true) : handlersOk md hm = true := by
  unfold flowOk at h
  simp only [Bool.and_eq_true] at h
  exact h.1.1.2

theorem flowOk_starts {md : Module} {hm : HMap} (h : flowOk md hm = true) {a : Nat} (ha : a ∈ funcStarts md) :
    ∃ st, hm[a]? = some (some st) ∧ st.h = 0 := by
  unfold flowOk at h
  simp only [Bool.and_eq_true] at h
  have := (List.all_eq_true.mp h.1.2) a ha
  split at this
  · rename_i s hs; exact ⟨s, hs, by simpa using this⟩
  · cases this

theorem flowOk_entry {md : Module} {hm : HMap} (h : flowOk md hm = true) :
    ∃ st, hm[0]? = some (some st) ∧ npAt md (funcStarts md) 0 + st.h = 0 := by
  unfold flowOk at h
  simp only [Bool.and_eq_true] at h
  have := h.2
  unfold entryOk at this
  split at this
  · rename_i s hs; exact ⟨s, hs, by simpa using this⟩
  · cases this

theorem lt_size_of_getElem? {α} {xs : Array α} {a : Nat} {x : α} (h : xs[a]? = some x) : a < xs.size := by
  rcases Nat.lt_or_ge a xs.size with h' | h'
  · exact h'
  · rw [Array.getElem?_eq_none (by omega)] at h; cases h

/-- `hAt` spelled out -/
theorem hAt_spec {starts : List Nat} {hm : HMap} {a t k : Nat} (h : hAt starts hm a t k = true) :
    ∃ s', hm[t]? = some (some s') ∧ s'.h = k ∧ sameFn starts a t = true := by
  unfold hAt at h
  split at h
  · rename_i s' hs
    simp only [Bool.and_eq_true, beq_iff_eq] at h
    exact ⟨s', hs, h.1, h.2⟩
  · cases h

theorem sameFn_np {md : Module} {starts : List Nat} {a t : Nat} (h : sameFn starts a t = true) :
    npAt md starts t = npAt md starts a ∧ topAt starts t = topAt starts a := by
  unfold sameFn at h
  have e : regionStart starts a = regionStart starts t := by simpa using h
  unfold npAt paramsAt topAt
  rw [e]; exact ⟨rfl, rfl⟩

end Never.Ver

namespace Never.Ver
open Never Never.Vm

/-! ### what `frameOkAt` says for each opcode it re-checks -/

section
variable {md : Module} {starts : List Nat} {hm : HMap} {a : Nat} {i : Instr} {s : AbsSt}

theorem frameOkAt_MARK (hi : md.code[a]? = some i) (hs : hm[a]? = some (some s)) (hop : i.op = .MARK)
    (h : frameOkAt md starts hm a = true) :
    hAt starts hm a i.w0 (s.h + 1) = true ∧ hAt starts hm a (a + 1) (s.h + 5) = true := by
  unfold frameOkAt at h
  simp only [hi, hs, hop, Bool.and_eq_true] at h
  exact h

theorem frameOkAt_CALL (hi : md.code[a]? = some i) (hs : hm[a]? = some (some s)) (hop : i.op = .CALL)
    (h : frameOkAt md starts hm a = true) :
    (markedCall md a = true ∧ 1 ≤ s.h) ∨ (markedCall md a = false ∧ s.h = 1) := by
  unfold frameOkAt at h
  simp only [hi, hs, hop] at h
  by_cases hm' : markedCall md a = true
  · simp only [hm', if_true, decide_eq_true_eq] at h; exact Or.inl ⟨hm', h⟩
  · have : markedCall md a = false := by simpa using hm'
    simp only [this, Bool.false_eq_true, if_false, beq_iff_eq] at h; exact Or.inr ⟨this, h⟩

theorem frameOkAt_RET (hi : md.code[a]? = some i) (hs : hm[a]? = some (some s)) (hop : i.op = .RET)
    (h : frameOkAt md starts hm a = true) : s.h = 1 := by
  unfold frameOkAt at h
  simp only [hi, hs, hop, beq_iff_eq] at h
  exact h

theorem frameOkAt_CLEAR_STACK (hi : md.code[a]? = some i) (hs : hm[a]? = some (some s)) (hop : i.op = .CLEAR_STACK)
    (h : frameOkAt md starts hm a = true) : i.w0 = npAt md starts a ∧ hAt starts hm a (a + 1) 0 = true := by
  unfold frameOkAt at h
  simp only [hi, hs, hop, Bool.and_eq_true, beq_iff_eq] at h
  exact h

theorem frameOkAt_PUSH_PARAM (hi : md.code[a]? = some i) (hs : hm[a]? = some (some s)) (hop : i.op = .PUSH_PARAM)
    (h : frameOkAt md starts hm a = true) : hAt starts hm a (a + 1) (s.h + md.params.length) = true := by
  unfold frameOkAt at h
  simp only [hi, hs, hop] at h
  exact h

theorem frameOkAt_SLIDE (hi : md.code[a]? = some i) (hs : hm[a]? = some (some s)) (hop : i.op = .SLIDE)
    (h : frameOkAt md starts hm a = true) :
    (i.w0 = 0 ∧ hAt starts hm a (a + 1) s.h = true) ∨
    (i.w0 ≠ 0 ∧ i.w0 + i.w1 ≤ s.h ∧ hAt starts hm a (a + 1) (s.h - i.w0) = true) ∨
    (i.w0 ≠ 0 ∧ s.h < i.w0 + i.w1 ∧ s.h = i.w0 + 1 ∧ i.w1 = npAt md starts a + 1 ∧ (md.code[a + 1]?.map (·.op)) = some .CALL ∧
      hAt starts hm a (a + 1) 1 = true) := by
  unfold frameOkAt at h
  simp only [hi, hs, hop] at h
  by_cases hq : i.w0 = 0
  · simp only [hq, beq_self_eq_true, if_true] at h
    exact Or.inl ⟨hq, h⟩
  · have hq' : (i.w0 == 0) = false := by simpa using hq
    simp only [hq', Bool.false_eq_true, if_false] at h
    by_cases hle : i.w0 + i.w1 ≤ s.h
    · simp only [hle, if_true] at h
      exact Or.inr (Or.inl ⟨hq, hle, h⟩)
    · simp only [hle, if_false, Bool.and_eq_true, beq_iff_eq] at h
      exact Or.inr (Or.inr ⟨hq, by omega, h.1.1.1, h.1.1.2, h.1.2, h.2⟩)

theorem frameOkAt_MK_INIT_ARRAY (hi : md.code[a]? = some i) (hs : hm[a]? = some (some s)) (hop : i.op = .MK_INIT_ARRAY)
    (h : frameOkAt md starts hm a = true) :
    ∃ ds, initExts s i.w0 = some ds ∧ extsCount ds < 4294967296 ∧ i.w0 + extsCount ds ≤ s.h ∧
      hAt starts hm a (a + 1) (s.h - (i.w0 + extsCount ds) + 1) = true := by
  unfold frameOkAt at h
  simp only [hi, hs, hop] at h
  split at h
  · rename_i ds hds
    simp only [Bool.and_eq_true, decide_eq_true_eq] at h
    exact ⟨ds, hds, h.1.1, h.1.2, h.2⟩
  · cases h

theorem frameOkAt_JUMP (hi : md.code[a]? = some i) (hs : hm[a]? = some (some s)) (hop : i.op = .JUMP)
    (h : frameOkAt md starts hm a = true) : sameFn starts a ((a : Int) + 1 + i32 i.w0).toNat = true := by
  unfold frameOkAt at h
  simp only [hi, hs, hop] at h
  exact h

theorem frameOkAt_JUMPZ (hi : md.code[a]? = some i) (hs : hm[a]? = some (some s)) (hop : i.op = .JUMPZ)
    (h : frameOkAt md starts hm a = true) :
    sameFn starts a ((a : Int) + 1 + i32 i.w0).toNat = true ∧ sameFn starts a (a + 1) = true := by
  unfold frameOkAt at h
  simp only [hi, hs, hop, Bool.and_eq_true] at h
  exact h

/-- the distance below `sp` at which a frame-relative opcode addresses the stack (`none`: not such an opcode) -/
def frameDist (i : Instr) : Option Int :=
  match i.op with
  | .ID_LOCAL | .ID_DIM_LOCAL | .ID_DIM_SLICE | .OP_DUP_INT | .OP_INC_INT | .OP_DEC_INT | .ARRAY_APPEND => some (i32 i.w0 - i32 i.w1)
  | .VEC_DEREF | .VECREF_VEC_DEREF => some (i32 i.w0)
  | .DUP => some ((i.w0 : Int) - 1)
  | .REWRITE => some (i.w0 : Int)
  | _ => none

theorem frameOkAt_reach (hi : md.code[a]? = some i) (hs : hm[a]? = some (some s)) {d : Int} (hd : frameDist i = some d)
    (h : frameOkAt md starts hm a = true) : reachB (topAt starts a) (npAt md starts a) s.h d = true := by
  unfold frameDist at hd
  unfold frameOkAt at h
  simp only [hi, hs] at h
  split at hd <;> rename_i hop <;> first
    | (cases hd; simp only [hop, Bool.and_eq_true] at h; exact h.1)
    | cases hd

/-- every fall-through edge of the effect table stays inside its function -/
theorem frameOkAt_next (hi : md.code[a]? = some i) (hs : hm[a]? = some (some s)) {p q : Nat} (he : simpleEffect i = some (p, q))
    (h : frameOkAt md starts hm a = true) : sameFn starts a (a + 1) = true := by
  unfold frameOkAt at h
  simp only [hi, hs] at h
  split at h
  all_goals (rename_i hop)
  all_goals first
    | (simp only [Bool.and_eq_true] at h; exact h.2)
    | (exfalso; simp [simpleEffect, hop, binOpOf, unOpOf, convOf, nilCmpOf, strAddOf, arrOpOf, mkArrayElem] at he; done)
    | (simp only [he, Option.isNone_some, Bool.false_or] at h; exact h)

end
end Never.Ver
