import NeverModel.Lemmas.FfiArith
/-! structural lemmas for M-FFI: alignments, emitter lengths, the descriptor parse, and the
specification of the packing walk (`valueField`/`valueLoop`) against the C layout rule -/
namespace Never.Ffi

mutual
theorem cAlign_isAl : (t : FTy) → IsAl (cAlign t)
  | .prim p => by cases p <;> simp [cAlign, primAlign, primSize, IsAl]
  | .record fs => by simp only [cAlign]; exact cAlignF_isAl fs
theorem cAlignF_isAl : (fs : FTys) → IsAl (cAlignF fs)
  | .nil => by simp [cAlignF, IsAl]
  | .cons t ts => by simp only [cAlignF]; exact (cAlign_isAl t).max (cAlignF_isAl ts)
end

theorem cAlign_dvd_of_cons (t : FTy) (ts : FTys) (base : Nat) (h : cAlignF (.cons t ts) ∣ base) :
    cAlign t ∣ base ∧ cAlignF ts ∣ base := by
  have h1 := cAlign_isAl t
  have h2 := cAlignF_isAl ts
  simp only [cAlignF] at h
  constructor
  · exact Nat.dvd_trans (h1.dvd_of_le (h1.max h2) (Nat.le_max_left _ _)) h
  · exact Nat.dvd_trans (h2.dvd_of_le (h1.max h2) (Nat.le_max_right _ _)) h

theorem cEnd_ge : (fs : FTys) → (rel : Nat) → rel ≤ cEnd fs rel
  | .nil, rel => by simp [cEnd]
  | .cons t ts, rel => by
    simp only [cEnd]
    have := cEnd_ge ts (roundUp rel (cAlign t) + cSize t)
    have := roundUp_ge rel (cAlign t) (cAlign_isAl t).pos
    omega

theorem cEnd_le_cSize (fs : FTys) : cEnd fs 0 ≤ cSize (.record fs) := by
  simp only [cSize]
  exact roundUp_ge _ _ (cAlignF_isAl fs).pos

/-! ### the emitter: `total_count` is the number of codes written -/
mutual
theorem emitParam_len : (t : FTy) → (emitParam t).2 = (emitParam t).1.length
  | .prim p => by simp [emitParam]
  | .record fs => by
    have := emitList_len fs
    simp only [emitParam, List.length_cons]
    omega
theorem emitList_len : (fs : FTys) → (emitList fs).2 = (emitList fs).1.length
  | .nil => by simp [emitList]
  | .cons t ts => by
    have h1 := emitParam_len t
    have h2 := emitList_len ts
    simp only [emitList, List.length_append]
    omega
end

theorem emitParam_record (fs : FTys) :
    (emitParam (.record fs)).1 = .record fs.length (1 + (emitList fs).1.length) :: (emitList fs).1 := by
  simp [emitParam, emitList_len]

theorem emitList_cons (t : FTy) (ts : FTys) :
    (emitList (.cons t ts)).1 = (emitParam t).1 ++ (emitList ts).1 := by
  simp [emitList]

/-! ### `vm_execute_func_ffi_record_type` reads back what the emitter wrote -/
mutual
theorem recordType_emitParam : (t : FTy) → (ts : FTys) → (n : Nat) → (rest : List Desc) → (f : Nat) →
    (hf : (emitParam t).1.length + (emitList ts).1.length ≤ f) →
    (ih : ∀ f', (emitList ts).1.length ≤ f' → recordType f' n ((emitList ts).1 ++ rest) = some (ts, rest)) →
    recordType f (n + 1) ((emitParam t).1 ++ ((emitList ts).1 ++ rest)) = some (.cons t ts, rest)
  | .prim p, ts, n, rest, f, hf, ih => by
    simp only [emitParam, List.length_cons, List.length_nil] at hf
    obtain ⟨f, rfl⟩ : ∃ g, f = g + 1 := ⟨f - 1, by omega⟩
    simp only [emitParam, List.cons_append, List.nil_append, recordType]
    rw [ih f (by omega)]
  | .record fs, ts, n, rest, f, hf, ih => by
    rw [emitParam_record] at hf ⊢
    simp only [List.length_cons] at hf
    obtain ⟨f, rfl⟩ : ∃ g, f = g + 1 := ⟨f - 1, by omega⟩
    simp only [List.cons_append, recordType]
    rw [recordType_emitList fs ((emitList ts).1 ++ rest) f (by omega)]
    simp only []
    rw [ih f (by omega)]
theorem recordType_emitList : (fs : FTys) → (rest : List Desc) → (f : Nat) →
    (hf : (emitList fs).1.length ≤ f) →
    recordType f fs.length ((emitList fs).1 ++ rest) = some (fs, rest)
  | .nil, rest, f, _ => by
    cases f <;> simp [emitList, FTys.length, recordType]
  | .cons t ts, rest, f, hf => by
    rw [emitList_cons] at hf ⊢
    rw [List.length_append] at hf
    rw [List.append_assoc]
    exact recordType_emitParam t ts ts.length rest f hf
      (fun f' hf' => recordType_emitList ts rest f' hf')
end

/-! ### the struct buffer -/

theorem Buf.write_spec (b : Buf) (off n v : Nat) (h : off + n ≤ b.size) :
    ∃ b', b.write off n v = some b' ∧ b'.size = b.size ∧ (∀ i, i < off → b'.get i = b.get i) ∧
      readLE b'.get off n = v % 256 ^ n := by
  refine ⟨⟨b.size, fun i => if off ≤ i ∧ i < off + n then byteOf v (i - off) else b.get i⟩,
    by simp only [Buf.write, h, if_true], rfl, ?_, ?_⟩
  · intro i hi
    have : ¬(off ≤ i ∧ i < off + n) := by omega
    simp only [this, if_false]
  · have := readLE_write b.get off n v 0 n (by omega)
    simpa using this

/-- payload of a scalar value -/
def payload : FVal → Nat
  | .bool x => x | .int x => x | .long x => x | .float x => x | .double x => x
  | .char x => x | .string (some q) => q | .cptr q => q | _ => 0

private theorem store_ok (buf : Buf) (o n x : Nat) (hb : o + n ≤ buf.size) (hx : x < 256 ^ n) :
    ∃ b' isNil, (buf.write o n x).map (·, false) = some (b', isNil) ∧ isNil = false ∧
      b'.size = buf.size ∧ (∀ i, i < o → b'.get i = buf.get i) ∧ readLE b'.get o n = x := by
  obtain ⟨b', h1, h2, h3, h4⟩ := Buf.write_spec buf o n x hb
  exact ⟨b', false, by simp [h1], rfl, h2, h3, by rw [h4, Nat.mod_eq_of_lt hx]⟩

theorem storePrim_spec (p : Prim) (v : FVal) (buf : Buf) (o : Nat) (hty : HasTy v (.prim p) = true)
    (hb : o + primSize p ≤ buf.size) :
    ∃ b' isNil, storePrim p v buf o = some (b', isNil) ∧ isNil = !NilFree v ∧ b'.size = buf.size ∧
      (∀ i, i < o → b'.get i = buf.get i) ∧
      (NilFree v = true → readLE b'.get o (primSize p) = payload v ∧ payload v < 256 ^ primSize p) := by
  cases p <;> cases v <;> simp only [HasTy, decide_eq_true_eq, Bool.false_eq_true] at hty
  · rename_i x
    obtain ⟨b', n, h1, h2, h3, h4, h5⟩ := store_ok buf o 1 x hb (by omega)
    exact ⟨b', n, h1, by simp [h2, NilFree], h3, h4, fun _ => ⟨h5, by simp [payload, primSize]; omega⟩⟩
  · rename_i x
    obtain ⟨b', n, h1, h2, h3, h4, h5⟩ := store_ok buf o 4 x hb (by omega)
    exact ⟨b', n, h1, by simp [h2, NilFree], h3, h4, fun _ => ⟨h5, by simp [payload, primSize]; omega⟩⟩
  · rename_i x
    obtain ⟨b', n, h1, h2, h3, h4, h5⟩ := store_ok buf o 8 x hb (by omega)
    exact ⟨b', n, h1, by simp [h2, NilFree], h3, h4, fun _ => ⟨h5, by simp [payload, primSize]; omega⟩⟩
  · rename_i x
    obtain ⟨b', n, h1, h2, h3, h4, h5⟩ := store_ok buf o 4 x hb (by omega)
    exact ⟨b', n, h1, by simp [h2, NilFree], h3, h4, fun _ => ⟨h5, by simp [payload, primSize]; omega⟩⟩
  · rename_i x
    obtain ⟨b', n, h1, h2, h3, h4, h5⟩ := store_ok buf o 8 x hb (by omega)
    exact ⟨b', n, h1, by simp [h2, NilFree], h3, h4, fun _ => ⟨h5, by simp [payload, primSize]; omega⟩⟩
  · rename_i x
    obtain ⟨b', n, h1, h2, h3, h4, h5⟩ := store_ok buf o 1 x hb (by omega)
    exact ⟨b', n, h1, by simp [h2, NilFree], h3, h4, fun _ => ⟨h5, by simp [payload, primSize]; omega⟩⟩
  · rename_i q
    cases q with
    | none => exact ⟨buf, true, by simp [storePrim], by simp [NilFree], rfl, fun _ _ => rfl, by simp [NilFree]⟩
    | some q =>
      simp only [decide_eq_true_eq] at hty
      obtain ⟨b', n, h1, h2, h3, h4, h5⟩ := store_ok buf o 8 q hb (by omega)
      exact ⟨b', n, by simpa [storePrim] using h1, by simp [h2, NilFree], h3, h4,
        fun _ => ⟨h5, by simp [payload, primSize]; omega⟩⟩
  · rename_i x
    obtain ⟨b', n, h1, h2, h3, h4, h5⟩ := store_ok buf o 8 x hb (by omega)
    exact ⟨b', n, h1, by simp [h2, NilFree], h3, h4, fun _ => ⟨h5, by simp [payload, primSize]; omega⟩⟩

/-- what the packing walk guarantees about its result -/
structure VSpec (r : VRes) (rest : List Desc) (buf : Buf) (lo hi : Nat) (nf : Bool)
    (tr : List (Prim × Nat)) : Prop where
  ret : r.ret = !nf
  code : r.code = rest
  off : r.off.toNat = hi
  size : r.buf.size = buf.size
  frame : ∀ i, i < lo → r.buf.get i = buf.get i
  trace : nf = true → r.trace = tr

mutual
/-- one field: the walk stores it at `base + roundUp rel (alignof t)` — the C member offset — and
leaves `*offset` at its end; it consumes exactly the field's descriptor -/
theorem valueField_spec : (t : FTy) → (d : Desc) → (code rest : List Desc) →
    (hemit : (emitParam t).1 ++ rest = d :: code) → (v : FVal) → (hty : HasTy v t = true) →
    (base rel : Nat) → (buf : Buf) → (off : BitVec 32) → (hoff : off.toNat = base + rel) →
    (hal : cAlign t ∣ base) → (hb : base + roundUp rel (cAlign t) + cSize t ≤ buf.size) →
    (hs : buf.size < 2 ^ 32) →
    ∃ r, valueField t d v code buf off = some r ∧
      VSpec r rest buf (base + roundUp rel (cAlign t)) (base + roundUp rel (cAlign t) + cSize t)
        (NilFree v) (cLeaves t (base + roundUp rel (cAlign t)))
  | .prim p, d, code, rest, hemit, v, hty, base, rel, buf, off, hoff, hal, hb, hs => by
    simp only [emitParam, List.cons_append, List.nil_append, List.cons.injEq] at hemit
    obtain ⟨rfl, rfl⟩ := hemit
    have hA := cAlign_isAl (.prim p)
    have hru : roundUp (base + rel) (cAlign (.prim p)) = base + roundUp rel (cAlign (.prim p)) :=
      roundUp_base_add base rel _ hA.pos hal
    have ho : (align32 off (BitVec.ofNat 32 (elAlign (.prim p)))).toNat
        = base + roundUp rel (cAlign (.prim p)) := by
      rw [align32_toNat off _ hA (by rw [hoff, hru]; simp only [cSize] at hb; omega), hoff, hru]
    simp only [cSize] at hb
    obtain ⟨b', isNil, h1, h2, h3, h4, _⟩ := storePrim_spec p v buf
      (align32 off (BitVec.ofNat 32 (elAlign (.prim p)))).toNat hty (by rw [ho]; exact hb)
    simp only [valueField, h1]
    refine ⟨_, rfl, ?_⟩
    constructor
    · exact h2
    · rfl
    · simp only [elSize, cSize]
      rw [add32_toNat _ _ (by rw [ho]; omega), ho]
    · exact h3
    · intro i hi; exact h4 i (by rw [ho]; exact hi)
    · intro hnf
      simp only [h2, hnf, Bool.not_true, Bool.false_eq_true, if_false, cLeaves, ho]
  | .record fs, d, code, rest, hemit, v, hty, base, rel, buf, off, hoff, hal, hb, hs => by
    rw [emitParam_record] at hemit
    simp only [List.cons_append, List.cons.injEq] at hemit
    obtain ⟨rfl, rfl⟩ := hemit
    have hA := cAlign_isAl (.record fs)
    have hru : roundUp (base + rel) (cAlign (.record fs)) = base + roundUp rel (cAlign (.record fs)) :=
      roundUp_base_add base rel _ hA.pos hal
    have hsz := cEnd_le_cSize fs
    have ho : (align32 off (BitVec.ofNat 32 (elAlign (.record fs)))).toNat
        = base + roundUp rel (cAlign (.record fs)) := by
      rw [align32_toNat off _ hA (by rw [hoff, hru]; omega), hoff, hru]
    have hoe : (add32 (align32 off (BitVec.ofNat 32 (elAlign (.record fs)))) (elSize (.record fs))).toNat
        = base + roundUp rel (cAlign (.record fs)) + cSize (.record fs) := by
      rw [add32_toNat _ _ (by rw [ho]; simp only [elSize]; omega), ho]
    cases v with
    | record inner =>
      simp only [HasTy] at hty
      have hdv : cAlignF fs ∣ base + roundUp rel (cAlign (.record fs)) :=
        Nat.dvd_add (by simpa [cAlign] using hal) (by simpa [cAlign] using roundUp_dvd rel (cAlign (.record fs)))
      obtain ⟨r, hr, hspec⟩ := valueLoop_spec fs rest inner hty
        (base + roundUp rel (cAlign (.record fs))) 0 buf _ (by rw [ho]; rfl) hdv (by omega) hs
      simp only [valueField, hr]
      refine ⟨_, rfl, ?_⟩
      constructor
      · simpa [NilFree] using hspec.ret
      · exact hspec.code
      · exact hoe
      · exact hspec.size
      · intro i hi; exact hspec.frame i (by omega)
      · intro hnf
        simp only [NilFree] at hnf
        simpa [cLeaves] using hspec.trace hnf
    | nilrec =>
      simp only [valueField]
      have h0 : (1 + (emitList fs).1.length = 0) = False := by simp
      simp only [h0, if_false]
      refine ⟨_, rfl, ?_⟩
      constructor
      · simp [NilFree]
      · simp
      · exact hoe
      · rfl
      · intro _ _; rfl
      · intro hnf; simp [NilFree] at hnf
    | bool _ => simp [HasTy] at hty
    | int _ => simp [HasTy] at hty
    | long _ => simp [HasTy] at hty
    | float _ => simp [HasTy] at hty
    | double _ => simp [HasTy] at hty
    | char _ => simp [HasTy] at hty
    | string _ => simp [HasTy] at hty
    | cptr _ => simp [HasTy] at hty
/-- the loop over the members of a struct based at `base`, the previous member having ended at
relative offset `rel` -/
theorem valueLoop_spec : (fs : FTys) → (rest : List Desc) → (vs : FVals) → (hty : HasTys vs fs = true) →
    (base rel : Nat) → (buf : Buf) → (off : BitVec 32) → (hoff : off.toNat = base + rel) →
    (hal : cAlignF fs ∣ base) → (hb : base + cEnd fs rel ≤ buf.size) → (hs : buf.size < 2 ^ 32) →
    ∃ r, valueLoop fs fs.length vs ((emitList fs).1 ++ rest) buf off = some r ∧
      VSpec r rest buf (base + rel) (base + cEnd fs rel) (NilFreeL vs) (cLeavesF fs base rel)
  | .nil, rest, vs, hty, base, rel, buf, off, hoff, hal, hb, hs => by
    cases vs <;> simp only [HasTys, Bool.false_eq_true] at hty
    simp only [FTys.length, valueLoop, emitList, List.nil_append]
    refine ⟨_, rfl, ?_⟩
    constructor <;> simp [NilFreeL, cEnd, hoff, cLeavesF]
  | .cons t ts, rest, vs, hty, base, rel, buf, off, hoff, hal, hb, hs => by
    cases vs with
    | nil => simp [HasTys] at hty
    | cons v vs =>
      simp only [HasTys, Bool.and_eq_true] at hty
      obtain ⟨hal1, hal2⟩ := cAlign_dvd_of_cons t ts base hal
      simp only [cEnd] at hb
      have hge := cEnd_ge ts (roundUp rel (cAlign t) + cSize t)
      have hrg := roundUp_ge rel (cAlign t) (cAlign_isAl t).pos
      rw [emitList_cons, List.append_assoc]
      obtain ⟨d, code, hdc⟩ : ∃ d code, (emitParam t).1 ++ ((emitList ts).1 ++ rest) = d :: code := by
        cases t with
        | prim p => exact ⟨.prim p, _, rfl⟩
        | record fs => exact ⟨_, _, by rw [emitParam_record]; rfl⟩
      obtain ⟨r1, hr1, s1⟩ := valueField_spec t d code ((emitList ts).1 ++ rest) hdc v hty.1 base rel buf off
        hoff hal1 (by omega) hs
      obtain ⟨r2, hr2, s2⟩ := valueLoop_spec ts rest vs hty.2 base (roundUp rel (cAlign t) + cSize t)
        r1.buf r1.off (by rw [s1.off]; omega) hal2 (by rw [s1.size]; omega) (by rw [s1.size]; exact hs)
      rw [hdc]
      simp only [FTys.length, valueLoop, hr1, s1.code, hr2]
      refine ⟨_, rfl, ?_⟩
      constructor
      · simp [s1.ret, s2.ret, NilFreeL, Bool.not_and]
      · exact s2.code
      · simp only [cEnd]; rw [s2.off]
      · rw [s2.size, s1.size]
      · intro i hi
        rw [s2.frame i (by omega), s1.frame i (by omega)]
      · intro hnf
        simp only [NilFreeL, Bool.and_eq_true] at hnf
        simp only [cLeavesF, s1.trace hnf.1, s2.trace hnf.2]
end

end Never.Ffi
