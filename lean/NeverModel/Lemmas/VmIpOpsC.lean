import NeverModel.Lemmas.VmIp
set_option linter.unusedSimpArgs false
set_option linter.unusedVariables false
/-! per-opcode: the handler leaves `ip` alone and leaves the running state only by raising or stopping (generated list) -/
namespace Never.Vm
open Never Never.Num

set_option maxRecDepth 8000 in
theorem kipop_OP_ASS_FLOAT (md : Module) (ins : Instr) (orc : Oracle) (h : ins.op = .OP_ASS_FLOAT) : KeepsIp (exec md ins orc) := by exec_kip h

set_option maxRecDepth 8000 in
theorem kipop_OP_ASS_DOUBLE (md : Module) (ins : Instr) (orc : Oracle) (h : ins.op = .OP_ASS_DOUBLE) : KeepsIp (exec md ins orc) := by exec_kip h

set_option maxRecDepth 8000 in
theorem kipop_OP_ASS_CHAR (md : Module) (ins : Instr) (orc : Oracle) (h : ins.op = .OP_ASS_CHAR) : KeepsIp (exec md ins orc) := by exec_kip h

set_option maxRecDepth 8000 in
theorem kipop_OP_ASS_STRING (md : Module) (ins : Instr) (orc : Oracle) (h : ins.op = .OP_ASS_STRING) : KeepsIp (exec md ins orc) := by exec_kip h

set_option maxRecDepth 8000 in
theorem kipop_OP_ASS_C_PTR (md : Module) (ins : Instr) (orc : Oracle) (h : ins.op = .OP_ASS_C_PTR) : KeepsIp (exec md ins orc) := by exec_kip h

set_option maxRecDepth 8000 in
theorem kipop_OP_ASS_ARRAY (md : Module) (ins : Instr) (orc : Oracle) (h : ins.op = .OP_ASS_ARRAY) : KeepsIp (exec md ins orc) := by exec_kip h

set_option maxRecDepth 8000 in
theorem kipop_OP_ASS_RECORD (md : Module) (ins : Instr) (orc : Oracle) (h : ins.op = .OP_ASS_RECORD) : KeepsIp (exec md ins orc) := by exec_kip h

set_option maxRecDepth 8000 in
theorem kipop_OP_ASS_FUNC (md : Module) (ins : Instr) (orc : Oracle) (h : ins.op = .OP_ASS_FUNC) : KeepsIp (exec md ins orc) := by exec_kip h

set_option maxRecDepth 8000 in
theorem kipop_OP_ASS_RECORD_NIL (md : Module) (ins : Instr) (orc : Oracle) (h : ins.op = .OP_ASS_RECORD_NIL) : KeepsIp (exec md ins orc) := by exec_kip h

set_option maxRecDepth 8000 in
theorem kipop_REWRITE (md : Module) (ins : Instr) (orc : Oracle) (h : ins.op = .REWRITE) : KeepsIp (exec md ins orc) := by exec_kip h

set_option maxRecDepth 8000 in
theorem kipop_MK_RANGE (md : Module) (ins : Instr) (orc : Oracle) (h : ins.op = .MK_RANGE) : KeepsIp (exec md ins orc) := by exec_kip h

set_option maxRecDepth 8000 in
theorem kipop_RECORD (md : Module) (ins : Instr) (orc : Oracle) (h : ins.op = .RECORD) : KeepsIp (exec md ins orc) := by exec_kip h

set_option maxRecDepth 8000 in
theorem kipop_GLOBAL_VEC (md : Module) (ins : Instr) (orc : Oracle) (h : ins.op = .GLOBAL_VEC) : KeepsIp (exec md ins orc) := by exec_kip h

set_option maxRecDepth 8000 in
theorem kipop_ALLOC (md : Module) (ins : Instr) (orc : Oracle) (h : ins.op = .ALLOC) : KeepsIp (exec md ins orc) := by exec_kip h

set_option maxRecDepth 8000 in
theorem kipop_RANGE_DEREF (md : Module) (ins : Instr) (orc : Oracle) (h : ins.op = .RANGE_DEREF) : KeepsIp (exec md ins orc) := by exec_kip h

set_option maxRecDepth 8000 in
theorem kipop_RECORD_UNPACK (md : Module) (ins : Instr) (orc : Oracle) (h : ins.op = .RECORD_UNPACK) : KeepsIp (exec md ins orc) := by exec_kip h

set_option maxRecDepth 8000 in
theorem kipop_SLICE_DEREF (md : Module) (ins : Instr) (orc : Oracle) (h : ins.op = .SLICE_DEREF) : KeepsIp (exec md ins orc) := by exec_kip h

set_option maxRecDepth 8000 in
theorem kipop_ARRAY_DEREF (md : Module) (ins : Instr) (orc : Oracle) (h : ins.op = .ARRAY_DEREF) : KeepsIp (exec md ins orc) := by exec_kip h

set_option maxRecDepth 8000 in
theorem kipop_ARRAYREF_DEREF (md : Module) (ins : Instr) (orc : Oracle) (h : ins.op = .ARRAYREF_DEREF) : KeepsIp (exec md ins orc) := by exec_kip h

set_option maxRecDepth 8000 in
theorem kipop_BUILD_IN (md : Module) (ins : Instr) (orc : Oracle) (h : ins.op = .BUILD_IN) : KeepsIp (exec md ins orc) := by
  unfold exec
  simp only [h, binOpOf, unOpOf, convOf, nilCmpOf, strAddOf, arrOpOf, mkArrayElem]
  exact KeepsIp.bind kip_getSp (fun _ => kip_buildIn _ _)

theorem kipop_ARRAY_APPEND (md : Module) (ins : Instr) (orc : Oracle) (h : ins.op = .ARRAY_APPEND) : KeepsIp (exec md ins orc) := by
  unfold exec
  simp only [h, binOpOf, unOpOf, convOf, nilCmpOf, strAddOf, arrOpOf, mkArrayElem]
  refine KeepsIp.bind (by kip) (fun _ => ?_)
  refine KeepsIp.bind (by kip) (fun _ => ?_)
  refine KeepsIp.bind (by kip) (fun _ => ?_)
  split
  · kip
  · refine KeepsIp.bind (by kip) (fun _ => ?_)
    refine KeepsIp.bind (by kip) (fun _ => ?_)
    refine KeepsIp.get_bind _ ?_
    intro vm a vm' hr
    split at hr
    · exact kip_set_of _ vm (by exact ⟨rfl, RunOk.refl _⟩) _ _ hr
    · exact kip_crash _ _ _ _ hr

set_option maxRecDepth 8000 in
theorem kipop_nilCmp (md : Module) (ins : Instr) (orc : Oracle) (k : Nat) (nl ng : Bool)
    (hb : binOpOf ins.op = none) (hu : unOpOf ins.op = none) (hc : convOf ins.op = none)
    (h : nilCmpOf ins.op = some (k, nl, ng)) : KeepsIp (exec md ins orc) := by
  unfold exec; simp only [hb, hu, hc, h]; kip

set_option maxRecDepth 8000 in
theorem kipop_strAdd (md : Module) (ins : Instr) (orc : Oracle) (ty : NTy) (sl : Bool)
    (hb : binOpOf ins.op = none) (hu : unOpOf ins.op = none) (hc : convOf ins.op = none) (hn : nilCmpOf ins.op = none)
    (h : strAddOf ins.op = some (ty, sl)) : KeepsIp (exec md ins orc) := by
  unfold exec; simp only [hb, hu, hc, hn, h]; kip

set_option maxRecDepth 8000 in
theorem kipop_arrOp (md : Module) (ins : Instr) (orc : Oracle) (ty : NTy) (kind : Nat)
    (hb : binOpOf ins.op = none) (hu : unOpOf ins.op = none) (hc : convOf ins.op = none) (hn : nilCmpOf ins.op = none)
    (hs : strAddOf ins.op = none) (h : arrOpOf ins.op = some (ty, kind)) : KeepsIp (exec md ins orc) := by
  unfold exec; simp only [hb, hu, hc, hn, hs, h]; kip

set_option maxRecDepth 8000 in
theorem kipop_mkArray (md : Module) (ins : Instr) (orc : Oracle) (dflt : Obj)
    (hb : binOpOf ins.op = none) (hu : unOpOf ins.op = none) (hc : convOf ins.op = none) (hn : nilCmpOf ins.op = none)
    (hs : strAddOf ins.op = none) (ha : arrOpOf ins.op = none)
    (h : mkArrayElem ins.op = some dflt) : KeepsIp (exec md ins orc) := by
  unfold exec; simp only [hb, hu, hc, hn, hs, ha, h]; kip

end Never.Vm
