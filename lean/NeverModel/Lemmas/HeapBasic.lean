import NeverModel.Model.Heap
set_option linter.unusedSimpArgs false
/-! frame lemmas for the three cell mutators; after this file nothing unfolds `Array.set` -/
namespace Never
namespace Mem

@[simp] theorem size_setMark (m : Mem) (a : Nat) (b : Bool) : (setMark m a b).size = m.size := by
  unfold setMark; split <;> simp
@[simp] theorem size_setObj (m : Mem) (a : Nat) (o : Option Obj) : (setObj m a o).size = m.size := by
  unfold setObj; split <;> simp
@[simp] theorem size_setNext (m : Mem) (a n : Nat) : (setNext m a n).size = m.size := by
  unfold setNext; split <;> simp

@[simp] theorem objAt_setMark (m : Mem) (a x : Nat) (b : Bool) : objAt (setMark m a b) x = objAt m x := by
  unfold objAt setMark
  by_cases h : a < m.size
  · by_cases hax : a = x
    · subst hax; simp [h]
    · simp [h, Array.getElem?_set, hax]
  · simp [h]

@[simp] theorem nextAt_setMark (m : Mem) (a x : Nat) (b : Bool) : nextAt (setMark m a b) x = nextAt m x := by
  unfold nextAt setMark
  by_cases h : a < m.size
  · by_cases hax : a = x
    · subst hax; simp [h]
    · simp [h, Array.getElem?_set, hax]
  · simp [h]

theorem marked_setMark (m : Mem) (a x : Nat) (b : Bool) :
    marked (setMark m a b) x = if a = x ∧ a < m.size then b else marked m x := by
  unfold marked setMark
  by_cases h : a < m.size
  · by_cases hax : a = x
    · subst hax; simp [h]
    · simp [h, Array.getElem?_set, hax]
  · simp [h]

theorem objAt_setObj (m : Mem) (a x : Nat) (o : Option Obj) :
    objAt (setObj m a o) x = if a = x ∧ a < m.size then o else objAt m x := by
  unfold objAt setObj
  by_cases h : a < m.size
  · by_cases hax : a = x
    · subst hax; simp [h]
    · simp [h, Array.getElem?_set, hax]
  · simp [h]

@[simp] theorem marked_setObj (m : Mem) (a x : Nat) (o : Option Obj) : marked (setObj m a o) x = marked m x := by
  unfold marked setObj
  by_cases h : a < m.size
  · by_cases hax : a = x
    · subst hax; simp [h]
    · simp [h, Array.getElem?_set, hax]
  · simp [h]

@[simp] theorem nextAt_setObj (m : Mem) (a x : Nat) (o : Option Obj) : nextAt (setObj m a o) x = nextAt m x := by
  unfold nextAt setObj
  by_cases h : a < m.size
  · by_cases hax : a = x
    · subst hax; simp [h]
    · simp [h, Array.getElem?_set, hax]
  · simp [h]

theorem nextAt_setNext (m : Mem) (a x n : Nat) :
    nextAt (setNext m a n) x = if a = x ∧ a < m.size then n else nextAt m x := by
  unfold nextAt setNext
  by_cases h : a < m.size
  · by_cases hax : a = x
    · subst hax; simp [h]
    · simp [h, Array.getElem?_set, hax]
  · simp [h]

@[simp] theorem objAt_setNext (m : Mem) (a x n : Nat) : objAt (setNext m a n) x = objAt m x := by
  unfold objAt setNext
  by_cases h : a < m.size
  · by_cases hax : a = x
    · subst hax; simp [h]
    · simp [h, Array.getElem?_set, hax]
  · simp [h]

@[simp] theorem marked_setNext (m : Mem) (a x n : Nat) : marked (setNext m a n) x = marked m x := by
  unfold marked setNext
  by_cases h : a < m.size
  · by_cases hax : a = x
    · subst hax; simp [h]
    · simp [h, Array.getElem?_set, hax]
  · simp [h]

theorem getElem?_objAt {m : Mem} {a : Nat} {c : Cell} (h : m[a]? = some c) : objAt m a = c.obj := by
  simp [objAt, h]
theorem getElem?_marked {m : Mem} {a : Nat} {c : Cell} (h : m[a]? = some c) : marked m a = c.mark := by
  simp [marked, h]
theorem getElem?_lt {m : Mem} {a : Nat} {c : Cell} (h : m[a]? = some c) : a < m.size :=
  (Array.getElem?_eq_some_iff.mp h).1
theorem getElem?_of_lt {m : Mem} {a : Nat} (h : a < m.size) : ∃ c, m[a]? = some c :=
  ⟨m[a], by simp [h]⟩

theorem objAt_some_lt {m : Mem} {a : Nat} {o : Obj} (h : objAt m a = some o) : a < m.size := by
  unfold objAt at h
  split at h
  · rename_i c hc; exact getElem?_lt hc
  · cases h

theorem objAt_of_size_le {m : Mem} {a : Nat} (h : m.size ≤ a) : objAt m a = none := by
  unfold objAt; simp [Array.getElem?_eq_none h]
theorem marked_of_size_le {m : Mem} {a : Nat} (h : m.size ≤ a) : marked m a = false := by
  unfold marked; simp [Array.getElem?_eq_none h]

theorem marked_setMark_self {m : Mem} {a : Nat} (h : a < m.size) (b : Bool) : marked (setMark m a b) a = b := by
  simp [marked_setMark, h]

end Mem
end Never
