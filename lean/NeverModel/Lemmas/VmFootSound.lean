import NeverModel.Model.Verify
import NeverModel.Lemmas.VmFootOpsA
import NeverModel.Lemmas.VmFootOpsB
import NeverModel.Lemmas.VmFootOpsC
import NeverModel.Lemmas.VmFootOpsD
set_option linter.unusedSimpArgs false
set_option linter.unusedVariables false
/-! the write footprint of every handler of the verifier's effect table: an instruction that pops `p` operands writes no stack slot
below `sp − p + 1` (its lowest operand) -/
namespace Never.Vm
open Never Never.Num Never.Ver

set_option maxHeartbeats 4000000 in
set_option maxRecDepth 8000 in
/-- **Write footprint of the effect table.**  Whenever `simpleEffect` assigns `(pops, pushes)` to an instruction, the M-VM handler of
that instruction, started on ANY machine state with `sp = s` and run to completion (or to a raised exception), has left every stack
slot below `s − pops + 1` — everything under its lowest operand — exactly as it was. -/
theorem exec_foot_table (md : Module) (ins : Instr) (orc : Oracle) (p q : Nat) (h : simpleEffect ins = some (p, q)) (s : Int) :
    FootAt s (s - (p : Int) + 1) (exec md ins orc) := by
  cases hb : binOpOf ins.op with
  | some tb =>
    obtain ⟨ty, bop⟩ := tb
    simp [simpleEffect, hb] at h; obtain ⟨rfl, rfl⟩ := h
    refine FootAt.congr_lo (lo' := s - 1) ?_ (by omega)
    intro vm a vm' hs hr; cases a; rw [exec_bin md ins orc ty bop hb] at hr; exact foot_execBin ty bop s vm () vm' hs hr
  | none =>
  cases hu : unOpOf ins.op with
  | some tu =>
    obtain ⟨ty, uop⟩ := tu
    simp [simpleEffect, hb, hu] at h; obtain ⟨rfl, rfl⟩ := h
    refine FootAt.congr_lo (lo' := s) ?_ (by omega)
    intro vm a vm' hs hr; cases a; rw [exec_un md ins orc ty uop hb hu] at hr; exact foot_execUn ty uop s vm () vm' hs hr
  | none =>
  cases hc : convOf ins.op with
  | some tc =>
    obtain ⟨src, dst⟩ := tc
    simp [simpleEffect, hb, hu, hc] at h; obtain ⟨rfl, rfl⟩ := h
    refine FootAt.congr_lo (lo' := s) ?_ (by omega)
    intro vm a vm' hs hr; cases a; rw [exec_conv md ins orc src dst hb hu hc] at hr; exact foot_execConv src dst s vm () vm' hs hr
  | none =>
  cases hn : nilCmpOf ins.op with
  | some tn =>
    obtain ⟨k, nl, ng⟩ := tn
    simp [simpleEffect, hb, hu, hc, hn] at h; obtain ⟨rfl, rfl⟩ := h
    exact FootAt.congr_lo (foot_nilCmp md ins orc s k nl ng hb hu hc hn) (by omega)
  | none =>
  cases hs : strAddOf ins.op with
  | some ts =>
    obtain ⟨ty, sl⟩ := ts
    simp [simpleEffect, hb, hu, hc, hn, hs] at h; obtain ⟨rfl, rfl⟩ := h
    exact FootAt.congr_lo (foot_strAdd md ins orc s ty sl hb hu hc hn hs) (by omega)
  | none =>
  cases ha : arrOpOf ins.op with
  | some ta =>
    obtain ⟨ty, kind⟩ := ta
    by_cases hk : kind = 0
    · subst hk
      simp [simpleEffect, hb, hu, hc, hn, hs, ha] at h; obtain ⟨rfl, rfl⟩ := h
      exact FootAt.congr_lo (foot_arrOp md ins orc s ty 0 hb hu hc hn hs ha) (by simp)
    · have e := foot_arrOp md ins orc s ty kind hb hu hc hn hs ha
      simp only [hk, if_false] at e
      cases kind with
      | zero => exact absurd rfl hk
      | succ k =>
        simp [simpleEffect, hb, hu, hc, hn, hs, ha] at h; obtain ⟨rfl, rfl⟩ := h
        exact FootAt.congr_lo e (by omega)
  | none =>
  cases hm : mkArrayElem ins.op with
  | some dflt =>
    simp [simpleEffect, hb, hu, hc, hn, hs, ha, hm] at h; obtain ⟨rfl, rfl⟩ := h
    exact FootAt.congr_lo (foot_mkArray md ins orc s dflt hb hu hc hn hs ha hm) (by omega)
  | none =>
  cases hop : ins.op
  all_goals (first
    | (rw [hop] at hb; simp [binOpOf] at hb; done) | (rw [hop] at hu; simp [unOpOf] at hu; done)
    | (rw [hop] at hc; simp [convOf] at hc; done) | (rw [hop] at hn; simp [nilCmpOf] at hn; done)
    | (rw [hop] at hs; simp [strAddOf] at hs; done) | (rw [hop] at ha; simp [arrOpOf] at ha; done)
    | (rw [hop] at hm; simp [mkArrayElem] at hm; done) | skip)
  all_goals simp only [simpleEffect, hop, binOpOf, unOpOf, convOf, nilCmpOf, strAddOf, arrOpOf, mkArrayElem, Option.isSome_none, Bool.false_eq_true, if_false] at h
  all_goals (first | (cases h; done) | skip)
  case BUILD_IN =>
    have e := foot_BUILD_IN md ins orc s hop
    unfold buildInPops at e
    by_cases h1 : ins.w0 = 7 ∨ ins.w0 = 22
    · simp only [h1, if_true] at e
      have : (ins.w0 == 7) = true ∨ (ins.w0 == 22) = true := by rcases h1 with h1 | h1 <;> simp [h1]
      simp only [this, if_true, Option.some.injEq, Prod.mk.injEq] at h; obtain ⟨rfl, rfl⟩ := h
      exact FootAt.congr_lo e (by omega)
    · simp only [h1, if_false] at e
      have : ¬((ins.w0 == 7) = true ∨ (ins.w0 == 22) = true) := by simpa using h1
      simp only [this, if_false] at h
      by_cases h2 : ins.w0 = 12
      · simp only [h2, if_true] at e
        simp [h2] at h; obtain ⟨rfl, rfl⟩ := h
        exact FootAt.congr_lo e (by omega)
      · simp only [h2, if_false] at e
        have : ¬(ins.w0 == 12) = true := by simpa using h2
        simp only [this, if_false] at h
        simp only [ite_self, Option.some.injEq, Prod.mk.injEq] at h; obtain ⟨rfl, rfl⟩ := h; exact FootAt.congr_lo e (by omega)
  all_goals (simp only [Option.some.injEq, Prod.mk.injEq] at h; obtain ⟨rfl, rfl⟩ := h)
  all_goals first
    | exact FootAt.congr_lo (foot_INT md ins orc s hop) (by omega)
    | exact FootAt.congr_lo (foot_LONG md ins orc s hop) (by omega)
    | exact FootAt.congr_lo (foot_FLOAT md ins orc s hop) (by omega)
    | exact FootAt.congr_lo (foot_DOUBLE md ins orc s hop) (by omega)
    | exact FootAt.congr_lo (foot_CHAR md ins orc s hop) (by omega)
    | exact FootAt.congr_lo (foot_STRING md ins orc s hop) (by omega)
    | exact FootAt.congr_lo (foot_C_NULL md ins orc s hop) (by omega)
    | exact FootAt.congr_lo (foot_ID_TOP md ins orc s hop) (by omega)
    | exact FootAt.congr_lo (foot_ID_LOCAL md ins orc s hop) (by omega)
    | exact FootAt.congr_lo (foot_ID_DIM_LOCAL md ins orc s hop) (by omega)
    | exact FootAt.congr_lo (foot_ID_DIM_SLICE md ins orc s hop) (by omega)
    | exact FootAt.congr_lo (foot_ID_GLOBAL md ins orc s hop) (by omega)
    | exact FootAt.congr_lo (foot_OP_DUP_INT md ins orc s hop) (by omega)
    | exact FootAt.congr_lo (foot_COPYGLOB md ins orc s hop) (by omega)
    | exact FootAt.congr_lo (foot_NIL_RECORD_REF md ins orc s hop) (by omega)
    | exact FootAt.congr_lo (foot_PUSH_EXCEPT md ins orc s hop) (by omega)
    | exact FootAt.congr_lo (foot_VEC_DEREF md ins orc s hop) (by omega)
    | exact FootAt.congr_lo (foot_VECREF_VEC_DEREF md ins orc s hop) (by omega)
    | exact FootAt.congr_lo (foot_DUP md ins orc s hop) (by omega)
    | exact FootAt.congr_lo (foot_ID_FUNC_ADDR md ins orc s hop) (by omega)
    | exact FootAt.congr_lo (foot_ID_FUNC_ENTRY md ins orc s hop) (by omega)
    | exact FootAt.congr_lo (foot_ENUMTYPE_RECORD_TO_INT md ins orc s hop) (by omega)
    | exact FootAt.congr_lo (foot_VECREF_DEREF md ins orc s hop) (by omega)
    | exact FootAt.congr_lo (foot_LABEL md ins orc s hop) (by omega)
    | exact FootAt.congr_lo (foot_LINE md ins orc s hop) (by omega)
    | exact FootAt.congr_lo (foot_FUNC_DEF md ins orc s hop) (by omega)
    | exact FootAt.congr_lo (foot_FUNC_OBJ md ins orc s hop) (by omega)
    | exact FootAt.congr_lo (foot_OP_INC_INT md ins orc s hop) (by omega)
    | exact FootAt.congr_lo (foot_OP_DEC_INT md ins orc s hop) (by omega)
    | exact FootAt.congr_lo (foot_OP_ADD_STRING md ins orc s hop) (by omega)
    | exact FootAt.congr_lo (foot_OP_EQ_STRING md ins orc s hop) (by omega)
    | exact FootAt.congr_lo (foot_OP_NEQ_STRING md ins orc s hop) (by omega)
    | exact FootAt.congr_lo (foot_OP_EQ_C_PTR md ins orc s hop) (by omega)
    | exact FootAt.congr_lo (foot_OP_NEQ_C_PTR md ins orc s hop) (by omega)
    | exact FootAt.congr_lo (foot_OP_EQ_NIL md ins orc s hop) (by omega)
    | exact FootAt.congr_lo (foot_OP_NEQ_NIL md ins orc s hop) (by omega)
    | exact FootAt.congr_lo (foot_SLICE_ARRAY md ins orc s hop) (by omega)
    | exact FootAt.congr_lo (foot_SLICE_RANGE md ins orc s hop) (by omega)
    | exact FootAt.congr_lo (foot_SLICE_SLICE md ins orc s hop) (by omega)
    | exact FootAt.congr_lo (foot_SLICE_STRING md ins orc s hop) (by omega)
    | exact FootAt.congr_lo (foot_STRING_DEREF md ins orc s hop) (by omega)
    | exact FootAt.congr_lo (foot_VECREF_VEC_INDEX_DEREF md ins orc s hop) (by omega)
    | exact FootAt.congr_lo (foot_OP_ASS_INT md ins orc s hop) (by omega)
    | exact FootAt.congr_lo (foot_OP_ASS_LONG md ins orc s hop) (by omega)
    | exact FootAt.congr_lo (foot_OP_ASS_FLOAT md ins orc s hop) (by omega)
    | exact FootAt.congr_lo (foot_OP_ASS_DOUBLE md ins orc s hop) (by omega)
    | exact FootAt.congr_lo (foot_OP_ASS_CHAR md ins orc s hop) (by omega)
    | exact FootAt.congr_lo (foot_OP_ASS_STRING md ins orc s hop) (by omega)
    | exact FootAt.congr_lo (foot_OP_ASS_C_PTR md ins orc s hop) (by omega)
    | exact FootAt.congr_lo (foot_OP_ASS_ARRAY md ins orc s hop) (by omega)
    | exact FootAt.congr_lo (foot_OP_ASS_RECORD md ins orc s hop) (by omega)
    | exact FootAt.congr_lo (foot_OP_ASS_FUNC md ins orc s hop) (by omega)
    | exact FootAt.congr_lo (foot_OP_ASS_RECORD_NIL md ins orc s hop) (by omega)
    | exact FootAt.congr_lo (foot_JUMPZ md ins orc s hop) (by omega)
    | exact FootAt.congr_lo (foot_REWRITE md ins orc s hop) (by omega)
    | exact FootAt.congr_lo (foot_ARRAY_APPEND md ins orc s hop) (by omega)
    | exact FootAt.congr_lo (foot_MK_RANGE md ins orc s hop) (by omega)
    | exact FootAt.congr_lo (foot_RECORD md ins orc s hop) (by omega)
    | exact FootAt.congr_lo (foot_GLOBAL_VEC md ins orc s hop) (by omega)
    | exact FootAt.congr_lo (foot_ALLOC md ins orc s hop) (by omega)
    | exact FootAt.congr_lo (foot_RANGE_DEREF md ins orc s hop) (by omega)
    | exact FootAt.congr_lo (foot_RECORD_UNPACK md ins orc s hop) (by omega)
    | exact FootAt.congr_lo (foot_SLICE_DEREF md ins orc s hop) (by omega)
    | exact FootAt.congr_lo (foot_ARRAY_DEREF md ins orc s (Or.inl hop)) (by omega)
    | exact FootAt.congr_lo (foot_ARRAY_DEREF md ins orc s (Or.inr hop)) (by omega)

end Never.Vm
