import NeverModel.Lemmas.VmFoot
set_option linter.unusedSimpArgs false
set_option linter.unusedVariables false
/-! per-opcode write footprint of `exec`: a handler that pops `p` operands writes no stack slot below `sp − p + 1` (generated list,
each proved by the `foot` automation) -/
namespace Never.Vm
open Never Never.Num

set_option maxRecDepth 8000 in
theorem foot_LABEL (md : Module) (ins : Instr) (orc : Oracle) (s : Int) (h : ins.op = .LABEL) : FootAt s (s - 0 + 1) (exec md ins orc) := by exec_foot h

set_option maxRecDepth 8000 in
theorem foot_LINE (md : Module) (ins : Instr) (orc : Oracle) (s : Int) (h : ins.op = .LINE) : FootAt s (s - 0 + 1) (exec md ins orc) := by exec_foot h

set_option maxRecDepth 8000 in
theorem foot_FUNC_DEF (md : Module) (ins : Instr) (orc : Oracle) (s : Int) (h : ins.op = .FUNC_DEF) : FootAt s (s - 0 + 1) (exec md ins orc) := by exec_foot h

set_option maxRecDepth 8000 in
theorem foot_FUNC_OBJ (md : Module) (ins : Instr) (orc : Oracle) (s : Int) (h : ins.op = .FUNC_OBJ) : FootAt s (s - 0 + 1) (exec md ins orc) := by exec_foot h

set_option maxRecDepth 8000 in
theorem foot_OP_INC_INT (md : Module) (ins : Instr) (orc : Oracle) (s : Int) (h : ins.op = .OP_INC_INT) : FootAt s (s - 0 + 1) (exec md ins orc) := by exec_foot h

set_option maxRecDepth 8000 in
theorem foot_OP_DEC_INT (md : Module) (ins : Instr) (orc : Oracle) (s : Int) (h : ins.op = .OP_DEC_INT) : FootAt s (s - 0 + 1) (exec md ins orc) := by exec_foot h

set_option maxRecDepth 8000 in
theorem foot_ID_FUNC_ADDR (md : Module) (ins : Instr) (orc : Oracle) (s : Int) (h : ins.op = .ID_FUNC_ADDR) : FootAt s (s - 1 + 1) (exec md ins orc) := by exec_foot h

set_option maxRecDepth 8000 in
theorem foot_ID_FUNC_ENTRY (md : Module) (ins : Instr) (orc : Oracle) (s : Int) (h : ins.op = .ID_FUNC_ENTRY) : FootAt s (s - 1 + 1) (exec md ins orc) := by exec_foot h

set_option maxRecDepth 8000 in
theorem foot_ENUMTYPE_RECORD_TO_INT (md : Module) (ins : Instr) (orc : Oracle) (s : Int) (h : ins.op = .ENUMTYPE_RECORD_TO_INT) : FootAt s (s - 1 + 1) (exec md ins orc) := by exec_foot h

set_option maxRecDepth 8000 in
theorem foot_VECREF_DEREF (md : Module) (ins : Instr) (orc : Oracle) (s : Int) (h : ins.op = .VECREF_DEREF) : FootAt s (s - 1 + 1) (exec md ins orc) := by exec_foot h

set_option maxRecDepth 8000 in
theorem foot_JUMPZ (md : Module) (ins : Instr) (orc : Oracle) (s : Int) (h : ins.op = .JUMPZ) : FootAt s (s - 1 + 1) (exec md ins orc) := by exec_foot h

set_option maxRecDepth 8000 in
theorem foot_REWRITE (md : Module) (ins : Instr) (orc : Oracle) (s : Int) (h : ins.op = .REWRITE) : FootAt s (s - 1 + 1) (exec md ins orc) := by exec_foot h

set_option maxRecDepth 8000 in
theorem foot_OP_ADD_STRING (md : Module) (ins : Instr) (orc : Oracle) (s : Int) (h : ins.op = .OP_ADD_STRING) : FootAt s (s - 2 + 1) (exec md ins orc) := by exec_foot h

set_option maxHeartbeats 2000000 in
set_option maxRecDepth 8000 in
theorem foot_OP_EQ_STRING (md : Module) (ins : Instr) (orc : Oracle) (s : Int) (h : ins.op = .OP_EQ_STRING) : FootAt s (s - 2 + 1) (exec md ins orc) := by exec_foot h

set_option maxHeartbeats 2000000 in
set_option maxRecDepth 8000 in
theorem foot_OP_NEQ_STRING (md : Module) (ins : Instr) (orc : Oracle) (s : Int) (h : ins.op = .OP_NEQ_STRING) : FootAt s (s - 2 + 1) (exec md ins orc) := by exec_foot h

set_option maxHeartbeats 2000000 in
set_option maxRecDepth 8000 in
theorem foot_OP_EQ_C_PTR (md : Module) (ins : Instr) (orc : Oracle) (s : Int) (h : ins.op = .OP_EQ_C_PTR) : FootAt s (s - 2 + 1) (exec md ins orc) := by exec_foot h

set_option maxHeartbeats 2000000 in
set_option maxRecDepth 8000 in
theorem foot_OP_NEQ_C_PTR (md : Module) (ins : Instr) (orc : Oracle) (s : Int) (h : ins.op = .OP_NEQ_C_PTR) : FootAt s (s - 2 + 1) (exec md ins orc) := by exec_foot h

set_option maxHeartbeats 2000000 in
set_option maxRecDepth 8000 in
theorem foot_OP_EQ_NIL (md : Module) (ins : Instr) (orc : Oracle) (s : Int) (h : ins.op = .OP_EQ_NIL) : FootAt s (s - 2 + 1) (exec md ins orc) := by exec_foot h

set_option maxHeartbeats 2000000 in
set_option maxRecDepth 8000 in
theorem foot_OP_NEQ_NIL (md : Module) (ins : Instr) (orc : Oracle) (s : Int) (h : ins.op = .OP_NEQ_NIL) : FootAt s (s - 2 + 1) (exec md ins orc) := by exec_foot h

end Never.Vm
