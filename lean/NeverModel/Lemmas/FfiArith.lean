import NeverModel.Model.Ffi
/-! arithmetic facts for M-FFI: `roundUp`, the 32-bit bit-mask align, little-endian bytes -/
namespace Never.Ffi

/-- alignments that occur: 1, 4, 8 -/
def IsAl (a : Nat) : Prop := a = 1 ∨ a = 4 ∨ a = 8

theorem IsAl.pos {a} (h : IsAl a) : 0 < a := by rcases h with h | h | h <;> omega

theorem IsAl.max {a b} (ha : IsAl a) (hb : IsAl b) : IsAl (max a b) := by
  rcases ha with h | h | h <;> rcases hb with h' | h' | h' <;> subst h <;> subst h' <;> simp [IsAl]

theorem IsAl.dvd_of_le {a b} (ha : IsAl a) (hb : IsAl b) (h : a ≤ b) : a ∣ b := by
  rcases ha with h1 | h1 | h1 <;> rcases hb with h2 | h2 | h2 <;> subst h1 <;> subst h2 <;>
    first | omega | exact ⟨1, rfl⟩ | exact ⟨2, rfl⟩ | exact ⟨4, rfl⟩ | exact ⟨8, rfl⟩

theorem roundUp_one (v : Nat) : roundUp v 1 = v := by simp [roundUp]

theorem roundUp_ge (v a : Nat) (ha : 0 < a) : v ≤ roundUp v a := by
  unfold roundUp
  have h1 := Nat.div_add_mod (v + (a - 1)) a
  have h2 := Nat.mod_lt (v + (a - 1)) ha
  have h3 : a * ((v + (a - 1)) / a) = (v + (a - 1)) / a * a := Nat.mul_comm _ _
  omega

theorem roundUp_lt (v a : Nat) (ha : 0 < a) : roundUp v a < v + a := by
  unfold roundUp
  have h1 := Nat.div_add_mod (v + (a - 1)) a
  have h3 : a * ((v + (a - 1)) / a) = (v + (a - 1)) / a * a := Nat.mul_comm _ _
  omega

theorem roundUp_dvd (v a : Nat) : a ∣ roundUp v a := ⟨_, Nat.mul_comm _ _⟩

theorem roundUp_of_dvd (v a : Nat) (ha : 0 < a) (h : a ∣ v) : roundUp v a = v := by
  obtain ⟨k, rfl⟩ := h
  unfold roundUp
  have : (a * k + (a - 1)) / a = k := by
    rw [Nat.mul_add_div ha]
    have : (a - 1) / a = 0 := Nat.div_eq_of_lt (by omega)
    omega
  rw [this, Nat.mul_comm]

/-- the fact that makes an absolute running offset agree with "base + relative offset" -/
theorem roundUp_base_add (base rel a : Nat) (ha : 0 < a) (h : a ∣ base) :
    roundUp (base + rel) a = base + roundUp rel a := by
  obtain ⟨k, rfl⟩ := h
  unfold roundUp
  have : (a * k + rel + (a - 1)) / a = k + (rel + (a - 1)) / a := by
    rw [Nat.add_assoc, Nat.mul_comm, Nat.add_comm, Nat.add_mul_div_right _ _ ha, Nat.add_comm]
  rw [this, Nat.add_mul, Nat.mul_comm]

theorem roundUp_idem (v a : Nat) (ha : 0 < a) : roundUp (roundUp v a) a = roundUp v a :=
  roundUp_of_dvd _ _ ha (roundUp_dvd v a)

theorem roundUp_mono (v w a : Nat) (h : v ≤ w) : roundUp v a ≤ roundUp w a := by
  unfold roundUp
  exact Nat.mul_le_mul_right _ (Nat.div_le_div_right (by omega))

/-! ### the bit-mask align of vmffi.c -/

private theorem mask4 : ∀ i : Fin 32, (4294967292#32).getLsbD i.val = decide (2 ≤ i.val) := by decide
private theorem mask8 : ∀ i : Fin 32, (4294967288#32).getLsbD i.val = decide (3 ≤ i.val) := by decide

private theorem and_mask4 (x : BitVec 32) : (x &&& 4294967292#32) = (x >>> 2) <<< 2 := by
  apply BitVec.eq_of_getLsbD_eq
  intro i hi
  have hm := mask4 ⟨i, hi⟩
  simp only [] at hm
  rw [BitVec.getLsbD_and, hm, BitVec.getLsbD_shiftLeft, BitVec.getLsbD_ushiftRight]
  by_cases h : i < 2
  · simp [h]
  · have : 2 + (i - 2) = i := by omega
    simp [h, this, hi]
    omega

private theorem and_mask8 (x : BitVec 32) : (x &&& 4294967288#32) = (x >>> 3) <<< 3 := by
  apply BitVec.eq_of_getLsbD_eq
  intro i hi
  have hm := mask8 ⟨i, hi⟩
  simp only [] at hm
  rw [BitVec.getLsbD_and, hm, BitVec.getLsbD_shiftLeft, BitVec.getLsbD_ushiftRight]
  by_cases h : i < 3
  · simp [h]
  · have : 3 + (i - 3) = i := by omega
    simp [h, this, hi]
    omega

private theorem toNat_shr_shl2 (x : BitVec 32) : ((x >>> 2) <<< 2).toNat = x.toNat / 4 * 4 := by
  simp [BitVec.toNat_shiftLeft, BitVec.toNat_ushiftRight, Nat.shiftLeft_eq, Nat.shiftRight_eq_div_pow]
  omega

private theorem toNat_shr_shl3 (x : BitVec 32) : ((x >>> 3) <<< 3).toNat = x.toNat / 8 * 8 := by
  simp [BitVec.toNat_shiftLeft, BitVec.toNat_ushiftRight, Nat.shiftLeft_eq, Nat.shiftRight_eq_div_pow]
  omega

/-- `vm_execute_func_ffi_align` is round-up for the alignments 1, 4, 8 as long as the result
fits `unsigned int` -/
theorem align32_toNat (v : BitVec 32) (a : Nat) (ha : IsAl a) (hfit : roundUp v.toNat a < 2 ^ 32) :
    (align32 v (BitVec.ofNat 32 a)).toNat = roundUp v.toNat a := by
  have hge := roundUp_ge v.toNat a ha.pos
  have hlt := roundUp_lt v.toNat a ha.pos
  rcases ha with h | h | h <;> subst h
  · simp [align32, roundUp]
  · have e1 : align32 v (BitVec.ofNat 32 4) = (v + 3#32) &&& 4294967292#32 := by
      simp [align32]
    rw [e1, and_mask4, toNat_shr_shl2, BitVec.toNat_add]
    simp only [roundUp] at *
    have : (v.toNat + (3#32).toNat) % 2 ^ 32 = v.toNat + 3 := by
      simp; omega
    rw [this]
  · have e1 : align32 v (BitVec.ofNat 32 8) = (v + 7#32) &&& 4294967288#32 := by
      simp [align32]
    rw [e1, and_mask8, toNat_shr_shl3, BitVec.toNat_add]
    simp only [roundUp] at *
    have : (v.toNat + (7#32).toNat) % 2 ^ 32 = v.toNat + 7 := by
      simp; omega
    rw [this]

theorem add32_toNat (o : BitVec 32) (s : Nat) (h : o.toNat + s < 2 ^ 32) :
    (add32 o s).toNat = o.toNat + s := by
  simp [add32, BitVec.toNat_add]
  omega

/-! ### little-endian bytes -/

theorem byteOf_toNat (v k : Nat) : (byteOf v k).toNat = v / 256 ^ k % 256 := by
  simp [byteOf]

/-- reading back `m` bytes from position `j` inside a stored `n`-byte value -/
theorem readLE_write (g : Nat → UInt8) (off n v : Nat) (j m : Nat) (h : j + m ≤ n) :
    readLE (fun i => if off ≤ i ∧ i < off + n then byteOf v (i - off) else g i) (off + j) m
      = v / 256 ^ j % 256 ^ m := by
  induction m generalizing j with
  | zero => simp [readLE, Nat.mod_one]
  | succ m ih =>
    have hj : off ≤ off + j ∧ off + j < off + n := by omega
    have e : off + j + 1 = off + (j + 1) := by omega
    simp only [readLE, hj, and_self, if_true, e]
    rw [ih (j + 1) (by omega), byteOf_toNat]
    have e2 : off + j - off = j := by omega
    rw [e2]
    have e3 : v / 256 ^ (j + 1) = v / 256 ^ j / 256 := by
      rw [Nat.pow_succ, Nat.div_div_eq_div_mul]
    rw [e3, Nat.pow_succ, Nat.mul_comm (256 ^ m) 256, Nat.mod_mul]

theorem readLE_congr (g h : Nat → UInt8) (off n : Nat)
    (hgh : ∀ i, off ≤ i → i < off + n → g i = h i) : readLE g off n = readLE h off n := by
  induction n generalizing off with
  | zero => rfl
  | succ n ih =>
    simp only [readLE]
    rw [hgh off (by omega) (by omega), ih (off + 1) (fun i h1 h2 => hgh i (by omega) (by omega))]

end Never.Ffi
