import NeverModel.Lemmas.InvCollect
set_option linter.unusedSimpArgs false
set_option linter.unusedVariables false
/-! the allocator part of the heap invariant of C09 — the free chain, the allocated list, the nil cell — without the well-kindedness of
references: it is preserved by `alloc`, by every store into an allocated cell and by a whole collection, WHATEVER the objects hold
(the mark phase only sets marks, the sweep looks at marks and at `obj ≠ none`; neither follows a reference to decide where a cell goes) -/
namespace Never
open Mem

/-- the bookkeeping invariant, with the free chain's cell list `fl` as explicit witness -/
structure FreeL (g : Gc) (fl : List Nat) : Prop where
  nil_none : objAt g.mem 0 = none
  chain : Chain g.mem g.free fl
  fl_nodup : fl.Nodup
  fl_free : ∀ x ∈ fl, objAt g.mem x = none
  cur_nodup : g.cur.Nodup
  cur_alloc : ∀ x, x ∈ g.cur ↔ (objAt g.mem x).isSome = true
  oth_empty : g.oth = []
  cover : ∀ x, 0 < x → x < g.mem.size → x ∈ fl ∨ x ∈ g.cur

/-- **the heap's bookkeeping is intact**: cell 0 is nil; the free chain from `free` is a duplicate-free list of in-range cells without
objects; the current allocated list is duplicate-free and holds exactly the cells with objects; the other list is empty; every cell
`≥ 1` is on one of the two -/
def FreeInv (g : Gc) : Prop := ∃ fl, FreeL g fl

theorem Inv.toFree {g : Gc} (h : Inv g) : FreeInv g := by
  obtain ⟨fl, il⟩ := h
  exact ⟨fl, il.nil_none, il.chain, il.fl_nodup, il.fl_free, il.cur_nodup, il.cur_alloc, il.oth_empty, il.cover⟩

theorem freeInv_new (n : Nat) (h : 1 ≤ n) : FreeInv (Gc.new n) := (inv_new n h).toFree

theorem Chain.lt {m : Mem} : ∀ {fl : List Nat} {h : Nat}, Chain m h fl → ∀ x ∈ fl, x < m.size ∧ x ≠ 0 := by
  intro fl
  induction fl with
  | nil => intro h _ x hx; cases hx
  | cons y ys ih =>
    intro h c x hx
    obtain ⟨_, h2, h3, h4⟩ := c
    rcases List.mem_cons.mp hx with rfl | hx'
    · exact ⟨h3, h2⟩
    · exact ih h4 x hx'

/-- each cell `≥ 1` is in exactly one place: on the free chain (no object) or on the allocated list (an object), never both -/
theorem FreeL.exactly_one {g : Gc} {fl : List Nat} (il : FreeL g fl) (x : Nat) (h0 : 0 < x) (hx : x < g.mem.size) :
    (x ∈ fl ∧ x ∉ g.cur ∧ objAt g.mem x = none) ∨ (x ∉ fl ∧ x ∈ g.cur ∧ (objAt g.mem x).isSome = true) := by
  rcases il.cover x h0 hx with h | h
  · left
    refine ⟨h, ?_, il.fl_free x h⟩
    intro hc; have := (il.cur_alloc x).mp hc; rw [il.fl_free x h] at this; cases this
  · right
    have hs := (il.cur_alloc x).mp h
    refine ⟨?_, h, hs⟩
    intro hf; rw [il.fl_free x hf] at hs; cases hs

/-- none is lost: free cells + allocated cells + the nil cell = all cells -/
theorem FreeL.count {g : Gc} {fl : List Nat} (il : FreeL g fl) (hsz : 1 ≤ g.mem.size) : fl.length + g.cur.length + 1 = g.mem.size := by
  -- the cells 1 … size-1 are a permutation of fl ++ cur
  have hnd : (fl ++ g.cur).Nodup := by
    refine List.nodup_append.mpr ⟨il.fl_nodup, il.cur_nodup, ?_⟩
    intro a ha b hb hab; subst hab
    have := (il.cur_alloc a).mp hb; rw [il.fl_free a ha] at this; cases this
  have hsub : ∀ x ∈ fl ++ g.cur, x ∈ (List.range g.mem.size).tail := by
    intro x hx
    have : x < g.mem.size ∧ x ≠ 0 := by
      rcases List.mem_append.mp hx with h | h
      · exact il.chain.lt x h
      · have hs := (il.cur_alloc x).mp h
        refine ⟨?_, ?_⟩
        · cases ho : objAt g.mem x with
          | none => rw [ho] at hs; cases hs
          | some o => exact objAt_some_lt ho
        · intro h0; subst h0; rw [il.nil_none] at hs; cases hs
    rw [List.tail_range]
    exact List.mem_range'_1.mpr ⟨by omega, by omega⟩
  have hsup : ∀ x ∈ (List.range g.mem.size).tail, x ∈ fl ++ g.cur := by
    intro x hx
    rw [List.tail_range] at hx
    obtain ⟨h1, h2⟩ := List.mem_range'_1.mp hx
    exact List.mem_append.mpr (il.cover x (by omega) (by omega))
  have hnd2 : ((List.range g.mem.size).tail).Nodup := by rw [List.tail_range]; exact List.nodup_range'
  have hperm : (fl ++ g.cur).Perm (List.range g.mem.size).tail :=
    (List.perm_ext_iff_of_nodup hnd hnd2).mpr (fun x => ⟨hsub x, hsup x⟩)
  have := hperm.length_eq
  simp at this
  omega

/-- the allocator hands out only free cells, inside the heap -/
theorem FreeInv.alloc_fresh {g : Gc} (h : FreeInv g) : g.free = 0 ∨ (g.free < g.mem.size ∧ objAt g.mem g.free = none) := by
  obtain ⟨fl, il⟩ := h
  cases fl with
  | nil => exact Or.inl il.chain
  | cons x xs =>
    obtain ⟨hx, _, hlt, _⟩ := il.chain
    right
    rw [hx]
    exact ⟨hlt, il.fl_free x List.mem_cons_self⟩

/-- `gc_alloc_any` -/
theorem freeInv_alloc {g g' : Gc} {o : Obj} {loc : Nat} (inv : FreeInv g) (h : g.alloc o = some (g', loc)) :
    FreeInv g' ∧ loc ≠ 0 ∧ objAt g.mem loc = none ∧ objAt g'.mem loc = some o := by
  obtain ⟨fl, inv⟩ := inv
  unfold Gc.alloc at h
  simp only at h
  split at h
  · cases h
  · rename_i hfree
    have hg' : g' = (if g.w then { g with mem := g.mem.setObj g.free (some o), free := g.mem.nextAt g.free, wb1 := g.wb1 ++ [g.free] }
                     else { g with mem := g.mem.setObj g.free (some o), free := g.mem.nextAt g.free, wb0 := g.wb0 ++ [g.free] }) ∧ loc = g.free := by
      simp only [Option.some.injEq, Prod.mk.injEq] at h
      exact ⟨h.1.symm, h.2.symm⟩
    obtain ⟨hg', hloc⟩ := hg'
    cases fl with
    | nil => exact absurd inv.chain hfree
    | cons x fl' =>
      obtain ⟨hx, hx0, hxlt, hch⟩ := inv.chain
      have hxl : x = loc := by rw [hloc]; exact hx.symm
      subst hxl
      have hlnone := inv.fl_free x (by simp)
      have hx_notin_cur : x ∉ g.cur := by
        intro hmem; have := (inv.cur_alloc x).mp hmem; rw [hlnone] at this; cases this
      have hmem' : g'.mem = g.mem.setObj x (some o) := by rw [hg', hloc]; cases g.w <;> simp
      have hfree' : g'.free = g.mem.nextAt x := by rw [hg', hloc]; cases g.w <;> simp
      have hcur' : g'.cur = g.cur ++ [x] := by rw [hg', hloc]; cases hw : g.w <;> simp [Gc.cur, hw]
      have hoth' : g'.oth = g.oth := by rw [hg']; cases hw : g.w <;> simp [Gc.oth, hw]
      have hnd := List.nodup_cons.mp inv.fl_nodup
      refine ⟨⟨fl', ?_, ?_, hnd.2, ?_, ?_, ?_, ?_, ?_⟩, hx0, hlnone, by rw [hmem', objAt_setObj]; simp [hxlt]⟩
      · rw [hmem', objAt_setObj]; simp [hx0, inv.nil_none]
      · rw [hmem', hfree']; exact Chain.congr (by simp) (by intro y _; simp) hch
      · intro y hy
        rw [hmem', objAt_setObj]
        have : x ≠ y := fun h => hnd.1 (h ▸ hy)
        simp [this, inv.fl_free y (List.mem_cons_of_mem _ hy)]
      · rw [hcur']; exact List.nodup_append.mpr ⟨inv.cur_nodup, by simp, by
          intro a ha b hb; simp at hb; subst hb; intro h; subst h; exact hx_notin_cur ha⟩
      · intro y
        rw [hcur', hmem', objAt_setObj]
        by_cases hxy : x = y
        · subst hxy; simp [hxlt]
        · have hyx : y ≠ x := fun h => hxy h.symm
          simp [hxy, hyx, inv.cur_alloc y]
      · rw [hoth']; exact inv.oth_empty
      · intro y h0 hy
        rw [hmem'] at hy; rw [hcur']
        rcases inv.cover y h0 (by simpa using hy) with h | h
        · rcases List.mem_cons.mp h with h | h
          · right; simp [h]
          · left; exact h
        · right; simp [h]

/-- a store of an object into a cell that holds one (every typed store of the VM), or into no cell at all (address outside the heap) -/
theorem freeInv_setObj {g : Gc} {a : Nat} {o : Obj} (inv : FreeInv g) (ha : (objAt g.mem a).isSome = true ∨ g.mem.size ≤ a) :
    FreeInv { g with mem := g.mem.setObj a (some o) } := by
  obtain ⟨fl, inv⟩ := inv
  have hsome : ∀ x, (objAt (g.mem.setObj a (some o)) x).isSome = (objAt g.mem x).isSome := by
    intro x
    rw [objAt_setObj]
    by_cases h : a = x ∧ a < g.mem.size
    · rw [if_pos h]
      rcases ha with ha | ha
      · rw [← h.1, ha]; rfl
      · omega
    · rw [if_neg h]
  have hcur : ({ g with mem := g.mem.setObj a (some o) } : Gc).cur = g.cur := rfl
  have hoth : ({ g with mem := g.mem.setObj a (some o) } : Gc).oth = g.oth := rfl
  refine ⟨fl, ?_, ?_, inv.fl_nodup, ?_, by rw [hcur]; exact inv.cur_nodup, ?_, by rw [hoth]; exact inv.oth_empty, ?_⟩
  · have := hsome 0; rw [inv.nil_none] at this; simpa using this
  · exact Chain.congr (by simp) (by intro x _; simp) inv.chain
  · intro x hx; have := hsome x; rw [inv.fl_free x hx] at this; simpa using this
  · intro x; rw [hcur]; show _ ↔ (objAt (g.mem.setObj a (some o)) x).isSome = true; rw [hsome x]; exact inv.cur_alloc x
  · intro x h0 hx; rw [hcur]; exact inv.cover x h0 (by simpa using hx)

/-- `gc_append_arr_elem` -/
theorem freeInv_appendArrElem {g g' : Gc} {a v : Nat} (inv : FreeInv g) (h : g.appendArrElem a v = some g') : FreeInv g' := by
  unfold Gc.appendArrElem at h
  split at h
  · rename_i n mult es ho
    cases h
    exact freeInv_setObj inv (Or.inl (by rw [ho]; rfl))
  · cases h

/-- the sweep after any mark phase -/
theorem freeInv_sweep {g : Gc} {m' : Mem} (inv : FreeInv g) (mono : Mono g.mem m') : FreeInv ({ g with mem := m' } : Gc).sweep := by
  obtain ⟨fl, inv⟩ := inv
  let g1 : Gc := { g with mem := m' }
  have hcur1 : g1.cur = g.cur := rfl
  have hoth1 : g1.oth = g.oth := rfl
  obtain ⟨fm, ff, fc, fo⟩ := sweep_fields g1
  have hpre_obj : ∀ x ∈ g.cur, (objAt m' x).isSome = true ∧ x ≠ 0 := by
    intro x hx
    have := (inv.cur_alloc x).mp hx
    refine ⟨by rw [mono.obj]; exact this, ?_⟩
    intro h0; subst h0; rw [inv.nil_none] at this; cases this
  have hpre_fl : ∀ x ∈ g.cur, x ∉ fl := by
    intro x hx hfl
    have := (inv.cur_alloc x).mp hx; rw [inv.fl_free x hfl] at this; cases this
  have hchain : Chain m' g.free fl := Chain.congr mono.size (fun x _ => mono.next x) inv.chain
  have r := sweep_fold g.cur m' g.free g.oth fl inv.cur_nodup hpre_obj hpre_fl hchain
  rw [inv.oth_empty] at r
  have hmem : g1.sweep.mem = (g.cur.foldl sweepStep (m', g.free, ([] : List Nat))).1 := by
    rw [fm]; show (g.cur.foldl sweepStep (m', g.free, g.oth)).1 = _; rw [inv.oth_empty]
  have hfree : g1.sweep.free = (g.cur.foldl sweepStep (m', g.free, ([] : List Nat))).2.1 := by
    rw [ff]; show (g.cur.foldl sweepStep (m', g.free, g.oth)).2.1 = _; rw [inv.oth_empty]
  have hcur : g1.sweep.cur = (g.cur.foldl sweepStep (m', g.free, ([] : List Nat))).2.2 := by
    rw [fc]; show (g.cur.foldl sweepStep (m', g.free, g.oth)).2.2 = _; rw [inv.oth_empty]
  have hcur' : g1.sweep.cur = g.cur.filter (fun x => marked m' x) := by rw [hcur, r.bl]; simp
  have hobj' : ∀ x, objAt g1.sweep.mem x = if x ∈ g.cur ∧ marked m' x = false then none else objAt g.mem x := by
    intro x; rw [hmem, r.obj x, mono.obj]
  refine ⟨(g.cur.filter (fun x => !marked m' x)).reverse ++ fl, ?_, ?_, ?_, ?_, ?_, ?_, fo, ?_⟩
  · rw [hobj' 0]
    have : (0 : Nat) ∉ g.cur := fun h => (hpre_obj 0 h).2 rfl
    simp [this, inv.nil_none]
  · rw [hmem, hfree]; exact r.chain
  · refine List.nodup_append.mpr ⟨(List.reverse_perm _).nodup_iff.mpr (inv.cur_nodup.filter _), inv.fl_nodup, ?_⟩
    intro a ha b hb hab; subst hab
    exact hpre_fl a (List.mem_filter.mp (List.mem_reverse.mp ha)).1 hb
  · intro x hx
    rw [hobj' x]
    rcases List.mem_append.mp hx with h | h
    · have h' := List.mem_filter.mp (List.mem_reverse.mp h)
      have : marked m' x = false := by simpa using h'.2
      simp [h'.1, this]
    · rw [inv.fl_free x h]; simp
  · rw [hcur']; exact inv.cur_nodup.filter _
  · intro x
    rw [hcur', hobj' x, List.mem_filter]
    by_cases hc : x ∈ g.cur
    · by_cases hm : marked m' x = true
      · simp [hc, hm, (inv.cur_alloc x).mp hc]
      · have hm' : marked m' x = false := by simpa using hm
        simp [hc, hm']
    · have : objAt g.mem x = none := by
        cases ho : objAt g.mem x with
        | none => rfl
        | some o => exact absurd ((inv.cur_alloc x).mpr (by simp [ho])) hc
      simp [hc, this]
  · intro x h0 hx
    have hx' : x < g.mem.size := by rw [hmem, r.size, mono.size] at hx; exact hx
    rw [hcur', List.mem_append, List.mem_reverse, List.mem_filter, List.mem_filter]
    rcases inv.cover x h0 hx' with h | h
    · exact Or.inl (Or.inr h)
    · by_cases hm : marked m' x = true
      · exact Or.inr ⟨h, hm⟩
      · exact Or.inl (Or.inl ⟨h, by simpa using hm⟩)

/-- a whole collection (`gc_run` past its threshold test), whatever the roots and whatever the objects hold -/
theorem freeInv_collect {g g' : Gc} {st : List Slot} {gp : Nat} (inv : FreeInv g) (h : g.collect st gp = some g') : FreeInv g' := by
  rw [collect_eq] at h
  cases hmp : markPhase g.fuel g.mem st gp with
  | none => rw [hmp] at h; cases h
  | some m' =>
    rw [hmp] at h
    simp only [Option.map_some, Option.some.injEq] at h
    subst h
    exact freeInv_sweep inv (markPhase_spec hmp).post.mono

/-- `gc_run` with its own trigger -/
theorem freeInv_run {g g' : Gc} {st : List Slot} {gp : Nat} (inv : FreeInv g) (h : g.run st gp = some g') : FreeInv g' := by
  unfold Gc.run at h
  split at h
  · exact freeInv_collect inv h
  · cases h; exact inv

end Never
