import NeverModel.Model.Num
/-! where the typed arithmetic handlers of M-Num trap (table-independent; used by C01 and C10) -/
namespace Never.Num

/-- the only trapping operand pairs of a typed binary handler -/
def TrapCase (ty : NTy) (op : BinOp) (a b : NVal) : Prop :=
  match ty, a, b with
  | .int, .int a, .int b =>
    ((op = .div ∨ op = .mod) ∧ a = intMin32 ∧ b = -1) ∨ ((op = .shl ∨ op = .shr) ∧ (b.toInt < 0 ∨ b.toInt ≥ 32))
  | .long, .long a, .long b =>
    ((op = .div ∨ op = .mod) ∧ a = intMin64 ∧ b = -1) ∨ ((op = .shl ∨ op = .shr) ∧ (b.toInt < 0 ∨ b.toInt ≥ 64))
  | _, _, _ => False

theorem binInt_trap (op : BinOp) (a b : BitVec 32) (w : String) (h : binInt op a b = .crash w) :
    ((op = .div ∨ op = .mod) ∧ a = intMin32 ∧ b = -1) ∨ ((op = .shl ∨ op = .shr) ∧ (b.toInt < 0 ∨ b.toInt ≥ 32)) := by
  cases op <;> simp [binInt] at h
  · by_cases hb : b = 0#32
    · simp [hb] at h
    · by_cases hm : (a = intMin32 ∧ b = 4294967295#32)
      · left; exact ⟨Or.inl rfl, hm.1, hm.2⟩
      · simp [hb, hm] at h
  · by_cases hb : b = 0#32
    · simp [hb] at h
    · by_cases hm : (a = intMin32 ∧ b = 4294967295#32)
      · left; exact ⟨Or.inr rfl, hm.1, hm.2⟩
      · simp [hb, hm] at h
  · right; refine ⟨Or.inl rfl, ?_⟩; by_cases hc : (b.toInt < 0 ∨ 32 ≤ b.toInt)
    · omega
    · simp [hc] at h
  · right; refine ⟨Or.inr rfl, ?_⟩; by_cases hc : (b.toInt < 0 ∨ 32 ≤ b.toInt)
    · omega
    · simp [hc] at h

theorem binLong_trap (op : BinOp) (a b : BitVec 64) (w : String) (h : binLong op a b = .crash w) :
    ((op = .div ∨ op = .mod) ∧ a = intMin64 ∧ b = -1) ∨ ((op = .shl ∨ op = .shr) ∧ (b.toInt < 0 ∨ b.toInt ≥ 64)) := by
  cases op <;> simp [binLong] at h
  · by_cases hb : b = 0#64
    · simp [hb] at h
    · by_cases hm : (a = intMin64 ∧ b = 18446744073709551615#64)
      · left; exact ⟨Or.inl rfl, hm.1, hm.2⟩
      · simp [hb, hm] at h
  · by_cases hb : b = 0#64
    · simp [hb] at h
    · by_cases hm : (a = intMin64 ∧ b = 18446744073709551615#64)
      · left; exact ⟨Or.inr rfl, hm.1, hm.2⟩
      · simp [hb, hm] at h
  · right; refine ⟨Or.inl rfl, ?_⟩; by_cases hc : (b.toInt < 0 ∨ 64 ≤ b.toInt)
    · omega
    · simp [hc] at h
  · right; refine ⟨Or.inr rfl, ?_⟩; by_cases hc : (b.toInt < 0 ∨ 64 ≤ b.toInt)
    · omega
    · simp [hc] at h

/-- a typed binary handler traps only on `TrapCase` -/
theorem bin_trap (ty : NTy) (op : BinOp) (a b : NVal) (w : String) (h : bin ty op a b = .crash w) : TrapCase ty op a b := by
  cases ty <;> cases a <;> cases b <;> simp [bin] at h
  · exact binInt_trap op _ _ w h
  · exact binLong_trap op _ _ w h
  · rename_i x y; cases op <;> simp [binFloat] at h <;> (split at h <;> simp at h)
  · rename_i x y; cases op <;> simp [binDouble] at h <;> (split at h <;> simp at h)
  · rename_i x y; cases op <;> simp [binChar] at h

theorem un_conv_never_trap (a : NVal) (w : String) :
    (∀ ty op, un ty op a ≠ .crash w) ∧ (∀ s d, conv s d a ≠ .crash w) := by
  constructor
  · intro ty op h; cases ty <;> cases op <;> cases a <;> simp [un] at h
  · intro s d h; cases s <;> cases d <;> cases a <;> simp [conv] at h

end Never.Num
