import NeverModel.Lemmas.Collect
import NeverModel.Lemmas.Sweep
set_option linter.unusedSimpArgs false
set_option linter.unusedVariables false
/-! the heap invariant of C09 and its preservation by every operation -/
namespace Never
open Mem

/-- the invariant, with the free chain's cell list `fl` as explicit witness -/
structure InvL (g : Gc) (fl : List Nat) : Prop where
  nil_none : objAt g.mem 0 = none
  chain : Chain g.mem g.free fl
  fl_nodup : fl.Nodup
  fl_free : ∀ x ∈ fl, objAt g.mem x = none
  cur_nodup : g.cur.Nodup
  cur_alloc : ∀ x, x ∈ g.cur ↔ (objAt g.mem x).isSome = true
  oth_empty : g.oth = []
  unmarked : ∀ x, marked g.mem x = false
  count : fl.length + g.cur.length + 1 = g.mem.size
  cover : ∀ x, 0 < x → x < g.mem.size → x ∈ fl ∨ x ∈ g.cur
  wk : WK g.mem

def Inv (g : Gc) : Prop := ∃ fl, InvL g fl

/-! ### gc_new -/

theorem nextAt_new (n x : Nat) (h : x < n) :
    nextAt (Gc.new n).mem x = if x = 0 ∨ x + 1 = n then 0 else x + 1 := by
  simp [Gc.new, nextAt, h]
theorem objAt_new (n x : Nat) : objAt (Gc.new n).mem x = none := by
  simp only [Gc.new, objAt]
  by_cases h : x < n <;> simp [h]
theorem marked_new (n x : Nat) : marked (Gc.new n).mem x = false := by
  simp only [Gc.new, marked]
  by_cases h : x < n <;> simp [h]
theorem size_new (n : Nat) : (Gc.new n).mem.size = n := by simp [Gc.new]

theorem chain_new (n : Nat) : ∀ (k s : Nat), 0 < s → s + k = n →
    Chain (Gc.new n).mem (if k = 0 then 0 else s) (List.range' s k) := by
  intro k
  induction k with
  | zero => intro s _ _; simp [Chain]
  | succ k ih =>
    intro s hs hn
    simp only [List.range'_succ, Chain, Nat.succ_ne_zero, if_false, true_and]
    refine ⟨by omega, by rw [size_new]; omega, ?_⟩
    rw [nextAt_new n s (by omega)]
    have := ih (s + 1) (by omega) (by omega)
    by_cases hk : k = 0
    · subst hk; simp at this ⊢; simp [Chain]; omega
    · have h1 : ¬ (s = 0 ∨ s + 1 = n) := by omega
      simpa [hk, h1] using this

theorem inv_new (n : Nat) (h : 1 ≤ n) : Inv (Gc.new n) := by
  refine ⟨List.range' 1 (n - 1), ?_⟩
  have hc := chain_new n (n - 1) 1 (by omega) (by omega)
  have hfree : (Gc.new n).free = (if n - 1 = 0 then 0 else 1) := by
    simp only [Gc.new]
    by_cases hn : 1 < n
    · have : ¬ (n - 1 = 0) := by omega
      simp [hn, this]
    · have : n - 1 = 0 := by omega
      simp [hn, this]
  refine ⟨objAt_new n 0, by rw [hfree]; exact hc, List.nodup_range', fun x _ => objAt_new n x, ?_, ?_, ?_,
    fun x => marked_new n x, ?_, ?_, ?_⟩
  · simp [Gc.cur, Gc.new]
  · intro x; simp [Gc.cur, Gc.new, objAt_new n x]; simpa [Gc.new] using objAt_new n x
  · simp [Gc.oth, Gc.new]
  · simp [Gc.cur, Gc.new]; omega
  · intro x h0 hx; left; rw [size_new] at hx; rw [List.mem_range'_1]; omega
  · intro a o ho; rw [objAt_new] at ho; cases ho

/-! ### replacing an object by one of the same kind (all typed stores) -/

def sameKind : Obj → Obj → Bool
  | .str _, .str _ => true
  | .vec _, .vec _ => true
  | .arr _ _, .arr _ _ => true
  | .strRef _, .strRef _ => true
  | .vecRef _, .vecRef _ => true
  | .arrRef _, .arrRef _ => true
  | .func _ _, .func _ _ => true
  | _, _ => false

theorem kinds_setObj {m : Mem} {a : Nat} {o o' : Obj} (ho : objAt m a = some o) (hk : sameKind o o' = true) (r : Nat) :
    (objAt (setObj m a (some o')) r).isSome = (objAt m r).isSome ∧
    isStr (objAt (setObj m a (some o')) r) = isStr (objAt m r) ∧
    isVec (objAt (setObj m a (some o')) r) = isVec (objAt m r) ∧
    isArr (objAt (setObj m a (some o')) r) = isArr (objAt m r) := by
  have hlt := objAt_some_lt ho
  rw [objAt_setObj]
  by_cases har : a = r
  · subst har
    simp only [hlt, and_self, if_true, ho]
    cases o <;> cases o' <;> simp_all [sameKind, isStr, isVec, isArr]
  · simp [har]

theorem okObj_setObj {m : Mem} {a : Nat} {o o' : Obj} (ho : objAt m a = some o) (hk : sameKind o o' = true) (x : Obj) :
    (setObj m a (some o')).okObj x = m.okObj x := by
  have hr : (setObj m a (some o')).okRef = m.okRef := by
    funext r; simp [Mem.okRef, (kinds_setObj ho hk r).1]
  cases x <;> simp [Mem.okObj, hr, Mem.okStr, Mem.okVec, Mem.okArr,
    (kinds_setObj ho hk _).2.1, (kinds_setObj ho hk _).2.2.1, (kinds_setObj ho hk _).2.2.2]

theorem inv_replace {g : Gc} {fl : List Nat} {a : Nat} {o o' : Obj} (inv : InvL g fl)
    (ho : objAt g.mem a = some o) (hk : sameKind o o' = true) (hok : g.mem.okObj o' = true) :
    InvL { g with mem := g.mem.setObj a (some o') } fl := by
  have hlt := objAt_some_lt ho
  have hsome : ∀ x, (objAt (g.mem.setObj a (some o')) x).isSome = (objAt g.mem x).isSome :=
    fun x => (kinds_setObj ho hk x).1
  refine ⟨?_, ?_, inv.fl_nodup, ?_, inv.cur_nodup, ?_, inv.oth_empty, ?_, ?_, ?_, ?_⟩
  · have := hsome 0; rw [inv.nil_none] at this; simpa using this
  · exact Chain.congr (by simp) (by intro x _; simp) inv.chain
  · intro x hx; have := hsome x; rw [inv.fl_free x hx] at this; simpa using this
  · intro x; show x ∈ g.cur ↔ _; rw [hsome x]; exact inv.cur_alloc x
  · intro x; simp [inv.unmarked x]
  · show fl.length + g.cur.length + 1 = (g.mem.setObj a (some o')).size; simpa using inv.count
  · intro x h0 hx; exact inv.cover x h0 (by simpa using hx)
  · intro b ob hb
    show (g.mem.setObj a (some o')).okObj ob = true
    rw [okObj_setObj ho hk]
    rw [objAt_setObj] at hb
    by_cases hab : a = b
    · subst hab; simp [hlt] at hb; subst hb; exact hok
    · simp [hab] at hb; exact inv.wk b ob hb

theorem all_okRef_set {m : Mem} {fs : List Nat} {i v : Nat} (h : fs.all m.okRef = true) (hv : m.okRef v = true) :
    (fs.set i v).all m.okRef = true := by
  rw [List.all_eq_true] at h ⊢
  intro x hx
  rcases List.mem_or_eq_of_mem_set hx with h' | h'
  · exact h x h'
  · subst h'; exact hv

theorem inv_setVec {g g' : Gc} {fl} {a i v : Nat} (inv : InvL g fl) (hv : g.mem.okRef v = true)
    (h : g.setVec a i v = some g') : InvL g' fl := by
  unfold Gc.setVec at h
  split at h
  · rename_i fs ho
    split at h
    · cases h
      exact inv_replace inv ho (by simp [sameKind]) (by
        have := inv.wk a _ ho; simp only [Mem.okObj] at this ⊢; exact all_okRef_set this hv)
    · cases h
  · cases h

theorem inv_setArrElem {g g' : Gc} {fl} {a i v : Nat} (inv : InvL g fl) (hv : g.mem.okRef v = true)
    (h : g.setArrElem a i v = some g') : InvL g' fl := by
  unfold Gc.setArrElem at h
  split at h
  · rename_i dv es ho
    split at h
    · cases h
      exact inv_replace inv ho (by simp [sameKind]) (by
        have := inv.wk a _ ho; simp only [Mem.okObj] at this ⊢; exact all_okRef_set this hv)
    · cases h
  · cases h

theorem inv_appendArrElem {g g' : Gc} {fl} {a v : Nat} (inv : InvL g fl) (hv : g.mem.okRef v = true)
    (h : g.appendArrElem a v = some g') : InvL g' fl := by
  unfold Gc.appendArrElem at h
  split at h
  · rename_i n mult es ho
    cases h
    exact inv_replace inv ho (by simp [sameKind]) (by
      have := inv.wk a _ ho; simp only [Mem.okObj] at this ⊢
      simp [List.all_append, this, hv])
  · cases h

theorem inv_setFuncVec {g g' : Gc} {fl} {a v : Nat} (inv : InvL g fl) (hv : g.mem.okVec v = true)
    (h : g.setFuncVec a v = some g') : InvL g' fl := by
  unfold Gc.setFuncVec at h
  split at h
  · rename_i e ip ho; cases h
    exact inv_replace inv ho (by simp [sameKind]) (by simpa [Mem.okObj] using hv)
  · cases h

theorem inv_setVecRef {g g' : Gc} {fl} {a v : Nat} (inv : InvL g fl) (hv : g.mem.okVec v = true)
    (h : g.setVecRef a v = some g') : InvL g' fl := by
  unfold Gc.setVecRef at h
  split at h
  · rename_i p ho; cases h
    exact inv_replace inv ho (by simp [sameKind]) (by simpa [Mem.okObj] using hv)
  · cases h

theorem inv_setArrRef {g g' : Gc} {fl} {a v : Nat} (inv : InvL g fl) (hv : g.mem.okArr v = true)
    (h : g.setArrRef a v = some g') : InvL g' fl := by
  unfold Gc.setArrRef at h
  split at h
  · rename_i p ho; cases h
    exact inv_replace inv ho (by simp [sameKind]) (by simpa [Mem.okObj] using hv)
  · cases h

theorem inv_setStringRef {g g' : Gc} {fl} {a v : Nat} (inv : InvL g fl) (hv : g.mem.okStr v = true)
    (h : g.setStringRef a v = some g') : InvL g' fl := by
  unfold Gc.setStringRef at h
  split at h
  · rename_i p ho; cases h
    exact inv_replace inv ho (by simp [sameKind]) (by simpa [Mem.okObj] using hv)
  · cases h

/-! ### gc_alloc_any -/

theorem okObj_alloc {m : Mem} {loc : Nat} {o' : Obj} (hl : objAt m loc = none) (x : Obj)
    (h : m.okObj x = true) : (setObj m loc (some o')).okObj x = true := by
  have key : ∀ r, (objAt m r).isSome = true → objAt (setObj m loc (some o')) r = objAt m r := by
    intro r hr
    rw [objAt_setObj]
    by_cases hlr : loc = r
    · subst hlr; rw [hl] at hr; cases hr
    · simp [hlr]
  have kref : ∀ r, m.okRef r = true → (setObj m loc (some o')).okRef r = true := by
    intro r hr
    simp only [Mem.okRef, Bool.or_eq_true, decide_eq_true_eq] at hr ⊢
    rcases hr with h0 | hs
    · exact Or.inl h0
    · right; rw [key r hs]; exact hs
  have kstr : ∀ r, m.okStr r = true → (setObj m loc (some o')).okStr r = true := by
    intro r hr
    simp only [Mem.okStr, Bool.or_eq_true, decide_eq_true_eq] at hr ⊢
    rcases hr with h0 | hs
    · exact Or.inl h0
    · right
      have : (objAt m r).isSome = true := by cases ho : objAt m r <;> simp_all [isStr]
      rw [key r this]; exact hs
  have kvec : ∀ r, m.okVec r = true → (setObj m loc (some o')).okVec r = true := by
    intro r hr
    simp only [Mem.okVec, Bool.or_eq_true, decide_eq_true_eq] at hr ⊢
    rcases hr with h0 | hs
    · exact Or.inl h0
    · right
      have : (objAt m r).isSome = true := by cases ho : objAt m r <;> simp_all [isVec]
      rw [key r this]; exact hs
  have karr : ∀ r, m.okArr r = true → (setObj m loc (some o')).okArr r = true := by
    intro r hr
    simp only [Mem.okArr, Bool.or_eq_true, decide_eq_true_eq] at hr ⊢
    rcases hr with h0 | hs
    · exact Or.inl h0
    · right
      have : (objAt m r).isSome = true := by cases ho : objAt m r <;> simp_all [isArr]
      rw [key r this]; exact hs
  cases x <;> simp only [Mem.okObj] at h ⊢ <;> first | rfl | exact kstr _ h | exact kvec _ h | exact karr _ h | skip
  · rw [List.all_eq_true] at h ⊢; intro r hr; exact kref r (h r hr)
  · rw [List.all_eq_true] at h ⊢; intro r hr; exact kref r (h r hr)

/-- result of a successful `gc_alloc_any` -/
theorem inv_alloc {g g' : Gc} {fl : List Nat} {o : Obj} {loc : Nat} (inv : InvL g fl)
    (hok : g.mem.okObj o = true) (h : g.alloc o = some (g', loc)) :
    ∃ fl', fl = loc :: fl' ∧ InvL g' fl' ∧ objAt g.mem loc = none ∧ loc ≠ 0 ∧
      g'.mem = g.mem.setObj loc (some o) ∧ g'.cur = g.cur ++ [loc] := by
  unfold Gc.alloc at h
  simp only at h
  split at h
  · cases h
  · rename_i hfree
    have hg' : g' = (if g.w then { g with mem := g.mem.setObj g.free (some o), free := g.mem.nextAt g.free, wb1 := g.wb1 ++ [g.free] }
                     else { g with mem := g.mem.setObj g.free (some o), free := g.mem.nextAt g.free, wb0 := g.wb0 ++ [g.free] }) ∧ loc = g.free := by
      simp only [Option.some.injEq, Prod.mk.injEq] at h
      exact ⟨h.1.symm, h.2.symm⟩
    obtain ⟨hg', hloc⟩ := hg'
    -- the chain is non-empty
    cases fl with
    | nil => exact absurd inv.chain hfree
    | cons x fl' =>
      obtain ⟨hx, hx0, hxlt, hch⟩ := inv.chain
      have hxl : x = loc := by rw [hloc]; exact hx.symm
      subst hxl
      have hlnone := inv.fl_free x (by simp)
      have hx_notin_cur : x ∉ g.cur := by
        intro hmem; have := (inv.cur_alloc x).mp hmem; rw [hlnone] at this; cases this
      have hmem' : g'.mem = g.mem.setObj x (some o) := by rw [hg', hloc]; cases g.w <;> simp
      have hfree' : g'.free = g.mem.nextAt x := by rw [hg', hloc]; cases g.w <;> simp
      have hcur' : g'.cur = g.cur ++ [x] := by rw [hg', hloc]; cases hw : g.w <;> simp [Gc.cur, hw]
      have hoth' : g'.oth = g.oth := by rw [hg']; cases hw : g.w <;> simp [Gc.oth, hw]
      refine ⟨fl', rfl, ?_, hlnone, hx0, hmem', hcur'⟩
      have hnd := List.nodup_cons.mp inv.fl_nodup
      refine ⟨?_, ?_, hnd.2, ?_, ?_, ?_, ?_, ?_, ?_, ?_, ?_⟩
      · rw [hmem', objAt_setObj]; simp [hx0, inv.nil_none]
      · rw [hmem', hfree']; exact Chain.congr (by simp) (by intro y _; simp) hch
      · intro y hy
        rw [hmem', objAt_setObj]
        have : x ≠ y := fun h => hnd.1 (h ▸ hy)
        simp [this, inv.fl_free y (List.mem_cons_of_mem _ hy)]
      · rw [hcur']; exact List.nodup_append.mpr ⟨inv.cur_nodup, by simp, by
          intro a ha b hb; simp at hb; subst hb; intro h; subst h; exact hx_notin_cur ha⟩
      · intro y
        rw [hcur', hmem', objAt_setObj]
        by_cases hxy : x = y
        · subst hxy; simp [hxlt]
        · have hyx : y ≠ x := fun h => hxy h.symm
          simp [hxy, hyx, inv.cur_alloc y]
      · rw [hoth']; exact inv.oth_empty
      · intro y; rw [hmem']; simp [inv.unmarked y]
      · rw [hcur', hmem']; have := inv.count; simp at this ⊢; omega
      · intro y h0 hy
        rw [hmem'] at hy; rw [hcur']
        rcases inv.cover y h0 (by simpa using hy) with h | h
        · rcases List.mem_cons.mp h with h | h
          · right; simp [h]
          · left; exact h
        · right; simp [h]
      · intro b ob hb
        rw [hmem'] at hb ⊢
        rw [objAt_setObj] at hb
        by_cases hxb : x = b
        · subst hxb; simp [hxlt] at hb; subst hb; exact okObj_alloc hlnone _ hok
        · simp [hxb] at hb; exact okObj_alloc hlnone _ (inv.wk b ob hb)

end Never
