/-
`collect` commutes with renaming: the function table of the renamed program is the renamed
function table (purely syntactic; structural induction over the AST).
-/
import NeverModel.Lemmas.SrcAlphaCore
namespace Never.Src

variable {ν : Ren}

theorem rnStack_cons (x : Name) (bs : List Name) : rnStack ν (x :: bs) = ν x bs.length :: rnStack ν bs := rfl

theorem rnStack_length (bs : List Name) : (rnStack ν bs).length = bs.length := by
  induction bs with
  | nil => rfl
  | cons x bs ih => simp [rnStack, ih]

theorem rnStack_rev_append (xs bs : List Name) :
    rnStack ν (xs.reverse ++ bs) = (rnNames ν bs.length xs).reverse ++ rnStack ν bs := by
  induction xs generalizing bs with
  | nil => rfl
  | cons x xs ih =>
    simp only [List.reverse_cons, List.append_assoc, List.singleton_append, rnNames]
    rw [ih (x :: bs), rnStack_cons]
    simp

theorem paramBinders_rn (d : Nat) (ps : List Param) : paramBinders (rnParams ν d ps) = rnNames ν d (paramBinders ps) := by
  induction ps generalizing d with
  | nil => rfl
  | cons p ps ih =>
    simp only [rnParams, paramBinders, rnNames, ih]
    congr 1
    -- rnNames over an append
    have happ : ∀ (d : Nat) (xs ys : List Name), rnNames ν d (xs ++ ys) = rnNames ν d xs ++ rnNames ν (d + xs.length) ys := by
      intro d xs
      induction xs generalizing d with
      | nil => intro ys; simp [rnNames]
      | cons x xs ihx => intro ys; simp [rnNames, ihx, Nat.add_assoc, Nat.add_comm 1]
    rw [happ]

theorem funcNames_rnFs (bs : List Name) (d : Nat) (fs : List Func) :
    funcNames (rnFs ν bs d fs) = rnNames ν d (funcNames fs) := by
  induction fs generalizing d with
  | nil => rfl
  | cons f fs ih => obtain ⟨id, n, ps, r, body, cs⟩ := f; simp [rnFs, funcNames, rnNames, rnF, Func.name, ih]

theorem qualBinders_rn (bs : List Name) (qs : List Qual) :
    qualBinders (rnQuals ν bs qs) ++ rnStack ν bs = rnStack ν (qualBinders qs ++ bs) := by
  induction qs generalizing bs with
  | nil => rfl
  | cons q qs ih =>
    cases q with
    | filter e => simp only [rnQuals, qualBinders, ih]
    | gen x coll =>
      simp only [rnQuals, qualBinders, List.append_assoc, List.singleton_append]
      rw [← rnStack_cons, ih]

mutual
theorem collectE_rn (hν : Adm ν) (bs : List Name) : ∀ e : Expr,
    collectE (rnStack ν bs) (rnE ν bs e) = (collectE bs e).map (rnEntry ν)
  | .lit _ => rfl
  | .var _ => rfl
  | .dimVar _ => rfl
  | .enumVal _ _ => rfl
  | .un _ a => by simp only [rnE, collectE, collectE_rn hν bs a]
  | .bin _ a b => by simp only [rnE, collectE, collectE_rn hν bs a, collectE_rn hν bs b, List.map_append]
  | .and a b => by simp only [rnE, collectE, collectE_rn hν bs a, collectE_rn hν bs b, List.map_append]
  | .or a b => by simp only [rnE, collectE, collectE_rn hν bs a, collectE_rn hν bs b, List.map_append]
  | .assign a b => by simp only [rnE, collectE, collectE_rn hν bs a, collectE_rn hν bs b, List.map_append]
  | .while a b => by simp only [rnE, collectE, collectE_rn hν bs a, collectE_rn hν bs b, List.map_append]
  | .doWhile a b => by simp only [rnE, collectE, collectE_rn hν bs a, collectE_rn hν bs b, List.map_append]
  | .cond c t e => by simp only [rnE, collectE, collectE_rn hν bs c, collectE_rn hν bs t, collectE_rn hν bs e, List.map_append]
  | .seq items => by simp only [rnE, collectE, collectItems_rn hν bs items]
  | .for i c s b => by
    simp only [rnE, collectE, collectE_rn hν bs i, collectE_rn hν bs c, collectE_rn hν bs s, collectE_rn hν bs b, List.map_append]
  | .forIn x coll b => by
    have := collectE_rn hν (x :: bs) b
    rw [rnStack_cons] at this
    simp only [rnE, collectE, collectE_rn hν bs coll, this, List.map_append]
  | .call f args => by simp only [rnE, collectE, collectE_rn hν bs f, collectEs_rn hν bs args, List.map_append]
  | .pipe l f args => by
    simp only [rnE, collectE, collectE_rn hν bs l, collectE_rn hν bs f, collectEs_rn hν bs args, List.map_append]
  | .builtin _ args => by simp only [rnE, collectE, collectEs_rn hν bs args]
  | .arrLit _ args _ => by simp only [rnE, collectE, collectEs_rn hν bs args]
  | .arrNew args _ => by simp only [rnE, collectE, collectEs_rn hν bs args]
  | .record _ args => by simp only [rnE, collectE, collectEs_rn hν bs args]
  | .tuple args => by simp only [rnE, collectE, collectEs_rn hν bs args]
  | .enumRec _ _ args => by simp only [rnE, collectE, collectEs_rn hν bs args]
  | .range args => by simp only [rnE, collectE, collectEs_rn hν bs args]
  | .slice a idx => by simp only [rnE, collectE, collectE_rn hν bs a, collectEs_rn hν bs idx, List.map_append]
  | .lam (.mk id n ps r body cs) => by
    by_cases hn : n = ""
    · have := collectF_rn hν bs "" (.mk id n ps r body cs)
      simp only [rnE, hn, if_true, collectE, rnF, Func.name] at this ⊢
      exact this
    · have hne : ν n bs.length ≠ "" := hν.nonempty _ _
      have := collectF_rn hν (n :: bs) (ν n bs.length) (.mk id n ps r body cs)
      rw [rnStack_cons] at this
      simp only [rnE, hn, if_false, collectE, rnF, Func.name, hne] at this ⊢
      exact this
  | .index a idx => by simp only [rnE, collectE, collectE_rn hν bs a, collectEs_rn hν bs idx, List.map_append]
  | .field e _ => by simp only [rnE, collectE, collectE_rn hν bs e]
  | .matchE e gs => by simp only [rnE, collectE, collectE_rn hν bs e, collectGuards_rn hν bs gs, List.map_append]
  | .ifLet g e els => by
    simp only [rnE, collectE, collectE_rn hν bs e, collectGuard_rn hν bs g, collectE_rn hν bs els, List.map_append]
  | .listcomp body quals _ => by
    have := collectE_rn hν (qualBinders quals ++ bs) body
    rw [← qualBinders_rn] at this
    simp only [rnE, collectE, collectQuals_rn hν bs quals, this, List.map_append]
theorem collectEs_rn (hν : Adm ν) (bs : List Name) : ∀ es : List Expr,
    collectEs (rnStack ν bs) (rnEs ν bs es) = (collectEs bs es).map (rnEntry ν)
  | [] => rfl
  | e :: es => by simp only [rnEs, collectEs, collectE_rn hν bs e, collectEs_rn hν bs es, List.map_append]
theorem collectItems_rn (hν : Adm ν) (bs : List Name) : ∀ items : List Item,
    collectItems (rnStack ν bs) (rnItems ν bs items) = (collectItems bs items).map (rnEntry ν)
  | [] => rfl
  | .expr e :: rest => by simp only [rnItems, collectItems, collectE_rn hν bs e, collectItems_rn hν bs rest, List.map_append]
  | .bind _ x e :: rest => by
    have := collectItems_rn hν (x :: bs) rest
    rw [rnStack_cons] at this
    simp only [rnItems, collectItems, collectE_rn hν bs e, this, List.map_append]
  | .funcs fs :: rest => by
    have h1 := collectFs_rn hν ((funcNames fs).reverse ++ bs) bs.length fs
    have h2 := collectItems_rn hν ((funcNames fs).reverse ++ bs) rest
    rw [rnStack_rev_append] at h1 h2
    simp only [rnItems, collectItems, funcNames_rnFs, h1, h2, List.map_append]
theorem collectFs_rn (hν : Adm ν) (bs : List Name) (d : Nat) : ∀ fs : List Func,
    collectFs (rnStack ν bs) (rnFs ν bs d fs) = (collectFs bs fs).map (rnEntry ν)
  | [] => rfl
  | .mk id n ps r body cs :: fs => by
    simp only [rnFs, collectFs, collectF_rn hν bs (ν n d) (.mk id n ps r body cs), collectFs_rn hν bs (d + 1) fs, List.map_append]
theorem collectF_rn (hν : Adm ν) (bs : List Name) (nn : Name) : ∀ fn : Func,
    collectF (rnStack ν bs) (rnF ν bs nn fn) = (collectF bs fn).map (rnEntry ν)
  | .mk id n ps r body cs => by
    have hb := collectE_rn hν ((paramBinders ps).reverse ++ bs) body
    have hc := collectCatches_rn hν ((paramBinders ps).reverse ++ bs) cs
    rw [rnStack_rev_append] at hb hc
    simp only [rnF, collectF, paramBinders_rn, rnStack_length, hb, hc, List.map_cons, List.map_append, rnEntry]
theorem collectCatches_rn (hν : Adm ν) (bs : List Name) : ∀ cs : List Catch,
    collectCatches (rnStack ν bs) (rnCatches ν bs cs) = (collectCatches bs cs).map (rnEntry ν)
  | [] => rfl
  | .mk _ b :: cs => by simp only [rnCatches, collectCatches, collectE_rn hν bs b, collectCatches_rn hν bs cs, List.map_append]
theorem collectGuard_rn (hν : Adm ν) (bs : List Name) : ∀ g : Guard,
    collectGuard (rnStack ν bs) (rnGuard ν bs g) = (collectGuard bs g).map (rnEntry ν)
  | .item _ _ b => by simp only [rnGuard, collectGuard, collectE_rn hν bs b]
  | .els b => by simp only [rnGuard, collectGuard, collectE_rn hν bs b]
  | .recd _ _ binds b => by
    have := collectE_rn hν (binds.reverse ++ bs) b
    rw [rnStack_rev_append] at this
    simp only [rnGuard, collectGuard, this]
theorem collectGuards_rn (hν : Adm ν) (bs : List Name) : ∀ gs : List Guard,
    collectGuards (rnStack ν bs) (rnGuards ν bs gs) = (collectGuards bs gs).map (rnEntry ν)
  | [] => rfl
  | g :: gs => by simp only [rnGuards, collectGuards, collectGuard_rn hν bs g, collectGuards_rn hν bs gs, List.map_append]
theorem collectQuals_rn (hν : Adm ν) (bs : List Name) : ∀ qs : List Qual,
    collectQuals (rnStack ν bs) (rnQuals ν bs qs) = (collectQuals bs qs).map (rnEntry ν)
  | [] => rfl
  | .filter e :: qs => by simp only [rnQuals, collectQuals, collectE_rn hν bs e, collectQuals_rn hν bs qs, List.map_append]
  | .gen x coll :: qs => by
    have := collectQuals_rn hν (x :: bs) qs
    rw [rnStack_cons] at this
    simp only [rnQuals, collectQuals, collectE_rn hν bs coll, this, List.map_append]
end

end Never.Src
