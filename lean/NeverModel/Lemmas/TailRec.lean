/-
Lemmas about the tail-call marker model (`Model/TailRec.lean`): what `markedAt` means along a path,
and the evaluator's behaviour along tail children.
-/
import NeverModel.Model.TailRec
import NeverModel.Lemmas.SrcAlpha
namespace Never.Src.Tail
open Never.Src
open Never.Gen.TailTab (Pass Row)

/-! ### enumeration of the slots -/

def allUn : List UnOp := [.neg, .not, .bnot]
def allBin : List BinOp := [.add, .sub, .mul, .div, .mod, .lt, .gt, .le, .ge, .eq, .ne, .band, .bor, .bxor, .shl, .shr]

def Slot.all : List Slot :=
  allUn.map .unArg ++ allBin.map .binL ++ allBin.map .binR ++
  [.andL, .andR, .orL, .orR, .condC, .condT, .condE, .assignL, .assignR,
   .seqLastExpr, .seqInitExpr, .seqLastBind, .seqInitBind, .seqLastFunc, .seqInitFunc,
   .whileC, .whileB, .doWhileB, .doWhileC, .forI, .forC, .forS, .forB, .forInColl, .forInBody,
   .callFn, .callArg, .builtinArg, .lamFn, .arrLitElem, .arrNewDim, .indexArr, .indexIdx,
   .recordArg, .tupleArg, .fieldObj, .enumRecArg, .matchScrut, .armItem, .armRecd, .armEls,
   .ifLetScrut, .ifLetThen, .ifLetElse, .compGen, .compFilter, .compBody,
   .funcBody, .catchOne, .catchAll, .progLastFunc, .progInitFunc]

theorem Slot.mem_all (s : Slot) : s ∈ Slot.all := by
  cases s with
  | unArg op => cases op <;> simp [Slot.all, allUn]
  | binL op => cases op <;> simp [Slot.all, allBin, allUn]
  | binR op => cases op <;> simp [Slot.all, allBin, allUn]
  | _ => simp [Slot.all]

/-- a fact decided for every element of `Slot.all` holds of every slot -/
theorem Slot.forall_of_all {P : Slot → Bool} (h : Slot.all.all P = true) (s : Slot) : P s = true :=
  List.all_eq_true.mp h s (Slot.mem_all s)

/-! ### the flag and the visible names along a path -/

/-- the flag that arrives at the end of a path -/
def flagAlong (tab : Slot → Pass) : Bool → Path → Bool
  | op, [] => op
  | op, (s, _) :: p => flagAlong tab (flag (tab s) op) p

/-- the names tailrec.c's lookup sees at the end of a path -/
def seenAlong : List Name → List Name → Expr → Path → List Name
  | seen, _, _, [] => seen
  | seen, pend, e, (s, i) :: p =>
    match kid e s i with
    | none => seen
    | some c =>
      if opensTable e s i then seenAlong (cBinders e s i ++ pend ++ seen) [] c p
      else seenAlong seen (hiddenBinders e s i ++ pend) c p

/-- `markedAt` unfolded: the node exists, the flag that arrives is ADD, and the node passes the retagging test -/
theorem markedAt_iff (tab : Slot → Pass) (self : Name) (p : Path) : ∀ (seen pend : List Name) (op : Bool) (e : Expr),
    markedAt tab self seen pend op e p = true ↔
      ∃ c, sub e p = some c ∧ flagAlong tab op p = true ∧ isSelfCall self (seenAlong seen pend e p) c = true := by
  induction p with
  | nil =>
    intro seen pend op e
    simp [markedAt, sub, flagAlong, seenAlong]
  | cons st p ih =>
    intro seen pend op e
    obtain ⟨s, i⟩ := st
    simp only [markedAt, sub, flagAlong, seenAlong]
    cases hk : kid e s i with
    | none => simp
    | some c =>
      simp only []
      split
      · exact ih _ _ _ _
      · exact ih _ _ _ _

theorem flagAlong_false (tab : Slot → Pass) (p : Path) (h : ∀ st ∈ p, tab st.1 ≠ .add) : flagAlong tab false p = false := by
  induction p with
  | nil => rfl
  | cons st p ih =>
    obtain ⟨s, i⟩ := st
    have hs : tab s ≠ .add := h (s, i) (by simp)
    have : flag (tab s) false = false := by
      cases ht : tab s <;> simp_all [flag]
    simp only [flagAlong, this]
    exact ih (fun st hst => h st (by simp [hst]))

/-- if ADD arrives at the end of a path none of whose steps re-raises the flag, then the flag was ADD at the start and
every step handed it down unchanged -/
theorem flagAlong_true (tab : Slot → Pass) (p : Path) (h : ∀ st ∈ p, tab st.1 ≠ .add) :
    ∀ op, flagAlong tab op p = true → op = true ∧ ∀ st ∈ p, tab st.1 = .op := by
  induction p with
  | nil => intro op hop; exact ⟨hop, by simp⟩
  | cons st p ih =>
    intro op hop
    obtain ⟨s, i⟩ := st
    have hs : tab s ≠ .add := h (s, i) (by simp)
    simp only [flagAlong] at hop
    have ⟨h1, h2⟩ := ih (fun st hst => h st (by simp [hst])) _ hop
    cases ht : tab s with
    | op =>
      rw [ht] at h1
      refine ⟨h1, ?_⟩
      intro st hst
      rcases List.mem_cons.mp hst with rfl | hst
      · exact ht
      · exact h2 st hst
    | skip => rw [ht] at h1; simp [flag] at h1
    | add => exact absurd ht hs
    | fresh => rw [ht] at h1; simp [flag] at h1

theorem flagAlong_of_all_op (tab : Slot → Pass) (p : Path) (h : ∀ st ∈ p, tab st.1 = .op) : flagAlong tab true p = true := by
  induction p with
  | nil => rfl
  | cons st p ih =>
    obtain ⟨s, i⟩ := st
    have hs : tab s = .op := h (s, i) (by simp)
    simp only [flagAlong, hs, flag]
    exact ih (fun st hst => h st (by simp [hst]))

/-- the steps of a path that exists are children of expressions: never a function-level site -/
theorem kid_funcBody (e : Expr) (i : Nat) : kid e .funcBody i = none := by
  cases e <;> simp [kid]

theorem sub_isSome_cons {e : Expr} {s : Slot} {i : Nat} {p : Path} (h : (sub e ((s, i) :: p)).isSome) :
    ∃ c, kid e s i = some c ∧ (sub c p).isSome := by
  simp only [sub] at h
  cases hk : kid e s i with
  | none => rw [hk] at h; simp at h
  | some c => rw [hk] at h; exact ⟨c, rfl, h⟩

theorem steps_not_funcBody {e : Expr} {p : Path} (h : (sub e p).isSome) : ∀ st ∈ p, st.1 ≠ Slot.funcBody := by
  induction p generalizing e with
  | nil => simp
  | cons st p ih =>
    obtain ⟨s, i⟩ := st
    obtain ⟨c, hk, hc⟩ := sub_isSome_cons h
    intro st hst
    rcases List.mem_cons.mp hst with rfl | hst
    · intro hs
      simp only at hs
      rw [hs, kid_funcBody] at hk
      cases hk
    · exact ih hc st hst

theorem isSelfCall_spec {self : Name} {bound : List Name} {c : Expr} (h : isSelfCall self bound c = true) :
    ∃ args, c = .call (.var self) args ∧ self ≠ "" ∧ self ∉ bound := by
  unfold isSelfCall at h
  split at h
  · rename_i x args
    simp only [Bool.and_eq_true, beq_iff_eq, bne_iff_ne, ne_eq, Bool.not_eq_eq_eq_not, Bool.not_true,
      List.contains_eq_mem, decide_eq_false_iff_not] at h
    obtain ⟨⟨h1, h2⟩, h3⟩ := h
    subst h1
    exact ⟨args, rfl, h2, h3⟩
  · cases h

/-- the only tail child to which tailrec.c hands a new table is the last expression of a block -/
theorem cBinders_tail (e : Expr) (s : Slot) (i : Nat) (hs : specTail s = true) (x : Name) (hx : x ∈ cBinders e s i) :
    x ∈ scopeStep e s i := by
  cases s <;> simp [specTail] at hs <;> cases e <;> simp_all [cBinders, guardBinds, scopeStep]
  rename_i g _ _
  cases g <;> simp_all [cBinders, guardBinds, scopeStep]

/-- the names a tail child's construct keeps in a table of its own are in lexical scope of the child -/
theorem hiddenBinders_tail (e : Expr) (s : Slot) (i : Nat) (hs : specTail s = true) (x : Name) (hx : x ∈ hiddenBinders e s i) :
    x ∈ scopeStep e s i := by
  cases s <;> simp [specTail] at hs <;> cases e <;> simp_all [hiddenBinders, scopeStep]

/-- along a TAIL path the marker's lookup sees no more than the names in lexical scope -/
theorem seenAlong_tail (p : Path) : ∀ (seen pend : List Name) (e : Expr), (∀ st ∈ p, specTail st.1 = true) →
    ∀ x, x ∈ seenAlong seen pend e p → x ∈ seen ∨ x ∈ pend ∨ x ∈ tailScope e p := by
  induction p with
  | nil => intro seen pend e _ x hx; exact Or.inl hx
  | cons st p ih =>
    intro seen pend e hp x hx
    obtain ⟨s, i⟩ := st
    simp only [seenAlong, tailScope] at hx ⊢
    cases hk : kid e s i with
    | none => rw [hk] at hx; exact Or.inl hx
    | some c =>
      rw [hk] at hx
      simp only [] at hx ⊢
      have hs : specTail s = true := hp (s, i) (by simp)
      have hp' : ∀ st ∈ p, specTail st.1 = true := fun st hst => hp st (by simp [hst])
      split at hx
      · rcases ih _ _ c hp' x hx with h | h | h
        · rcases List.mem_append.mp h with h | h
          · rcases List.mem_append.mp h with h | h
            · exact Or.inr (Or.inr (List.mem_append.mpr (Or.inr (cBinders_tail e s i hs x h))))
            · exact Or.inr (Or.inl h)
          · exact Or.inl h
        · cases h
        · exact Or.inr (Or.inr (List.mem_append.mpr (Or.inl h)))
      · rcases ih _ _ c hp' x hx with h | h | h
        · exact Or.inl h
        · rcases List.mem_append.mp h with h | h
          · exact Or.inr (Or.inr (List.mem_append.mpr (Or.inr (hiddenBinders_tail e s i hs x h))))
          · exact Or.inr (Or.inl h)
        · exact Or.inr (Or.inr (List.mem_append.mpr (Or.inl h)))

/-- conversely (since fix f0e3e9c): whatever a tail child has in lexical scope in addition to its parent is in the table
that is handed to it -/
theorem scopeStep_opens (e : Expr) (s : Slot) (i : Nat) (hs : specTail s = true) (x : Name) (hx : x ∈ scopeStep e s i) :
    opensTable e s i = true ∧ x ∈ cBinders e s i := by
  cases s <;> simp [specTail] at hs <;> cases e <;> simp_all [scopeStep, opensTable, cBinders, guardBinds]
  · rename_i gs
    cases hg : gs[i]? with
    | none => simp_all
    | some g => cases g <;> simp_all <;> (intro h; simp_all)
  · rename_i g _ _
    cases g <;> simp_all <;> (intro h; simp_all)

theorem seenAlong_mono (p : Path) : ∀ (seen pend : List Name) (e : Expr) (x : Name), x ∈ seen → x ∈ seenAlong seen pend e p := by
  induction p with
  | nil => intro seen pend e x hx; exact hx
  | cons st p ih =>
    intro seen pend e x hx
    obtain ⟨s, i⟩ := st
    simp only [seenAlong]
    cases hk : kid e s i with
    | none => exact hx
    | some c =>
      simp only []
      split
      · exact ih _ _ _ _ (List.mem_append.mpr (Or.inr hx))
      · exact ih _ _ _ _ hx

/-- along a TAIL path the marker's lookup sees EVERY name in lexical scope (with `seenAlong_tail`: exactly those) -/
theorem tailScope_seen (p : Path) : ∀ (seen pend : List Name) (e : Expr), (∀ st ∈ p, specTail st.1 = true) →
    ∀ x, x ∈ tailScope e p → x ∈ seenAlong seen pend e p := by
  induction p with
  | nil => intro seen pend e _ x hx; simp [tailScope] at hx
  | cons st p ih =>
    intro seen pend e hp x hx
    obtain ⟨s, i⟩ := st
    simp only [seenAlong, tailScope] at hx ⊢
    cases hk : kid e s i with
    | none => rw [hk] at hx; simp at hx
    | some c =>
      rw [hk] at hx
      simp only [] at hx ⊢
      have hs : specTail s = true := hp (s, i) (by simp)
      have hp' : ∀ st ∈ p, specTail st.1 = true := fun st hst => hp st (by simp [hst])
      rcases List.mem_append.mp hx with h | h
      · split
        · exact ih _ _ c hp' x h
        · exact ih _ _ c hp' x h
      · obtain ⟨ho, hc⟩ := scopeStep_opens e s i hs x h
        rw [ho]
        simp only [if_true]
        exact seenAlong_mono p _ _ c x (List.mem_append.mpr (Or.inl (List.mem_append.mpr (Or.inl hc))))

end Never.Src.Tail
