import NeverModel.Lemmas.VmFoot
set_option linter.unusedSimpArgs false
set_option linter.unusedVariables false
/-! per-opcode write footprint of `exec`: a handler that pops `p` operands writes no stack slot below `sp − p + 1` (generated list,
each proved by the `foot` automation) -/
namespace Never.Vm
open Never Never.Num

set_option maxRecDepth 8000 in
theorem foot_INT (md : Module) (ins : Instr) (orc : Oracle) (s : Int) (h : ins.op = .INT) : FootAt s (s - 0 + 1) (exec md ins orc) := by exec_foot h

set_option maxRecDepth 8000 in
theorem foot_LONG (md : Module) (ins : Instr) (orc : Oracle) (s : Int) (h : ins.op = .LONG) : FootAt s (s - 0 + 1) (exec md ins orc) := by exec_foot h

set_option maxRecDepth 8000 in
theorem foot_FLOAT (md : Module) (ins : Instr) (orc : Oracle) (s : Int) (h : ins.op = .FLOAT) : FootAt s (s - 0 + 1) (exec md ins orc) := by exec_foot h

set_option maxRecDepth 8000 in
theorem foot_DOUBLE (md : Module) (ins : Instr) (orc : Oracle) (s : Int) (h : ins.op = .DOUBLE) : FootAt s (s - 0 + 1) (exec md ins orc) := by exec_foot h

set_option maxRecDepth 8000 in
theorem foot_CHAR (md : Module) (ins : Instr) (orc : Oracle) (s : Int) (h : ins.op = .CHAR) : FootAt s (s - 0 + 1) (exec md ins orc) := by exec_foot h

set_option maxRecDepth 8000 in
theorem foot_STRING (md : Module) (ins : Instr) (orc : Oracle) (s : Int) (h : ins.op = .STRING) : FootAt s (s - 0 + 1) (exec md ins orc) := by exec_foot h

set_option maxRecDepth 8000 in
theorem foot_C_NULL (md : Module) (ins : Instr) (orc : Oracle) (s : Int) (h : ins.op = .C_NULL) : FootAt s (s - 0 + 1) (exec md ins orc) := by exec_foot h

set_option maxRecDepth 8000 in
theorem foot_ID_TOP (md : Module) (ins : Instr) (orc : Oracle) (s : Int) (h : ins.op = .ID_TOP) : FootAt s (s - 0 + 1) (exec md ins orc) := by exec_foot h

set_option maxRecDepth 8000 in
theorem foot_ID_LOCAL (md : Module) (ins : Instr) (orc : Oracle) (s : Int) (h : ins.op = .ID_LOCAL) : FootAt s (s - 0 + 1) (exec md ins orc) := by exec_foot h

set_option maxRecDepth 8000 in
theorem foot_ID_DIM_LOCAL (md : Module) (ins : Instr) (orc : Oracle) (s : Int) (h : ins.op = .ID_DIM_LOCAL) : FootAt s (s - 0 + 1) (exec md ins orc) := by exec_foot h

set_option maxRecDepth 8000 in
theorem foot_ID_DIM_SLICE (md : Module) (ins : Instr) (orc : Oracle) (s : Int) (h : ins.op = .ID_DIM_SLICE) : FootAt s (s - 0 + 1) (exec md ins orc) := by exec_foot h

set_option maxRecDepth 8000 in
theorem foot_ID_GLOBAL (md : Module) (ins : Instr) (orc : Oracle) (s : Int) (h : ins.op = .ID_GLOBAL) : FootAt s (s - 0 + 1) (exec md ins orc) := by exec_foot h

set_option maxRecDepth 8000 in
theorem foot_OP_DUP_INT (md : Module) (ins : Instr) (orc : Oracle) (s : Int) (h : ins.op = .OP_DUP_INT) : FootAt s (s - 0 + 1) (exec md ins orc) := by exec_foot h

set_option maxRecDepth 8000 in
theorem foot_COPYGLOB (md : Module) (ins : Instr) (orc : Oracle) (s : Int) (h : ins.op = .COPYGLOB) : FootAt s (s - 0 + 1) (exec md ins orc) := by exec_foot h

set_option maxRecDepth 8000 in
theorem foot_NIL_RECORD_REF (md : Module) (ins : Instr) (orc : Oracle) (s : Int) (h : ins.op = .NIL_RECORD_REF) : FootAt s (s - 0 + 1) (exec md ins orc) := by exec_foot h

set_option maxRecDepth 8000 in
theorem foot_PUSH_EXCEPT (md : Module) (ins : Instr) (orc : Oracle) (s : Int) (h : ins.op = .PUSH_EXCEPT) : FootAt s (s - 0 + 1) (exec md ins orc) := by exec_foot h

set_option maxRecDepth 8000 in
theorem foot_VEC_DEREF (md : Module) (ins : Instr) (orc : Oracle) (s : Int) (h : ins.op = .VEC_DEREF) : FootAt s (s - 0 + 1) (exec md ins orc) := by exec_foot h

set_option maxRecDepth 8000 in
theorem foot_VECREF_VEC_DEREF (md : Module) (ins : Instr) (orc : Oracle) (s : Int) (h : ins.op = .VECREF_VEC_DEREF) : FootAt s (s - 0 + 1) (exec md ins orc) := by exec_foot h

set_option maxRecDepth 8000 in
theorem foot_DUP (md : Module) (ins : Instr) (orc : Oracle) (s : Int) (h : ins.op = .DUP) : FootAt s (s - 0 + 1) (exec md ins orc) := by exec_foot h

end Never.Vm
