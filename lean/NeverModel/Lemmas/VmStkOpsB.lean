import NeverModel.Lemmas.VmStk
set_option linter.unusedSimpArgs false
set_option linter.unusedVariables false
/-! per-opcode: the handler leaves the size of the stack array alone (generated list) -/
namespace Never.Vm
open Never Never.Num

set_option maxRecDepth 8000 in
theorem kstop_VECREF_DEREF (md : Module) (ins : Instr) (orc : Oracle) (h : ins.op = .VECREF_DEREF) : KeepsStk (exec md ins orc) := by exec_kst h

set_option maxRecDepth 8000 in
theorem kstop_LABEL (md : Module) (ins : Instr) (orc : Oracle) (h : ins.op = .LABEL) : KeepsStk (exec md ins orc) := by exec_kst h

set_option maxRecDepth 8000 in
theorem kstop_LINE (md : Module) (ins : Instr) (orc : Oracle) (h : ins.op = .LINE) : KeepsStk (exec md ins orc) := by exec_kst h

set_option maxRecDepth 8000 in
theorem kstop_FUNC_DEF (md : Module) (ins : Instr) (orc : Oracle) (h : ins.op = .FUNC_DEF) : KeepsStk (exec md ins orc) := by exec_kst h

set_option maxRecDepth 8000 in
theorem kstop_FUNC_OBJ (md : Module) (ins : Instr) (orc : Oracle) (h : ins.op = .FUNC_OBJ) : KeepsStk (exec md ins orc) := by exec_kst h

set_option maxRecDepth 8000 in
theorem kstop_OP_INC_INT (md : Module) (ins : Instr) (orc : Oracle) (h : ins.op = .OP_INC_INT) : KeepsStk (exec md ins orc) := by exec_kst h

set_option maxRecDepth 8000 in
theorem kstop_OP_DEC_INT (md : Module) (ins : Instr) (orc : Oracle) (h : ins.op = .OP_DEC_INT) : KeepsStk (exec md ins orc) := by exec_kst h

set_option maxRecDepth 8000 in
theorem kstop_OP_ADD_STRING (md : Module) (ins : Instr) (orc : Oracle) (h : ins.op = .OP_ADD_STRING) : KeepsStk (exec md ins orc) := by exec_kst h

set_option maxRecDepth 8000 in
theorem kstop_OP_EQ_STRING (md : Module) (ins : Instr) (orc : Oracle) (h : ins.op = .OP_EQ_STRING) : KeepsStk (exec md ins orc) := by exec_kst h

set_option maxRecDepth 8000 in
theorem kstop_OP_NEQ_STRING (md : Module) (ins : Instr) (orc : Oracle) (h : ins.op = .OP_NEQ_STRING) : KeepsStk (exec md ins orc) := by exec_kst h

set_option maxRecDepth 8000 in
theorem kstop_OP_EQ_C_PTR (md : Module) (ins : Instr) (orc : Oracle) (h : ins.op = .OP_EQ_C_PTR) : KeepsStk (exec md ins orc) := by exec_kst h

set_option maxRecDepth 8000 in
theorem kstop_OP_NEQ_C_PTR (md : Module) (ins : Instr) (orc : Oracle) (h : ins.op = .OP_NEQ_C_PTR) : KeepsStk (exec md ins orc) := by exec_kst h

set_option maxRecDepth 8000 in
theorem kstop_OP_EQ_NIL (md : Module) (ins : Instr) (orc : Oracle) (h : ins.op = .OP_EQ_NIL) : KeepsStk (exec md ins orc) := by exec_kst h

set_option maxRecDepth 8000 in
theorem kstop_OP_NEQ_NIL (md : Module) (ins : Instr) (orc : Oracle) (h : ins.op = .OP_NEQ_NIL) : KeepsStk (exec md ins orc) := by exec_kst h

set_option maxRecDepth 8000 in
theorem kstop_SLICE_ARRAY (md : Module) (ins : Instr) (orc : Oracle) (h : ins.op = .SLICE_ARRAY) : KeepsStk (exec md ins orc) := by exec_kst h

set_option maxRecDepth 8000 in
theorem kstop_SLICE_RANGE (md : Module) (ins : Instr) (orc : Oracle) (h : ins.op = .SLICE_RANGE) : KeepsStk (exec md ins orc) := by exec_kst h

set_option maxRecDepth 8000 in
theorem kstop_SLICE_SLICE (md : Module) (ins : Instr) (orc : Oracle) (h : ins.op = .SLICE_SLICE) : KeepsStk (exec md ins orc) := by exec_kst h

set_option maxRecDepth 8000 in
theorem kstop_SLICE_STRING (md : Module) (ins : Instr) (orc : Oracle) (h : ins.op = .SLICE_STRING) : KeepsStk (exec md ins orc) := by exec_kst h

set_option maxRecDepth 8000 in
theorem kstop_STRING_DEREF (md : Module) (ins : Instr) (orc : Oracle) (h : ins.op = .STRING_DEREF) : KeepsStk (exec md ins orc) := by exec_kst h

set_option maxRecDepth 8000 in
theorem kstop_VECREF_VEC_INDEX_DEREF (md : Module) (ins : Instr) (orc : Oracle) (h : ins.op = .VECREF_VEC_INDEX_DEREF) : KeepsStk (exec md ins orc) := by exec_kst h

set_option maxRecDepth 8000 in
theorem kstop_OP_ASS_INT (md : Module) (ins : Instr) (orc : Oracle) (h : ins.op = .OP_ASS_INT) : KeepsStk (exec md ins orc) := by exec_kst h

set_option maxRecDepth 8000 in
theorem kstop_OP_ASS_LONG (md : Module) (ins : Instr) (orc : Oracle) (h : ins.op = .OP_ASS_LONG) : KeepsStk (exec md ins orc) := by exec_kst h

end Never.Vm
