import NeverModel.Lemmas.VmNoWr
set_option linter.unusedSimpArgs false
set_option linter.unusedVariables false
/-! write footprint of handlers: `Foot lo f` — `f` leaves every stack slot below `lo` alone, whatever the machine —, and
`FootAt s lo f` — the same when started with `sp = s` (needed where the written index is read from `sp`: `pushAddr`, `wrSlot (← getSp)`).
The combinators of `FootAt` mirror those of `EffAt` (Lemmas/VmEffect2, VmEffectLoops) and reuse its `sp` bookkeeping. -/
namespace Never.Vm
open Never Never.Num

def Foot {α} (lo : Int) (f : M α) : Prop :=
  ∀ vm a vm', f.run vm = .ok (a, vm') → ∀ j, j < lo → slot vm' j = slot vm j

theorem Foot.bind {α β} {lo : Int} {f : M α} {g : α → M β} (hf : Foot lo f) (hg : ∀ a, Foot lo (g a)) : Foot lo (f >>= g) := by
  intro vm b vm'' h j hj
  obtain ⟨a, vm', h1, h2⟩ := (run_bind_ok f g vm vm'' b).mp h
  rw [hg a vm' b vm'' h2 j hj, hf vm a vm' h1 j hj]

theorem Foot.of_nowr {α} {lo : Int} {f : M α} (h : NoWr f) : Foot lo f := by
  intro vm a vm' hr j _
  unfold slot; rw [h vm a vm' hr]

theorem slot_setIfInBounds_ne (vm : Vm) (i : Nat) (s : Slot) (j : Int) (hne : j ≠ (i : Int)) :
    slot { vm with stack := vm.stack.setIfInBounds i s } j = slot vm j := by
  unfold slot
  by_cases hj : j < 0
  · simp [hj]
  · simp only [hj, if_false]
    have : i ≠ j.toNat := by omega
    simp [Array.getElem?_setIfInBounds, this]

theorem Foot.wrSlot (lo : Int) (i : Int) (s : Slot) (h : lo ≤ i) : Foot lo (Vm.wrSlot i s) := by
  intro vm a vm' hr j hj
  unfold Vm.wrSlot at hr
  obtain ⟨v0, v0', h3, h4⟩ := (run_bind_ok _ _ _ _ _).mp hr
  simp [get, getThe, MonadStateOf.get, StateT.get, StateT.run, Pure.pure, Except.pure] at h3
  obtain ⟨e1, e2⟩ := h3
  rw [← e1, ← e2] at h4
  split at h4
  · simp [Vm.crash, throw, throwThe, MonadExceptOf.throw, StateT.run, StateT.lift, liftM, monadLift, MonadLift.monadLift, Except.bind, Bind.bind] at h4
  · rename_i hb
    simp [set, StateT.set, StateT.run, Pure.pure, Except.pure] at h4
    rw [← h4]
    exact slot_setIfInBounds_ne vm i.toNat s j (by omega)

/-- automation for `Foot` goals (blocks that keep `sp`: reads, heap work, `wrSlot` at an index that is a known expression);
syntax-directed, linear in the size of the block -/
syntax "footk" : tactic
macro_rules
  | `(tactic| footk) => `(tactic|
      first
      | exact Foot.wrSlot _ _ _ (by omega)
      | exact Foot.of_nowr (by nowr1)
      | with_reducible apply_assumption (exfalso := false)
      | (with_reducible refine Foot.bind ?hf (fun _ => ?hg); (case hf => footk); (case hg => footk))
      | (split <;> footk)
      | (dsimp only; footk))

/-- `unpackLoop sp …` writes `sp … sp + n − 1` -/
theorem foot_unpackLoop (lo sp : Int) (fs : List Nat) (size : Nat) (h : lo ≤ sp) : ∀ i, Foot lo (unpackLoop sp fs size i) := by
  intro i
  induction i with
  | zero => unfold unpackLoop; footk
  | succ i ih => unfold unpackLoop; footk

/-- started with `sp = s`, a completed run of `f` leaves every stack slot below `lo` alone -/
def FootAt {α} (s lo : Int) (f : M α) : Prop :=
  ∀ vm a vm', vm.sp = s → f.run vm = .ok (a, vm') → ∀ j, j < lo → slot vm' j = slot vm j

theorem FootAt.of_foot {α} {s lo : Int} {f : M α} (h : Foot lo f) : FootAt s lo f := fun vm a vm' _ hr => h vm a vm' hr

theorem FootAt.keeps_bind {α β} {s lo : Int} {f : M α} {g : α → M β} (hk : KeepsSp f) (hf : Foot lo f) (hg : ∀ a, FootAt s lo (g a)) :
    FootAt s lo (f >>= g) := by
  intro vm b vm'' hs h j hj
  obtain ⟨a, vm', h1, h2⟩ := (run_bind_ok f g vm vm'' b).mp h
  obtain ⟨a1, _, _, _⟩ := hk vm a vm' h1
  rw [hg a vm' b vm'' (by omega) h2 j hj, hf vm a vm' h1 j hj]

theorem FootAt.getSp_bind {β} {s lo : Int} {g : Int → M β} (hg : FootAt s lo (g s)) : FootAt s lo (getSp >>= g) := by
  intro vm b vm'' hs h
  obtain ⟨a, vm', h1, h2⟩ := (run_bind_ok getSp g vm vm'' b).mp h
  obtain ⟨rfl, rfl⟩ := getSp_run _ _ _ h1
  subst hs
  exact hg _ _ _ rfl h2

theorem setSp_slot (v : Int) (vm : Vm) (a : Unit) (vm' : Vm) (h : (Vm.setSp v).run vm = .ok (a, vm')) : vm'.stack = vm.stack := by
  simp [Vm.setSp, modify, modifyGet, MonadStateOf.modifyGet, StateT.modifyGet, StateT.run, pure, Except.pure] at h
  obtain ⟨_, rfl⟩ := h; rfl

/-- `sp` is set to `v`; the rest is judged from there -/
theorem FootAt.setSp_then {β} (s lo v : Int) {g : PUnit → M β} (hg : ∀ a, FootAt v lo (g a)) : FootAt s lo (Vm.setSp v >>= g) := by
  intro vm b vm'' hs h j hj
  obtain ⟨a, vm', h1, h2⟩ := (run_bind_ok _ g vm vm'' b).mp h
  obtain ⟨t1, _⟩ := keeps_setSp_run _ _ _ _ h1
  rw [hg a vm' b vm'' t1 h2 j hj]
  unfold slot; rw [setSp_slot _ _ _ _ h1]

theorem pushP_slots (vm vm' : Vm) (a : Nat) (h : pushP vm a = .ok vm') : ∀ j, j < vm.sp + 1 → slot vm' j = slot vm j := by
  intro j hj
  unfold pushP checkP wrP at h
  simp only [bind, Except.bind] at h
  by_cases c1 : vm.sp + 1 ≥ vm.stackSize
  · simp [c1] at h
  · simp only [c1, if_false] at h
    split at h
    · cases h
    · cases h
      exact slot_setIfInBounds_ne { vm with sp := vm.sp + 1 } (vm.sp + 1).toNat (.addr a) j (by omega)

theorem FootAt.pushAddr (s lo : Int) (a : Nat) (h : lo ≤ s + 1) : FootAt s lo (Vm.pushAddr a) := by
  intro vm u vm' hs hr j hj
  unfold Vm.pushAddr at hr
  simp only [bind, StateT.bind, StateT.run, get, getThe, MonadStateOf.get, StateT.get, pure, StateT.pure, Except.pure, Except.bind] at hr
  cases hp : pushP vm a with
  | error e =>
    rw [hp] at hr
    simp [liftE, throw, throwThe, MonadExceptOf.throw, StateT.lift, liftM, monadLift, MonadLift.monadLift, Except.bind, bind] at hr
  | ok v1 =>
    rw [hp] at hr
    simp [liftE, set, StateT.set, pure, StateT.pure, Except.pure] at hr
    obtain ⟨_, rfl⟩ := hr
    exact pushP_slots vm _ a hp j (by omega)

theorem FootAt.mov_bind {α β} {s d1 lo : Int} {f : M α} {g : α → M β} (hm : MovAt s d1 f) (hf : FootAt s lo f)
    (hg : ∀ a, FootAt (s + d1) lo (g a)) : FootAt s lo (f >>= g) := by
  intro vm b vm'' hs h j hj
  obtain ⟨a, vm', h1, h2⟩ := (run_bind_ok f g vm vm'' b).mp h
  obtain ⟨a1, _, _, _⟩ := hm vm a vm' hs h1
  rw [hg a vm' b vm'' a1 h2 j hj, hf vm a vm' hs h1 j hj]

theorem FootAt.popOpt_bind {α β} {s lo : Int} {n : Nat} {f : M (Option α)} {g : Option α → M β} (hp : PopOpt s n f) (hf : Foot lo f)
    (hnone : ∀ vm b vm', (g none).run vm = .ok (b, vm') → vm' = vm)
    (hsome : ∀ x, FootAt (s - (n : Int)) lo (g (some x))) : FootAt s lo (f >>= g) := by
  intro vm b vm'' hs h j hj
  obtain ⟨r, vm', h1, h2⟩ := (run_bind_ok f g vm vm'' b).mp h
  obtain ⟨_, _, _, a4, _⟩ := hp vm r vm' hs h1
  cases r with
  | none =>
    have := hnone vm' b vm'' h2
    subst this
    exact hf vm _ _ h1 j hj
  | some x =>
    rw [hsome x vm' b vm'' (a4 rfl) h2 j hj, hf vm _ _ h1 j hj]

theorem FootAt.bool_bind {β} {s lo : Int} {f : M Bool} {g : Bool → M β} (hk : KeepsSp f) (hf : Foot lo f)
    (ht : FootAt s lo (g true)) (hfalse : ∀ vm b vm', (g false).run vm = .ok (b, vm') → vm' = vm) : FootAt s lo (f >>= g) := by
  intro vm b vm'' hs h j hj
  obtain ⟨r, vm', h1, h2⟩ := (run_bind_ok f g vm vm'' b).mp h
  obtain ⟨a1, _, _, _⟩ := hk vm r vm' h1
  cases r with
  | true => rw [ht vm' b vm'' (by omega) h2 j hj, hf vm _ _ h1 j hj]
  | false =>
    have := hfalse vm' b vm'' h2
    subst this
    exact hf vm _ _ h1 j hj

theorem FootAt.boolmov_bind {β} {s lo : Int} {n : Nat} {f : M Bool} {g : Bool → M β}
    (hp : ∀ vm r vm', vm.sp = s → f.run vm = .ok (r, vm') →
      vm'.fp = vm.fp ∧ vm'.pp = vm.pp ∧ vm'.stackSize = vm.stackSize ∧ (r = true → vm'.sp = s - (n : Int)) ∧ (r = false → vm'.running = 2))
    (hf : Foot lo f) (ht : FootAt (s - (n : Int)) lo (g true)) (hfalse : ∀ vm b vm', (g false).run vm = .ok (b, vm') → vm' = vm) :
    FootAt s lo (f >>= g) := by
  intro vm b vm'' hs h j hj
  obtain ⟨r, vm', h1, h2⟩ := (run_bind_ok f g vm vm'' b).mp h
  obtain ⟨_, _, _, a4, _⟩ := hp vm r vm' hs h1
  cases r with
  | true => rw [ht vm' b vm'' (a4 rfl) h2 j hj, hf vm _ _ h1 j hj]
  | false =>
    have := hfalse vm' b vm'' h2
    subst this
    exact hf vm _ _ h1 j hj

/-- automation for `FootAt` goals (same search as `eff`), syntax-directed -/
syntax "foot" : tactic
macro_rules
  | `(tactic| foot) => `(tactic|
      first
      | exact FootAt.pushAddr _ _ _ (by omega)
      | exact FootAt.of_foot (Foot.wrSlot _ _ _ (by omega))
      | exact FootAt.of_foot (Foot.of_nowr (by nowr1))
      | (with_reducible refine FootAt.getSp_bind ?hg; (case hg => foot))
      | (with_reducible refine FootAt.setSp_then _ _ _ (fun _ => ?hg); (case hg => foot))
      | (with_reducible refine FootAt.keeps_bind ?hk ?hf (fun _ => ?hg); (case hk => keeps); (case hf => footk); (case hg => foot))
      | (split <;> foot)
      | (dsimp only; foot))

/-- `allocLoop n` pushes: it writes only above the top of stack -/
theorem allocLoop_foot (n : Nat) : ∀ s lo, lo ≤ s + 1 → FootAt s lo (allocLoop n) := by
  induction n with
  | zero => intro s lo _; unfold allocLoop; foot
  | succ n ih =>
    intro s lo h
    unfold allocLoop
    refine FootAt.keeps_bind (by keeps) (by footk) (fun a => ?_)
    refine FootAt.mov_bind (pushAddr_mov _ _) (FootAt.pushAddr _ _ _ h) (fun _ => ih _ _ (by omega))

/-- selects the handler of a concrete opcode inside `exec` and runs the footprint automation -/
macro "exec_foot" h:ident : tactic => `(tactic|
  (unfold exec
   simp only [$h:ident, binOpOf, unOpOf, convOf, nilCmpOf, strAddOf, arrOpOf, mkArrayElem]
   foot))

macro "exec_fsel" h:ident : tactic => `(tactic|
  (unfold exec
   simp only [$h:ident, binOpOf, unOpOf, convOf, nilCmpOf, strAddOf, arrOpOf, mkArrayElem]
   refine FootAt.getSp_bind ?_))

end Never.Vm
