import NeverModel.Lemmas.SrcPres
namespace Never.Src

structure PresAt (n : Nat) : Prop where
  e : ∀ ctx env e, Pres (evalE n ctx env e)
  args : ∀ ctx env es, Pres (evalArgs n ctx env es)
  seq : ∀ ctx env items, Pres (evalSeq n ctx env items)
  whl : ∀ ctx env c b, Pres (evalWhile n ctx env c b)
  doWhl : ∀ ctx env b c, Pres (evalDoWhile n ctx env b c)
  for_ : ∀ ctx env c s b, Pres (evalFor n ctx env c s b)
  forIn : ∀ ctx env x lc i b, Pres (evalForIn n ctx env x lc i b)
  call : ∀ ctx fid cells as, Pres (callClo n ctx fid cells as)
  hdl : ∀ ctx env cs ex, Pres (handle n ctx env cs ex)
  guards : ∀ ctx env l gs, Pres (evalGuards n ctx env l gs)
  quals : ∀ ctx env qs body ty o, Pres (evalQuals n ctx env qs body ty o)
  gen : ∀ ctx env x lc i qs body ty o, Pres (evalGen n ctx env x lc i qs body ty o)
  forRng : ∀ ctx env x ao cur asc lt b, Pres (evalForRng n ctx env x ao cur asc lt b)
  genRng : ∀ ctx env x ao cur asc lt qs body ty o, Pres (evalGenRng n ctx env x ao cur asc lt qs body ty o)

theorem pres_zero : PresAt 0 := by
  constructor <;> intros <;> simp only [evalE, evalArgs, evalSeq, evalWhile, evalDoWhile, evalFor, evalForIn, callClo, handle, evalGuards, evalQuals, evalGen, evalForRng, evalGenRng] <;> exact Pres.oof

syntax "pres_tac" ident : tactic
macro_rules
  | `(tactic| pres_tac $ih) => `(tactic| repeat (first
      | exact PresAt.e $ih _ _ _
      | exact PresAt.args $ih _ _ _
      | exact PresAt.seq $ih _ _ _
      | exact PresAt.whl $ih _ _ _ _
      | exact PresAt.doWhl $ih _ _ _ _
      | exact PresAt.for_ $ih _ _ _ _ _
      | exact PresAt.forIn $ih _ _ _ _ _ _
      | exact PresAt.call $ih _ _ _ _
      | exact PresAt.hdl $ih _ _ _ _
      | exact PresAt.guards $ih _ _ _ _
      | exact PresAt.quals $ih _ _ _ _ _ _
      | exact PresAt.gen $ih _ _ _ _ _ _ _ _ _
      | exact PresAt.forRng $ih _ _ _ _ _ _ _ _
      | exact PresAt.genRng $ih _ _ _ _ _ _ _ _ _ _ _
      | exact Pres.sliceOf _ _
      | exact Pres.pipeArgs _
      | exact Pres.dimValue _ _
      | exact Pres.rangeDeref _ _
      | exact Pres.sliceDeref _ _
      | exact Pres.rngLoopInit _
      | exact Pres.slcLoopInit _
      | exact Pres.rngElem _ _
      | exact Pres.getInt _
      | exact Pres.liftOp _
      | exact Pres.binopM _ _ _
      | exact Pres.unopM _ _
      | exact Pres.truthy _
      | exact Pres.convCell _ _
      | exact Pres.convCells _ _
      | exact Pres.allocN _ _
      | exact Pres.getInts _
      | exact Pres.arrDeref _ _
      | exact Pres.runBuiltin _ _
      | exact Pres.loadAll _
      | exact Pres.assignVal _ _
      | exact Pres.bindParams _ _ _
      | exact Pres.allocGroup _ _
      | exact Pres.alloc _
      | exact Pres.load _
      | exact Pres.store _ _
      | exact Pres.emit _
      | exact Pres.logClo _
      | exact Pres.throwE _
      | exact Pres.stopM _
      | exact Pres.stuck _
      | exact Pres.oof
      | exact Pres.pure _
      | apply Pres.bind
      | apply Pres.tryCatch
      | intro _
      | split))

theorem pres_e (n : Nat) (ih : PresAt n) (ctx : Ctx) (env : Env) (e : Expr) : Pres (evalE (n + 1) ctx env e) := by
  cases e <;> simp only [evalE] <;> pres_tac ih

theorem pres_seq (n : Nat) (ih : PresAt n) (ctx : Ctx) (env : Env) (items : List Item) : Pres (evalSeq (n + 1) ctx env items) := by
  cases items with
  | nil => simp only [evalSeq]; pres_tac ih
  | cons it rest =>
    cases it with
    | expr e => cases rest <;> simp only [evalSeq] <;> pres_tac ih
    | bind v x e => simp only [evalSeq]; pres_tac ih
    | funcs fs => simp only [evalSeq]; pres_tac ih

theorem pres_guards (n : Nat) (ih : PresAt n) (ctx : Ctx) (env : Env) (l : Loc) (gs : List Guard) :
    Pres (evalGuards (n + 1) ctx env l gs) := by
  cases gs with
  | nil => simp only [evalGuards]; pres_tac ih
  | cons g gs => cases g <;> simp only [evalGuards] <;> pres_tac ih

theorem pres_quals (n : Nat) (ih : PresAt n) (ctx : Ctx) (env : Env) (qs : List Qual) (body : Expr) (ty : Ty) (o : Loc) :
    Pres (evalQuals (n + 1) ctx env qs body ty o) := by
  cases qs with
  | nil => simp only [evalQuals]; pres_tac ih
  | cons q qs => cases q <;> simp only [evalQuals] <;> pres_tac ih

theorem presAt : ∀ n, PresAt n
  | 0 => pres_zero
  | n + 1 =>
    have ih := presAt n
    { e := pres_e n ih
      args := fun ctx env es => by cases es <;> simp only [evalArgs] <;> pres_tac ih
      seq := pres_seq n ih
      whl := fun ctx env c b => by rw [evalWhile]; pres_tac ih
      doWhl := fun ctx env b c => by rw [evalDoWhile]; pres_tac ih
      for_ := fun ctx env c s b => by rw [evalFor]; pres_tac ih
      forIn := fun ctx env x lc i b => by rw [evalForIn]; pres_tac ih
      call := fun ctx fid cells as => by rw [callClo]; pres_tac ih
      hdl := fun ctx env cs ex => by cases cs <;> simp only [handle] <;> pres_tac ih
      guards := pres_guards n ih
      quals := pres_quals n ih
      gen := fun ctx env x lc i qs body ty o => by rw [evalGen]; pres_tac ih
      forRng := fun ctx env x ao cur asc lt b => by rw [evalForRng]; pres_tac ih
      genRng := fun ctx env x ao cur asc lt qs body ty o => by rw [evalGenRng]; pres_tac ih }

end Never.Src
