/-
Top-level glue lemmas: the renamed program's function table, `runMain` under renaming and under
more fuel, an admissible renaming used as non-vacuity witness.
-/
import NeverModel.Lemmas.SrcResolve
import NeverModel.Lemmas.SrcFv
import NeverModel.Lemmas.SrcPresEval
namespace Never.Src

variable {ν : Ren}

theorem rnVar_main (hν : Adm ν) (bs : List Name) : rnVar ν bs "main" = "main" := by
  obtain ⟨d, hd, _⟩ := rnVarD_form (ν := ν) bs.length bs "main"
  rw [rnVar, hd, hν.main]

theorem ctx_rnP (hν : Adm ν) (p : Prog) : (rnP ν p).ctx = rnCtx ν p.ctx := by
  have h1 : (rnP ν p).topNames = rnStack ν p.topNames := by
    simp only [Prog.topNames, rnP, funcNames_rnFs]
    have := rnStack_rev_append (ν := ν) (funcNames p.funcs) []
    simp only [List.append_nil, List.length_nil, rnStack] at this
    exact this.symm
  simp only [Prog.ctx, h1, rnCtx]
  simp only [rnP]
  rw [collectFs_rn hν]

theorem runMain_alpha (hν : Adm ν) (p : Prog) (args : List Arg) (n : Nat) :
    runMain (rnP ν p) args n = runMain p args n := by
  simp only [runMain, ctx_rnP hν]
  have hg := allocGroup_rn (ν := ν) p.funcs [] p.topNames
  simp only [List.length_nil, rnEnv] at hg
  have hf : (rnP ν p).funcs = rnFs ν p.topNames 0 p.funcs := rfl
  rw [hf, hg, map_bind]
  apply congrFun
  apply bind_congr_post (fun env' => names env' = (funcNames p.funcs).reverse ++ names ([] : Env))
  · intro s a s' h; exact allocGroup_names _ _ _ _ _ h
  · intro env' _
    have hl := lookup_rn hν "main" env'
    rw [rnVar_main hν] at hl
    rw [hl]
    cases lookup "main" env' with
    | none => rfl
    | some lm => simp only [(alphaAt hν n).call]


theorem runMain_mono (p : Prog) (args : List Arg) (n m : Nat) (h : n ≤ m)
    (hn : ¬ (runMain p args n).isOOF) : runMain p args m = runMain p args n := by
  have key : Mono (do
      let env ← allocGroup p.funcs []
      match lookup "main" env with
      | none => stuck "no main"
      | some lm =>
        let as ← allocArgs args
        match (← load lm) with
        | .clo (some (fid, cells)) => callClo n p.ctx fid cells as
        | _ => stuck "main is not a function")
      (do
      let env ← allocGroup p.funcs []
      match lookup "main" env with
      | none => stuck "no main"
      | some lm =>
        let as ← allocArgs args
        match (← load lm) with
        | .clo (some (fid, cells)) => callClo m p.ctx fid cells as
        | _ => stuck "main is not a function") := by
    apply Mono.bind Mono.rfl
    intro env
    split
    · exact Mono.rfl
    · apply Mono.bind Mono.rfl
      intro as
      apply Mono.bind Mono.rfl
      intro v
      split
      · exact mono_le n m h _ _ _ _
      · exact Mono.rfl
  exact key.h {} hn

/-- de Bruijn levels in unary: the binder pushed at depth `d` is named `v…v` (d+1 letters) -/
def nuLevel : Ren := fun x d => if x = "main" then "main" else String.ofList (List.replicate (d + 1) 'v')

theorem nuLevel_adm : Adm nuLevel := by
  have hm : "main" = String.ofList ['m', 'a', 'i', 'n'] := by decide
  constructor
  · intro x y d d' h
    simp only [nuLevel] at h
    by_cases hx : x = "main" <;> by_cases hy : y = "main"
    · exact Or.inl (hx.trans hy.symm)
    · simp only [hx, hy, if_true, if_false] at h
      rw [hm] at h
      have := String.ofList_injective h
      cases d' <;> simp [List.replicate] at this
    · simp only [hx, hy, if_true, if_false] at h
      rw [hm] at h
      have := String.ofList_injective h
      cases d <;> simp [List.replicate] at this
    · simp only [hx, hy, if_false] at h
      have := congrArg List.length (String.ofList_injective h)
      simp at this
      exact Or.inr this
  · intro x d
    simp only [nuLevel]
    split
    · decide
    · intro h
      have := congrArg String.length h
      simp at this
  · intro d; simp [nuLevel]


end Never.Src
