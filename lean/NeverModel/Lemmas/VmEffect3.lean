import NeverModel.Lemmas.VmEffect2
set_option linter.unusedSimpArgs false
set_option linter.unusedVariables false
/-! per-opcode stack effects of `exec` (fixed-effect opcodes) -/
namespace Never.Vm
open Never Never.Num

/-- selects the handler of a concrete opcode inside `exec` and runs the effect automation -/
macro "exec_eff" h:ident : tactic => `(tactic|
  (simp only [$h:ident, binOpOf, unOpOf, convOf, nilCmpOf, strAddOf, arrOpOf, mkArrayElem]
   apply EffAt.getSp_bind
   eff))

def push1Ops : List Opc := [.INT, .LONG, .FLOAT, .DOUBLE, .CHAR, .STRING, .C_NULL, .ID_TOP, .ID_LOCAL, .ID_DIM_LOCAL, .ID_DIM_SLICE,
  .ID_GLOBAL, .OP_DUP_INT, .COPYGLOB, .NIL_RECORD_REF, .PUSH_EXCEPT, .VEC_DEREF, .VECREF_VEC_DEREF, .DUP]

set_option maxHeartbeats 4000000 in
theorem exec_push1 (md : Module) (ins : Instr) (orc : Oracle) (s : Int) (op : Opc) (h : ins.op = op)
    (hop : op ∈ push1Ops) : EffAt s 1 (exec md ins orc) := by
  unfold exec
  simp only [push1Ops, List.mem_cons, List.mem_nil_iff, or_false] at hop
  rcases hop with rfl | rfl | rfl | rfl | rfl | rfl | rfl | rfl | rfl | rfl | rfl | rfl | rfl | rfl | rfl | rfl | rfl | rfl | rfl
  all_goals exec_eff h

end Never.Vm
