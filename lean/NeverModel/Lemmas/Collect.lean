import NeverModel.Lemmas.MarkSound
import NeverModel.Lemmas.MarkTotal
set_option linter.unusedSimpArgs false
set_option linter.unusedVariables false
/-! the stack scan, the whole mark phase, and "marked = live" at top level -/
namespace Never
open Mem

/-- the addresses the stack scan starts from -/
def rootsOf : List Slot → List Nat
  | [] => []
  | .addr a :: rest => if a > 0 then a :: rootsOf rest else rootsOf rest
  | _ :: rest => rootsOf rest

/-- roots of a collection: ADDR slots of the stack, then the global vector -/
def allRoots (st : List Slot) (gp : Nat) : List Nat := rootsOf st ++ (if gp > 0 then [gp] else [])

/-- a live cell: it holds an object and is reachable from a root -/
def Live (m : Mem) (roots : List Nat) (b : Nat) : Prop :=
  b ≠ 0 ∧ (objAt m b).isSome = true ∧ ∃ r ∈ roots, Path m r b

structure MarkSpec (m m' : Mem) (roots : List Nat) : Prop where
  post : Post m m'
  done : ∀ r ∈ roots, Done m' r
  sound : NewFrom m m' roots

theorem markAccess_spec (f : Nat) : ∀ st m m', markAccess f m st = some m' → MarkSpec m m' (rootsOf st) := by
  intro st
  induction st with
  | nil => intro m m' h; simp [markAccess] at h; subst h; exact ⟨Post.refl _, by simp [rootsOf], NewFrom.refl _ _⟩
  | cons s rest ih =>
    intro m m' h
    cases s with
    | addr a =>
      simp only [markAccess] at h
      by_cases ha : a > 0
      · simp only [ha, if_true] at h
        split at h
        · cases h
        · rename_i c hc
          split at h
          · rename_i hm
            split at h
            · cases h
            · rename_i m1 h1
              obtain ⟨p1, d1⟩ := (mark_post_all f).1 _ _ _ h1
              have s1 := (mark_sound_all f).1 _ _ _ h1
              have r := ih _ _ h
              have : rootsOf (Slot.addr a :: rest) = a :: rootsOf rest := by simp [rootsOf, ha]
              rw [this]
              refine ⟨p1.trans r.post, ?_, ?_⟩
              · intro x hx
                rcases List.mem_cons.mp hx with rfl | hx
                · exact d1.mono r.post.mono
                · exact r.done x hx
              · exact NewFrom.trans p1.mono (s1.mono_list (by simp)) (r.sound.mono_list (by intro y hy; simp [hy]))
          · rename_i hm
            have r := ih _ _ h
            have : rootsOf (Slot.addr a :: rest) = a :: rootsOf rest := by simp [rootsOf, ha]
            rw [this]
            refine ⟨r.post, ?_, r.sound.mono_list (by intro y hy; simp [hy])⟩
            intro x hx
            rcases List.mem_cons.mp hx with rfl | hx
            · have : marked m x = true := by rw [getElem?_marked hc]; simpa using hm
              exact Or.inr (Or.inr (r.post.mono.marks _ this))
            · exact r.done x hx
      · simp only [ha, if_false] at h
        have : rootsOf (Slot.addr a :: rest) = rootsOf rest := by simp [rootsOf, ha]
        rw [this]; exact ih _ _ h
    | unknown => simp only [markAccess] at h; simpa [rootsOf] using ih _ _ h
    | ip v => simp only [markAccess] at h; simpa [rootsOf] using ih _ _ h
    | stk v => simp only [markAccess] at h; simpa [rootsOf] using ih _ _ h

theorem markAccess_total (f : Nat) : ∀ st m, WK m → st.all (slotOk m) = true → 2 * U m + 3 ≤ f →
    (markAccess f m st).isSome = true := by
  intro st
  induction st with
  | nil => intro m _ _ _; simp [markAccess]
  | cons s rest ih =>
    intro m w hs hf
    simp only [List.all_cons, Bool.and_eq_true] at hs
    cases s with
    | addr a =>
      simp only [markAccess]
      by_cases ha : a > 0
      · simp only [ha, if_true]
        have hlt : a < m.size := by simpa [slotOk] using hs.1
        obtain ⟨c, hc⟩ := getElem?_of_lt hlt
        simp only [hc]
        split
        · have h1 := (mark_total_all f).1 m a w (Or.inr hlt) hf
          cases hmk : mark f m a with
          | none => simp [hmk] at h1
          | some m1 =>
            have mono := (mark_mono_all f).1 _ _ _ hmk
            have := U_mono mono
            simp only
            apply ih m1 (w.mono mono) _ (by omega)
            rw [List.all_eq_true] at hs ⊢
            intro x hx
            have := hs.2 x hx
            cases x <;> simp_all [slotOk, mono.size]
        · exact ih m w hs.2 hf
      · simp only [ha, if_false]; exact ih m w hs.2 hf
    | unknown => simp only [markAccess]; exact ih m w hs.2 hf
    | ip v => simp only [markAccess]; exact ih m w hs.2 hf
    | stk v => simp only [markAccess]; exact ih m w hs.2 hf

/-- the whole mark phase of `gc_run` -/
def markPhase (f : Nat) (m : Mem) (st : List Slot) (gp : Nat) : Option Mem :=
  match markAccess f m st with
  | none => none
  | some m1 => if gp > 0 then mark f m1 gp else some m1

theorem markPhase_spec {f : Nat} {m m' : Mem} {st : List Slot} {gp : Nat}
    (h : markPhase f m st gp = some m') : MarkSpec m m' (allRoots st gp) := by
  unfold markPhase at h
  split at h
  · cases h
  · rename_i m1 h1
    have r := markAccess_spec f _ _ _ h1
    by_cases hg : gp > 0
    · simp only [hg, if_true] at h
      obtain ⟨p2, d2⟩ := (mark_post_all f).1 _ _ _ h
      have s2 := (mark_sound_all f).1 _ _ _ h
      unfold allRoots; simp only [hg, if_true]
      refine ⟨r.post.trans p2, ?_, ?_⟩
      · intro x hx
        rcases List.mem_append.mp hx with hx | hx
        · exact (r.done x hx).mono p2.mono
        · simp at hx; subst hx; exact d2
      · exact NewFrom.trans r.post.mono (r.sound.mono_list (by intro y hy; simp [hy])) (s2.mono_list (by simp))
    · simp only [hg, if_false] at h
      cases h
      unfold allRoots; simp only [hg, if_false, List.append_nil]
      exact r

theorem markPhase_total {f : Nat} {m : Mem} {st : List Slot} {gp : Nat}
    (w : WK m) (hs : st.all (slotOk m) = true) (hg : gp < m.size) (hf : 2 * U m + 3 ≤ f) :
    (markPhase f m st gp).isSome = true := by
  unfold markPhase
  have h1 := markAccess_total f st m w hs hf
  cases hma : markAccess f m st with
  | none => simp [hma] at h1
  | some m1 =>
    simp only
    have r := markAccess_spec f _ _ _ hma
    split
    · apply (mark_total_all f).1 m1 gp (w.mono r.post.mono) (Or.inr (by rw [r.post.mono.size]; exact hg))
      have := U_mono r.post.mono
      omega
    · rfl

/-- top level: starting from a heap without marks, the mark phase marks exactly the live cells -/
theorem marked_iff_live {m m' : Mem} {roots : List Nat}
    (sp : MarkSpec m m' roots) (h0 : ∀ x, marked m x = false) (hnil : objAt m 0 = none) :
    ∀ b, marked m' b = true ↔ Live m roots b := by
  intro b
  constructor
  · intro hb
    exact sp.sound b hb (h0 b)
  · rintro ⟨hb0, hob, r, hr, p⟩
    -- every cell on a path from a root, that holds an object, is marked
    have key : ∀ c, Path m r c → c ≠ 0 → (objAt m c).isSome = true → marked m' c = true := by
      intro c pc
      induction pc with
      | refl =>
        intro hc0 hco
        rcases sp.done r hr with d | d | d
        · exact absurd d hc0
        · rw [sp.post.mono.obj] at d; simp [d] at hco
        · exact d
      | tail pab e ih =>
        rename_i b' c'
        intro hc0 hco
        obtain ⟨o, ho, hmem⟩ := e
        have hb'0 : b' ≠ 0 := by intro h; subst h; rw [hnil] at ho; cases ho
        have hb'm := ih hb'0 (by simp [ho])
        have cl := sp.post.closed b' hb'm (h0 b')
        rcases cl o (by rw [sp.post.mono.obj]; exact ho) c' hmem with d | d | d
        · exact absurd d hc0
        · rw [sp.post.mono.obj] at d; simp [d] at hco
        · exact d
    exact key b p hb0 hob

end Never
