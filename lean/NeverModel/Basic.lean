def hello := "world"
