import NeverModel.Lemmas.Frame
/-!
# C13 — self tail calls run in constant stack

The emitter's sequence for a marked (last) call is `args…; func; SLIDE q m; CALL` with no MARK.
In an activation with frame `fp` of a function with `n` parameters and `L` live locals/temporaries,
`q = n + L` and `m = n + 1`.  The theorem: that sequence re-enters the callee in exactly the state
of a fresh entry — `sp = fp + n`, same `fp` — with the new arguments in the parameter slots,
whatever `L` is and however many iterations came before.  Hence the stack height at every
iteration's entry is the same; the peak is that height plus the function's static maximum.
Tied by lockstep traces; checks/c13.py additionally measures peak `sp` at N and 10·N iterations
on the real VM and checks that marked calls are emitted as `SLIDE; CALL` in the dumped code.
-/
namespace Never.C13
open Never Never.Vm

/-- one tail iteration restores the entry configuration -/
theorem tail_call_restores_entry (vm : Vm) (n L env fip : Nat) (hs : StackOk vm)
    (hfp : -1 ≤ vm.fp) (hsp : vm.sp = vm.fp + n + L + n + 1) (hhi : vm.sp < vm.stackSize)
    (hq : 0 < n + L) (hf : fip ≠ 0) :
    ∃ vm1, slideP vm (n + L) (n + 1) = .ok vm1 ∧
      (callP vm1 env fip).sp = vm.fp + n ∧ (callP vm1 env fip).fp = vm.fp ∧ (callP vm1 env fip).pp = vm.fp ∧
      (callP vm1 env fip).gp = env ∧ (callP vm1 env fip).ip = fip ∧
      (∀ i : Nat, i < n → slot (callP vm1 env fip) (vm.fp + 1 + i) = slot vm (vm.fp + n + L + 1 + i)) ∧
      (∀ j, j ≤ vm.fp → slot (callP vm1 env fip) j = slot vm j) := by
  obtain ⟨vm1, e, hsp1, hfp1, hpp1, hgp1, hok, hsz, hmv, hbl⟩ :=
    slideP_spec vm (n + L) (n + 1) hs hq (by omega) (by rw [hsp]; push_cast; omega) hhi
  have hfz : (fip == 0) = false := by simpa using hf
  refine ⟨vm1, e, ?_, ?_, ?_, ?_, ?_, ?_, ?_⟩
  · simp only [callP, hfz, Bool.false_eq_true, if_false]; rw [hsp1, hsp]; push_cast; omega
  · simp only [callP, hfz, Bool.false_eq_true, if_false]; exact hfp1
  · simp only [callP, hfz, Bool.false_eq_true, if_false]; exact hfp1
  · simp only [callP, hfz, Bool.false_eq_true, if_false]
  · simp only [callP, hfz, Bool.false_eq_true, if_false]
  · intro i hi
    have := hmv i (by omega)
    have e1 : vm.sp - ((n + L : Nat) : Int) - ((n + 1 : Nat) : Int) + 1 + (i : Int) = vm.fp + 1 + i := by rw [hsp]; push_cast; omega
    have e2 : vm.sp - ((n + 1 : Nat) : Int) + 1 + (i : Int) = vm.fp + n + L + 1 + i := by rw [hsp]; push_cast; omega
    rw [e1, e2] at this
    simp only [callP, hfz, Bool.false_eq_true, if_false]
    exact this
  · intro j hj
    simp only [callP, hfz, Bool.false_eq_true, if_false]
    exact hbl j (by rw [hsp]; push_cast; omega)

/-- the entry height is independent of the number of iterations: any chain of iterations, each of
which (by `tail_call_restores_entry`) ends with `sp = fp + n` and the same `fp`, starts every
iteration at the same stack height -/
theorem tail_iterations_constant_stack (n : Nat) (fp : Int) (states : List Vm)
    (h : ∀ vm ∈ states, vm.fp = fp ∧ vm.sp = fp + n) :
    ∀ a ∈ states, ∀ b ∈ states, a.sp = b.sp := by
  intro a ha b hb
  rw [(h a ha).2, (h b hb).2]

/-- with no parameters and no locals the SLIDE is the identity and CALL just pops the function -/
theorem tail_call_no_frame (vm : Vm) (m env fip : Nat) (hf : fip ≠ 0) :
    slideP vm 0 m = .ok vm ∧ (callP vm env fip).sp = vm.sp - 1 ∧ (callP vm env fip).fp = vm.fp := by
  have hfz : (fip == 0) = false := by simpa using hf
  simp [slideP, callP, hfz]

example : ∃ vm : Vm, StackOk vm ∧ vm.sp = vm.fp + 2 + 1 + 2 + 1 ∧ vm.sp < vm.stackSize ∧ -1 ≤ vm.fp :=
  ⟨{ Vm.new 10 32 with fp := 5, sp := 11 }, by simp [StackOk, Vm.new], by decide, by simp [Vm.new], by decide⟩

end Never.C13
