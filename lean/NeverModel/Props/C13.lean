import NeverModel.Lemmas.Frame
import NeverModel.Lemmas.TailSem
/-!
# C13 — self tail calls run in constant stack

The emitter's sequence for a marked (last) call is `args…; func; SLIDE q m; CALL` with no MARK.
In an activation with frame `fp` of a function with `n` parameters and `L` live locals/temporaries,
`q = n + L` and `m = n + 1`.  The theorem: that sequence re-enters the callee in exactly the state
of a fresh entry — `sp = fp + n`, same `fp` — with the new arguments in the parameter slots,
whatever `L` is and however many iterations came before.  Hence the stack height at every
iteration's entry is the same; the peak is that height plus the function's static maximum.
Tied by lockstep traces; checks/c13.py additionally measures peak `sp` at N and 10·N iterations
on the real VM and checks that marked calls are emitted as `SLIDE; CALL` in the dumped code.

Second part (`namespace Never.Src.Tail.C13`): WHICH calls get that sequence.  `front/tailrec.c` is modelled in
`Model/TailRec.lean` (`markedAt`), its table is regenerated from the C text on every run (`Gen/TailTab.lean`,
gen/tailtab.py) and compared with the table the model is built on (`tail_table_agrees`) and with the rule of tail
position itself (`tail_table_sound_partial`, `tail_table_complete`); the marker marks only calls in tail position
(`marker_sound`), all self calls in tail position (`marker_complete`), none in a catch clause (`marker_skips_catch`);
and on the reference evaluator a node in tail position, once reached, gives the body its whole result
(`tail_position_value`).
-/
namespace Never.C13
open Never Never.Vm

/-- one tail iteration restores the entry configuration -/
theorem tail_call_restores_entry (vm : Vm) (n L env fip : Nat) (hs : StackOk vm)
    (hfp : -1 ≤ vm.fp) (hsp : vm.sp = vm.fp + n + L + n + 1) (hhi : vm.sp < vm.stackSize)
    (hq : 0 < n + L) (hf : fip ≠ 0) :
    ∃ vm1, slideP vm (n + L) (n + 1) = .ok vm1 ∧
      (callP vm1 env fip).sp = vm.fp + n ∧ (callP vm1 env fip).fp = vm.fp ∧ (callP vm1 env fip).pp = vm.fp ∧
      (callP vm1 env fip).gp = env ∧ (callP vm1 env fip).ip = fip ∧
      (∀ i : Nat, i < n → slot (callP vm1 env fip) (vm.fp + 1 + i) = slot vm (vm.fp + n + L + 1 + i)) ∧
      (∀ j, j ≤ vm.fp → slot (callP vm1 env fip) j = slot vm j) := by
  obtain ⟨vm1, e, hsp1, hfp1, hpp1, hgp1, hok, hsz, hmv, hbl⟩ :=
    slideP_spec vm (n + L) (n + 1) hs hq (by omega) (by rw [hsp]; push_cast; omega) hhi
  have hfz : (fip == 0) = false := by simpa using hf
  refine ⟨vm1, e, ?_, ?_, ?_, ?_, ?_, ?_, ?_⟩
  · simp only [callP, hfz, Bool.false_eq_true, if_false]; rw [hsp1, hsp]; push_cast; omega
  · simp only [callP, hfz, Bool.false_eq_true, if_false]; exact hfp1
  · simp only [callP, hfz, Bool.false_eq_true, if_false]; exact hfp1
  · simp only [callP, hfz, Bool.false_eq_true, if_false]
  · simp only [callP, hfz, Bool.false_eq_true, if_false]
  · intro i hi
    have := hmv i (by omega)
    have e1 : vm.sp - ((n + L : Nat) : Int) - ((n + 1 : Nat) : Int) + 1 + (i : Int) = vm.fp + 1 + i := by rw [hsp]; push_cast; omega
    have e2 : vm.sp - ((n + 1 : Nat) : Int) + 1 + (i : Int) = vm.fp + n + L + 1 + i := by rw [hsp]; push_cast; omega
    rw [e1, e2] at this
    simp only [callP, hfz, Bool.false_eq_true, if_false]
    exact this
  · intro j hj
    simp only [callP, hfz, Bool.false_eq_true, if_false]
    exact hbl j (by rw [hsp]; push_cast; omega)

/-- the entry height is independent of the number of iterations: any chain of iterations, each of
which (by `tail_call_restores_entry`) ends with `sp = fp + n` and the same `fp`, starts every
iteration at the same stack height -/
theorem tail_iterations_constant_stack (n : Nat) (fp : Int) (states : List Vm)
    (h : ∀ vm ∈ states, vm.fp = fp ∧ vm.sp = fp + n) :
    ∀ a ∈ states, ∀ b ∈ states, a.sp = b.sp := by
  intro a ha b hb
  rw [(h a ha).2, (h b hb).2]

/-- with no parameters and no locals the SLIDE is the identity and CALL just pops the function -/
theorem tail_call_no_frame (vm : Vm) (m env fip : Nat) (hf : fip ≠ 0) :
    slideP vm 0 m = .ok vm ∧ (callP vm env fip).sp = vm.sp - 1 ∧ (callP vm env fip).fp = vm.fp := by
  have hfz : (fip == 0) = false := by simpa using hf
  simp [slideP, callP, hfz]

example : ∃ vm : Vm, StackOk vm ∧ vm.sp = vm.fp + 2 + 1 + 2 + 1 ∧ vm.sp < vm.stackSize ∧ -1 ≤ vm.fp :=
  ⟨{ Vm.new 10 32 with fp := 5, sp := 11 }, by simp [StackOk, Vm.new], by decide, by simp [Vm.new], by decide⟩

end Never.C13

/-! ## which calls are marked: the model of front/tailrec.c -/
namespace Never.Src.Tail.C13
open Never.Src Never.Src.Tail
open Never.Gen.TailTab (Pass Row rows retags idRule caseLabels)

/-! ### the table: translator tie -/

/-- **The table regenerated from front/tailrec.c is the table the model is built on**: every visit of a child by
`expr_tailrec` and its helpers, `func_tailrec_native` and `never_tailrec`, in source order, with its designator
(case label, helper-switch labels, member path), the flag it hands down (its own / SKIP / ADD / fresh context) and the
symbol table it hands down.  Kernel-checked against whatever gen/tailtab.py extracted from the CURRENT tree. -/
theorem tail_table_agrees : rows = refRows := by decide +kernel

/-- the retagging site and the self test, as text: `case EXPR_CALL`/`EXPR_LAST_CALL` retag exactly when the function
expression is an identifier and `expr_id_tailrec` answers 1; that answers 1 exactly when the flag is ADD and the lookup
restricted to the function's own tables (`SYMTAB_LOOKUP_FUNC`) finds a function defined one syntactic level up: the entry
the function made for itself -/
theorem retag_rule_agrees :
    retags = [("EXPR_CALL", "value->call.func_expr->type == EXPR_ID && expr_id_tailrec(syn_level, stab, value->call.func_expr, op)", "EXPR_LAST_CALL"),
              ("EXPR_LAST_CALL", "value->call.func_expr->type == EXPR_ID && expr_id_tailrec(syn_level, stab, value->call.func_expr, op)", "EXPR_LAST_CALL")] ∧
    idRule = ["entry = symtab_lookup(stab, value->id.id, SYMTAB_LOOKUP_FUNC)", "!(op == TAILREC_OP_SKIP)", "entry != NULL",
              "entry->type == SYMTAB_FUNC && entry->func_value != NULL", "op == TAILREC_OP_ADD && syn_level - 1 == entry->syn_level"] := by
  decide +kernel

/-- the function expression of a call (`EXPR_CALL` / the already retagged `EXPR_LAST_CALL`) -/
def callFnKeys : List Key := [("EXPR_CALL", [], "call.func_expr"), ("EXPR_LAST_CALL", [], "call.func_expr")]

/-- **Every child to which tailrec.c hands its flag is a tail child by the rule** — for ALL constructs of the C
switch, modelled core or not — EXCEPT the function expression of a call, which receives the flag although what follows it
is the call itself.  (PARTIAL: that entry is excused.  It cannot mark anything in a typed program: a self call `f(a)` in the
function position of a call `f(a)(b)` in tail position of `f` would need `f`'s result type to be a function type returning
itself.  It is reported as a latent defect.)  ADD is handed only to a function body and to a top-level expression item. -/
theorem tail_table_sound_partial :
    ∀ r ∈ rows, (r.pass = .op → specTailKey r.key = true ∨ r.key ∈ callFnKeys) ∧
      (r.pass = .add → r.key = Slot.funcBody.key ∨ r.key = ("NEVER", ["SEQ_TYPE_EXPR"], "exprs[head].expr_value")) := by
  decide +kernel

/-- every tail child by the rule does receive the flag -/
theorem tail_table_complete : ∀ k ∈ specTailKeys, ∃ r ∈ rows, r.key = k ∧ r.pass = .op := by
  decide +kernel

/-- catch clauses are visited with SKIP, nested functions and function items in a fresh context -/
theorem tail_table_catch_and_nested :
    ∀ r ∈ rows, (r.child ∈ ["except.list[].expr_value", "except.all.expr_value"] → r.pass = .skip) ∧
      (r.construct = "EXPR_FUNC" → r.pass = .fresh) ∧ ("SEQ_TYPE_FUNC" ∈ r.quals → r.pass = .fresh) := by
  decide +kernel

/-- every `case` label of `expr_tailrec` is a leaf (no child) or has its visits in the table -/
theorem case_labels_covered :
    ∀ l ∈ caseLabels, l ∈ ["EXPR_BOOL", "EXPR_INT", "EXPR_LONG", "EXPR_FLOAT", "EXPR_DOUBLE", "EXPR_CHAR", "EXPR_STRING",
      "EXPR_ENUMTYPE", "EXPR_NIL", "EXPR_C_NULL", "EXPR_ID"] ∨ ∃ r ∈ rows, r.construct = l := by
  decide +kernel

/-- the rule on the slots of the model and the rule on the C designators are the same rule -/
theorem spec_rule_consistent : ∀ s : Slot, specTail s = specTailKey s.key := by
  intro s
  have h : Slot.all.all (fun s => specTail s == specTailKey s.key) = true := by decide +kernel
  simpa using Slot.forall_of_all h s

/-- the slots whose visit may open a table of the construct's own (`mayOpen`; `opensTable` is `mayOpen` plus, for record
guards, "the guard binds names") are the ones for which the regenerated table says so (`scope` column: the block's, the
comprehension's, the record guard's table is handed down) -/
theorem opens_table_consistent :
    (∀ s : Slot, mayOpen s = ["seq_value.stab", "listcomp_value.stab", "match.match_guards[].guard_record.guard.stab",
        "iflet_value.guard_record.stab"].contains (refScope s)) ∧
    (∀ e s i, opensTable e s i = true → mayOpen s = true) := by
  constructor
  · intro s
    have h : Slot.all.all (fun s => mayOpen s == ["seq_value.stab", "listcomp_value.stab", "match.match_guards[].guard_record.guard.stab",
        "iflet_value.guard_record.stab"].contains (refScope s)) = true := by decide +kernel
    simpa using Slot.forall_of_all h s
  · intro e s i h
    cases s <;> simp_all [opensTable, mayOpen]

theorem refRows_at_slot : ∀ s : Slot,
    (match refRows[slotIdx s]? with | some r => r.pass | none => Pass.add) = refTab s := by
  intro s
  have h : Slot.all.all (fun s => (match refRows[slotIdx s]? with | some r => r.pass | none => Pass.add) == refTab s) = true := by
    decide +kernel
  simpa using Slot.forall_of_all h s

/-- hence the model instantiated with the C code's table IS the model instantiated with the reference table -/
theorem cTab_eq_refTab : cTab = refTab := by
  funext s
  unfold cTab
  rw [tail_table_agrees]
  exact refRows_at_slot s

/-! ### the marker marks calls in tail position only -/

/-- a table is sound when it hands the flag down to tail children only, and ADD to nothing but a function body -/
structure TabSound (tab : Slot → Pass) : Prop where
  op_tail : ∀ s, tab s = .op → specTail s = true
  add_body : ∀ s, tab s = .add → s = .funcBody

/-- the rule as a table -/
def specTab : Slot → Pass
  | .funcBody => .add
  | s => if specTail s then .op else .skip

theorem specTab_sound : TabSound specTab := by
  constructor
  · intro s h; cases s <;> simp_all [specTab, specTail]
  · intro s h; cases s <;> simp_all [specTab, specTail]

/-- **marker_sound.**  For a sound table: every node of a function body that the marker retags is a call of the
function's own name, and it is in TAIL POSITION of the body — every step from the body to it is a branch of `?:`/`if`,
the last expression of a block, a `match` arm or a branch of `if let`.  For all functions and all paths. -/
theorem marker_sound (tab : Slot → Pass) (h : TabSound tab) (fn : Func) (p : Path)
    (hm : markedInBody tab fn p = true) :
    TailPath fn.body p ∧ ∃ args, sub fn.body p = some (.call (.var fn.name) args) := by
  obtain ⟨c, hsub, hflag, hself⟩ := (markedAt_iff tab fn.name p _ _ _ _).mp hm
  have hsome : (sub fn.body p).isSome := by rw [hsub]; rfl
  have hna : ∀ st ∈ p, tab st.1 ≠ .add := by
    intro st hst ha
    exact steps_not_funcBody hsome st hst (h.add_body _ ha)
  obtain ⟨_, hops⟩ := flagAlong_true tab p hna _ hflag
  obtain ⟨args, hc, _, _⟩ := isSelfCall_spec hself
  exact ⟨⟨hsome, fun st hst => h.op_tail _ (hops st hst)⟩, args, by rw [hsub, hc]⟩

/-- **marker_skips_catch.**  A table that visits catch clauses with SKIP (and raises the flag nowhere inside an
expression) marks nothing in a catch clause: the function's frame still exists when a handler runs. -/
theorem marker_skips_catch (tab : Slot → Pass) (hadd : ∀ s, tab s = .add → s = .funcBody)
    (h1 : tab .catchOne = .skip) (h2 : tab .catchAll = .skip) (fn : Func) (j : Nat) (p : Path) :
    markedInCatch tab fn j p = false := by
  unfold markedInCatch
  split
  · rename_i c _
    have hf : flag (tab (if c.exc.isSome then Slot.catchOne else Slot.catchAll)) false = false := by
      split <;> simp [h1, h2, flag]
    rw [hf]
    cases hm : markedAt tab fn.name (paramBinders fn.params) [] false c.body p with
    | false => rfl
    | true =>
      obtain ⟨x, hsub, hflag, _⟩ := (markedAt_iff tab fn.name p _ _ _ _).mp hm
      have hsome : (sub c.body p).isSome := by rw [hsub]; rfl
      have hna : ∀ st ∈ p, tab st.1 ≠ .add := fun st hst ha => steps_not_funcBody hsome st hst (hadd _ ha)
      rw [flagAlong_false tab p hna] at hflag
      cases hflag
  · rfl

/-- **marker_complete.**  A table that hands the flag to every tail child and starts bodies with ADD marks EVERY self
call in tail position (the identifier is the function's name and nothing in scope shadows it). -/
theorem marker_complete (tab : Slot → Pass) (h : ∀ s, specTail s = true → tab s = .op) (hb : tab .funcBody = .add)
    (fn : Func) (p : Path) (hs : SelfTailCall fn p) : markedInBody tab fn p = true := by
  obtain ⟨⟨_, htail⟩, hne, hpar, hscope, args, hsub⟩ := hs
  apply (markedAt_iff tab fn.name p _ _ _ _).mpr
  refine ⟨_, hsub, ?_, ?_⟩
  · rw [hb]; exact flagAlong_of_all_op tab p (fun st hst => h _ (htail st hst))
  · have hnb : fn.name ∉ seenAlong (paramBinders fn.params) [] fn.body p := by
      intro hin
      rcases seenAlong_tail p _ _ _ htail _ hin with h1 | h1 | h1
      · exact hpar h1
      · cases h1
      · exact hscope h1
    simp [isSelfCall, hne, hnb]

/-- **marker_sound, the self test** (holds since fix f0e3e9c).  For a sound table every marked node is a self call in tail
position by the RULE: besides `marker_sound`, the function's name is shadowed by nothing in lexical scope at the call — not by
a parameter, not by an item of an enclosing block, not by a name a `match` arm or `if let` binds.  With `marker_complete`:
for a sound and complete table, marked ⇔ `SelfTailCall`. -/
theorem marker_sound_self (tab : Slot → Pass) (h : TabSound tab) (fn : Func) (p : Path)
    (hm : markedInBody tab fn p = true) : SelfTailCall fn p := by
  obtain ⟨htp, _⟩ := marker_sound tab h fn p hm
  obtain ⟨c, hsub, _, hself⟩ := (markedAt_iff tab fn.name p _ _ _ _).mp hm
  obtain ⟨args, hc, hne, hns⟩ := isSelfCall_spec hself
  refine ⟨htp, hne, ?_, ?_, args, by rw [hsub, hc]⟩
  · intro hin; exact hns (seenAlong_mono p _ _ _ _ hin)
  · intro hin; exact hns (tailScope_seen p _ _ _ htp.2 _ hin)

/-! ### … instantiated with the table of the C code -/

/-- a path through tail children and function expressions of calls -/
def TailOrHeadPath (e : Expr) (p : Path) : Prop :=
  (sub e p).isSome ∧ ∀ st ∈ p, specTail st.1 = true ∨ st.1 = .callFn

/-- **marker_sound for tailrec.c, PARTIAL.**  Every node tailrec.c retags is a call of the function's own name reached
from the body through tail children — or through the function expression of a call (the excused table entry; missing for
full strength: tailrec.c should visit `call.func_expr` with SKIP).  When no step of the path is a function expression
this is `TailPath`. -/
theorem marker_sound_c_partial (fn : Func) (p : Path) (hm : markedInBody cTab fn p = true) :
    TailOrHeadPath fn.body p ∧ (∃ args, sub fn.body p = some (.call (.var fn.name) args)) ∧
      ((∀ st ∈ p, st.1 ≠ Slot.callFn) → TailPath fn.body p) := by
  rw [cTab_eq_refTab] at hm
  obtain ⟨c, hsub, hflag, hself⟩ := (markedAt_iff refTab fn.name p _ _ _ _).mp hm
  have hsome : (sub fn.body p).isSome := by rw [hsub]; rfl
  have hna : ∀ st ∈ p, refTab st.1 ≠ .add := by
    intro st hst ha
    apply steps_not_funcBody hsome st hst
    revert ha; cases st.1 <;> simp [refTab]
  obtain ⟨_, hops⟩ := flagAlong_true refTab p hna _ hflag
  obtain ⟨args, hc, _, _⟩ := isSelfCall_spec hself
  have hstep : ∀ st ∈ p, specTail st.1 = true ∨ st.1 = .callFn := by
    intro st hst
    have := hops st hst
    revert this; cases st.1 <;> simp [refTab, specTail]
  refine ⟨⟨hsome, hstep⟩, ⟨args, by rw [hsub, hc]⟩, ?_⟩
  intro hno
  exact ⟨hsome, fun st hst => (hstep st hst).resolve_right (hno st hst)⟩

/-- **the self test of tailrec.c** (full since fix f0e3e9c): a call tailrec.c retags along tail children is a call of the function
ITSELF — nothing in lexical scope, in particular no name bound by a `match` arm or `if let`, shadows the function's name. -/
theorem marker_sound_self_c (fn : Func) (p : Path) (hm : markedInBody cTab fn p = true)
    (hno : ∀ st ∈ p, st.1 ≠ Slot.callFn) : SelfTailCall fn p := by
  obtain ⟨_, ⟨args, hargs⟩, htp⟩ := marker_sound_c_partial fn p hm
  have htp := htp hno
  rw [cTab_eq_refTab] at hm
  obtain ⟨c, hsub, _, hself⟩ := (markedAt_iff refTab fn.name p _ _ _ _).mp hm
  obtain ⟨args', hc, hne, hns⟩ := isSelfCall_spec hself
  refine ⟨htp, hne, ?_, ?_, args, hargs⟩
  · intro hin; exact hns (seenAlong_mono p _ _ _ _ hin)
  · intro hin; exact hns (tailScope_seen p _ _ _ htp.2 _ hin)

/-- **marker_complete for tailrec.c** (full): every self call in tail position is retagged -/
theorem marker_complete_c (fn : Func) (p : Path) (hs : SelfTailCall fn p) : markedInBody cTab fn p = true := by
  rw [cTab_eq_refTab]
  exact marker_complete refTab (by intro s h; cases s <;> simp_all [refTab, specTail]) rfl fn p hs

/-- **tailrec.c marks nothing in a catch clause** (full) -/
theorem marker_skips_catch_c (fn : Func) (j : Nat) (p : Path) : markedInCatch cTab fn j p = false := by
  rw [cTab_eq_refTab]
  exact marker_skips_catch refTab (by intro s h; cases s <;> simp_all [refTab]) rfl rfl fn j p

/-! ### why tail position: the semantic justification on the reference evaluator -/

/-- **tail_position_value.**  If evaluating `body` (any fuel, environment, state) reaches the node `c` at path `p`
through tail children — conditions decided for the branch on the path, earlier items of blocks completed, the arm on the
path selected — then the result of `body` IS the result of `c` evaluated there: the same value cell, the same store and
printed output, the same exception, the same stop.  Nothing of `body` remains to be done after `c`, which is what allows
the frame to be replaced.  (`p` is then a tail path and `c` the node at `p`.) -/
theorem tail_position_value (ctx : Ctx) (f : Nat) (env : Env) (s : St) (body : Expr) (p : Path)
    (f' : Nat) (env' : Env) (s' : St) (c : Expr) (h : Reach ctx f env s body p f' env' s' c) :
    evalE f ctx env body s = evalE f' ctx env' c s' ∧ TailPath body p ∧ sub body p = some c := by
  obtain ⟨h1, h2, h3⟩ := reach_eval h
  exact ⟨h1, ⟨by rw [h2]; rfl, h3⟩, h2⟩

/-! ### the function around the body: when may the FRAME be replaced? -/

/-- what the rules still owe after the node in tail position: conversion to the declared result type when it yields a value;
when it raises, the catch clauses OF THIS INVOCATION, run in its parameter environment -/
def afterTail (ctx : Ctx) (f : Nat) (env : Env) (fn : FunEntry) (r : Res Loc) : Res Loc :=
  match r with
  | .ok l s1 => convCell fn.ret l s1
  | .exc e s1 => (handle f ctx env fn.catches e >>= convCell fn.ret) s1
  | .stop k s1 => .stop k s1

/-- **tail_call_owes_handlers.**  A call of function `fid` whose body reaches a node `c` in tail position returns what `c`
returns, converted to the declared result type — and if `c` RAISES, the exception is offered to the catch clauses of THIS
invocation, which run in ITS parameter environment `env`.  So the invocation's frame is still needed after `c` exactly
when the function has catch clauses: tail position in the body is not enough to replace the frame of such a function
(known finding `tail-call-under-own-catch-clauses`: tailrec.c marks these calls too). -/
theorem tail_call_owes_handlers (ctx : Ctx) (f : Nat) (fid : Nat) (cells args : List Loc) (s s0 : St) (fn : FunEntry) (env : Env)
    (p : Path) (f' : Nat) (env' : Env) (s' : St) (c : Expr)
    (hfn : ctx.findFun fid = some fn) (har : fn.params.length = args.length)
    (hbind : bindParams fn.params args (mkEnv fn.bs cells) s = .ok env s0)
    (h : Reach ctx f env s0 fn.body p f' env' s' c) :
    callClo (f + 1) ctx fid cells args s = afterTail ctx f env fn (evalE f' ctx env' c s') := by
  obtain ⟨h1, _, _⟩ := reach_eval h
  simp only [callClo, hfn, har, ne_eq, not_true_eq_false, if_false, bind_eq, M.bind, hbind, tryCatch, h1, afterTail]
  cases evalE f' ctx env' c s' <;> rfl

/-- an exception that leaves a function without catch clauses is re-raised (and logged once more in the trace of raised
exceptions, which no outcome shows) -/
def passThrough (r : Res Loc) : Res Loc :=
  match r with
  | .exc e s1 => .exc e { s1 with raised := e :: s1.raised }
  | r => r

/-- **tail_call_replaces_frame.**  In a function WITHOUT catch clauses, a self call reached in tail position of the body
gives the invocation its whole result: value cell (already of the declared type: the second conversion is the identity),
store, output, exception, stop — nothing of the invocation is needed after the call is entered, which is what
`args; func; SLIDE; CALL` (Never.C13.tail_call_restores_entry) relies on. -/
theorem tail_call_replaces_frame (ctx : Ctx) (f : Nat) (fid : Nat) (cells args : List Loc) (s s0 : St) (fn : FunEntry) (env : Env)
    (p : Path) (f' : Nat) (env' : Env) (s' : St) (c : Expr) (n : Nat) (cells2 args2 : List Loc) (s2 : St)
    (hfn : ctx.findFun fid = some fn) (har : fn.params.length = args.length) (hc : fn.catches = [])
    (hbind : bindParams fn.params args (mkEnv fn.bs cells) s = .ok env s0)
    (h : Reach ctx f env s0 fn.body p f' env' s' c)
    (hself : evalE f' ctx env' c s' = callClo n ctx fid cells2 args2 s2) :
    callClo (f + 1) ctx fid cells args s = passThrough (callClo n ctx fid cells2 args2 s2) := by
  rw [tail_call_owes_handlers ctx f fid cells args s s0 fn env p f' env' s' c hfn har hbind h, hself]
  cases hr : callClo n ctx fid cells2 args2 s2 with
  | ok l s1 => simp only [afterTail, passThrough]; exact callClo_result_converted hfn hr
  | stop k s1 => rfl
  | exc e s1 =>
    simp only [afterTail, passThrough, hc, bind_eq, M.bind]
    cases f with
    | zero =>
      have hf' := reach_zero h
      subst hf'
      rw [← hself] at hr
      simp [evalE, oof, stopM] at hr
    | succ f => simp [handle, throwE]

/-! ### the hypotheses are satisfiable; the rule is not too generous -/

/-- `func loop(n : int, acc : int) -> int { n == 0 ? acc : { let m = n - 1; loop(m, acc + n) } }
    catch (division_by_zero) { loop(0, 0) }` -/
def exLoop : Func :=
  .mk 1 "loop" [{ name := "n", ty := .int }, { name := "acc", ty := .int }] .int
    (.cond (.bin .eq (.var "n") (.lit (.int 0))) (.var "acc")
      (.seq [.bind false "m" (.bin .sub (.var "n") (.lit (.int 1))),
             .expr (.call (.var "loop") [.var "m", .bin .add (.var "acc") (.var "n")])]))
    [.mk (some .division_by_zero) (.call (.var "loop") [.lit (.int 0), .lit (.int 0)])]

/-- else-branch of the `?:`, then the last item of the block -/
def exPath : Path := [(.condE, 0), (.seqLastExpr, 1)]

example : TabSound specTab := specTab_sound
example : markedInBody specTab exLoop exPath = true := by decide
example : markedInBody cTab exLoop exPath = true := by rw [cTab_eq_refTab]; decide
/-- the call in the catch clause is a self call, unmarked -/
example : sub (Catch.body (.mk (some .division_by_zero) (.call (.var "loop") [.lit (.int 0), .lit (.int 0)]))) [] =
    some (.call (.var "loop") [.lit (.int 0), .lit (.int 0)]) ∧ markedInCatch cTab exLoop 0 [] = false :=
  ⟨rfl, marker_skips_catch_c _ _ _⟩
example : SelfTailCall exLoop exPath := ⟨by decide, by decide, by decide, by decide, _, rfl⟩
/-- a step through the function expression of a call: marked by tailrec.c's table, not by the rule's -/
example : markedInBody cTab (.mk 2 "f" [] .func (.call (.call (.var "f") []) []) []) [(.callFn, 0)] = true ∧
    markedInBody specTab (.mk 2 "f" [] .func (.call (.call (.var "f") []) []) []) [(.callFn, 0)] = false := by
  rw [cTab_eq_refTab]; decide

/-- `func go(o : Op) -> int { match o { Op::Apply(go) -> go(1, 2, 3); Op::Stop -> 0; } }`: the arm calls the function the
guard BINDS (three parameters), not `go` itself (one parameter) -/
def exShadow : Func :=
  .mk 3 "go" [{ name := "o", ty := .rcd }] .int
    (.seq [.expr (.matchE (.var "o")
      [.recd "Op" "Apply" ["go"] (.call (.var "go") [.lit (.int 1), .lit (.int 2), .lit (.int 3)]),
       .item "Op" "Stop" (.lit (.int 0))])]) []

/-- **The lookup of the pinned tree took a `match` binding for the function** (defect f0e3e9c): with the guard's names
hidden from the marker, the call of the bound `go` in the arm is retagged as a self last call — emitted with the bound
function's three arguments over a one-parameter frame — although by the rule it is no self call; with the guard's table
handed down (the repaired code, `cTab`) it is not marked. -/
theorem pinned_scope_marks_match_binding_counterexample :
    markedInBodyPinned refTab exShadow [(.seqLastExpr, 0), (.armRecd, 0)] = true ∧
    ¬ SelfTailCall exShadow [(.seqLastExpr, 0), (.armRecd, 0)] ∧
    markedInBody cTab exShadow [(.seqLastExpr, 0), (.armRecd, 0)] = false := by
  refine ⟨by decide, ?_, by rw [cTab_eq_refTab]; decide⟩
  intro h
  exact h.2.2.2.1 (by decide)

example : markedInBody specTab exLoop exPath = true ∧ SelfTailCall exLoop exPath :=
  ⟨by decide, marker_sound_self specTab specTab_sound exLoop exPath (by decide)⟩

/-- control reaches `7` in `true ? { 7 } : 8` -/
example : Reach {} 3 [] {} (.cond (.lit (.bool true)) (.seq [.expr (.lit (.int 7))]) (.lit (.int 8)))
    [(.condT, 0), (.seqLastExpr, 0)] 0 [] { mem := #[.int 1] } (.lit (.int 7)) := by
  refine Reach.condT (lc := 0) (s1 := { mem := #[.int 1] }) (v := 1) ?_ rfl (by decide) ?_
  · simp [evalE, alloc, litVal, bool2v]
  · exact Reach.seqLast SeqReach.last Reach.here

/-- **An operand is not in tail position**: `-(1)` evaluates its operand first, in the same state, and is NOT the
operand's result (another cell, another value) — the statement of `tail_position_value` fails for the slot `unArg`. -/
theorem operand_not_tail_counterexample :
    sub (.un .neg (.lit (.int 1))) [(.unArg .neg, 0)] = some (.lit (.int 1)) ∧
    evalE 2 {} [] (.un .neg (.lit (.int 1))) {} ≠ evalE 1 {} [] (.lit (.int 1)) {} := by
  refine ⟨rfl, ?_⟩
  simp [evalE, bind_eq, M.bind, alloc, load, litVal, unopM, unop, liftOp, pure, M.pure]

/-- **The scrutinee of a `match` is not in tail position** (the defect f00daac of the pinned tree treated it as one):
the `match` evaluates its scrutinee first, in the same state, and yields ANOTHER value (`E::two` = 1 where the scrutinee
is `E::one` = 0). -/
theorem scrutinee_not_tail_counterexample :
    sub exFlip [(.matchScrut, 0)] = some (.enumVal "E" "one") ∧
    evalE 3 exCtx [] exFlip {} = .ok 1 { mem := #[.int 0, .int 1] } ∧
    evalE 2 exCtx [] (.enumVal "E" "one") {} = .ok 0 { mem := #[.int 0] } := by
  refine ⟨rfl, ?_, ?_⟩
  · simp [evalE, evalGuards, exFlip, bind_eq, M.bind, alloc, load, exCtx_one, exCtx_two, exCtx_rec]
  · simp [evalE, alloc, exCtx_one, exCtx_rec]

/-- `func f() -> int { true ? f() : 0 }` -/
def exF : FunEntry :=
  { id := 0, bs := ["f"], params := [], ret := .int,
    body := .cond (.lit (.bool true)) (.call (.var "f") []) (.lit (.int 0)), catches := [] }
def exFctx : Ctx := { funs := [exF] }
def exS0 : St := { mem := #[.clo (some (0, [0]))] }
def exS1 : St := { mem := #[.clo (some (0, [0])), .int 1] }

/-- the hypotheses of `tail_call_replaces_frame` (and of `tail_call_owes_handlers`) hold of a concrete self tail call -/
example : callClo 4 exFctx 0 [0] [] exS0 = passThrough (callClo 1 exFctx 0 [0] [] exS1) := by
  refine tail_call_replaces_frame exFctx 3 0 [0] [] exS0 exS0 exF [("f", 0)] [(.condT, 0)] 2 [("f", 0)] exS1
    (.call (.var "f") []) 1 [0] [] exS1 rfl rfl rfl rfl ?_ ?_
  · refine Reach.condT (lc := 1) (s1 := exS1) (v := 1) ?_ rfl (by decide) Reach.here
    simp [evalE, alloc, litVal, bool2v, exS0, exS1]
  · simp [evalE, evalArgs, lookup, load, exS1, bind_eq, M.bind, pure, M.pure]

end Never.Src.Tail.C13
