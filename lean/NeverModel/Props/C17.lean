import NeverModel.Lemmas.FfiExec
/-!
# C17 — foreign calls pass and return every value intact

Model: `NeverModel/Model/Ffi.lean` (mirror of `back/vmffi.c` and of the descriptor emitter in
`front/emit.c`).  Tie: correspondence — `harness/h_ffi.c` includes `back/vmffi.c` textually and
runs its static walk functions on the same descriptors/values as `nmdrv ffi`; the end-to-end
generator (`checks/ffi_corr.py`) compiles C callees and Never programs and compares received /
returned values and `offsetof`/`sizeof`.  Property theorems only; proofs in `Lemmas/Ffi*.lean`.

Outside every theorem here: libffi (sizes of aggregates are *taken* to be the C ones, see the
model header; register/memory classification; ownership of argument buffers) — observed by the
harness only.
-/
namespace Never.C17
open Never Never.Ffi

/-- **Layout.**  For EVERY nested record type whose size fits `unsigned int`, the offset
arithmetic of `vm_execute_func_ffi_record_value` (32-bit running offset, bit-mask align,
re-basing of nested records) stores every scalar leaf at exactly the `offsetof` the C ABI gives
it (`r.trace = cLeaves …`), never outside the `sizeof` bytes that were allocated (the walk
returns `some`), and consumes exactly the record's descriptor; `vm_execute_func_ffi_record_new`
loads from the same offsets and leaves `*offset` at `sizeof`. -/
theorem layout_matches_sysv (fs : FTys) (vs : FVals) (rest : List Desc)
    (hty : HasTys vs fs = true) (hnf : NilFreeL vs = true) (hfit : cSize (.record fs) < 2 ^ 32) :
    ∃ r r', valueLoop fs fs.length vs ((emitList fs).1 ++ rest) (Buf.zero (cSize (.record fs))) 0#32 = some r ∧
      r.trace = cLeaves (.record fs) 0 ∧ r.ret = false ∧ r.code = rest ∧
      r.buf.size = cSize (.record fs) ∧
      recordNew fs fs.length ((emitList fs).1 ++ rest) r.buf 0#32 = some r' ∧
      r'.trace = cLeaves (.record fs) 0 ∧ r'.off.toNat = cSize (.record fs) ∧ r'.code = rest := by
  obtain ⟨r, r', h1, h2, h3, h4, h5, h6, _, h8, h9, h10⟩ := pack_unpack_top fs vs rest hty hnf hfit
  exact ⟨r, r', h1, h2, h3, h4, h5, h6, h8, h9, h10⟩

/-- the same at any position inside an enclosing struct: a member of type `t` of a struct based
at `base` (a multiple of `t`'s alignment), the previous member ending at relative offset `rel`
(the walk's absolute `*offset` being `base + rel`), is stored at
`base + roundUp rel (alignof t)` — the C member offset — with all its leaves at their C offsets -/
theorem layout_matches_sysv_member (t : FTy) (d : Desc) (code rest : List Desc)
    (hemit : (emitParam t).1 ++ rest = d :: code) (v : FVal) (hty : HasTy v t = true)
    (hnf : NilFree v = true) (base rel : Nat) (buf : Buf) (off : BitVec 32)
    (hoff : off.toNat = base + rel) (hal : cAlign t ∣ base)
    (hb : base + roundUp rel (cAlign t) + cSize t ≤ buf.size) (hs : buf.size < 2 ^ 32) :
    ∃ r, valueField t d v code buf off = some r ∧
      r.trace = cLeaves t (base + roundUp rel (cAlign t)) ∧
      r.off.toNat = base + roundUp rel (cAlign t) + cSize t ∧ r.code = rest := by
  obtain ⟨r, hr, s⟩ := valueField_spec t d code rest hemit v hty base rel buf off hoff hal hb hs
  exact ⟨r, hr, s.trace hnf, s.off, s.code⟩

/-- **Round trip.**  Unpacking (`record_new`) the buffer that packing (`record_value`) produced
returns the record, field by field, for every well-typed nil-free record value of every nested
record type -/
theorem marshal_roundtrip (fs : FTys) (vs : FVals) (rest : List Desc)
    (hty : HasTys vs fs = true) (hnf : NilFreeL vs = true) (hfit : cSize (.record fs) < 2 ^ 32) :
    ∃ r r', valueLoop fs fs.length vs ((emitList fs).1 ++ rest) (Buf.zero (cSize (.record fs))) 0#32 = some r ∧
      recordNew fs fs.length ((emitList fs).1 ++ rest) r.buf 0#32 = some r' ∧
      r'.val = .record vs := by
  obtain ⟨r, r', h1, _, _, _, _, h6, h7, _⟩ := pack_unpack_top fs vs rest hty hnf hfit
  exact ⟨r, r', h1, h6, h7⟩

/-- `total_count` written by the emitter is the number of descriptor codes of the record, so the
`ip += total_count - 1` taken for a nil record lands exactly behind it -/
theorem descriptor_total_count (fs : FTys) (rest : List Desc) :
    ∃ total, (emitParam (.record fs)).1 = .record fs.length total :: (emitList fs).1 ∧
      ((emitList fs).1 ++ rest).drop (total - 1) = rest :=
  ⟨1 + (emitList fs).1.length, emitParam_record fs, by simp⟩

/-- **Descriptor walk.**  For a parameter list of ANY arity and any return type, the descriptor
the emitter writes after `FUNC_FFI` is read back by the type phase as exactly the declared types
in declared order, ending on the `RET` that follows; and, for operands of the declared types
(nil records and nil strings included — the skip by `total_count`), the value phase consumes
exactly the parameter part, stops on the return descriptor, and hands `ffi_call` one value per
parameter, in declared order, each struct buffer read back intact by the C layout (`ArgsOk`);
with no nil operand the call is made with these arguments. -/
theorem descriptor_walk (ps : FTys) (r : RetTy) (stack : FVals) (tail : List Desc)
    (hwf : WfTys ps = true) (hwr : WfRet r = true) (hty : HasTys stack ps = true) (hfit : FitsL ps) :
    parseSig ps.length (emitSig ps r ++ tail) = some (ps, r, .other :: tail) ∧
    ∃ pr, prepValues ps ps.length stack (emitSig ps r ++ tail) false = some pr ∧
      pr.code = emitRet r ++ .other :: tail ∧ ArgsOk ps stack pr.args (emitRet r ++ .other :: tail) ∧
      (NilFreeL stack = true →
        ffiExec ps.length (emitSig ps r ++ tail) stack true true
          = .call pr.args r (emitRet r ++ .other :: tail)) :=
  exec_nilfree ps r stack tail hwf hwr hty hfit

/-- the result phase: a returned struct laid out by the C compiler (modelled as the packing of
`vs`) comes back as the declared record value, and the walk ends on the `RET` -/
theorem result_struct_intact (fs : FTys) (vs : FVals) (tail : List Desc)
    (hty : HasTys vs fs = true) (hnf : NilFreeL vs = true) (hfit : cSize (.record fs) < 2 ^ 32) :
    ∃ r, valueLoop fs fs.length vs ((emitList fs).1 ++ .other :: tail) (Buf.zero (cSize (.record fs))) 0#32 = some r ∧
      ffiResult (emitRet (.ty (.record fs)) ++ .other :: tail) r.buf = some (.record vs, .other :: tail) :=
  result_struct fs vs tail hty hnf hfit

/-! ### failure paths (as far as they are logic of `vm_execute_func_ffi`) -/

/-- a missing library (`dlcache_get_handle` = NULL) or a missing symbol (`dlsym` = NULL) never
reaches `ffi_call`, whatever the descriptor and operands -/
theorem ffi_failure_paths_missing (count : Nat) (code : List Desc) (stack : FVals) (libOk symOk : Bool)
    (h : libOk = false ∨ symOk = false) :
    ∀ args r rest, ffiExec count code stack libOk symOk ≠ .call args r rest :=
  exec_missing count code stack libOk symOk h

/-- exact characterisation of the nil-argument path on emitted descriptors: `ffi_fail` is raised
before the call iff the flag `prep_vals`, as the C code computes it (`prepFinal`, `|=`), ends up set -/
theorem ffi_failure_paths_nil_exact (ps : FTys) (r : RetTy) (stack : FVals) (tail : List Desc)
    (hwf : WfTys ps = true) (hwr : WfRet r = true) (hty : HasTys stack ps = true) (hfit : FitsL ps) :
    (prepFinal false stack = true →
      ffiExec ps.length (emitSig ps r ++ tail) stack true true = .ffiFail .values) ∧
    (prepFinal false stack = false →
      ∃ args, ffiExec ps.length (emitSig ps r ++ tail) stack true true
        = .call args r (emitRet r ++ .other :: tail)) := by
  obtain ⟨args, _, hx⟩ := ffiExec_spec ps r stack tail true true hwf hwr hty hfit
  constructor
  · intro h; rw [hx]; simp [h]
  · intro h; exact ⟨args, by rw [hx]; simp [h]⟩

/-- **Nil operands, full strength** (holds since the repair 7f404f9, `prep_vals |= …`): on the
descriptor emitted for `(ps) -> r`, with operands of the declared types, if ANY operand — at top
level or nested inside a record operand (`NilFreeL stack = false`) — is a nil string or a nil
record, `ffi_fail` is raised at the values stage and `ffi_call` is not reached; otherwise the call
is made, with one intact argument per parameter in declared order -/
theorem ffi_failure_paths (ps : FTys) (r : RetTy) (stack : FVals) (tail : List Desc)
    (hwf : WfTys ps = true) (hwr : WfRet r = true) (hty : HasTys stack ps = true) (hfit : FitsL ps) :
    (NilFreeL stack = false →
      ffiExec ps.length (emitSig ps r ++ tail) stack true true = .ffiFail .values) ∧
    (NilFreeL stack = true →
      ∃ args, ArgsOk ps stack args (emitRet r ++ .other :: tail) ∧
        ffiExec ps.length (emitSig ps r ++ tail) stack true true
          = .call args r (emitRet r ++ .other :: tail)) :=
  exec_full ps r stack tail hwf hwr hty hfit

/-- the same, spelled by position: an operand `v` holding a nil anywhere in the operand list,
whatever precedes and whatever follows it (non-nil records included), stops the call -/
theorem ffi_failure_paths_any_position (ps : FTys) (r : RetTy) (pre post : FVals) (v : FVal)
    (tail : List Desc) (hwf : WfTys ps = true) (hwr : WfRet r = true)
    (hty : HasTys (pre.append (.cons v post)) ps = true) (hfit : FitsL ps)
    (hnil : NilFree v = false) :
    ffiExec ps.length (emitSig ps r ++ tail) (pre.append (.cons v post)) true true = .ffiFail .values :=
  (exec_full ps r _ tail hwf hwr hty hfit).1 (nilFreeL_append_cons pre v post hnil)

/-- the outcome "reached `ffi_call` with `param_values[0]` still NULL" -/
def callsWithNull : Outcome → Bool
  | .call (.unset :: _) _ _ => true
  | _ => false

def cexPs : FTys := .cons (.prim .string) (.cons (.record (.cons (.prim .int) (.cons (.prim .int) .nil))) .nil)
def cexStack : FVals := .cons (.string none) (.cons (.record (.cons (.int 4) (.cons (.int 5) .nil))) .nil)

/-- **HISTORICAL counterexample** (pinned commit 032f4cb, before 7f404f9; model `ffiExecPinned`
with `prep_vals = …`): `extern f(s : string, r : {int,int}) -> int` called with a nil string and a
non-nil record reached `ffi_call` with a NULL argument pointer.  The check replays this input on
the current tree and reports a VIOLATION if the behaviour returns. -/
theorem ffi_failure_paths_pinned_counterexample :
    HasTys cexStack cexPs = true ∧ NilFreeL cexStack = false ∧
    callsWithNull (ffiExecPinned cexPs.length (emitSig cexPs (.ty (.prim .int))) cexStack true true) = true ∧
    ffiExec cexPs.length (emitSig cexPs (.ty (.prim .int))) cexStack true true = .ffiFail .values := by
  refine ⟨by decide +kernel, by decide +kernel, by decide +kernel, ?_⟩
  have h := (exec_full cexPs (.ty (.prim .int)) cexStack [] (by decide +kernel) (by decide +kernel)
    (by decide +kernel)
    (by simp only [cexPs, FitsL]; exact ⟨by decide +kernel, by decide +kernel, trivial⟩)).1 (by decide +kernel)
  simpa using h

/-! ### non-vacuity -/

def exTy : FTys :=   -- struct { char c; struct { double d; char e; } in; int i; }
  .cons (.prim .char) (.cons (.record (.cons (.prim .double) (.cons (.prim .char) .nil))) (.cons (.prim .int) .nil))
def exVal : FVals :=
  .cons (.char 65) (.cons (.record (.cons (.double 4607182418800017408) (.cons (.char 66) .nil))) (.cons (.int 7) .nil))

example : HasTys exVal exTy = true ∧ NilFreeL exVal = true ∧ cSize (.record exTy) < 2 ^ 32 := by decide +kernel
example : cLeaves (.record exTy) 0 = [(.char, 0), (.double, 8), (.char, 16), (.int, 24)] ∧
    cSize (.record exTy) = 32 := by decide +kernel
example : WfTys cexPs = true ∧ WfRet (.ty (.prim .int)) = true ∧ FitsL cexPs := by
  refine ⟨by decide +kernel, by decide +kernel, ?_⟩
  simp only [cexPs, FitsL]
  refine ⟨by decide +kernel, by decide +kernel, trivial⟩
/-- `ffi_failure_paths_any_position` is not vacuous: nil string first, non-nil record after it -/
example : ffiExec 2 (emitSig cexPs .void) (FVals.append .nil (.cons (.string none)
      (.cons (.record (.cons (.int 4) (.cons (.int 5) .nil))) .nil))) true true = .ffiFail .values := by
  have h := ffi_failure_paths_any_position cexPs .void .nil
    (.cons (.record (.cons (.int 4) (.cons (.int 5) .nil))) .nil) (.string none) []
    (by decide +kernel) (by decide +kernel) (by decide +kernel)
    (by simp only [cexPs, FitsL]; exact ⟨by decide +kernel, by decide +kernel, trivial⟩)
    (by decide +kernel)
  simpa [FTys.length, cexPs] using h

end Never.C17
