import NeverModel.Lemmas.ExcTab
import NeverModel.Lemmas.Frame
import NeverModel.Lemmas.VmIpSound
/-!
# C03 — run-time faults become exceptions delivered to the right catch clause

Part 1 (this section): the handler lookup `exception_tab_search` (back/exctab.c), model
`NeverModel/Model/ExcTab.lean`, tied by correspondence (`harness/h_exc.c`: random tables and
every table the emitter builds).  Property theorems only; proofs in `Lemmas/ExcTab.lean`.
-/
namespace Never.C03
open Never

/-- on a well-formed table (first block 0, strictly increasing, sentinel `UINT_MAX`) the lookup
for any fault address below the sentinel returns the handler of **the** block containing it:
never NULL (the C `assert`), never an out-of-bounds read -/
theorem exctab_search_correct (tab : Array ExcEntry) (count ip : Nat)
    (hwf : ExcWF tab count = true) (hip : ip < 4294967295) :
    ∃ i e1 e2, i < count ∧ tab[i]? = some e1 ∧ tab[i + 1]? = some e2 ∧
      e1.block ≤ ip ∧ ip < e2.block ∧ excHandler tab count ip = some e1.handler :=
  excHandler_complete tab count ip hwf hip

/-- the block containing an address is unique, so "the right handler" is well defined -/
theorem exctab_block_unique (tab : Array ExcEntry) (count ip i j : Nat)
    (hwf : ExcWF tab count = true) (a1 a2 b1 b2 : ExcEntry)
    (hi : i < count) (hj : j < count)
    (ha1 : tab[i]? = some a1) (ha2 : tab[i + 1]? = some a2)
    (hb1 : tab[j]? = some b1) (hb2 : tab[j + 1]? = some b2)
    (hai : a1.block ≤ ip ∧ ip < a2.block) (hbj : b1.block ≤ ip ∧ ip < b2.block) : i = j :=
  excSearch_unique tab count ip i j hwf a1 a2 b1 b2 hi hj ha1 ha2 hb1 hb2 hai hbj

/-- whatever the table, a found entry really contains the address -/
theorem exctab_search_sound (tab : Array ExcEntry) (count ip i : Nat)
    (h : excSearch tab count ip = some (some i)) :
    i < count ∧ ∃ e1 e2, tab[i]? = some e1 ∧ tab[i + 1]? = some e2 ∧ e1.block ≤ ip ∧ ip < e2.block :=
  excSearch_sound tab count ip i h

/-- the binary search terminates (well-founded definition) and never reads outside
`tab[0..count]`, for every table and address -/
theorem exctab_search_in_bounds (tab : Array ExcEntry) (count ip : Nat)
    (hsz : tab.size = count + 1) : excSearch tab count ip ≠ none :=
  excSearch_in_bounds tab count ip hsz

/-- the excluded point: the sentinel address itself is in no block (the C `assert` would fire);
the VM looks up `ip - 1`, so this needs a fault at `ip = 0`, which cannot happen
(ip was incremented before the handler ran) -/
theorem exctab_sentinel_not_found (tab : Array ExcEntry) (count : Nat) (hwf : ExcWF tab count = true) :
    excSearch tab count 4294967295 = some none :=
  excSearch_sentinel_null tab count hwf

/-! ## Part 2: unwinding on the VM model (`NeverModel/Model/Vm.lean`, tied by lockstep traces)

A fault sets `running = EXCEPTION`; `step` then continues at `handler(ip - 1)` (Part 1).
Every handler entry the emitter produces is `CLEAR_STACK n` (a catch clause), `RETHROW` (no clause
matched in this function) or `UNHANDLED_EXCEPTION` (entry stub).  The theorems below are the two
frame facts the delivery argument needs, for every machine state:
* `CLEAR_STACK n` puts the machine back into the function's own frame with exactly its `n`
  parameters on the stack, discarding whatever had been pushed or half-built above;
* `RETHROW` pops exactly one frame — complete or only MARKed — restoring the registers that MARK
  saved and continuing (as an exception) at that MARK's return address, i.e. in the frame's
  creator; `pp` is preserved by MARK and set to the callee's frame by CALL, so inside an
  activation `pp` always designates that activation's frame, at any depth of partial frames. -/

open Never.Vm in
/-- a catch clause starts in the function's own frame: fp = pp, sp = pp + nparams; locals and any
partially built call frames above are gone, the parameters below are untouched -/
theorem clear_stack_resets_frame (vm : Vm) (n : Nat) :
    (clearStackP vm n).fp = vm.pp ∧ (clearStackP vm n).sp = vm.pp + n ∧ (clearStackP vm n).pp = vm.pp ∧
    (clearStackP vm n).running = 1 ∧ (clearStackP vm n).stack = vm.stack ∧ (clearStackP vm n).gp = vm.gp ∧
    (clearStackP vm n).gc = vm.gc := by
  simp [clearStackP]

open Never.Vm in
/-- MARK saves pp and does not change it; CALL makes pp the new frame -/
theorem pp_discipline (vm : Vm) (retAddr env fip : Nat) (hs : StackOk vm) (h0 : -1 ≤ vm.sp)
    (h1 : vm.sp + 5 < vm.stackSize) (hf : fip ≠ 0) :
    ∃ vm1, markP vm retAddr = .ok vm1 ∧ vm1.pp = vm.pp ∧ slot vm1 (vm.sp + 1) = .stk vm.pp ∧
      (callP vm1 env fip).pp = vm1.fp := by
  obtain ⟨vm1, e, p⟩ := markP_spec vm retAddr hs h0 h1
  have hfz : (fip == 0) = false := by simpa using hf
  exact ⟨vm1, e, p.pp, p.w1, by simp [callP, hfz]⟩

open Never.Vm in
/-- RETHROW (= RET, then EXCEPTION) pops exactly the frame `fp` designates and restores what its
MARK saved: the fault is re-raised in the creator of that frame, at the MARK's return address -/
theorem rethrow_pops_one_frame (vm0 vm1 vm2 : Vm) (retAddr : Nat)
    (hs0 : StackOk vm0) (h0 : -1 ≤ vm0.sp) (h1 : vm0.sp + 5 < vm0.stackSize)
    (hm : markP vm0 retAddr = .ok vm1)
    (hs2 : StackOk vm2) (hsz : vm2.stackSize = vm0.stackSize) (hfp : vm2.fp = vm0.sp + 5)
    (hframe : ∀ k : Int, 1 ≤ k → k ≤ 5 → slot vm2 (vm0.sp + k) = slot vm1 (vm0.sp + k))
    (hsp0 : 0 ≤ vm2.sp) (hsp : vm2.sp < vm2.stackSize) :
    ∃ vm3, retP vm2 = .ok vm3 ∧ vm3.fp = vm0.fp ∧ vm3.pp = vm0.pp ∧ vm3.gp = vm0.gp ∧ vm3.ip = retAddr ∧
      vm3.sp = vm0.sp + 1 := by
  obtain ⟨vm1', hm', mp⟩ := markP_spec vm0 retAddr hs0 h0 h1
  rw [hm] at hm'; cases hm'
  obtain ⟨vm3, hr, rp⟩ := retP_spec vm2 hs2 (by omega) (by rw [hfp, hsz]; exact h1) hsp0 hsp
  refine ⟨vm3, hr, ?_, ?_, ?_, ?_, ?_⟩
  · rw [rp.fp, hfp]
    have : vm0.sp + 5 - 1 = vm0.sp + 4 := by omega
    rw [this, hframe 4 (by omega) (by omega), mp.w4]; rfl
  · rw [rp.pp, hfp]
    have : vm0.sp + 5 - 4 = vm0.sp + 1 := by omega
    rw [this, hframe 1 (by omega) (by omega), mp.w1]; rfl
  · rw [rp.gp, hfp]
    have : vm0.sp + 5 - 2 = vm0.sp + 3 := by omega
    rw [this, hframe 3 (by omega) (by omega), mp.w3]; rfl
  · rw [rp.ip, hfp, hframe 5 (by omega) (by omega), mp.w5]; rfl
  · rw [rp.sp, hfp]; omega

def exTab : Array ExcEntry := #[⟨0, 100⟩, ⟨10, 200⟩, ⟨25, 300⟩, ⟨4294967295, 4294967295⟩]
example : ExcWF exTab 3 = true ∧ (12 : Nat) < 4294967295 := by decide
example : excHandler exTab 3 12 = some 200 := by decide +kernel

open Never.Vm Never.Ver in
/-- **Delivery, at the machine level.** From a running machine whose exception table is well-formed, one `step` on any
instruction of the effect table (every arithmetic, indexing, allocation, conversion, build-in … instruction; all that can
fault) ends in exactly one of three ways: the instruction completed (next address), the machine stopped in VM_ERROR, or
an exception was raised and the machine is **running again at the handler of THE block of the table that contains the
faulting address** — with the frame registers `fp`, `pp` untouched, so the `CLEAR_STACK` / `RETHROW` that every handler
begins with (theorems above) acts on the faulting function's own frame. -/
theorem fault_enters_the_block_handler (md : Module) (orc : Oracle) (vm vm' : Vm) (ins : Instr) (p q : Nat)
    (hwf : ExcWF md.exctab md.excCount = true) (hsmall : vm.ip < 4294967295)
    (hf : md.code[vm.ip]? = some ins) (hrun : vm.running = 1) (he : simpleEffect ins = some (p, q)) (hj : ins.op ≠ .JUMPZ)
    (h : (step md orc).run vm = .ok ((), vm')) :
    vm'.fp = vm.fp ∧ vm'.pp = vm.pp ∧
    ((vm'.running = 1 ∧ vm'.ip = vm.ip + 1) ∨ vm'.running = 3 ∨
     (vm'.running = 1 ∧ ∃ i e1 e2, i < md.excCount ∧ md.exctab[i]? = some e1 ∧ md.exctab[i + 1]? = some e2 ∧
        e1.block ≤ vm.ip ∧ vm.ip < e2.block ∧ vm'.ip = e1.handler)) := by
  obtain ⟨a1, a2, _, a4⟩ := step_table md orc vm vm' ins p q hf hrun he hj h
  refine ⟨a1, a2, ?_⟩
  rcases a4 with ⟨r, hip, _⟩ | ⟨r, hh⟩ | r
  · left; exact ⟨r, hip⟩
  · right; right
    obtain ⟨i, e1, e2, hi, t1, t2, b1, b2, hh'⟩ := exctab_search_correct md.exctab md.excCount vm.ip hwf hsmall
    rw [hh'] at hh
    exact ⟨r, i, e1, e2, hi, t1, t2, b1, b2, (Option.some.inj hh).symm⟩
  · right; left; exact r

end Never.C03
