import NeverModel.Lemmas.ExcTab
/-!
# C03 — run-time faults become exceptions delivered to the right catch clause

Part 1 (this section): the handler lookup `exception_tab_search` (back/exctab.c), model
`NeverModel/Model/ExcTab.lean`, tied by correspondence (`harness/h_exc.c`: random tables and
every table the emitter builds).  Property theorems only; proofs in `Lemmas/ExcTab.lean`.
-/
namespace Never.C03
open Never

/-- on a well-formed table (first block 0, strictly increasing, sentinel `UINT_MAX`) the lookup
for any fault address below the sentinel returns the handler of **the** block containing it:
never NULL (the C `assert`), never an out-of-bounds read -/
theorem exctab_search_correct (tab : Array ExcEntry) (count ip : Nat)
    (hwf : ExcWF tab count = true) (hip : ip < 4294967295) :
    ∃ i e1 e2, i < count ∧ tab[i]? = some e1 ∧ tab[i + 1]? = some e2 ∧
      e1.block ≤ ip ∧ ip < e2.block ∧ excHandler tab count ip = some e1.handler :=
  excHandler_complete tab count ip hwf hip

/-- the block containing an address is unique, so "the right handler" is well defined -/
theorem exctab_block_unique (tab : Array ExcEntry) (count ip i j : Nat)
    (hwf : ExcWF tab count = true) (a1 a2 b1 b2 : ExcEntry)
    (hi : i < count) (hj : j < count)
    (ha1 : tab[i]? = some a1) (ha2 : tab[i + 1]? = some a2)
    (hb1 : tab[j]? = some b1) (hb2 : tab[j + 1]? = some b2)
    (hai : a1.block ≤ ip ∧ ip < a2.block) (hbj : b1.block ≤ ip ∧ ip < b2.block) : i = j :=
  excSearch_unique tab count ip i j hwf a1 a2 b1 b2 hi hj ha1 ha2 hb1 hb2 hai hbj

/-- whatever the table, a found entry really contains the address -/
theorem exctab_search_sound (tab : Array ExcEntry) (count ip i : Nat)
    (h : excSearch tab count ip = some (some i)) :
    i < count ∧ ∃ e1 e2, tab[i]? = some e1 ∧ tab[i + 1]? = some e2 ∧ e1.block ≤ ip ∧ ip < e2.block :=
  excSearch_sound tab count ip i h

/-- the binary search terminates (well-founded definition) and never reads outside
`tab[0..count]`, for every table and address -/
theorem exctab_search_in_bounds (tab : Array ExcEntry) (count ip : Nat)
    (hsz : tab.size = count + 1) : excSearch tab count ip ≠ none :=
  excSearch_in_bounds tab count ip hsz

/-- the excluded point: the sentinel address itself is in no block (the C `assert` would fire);
the VM looks up `ip - 1`, so this needs a fault at `ip = 0`, which cannot happen
(ip was incremented before the handler ran) -/
theorem exctab_sentinel_not_found (tab : Array ExcEntry) (count : Nat) (hwf : ExcWF tab count = true) :
    excSearch tab count 4294967295 = some none :=
  excSearch_sentinel_null tab count hwf

def exTab : Array ExcEntry := #[⟨0, 100⟩, ⟨10, 200⟩, ⟨25, 300⟩, ⟨4294967295, 4294967295⟩]
example : ExcWF exTab 3 = true ∧ (12 : Nat) < 4294967295 := by decide
example : excHandler exTab 3 12 = some 200 := by decide +kernel

end Never.C03
