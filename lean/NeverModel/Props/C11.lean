import NeverModel.Lemmas.NumVm
import NeverModel.Model.NumTables
import NeverModel.Model.NumKnown
import NeverModel.Model.NumFmt
/-!
# C11 — numbers are fixed-width machine numbers with a defined promotion order

Every theorem here is about `Never.NumTables.T`, the tables REGENERATED FROM /repo's C SOURCE by
gen/numtab.py at the start of every check run (back/vmexec.c handlers, front/typecheck.c conversion
matrices and typing rules, front/emit.c opcode selection), or about Never.Num, the numeric
semantics the VM model executes.  Operand VALUES are universally quantified everywhere; nothing is
sampled.  Floats: Lean's Float32 / Float are opaque to the kernel, so statements about float
handlers are structural (same IEEE operation, same width, same operand order, no widening).

Core library only.  No sorry / admit / axiom / native_decide / bv_decide / unsafe.
`_partial` = the statement with the explicit exception the pinned tree needs;
`_counterexample` = the unrestricted statement is false whenever the pinned defect is present in
the regenerated table (premise decided on every run by `nmdrv num known`).
-/
namespace Never.C11
open Never.Num Never.CExpr Never.NumTables Never.NumKnown

/-! ## 1. every generated VM handler computes Never.Num's function, for all operand values -/

/-- `vm_execute_op_<op>_<t>` / `vm_execute_<a>_to_<b>` as written in back/vmexec.c today (getter types,
    zero guard, allocator type, C result expression as clang types it) = `Never.Num.bin / un / conv`
    (proved in Lemmas/NumVm.lean, which Props/C10 shares) -/
theorem vm_handlers_eq_model :
    ∀ r ∈ T.vmRows, ∀ a b : NVal, r.eval a b = r.sem.eval a b :=
  Never.NumVm.vm_handlers_eq_model

/-- vm_execute_op[] (read by array index): every arithmetic / conversion opcode points at one of the rows, and
    every row is reachable from an opcode -/
theorem opcode_table_closed :
    (T.opcodes.all fun p => p.2.2 < T.vmRows.length) = true ∧
    ((List.range T.vmRows.length).all fun i => T.opcodes.any fun p => p.2.2 == i) = true := by
  decide +kernel

example : ∃ r ∈ T.vmRows, r.name = "vm_execute_op_div_long" ∧ r.sem = .bin .long .div := by decide +kernel
example : T.vmRows.length ≥ 77 := by decide +kernel
example : ∃ r ∈ T.vmRows, r.sem = .bin .int .mod ∧ r.eval (.int 7) (.int 0) = .exc 1 := by decide +kernel
example : ∃ r ∈ T.vmRows, r.sem = .bin .int .div ∧
    r.eval (.int 0x80000000#32) (.int 0xffffffff#32) = .crash "SIGFPE: INT_MIN / -1" := by decide +kernel

/-! ## 2. int and long are two's complement with wrap-around and truncating division -/

/-- `int` (32 bit).  + − * neg & | ^ ~ are the BitVec operations (so they wrap: `toInt` of the result is
    the mathematical result reduced `bmod 2^32`); `/` `%` are `Int.tdiv` / `Int.tmod` on `toInt` whenever
    they do not fault; comparisons are signed; shifts by a count in [0,32) are `<<<` and arithmetic `>>>` -/
theorem int_ops_are_twos_complement (a b : BitVec 32) :
    Num.bin .int .add (.int a) (.int b) = .ok (.int (a + b)) ∧ (a + b).toInt = (a.toInt + b.toInt).bmod (2 ^ 32)
  ∧ Num.bin .int .sub (.int a) (.int b) = .ok (.int (a - b)) ∧ (a - b).toInt = (a.toInt - b.toInt).bmod (2 ^ 32)
  ∧ Num.bin .int .mul (.int a) (.int b) = .ok (.int (a * b)) ∧ (a * b).toInt = (a.toInt * b.toInt).bmod (2 ^ 32)
  ∧ Num.un .int .neg (.int a) = .ok (.int (-a)) ∧ (-a).toInt = (-a.toInt).bmod (2 ^ 32)
  ∧ Num.bin .int .band (.int a) (.int b) = .ok (.int (a &&& b))
  ∧ Num.bin .int .bor (.int a) (.int b) = .ok (.int (a ||| b))
  ∧ Num.bin .int .bxor (.int a) (.int b) = .ok (.int (a ^^^ b))
  ∧ Num.un .int .bnot (.int a) = .ok (.int (~~~a))
  ∧ (b = 0 → Num.bin .int .div (.int a) (.int b) = .exc 1 ∧ Num.bin .int .mod (.int a) (.int b) = .exc 1)
  ∧ (b ≠ 0 → ¬(a = intMin32 ∧ b = -1) →
      (∃ q, Num.bin .int .div (.int a) (.int b) = .ok (.int q) ∧ q.toInt = a.toInt.tdiv b.toInt) ∧
      (∃ m, Num.bin .int .mod (.int a) (.int b) = .ok (.int m) ∧ m.toInt = a.toInt.tmod b.toInt))
  ∧ Num.bin .int .lt (.int a) (.int b) = .ok (ofBool (decide (a.toInt < b.toInt)))
  ∧ Num.bin .int .gt (.int a) (.int b) = .ok (ofBool (decide (b.toInt < a.toInt)))
  ∧ Num.bin .int .lte (.int a) (.int b) = .ok (ofBool (decide (a.toInt ≤ b.toInt)))
  ∧ Num.bin .int .gte (.int a) (.int b) = .ok (ofBool (decide (b.toInt ≤ a.toInt)))
  ∧ Num.bin .int .eq (.int a) (.int b) = .ok (ofBool (decide (a = b)))
  ∧ Num.bin .int .neq (.int a) (.int b) = .ok (ofBool (decide (a ≠ b)))
  ∧ (0 ≤ b.toInt → b.toInt < 32 →
      Num.bin .int .shl (.int a) (.int b) = .ok (.int (a <<< b.toNat)) ∧
      Num.bin .int .shr (.int a) (.int b) = .ok (.int (a.sshiftRight b.toNat)) ∧
      (a.sshiftRight b.toNat).toInt = a.toInt >>> b.toNat) := by
  refine ⟨rfl, BitVec.toInt_add a b, rfl, BitVec.toInt_sub, rfl, BitVec.toInt_mul a b, rfl, BitVec.toInt_neg, rfl, rfl, rfl, rfl,
    ?_, ?_, rfl, rfl, rfl, rfl, ?_, ?_, ?_⟩
  · intro h; subst h; exact ⟨rfl, rfl⟩
  · intro hb hm
    have hm' : a ≠ BitVec.intMin 32 ∨ b ≠ -1#32 := by
      by_cases ha : a = intMin32
      · right; intro hb'; exact hm ⟨ha, hb'⟩
      · left; intro ha'; apply ha; rw [ha']; rfl
    refine ⟨⟨a.sdiv b, ?_, BitVec.toInt_sdiv_of_ne_or_ne a b hm'⟩, ⟨a.srem b, ?_, BitVec.toInt_srem a b⟩⟩
    · show (if b = 0 then NRes.exc 1 else if a = intMin32 ∧ b = -1 then _ else _) = _
      rw [if_neg hb, if_neg hm]
    · show (if b = 0 then NRes.exc 1 else if a = intMin32 ∧ b = -1 then _ else _) = _
      rw [if_neg hb, if_neg hm]
  · simp [Num.bin, binInt, ofBool]
  · simp [Num.bin, binInt, ofBool]
  · intro h0 h32
    have hc : ¬ (b.toInt < 0 ∨ b.toInt ≥ 32) := by omega
    refine ⟨?_, ?_, BitVec.toInt_sshiftRight⟩
    · simp [Num.bin, binInt, hc]
    · simp [Num.bin, binInt, hc]

/-- `long` (64 bit), the same statement -/
theorem long_ops_are_twos_complement (a b : BitVec 64) :
    Num.bin .long .add (.long a) (.long b) = .ok (.long (a + b)) ∧ (a + b).toInt = (a.toInt + b.toInt).bmod (2 ^ 64)
  ∧ Num.bin .long .sub (.long a) (.long b) = .ok (.long (a - b)) ∧ (a - b).toInt = (a.toInt - b.toInt).bmod (2 ^ 64)
  ∧ Num.bin .long .mul (.long a) (.long b) = .ok (.long (a * b)) ∧ (a * b).toInt = (a.toInt * b.toInt).bmod (2 ^ 64)
  ∧ Num.un .long .neg (.long a) = .ok (.long (-a)) ∧ (-a).toInt = (-a.toInt).bmod (2 ^ 64)
  ∧ Num.bin .long .band (.long a) (.long b) = .ok (.long (a &&& b))
  ∧ Num.bin .long .bor (.long a) (.long b) = .ok (.long (a ||| b))
  ∧ Num.bin .long .bxor (.long a) (.long b) = .ok (.long (a ^^^ b))
  ∧ Num.un .long .bnot (.long a) = .ok (.long (~~~a))
  ∧ (b = 0 → Num.bin .long .div (.long a) (.long b) = .exc 1 ∧ Num.bin .long .mod (.long a) (.long b) = .exc 1)
  ∧ (b ≠ 0 → ¬(a = intMin64 ∧ b = -1) →
      (∃ q, Num.bin .long .div (.long a) (.long b) = .ok (.long q) ∧ q.toInt = a.toInt.tdiv b.toInt) ∧
      (∃ m, Num.bin .long .mod (.long a) (.long b) = .ok (.long m) ∧ m.toInt = a.toInt.tmod b.toInt))
  ∧ Num.bin .long .lt (.long a) (.long b) = .ok (ofBool (decide (a.toInt < b.toInt)))
  ∧ Num.bin .long .gt (.long a) (.long b) = .ok (ofBool (decide (b.toInt < a.toInt)))
  ∧ Num.bin .long .lte (.long a) (.long b) = .ok (ofBool (decide (a.toInt ≤ b.toInt)))
  ∧ Num.bin .long .gte (.long a) (.long b) = .ok (ofBool (decide (b.toInt ≤ a.toInt)))
  ∧ Num.bin .long .eq (.long a) (.long b) = .ok (ofBool (decide (a = b)))
  ∧ Num.bin .long .neq (.long a) (.long b) = .ok (ofBool (decide (a ≠ b)))
  ∧ (0 ≤ b.toInt → b.toInt < 64 →
      Num.bin .long .shl (.long a) (.long b) = .ok (.long (a <<< b.toNat)) ∧
      Num.bin .long .shr (.long a) (.long b) = .ok (.long (a.sshiftRight b.toNat)) ∧
      (a.sshiftRight b.toNat).toInt = a.toInt >>> b.toNat) := by
  refine ⟨rfl, BitVec.toInt_add a b, rfl, BitVec.toInt_sub, rfl, BitVec.toInt_mul a b, rfl, BitVec.toInt_neg, rfl, rfl, rfl, rfl,
    ?_, ?_, rfl, rfl, rfl, rfl, ?_, ?_, ?_⟩
  · intro h; subst h; exact ⟨rfl, rfl⟩
  · intro hb hm
    have hm' : a ≠ BitVec.intMin 64 ∨ b ≠ -1#64 := by
      by_cases ha : a = intMin64
      · right; intro hb'; exact hm ⟨ha, hb'⟩
      · left; intro ha'; apply ha; rw [ha']; rfl
    refine ⟨⟨a.sdiv b, ?_, BitVec.toInt_sdiv_of_ne_or_ne a b hm'⟩, ⟨a.srem b, ?_, BitVec.toInt_srem a b⟩⟩
    · show (if b = 0 then NRes.exc 1 else if a = intMin64 ∧ b = -1 then _ else _) = _
      rw [if_neg hb, if_neg hm]
    · show (if b = 0 then NRes.exc 1 else if a = intMin64 ∧ b = -1 then _ else _) = _
      rw [if_neg hb, if_neg hm]
  · simp [Num.bin, binLong, ofBool]
  · simp [Num.bin, binLong, ofBool]
  · intro h0 h64
    have hc : ¬ (b.toInt < 0 ∨ b.toInt ≥ 64) := by omega
    refine ⟨?_, ?_, BitVec.toInt_sshiftRight⟩
    · simp [Num.bin, binLong, hc]
    · simp [Num.bin, binLong, hc]

/-- int -> long is sign extension (value preserved), long -> int is truncation (value mod 2^32, signed) -/
theorem int_long_conversions (a : BitVec 32) (l : BitVec 64) :
    (∃ v, Num.conv .int .long (.int a) = .ok (.long v) ∧ v.toInt = a.toInt)
  ∧ (∃ v, Num.conv .long .int (.long l) = .ok (.int v) ∧ v.toInt = l.toInt.bmod (2 ^ 32)) := by
  refine ⟨⟨a.signExtend 64, rfl, BitVec.toInt_signExtend_of_le (by decide)⟩, ⟨l.truncate 32, rfl, ?_⟩⟩
  rw [BitVec.truncate_eq_setWidth, BitVec.toInt_setWidth]
  have h := BitVec.toInt_eq_toNat_bmod l
  rw [h]
  exact (Int.bmod_bmod_of_dvd (by decide : (2:Nat) ^ 32 ∣ 2 ^ 64)).symm

/-- the same facts read off the handlers GENERATED from vmexec.c (composition with §1) -/
theorem generated_int_handlers_wrap (r : VmRow) (hr : r ∈ T.vmRows) (a b : BitVec 32) :
    (r.sem = .bin .int .add → r.eval (.int a) (.int b) = .ok (.int (a + b))) ∧
    (r.sem = .bin .int .sub → r.eval (.int a) (.int b) = .ok (.int (a - b))) ∧
    (r.sem = .bin .int .mul → r.eval (.int a) (.int b) = .ok (.int (a * b))) ∧
    (r.sem = .bin .int .div → b = 0 → r.eval (.int a) (.int b) = .exc 1) ∧
    (r.sem = .bin .int .mod → b = 0 → r.eval (.int a) (.int b) = .exc 1) := by
  have h := vm_handlers_eq_model r hr (.int a) (.int b)
  refine ⟨?_, ?_, ?_, ?_, ?_⟩ <;> intro hs <;> rw [h, hs]
  · rfl
  · rfl
  · rfl
  · intro hb; subst hb; rfl
  · intro hb; subst hb; rfl

example : Num.bin .int .add (.int 0x7fffffff#32) (.int 1#32) = .ok (.int 0x80000000#32) := by decide
example : Num.bin .int .div (.int (-7)) (.int 2) = .ok (.int (-3)) := by decide
example : Num.bin .int .mod (.int (-7)) (.int 2) = .ok (.int (-1)) := by decide
example : Num.bin .long .shr (.long (-16)) (.long 2) = .ok (.long (-4)) := by decide

/-! ## 3. promotion: int < long < float < double -/

def numeric : List Comb := [.int, .long, .float, .double]

def join (l r : Comb) : Comb :=
  match l.rank, r.rank with
  | some a, some b => if a ≤ b then r else l
  | _, _ => l

/-- what one cell of the promotion matrix must say -/
def PromotionCellOk (c : Cell) : Bool :=
  c.res == join c.l c.r &&
  (match c.l.rank, c.r.rank with
   | some a, some b =>
     (if a < b then c.convL == some (c.l.repr, (join c.l c.r).repr) && c.convR == none
      else if b < a then c.convR == some (c.r.repr, (join c.l c.r).repr) && c.convL == none
      else c.convL == none && c.convR == none)
   | _, _ => false) && !c.enumL && !c.enumR

/-- a mixed binary operation promotes along int -> long -> float -> double: all 16 cells of
    expr_conv_basic_type exist, the result type is the maximum, the conversion is applied to the lower
    operand only and is the one from its type to the result type; no other cell exists -/
theorem promotion_is_join :
    (∀ l ∈ numeric, ∀ r ∈ numeric, ∃ c, T.basic.find? (fun c => c.l == l && c.r == r) = some c ∧ PromotionCellOk c = true)
  ∧ (∀ c ∈ T.basic, c.l ∈ numeric ∧ c.r ∈ numeric) := by
  decide +kernel

example : (T.basic.find? (fun c => c.l == .float && c.r == .long)).map (fun c => (c.convR, c.res))
    = some (some (.long, .float), .float) := by decide +kernel

/-- conv_to_comb_type: an inserted conversion node carries its target type (this is what the emitter's
    operand-type tests see) -/
theorem conversion_node_type : (T.convComb.all fun p => p.2 == Comb.ofNTy p.1.2) = true ∧ T.convComb.length = 12 := by
  decide +kernel

/-! ## 4. assignment converts the right side to the left side's type -/

def AssCellOk (c : Cell) : Bool :=
  c.res == c.l && c.convL == none &&
  (match c.l.rank, c.r.rank with
   | some a, some b => if a = b then c.convR == none else c.convR == some (c.r.repr, c.l.repr)
   | _, _ => c.convR == none)

def AssignmentConvertsToLeft (cells : List Cell) : Prop :=
  (∀ l ∈ numeric, ∀ r ∈ numeric, ∃ c, cells.find? (fun c => c.l == l && c.r == r) = some c ∧ AssCellOk c = true)
  ∧ (∀ c ∈ cells, AssCellOk c = true)

instance (cells : List Cell) : Decidable (AssignmentConvertsToLeft cells) := by
  unfold AssignmentConvertsToLeft; exact inferInstance

/-- every cell of expr_conv_ass_type except (int, double) -/
theorem assignment_converts_to_left_partial :
    (∀ l ∈ numeric, ∀ r ∈ numeric, (l, r) ≠ (Comb.int, Comb.double) →
        ∃ c, T.ass.find? (fun c => c.l == l && c.r == r) = some c ∧ AssCellOk c = true)
  ∧ (∀ c ∈ T.ass, (c.l, c.r) ≠ (Comb.int, Comb.double) → AssCellOk c = true) := by
  decide +kernel

/-- **all cells** of expr_conv_ass_type: the result type is the left type and the conversion goes right → left
(full strength since the `fix:` commit 8e26181 repaired the (int, double) cell; regenerated from the source on every run) -/
theorem assignment_converts_to_left : AssignmentConvertsToLeft T.ass := by
  decide +kernel

/-- while the pinned cell is in the table, the unrestricted statement is false -/
theorem assignment_converts_to_left_counterexample :
    pinnedAssIntDouble ∈ T.ass → ¬ AssignmentConvertsToLeft T.ass := by
  intro hmem h
  have := h.2 pinnedAssIntDouble hmem
  revert this; decide

/-- consequence at run time (the tag assertion of C01): with the pinned typing rule, `i = d` converts d to
    an int object and then runs OP_ASS_DOUBLE (gc_get_double) on it — for every value of d -/
theorem assignment_int_double_asserts (opc : Nat) (h1 : T.rule .ass .int (some .double) = some (pinnedAssRule opc))
    (ha : T.assOpcodes.find? (fun p => p.1 == opc) = some (opc, "BYTECODE_OP_ASS_DOUBLE", .double, .double))
    (x : BitVec 64) : ∀ w, T.runAss .int .double (.double x) ≠ .ok w := by
  intro w
  unfold Tables.runAss
  rw [h1]
  simp only [pinnedAssRule, Tables.applyConv]
  cases hc : T.convHandler (.double, .int) with
  | none => simp [noOpcode]
  | some h =>
    simp only []
    cases he : h.eval (.double x) (.double x) with
    | ok v' =>
      simp only [ha]
      -- whatever the conversion handler produced, OP_ASS_DOUBLE needs a double object there and an int variable
      cases v' <;> simp [NVal.ty, Comb.repr]
    | exc e => simp
    | crash s => simp
    | tag => simp

/-- all assignment opcodes copy at one type: gc_get_<t> of the value, gc_set_<t> of the variable -/
theorem ass_handlers_same_type : (T.assOpcodes.all fun r => r.2.2.1 == r.2.2.2) = true ∧ T.assOpcodes.length = 5 := by
  decide +kernel

/-- argument / return / typed binding (param_expr_cmp): the expression is converted to the declared type -/
theorem param_converts_to_declared :
    (∀ l ∈ numeric, ∀ r ∈ numeric, ∃ c, T.param.find? (fun c => c.l == l && c.r == r) = some c ∧ AssCellOk c = true)
  ∧ (∀ c ∈ T.param, AssCellOk c = true) := by
  decide +kernel

example : ∃ c ∈ T.ass, c.l = .long ∧ c.r = .double ∧ c.convR = some (.double, .long) := by decide +kernel

/-! ## 5. the emitter selects, for each source operator and operand types, the handler of that operator -/

def srcBin : SrcOp → Option BinOp
  | .add => some .add | .sub => some .sub | .mul => some .mul | .div => some .div | .mod => some .mod
  | .lt => some .lt | .gt => some .gt | .lte => some .lte | .gte => some .gte | .eq => some .eq | .neq => some .neq
  | .bin_and => some .band | .bin_or => some .bor | .bin_xor => some .bxor | .bin_shl => some .shl | .bin_shr => some .shr
  | _ => none
def srcUn : SrcOp → Option UnOp
  | .neg => some .neg | .not => some .not | .bin_not => some .bnot | _ => none

/-- the Never.Num function a source operator must compute when its (converted) operands have representation t -/
def expectedSem (op : SrcOp) (t : NTy) : Option Sem :=
  match srcBin op, srcUn op with
  | some b, _ => some (.bin t b)
  | _, some u => some (.un t u)
  | _, _ => none

/-- rule is fine: it has an opcode whose handler is the operator's own, at the representation type of the
    operands as the emitter sees them (both equal) -/
def RuleOk (T : Tables) (r : Rule) : Bool :=
  if r.op == .and || r.op == .or || r.op == .ass then true else
  (match r.r2 with | some r2 => r.l2.repr == r2.repr | none => true) &&
  (match r.opcode with
   | none => false
   | some (opc, _) => match T.handler opc, expectedSem r.op r.l2.repr with
     | some h, some s => decide (h.sem = s)
     | _, _ => false)

/-- the defects of the pinned emitter: `!=` on two bools selects OP_EQ_INT; comparisons and `%` with an
    ITEM-enum operand are typed by the typechecker but have no clause in expr_<op>_emit -/
def ruleExcused (r : Rule) : Bool :=
  -- (`!=` on two bools was repaired by the `fix:` commit 9db5579 and is no longer excused)
  ((r.l == .enumtype || r.r == some .enumtype) && !(r.op == .eq && r.l == .enumtype && r.r == some .enumtype) &&
    (r.op == .lt || r.op == .gt || r.op == .lte || r.op == .gte || r.op == .eq || r.op == .neq || r.op == .mod))

theorem emitter_selects_operator_handler_partial :
    ∀ r ∈ T.rules, ruleExcused r = false → RuleOk T r = true := by
  decide +kernel

/-- while expr_neq_emit selects OP_EQ_INT for two bools, the unrestricted statement is false -/
theorem emitter_selects_operator_handler_counterexample (opc : Nat) :
    pinnedNeqBoolRule opc ∈ T.rules → (T.handler opc).map (·.sem) = some (.bin .int .eq) →
    ¬ (∀ r ∈ T.rules, RuleOk T r = true) := by
  intro hmem hh hall
  have := hall (pinnedNeqBoolRule opc) hmem
  simp [RuleOk, pinnedNeqBoolRule, expectedSem, srcBin, srcUn, Comb.repr] at this
  cases hx : T.handler opc with
  | none => rw [hx] at hh; simp at hh
  | some h => rw [hx] at hh this; simp at hh this; rw [hh] at this; cases this

example : ∃ r ∈ T.rules, r.op = .add ∧ r.l = .int ∧ r.r = some .double ∧ (r.opcode.map (·.2)) = some "BYTECODE_OP_ADD_DOUBLE" := by
  decide +kernel

/-! ## 6. float and double operations are performed in their own precision -/

/-- every node of the expression is computed at type `t` on operands read at type `t`: no cast at all, so no
    widening to double and no narrowing; comparisons may produce int -/
def ownPrecision (t : NTy) : CExpr → Bool
  | .opA t' => t' == t
  | .opB t' => t' == t
  | .lit t' _ => t' == t
  | .un _ t' e => t' == t && ownPrecision t e
  | .bin _ t' l r => t' == t && ownPrecision t l && ownPrecision t r
  | .cast _ _ _ => false

def isFloatSem : Sem → Option NTy
  | .bin .float _ => some .float
  | .bin .double _ => some .double
  | .un .float _ => some .float
  | .un .double _ => some .double
  | _ => none

theorem float_ops_in_own_precision :
    ∀ r ∈ T.vmRows, ∀ t, isFloatSem r.sem = some t →
      r.getA = t ∧ (r.getB = none ∨ r.getB = some t) ∧ ownPrecision t r.expr = true ∧
      (∀ g, r.guard = some g → ownPrecision t g.1 = true) := by
  decide +kernel

example : ∃ r ∈ T.vmRows, isFloatSem r.sem = some .float ∧ r.expr = .bin .add .float (.opA .float) (.opB .float) := by
  decide +kernel

/-! ## 7. `%d` / `%lld` print the decimal numeral of the signed value -/

open Never.NumFmt in
theorem digitChar_toNat : ∀ d, d < 10 → (digitChar d).toNat = 48 + d := by decide

open Never.NumFmt in
/-- the digit loop produces the decimal digits of `n`: reading them back gives `n` -/
theorem natDigits_value (n : Nat) : (natDigits n).foldl (fun acc c => acc * 10 + (c.toNat - 48)) 0 = n := by
  induction n using Nat.strongRecOn with
  | _ n ih =>
    unfold natDigits
    split
    · rename_i h
      simp [digitChar_toNat n h]
    · rename_i h
      rw [List.foldl_append, ih (n / 10) (by omega)]
      simp [digitChar_toNat (n % 10) (by omega)]
      omega

open Never.NumFmt in
/-- `%d` / `%lld`: an optional minus sign followed by the decimal digits of the absolute value -/
theorem fmt_int (x : Int) :
    fmtInt x = (if x < 0 then "-" else "") ++ String.ofList (natDigits x.natAbs) := by
  cases x with
  | ofNat n =>
    have h : ¬ ((n : Int) < 0) := by omega
    simp [fmtInt, fmtNat, h]
  | negSucc n =>
    have h : (Int.negSucc n) < 0 := Int.negSucc_lt_zero n
    simp [fmtInt, fmtNat, h]

example : NumFmt.fmtInt (-2147483648) = "-2147483648" := by decide +kernel
example : NumFmt.fmtVal (.long 0x8000000000000000#64) = "-9223372036854775808" := by decide +kernel

end Never.C11
