/-
C08 — names resolve lexically and closures keep their captured cells alive.
Property theorems about the reference evaluator S = `Never.Src.eval` (M-Src).
-/
import NeverModel.Lemmas.SrcTop
namespace Never.Src.C08
open Never.Src

variable {ν : Ren}

/-- **eval_alpha.**  The outcome of a program (result value, printed text, unhandled exception,
assert failure) is invariant under every admissible renaming `ν` of its bound names:
global injective renamings (`ν x d = σ x`), removal of all shadowing (`ν x d = x_d`) and de Bruijn
levels (`ν x d = v_d`, under which any two alpha-equivalent programs become the same text) are
instances.  No well-formedness of the program is assumed. -/
theorem eval_alpha (hν : Adm ν) (p : Prog) (args : List Arg) (n : Nat) :
    eval (rnP ν p) args n = eval p args n := by
  simp only [eval, runMain_alpha hν]

/-- two programs with the same de-Bruijn-level form have the same outcome -/
theorem eval_alpha_equiv {ν : Ren} (hν : Adm ν) (p q : Prog) (h : rnP ν p = rnP ν q) (args : List Arg) (n : Nat) :
    eval p args n = eval q args n := by
  rw [← eval_alpha hν p, ← eval_alpha hν q, h]

/-! ### lexical resolution -/

/-- **resolve_innermost.**  A use of `x` under the static binder stack `bs` (innermost first)
resolves to index `i` exactly when `bs[i]` is a binder of `x` and no binder of `x` is nearer;
it is unbound exactly when no binder of that name is in scope.  Other bindings of the same name
(further out, or anywhere else in the program) do not matter. -/
theorem resolve_innermost (x : Name) (bs : List Name) :
    (∀ i, resolveIdx x bs = some i ↔ (bs[i]? = some x ∧ ∀ j, j < i → bs[j]? ≠ some x)) ∧
    (resolveIdx x bs = none ↔ x ∉ bs) :=
  ⟨resolveIdx_spec x bs, resolveIdx_none x bs⟩

/-- the evaluator agrees with the resolver: a use reads the CELL of the binder `resolve` names -/
theorem eval_reads_resolved_binder (n : Nat) (ctx : Ctx) (env : Env) (x : Name) (s : St) (i : Nat) (l : Loc)
    (hr : resolveIdx x (names env) = some i) (hl : (locs env)[i]? = some l) :
    evalE (n + 1) ctx env (.var x) s = .ok l s := by
  have : lookup x env = some l := by rw [lookup_eq_resolve, hr]; exact hl
  simp only [evalE, this]; rfl

/-- **resolution is invariant under renaming**: every use of the renamed program resolves to the
same binder index as the corresponding use of the original -/
theorem resolve_alpha (hν : Adm ν) (p : Prog) :
    (resolve (rnP ν p)).map (·.2) = (resolve p).map (·.2) := by
  have h1 : (rnP ν p).topNames = rnStack ν p.topNames := by
    simp only [Prog.topNames, rnP, funcNames_rnFs]
    have := rnStack_rev_append (ν := ν) (funcNames p.funcs) []
    simp only [List.append_nil, List.length_nil, rnStack] at this
    exact this.symm
  simp only [resolve, h1]
  have hf : (rnP ν p).funcs = rnFs ν p.topNames 0 p.funcs := rfl
  rw [hf, usesFs_rn hν, List.map_map, List.map_map, List.map_map]
  apply List.map_congr_left
  intro u _
  simp only [Function.comp, rnUse, resolveIdx_rn hν]

/-! ### free variables -/

/-- **fv_exact.**  The free-variable list of a function contains exactly the names that occur in
its body or catch clauses — transitively through nested functions — outside the scope of every
binder inside the function (parameters, extent names, the function's own name, `let`/`var`,
nested function names, `for … in`, generators, match bindings); and each of them once. -/
theorem fv_exact (f : Func) : (∀ y, y ∈ fv f ↔ occF y [] f) ∧ (fv f).Nodup := by
  constructor
  · intro y
    have := mem_fvF y [] [] f
    simpa [fv] using this
  · exact nodup_fvF [] [] List.nodup_nil f

/-! ### closures and their cells -/

/-- a closure captures the CELLS of its defining environment (not copies of their contents) -/
theorem closure_captures_cells (n : Nat) (ctx : Ctx) (env : Env) (id : Nat) (ps : List Param) (r : Ty) (body : Expr)
    (cs : List Catch) (s : St) :
    evalE (n + 1) ctx env (.lam (.mk id "" ps r body cs)) s =
      .ok s.mem.size { s with mem := s.mem.push (.clo (some (id, locs env))), clos := id :: s.clos } := by
  simp only [evalE, Func.name, Func.id, bind_eq]
  rfl

/-- when the closure is called, its free names are bound to exactly those cells -/
theorem closure_call_binds_captured_cells (x : Name) (bs : List Name) (cells : List Loc) (i : Nat) (l : Loc)
    (hr : resolveIdx x bs = some i) (hl : cells[i]? = some l) (hlen : bs.length ≤ cells.length) :
    lookup x (mkEnv bs cells) = some l := by
  rw [lookup_eq_resolve, names_mkEnv, hr]
  have : locs (mkEnv bs cells) = cells.take bs.length := by
    clear hr hl
    induction bs generalizing cells with
    | nil => simp [mkEnv, locs]
    | cons b bs ih =>
      cases cells with
      | nil => simp at hlen
      | cons c cells => simp at hlen; simp [mkEnv, ih cells hlen]
  simp only [Option.bind_some, this]
  have hi : i < bs.length := by
    have := (resolveIdx_spec x bs i).mp hr
    by_cases h : i < bs.length
    · exact h
    · have h2 : bs[i]? = none := by simp; omega
      rw [h2] at this
      exact absurd this.1 (by simp)
  rw [List.getElem?_take]
  simp [hi, hl]

/-- **captured cells stay allocated**: no evaluation — whatever its end — removes a cell; so a
function value keeps access to every cell it captured after the defining call has returned
(in S nothing is ever freed; that the real collector agrees is C04) -/
theorem captured_cells_stay_allocated (n : Nat) (ctx : Ctx) (env : Env) (e : Expr) (s : St) (l : Loc)
    (hl : l < s.mem.size) : l < (evalE n ctx env e s).st.mem.size :=
  Nat.lt_of_lt_of_le hl (((presAt n).e ctx env e).h s).mem

theorem call_keeps_cells (n : Nat) (ctx : Ctx) (fid : Nat) (cells as : List Loc) (s : St) (l : Loc)
    (hl : l < s.mem.size) : l < (callClo n ctx fid cells as s).st.mem.size :=
  Nat.lt_of_lt_of_le hl (((presAt n).call ctx fid cells as).h s).mem

/-- **distinct activations, distinct cells**: a cell allocated now differs from every cell that
is allocated after ANY further evaluation (in particular by a later activation of the same
function: each `let`/`var`/parameter conversion/literal gets a fresh cell) -/
theorem closure_cells_distinct (v w : Val) (s s1 s2 s3 : St) (l1 l2 : Loc)
    (h1 : alloc v s = .ok l1 s1) (hlater : Later s1 s2) (h2 : alloc w s2 = .ok l2 s3) : l1 ≠ l2 := by
  simp only [alloc] at h1 h2
  injection h1 with ha hb
  injection h2 with hc hd
  have hm := hlater.mem
  rw [← hb] at hm
  simp only [Array.size_push] at hm
  intro heq
  rw [ha, hc, heq] at hm
  exact absurd hm (Nat.not_succ_le_self l2)

/-- every evaluation leads to a `Later` state (so `closure_cells_distinct` applies across calls) -/
theorem eval_later (n : Nat) (ctx : Ctx) (env : Env) (e : Expr) (s : St) : Later s (evalE n ctx env e s).st :=
  ((presAt n).e ctx env e).h s

/-- **an update through a captured `var` is seen by every holder**: two closures whose
environments contain the same cell `c` (they captured the same variable) both read the value
stored through either of them -/
theorem closure_update_seen_by_all_holders (x y : Name) (bs1 bs2 : List Name) (cells1 cells2 : List Loc)
    (c : Loc) (v : Val) (s s' : St)
    (h1 : lookup x (mkEnv bs1 cells1) = some c) (h2 : lookup y (mkEnv bs2 cells2) = some c)
    (hc : c < s.mem.size) (hs : store c v s = .ok () s') (n : Nat) (ctx : Ctx) :
    (evalE (n + 1) ctx (mkEnv bs1 cells1) (.var x) >>= load) s' = .ok v s' ∧
    (evalE (n + 1) ctx (mkEnv bs2 cells2) (.var y) >>= load) s' = .ok v s' := by
  simp only [store] at hs
  injection hs with _ hs2
  have hm : s'.mem[c]? = some v := by rw [← hs2]; simp [hc]
  constructor <;> simp only [evalE, h1, h2, bind_eq, M.bind, pure, M.pure, load, hm]

/-! ### non-vacuity -/

section Examples

/-- a global swap of the names `a` and `b` -/
def nuSwap : Ren := fun x _ => if x = "a" then "b" else if x = "b" then "a" else x

private def counterProg : Prog :=
  -- func mk() -> () -> int { var c = 0; func inc() -> int { c = c + 1; c }; inc }
  -- func main() -> int { let a = mk(); let b = mk(); print(a()); print(a()); print(b()); print(a()) }
  let inc : Func := .mk 1 "inc" [] .int (.seq [.expr (.assign (.var "c") (.bin .add (.var "c") (.lit (.int 1)))), .expr (.var "c")]) []
  let mkF : Func := .mk 0 "mk" [] .func (.seq [.bind true "c" (.lit (.int 0)), .funcs [inc], .expr (.var "inc")]) []
  let call (f : Name) : Expr := .builtin .print [.call (.var f) []]
  let mainF : Func := .mk 2 "main" [] .int (.seq [.bind false "a" (.call (.var "mk") []), .bind false "b" (.call (.var "mk") []),
    .expr (call "a"), .expr (call "a"), .expr (call "b"), .expr (call "a")]) []
  { recs := [], enums := [], funcs := [mkF, mainF] }

private def outOf : Outcome → Bytes
  | .result _ o | .unhandled _ o | .assertFailed o | .outOfFuel o | .crash _ o | .stuck _ o => o

/-- two activations of `mk` give two counters with distinct cells: prints 1 2 1 3 -/
example : outOf (eval counterProg [] 40) = [49, 13, 10, 50, 13, 10, 49, 13, 10, 51, 13, 10] := by decide +kernel
/-- its level-renamed twin is a different text with the same outcome (by `eval_alpha`, and here by evaluation) -/
example : outOf (eval (rnP nuLevel counterProg) [] 40) = [49, 13, 10, 50, 13, 10, 49, 13, 10, 51, 13, 10] := by decide +kernel
example : eval (rnP nuLevel counterProg) [] 40 = eval counterProg [] 40 := eval_alpha nuLevel_adm _ _ _

private def shadowProg : Prog :=
  -- func main() -> int { let x = 1; { let x = 2; print(x) }; print(x) }
  { recs := [], enums := [], funcs := [.mk 0 "main" [] .int (.seq [.bind false "x" (.lit (.int 1)),
      .expr (.seq [.bind false "x" (.lit (.int 2)), .expr (.builtin .print [.var "x"])]),
      .expr (.builtin .print [.var "x"])]) []] }

example : outOf (eval shadowProg [] 30) = [50, 13, 10, 49, 13, 10] := by decide +kernel
/-- resolution of `shadowProg`: the inner use refers to the inner binder (index 0), the outer use to the outer one (index 0 again, the inner binder being out of scope) -/
example : (resolve shadowProg).map (·.2) = [some 0, some 0] := by decide +kernel
example : fv (.mk 1 "inc" [] .int (.seq [.expr (.assign (.var "c") (.bin .add (.var "c") (.lit (.int 1)))), .expr (.var "c")]) []) = ["c"] := by decide +kernel

end Examples

end Never.Src.C08
