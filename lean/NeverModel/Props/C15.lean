import NeverModel.Lemmas.Frame
import NeverModel.Model.CompileState
/-!
# C15 — the embedding API is repeatable, isolated and deterministic (VM side)

Model: `NeverModel/Model/Vm.lean` (`markP`, `retP`, `beginExecute`), tied by lockstep traces
including repeated `nev_execute` calls on one VM (checks/c15.py).
The frame discipline theorem below is the core of "each call uses no more VM stack than the
first": a call frame built by MARK and popped by RET restores `fp`, `pp`, `gp` exactly and
leaves precisely ONE slot (the result).  The entry stub of every module is
`MARK; PUSH_PARAM; GLOBAL_VEC 0; ID_FUNC_ENTRY; CALL; HALT`; on the pinned tree every `nev_execute`
therefore returned with `sp = sp_before + 1` (`execute_leaves_result_slot_pinned`).  A `fix:` commit
pops the result slot at VM_HALT; `execute_restores_sp` is now proved at full strength.
-/
namespace Never.C15
open Never Never.Vm

/-- a frame built by MARK at stack height `sp0` and popped by RET — whatever happened in between,
as long as the five frame words are intact — restores fp, pp, gp, continues at the MARK's return
address and leaves the callee's result in slot `sp0 + 1` -/
theorem mark_ret_roundtrip (vm0 vm1 vm2 : Vm) (retAddr : Nat)
    (hs0 : StackOk vm0) (h0 : -1 ≤ vm0.sp) (h1 : vm0.sp + 5 < vm0.stackSize)
    (hm : markP vm0 retAddr = .ok vm1)
    (hs2 : StackOk vm2) (hsz : vm2.stackSize = vm0.stackSize) (hfp : vm2.fp = vm0.sp + 5)
    (hframe : ∀ k : Int, 1 ≤ k → k ≤ 5 → slot vm2 (vm0.sp + k) = slot vm1 (vm0.sp + k))
    (hsp0 : 0 ≤ vm2.sp) (hsp : vm2.sp < vm2.stackSize) :
    ∃ vm3, retP vm2 = .ok vm3 ∧ vm3.sp = vm0.sp + 1 ∧ vm3.fp = vm0.fp ∧ vm3.pp = vm0.pp ∧ vm3.gp = vm0.gp ∧
      vm3.ip = retAddr ∧ slot vm3 (vm0.sp + 1) = slot vm2 vm2.sp ∧ (∀ j, j ≤ vm0.sp → slot vm3 j = slot vm2 j) := by
  obtain ⟨vm1', hm', mp⟩ := markP_spec vm0 retAddr hs0 h0 h1
  rw [hm] at hm'; cases hm'
  obtain ⟨vm3, hr, rp⟩ := retP_spec vm2 hs2 (by omega) (by rw [hfp, hsz]; exact h1) hsp0 hsp
  refine ⟨vm3, hr, ?_, ?_, ?_, ?_, ?_, ?_, ?_⟩
  · rw [rp.sp, hfp]; omega
  · rw [rp.fp, hfp]
    have : vm0.sp + 5 - 1 = vm0.sp + 4 := by omega
    rw [this, hframe 4 (by omega) (by omega), mp.w4]; rfl
  · rw [rp.pp, hfp]
    have : vm0.sp + 5 - 4 = vm0.sp + 1 := by omega
    rw [this, hframe 1 (by omega) (by omega), mp.w1]; rfl
  · rw [rp.gp, hfp]
    have : vm0.sp + 5 - 2 = vm0.sp + 3 := by omega
    rw [this, hframe 3 (by omega) (by omega), mp.w3]; rfl
  · rw [rp.ip, hfp, hframe 5 (by omega) (by omega), mp.w5]; rfl
  · have : vm0.sp + 1 = vm2.fp - 4 := by rw [hfp]; omega
    rw [this]; exact rp.res
  · intro j hj
    exact rp.other j (by rw [hfp]; omega)

/-- **each `nev_execute` uses no VM stack beyond the call**: the entry stub's frame (MARK at `sp_before` … RET)
nets one slot — the result — and the HALT epilogue pops it after copying the result out: `sp_after = sp_before`,
for every program (full strength since the `fix:` commit 2088ed3) -/
theorem execute_restores_sp (vm0 vm1 vm2 : Vm) (retAddr : Nat)
    (hs0 : StackOk vm0) (h0 : -1 ≤ vm0.sp) (h1 : vm0.sp + 5 < vm0.stackSize)
    (hm : markP vm0 retAddr = .ok vm1)
    (hs2 : StackOk vm2) (hsz : vm2.stackSize = vm0.stackSize) (hfp : vm2.fp = vm0.sp + 5)
    (hframe : ∀ k : Int, 1 ≤ k → k ≤ 5 → slot vm2 (vm0.sp + k) = slot vm1 (vm0.sp + k))
    (hsp0 : 0 ≤ vm2.sp) (hsp : vm2.sp < vm2.stackSize) :
    ∃ vm3, retP vm2 = .ok vm3 ∧ (haltEpilogue { vm3 with running := 0 }).sp = vm0.sp ∧
      (haltEpilogue { vm3 with running := 0 }).fp = vm0.fp ∧ (haltEpilogue { vm3 with running := 0 }).pp = vm0.pp := by
  obtain ⟨vm3, hr, hsp3, hfp3, hpp3, _⟩ := mark_ret_roundtrip vm0 vm1 vm2 retAddr hs0 h0 h1 hm hs2 hsz hfp hframe hsp0 hsp
  refine ⟨vm3, hr, ?_, ?_, ?_⟩
  · simp [haltEpilogue, hsp3]
  · simp [haltEpilogue, hfp3]
  · simp [haltEpilogue, hpp3]

/-- the defect that was repaired: without the pop every call left its result slot behind,
`sp_after = sp_before + 1` for every program (recorded as `fixed:`; checks/c15.py reports it again if it returns) -/
theorem execute_leaves_result_slot_pinned (vm0 vm1 vm2 : Vm) (retAddr : Nat)
    (hs0 : StackOk vm0) (h0 : -1 ≤ vm0.sp) (h1 : vm0.sp + 5 < vm0.stackSize)
    (hm : markP vm0 retAddr = .ok vm1)
    (hs2 : StackOk vm2) (hsz : vm2.stackSize = vm0.stackSize) (hfp : vm2.fp = vm0.sp + 5)
    (hframe : ∀ k : Int, 1 ≤ k → k ≤ 5 → slot vm2 (vm0.sp + k) = slot vm1 (vm0.sp + k))
    (hsp0 : 0 ≤ vm2.sp) (hsp : vm2.sp < vm2.stackSize) :
    ∃ vm3, retP vm2 = .ok vm3 ∧ vm3.sp ≠ vm0.sp ∧ vm3.sp = vm0.sp + 1 := by
  obtain ⟨vm3, hr, hsp3, _⟩ := mark_ret_roundtrip vm0 vm1 vm2 retAddr hs0 h0 h1 hm hs2 hsz hfp hframe hsp0 hsp
  exact ⟨vm3, hr, by omega, hsp3⟩

/-- **a call that fails uses no VM stack either**: on a machine that was already initialised, whatever the failing call left
behind, `nev_execute` returns with `sp_after = sp_before` and the frame registers as the run left them (since the `fix:` commit
dd988fe) -/
theorem failed_execute_restores_sp (sp0 : Int) (vm : Vm) (hfail : vm.running ≠ 0) :
    (failEpilogue true sp0 vm).sp = sp0 ∧ (failEpilogue true sp0 vm).fp = vm.fp ∧ (failEpilogue true sp0 vm).pp = vm.pp ∧
    (failEpilogue true sp0 vm).gc = vm.gc ∧ (failEpilogue true sp0 vm).running = vm.running := by
  have : (vm.running != 0) = true := by simpa using hfail
  simp [failEpilogue, this]

/-- a successful call is not touched by that epilogue -/
theorem fail_epilogue_only_on_failure (w : Bool) (sp0 : Int) (vm : Vm) (h : vm.running = 0) : failEpilogue w sp0 vm = vm := by
  simp [failEpilogue, h]

/-- the defect that was repaired: an exception that leaves the callee through RETHROW returns into the entry stub exactly like
RET — one slot above `sp_before` — and the stub's handler (UNHANDLED_EXCEPTION) stops the machine there: every failed call
left `sp_after = sp_before + 1` (found by an independent reviewer's driver; checks/c15.py now demands `sp_after = sp_before`
of every call after the first, failed or not) -/
theorem failed_execute_leaked_slot_pinned (vm0 vm1 vm2 : Vm) (retAddr : Nat)
    (hs0 : StackOk vm0) (h0 : -1 ≤ vm0.sp) (h1 : vm0.sp + 5 < vm0.stackSize)
    (hm : markP vm0 retAddr = .ok vm1)
    (hs2 : StackOk vm2) (hsz : vm2.stackSize = vm0.stackSize) (hfp : vm2.fp = vm0.sp + 5)
    (hframe : ∀ k : Int, 1 ≤ k → k ≤ 5 → slot vm2 (vm0.sp + k) = slot vm1 (vm0.sp + k))
    (hsp0 : 0 ≤ vm2.sp) (hsp : vm2.sp < vm2.stackSize) :
    ∃ vm3, retP vm2 = .ok vm3 ∧ (failEpilogue false vm0.sp { vm3 with running := 3 }).sp = vm0.sp + 1 := by
  obtain ⟨vm3, hr, hsp3, _⟩ := mark_ret_roundtrip vm0 vm1 vm2 retAddr hs0 h0 h1 hm hs2 hsz hfp hframe hsp0 hsp
  exact ⟨vm3, hr, by simp [failEpilogue, hsp3]⟩

/-- first `nev_execute` starts at 0 (global initialisation), every later one at the entry stub -/
theorem first_execute_initialises_once (md : Module) (vm : Vm) :
    (vm.initialized = false → (beginExecute md vm).ip = 0 ∧ (beginExecute md vm).initialized = true) ∧
    (vm.initialized = true → (beginExecute md vm).ip = md.codeEntry ∧ (beginExecute md vm).initialized = true) ∧
    (beginExecute md vm).sp = vm.sp ∧ (beginExecute md vm).stack = vm.stack ∧ (beginExecute md vm).gc = vm.gc := by
  unfold beginExecute
  cases h : vm.initialized <;> simp [h]

/-- non-vacuity: a concrete machine meeting the hypotheses of the round trip -/
example : ∃ vm1, markP (Vm.new 10 16) 7 = .ok vm1 ∧ StackOk (Vm.new 10 16) ∧ (Vm.new 10 16).sp + 5 < (Vm.new 10 16).stackSize :=
  (markP_spec (Vm.new 10 16) 7 (by simp [StackOk, Vm.new]) (by decide) (by decide)).imp fun _ h => ⟨h.1, by simp [StackOk, Vm.new], by decide⟩

/-! ### any history of calls -/

/-- one `nev_execute` on an initialised machine, as the VM model performs it: the entry stub's MARK at the height the
call found, any run that leaves the five frame words intact and ends in the stub's RET and HALT (`ok`), or any run that
stops the machine with an unhandled exception or an error (`fail`) -/
inductive Call : Vm → Vm → Prop
  | ok (vm0 vm1 vm2 vm3 : Vm) (retAddr : Nat)
      (hs0 : StackOk vm0) (h0 : -1 ≤ vm0.sp) (h1 : vm0.sp + 5 < vm0.stackSize)
      (hm : markP vm0 retAddr = .ok vm1)
      (hs2 : StackOk vm2) (hsz : vm2.stackSize = vm0.stackSize) (hfp : vm2.fp = vm0.sp + 5)
      (hframe : ∀ k : Int, 1 ≤ k → k ≤ 5 → slot vm2 (vm0.sp + k) = slot vm1 (vm0.sp + k))
      (hsp0 : 0 ≤ vm2.sp) (hsp : vm2.sp < vm2.stackSize) (hr : retP vm2 = .ok vm3) :
      Call vm0 (haltEpilogue { vm3 with running := 0 })
  | fail (vm0 vm : Vm) (hfail : vm.running ≠ 0) : Call vm0 (failEpilogue true vm0.sp vm)

/-- a finite sequence of calls on one machine, successful and failing in any mix -/
inductive History : Vm → Vm → Prop
  | nil (vm : Vm) : History vm vm
  | cons {a b c : Vm} : Call a b → History b c → History a c

theorem call_restores_sp {a b : Vm} (h : Call a b) : b.sp = a.sp := by
  cases h with
  | ok vm1 vm2 vm3 retAddr hs0 h0 h1 hm hs2 hsz hfp hframe hsp0 hsp hr =>
    obtain ⟨vm3', hr', hsp', _⟩ := execute_restores_sp a vm1 vm2 retAddr hs0 h0 h1 hm hs2 hsz hfp hframe hsp0 hsp
    rw [hr] at hr'; cases hr'; exact hsp'
  | fail vm hfail => exact (failed_execute_restores_sp a.sp vm hfail).1

/-- **the N-th call uses no more VM stack than the first**: after any finite history of calls — successful, failing, in
any order, of any entry points — the next call starts at the stack height the first one started at -/
theorem history_restores_sp {a c : Vm} (h : History a c) : c.sp = a.sp := by
  induction h with
  | nil => rfl
  | cons hc _ ih => rw [ih, call_restores_sp hc]

/-- and the preparation of the next call (`beginExecute`) keeps it there -/
theorem history_then_begin_restores_sp (md : Module) {a c : Vm} (h : History a c) : (beginExecute md c).sp = a.sp := by
  rw [(first_execute_initialises_once md c).2.2.1, history_restores_sp h]

/-- non-vacuity: a failing call followed by another failing call is a history on a concrete machine -/
example : History (Vm.new 10 16) (failEpilogue true (Vm.new 10 16).sp { Vm.new 10 16 with running := 3 }) :=
  .cons (.fail _ { Vm.new 10 16 with running := 3 } (by decide)) (.nil _)

/-- non-vacuity of `Call.ok`: on a fresh machine the entry stub's MARK followed at once by RET and HALT is a
successful call, and the one-call history built from it ends at the height it started at -/
example : ∃ b, Call (Vm.new 10 16) b ∧ History (Vm.new 10 16) b ∧ b.sp = (Vm.new 10 16).sp := by
  have hs0 : StackOk (Vm.new 10 16) := by simp [StackOk, Vm.new]
  have h0 : -1 ≤ (Vm.new 10 16).sp := by decide
  have h1 : (Vm.new 10 16).sp + 5 < (Vm.new 10 16).stackSize := by decide
  obtain ⟨vm1, hm, mp⟩ := markP_spec (Vm.new 10 16) 7 hs0 h0 h1
  have hsp0 : 0 ≤ vm1.sp := by rw [mp.sp]; omega
  have hsp : vm1.sp < vm1.stackSize := by rw [mp.sp, mp.size]; exact h1
  obtain ⟨vm3, hr, _⟩ := mark_ret_roundtrip (Vm.new 10 16) vm1 vm1 7 hs0 h0 h1 hm mp.ok mp.size mp.fp
    (fun _ _ _ => rfl) hsp0 hsp
  have hc := Call.ok (Vm.new 10 16) vm1 vm1 vm3 7 hs0 h0 h1 hm mp.ok mp.size mp.fp (fun _ _ _ => rfl) hsp0 hsp hr
  exact ⟨_, hc, .cons hc (.nil _), call_restores_sp hc⟩

/-! ### compile side: no state survives from one compilation into the next -/

/-- the translator recognised every shape it met -/
theorem globals_translated : Never.Gen.Globals.problems = [] := by decide +kernel

/-- **Every variable with static storage duration in front/ and back/ (as regenerated from the current tree, generated
parser and scanner included) is const, or is listed in `CompileState.table` with a discipline whose side condition holds
against the regenerated writers and call graph**: never written / assigned by a resetting function that is on the compile
path / lexer scratch re-established by a reachable function / only meaningful below a reset index / not on the compile
path at all.  Hence a compilation starts from the same static state whatever was compiled before (`compile_is_history_free`
in DESIGN.md §3 C15 is this table + the differential run; the semantic step "reset before use" is by inspection of the
listed functions and is part of the trusted base). -/
theorem compile_state_accounted : Never.Gen.Globals.vars.all Never.CompileState.accounted = true := by decide +kernel

/-- not vacuous: the tree has mutable static state, and the table distinguishes it -/
example : (Never.Gen.Globals.vars.filter fun v => !v.isConst).length ≥ 30 := by decide +kernel
example : Never.CompileState.accounted { file := "front/typecheck.c", name := "expr_check.cache", ctype := "int", isConst := false, owner := "expr_check", writers := ["expr_check"] } = false := by decide +kernel

end Never.C15
