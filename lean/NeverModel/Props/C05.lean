import NeverModel.Lemmas.Diag
/-!
# C05 — the compiler is total: any input is accepted or diagnosed, never crashes

No executable model short of the flex automaton, the LALR automaton and every semantic action can
carry "for all byte strings … never touches invalid memory".  What *is* logic is modelled
(`Model/Diag.lean`) and proved here; the rest is hunted by the correspondence stream
(`checks/cc_corr.py`, `harness/h_cc.c`) and is testing.  The headline claim is therefore PARTIAL.

Three mechanisms:
1. `print_msg` (back/utils.c): writes into `char msg_buf[1024]`, growth of the message array;
2. the scanner's `use` stack (front/scanner.l) and module table;
3. the stage pipeline of `nev_compile` (back/nev.c): return value versus diagnostics.

Property theorems only; proofs in `Lemmas/Diag.lean`.
-/
namespace Never.C05
open Never.Diag

/-! ## 1. the diagnostic buffer

`M` is `MAX_MSG_SIZE` (1024 on the pinned tree), kept a parameter so that a change of the constant
does not invalidate the theorems; the check extracts today's value and shape from `utils.c`. -/

/-- **Full strength**, for the shape a repair has to have (`msg_len` clamped to what `snprintf`
really left in the buffer, remaining size passed on): for *every* buffer size, file-name length,
line number, type word and message length all writes stay inside `msg_buf`. -/
theorem diag_buffer_in_bounds (M : Nat) (hM : 0 < M) (F : Nat) (line : Int) (T L : Nat) :
    inBounds M (printMsgWrites M .clamped F line T L) = true := by
  simp only [printMsgWrites, inBounds_append, prefix_write_inBounds M _ hM, clamped_inBounds M _ _ hM,
    Bool.and_self]

/-- **Pinned text** (`vsnprintf(msg_buf + msg_len, MAX_MSG_SIZE, …)`): in bounds exactly when the
prefix plus the (truncated) message fit.  This is the hypothesis the full statement needs. -/
theorem diag_buffer_in_bounds_partial (M : Nat) (hM : 0 < M) (F : Nat) (line : Int) (T L : Nat) :
    inBounds M (printMsgWrites M .full F line T L) = true
      ↔ prefixLen F line T + min L (M - 1) < M := by
  simp only [printMsgWrites, inBounds_append, prefix_write_inBounds M _ hM, Bool.true_and]
  exact full_inBounds_iff M _ L hM

/-- witness on the pinned constants: `<stdin>:1: error: cannot find identifier aaa…a` with a
1100-character identifier (file name 7, `error` 5, message 23 + 1100) writes up to offset 1041 of
the 1024-byte buffer -/
theorem diag_buffer_in_bounds_counterexample :
    inBounds MAX_MSG_SIZE (printMsgWrites MAX_MSG_SIZE .full 7 1 5 (23 + 1100)) = false ∧
    printMsgWrites MAX_MSG_SIZE .full 7 1 5 (23 + 1100) = [⟨0, 18⟩, ⟨18, 1041⟩] := by
  constructor <;> decide

/-- the shortest overflowing identifier in that message is 983 characters long -/
theorem diag_buffer_threshold :
    inBounds MAX_MSG_SIZE (printMsgWrites MAX_MSG_SIZE .full 7 1 5 (23 + 982)) = true ∧
    inBounds MAX_MSG_SIZE (printMsgWrites MAX_MSG_SIZE .full 7 1 5 (23 + 983)) = false := by
  constructor <;> decide

/-- the one-token repair `MAX_MSG_SIZE - msg_len` is in bounds exactly when the *prefix* fits:
a file name of about 1000 characters (legal for `nev_compile_file`) still overflows, because
`snprintf` returns the untruncated length and the subtraction wraps -/
theorem diag_buffer_remaining_iff (M : Nat) (hM : 0 < M) (hM2 : M < 4294967296)
    (F : Nat) (line : Int) (T L : Nat) (hp : prefixLen F line T < 4294967296) :
    inBounds M (printMsgWrites M .remaining F line T L) = true ↔ prefixLen F line T ≤ M := by
  simp only [printMsgWrites, inBounds_append, prefix_write_inBounds M _ hM, Bool.true_and]
  exact remaining_inBounds_iff M _ L hM hM2 hp

theorem diag_buffer_remaining_counterexample :
    inBounds MAX_MSG_SIZE (printMsgWrites MAX_MSG_SIZE .remaining 1100 1 5 0) = false := by decide

/-- the message array: starting from `program_new` (`count = size = 0`), after any number of
messages the slot written by the next `print_msg` is below the capacity it has just ensured
(growth by `g > 0`, 10 on the pinned tree, whenever `count >= size`) -/
theorem msg_array_in_bounds (g : Nat) (hg : 0 < g) (k : Nat) :
    let a := MsgArr.pushN g k MsgArr.init
    a.count ≤ a.size ∧ (a.push g).2.1 < (a.push g).2.2 := by
  intro a
  have h := MsgArr.pushN_inv g hg k MsgArr.init (Nat.le_refl 0)
  exact ⟨h, (MsgArr.push_inv g hg a h).2⟩

example : inBounds MAX_MSG_SIZE (printMsgWrites MAX_MSG_SIZE .clamped 1100 1 5 5000) = true := by decide
example : (MsgArr.pushN MSG_ARRAY_GROW 25 MsgArr.init) = ⟨25, 30⟩ := by decide

/-! ## 2. the `use` stack

`lim` is the bound in the `<USE>` rule's guard (`use_stack_ptr >= lim` refuses), `dim` the dimension
of `use_stack[]`; both are `MAX_USE_DEPTH` = 16 on the pinned tree.  The theorems need `lim ≤ dim`;
the check extracts both (and the comparison operator) from `scanner.l`. -/

/-- Over **any** event sequence (`use` of an existing / missing / already known module, end of
file), from `scan_string` or `scan_file`:
* `use_stack_ptr` never exceeds the guard's bound (hence the array's dimension);
* no module name is opened (hence parsed) twice;
* unless a `<USE>` rule runs after the final `<<EOF>>` (impossible: the input is exhausted), every
  index used on `use_stack[]` lies in `[0, dim)`;
* if the lexer is not entered at all after it returned `YYEOF`, `use_stack_ptr ≥ -1` and flex never
  refills a buffer through the closed `yyin`. -/
theorem use_stack_bounded (lim dim : Nat) (hld : lim ≤ dim) (mainFile : Option String) (evs : List Ev) :
    let s := run lim (St.init mainFile) evs
    s.ptr ≤ (lim : Int) ∧ s.opens.Nodup ∧
    (s.useAfterEof = false → ∀ i ∈ s.acc, 0 ≤ i ∧ i < (dim : Int)) ∧
    (s.calledAfterEof = false → -1 ≤ s.ptr ∧ s.nullRead = false) := by
  intro s
  have hI : Inv lim dim s := Inv.run lim dim hld _ evs (Inv.init lim dim mainFile)
  exact ⟨hI.ptr_le, hI.opens_nodup, hI.acc_ok, fun hc => ⟨hI.lower hc, hI.noread hc⟩⟩

/-- Every push is matched by exactly one pop (`<<EOF>>`) or one iteration of `scanner_destroy`;
after `scanner_destroy` every `FILE *` and every flex buffer created during the session has been
released **exactly once** (no leak, no double `fclose`/`yy_delete_buffer`), whatever the events
(also when scanning stopped early: unterminated string, `yyterminate()` inside a module);
all slots touched are valid and `use_stack_ptr` ends negative (at `-1` or `-2` when the lexer was
not re-entered after `YYEOF`). -/
theorem use_stack_balanced (lim dim : Nat) (hld : lim ≤ dim) (mainFile : Option String) (evs : List Ev) :
    let s := session lim mainFile evs
    s.npush = s.npop + s.ndestroy ∧
    (∀ h, s.released.count h = if h < s.fresh then 1 else 0) ∧
    ((run lim (St.init mainFile) evs).useAfterEof = false → ∀ i ∈ s.acc, 0 ≤ i ∧ i < (dim : Int)) ∧
    s.ptr ≤ -1 ∧
    ((run lim (St.init mainFile) evs).calledAfterEof = false → -2 ≤ s.ptr) := by
  intro s
  have h := session_spec lim dim hld mainFile evs
  exact ⟨h.1, h.2.2.1, h.2.2.2.1, h.2.2.2.2.1, h.2.2.2.2.2⟩

/-- **Pinned tree, found through the protocol hypothesis above.**  The recovery rule
`func: TOK_FUNC TOK_ID error { … yyclearin; yyerrok; }` discards the look-ahead; when that
look-ahead is `YYEOF` (source ending right after `func name`) bison calls the lexer again.
In string mode that is harmless (`use_stack_ptr` sinks to `-2`, `-3` after destroy); in file mode
flex refills the restarted buffer through `yyin`, which the `<<EOF>>` rule has closed and set to
NULL: `fread(…, NULL)` — the compiler dies with SIGSEGV on a file containing `func out`. -/
theorem lexer_reentry_after_eof_counterexample :
    (run MAX_USE_DEPTH (St.init (some "x.nev")) [.eof, .eof]).nullRead = true ∧
    (run MAX_USE_DEPTH (St.init none) [.eof, .eof]).nullRead = false ∧
    (session MAX_USE_DEPTH none [.eof, .eof]).ptr = -3 := by
  refine ⟨?_, ?_, ?_⟩ <;> decide

/-- the guard is necessary and tight: with a bound one larger than the array (`>` instead of
`>=`), a chain of 17 nested modules writes `use_stack[16]` -/
def nest (k : Nat) : List Ev := (List.range k).map (fun i => Ev.use (toString i) true)
theorem use_stack_guard_off_by_one_counterexample :
    (16 : Int) ∈ (run (MAX_USE_DEPTH + 1) (St.init none) (nest 17)).acc := by decide +kernel

/-- why the hypothesis on `use` is needed: the guard protects the array from above only; a `use`
scanned after the final `<<EOF>>` would index `use_stack[-1]` -/
theorem use_stack_lower_bound_needs_protocol :
    (run MAX_USE_DEPTH (St.init none) [.eof, .use "m" true]).acc = [-1] ∧
    (run MAX_USE_DEPTH (St.init none) [.eof, .use "m" true]).useAfterEof = true := by
  constructor <;> decide

/-- `[-1, MAX]` is not the range after `scanner_destroy`: end of input followed by the destroy
loop's own `--use_stack_ptr` leaves `-2` (harmless: no slot is touched; observed on the binary) -/
theorem use_stack_ptr_minus_two : (session MAX_USE_DEPTH none [.eof]).ptr = -2 := by decide

/-- the 17th nested `use` is refused with a diagnostic and touches nothing -/
example : (run MAX_USE_DEPTH (St.init none) (nest 17)).ptr = 16 ∧
    (run MAX_USE_DEPTH (St.init none) (nest 17)).errs = 1 ∧
    (run MAX_USE_DEPTH (St.init none) (nest 17)).acc = (List.range 16).map Int.ofNat := by decide +kernel
example : (session MAX_USE_DEPTH (some "a.nev")
    [.use "m" true, .use "m" true, .use "x" false, .eof, .eof]).released = [2, 3, 1, 0] := by decide +kernel

/-! ## 3. return value versus diagnostics -/

/-- If every stage that ran obeys "reports an error ⇒ returns non-zero" and "returns non-zero ⇒
has reported an error" (the per-stage contract — an explicit hypothesis, observed by the
correspondence), then compilation returns 0 exactly when no `error:` line was emitted. -/
theorem status_reflects_diagnostics (stages : List StageOut)
    (hs : ∀ s ∈ ran stages, s.sound) (hc : ∀ s ∈ ran stages, s.complete) :
    (pipeline stages).2 = 0 ↔ (pipeline stages).1 = 0 := by
  constructor
  · exact pipeline_sound stages hs
  · intro h0
    by_cases h : (pipeline stages).2 = 0
    · exact h
    · have := pipeline_complete stages hc h; omega

/-- the two directions separately (each needs only its own half of the contract) -/
theorem status_zero_implies_no_error (stages : List StageOut) (hs : ∀ s ∈ ran stages, s.sound) :
    (pipeline stages).2 = 0 → (pipeline stages).1 = 0 := pipeline_sound stages hs

theorem status_nonzero_implies_error (stages : List StageOut) (hc : ∀ s ∈ ran stages, s.complete) :
    (pipeline stages).2 ≠ 0 → (pipeline stages).1 > 0 := pipeline_complete stages hc

/-- the parse stage obeys the contract exactly when every lexer-side diagnostic is followed by a
`yyerror`: lexer rules print through `print_error_msg` but never touch `parse_result` -/
theorem parse_stage_contract (lexErrs yyErrs recov : Nat) :
    (parseStage lexErrs yyErrs recov).sound ↔ (lexErrs > 0 ∨ recov > 0 → yyErrs > 0) := by
  unfold StageOut.sound parseStage
  constructor
  · intro h hl
    by_cases hy : yyErrs > 0
    · exact hy
    · have := h (by show lexErrs + yyErrs + recov > 0; omega)
      simp [hy] at this
  · intro h he
    have he' : lexErrs + yyErrs + recov > 0 := he
    have : yyErrs > 0 := by
      by_cases hy : yyErrs > 0
      · exact hy
      · exact h (by omega)
    simp [this]

/-- pinned tree: `use nosuchmodule` — the `<USE>` rule prints `cannot open module`, returns an
ordinary token, parsing and all later stages succeed: one `error:` line, return value 0 -/
theorem status_reflects_diagnostics_counterexample :
    pipeline [⟨0, 0⟩, parseStage 1 0 0, ⟨0, 0⟩, ⟨0, 0⟩, ⟨0, 0⟩, ⟨0, 0⟩] = (1, 0) ∧
    ¬ (parseStage 1 0 0).sound := by
  constructor <;> decide

example : pipeline [⟨0, 0⟩, parseStage 0 2 1, ⟨5, 1⟩] = (3, 1) := by decide
example : (∀ s ∈ ran [⟨0, 0⟩, parseStage 0 0 0, ⟨2, 1⟩, ⟨7, 0⟩], s.sound) := by decide

end Never.C05
