import NeverModel.Props.C09
import NeverModel.Model.Vm
/-!
# C04 — garbage collection never disturbs a running program

Heap level (all heaps, all root sets, all histories): a collection keeps every cell
reachable from the roots allocated with bit-identical payload and unchanged outgoing
references, leaves no mark behind and never fails on a consistent heap.
VM level: `gcRun` (the model of the `gc_run` call in SLIDE / RET) changes nothing of the
machine but the heap, and only through `Gc.collect`/`Gc.run`.
The VM-level statement of the property (independence of result/output/exception from the
schedule) is checked by running every program under many schedules on both the real VM and
this model in lockstep (checks/c04.py); `roots_complete_at_safe_points` is not proved.
-/
namespace Never.C04
open Never Mem

/-- an object the program can still reach is never reclaimed or altered by a collection -/
theorem collect_preserves_reachable {g g' : Gc} {st : List Slot} {gp : Nat} (inv : Inv g)
    (wt : g.wellTyped (.collect st gp) = true) (h : g.collect st gp = some g') :
    ∀ x, Live g.mem (allRoots st gp) x →
      objAt g'.mem x = objAt g.mem x ∧ (objAt g'.mem x).isSome = true ∧ marked g'.mem x = false := by
  intro x hx
  obtain ⟨i2, e2, k2, _⟩ := C09.collect_exact inv wt h
  obtain ⟨fl, il⟩ := i2
  exact ⟨k2 x hx, (e2 x).mpr hx, il.unmarked x⟩

/-- the references held by a surviving cell still point at surviving cells with the same contents
(so the whole reachable graph is preserved, not only its nodes) -/
theorem collect_preserves_edges {g g' : Gc} {st : List Slot} {gp : Nat} (inv : Inv g)
    (wt : g.wellTyped (.collect st gp) = true) (h : g.collect st gp = some g')
    {x r : Nat} {o : Obj} (hx : Live g.mem (allRoots st gp) x) (ho : objAt g.mem x = some o)
    (hr : r ∈ o.refs) (hr0 : r ≠ 0) (hro : (objAt g.mem r).isSome = true) :
    objAt g'.mem r = objAt g.mem r := by
  obtain ⟨_, _, k2, _⟩ := C09.collect_exact inv wt h
  apply k2
  obtain ⟨hx0, hxo, root, hroot, p⟩ := hx
  exact ⟨hr0, hro, root, hroot, Path.tail p ⟨o, ho, hr⟩⟩

/-- the collection called from the VM (SLIDE / RET) touches nothing but the heap, and the new
heap is the result of `Gc.collect` / `Gc.run` on the stack `[0..sp]` and `gp` (or the old heap) -/
theorem collect_leaves_registers (vm vm' : Vm.Vm) (h : Vm.gcRunPure vm = .ok vm') :
    vm'.sp = vm.sp ∧ vm'.fp = vm.fp ∧ vm'.pp = vm.pp ∧ vm'.gp = vm.gp ∧ vm'.ip = vm.ip ∧
    vm'.stack = vm.stack ∧ vm'.running = vm.running ∧ vm'.exception = vm.exception ∧ vm'.out = vm.out ∧
    (vm'.gc = vm.gc ∨
      vm.gc.collect (vm.stack.extract 0 (vm.sp + 1).toNat).toList vm.gp = some vm'.gc ∨
      vm.gc.run (vm.stack.extract 0 (vm.sp + 1).toNat).toList vm.gp = some vm'.gc) := by
  unfold Vm.gcRunPure at h
  split at h
  · cases h; simp
  · simp only at h
    split at h
    · rename_i g hg
      cases h
      refine ⟨rfl, rfl, rfl, rfl, rfl, rfl, rfl, rfl, rfl, ?_⟩
      right
      split at hg
      · exact Or.inl hg
      · exact Or.inr hg
    · cases h

/-- a concrete non-trivial instance of the hypotheses -/
example : Inv ((Gc.new 6).exec C09.exPrefix) ∧ ((Gc.new 6).exec C09.exPrefix).wellTyped C09.exCollect = true :=
  ⟨C09.inv_history 6 (by decide) _, by decide +kernel⟩

end Never.C04
