import NeverModel.Props.C09
import NeverModel.Model.Vm
/-!
# C04 — garbage collection never disturbs a running program

Heap level (all heaps, all root sets, all histories): a collection keeps every cell
reachable from the roots allocated with bit-identical payload and unchanged outgoing
references, leaves no mark behind and never fails on a consistent heap.
VM level: `gcRun` (the model of the `gc_run` call in SLIDE / RET) changes nothing of the
machine but the heap, and only through `Gc.collect`/`Gc.run`.
The VM-level statement of the property (independence of result/output/exception from the
schedule) is checked by running every program under many schedules on both the real VM and
this model in lockstep (checks/c04.py); `roots_complete_at_safe_points` is not proved.
Placement of collections at heap level: `collect_preserves_liveness` (same reachable set after as
before), `collect_preserves_reachable_graph` (same edges), `collect_twice_defined` (a second
collection at the same point is defined and changes no object), `collect_keeps_wellTyped`.
-/
namespace Never.C04
open Never Mem

/-- an object the program can still reach is never reclaimed or altered by a collection -/
theorem collect_preserves_reachable {g g' : Gc} {st : List Slot} {gp : Nat} (inv : Inv g)
    (wt : g.wellTyped (.collect st gp) = true) (h : g.collect st gp = some g') :
    ∀ x, Live g.mem (allRoots st gp) x →
      objAt g'.mem x = objAt g.mem x ∧ (objAt g'.mem x).isSome = true ∧ marked g'.mem x = false := by
  intro x hx
  obtain ⟨i2, e2, k2, _⟩ := C09.collect_exact inv wt h
  obtain ⟨fl, il⟩ := i2
  exact ⟨k2 x hx, (e2 x).mpr hx, il.unmarked x⟩

/-- the references held by a surviving cell still point at surviving cells with the same contents
(so the whole reachable graph is preserved, not only its nodes) -/
theorem collect_preserves_edges {g g' : Gc} {st : List Slot} {gp : Nat} (inv : Inv g)
    (wt : g.wellTyped (.collect st gp) = true) (h : g.collect st gp = some g')
    {x r : Nat} {o : Obj} (hx : Live g.mem (allRoots st gp) x) (ho : objAt g.mem x = some o)
    (hr : r ∈ o.refs) (hr0 : r ≠ 0) (hro : (objAt g.mem r).isSome = true) :
    objAt g'.mem r = objAt g.mem r := by
  obtain ⟨_, _, k2, _⟩ := C09.collect_exact inv wt h
  apply k2
  obtain ⟨hx0, hxo, root, hroot, p⟩ := hx
  exact ⟨hr0, hro, root, hroot, Path.tail p ⟨o, ho, hr⟩⟩

/-- paths after a collection are paths before it: a collection creates no reference -/
theorem collect_path_back {g g' : Gc} {st : List Slot} {gp : Nat} (inv : Inv g)
    (wt : g.wellTyped (.collect st gp) = true) (h : g.collect st gp = some g')
    {r x : Nat} (p : Path g'.mem r x) : Path g.mem r x := by
  obtain ⟨_, e2, k2, _⟩ := C09.collect_exact inv wt h
  induction p with
  | refl => exact Path.refl _
  | tail q e ih =>
    obtain ⟨o, ho, hr⟩ := e
    rename_i b c
    have hl : Live g.mem (allRoots st gp) b := (e2 b).mp (by rw [ho]; rfl)
    exact Path.tail ih ⟨o, by rw [← k2 b hl]; exact ho, hr⟩

/-- paths from a root that exist before a collection exist after it -/
theorem collect_path_forth {g g' : Gc} {st : List Slot} {gp : Nat} (inv : Inv g)
    (wt : g.wellTyped (.collect st gp) = true) (h : g.collect st gp = some g')
    {r x : Nat} (hr : r ∈ allRoots st gp) (p : Path g.mem r x) : Path g'.mem r x := by
  obtain ⟨_, _, k2, _⟩ := C09.collect_exact inv wt h
  obtain ⟨fl, il⟩ := inv
  induction p with
  | refl => exact Path.refl _
  | tail q e ih =>
    obtain ⟨o, ho, hc⟩ := e
    rename_i b c
    have hb0 : b ≠ 0 := by
      intro hb; rw [hb, il.nil_none] at ho; cases ho
    have hl : Live g.mem (allRoots st gp) b := ⟨hb0, by rw [ho]; rfl, r, hr, q⟩
    exact Path.tail ih ⟨o, by rw [k2 b hl]; exact ho, hc⟩

/-- **the program sees the same object graph after a collection as before it**: with the same
roots, exactly the same cells are reachable (no survivor lost, nothing resurrected, no cell moved) -/
theorem collect_preserves_liveness {g g' : Gc} {st : List Slot} {gp : Nat} (inv : Inv g)
    (wt : g.wellTyped (.collect st gp) = true) (h : g.collect st gp = some g') (x : Nat) :
    Live g'.mem (allRoots st gp) x ↔ Live g.mem (allRoots st gp) x := by
  obtain ⟨_, e2, _, _⟩ := C09.collect_exact inv wt h
  constructor
  · rintro ⟨_, hs, _⟩
    exact (e2 x).mp hs
  · intro hl
    obtain ⟨h0, _, r, hr, p⟩ := hl
    exact ⟨h0, (e2 x).mpr ⟨h0, ‹_›, r, hr, p⟩, r, hr, collect_path_forth inv wt h hr p⟩

/-- **placement of collections does not matter at heap level**: a second collection right after
the first (same roots) finds nothing to reclaim and alters no cell's object — so "collect at
this safe point" and "collect at this safe point twice" leave the same heap contents -/
theorem collect_twice_same_objects {g g' g'' : Gc} {st : List Slot} {gp : Nat} (inv : Inv g)
    (wt : g.wellTyped (.collect st gp) = true) (h : g.collect st gp = some g')
    (wt' : g'.wellTyped (.collect st gp) = true) (h' : g'.collect st gp = some g'') (x : Nat) :
    objAt g''.mem x = objAt g'.mem x := by
  obtain ⟨inv', e2, _, _⟩ := C09.collect_exact inv wt h
  obtain ⟨_, e2', k2', _⟩ := C09.collect_exact inv' wt' h'
  by_cases hl : Live g.mem (allRoots st gp) x
  · exact k2' x ((collect_preserves_liveness inv wt h x).mpr hl)
  · have h1 : ¬ (objAt g'.mem x).isSome = true := fun hs => hl ((e2 x).mp hs)
    have h2 : ¬ (objAt g''.mem x).isSome = true := fun hs =>
      hl ((collect_preserves_liveness inv wt h x).mp ((e2' x).mp hs))
    cases ha : objAt g'.mem x <;> cases hb : objAt g''.mem x <;> simp_all

/-- the precondition of a collection (root slots and `gp` inside the heap) survives a collection:
the heap is never resized -/
theorem collect_keeps_wellTyped {g g' : Gc} {st st' : List Slot} {gp gp' : Nat} (inv : Inv g)
    (wt : g.wellTyped (.collect st gp) = true) (h : g.collect st gp = some g') :
    g'.wellTyped (.collect st' gp') = g.wellTyped (.collect st' gp') := by
  obtain ⟨fl, il⟩ := inv
  have wt0 := wt
  simp only [Gc.wellTyped, Bool.and_eq_true, decide_eq_true_eq] at wt
  obtain ⟨g2, h2, _, _, _, _, _, hsz⟩ := collect_spec il wt.1 wt.2
  rw [h2] at h; cases h
  have hs : ∀ s, slotOk g'.mem s = slotOk g.mem s := by
    intro s; cases s <;> simp [slotOk, hsz]
  have hf : slotOk g'.mem = slotOk g.mem := funext hs
  simp only [Gc.wellTyped, hsz, hf]

/-- **a collection can be placed at any safe point, any number of times**: right after a
collection a second one (same roots) is defined, reclaims nothing and alters no cell's object -/
theorem collect_twice_defined {g g' : Gc} {st : List Slot} {gp : Nat} (inv : Inv g)
    (wt : g.wellTyped (.collect st gp) = true) (h : g.collect st gp = some g') :
    ∃ g'', g'.collect st gp = some g'' ∧ Inv g'' ∧ ∀ x, objAt g''.mem x = objAt g'.mem x := by
  have wt' : g'.wellTyped (.collect st gp) = true := by rw [collect_keeps_wellTyped inv wt h]; exact wt
  obtain ⟨inv', _⟩ := C09.collect_exact inv wt h
  have hd := C09.collect_defined inv' wt'
  cases h' : g'.collect st gp with
  | none => rw [h'] at hd; cases hd
  | some g'' =>
    exact ⟨g'', rfl, (C09.collect_exact inv' wt' h').1, collect_twice_same_objects inv wt h wt' h'⟩

/-- **whichever way the trigger decides** (`gc_run`: collect only above the 80 % mark, so it
depends on the heap size): every reachable cell keeps its object, and the reachable set is the
same — the three schedules "never", "by the rule", "always" agree on what the program can see -/
theorem run_any_schedule_same_view {g gr gc : Gc} {st : List Slot} {gp : Nat} (inv : Inv g)
    (wt : g.wellTyped (.collect st gp) = true)
    (hr : g.run st gp = some gr) (hc : g.collect st gp = some gc) (x : Nat) :
    (Live gr.mem (allRoots st gp) x ↔ Live g.mem (allRoots st gp) x) ∧
    (Live gc.mem (allRoots st gp) x ↔ Live g.mem (allRoots st gp) x) ∧
    (Live g.mem (allRoots st gp) x →
      objAt gr.mem x = objAt g.mem x ∧ objAt gc.mem x = objAt g.mem x) := by
  have hk := (C09.collect_exact inv wt hc).2.2.1
  unfold Gc.run at hr
  split at hr
  · rw [hc] at hr; cases hr
    exact ⟨collect_preserves_liveness inv wt hc x, collect_preserves_liveness inv wt hc x,
      fun hl => ⟨hk x hl, hk x hl⟩⟩
  · cases hr
    exact ⟨Iff.rfl, collect_preserves_liveness inv wt hc x, fun hl => ⟨rfl, hk x hl⟩⟩

/-- **what survives depends only on the set of roots**, not on where on the stack they sit, how
often they occur or what the non-reference words are: two collections of one heap from root
lists with the same members leave the same object in every cell -/
theorem collect_depends_on_root_set {g g1 g2 : Gc} {st1 st2 : List Slot} {gp1 gp2 : Nat} (inv : Inv g)
    (wt1 : g.wellTyped (.collect st1 gp1) = true) (h1 : g.collect st1 gp1 = some g1)
    (wt2 : g.wellTyped (.collect st2 gp2) = true) (h2 : g.collect st2 gp2 = some g2)
    (hroots : ∀ r, r ∈ allRoots st1 gp1 ↔ r ∈ allRoots st2 gp2) (x : Nat) :
    objAt g1.mem x = objAt g2.mem x := by
  obtain ⟨_, e1, k1, _⟩ := C09.collect_exact inv wt1 h1
  obtain ⟨_, e2, k2, _⟩ := C09.collect_exact inv wt2 h2
  have hl : Live g.mem (allRoots st1 gp1) x ↔ Live g.mem (allRoots st2 gp2) x := by
    unfold Live
    constructor
    · rintro ⟨a, b, r, hr, p⟩; exact ⟨a, b, r, (hroots r).mp hr, p⟩
    · rintro ⟨a, b, r, hr, p⟩; exact ⟨a, b, r, (hroots r).mpr hr, p⟩
  by_cases hx : Live g.mem (allRoots st1 gp1) x
  · rw [k1 x hx, k2 x (hl.mp hx)]
  · have n1 : ¬ (objAt g1.mem x).isSome = true := fun hs => hx ((e1 x).mp hs)
    have n2 : ¬ (objAt g2.mem x).isSome = true := fun hs => hx (hl.mpr ((e2 x).mp hs))
    cases ha : objAt g1.mem x <;> cases hb : objAt g2.mem x <;> simp_all

/-- **a cell the program can still reach is never handed out again**: the cell an allocation gets
right after a collection was not reachable from the roots of that collection -/
theorem alloc_after_collect_not_live {g g' g'' : Gc} {st : List Slot} {gp : Nat} {o : Obj} {loc : Nat}
    (inv : Inv g) (wt : g.wellTyped (.collect st gp) = true) (h : g.collect st gp = some g')
    (wta : g'.wellTyped (.alloc o) = true) (ha : g'.alloc o = some (g'', loc)) :
    ¬ Live g.mem (allRoots st gp) loc ∧
    ∀ x, Live g.mem (allRoots st gp) x → objAt g''.mem x = objAt g.mem x := by
  obtain ⟨inv', e2, k2, _⟩ := C09.collect_exact inv wt h
  obtain ⟨_, hnone, _, _, _⟩ := C09.alloc_fresh inv' wta ha
  obtain ⟨fl, il⟩ := inv'
  obtain ⟨_, _, _, _, _, hmem, _⟩ := inv_alloc il (by simpa [Gc.wellTyped] using wta) ha
  have hnl : ¬ Live g.mem (allRoots st gp) loc := by
    intro hl
    have := (e2 loc).mpr hl
    rw [hnone] at this; cases this
  refine ⟨hnl, fun x hx => ?_⟩
  have hne : x ≠ loc := fun e => hnl (e ▸ hx)
  rw [← k2 x hx, hmem, objAt_setObj]
  have hne' : ¬ (loc = x ∧ loc < g'.mem.size) := fun c => hne c.1.symm
  simp only [hne', if_false]

/-- what a cell reachable before the collection points at is reachable after it with the same
contents, to any depth: the whole reachable graph is isomorphic (identity map) -/
theorem collect_preserves_reachable_graph {g g' : Gc} {st : List Slot} {gp : Nat} (inv : Inv g)
    (wt : g.wellTyped (.collect st gp) = true) (h : g.collect st gp = some g')
    {x y : Nat} (hx : Live g.mem (allRoots st gp) x) :
    Edge g'.mem x y ↔ Edge g.mem x y := by
  obtain ⟨_, _, k2, _⟩ := C09.collect_exact inv wt h
  unfold Edge
  rw [k2 x hx]

/-- the collection called from the VM (SLIDE / RET) touches nothing but the heap, and the new
heap is the result of `Gc.collect` / `Gc.run` on the stack `[0..sp]` and `gp` (or the old heap) -/
theorem collect_leaves_registers (vm vm' : Vm.Vm) (h : Vm.gcRunPure vm = .ok vm') :
    vm'.sp = vm.sp ∧ vm'.fp = vm.fp ∧ vm'.pp = vm.pp ∧ vm'.gp = vm.gp ∧ vm'.ip = vm.ip ∧
    vm'.stack = vm.stack ∧ vm'.running = vm.running ∧ vm'.exception = vm.exception ∧ vm'.out = vm.out ∧
    (vm'.gc = vm.gc ∨
      vm.gc.collect (vm.stack.extract 0 (vm.sp + 1).toNat).toList vm.gp = some vm'.gc ∨
      vm.gc.run (vm.stack.extract 0 (vm.sp + 1).toNat).toList vm.gp = some vm'.gc) := by
  unfold Vm.gcRunPure at h
  split at h
  · cases h; simp
  · simp only at h
    split at h
    · rename_i g hg
      cases h
      refine ⟨rfl, rfl, rfl, rfl, rfl, rfl, rfl, rfl, rfl, ?_⟩
      right
      split at hg
      · exact Or.inl hg
      · exact Or.inr hg
    · cases h

/-- the root slots of a safe point: the stack words `[0..sp]` -/
def safeRoots (vm : Vm.Vm) : List Slot := (vm.stack.extract 0 (vm.sp + 1).toNat).toList

/-- **at a safe point, under every schedule** (`gcMode` 0: the 80 % rule, 1: collect every time,
2: never): the machine goes on with the same registers, stack and output, the same set of cells
reachable from its stack and `gp`, and the same object in each of them -/
theorem safe_point_any_mode_same_view (vm vm' : Vm.Vm) (inv : Inv vm.gc)
    (wt : vm.gc.wellTyped (.collect (safeRoots vm) vm.gp) = true)
    (h : Vm.gcRunPure vm = .ok vm') (x : Nat) :
    vm'.stack = vm.stack ∧ vm'.sp = vm.sp ∧ vm'.gp = vm.gp ∧ vm'.out = vm.out ∧
    (Live vm'.gc.mem (allRoots (safeRoots vm) vm.gp) x ↔ Live vm.gc.mem (allRoots (safeRoots vm) vm.gp) x) ∧
    (Live vm.gc.mem (allRoots (safeRoots vm) vm.gp) x → objAt vm'.gc.mem x = objAt vm.gc.mem x) := by
  have hd := C09.collect_defined inv wt
  cases hc : vm.gc.collect (safeRoots vm) vm.gp with
  | none => rw [hc] at hd; cases hd
  | some gcl =>
    unfold Vm.gcRunPure at h
    split at h
    · cases h; exact ⟨rfl, rfl, rfl, rfl, Iff.rfl, fun _ => rfl⟩
    · simp only at h
      split at h
      · rename_i g hg
        cases h
        refine ⟨rfl, rfl, rfl, rfl, ?_⟩
        split at hg
        · have : g = gcl := by
            have := hg.symm.trans hc; cases this; rfl
          subst this
          exact ⟨collect_preserves_liveness inv wt hc x, (C09.collect_exact inv wt hc).2.2.1 x⟩
        · have v := run_any_schedule_same_view inv wt hg hc x
          exact ⟨v.1, fun hl => (v.2.2 hl).1⟩
      · cases h

/-- a safe point never fails on a consistent heap, under any schedule -/
theorem safe_point_never_fails (vm : Vm.Vm) (inv : Inv vm.gc)
    (wt : vm.gc.wellTyped (.collect (safeRoots vm) vm.gp) = true) :
    ∃ vm', Vm.gcRunPure vm = .ok vm' := by
  have hd := C09.collect_defined inv wt
  cases hc : vm.gc.collect (safeRoots vm) vm.gp with
  | none => rw [hc] at hd; cases hd
  | some gcl =>
    unfold Vm.gcRunPure
    split
    · exact ⟨_, rfl⟩
    · simp only
      split
      · exact ⟨_, rfl⟩
      · rename_i hn
        exfalso
        split at hn
        · exact absurd (hn.symm.trans hc) (by simp)
        · unfold Gc.run at hn
          split at hn
          · exact absurd (hn.symm.trans hc) (by simp)
          · cases hn

/-- a concrete non-trivial instance of the hypotheses -/
example : Inv ((Gc.new 6).exec C09.exPrefix) ∧ ((Gc.new 6).exec C09.exPrefix).wellTyped C09.exCollect = true :=
  ⟨C09.inv_history 6 (by decide) _, by decide +kernel⟩

/-- … and on that state the collection is defined, so `collect_preserves_liveness` and
`collect_twice_defined` speak about an actual collection, twice over -/
example : ∃ g' g'', ((Gc.new 6).exec C09.exPrefix).collect [.addr 4, .stk 3, .unknown] 1 = some g' ∧
    g'.collect [.addr 4, .stk 3, .unknown] 1 = some g'' ∧ ∀ x, objAt g''.mem x = objAt g'.mem x := by
  have inv : Inv ((Gc.new 6).exec C09.exPrefix) := C09.inv_history 6 (by decide) _
  have wt : ((Gc.new 6).exec C09.exPrefix).wellTyped C09.exCollect = true := by decide +kernel
  have hd := C09.collect_defined inv wt
  cases h : ((Gc.new 6).exec C09.exPrefix).collect [.addr 4, .stk 3, .unknown] 1 with
  | none => rw [h] at hd; cases hd
  | some g' =>
    obtain ⟨g'', h2, _, h3⟩ := collect_twice_defined inv wt h
    exact ⟨g', g'', rfl, h2, h3⟩

/-- non-vacuity at VM level: a machine with the heap of the example above, two stack words holding
references into it and `gp` = 1, in "collect every time" mode, meets the hypotheses of
`safe_point_any_mode_same_view` and goes through the safe point -/
def exVm : Vm.Vm :=
  { Vm.Vm.new 6 4 1 with gc := (Gc.new 6).exec C09.exPrefix, stack := #[.addr 4, .stk 3, .unknown, .unknown], sp := 1, gp := 1 }

example : Inv exVm.gc ∧ exVm.gc.wellTyped (.collect (safeRoots exVm) exVm.gp) = true ∧
    ∃ vm', Vm.gcRunPure exVm = .ok vm' := by
  have hg : exVm.gc = (Gc.new 6).exec C09.exPrefix := rfl
  have hs : safeRoots exVm = [.addr 4, .stk 3] := by
    simp [safeRoots, exVm, Vm.Vm.new]
  have inv : Inv exVm.gc := by rw [hg]; exact C09.inv_history 6 (by decide) _
  have wt : exVm.gc.wellTyped (.collect (safeRoots exVm) exVm.gp) = true := by
    rw [hs, hg]; decide +kernel
  exact ⟨inv, wt, safe_point_never_fails exVm inv wt⟩

end Never.C04
