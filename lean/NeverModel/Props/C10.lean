import NeverModel.Lemmas.NumVm
import NeverModel.Model.NumKnown
/-!
# C10 — compile-time constant reduction agrees with run-time evaluation

Both sides are tables REGENERATED FROM /repo's C SOURCE on every run (gen/numtab.py):
`T.foldRows` = one row per `if (left->type == EXPR_x && right->type == EXPR_y)` clause of the operator
folders of front/constred.c (and of the enumerator-value folder front/enumred.c) and of
expr_conv_constred; the run-time side = typing rule of the operator (front/typecheck.c) → opcode chosen by
the emitter (front/emit.c) → handler of the VM (back/vmexec.c), all in `T`.
Operand values are universally quantified; float results are compared as the same Float32 / Float
term (bit-for-bit), which the kernel can do although the float operations themselves are opaque.

`_partial` = the statement for every row except the excused ones (the defects of the pinned tree, each with
its own `_counterexample` below and a replay on the real compiler in checks/c10.py).
Core library only.  No sorry / admit / axiom / native_decide / bv_decide / unsafe.
-/
namespace Never.C10
open Never.Num Never.CExpr Never.NumTables Never.NumKnown

/-! ## the clauses the pinned tree gets wrong (by source operator and literal kinds) -/

def cmpOrMod (op : SrcOp) : Bool :=
  op == .lt || op == .gt || op == .lte || op == .gte || op == .eq || op == .neq || op == .mod

/-- 1. `long * long` is folded on the `int_value` members (expr_mul_constred);
    2. `bool != bool` on variables runs OP_EQ_INT (expr_neq_emit);
    3. a comparison or `%` with an ITEM-enumerator operand is typed but has no opcode in the emitter, so the
       variable form does not compile at all (expr_<op>_emit: EMIT_FAIL / assert(0)) -/
def excused (r : FoldRow) : Bool :=
  -- (1) long*long on int_value and (2) bool != selecting OP_EQ_INT were repaired by the `fix:` commits
  -- 6677f2b and 9db5579: those rows are no longer excused (the statement below now covers them)
  (cmpOrMod r.op && (r.kindA == .enumtype || r.kindB == some .enumtype) &&
    !(r.op == .eq && r.kindA == .enumtype && r.kindB == some .enumtype))

/-- every other clause is, syntactically, the same guarded typed C expression over the same operand reads as
    the handler the emitter selects for that operator at those operand types (no conversion in between) -/
theorem rows_agree_partial : ∀ r ∈ T.foldRows, excused r = false → rowAgrees T r = true := by
  decide +kernel

theorem runGE_not_tag (ra rb : NTy → CRes) (g : Option (CExpr × Nat)) (e : CExpr) (out : NTy) :
    runGE ra rb g e out ≠ .tag := by
  unfold runGE
  cases g with
  | none => simp only []; split <;> (try split) <;> simp
  | some x =>
    obtain ⟨gx, n⟩ := x
    simp only []
    split
    · split
      · split <;> (try split) <;> simp
      · simp
    · simp
    · simp

theorem runGE_exc (ra rb : NTy → CRes) (g : Option (CExpr × Nat)) (e : CExpr) (out : NTy) (n : Nat)
    (h : runGE ra rb g e out = .exc n) : ∃ x, g = some (x, n) := by
  unfold runGE at h
  cases g with
  | none => simp only [] at h; split at h <;> (try split at h) <;> simp at h
  | some x =>
    obtain ⟨gx, m⟩ := x
    simp only [] at h
    split at h
    · split at h
      · split at h <;> (try split at h) <;> simp at h
      · simp at h; exact ⟨gx, by rw [h]⟩
    · simp at h
    · simp at h

/-- **fold_eq_run** (all rows but the excused ones, all operand values):
    if the compiler folds `lit op lit` to `v`, running the operator on variables holding the same values yields
    exactly `v` (same bits); if it rejects the expression as a constant division by zero, the VM raises
    division_by_zero (exception 1); and the folder leaves defined C behaviour only where the VM's own handler does -/
theorem fold_eq_run_partial :
    ∀ r ∈ T.foldRows, excused r = false → ∀ a b : NVal, r.wellKinded a b →
      (∀ k v, r.eval a b = .folded k v → k = r.resKind ∧ T.runRow r a b = .ok v) ∧
      (r.eval a b = .divzero → T.runRow r a b = .exc 1) ∧
      (∀ w, r.eval a b = .crash w → T.runRow r a b = .crash w) := by
  intro r hr hex a b wk
  have hag := rows_agree_partial r hr hex
  unfold rowAgrees at hag
  cases hc : T.counterpart r with
  | none => rw [hc] at hag; cases hag
  | some c =>
    rw [hc] at hag
    have hfold := fold_agrees r c hag a b wk
    have hrun : T.runRow r a b = c.eval a b := by simp [Tables.runRow, hc]
    -- c.eval is a runGE: never `.tag`, and an exception comes from the guard, whose number is 1
    have hcore : c.eval a b = runGE (rdVm a) (rdVm b) c.guard c.expr c.alloc ∨ c.eval a b = .tag := by
      unfold Core.eval; split
      · right; rfl
      · split
        · right; rfl
        · left; rfl
    have hguard : ∀ x n, c.guard = some (x, n) → n = 1 := by
      intro x n hx
      simp [FoldRow.agreesWith] at hag
      have hG := hag.1.1.1.2
      rw [hx] at hG
      cases hg : r.guard with
      | none => rw [hg] at hG; simp at hG
      | some g => rw [hg] at hG; simp at hG; exact hG.2.symm
    rw [hrun, hfold]
    cases he : c.eval a b with
    | ok v =>
      refine ⟨?_, ?_, ?_⟩
      · intro k v' h; simp [FoldRes.ofNRes] at h; exact ⟨h.1.symm, by rw [h.2]⟩
      · intro h; simp [FoldRes.ofNRes] at h
      · intro w h; simp [FoldRes.ofNRes] at h
    | exc n =>
      refine ⟨?_, ?_, ?_⟩
      · intro k v' h; simp [FoldRes.ofNRes] at h
      · intro _
        cases hcore with
        | inl h1 => rw [he] at h1; obtain ⟨x, hx⟩ := runGE_exc _ _ _ _ _ n h1.symm; rw [hguard x n hx]
        | inr h2 => rw [he] at h2; cases h2
      · intro w h; simp [FoldRes.ofNRes] at h
    | crash s =>
      refine ⟨?_, ?_, ?_⟩
      · intro k v' h; simp [FoldRes.ofNRes] at h
      · intro h; simp [FoldRes.ofNRes] at h
      · intro w h; simp [FoldRes.ofNRes] at h; rw [h]
    | tag =>
      cases hcore with
      | inl h1 => rw [he] at h1; exact absurd h1.symm (runGE_not_tag _ _ _ _ _)
      | inr _ =>
        -- excluded: the operand tags are the literal kinds' storage types
        exfalso
        have := hfold
        simp [FoldRow.agreesWith] at hag
        obtain ⟨⟨⟨⟨⟨⟨⟨hA, hB⟩, _⟩, _⟩, _⟩, _⟩, _⟩, _⟩ := hag
        have wa : a.ty = r.kindA.storage := wk.1
        unfold Core.eval at he
        rw [if_neg (by rw [hA]; simp [wa])] at he
        have htb : wrongTagB c.getB b = false := by
          rw [hB]; unfold wrongTagB
          cases hk : r.kindB with
          | none => rfl
          | some kb =>
            have : b.ty = kb.storage := by have := wk.2; rw [hk] at this; exact this
            simp [this]
        rw [htb] at he
        simp only [Bool.false_eq_true, if_false] at he
        exact runGE_not_tag _ _ _ _ _ he

/-! ## fold_total: the reducer itself is outside defined C behaviour only on the inputs below -/

/-- the operand values on which a VM handler (hence, by the theorem above, the folding clause) traps or is
    undefined: `MIN / -1`, `MIN % -1`, and shift counts outside [0,width) -/
def UBCase : Sem → NVal → NVal → Prop
  | .bin .int op, .int a, .int b =>
    ((op = .div ∨ op = .mod) ∧ a = intMin32 ∧ b = -1) ∨ ((op = .shl ∨ op = .shr) ∧ (b.toInt < 0 ∨ b.toInt ≥ 32))
  | .bin .long op, .long a, .long b =>
    ((op = .div ∨ op = .mod) ∧ a = intMin64 ∧ b = -1) ∨ ((op = .shl ∨ op = .shr) ∧ (b.toInt < 0 ∨ b.toInt ≥ 64))
  | _, _, _ => False

theorem binInt_crash (op : BinOp) (a b : BitVec 32) (w : String) (h : binInt op a b = .crash w) :
    ((op = .div ∨ op = .mod) ∧ a = intMin32 ∧ b = -1) ∨ ((op = .shl ∨ op = .shr) ∧ (b.toInt < 0 ∨ b.toInt ≥ 32)) := by
  cases op <;> simp [binInt] at h
  · by_cases hb : b = 0#32
    · simp [hb] at h
    · by_cases hm : (a = intMin32 ∧ b = 4294967295#32)
      · left; exact ⟨Or.inl rfl, hm.1, hm.2⟩
      · simp [hb, hm] at h
  · by_cases hb : b = 0#32
    · simp [hb] at h
    · by_cases hm : (a = intMin32 ∧ b = 4294967295#32)
      · left; exact ⟨Or.inr rfl, hm.1, hm.2⟩
      · simp [hb, hm] at h
  · right; refine ⟨Or.inl rfl, ?_⟩; by_cases hc : (b.toInt < 0 ∨ 32 ≤ b.toInt)
    · omega
    · simp [hc] at h
  · right; refine ⟨Or.inr rfl, ?_⟩; by_cases hc : (b.toInt < 0 ∨ 32 ≤ b.toInt)
    · omega
    · simp [hc] at h

theorem binLong_crash (op : BinOp) (a b : BitVec 64) (w : String) (h : binLong op a b = .crash w) :
    ((op = .div ∨ op = .mod) ∧ a = intMin64 ∧ b = -1) ∨ ((op = .shl ∨ op = .shr) ∧ (b.toInt < 0 ∨ b.toInt ≥ 64)) := by
  cases op <;> simp [binLong] at h
  · by_cases hb : b = 0#64
    · simp [hb] at h
    · by_cases hm : (a = intMin64 ∧ b = 18446744073709551615#64)
      · left; exact ⟨Or.inl rfl, hm.1, hm.2⟩
      · simp [hb, hm] at h
  · by_cases hb : b = 0#64
    · simp [hb] at h
    · by_cases hm : (a = intMin64 ∧ b = 18446744073709551615#64)
      · left; exact ⟨Or.inr rfl, hm.1, hm.2⟩
      · simp [hb, hm] at h
  · right; refine ⟨Or.inl rfl, ?_⟩; by_cases hc : (b.toInt < 0 ∨ 64 ≤ b.toInt)
    · omega
    · simp [hc] at h
  · right; refine ⟨Or.inr rfl, ?_⟩; by_cases hc : (b.toInt < 0 ∨ 64 ≤ b.toInt)
    · omega
    · simp [hc] at h

/-- Never.Num's handlers leave defined behaviour exactly on `UBCase` -/
theorem sem_crash_cases (sem : Sem) (a b : NVal) (w : String) (h : sem.eval a b = .crash w) : UBCase sem a b := by
  cases sem with
  | bin ty op =>
    cases ty <;> cases a <;> cases b <;> simp [Sem.eval, Num.bin] at h
    · exact binInt_crash op _ _ w h
    · exact binLong_crash op _ _ w h
    · rename_i x y; cases op <;> simp [binFloat] at h <;> (split at h <;> simp at h)
    · rename_i x y; cases op <;> simp [binDouble] at h <;> (split at h <;> simp at h)
    · rename_i x y; cases op <;> simp [binChar] at h
  | un ty op => cases ty <;> cases op <;> cases a <;> simp [Sem.eval, Num.un] at h
  | conv s d => cases s <;> cases d <;> cases a <;> simp [Sem.eval, Num.conv] at h

/-- the pseudo handlers of `&&`, `||`, `( )` never trap -/
theorem pseudo_total (c : Core) (hc : c = andCore ∨ c = orCore ∨ ∃ t, c = supCore t) (a b : NVal) (w : String) :
    c.eval a b ≠ .crash w := by
  rcases hc with h | h | ⟨t, h⟩ <;> subst h
  · cases a <;> cases b <;> simp [andCore, Core.eval, wrongTagB, runGE, evalC, rdVm, NVal.ty, cBin, cBinInt, cBool, CVal.ofN, CVal.toN, CVal.ty]
  · cases a <;> cases b <;> simp [orCore, Core.eval, wrongTagB, runGE, evalC, rdVm, NVal.ty, cBin, cBinInt, cBool, CVal.ofN, CVal.toN, CVal.ty]
  · cases t <;> cases a <;> simp [supCore, Core.eval, wrongTagB, runGE, evalC, rdVm, NVal.ty, CVal.ofN, CVal.toN, CVal.ty]

theorem counterpart_cases (r : FoldRow) (c : Core) (h : T.counterpart r = some c) :
    (c = andCore ∨ c = orCore ∨ ∃ t, c = supCore t) ∨ ∃ hrow ∈ T.vmRows, c = hrow.core := by
  have handler_mem : ∀ opc hrow, T.handler opc = some hrow → hrow ∈ T.vmRows := by
    intro opc hrow hh
    unfold Tables.handler at hh
    split at hh
    · exact List.mem_of_getElem? hh
    · cases hh
  have conv_mem : ∀ cv hrow, T.convHandler cv = some hrow → hrow ∈ T.vmRows := by
    intro cv hrow hh
    unfold Tables.convHandler at hh
    split at hh
    · exact handler_mem _ _ hh
    · cases hh
  have opcore : ∀ op rule, T.opCore op rule = some c →
      (c = andCore ∨ c = orCore ∨ ∃ t, c = supCore t) ∨ ∃ hrow ∈ T.vmRows, c = hrow.core := by
    intro op rule ho
    unfold Tables.opCore at ho
    split at ho
    · left; left; injection ho with ho; exact ho.symm
    · left; right; left; injection ho with ho; exact ho.symm
    · split at ho
      · cases ho
      · rename_i opc nm _
        cases hh : T.handler opc with
        | none => rw [hh] at ho; cases ho
        | some hrow =>
          rw [hh] at ho; simp at ho
          right; exact ⟨hrow, handler_mem _ _ hh, ho.symm⟩
  unfold Tables.counterpart at h
  split at h
  · split at h
    · rename_i cv _
      cases hh : T.convHandler cv with
      | none => rw [hh] at h; cases h
      | some hrow => rw [hh] at h; simp at h; right; exact ⟨hrow, conv_mem _ _ hh, h.symm⟩
    · cases h
  · left; right; right; injection h with h; exact ⟨_, h.symm⟩
  · split at h
    · cases h
    · split at h
      · cases h
      · exact opcore _ _ h

/-- **fold_total** (partial): for every non-excused clause and all operand values, the reducer's own C code traps
    or is undefined ONLY on `UBCase` inputs: `MIN / -1`, `MIN % -1`, out-of-range shift counts -/
theorem fold_total_partial :
    ∀ r ∈ T.foldRows, excused r = false → ∀ a b : NVal, r.wellKinded a b → ∀ w, r.eval a b = .crash w →
      ∃ sem, UBCase sem a b := by
  intro r hr hex a b wk w hcrash
  have hrun := ((fold_eq_run_partial r hr hex a b wk).2.2) w hcrash
  unfold Tables.runRow at hrun
  cases hc : T.counterpart r with
  | none => rw [hc] at hrun; simp [noOpcode] at hrun
            -- the only crash without counterpart is the EMIT_FAIL marker; but rows_agree_partial says there is one
            have hag := rows_agree_partial r hr hex
            unfold rowAgrees at hag; rw [hc] at hag; cases hag
  | some c =>
    rw [hc] at hrun
    rcases counterpart_cases r c hc with hp | ⟨hrow, hmem, hcore⟩
    · exact absurd hrun (pseudo_total c hp a b w)
    · have : hrow.eval a b = .crash w := by unfold VmRow.eval; rw [← hcore]; exact hrun
      rw [NumVm.vm_handlers_eq_model hrow hmem] at this
      exact ⟨hrow.sem, sem_crash_cases _ _ _ _ this⟩

/-- in particular the reducer is total on float and double operands (and on every unary clause) -/
theorem fold_total_float :
    ∀ r ∈ T.foldRows, excused r = false → ∀ a b : NVal, r.wellKinded a b →
      a.ty ≠ .int → a.ty ≠ .long → ∀ w, r.eval a b ≠ .crash w := by
  intro r hr hex a b wk hi hl w hcrash
  obtain ⟨sem, hub⟩ := fold_total_partial r hr hex a b wk w hcrash
  cases sem with
  | bin ty op => cases ty <;> cases a <;> cases b <;> simp [UBCase, NVal.ty] at hub hi hl
  | un ty op => simp [UBCase] at hub
  | conv s d => simp [UBCase] at hub

/-! ## non-vacuity -/

example : (T.foldRows.filter fun r => !excused r).length ≥ 110 := by decide +kernel
example : ∃ r ∈ T.foldRows, r.op = .add ∧ r.kindA = .float ∧ excused r = false ∧
    r.expr = .bin .add .float (.opA .float) (.opB .float) := by decide +kernel
example : ∃ r ∈ T.foldRows, r.op = .div ∧ r.kindA = .int ∧ r.kindB = some .int ∧
    r.eval (.int 7) (.int 0) = .divzero ∧ T.runRow r (.int 7) (.int 0) = .exc 1 ∧
    r.eval (.int (-7)) (.int 2) = .folded .int (.int (-3)) ∧ T.runRow r (.int (-7)) (.int 2) = .ok (.int (-3)) := by
  decide +kernel

/-! ## the defects of the pinned tree: literal copies of the pinned clauses, with concrete witnesses.
    Whether a pinned clause is still in the regenerated table is decided on every run (`nmdrv num known`),
    and each witness is replayed on the real compiler by checks/c10.py. -/

/-- `fold_total` fails: `INT_MIN / -1` written with literals makes the COMPILER execute a trapping idiv -/
theorem fold_total_counterexample :
    pinnedDivInt.wellKinded (.int 0x80000000#32) (.int 0xffffffff#32) ∧
    pinnedDivInt.eval (.int 0x80000000#32) (.int 0xffffffff#32) = .crash "SIGFPE: INT_MIN / -1" := by
  decide +kernel

/-- `fold_eq_run` fails: 4294967296L * 2L folds to 0, the VM computes 8589934592 -/
theorem fold_eq_run_counterexample :
    pinnedMulLong.wellKinded (.long 0x100000000#64) (.long 2#64) ∧
    pinnedMulLong.eval (.long 0x100000000#64) (.long 2#64) = .folded .long (.long 0#64) ∧
    Num.bin .long .mul (.long 0x100000000#64) (.long 2#64) = .ok (.long 0x200000000#64) := by
  decide +kernel

/-- `true != false` folds to true; on variables the emitter's OP_EQ_INT answers false -/
theorem fold_eq_run_counterexample_neq_bool :
    pinnedNeqBool.eval (.int 1) (.int 0) = .folded .bool (.int 1) ∧
    Num.bin .int .eq (.int 1) (.int 0) = .ok (.int 0) := by
  decide +kernel

/-- `E::a < 3` folds, `var e = E::a; e < 3` has no opcode: any rule for (lt, enumtype, int) without opcode makes
    the run-time side fail for every operand value -/
theorem fold_eq_run_counterexample_enum_cmp (T' : Tables) (rule : Rule)
    (h : T'.rule .lt .enumtype (some .int) = some rule) (hc : rule.convL = none ∧ rule.convR = none)
    (ho : rule.opcode = none) (a b : NVal) : T'.runSrc .lt .enumtype (some .int) a b = noOpcode := by
  simp [Tables.runSrc, h, hc.1, hc.2, Tables.applyConv, Tables.opCore, ho]

end Never.C10
