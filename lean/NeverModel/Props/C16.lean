import NeverModel.Gen.ParserTab
import NeverModel.Lemmas.Ledger
import NeverModel.Lemmas.Own
import NeverModel.Lemmas.OwnSem
/-!
# C16 — compile, run and dispose release all memory, on success and on every error path

Property theorems only.  Two models:

* `NeverModel/Gen/ParserTab.lean` — REGENERATED on every run by `gen/parsertab.py` from the
  current text of front/parser.y, front/types.h, front/scanner.l and bison's XML report
  (translator tie).  The theorems below are finite statements over those tables, decided by
  the kernel (`decide`): the quantifier *is* the table.
* `NeverModel/Model/Ledger.lean` — the malloc/free events of back/gc.c + back/object.c on
  top of M-Heap (correspondence tie: harness/h_gcl.c counts the real malloc/free calls).

* `NeverModel/Gen/OwnTab.lean` — REGENERATED on every run by `gen/owntab.py` from clang's AST of every translation unit
  of front/ and back/: the pointer members of every struct that has a delete function, what each `*_delete` releases on
  which switch arm, what each constructor stores, where nodes are retagged (translator tie); `NeverModel/Model/Own.lean`
  is the hand-written discipline (which members are borrowed / released elsewhere; everything else is owned).

Not modelled (testing only, `checks/leak_stream.py`): WHO calls the delete functions — the typechecker's early returns,
the order of program/module/vm teardown; the table theorems say that each delete function, once called on a node, releases
everything the node owns, once.

Theorems that are true of the *pinned* tree only because of its known defects
(`destructor_table_counterexample`, …) live in `Props/C16Pinned.lean`, so that repairing
parser.y does not break this file.
-/
namespace Never.C16
open Never Never.ParserTab

/-! ## the bison contract: discarded semantic values are released -/

/-- the function that releases a value of the symbol's C type: `free` for `char *`,
`T_delete` for `T *` (the convention of every AST module in front/) -/
def expectedDtor (s : Sym) : String := if s.pointee = "char" then "free" else s.pointee ++ "_delete"

/-- a `%destructor` applies and it hands `$$` to exactly that function -/
def releases (s : Sym) : Bool := s.hasDestructor && s.dtorCalls == [expectedDtor s]

/-- symbols that own heap memory and lack a destructor in the pinned tree (commented out
or never written); re-derived by the translator on every run -/
def knownMissing : List String := ["param_decl", "except"]

/-- those of them bison can actually discard (see `Sym.discardable`) -/
def knownLeaking : List String := []

/-- full-strength statement: every symbol whose value owns heap memory (and is not handed to
the caller) has a destructor that releases it -/
def Complete (t : List Sym) : Prop :=
  ∀ s ∈ t, s.ownsHeap = true → s.handedOut = false → releases s = true

/-- **every heap-owning symbol has a releasing destructor**, except the listed ones.
(The quantifier is the finite generated table; the Boolean form is evaluated by the kernel.) -/
theorem destructor_table_complete_partial :
    ∀ s ∈ syms, s.ownsHeap = true → s.handedOut = false → s.name ∉ knownMissing → releases s = true := by
  have h : syms.all (fun s => !s.ownsHeap || s.handedOut || knownMissing.contains s.name || releases s) = true := by
    decide +kernel
  intro s hs ho hh hn
  have := List.all_eq_true.mp h s hs
  simpa [ho, hh, hn] using this

/-- the same over the symbols bison can discard from its stack (error recovery, abort):
only `param_seq` is left — the other two are always reduced before an error can be
detected (every state entered on them is a pure default-reduction state and they have no
empty rule), so their missing destructor is latent -/
theorem discardable_symbols_released_partial :
    ∀ s ∈ syms, s.ownsHeap = true → s.handedOut = false → s.discardable = true →
      s.name ∉ knownLeaking → releases s = true := by
  have h : syms.all (fun s => !s.ownsHeap || s.handedOut || !s.discardable || knownLeaking.contains s.name || releases s) = true := by
    decide +kernel
  intro s hs ho hh hd hn
  have := List.all_eq_true.mp h s hs
  simpa [ho, hh, hd, hn] using this

/-- **every grammar symbol bison can discard during error recovery releases its heap value** — no exception
(full strength since the `fix:` commit adb6ca8 added the missing `%destructor` for `param_seq`; the table is
regenerated from front/parser.y on every run) -/
theorem discardable_symbols_released :
    ∀ s ∈ syms, s.ownsHeap = true → s.handedOut = false → s.discardable = true → releases s = true := by
  have h : syms.all (fun s => !s.ownsHeap || s.handedOut || !s.discardable || releases s) = true := by
    decide +kernel
  intro s hs ho hh hd
  have := List.all_eq_true.mp h s hs
  simpa [ho, hh, hd] using this

/-- the value handed to the caller through the parse parameter is not also released by
bison when it pops the start symbol on acceptance (that would be a double free) -/
theorem handed_out_not_released : ∀ s ∈ syms, s.handedOut = true → s.dtorCalls = [] := by
  have h : syms.all (fun s => !s.handedOut || s.dtorCalls.isEmpty) = true := by decide +kernel
  intro s hs hh
  have := List.all_eq_true.mp h s hs
  simpa [hh] using this

/-- no destructor touches a value the symbol does not own (keyword tokens carry the stale
pointer of an earlier identifier: freeing it would be a double free) -/
theorem no_destructor_on_unowned : ∀ s ∈ syms, s.ownsHeap = false → s.dtorCalls = [] := by
  have h : syms.all (fun s => s.ownsHeap || s.dtorCalls.isEmpty) = true := by decide +kernel
  intro s hs ho
  have := List.all_eq_true.mp h s hs
  simpa [ho] using this

def symAt (i : Nat) : Option Sym := syms[i]?
def ownsIx (i : Nat) : Bool := match symAt i with | some s => s.ownsHeap | none => false
def nameIx (i : Nat) : String := match symAt i with | some s => s.name | none => ""

/-- the index column of a rule agrees with its name column -/
def ixConsistent (r : Rule) : Bool :=
  r.rhs.length == r.rhsIx.length &&
  (r.rhs.zip r.rhsIx).all fun (n, i) => if i < syms.length then nameIx i == n else (n == "error" || n == "{}")

/-- rule `r` uses (moves or frees) every owning right-hand-side value; a rule without
action has bison's default `$$ = $1` -/
def consumesRhs (r : Rule) : Bool :=
  (List.range r.rhsIx.length).all fun i =>
    !ownsIx (r.rhsIx.getD i syms.length) || r.refs.contains (i + 1) || (!r.hasAction && i == 0)

/-- **every grammar action takes charge of every owning value it pops** — in particular
the error rules (`func: TOK_FUNC TOK_ID error` frees `$2`) -/
theorem rule_actions_consume_rhs : ∀ r ∈ rules, ixConsistent r = true ∧ consumesRhs r = true := by
  have h : rules.all (fun r => ixConsistent r && consumesRhs r) = true := by decide +kernel
  intro r hr
  simpa using List.all_eq_true.mp h r hr

/-- non-vacuity: the tables are populated; owning, discardable, released symbols and an
error rule with an owning value exist -/
example : (syms.filter (·.ownsHeap)).length ≥ 40 ∧
    (syms.filter fun s => s.ownsHeap && s.discardable && releases s).length ≥ 20 ∧
    (rules.filter fun r => r.isError && r.rhsIx.any ownsIx).length ≥ 1 := by decide +kernel


/-! ## the `*_delete` functions: every owned member is released, once

Tables `dels`, `fields`, `ctors`, `retags`, `lates` are regenerated from the source (`Gen/OwnTab.lean`); the
classification `classify` (owned unless listed as borrowed / released elsewhere) is `Model/Own.lean`.  Each theorem is a
finite statement over the regenerated table: its Boolean form is evaluated by the kernel, then unfolded. -/
section Own
open Never.Gen.OwnTab Never.Own

/-- **every owned member is released by the struct's delete function on every arm that can hold it.**
For every delete function `d` of the tree (of a struct of the project), every value `tag` of the member it switches on
(0 when it does not switch) that a constructor or a retagging site can produce, and every pointer member `f` of the struct
that can hold something under that tag (`holds`: a constructor able to store that tag fills it from a parameter, a fresh
allocation or another member; or a fresh allocation is stored into it outside constructors): if the discipline says `f` is
owned there, then among the releases `d` performs for that tag (outside the switch + the arm, fall-through followed) there
is an unconditional one at `f`'s offset, applied to the member itself, by the function that releases `f`'s pointee type. -/
theorem owned_fields_released :
    ∀ d ∈ dels, d.isOpaque = false → ∀ tag ∈ tagsOf d, reachable (ctorsFor d tag) tag = true →
      ∀ f ∈ d.fields, holds (ctorsFor d tag) f = true → classify f.id tag = .owned →
        releasedIn (relsAt d tag) f = true := by
  have h : dels.all ownedReleasedOk = true := by decide +kernel
  intro d hd ho tag ht hr f hf hh hc
  have h1 := List.all_eq_true.mp h d hd
  simp only [ownedReleasedOk, ho, Bool.false_or] at h1
  have h2 := List.all_eq_true.mp h1 tag ht
  simp only [ownedReleasedAt, hr, Bool.not_true, Bool.false_or] at h2
  have h3 := List.all_eq_true.mp h2 f hf
  simp only [hh, Bool.not_true, Bool.false_or, fieldOk, hc, Bool.or_false] at h3
  exact h3

/-- the same for the members owned under a run-time condition that is not the tag (`ownedCond`: the name of a rebuilt
function-table entry, libffi's struct descriptors and result buffer): the delete function releases them, under a condition -/
theorem conditionally_owned_fields_released :
    ∀ d ∈ dels, d.isOpaque = false → ∀ tag ∈ tagsOf d, reachable (ctorsFor d tag) tag = true →
      ∀ f ∈ d.fields, holds (ctorsFor d tag) f = true → classify f.id tag = .ownedCond →
        (releasedIn (relsAt d tag) f || releasedCondIn (relsAt d tag) f) = true := by
  have h : dels.all ownedReleasedOk = true := by decide +kernel
  intro d hd ho tag ht hr f hf hh hc
  have h1 := List.all_eq_true.mp h d hd
  simp only [ownedReleasedOk, ho, Bool.false_or] at h1
  have h2 := List.all_eq_true.mp h1 tag ht
  simp only [ownedReleasedAt, hr, Bool.not_true, Bool.false_or] at h2
  have h3 := List.all_eq_true.mp h2 f hf
  simpa only [hh, Bool.not_true, Bool.false_or, fieldOk, hc] using h3

/-- **nothing is released twice on one path**: under every tag, the members a delete function releases directly lie at
pairwise different offsets (union members sharing an offset count as one: `param.array.ret` / `param.range.ret`), and
the releases it makes inside a pointee (array elements, `vec_value->value`) are pairwise different. -/
theorem no_double_release :
    ∀ d ∈ dels, ∀ tag ∈ tagsOf d,
      (((relsAt d tag).filter (!·.deep)).map (·.off)).Nodup ∧
      (((relsAt d tag).filter (·.deep)).map fun r => r.field * 1000000 + r.fn * 1000 + r.cond).Nodup := by
  have h : dels.all noDoubleOk = true := by decide +kernel
  intro d hd tag ht
  have h1 := List.all_eq_true.mp (List.all_eq_true.mp h d hd) tag ht
  simp only [noDoubleIn, Bool.and_eq_true] at h1
  exact ⟨nodupNat_nodup h1.1, nodupNat_nodup h1.2⟩

/-- **no borrowed member is ever released**, directly or inside its pointee; and a member that the discipline says is
released by another function (`elsewhere`: list links, elements of an array) is not released directly here as well. -/
theorem borrowed_never_released :
    ∀ d ∈ dels, d.isOpaque = false → ∀ tag ∈ tagsOf d, ∀ r ∈ relsAt d tag,
      classify r.field tag ≠ .borrowed ∧ (∀ g, classify r.field tag = .elsewhere g → r.deep = true) := by
  have h : dels.all borrowedKeptOk = true := by decide +kernel
  intro d hd ho tag ht r hr
  have h1 := List.all_eq_true.mp h d hd
  simp only [borrowedKeptOk, ho, Bool.false_or] at h1
  have h2 := List.all_eq_true.mp (List.all_eq_true.mp h1 tag ht) r hr
  unfold relKeptOk at h2
  constructor
  · intro hb; rw [hb] at h2; exact Bool.false_ne_true h2
  · intro g hg; rw [hg] at h2; exact h2

/-- **every direct release uses the function that releases the member's type**: `T_delete` for a `T *` whose type has a
delete function, `free` otherwise (two overrides listed in `releaseOverride`), and it names a member of the struct at
that member's offset — a shallow `free` of a node with children, or a delete of the wrong union member, breaks this. -/
theorem releases_use_the_deleter_of_the_type :
    ∀ d ∈ dels, d.isOpaque = false → ∀ r ∈ allRels d,
      ∃ f ∈ d.fields, f.id = r.field ∧ f.off = r.off ∧ (r.deep = true ∨ r.fn = releaseFn f) := by
  have h : dels.all rightFunctionOk = true := by decide +kernel
  intro d hd ho r hr
  have h1 := List.all_eq_true.mp h d hd
  simp only [rightFunctionOk, ho, Bool.false_or] at h1
  have h2 := List.all_eq_true.mp h1 r hr
  split at h2
  · rename_i f hf
    have hm := List.mem_of_find?_eq_some hf
    have hp := List.find?_some hf
    simp only [eqN_iff, Bool.and_eq_true, Bool.or_eq_true] at hp h2
    exact ⟨f, hm, hp, h2.1, h2.2⟩
  · exact absurd h2 Bool.false_ne_true

/-- **constructors fill only known members**: every pointer store of every constructor goes to a pointer member of its own
struct that is in the table (hence classified), at that member's offset. -/
theorem constructors_fill_only_known_fields :
    ∀ d ∈ dels, ∀ c ∈ d.ctors, c.struct = d.struct ∧
      ∀ i ∈ c.inits, ∃ f ∈ d.fields, f.id = i.field ∧ f.off = i.off := by
  have h : dels.all ctorsKnownOk = true := by decide +kernel
  intro d hd c hc
  have h0 := List.all_eq_true.mp h d hd
  unfold ctorsKnownOk at h0
  have h1 := List.all_eq_true.mp h0 c hc
  simp only [Bool.and_eq_true, eqN_iff] at h1
  refine ⟨h1.1, fun i hi => ?_⟩
  have h2 := List.all_eq_true.mp h1.2 i hi
  split at h2
  · rename_i f hf
    have hp := List.find?_some hf
    simp only [eqN_iff] at hp h2
    exact ⟨f, List.mem_of_find?_eq_some hf, hp, h2⟩
  · exact absurd h2 Bool.false_ne_true

/-- **a fresh allocation is never parked in a borrowed member**: whatever a constructor obtains from a call (`strdup`,
`malloc`, `T_new…`) and whatever is allocated and stored into a member later (outside constructors) goes to a member that
somebody releases — under no tag of that constructor is the member classified `borrowed`. -/
theorem fresh_allocations_go_to_released_fields :
    (∀ d ∈ dels, ∀ c ∈ d.ctors, ∀ i ∈ c.inits, isFresh i.src = true →
        ∀ tag ∈ (if c.tags.isEmpty then [0] else c.tags), classify i.field tag ≠ .borrowed) ∧
    (∀ l ∈ lates, isFresh l.src = true → bit borrowedMask l.field = false) := by
  have h : (dels.all ctorsFreshOk && lates.all lateFreshOk) = true := by decide +kernel
  simp only [Bool.and_eq_true] at h
  constructor
  · intro d hd c hc i hi hf tag ht hb
    have h1 := List.all_eq_true.mp (List.all_eq_true.mp (List.all_eq_true.mp h.1 d hd) c hc) i hi
    simp only [hf, Bool.not_true, Bool.false_or] at h1
    have h2 := List.all_eq_true.mp h1 tag ht
    simp [isBorrowed, hb] at h2
  · intro l hl hf
    have h1 := List.all_eq_true.mp h.2 l hl
    simpa only [lateFreshOk, hf, Bool.not_true, Bool.false_or, Bool.not_eq_true'] using h1

/-- **`elsewhere` is honoured**: every member the discipline says is released by another delete function names a delete
function of the tree that does have a release reaching that member's struct through a list chain or inside an element. -/
theorem elsewhere_released_there : ∀ r ∈ specialRules, elsewhereOk r = true := by
  have h : specialRules.all elsewhereOk = true := by decide +kernel
  exact fun r hr => List.all_eq_true.mp h r hr

/-- **a retagged node keeps the books** (statement: `Own.retagOk`): at every place outside constructors where the code
stores a constant into the tag member of an existing node — constant folding (`constred.c`, `enumred.c`: ~150 sites),
`param_enum_record_check_type` (a record type that turns out to be an enum), `expr_tailrec` — for every tag the node can
have before and every owned member it can hold under that tag, the block of the store releases the member with the right
function, or moves it to a member that the new tag's arm releases, or leaves it where the new tag's arm releases it; and
what the block stores into an owned member is released under the new tag.  Partial: five functions are exempted after
review (`Own.reviewedRetags`, reasons there); memory the function has just allocated (`fresh`) is initialisation. -/
theorem retag_keeps_ownership_partial : ∀ r ∈ retags, retagReviewed r = false → retagOk r = true := by
  have h : retags.all (fun r => retagReviewed r || retagOk r) = true := by decide +kernel
  intro r hr hn
  simpa only [hn, Bool.false_or] using List.all_eq_true.mp h r hr

/-- an unguarded `T_delete(v->f)` dereferences `f`: it is only made under tags none of whose constructors stores NULL
into `f` (or zeroes the node) -/
theorem unguarded_releases_never_null : ∀ d ∈ dels, unguardedOk d = true := by
  have h : dels.all unguardedOk = true := by decide +kernel
  exact fun d hd => List.all_eq_true.mp h d hd

/-- **a local allocation is handed on, on every path**: in every function of front/ and back/, a local variable that
receives a fresh allocation (`malloc`, `calloc`, `strdup`, `realloc`, any `*_new*`) is, on every path to the end of the
function, passed to a function (read-only libc functions aside), stored into a member / element / another variable, or
returned — never simply dropped (an early `return`, a branch that forgets to register a buffer, a second allocation over
the first).  The path analysis is the translator's (`gen/owntab.py`, class `Esc`: structured walk, may-analysis, trusted);
this is the statement over its regenerated result. -/
theorem local_allocations_handed_on : ∀ r ∈ localAllocs, r.lost = false := by
  have h : localAllocs.all (fun r => !r.lost) = true := by decide +kernel
  intro r hr
  simpa using List.all_eq_true.mp h r hr

/-- non-vacuity: at least 250 local allocations are tracked -/
example : localAllocs.length ≥ 250 := by decide +kernel

/-- the generated table has the layout the evaluation relies on (`dels[s]` is the row of type `s`, member ids are
positions, the `dtor` column is the delete function of the pointee type, masks = label lists), the translator recognised
every shape (`problems` empty), and every member named by the discipline exists -/
theorem own_table_consistent :
    rowsFrom dels 0 = true ∧ idsFrom fields 0 = true ∧ fields.length = nFields ∧ problems.isEmpty = true ∧
    (∀ f ∈ borrowedAlways, f < nFields) := by
  have h : (rowsFrom dels 0 && idsFrom fields 0 && eqN fields.length nFields && problems.isEmpty &&
      borrowedAlways.all (Nat.blt · nFields)) = true := by decide +kernel
  simp only [Bool.and_eq_true, eqN_iff] at h
  refine ⟨h.1.1.1.1, h.1.1.1.2, h.1.1.2, h.1.2, fun f hf => ?_⟩
  have := List.all_eq_true.mp h.2 f hf
  exact Nat.blt_eq.mp this

/-! ### non-vacuity: what the table covers -/

/-- coverage: at least 85 delete functions (struct types), 300 pointer members, 160 constructors, 80 shapes of retagging
sites; at least 200 (delete function, tag, member) obligations of `owned_fields_released` have all hypotheses true -/
example : dels.length ≥ 85 ∧ nFields ≥ 300 ∧ ctors.length ≥ 160 ∧ retags.length ≥ 80 ∧
    (dels.map fun d => if d.isOpaque then 0 else
      ((tagsOf d).map fun tag => if reachable (ctorsFor d tag) tag then
        (d.fields.filter fun f => holds (ctorsFor d tag) f && isOwned f.id tag).length else 0).sum).sum ≥ 200 := by
  decide +kernel

/-- the checks do fail on a wrong table: `bind_delete` without its first release (`free(id)`) leaves an owned member;
with its first release twice it releases twice; `expr_delete` releasing a typing link releases a borrowed member -/
example : (match dels.find? (fun d => eqN d.fn Fn.bind_delete) with
    | some d => (ownedReleasedOk d, ownedReleasedOk { d with common := d.common.drop 1 },
                 noDoubleOk d, noDoubleOk { d with common := d.common.take 1 ++ d.common })
    | none => (false, false, false, false)) = (true, false, true, false) := by decide +kernel
example : (match dels.find? (fun d => eqN d.fn Fn.expr_delete) with
    | some d => (borrowedKeptOk d, borrowedKeptOk { d with common := [⟨F.expr__comb_array_comb_ret, 24, Fn.param_delete, true, 0, false, false, 0, ""⟩] })
    | none => (false, false)) = (true, false) := by decide +kernel
/-- the retag check fails when the new tag's arm does not release what the old tag held: a `PARAM_RECORD` turned into
`PARAM_ENUMTYPE` by a site that is told the enum arm releases nothing -/
example : (retags.filter fun r => eqN r.fn Fn.param_enum_record_check_type).all retagOk = true ∧
    (retags.filter fun r => eqN r.fn Fn.param_enum_record_check_type).all (fun r => retagOk { r with tag := T.PARAM_INT }) = false := by
  decide +kernel
/-- the classification is not trivial: owned, borrowed, released-elsewhere and conditionally owned members all occur -/
example : classify F.expr__left T.EXPR_ADD = .owned ∧ classify F.expr__comb_func_comb_ret T.EXPR_ADD = .borrowed ∧
    classify F.module_decl__id T.MODULE_DECL_TYPE_MOD = .owned ∧ classify F.module_decl__id T.MODULE_DECL_TYPE_REF = .borrowed ∧
    classify F.expr_list_node__next 0 = .elsewhere Fn.expr_list_delete ∧ classify F.functab_entry__id 0 = .ownedCond := by
  decide +kernel


/-! ### what the table theorems mean on heaps (`Model/OwnSem.lean`) -/
section Sem
open Never.OwnSem

/-- **what a delete function releases is what the node owns**: for every delete function of a struct of the project (arrays
of structs aside) and every tag a node can have, the direct unconditional releases at offsets where a member can hold a
value are — as (offset, type of the child, list link) triples, up to order — exactly the members the discipline classifies
as owned among those that can hold a value; a list head is released along the link member that the discipline attributes
to the list's delete function. -/
theorem table_edges_match :
    ∀ d ∈ dels, ∀ tag ∈ tagsOf d, inScope d tag = true →
      ((relEdges d tag).filter fun e => heldOff d tag e.off).Perm (ownedEdges d tag) := by
  have h : dels.all edgesMatchOk = true := by decide +kernel
  intro d hd tag ht hs
  have h1 := List.all_eq_true.mp (List.all_eq_true.mp h d hd) tag ht
  simp only [hs, Bool.not_true, Bool.false_or] at h1
  exact List.isPerm_iff.mp h1

/-- **deleting a node frees exactly the blocks it owns.**  In ANY heap of nodes whose non-NULL slots lie where the
constructors / later stores of the tree can put a value (`WF`), for any fuel, any start address `a` and static type `τ`:
the walk that does what `τ_delete(a)` does according to the regenerated table — release every direct member the function
releases under the node's tag (recursively with the child type's delete function, a list along its link), then free the
node — and the walk that enumerates what the node owns according to the discipline either both get stuck (out of fuel,
dangling pointer, a child of another type than the member's) or yield the same blocks up to order. -/
theorem delete_frees_exactly_the_owned_tree (h : Heap) (wf : WF h) (fuel τ a : Nat) :
    Agree (walk tableRels h fuel τ a) (walk tableOwned h fuel τ a) := by
  refine (walkP_agree tableRels tableOwned h ?_ fuel).1 τ a
  intro a n hn
  simp only [tableRels, tableOwned]
  cases hd : delOf n.ty with
  | none => exact ⟨fun _ => true, by simp, by simp⟩
  | some d =>
    cases hs : inScope d n.tag with
    | false => exact ⟨fun _ => true, by simp, by simp [hs]⟩
    | true =>
      simp only [hs, ↓reduceIte]
      refine ⟨fun e => heldOff d n.tag e.off, fun e _ hp => ?_, ?_⟩
      · cases hc : n.slot e.off with
        | none => rfl
        | some c =>
          have hh := wf a n hn d hd hs e.off c hc
          simp only [hh] at hp
          cases hp
      · have hmem : d ∈ dels := List.mem_of_getElem? hd
        have htag : n.tag ∈ tagsOf d := by
          have : (tagsOf d).any (eqN n.tag) = true := by
            simp only [inScope, Bool.and_eq_true] at hs; exact hs.1.2
          obtain ⟨t, ht, he⟩ := List.any_eq_true.mp this
          rw [eqN_iff.mp he]; exact ht
        exact table_edges_match d hmem n.tag htag hs

/-- **no double free, no leak, no foreign free**: if what the node owns (transitively, by the discipline) is a tree — the
enumeration `bs` has no repetition — then the delete function terminates with the same fuel, frees every block of `bs`,
only those, and none twice. -/
theorem delete_frees_nothing_twice_and_leaves_nothing (h : Heap) (wf : WF h) (fuel τ a : Nat) (bs : List Nat)
    (hb : walk tableOwned h fuel τ a = some bs) (hnd : bs.Nodup) :
    ∃ fs, walk tableRels h fuel τ a = some fs ∧ fs.Nodup ∧ ∀ b, b ∈ fs ↔ b ∈ bs := by
  have hA := delete_frees_exactly_the_owned_tree h wf fuel τ a
  rw [hb] at hA
  cases hf : walk tableRels h fuel τ a with
  | none => rw [hf] at hA; exact hA.elim
  | some fs =>
    rw [hf] at hA
    exact ⟨fs, rfl, (List.Perm.nodup_iff hA).mpr hnd, fun b => List.Perm.mem_iff hA⟩

/-- non-vacuity: `1 + (2 * 3)`-shaped tree — an `EXPR_ADD` at 1 with an `EXPR_INT` at 2 and an `EXPR_ID` at 3 whose name is
the block 4 (a `char`: no node, so the walk stops there with `none`… unless it is given as a leaf node of type `char`) -/
def exHeap : Heap := fun a =>
  if a = 1 then some ⟨S.expr, T.EXPR_ADD, fun o => if o = 40 then some 2 else if o = 48 then some 3 else none⟩
  else if a = 2 then some ⟨S.expr, T.EXPR_INT, fun _ => none⟩
  else if a = 3 then some ⟨S.expr, T.EXPR_ID, fun o => if o = 40 then some 4 else none⟩
  else if a = 4 then some ⟨S.char, 0, fun _ => none⟩
  else none

example : walk tableRels exHeap 3 S.expr 1 = some [2, 4, 3, 1] ∧ walk tableOwned exHeap 3 S.expr 1 = some [2, 4, 3, 1] := by
  decide +kernel

end Sem

end Own

/-! ## the run-time ledger: blocks owned by the collector -/

/-- **ledger balanced over any history**: starting from `gc_new n`, for every sequence of
operations (allocate any object kind, store, append, collect with any root set, …)
  * the allocator never sees a free of a block that is not live (no double free, no free
    of a foreign pointer) and never hands out a live block,
  * the live blocks are, without duplicates, exactly the collector's own four blocks plus
    the blocks of the cells on the allocated list,
  * their number is `4 + Σ blocksOf` over the allocated cells. -/
theorem ledger_balanced (n : Nat) (h : 2 ≤ n) (ops : List Op) :
    ∃ s, (LSt.new n).exec ops = some s ∧ s.g = (Gc.new n).exec ops ∧
      s.live.Nodup ∧ (∀ b, b ∈ s.live ↔ b ∈ s.g.owned) ∧
      s.live.Perm s.g.owned ∧ s.live.length = s.g.ownedCount := by
  obtain ⟨s, hs, hg, inv, bal⟩ := exec_bal n h ops
  obtain ⟨hp, hc⟩ := bal_count inv bal
  exact ⟨s, hs, hg, bal.nodup, bal.mem, hp, hc⟩

/-- **a collection frees exactly the blocks of the unreachable cells, each once** -/
theorem sweep_frees_exactly_unreachable {g : Gc} {st : List Slot} {gp : Nat} (inv : Inv g)
    (wt : g.wellTyped (.collect st gp) = true) :
    (g.collectFrees st gp).Nodup ∧
    ∀ b, b ∈ g.collectFrees st gp ↔
      ∃ o, Mem.objAt g.mem b.1 = some o ∧ b.2 < blocksOf o ∧ ¬ Live g.mem (allRoots st gp) b.1 := by
  obtain ⟨fl, il⟩ := inv
  simp only [Gc.wellTyped, Bool.and_eq_true, decide_eq_true_eq] at wt
  exact collectFrees_spec il wt.1 wt.2

/-- **`gc_delete` after any history leaves no block allocated and frees nothing twice** -/
theorem gc_delete_releases_all (n : Nat) (h : 2 ≤ n) (ops : List Op) :
    ∃ s, (LSt.new n).exec ops = some s ∧ s.delete = some [] := by
  obtain ⟨s, hs, _, inv, bal⟩ := exec_bal n h ops
  exact ⟨s, hs, delete_all inv bal⟩

/-! ### non-vacuity -/

/-- a history without collection (the marking recursion is well-founded, the kernel does
not unfold it): 4 + vec(3) + str(2) + arr(3, then 4 after the append) + func(2) -/
def exHist : List Op :=
  [.alloc (.vec [0, 0]), .alloc (.str [104, 105]), .setVec 1 0 2, .alloc (.arr [(0, 1)] []), .append 3 2,
   .alloc (.func 1 7)]

example : ((LSt.new 8).exec exHist).map (fun s => (s.live.length, s.g.cur, s.g.ownedCount)) = some (15, [1, 2, 3, 4], 15) := by
  decide +kernel
example : ((LSt.new 8).exec exHist).bind LSt.delete = some [] := by decide +kernel
/-- the hypotheses of `sweep_frees_exactly_unreachable` are met by a state with garbage:
root 3 (the array) keeps the string, the vec and the func are unreachable -/
example : Inv ((Gc.new 8).exec exHist) ∧ ((Gc.new 8).exec exHist).wellTyped (.collect [.addr 3] 0) = true :=
  ⟨by obtain ⟨s, _, hg, inv, _⟩ := exec_bal 8 (by decide) exHist; rw [← hg]; exact inv, by decide +kernel⟩
/-- a history with collections, through the theorem -/
example : ∃ s, (LSt.new 8).exec (exHist ++ [.collect [.addr 3] 0, .alloc (.int 1), .omfalos []]) = some s ∧ s.delete = some [] :=
  gc_delete_releases_all 8 (by decide) _
/-- the allocator model does reject a double free and a free of a foreign block -/
example : runEvents gcBlocks [.free (0, 1), .free (0, 1)] = none := by decide
example : runEvents gcBlocks [.free (5, 0)] = none := by decide

end Never.C16
