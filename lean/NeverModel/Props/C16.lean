import NeverModel.Gen.ParserTab
import NeverModel.Lemmas.Ledger
/-!
# C16 — compile, run and dispose release all memory, on success and on every error path

Property theorems only.  Two models:

* `NeverModel/Gen/ParserTab.lean` — REGENERATED on every run by `gen/parsertab.py` from the
  current text of front/parser.y, front/types.h, front/scanner.l and bison's XML report
  (translator tie).  The theorems below are finite statements over those tables, decided by
  the kernel (`decide`): the quantifier *is* the table.
* `NeverModel/Model/Ledger.lean` — the malloc/free events of back/gc.c + back/object.c on
  top of M-Heap (correspondence tie: harness/h_gcl.c counts the real malloc/free calls).

Not modelled (testing only, `checks/leak_stream.py`): the AST `*_delete` cascade, the
typechecker's early returns, program/module/vm teardown.

Theorems that are true of the *pinned* tree only because of its known defects
(`destructor_table_counterexample`, …) live in `Props/C16Pinned.lean`, so that repairing
parser.y does not break this file.
-/
namespace Never.C16
open Never Never.ParserTab

/-! ## the bison contract: discarded semantic values are released -/

/-- the function that releases a value of the symbol's C type: `free` for `char *`,
`T_delete` for `T *` (the convention of every AST module in front/) -/
def expectedDtor (s : Sym) : String := if s.pointee = "char" then "free" else s.pointee ++ "_delete"

/-- a `%destructor` applies and it hands `$$` to exactly that function -/
def releases (s : Sym) : Bool := s.hasDestructor && s.dtorCalls == [expectedDtor s]

/-- symbols that own heap memory and lack a destructor in the pinned tree (commented out
or never written); re-derived by the translator on every run -/
def knownMissing : List String := ["param_decl", "except"]

/-- those of them bison can actually discard (see `Sym.discardable`) -/
def knownLeaking : List String := []

/-- full-strength statement: every symbol whose value owns heap memory (and is not handed to
the caller) has a destructor that releases it -/
def Complete (t : List Sym) : Prop :=
  ∀ s ∈ t, s.ownsHeap = true → s.handedOut = false → releases s = true

/-- **every heap-owning symbol has a releasing destructor**, except the listed ones.
(The quantifier is the finite generated table; the Boolean form is evaluated by the kernel.) -/
theorem destructor_table_complete_partial :
    ∀ s ∈ syms, s.ownsHeap = true → s.handedOut = false → s.name ∉ knownMissing → releases s = true := by
  have h : syms.all (fun s => !s.ownsHeap || s.handedOut || knownMissing.contains s.name || releases s) = true := by
    decide +kernel
  intro s hs ho hh hn
  have := List.all_eq_true.mp h s hs
  simpa [ho, hh, hn] using this

/-- the same over the symbols bison can discard from its stack (error recovery, abort):
only `param_seq` is left — the other two are always reduced before an error can be
detected (every state entered on them is a pure default-reduction state and they have no
empty rule), so their missing destructor is latent -/
theorem discardable_symbols_released_partial :
    ∀ s ∈ syms, s.ownsHeap = true → s.handedOut = false → s.discardable = true →
      s.name ∉ knownLeaking → releases s = true := by
  have h : syms.all (fun s => !s.ownsHeap || s.handedOut || !s.discardable || knownLeaking.contains s.name || releases s) = true := by
    decide +kernel
  intro s hs ho hh hd hn
  have := List.all_eq_true.mp h s hs
  simpa [ho, hh, hd, hn] using this

/-- **every grammar symbol bison can discard during error recovery releases its heap value** — no exception
(full strength since the `fix:` commit adb6ca8 added the missing `%destructor` for `param_seq`; the table is
regenerated from front/parser.y on every run) -/
theorem discardable_symbols_released :
    ∀ s ∈ syms, s.ownsHeap = true → s.handedOut = false → s.discardable = true → releases s = true := by
  have h : syms.all (fun s => !s.ownsHeap || s.handedOut || !s.discardable || releases s) = true := by
    decide +kernel
  intro s hs ho hh hd
  have := List.all_eq_true.mp h s hs
  simpa [ho, hh, hd] using this

/-- the value handed to the caller through the parse parameter is not also released by
bison when it pops the start symbol on acceptance (that would be a double free) -/
theorem handed_out_not_released : ∀ s ∈ syms, s.handedOut = true → s.dtorCalls = [] := by
  have h : syms.all (fun s => !s.handedOut || s.dtorCalls.isEmpty) = true := by decide +kernel
  intro s hs hh
  have := List.all_eq_true.mp h s hs
  simpa [hh] using this

/-- no destructor touches a value the symbol does not own (keyword tokens carry the stale
pointer of an earlier identifier: freeing it would be a double free) -/
theorem no_destructor_on_unowned : ∀ s ∈ syms, s.ownsHeap = false → s.dtorCalls = [] := by
  have h : syms.all (fun s => s.ownsHeap || s.dtorCalls.isEmpty) = true := by decide +kernel
  intro s hs ho
  have := List.all_eq_true.mp h s hs
  simpa [ho] using this

def symAt (i : Nat) : Option Sym := syms[i]?
def ownsIx (i : Nat) : Bool := match symAt i with | some s => s.ownsHeap | none => false
def nameIx (i : Nat) : String := match symAt i with | some s => s.name | none => ""

/-- the index column of a rule agrees with its name column -/
def ixConsistent (r : Rule) : Bool :=
  r.rhs.length == r.rhsIx.length &&
  (r.rhs.zip r.rhsIx).all fun (n, i) => if i < syms.length then nameIx i == n else (n == "error" || n == "{}")

/-- rule `r` uses (moves or frees) every owning right-hand-side value; a rule without
action has bison's default `$$ = $1` -/
def consumesRhs (r : Rule) : Bool :=
  (List.range r.rhsIx.length).all fun i =>
    !ownsIx (r.rhsIx.getD i syms.length) || r.refs.contains (i + 1) || (!r.hasAction && i == 0)

/-- **every grammar action takes charge of every owning value it pops** — in particular
the error rules (`func: TOK_FUNC TOK_ID error` frees `$2`) -/
theorem rule_actions_consume_rhs : ∀ r ∈ rules, ixConsistent r = true ∧ consumesRhs r = true := by
  have h : rules.all (fun r => ixConsistent r && consumesRhs r) = true := by decide +kernel
  intro r hr
  simpa using List.all_eq_true.mp h r hr

/-- non-vacuity: the tables are populated; owning, discardable, released symbols and an
error rule with an owning value exist -/
example : (syms.filter (·.ownsHeap)).length ≥ 40 ∧
    (syms.filter fun s => s.ownsHeap && s.discardable && releases s).length ≥ 20 ∧
    (rules.filter fun r => r.isError && r.rhsIx.any ownsIx).length ≥ 1 := by decide +kernel

/-! ## the run-time ledger: blocks owned by the collector -/

/-- **ledger balanced over any history**: starting from `gc_new n`, for every sequence of
operations (allocate any object kind, store, append, collect with any root set, …)
  * the allocator never sees a free of a block that is not live (no double free, no free
    of a foreign pointer) and never hands out a live block,
  * the live blocks are, without duplicates, exactly the collector's own four blocks plus
    the blocks of the cells on the allocated list,
  * their number is `4 + Σ blocksOf` over the allocated cells. -/
theorem ledger_balanced (n : Nat) (h : 2 ≤ n) (ops : List Op) :
    ∃ s, (LSt.new n).exec ops = some s ∧ s.g = (Gc.new n).exec ops ∧
      s.live.Nodup ∧ (∀ b, b ∈ s.live ↔ b ∈ s.g.owned) ∧
      s.live.Perm s.g.owned ∧ s.live.length = s.g.ownedCount := by
  obtain ⟨s, hs, hg, inv, bal⟩ := exec_bal n h ops
  obtain ⟨hp, hc⟩ := bal_count inv bal
  exact ⟨s, hs, hg, bal.nodup, bal.mem, hp, hc⟩

/-- **a collection frees exactly the blocks of the unreachable cells, each once** -/
theorem sweep_frees_exactly_unreachable {g : Gc} {st : List Slot} {gp : Nat} (inv : Inv g)
    (wt : g.wellTyped (.collect st gp) = true) :
    (g.collectFrees st gp).Nodup ∧
    ∀ b, b ∈ g.collectFrees st gp ↔
      ∃ o, Mem.objAt g.mem b.1 = some o ∧ b.2 < blocksOf o ∧ ¬ Live g.mem (allRoots st gp) b.1 := by
  obtain ⟨fl, il⟩ := inv
  simp only [Gc.wellTyped, Bool.and_eq_true, decide_eq_true_eq] at wt
  exact collectFrees_spec il wt.1 wt.2

/-- **`gc_delete` after any history leaves no block allocated and frees nothing twice** -/
theorem gc_delete_releases_all (n : Nat) (h : 2 ≤ n) (ops : List Op) :
    ∃ s, (LSt.new n).exec ops = some s ∧ s.delete = some [] := by
  obtain ⟨s, hs, _, inv, bal⟩ := exec_bal n h ops
  exact ⟨s, hs, delete_all inv bal⟩

/-! ### non-vacuity -/

/-- a history without collection (the marking recursion is well-founded, the kernel does
not unfold it): 4 + vec(3) + str(2) + arr(3, then 4 after the append) + func(2) -/
def exHist : List Op :=
  [.alloc (.vec [0, 0]), .alloc (.str [104, 105]), .setVec 1 0 2, .alloc (.arr [(0, 1)] []), .append 3 2,
   .alloc (.func 1 7)]

example : ((LSt.new 8).exec exHist).map (fun s => (s.live.length, s.g.cur, s.g.ownedCount)) = some (15, [1, 2, 3, 4], 15) := by
  decide +kernel
example : ((LSt.new 8).exec exHist).bind LSt.delete = some [] := by decide +kernel
/-- the hypotheses of `sweep_frees_exactly_unreachable` are met by a state with garbage:
root 3 (the array) keeps the string, the vec and the func are unreachable -/
example : Inv ((Gc.new 8).exec exHist) ∧ ((Gc.new 8).exec exHist).wellTyped (.collect [.addr 3] 0) = true :=
  ⟨by obtain ⟨s, _, hg, inv, _⟩ := exec_bal 8 (by decide) exHist; rw [← hg]; exact inv, by decide +kernel⟩
/-- a history with collections, through the theorem -/
example : ∃ s, (LSt.new 8).exec (exHist ++ [.collect [.addr 3] 0, .alloc (.int 1), .omfalos []]) = some s ∧ s.delete = some [] :=
  gc_delete_releases_all 8 (by decide) _
/-- the allocator model does reject a double free and a free of a foreign block -/
example : runEvents gcBlocks [.free (0, 1), .free (0, 1)] = none := by decide
example : runEvents gcBlocks [.free (5, 0)] = none := by decide

end Never.C16
