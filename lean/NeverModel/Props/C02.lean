/-
C02 — compiled programs compute what the language's evaluation rules say.

What is PROVED here are the laws of the reference evaluator S = `Never.Src.eval` (M-Src) that the
property names: evaluation orders, short circuit, shared cells, determinism / fuel monotonicity.
That the real pipeline computes `eval` is NOT proved: it is checked by differential testing
(checks/src_corr.py) on every run.
-/
import NeverModel.Lemmas.SrcTop
import NeverModel.Lemmas.SrcRange
import NeverModel.Lemmas.SrcMod
namespace Never.Src.C02
open Never.Src

def _root_.Never.Src.Outcome.out : Outcome → Bytes
  | .result _ o | .unhandled _ o | .assertFailed o | .outOfFuel o | .crash _ o | .stuck _ o => o

def _root_.Never.Src.Outcome.isOutOfFuel : Outcome → Prop
  | .outOfFuel _ => True
  | _ => False

def _root_.Never.Src.Outcome.exc? : Outcome → Option Exc
  | .unhandled e _ => some e
  | _ => none

instance (o : Outcome) : Decidable o.isOutOfFuel := by
  cases o <;> simp only [Outcome.isOutOfFuel] <;> infer_instance

/-- the int a run returns, if it returns one -/
def _root_.Never.Src.Outcome.int? : Outcome → Option Int
  | .result (.int v) _ => some v.toInt
  | _ => none

/-! ### call / constructor / array-literal arguments: right to left -/

/-- **Arguments right to left.**  The argument list `e :: es` is evaluated by evaluating the
arguments to the RIGHT first (`es`), then `e` in the state they leave. -/
theorem eval_order_call_args_right_to_left (n : Nat) (ctx : Ctx) (env : Env) (e : Expr) (es : List Expr)
    (s s1 s2 : St) (ls : List Loc) (l : Loc)
    (hes : evalArgs n ctx env es s = .ok ls s1) (he : evalE n ctx env e s1 = .ok l s2) :
    evalArgs (n + 1) ctx env (e :: es) s = .ok (l :: ls) s2 := by
  simp only [evalArgs, bind_eq, M.bind, hes, he]; rfl

/-- a fault in an argument to the right: the arguments to its left are never evaluated
(`e` is arbitrary — it may print, fault or diverge) -/
theorem eval_order_call_args_fault_right (n : Nat) (ctx : Ctx) (env : Env) (e : Expr) (es : List Expr)
    (s s1 : St) (ex : Exc) (hes : evalArgs n ctx env es s = .exc ex s1) :
    evalArgs (n + 1) ctx env (e :: es) s = .exc ex s1 := by
  simp only [evalArgs, bind_eq, M.bind, hes]

/-- a call evaluates its arguments (right to left), THEN the function expression, then the body -/
theorem eval_order_call (n : Nat) (ctx : Ctx) (env : Env) (fe : Expr) (args : List Expr)
    (s s1 s2 : St) (ls : List Loc) (lf : Loc) (fid : Nat) (cells : List Loc)
    (hargs : evalArgs n ctx env args s = .ok ls s1) (hf : evalE n ctx env fe s1 = .ok lf s2)
    (hclo : s2.mem[lf]? = some (.clo (some (fid, cells)))) :
    evalE (n + 1) ctx env (.call fe args) s = callClo n ctx fid cells ls s2 := by
  simp only [evalE, bind_eq, M.bind, hargs, hf, load, hclo]

/-- record constructor, tuple and array literal use the same right-to-left argument evaluation -/
theorem eval_order_constructor_args (n : Nat) (ctx : Ctx) (env : Env) (args : List Expr) (s s1 : St) (ex : Exc)
    (h : evalArgs n ctx env args s = .exc ex s1) (rn : Name) (dims : List Nat) (ty : Ty) :
    evalE (n + 1) ctx env (.record rn args) s = .exc ex s1 ∧
    evalE (n + 1) ctx env (.tuple args) s = .exc ex s1 ∧
    evalE (n + 1) ctx env (.arrLit dims args ty) s = .exc ex s1 := by
  simp only [evalE, bind_eq, M.bind, h, and_self]

/-! ### binary operands: left to right -/

/-- **Binary operands left to right.**  `a op b`: `a` first, `b` in the state `a` leaves, then the
two operand CELLS are read and combined. -/
theorem eval_order_binary_left_to_right (n : Nat) (ctx : Ctx) (env : Env) (op : BinOp) (a b : Expr)
    (s s1 s2 : St) (la lb : Loc)
    (ha : evalE n ctx env a s = .ok la s1) (hb : evalE n ctx env b s1 = .ok lb s2) :
    evalE (n + 1) ctx env (.bin op a b) s =
      (do let va ← load la; let vb ← load lb; let r ← binopM op va vb; alloc r) s2 := by
  simp only [evalE, bind_eq, M.bind, ha, hb]

/-- a fault in the left operand: the right operand is never evaluated -/
theorem eval_order_binary_fault_left (n : Nat) (ctx : Ctx) (env : Env) (op : BinOp) (a b : Expr)
    (s s1 : St) (ex : Exc) (ha : evalE n ctx env a s = .exc ex s1) :
    evalE (n + 1) ctx env (.bin op a b) s = .exc ex s1 := by
  simp only [evalE, bind_eq, M.bind, ha]

/-- a fault in the right operand happens in the state the left operand left (its effects are kept) -/
theorem eval_order_binary_fault_right (n : Nat) (ctx : Ctx) (env : Env) (op : BinOp) (a b : Expr)
    (s s1 s2 : St) (la : Loc) (ex : Exc)
    (ha : evalE n ctx env a s = .ok la s1) (hb : evalE n ctx env b s1 = .exc ex s2) :
    evalE (n + 1) ctx env (.bin op a b) s = .exc ex s2 := by
  simp only [evalE, bind_eq, M.bind, ha, hb]

/-- assignment: the LEFT side is evaluated first -/
theorem eval_order_assign_fault_left (n : Nat) (ctx : Ctx) (env : Env) (l r : Expr)
    (s s1 : St) (ex : Exc) (hl : evalE n ctx env l s = .exc ex s1) :
    evalE (n + 1) ctx env (.assign l r) s = .exc ex s1 := by
  simp only [evalE, bind_eq, M.bind, hl]

/-! ### short circuit -/

/-- **`false && e` does not evaluate `e`** (whatever `e` is): the result is a fresh cell
holding 0, in the state the left operand left. -/
theorem eval_order_and_short_circuit (n : Nat) (ctx : Ctx) (env : Env) (a b : Expr) (s s1 : St) (la : Loc)
    (ha : evalE n ctx env a s = .ok la s1) (h0 : s1.mem[la]? = some (.int 0)) :
    evalE (n + 1) ctx env (.and a b) s = alloc (.int 0) s1 := by
  simp only [evalE, bind_eq, M.bind, ha, load, h0, truthy, pure, M.pure]
  rfl

/-- **`true || e` does not evaluate `e`.** -/
theorem eval_order_or_short_circuit (n : Nat) (ctx : Ctx) (env : Env) (a b : Expr) (s s1 : St) (la : Loc) (v : Int32)
    (ha : evalE n ctx env a s = .ok la s1) (h1 : s1.mem[la]? = some (.int v)) (hv : (v != 0) = true) :
    evalE (n + 1) ctx env (.or a b) s = alloc (.int 1) s1 := by
  simp only [evalE, bind_eq, M.bind, ha, load, h1, truthy, pure, M.pure, hv]
  rfl

/-- when the left operand of `&&` is true the right one IS evaluated, after it -/
theorem eval_order_and_evaluates_right (n : Nat) (ctx : Ctx) (env : Env) (a b : Expr) (s s1 s2 : St) (la : Loc) (v : Int32)
    (ex : Exc) (ha : evalE n ctx env a s = .ok la s1) (h1 : s1.mem[la]? = some (.int v)) (hv : (v != 0) = true)
    (hb : evalE n ctx env b s1 = .exc ex s2) :
    evalE (n + 1) ctx env (.and a b) s = .exc ex s2 := by
  simp only [evalE, bind_eq, M.bind, ha, load, h1, truthy, pure, M.pure, hv, if_true, hb]

/-! ### determinism, fuel monotonicity -/

/-- **Fuel monotonicity.**  An outcome other than "out of fuel" is the outcome for every larger fuel. -/
theorem eval_fuel_mono (p : Prog) (args : List Arg) (n m : Nat) (h : n ≤ m)
    (hn : ¬ (eval p args n).isOutOfFuel) : eval p args m = eval p args n := by
  have : ¬ (runMain p args n).isOOF := by
    intro hoof
    apply hn
    simp only [eval]
    cases hr : runMain p args n with
    | ok l s => rw [hr] at hoof; exact absurd hoof (fun h => h)
    | exc e s => rw [hr] at hoof; exact absurd hoof (fun h => h)
    | stop k s =>
      rw [hr] at hoof
      cases k with
      | outOfFuel => trivial
      | assertFailed => exact absurd hoof (fun h => h)
      | crash m => exact absurd hoof (fun h => h)
      | stuck m => exact absurd hoof (fun h => h)
  simp only [eval, runMain_mono p args n m h this]

/-- **Determinism.**  `eval` is a function; two fuels that both suffice give the same outcome. -/
theorem eval_deterministic (p : Prog) (args : List Arg) (n m : Nat)
    (hn : ¬ (eval p args n).isOutOfFuel) (hm : ¬ (eval p args m).isOutOfFuel) :
    eval p args n = eval p args m := by
  cases Nat.le_total n m with
  | inl h => exact (eval_fuel_mono p args n m h hn).symm
  | inr h => exact eval_fuel_mono p args m n h hm

/-! ### binding shares cells -/

/-- a use of a name evaluates to the name's CELL (no copy, no allocation, store unchanged) -/
theorem var_evaluates_to_its_cell (n : Nat) (ctx : Ctx) (env : Env) (x : Name) (l : Loc) (s : St)
    (h : lookup x env = some l) : evalE (n + 1) ctx env (.var x) s = .ok l s := by
  simp only [evalE, h]; rfl

/-- **Binding never copies.**  `let b = a` / `var b = a` binds `b` to the very cell of `a`: the rest
of the block runs in an environment where `a` and `b` denote the same location. -/
theorem binding_shares_cells (n : Nat) (ctx : Ctx) (env : Env) (isVar : Bool) (a b : Name) (l : Loc)
    (rest : List Item) (s : St) (h : lookup a env = some l) :
    evalSeq (n + 2) ctx env (.bind isVar b (.var a) :: rest) s = evalSeq (n + 1) ctx ((b, l) :: env) rest s := by
  simp only [evalSeq, bind_eq, M.bind, var_evaluates_to_its_cell n ctx env a l s h]

/-- … hence an assignment through one name is read through the other: after `a = e`, reading
`b` (bound to the same cell) yields the stored value. -/
theorem assignment_seen_through_alias (n : Nat) (ctx : Ctx) (env : Env) (a b : Name) (l : Loc) (s : St)
    (ha : lookup a env = some l) (hb : lookup b env = some l) (v : Val) (hl : l < s.mem.size) :
    ∀ s', store l v s = .ok () s' →
      evalE (n + 1) ctx env (.var a) s' = .ok l s' ∧ evalE (n + 1) ctx env (.var b) s' = .ok l s' ∧ s'.mem[l]? = some v := by
  intro s' hs
  refine ⟨var_evaluates_to_its_cell n ctx env a l s' ha, var_evaluates_to_its_cell n ctx env b l s' hb, ?_⟩
  simp only [store] at hs
  injection hs with _ h2
  rw [← h2]
  simp [hl]

/-- parameter passing shares cells too: the callee's parameter is bound to the argument's cell
(no numeric conversion applying) -/
theorem parameter_shares_cell (p : Param) (l : Loc) (env : Env) (s : St) (v : Val)
    (hv : s.mem[l]? = some v) (hc : convTo p.ty v = none) (hd : p.dims = []) :
    bindParams [p] [l] env s = .ok ((p.name, l) :: env) s := by
  simp only [bindParams, convCell, bind_eq, M.bind, load, hv, hc, hd, pure, M.pure, List.isEmpty_nil, if_true]

/-! ### ranges and slices

The evaluator's rules for `[a .. b]`, `x[a .. b]`, indexing and iteration, stated against the index arithmetic of
C12 (`Never.Idx.rangePos`, `rangeLen`, `sliceRange`; `Props/C12.lean` proves `range_denotation`, `slice_of_slice`,
`range_deref_exact` about the C functions' model).  "No overflow" hypotheses exclude the places where the C code's
`int` additions `from ± index` leave `int`. -/

/-- **Range bounds right to left; a range holds the bound CELLS.**  `[a .. b]`: `b` is evaluated first, then `a` in the
state `b` leaves; the range object refers to the very cells the two expressions evaluated to (nothing is copied: a
later assignment to a variable used as a bound changes the range). -/
theorem eval_order_range_bounds (n : Nat) (ctx : Ctx) (env : Env) (ea eb : Expr) (s s1 s2 : St) (la lb : Loc)
    (hb : evalE (n + 1) ctx env eb s = .ok lb s1) (ha : evalE (n + 2) ctx env ea s1 = .ok la s2) :
    evalE (n + 4) ctx env (.range [ea, eb]) s =
      (do let o ← alloc (.rngObj #[la, lb]); alloc (.rng (some o))) s2 := by
  simp only [evalE, evalArgs, bind_eq, M.bind, hb, ha, pure, M.pure]

/-- a fault in the `to` bound: the `from` bound is never evaluated -/
theorem eval_order_range_fault_right (n : Nat) (ctx : Ctx) (env : Env) (ea eb : Expr) (s s1 : St) (ex : Exc)
    (hb : evalE (n + 1) ctx env eb s = .exc ex s1) :
    evalE (n + 4) ctx env (.range [ea, eb]) s = .exc ex s1 := by
  simp only [evalE, evalArgs, bind_eq, M.bind, hb, pure, M.pure]

/-- `x[a .. b]`: the sliced expression `x` FIRST, then the bounds (right to left): a fault in `x` leaves the bounds
unevaluated, a fault in the bounds happens in the state `x` left -/
theorem eval_order_slice (n : Nat) (ctx : Ctx) (env : Env) (x : Expr) (bounds : List Expr) (s s1 s2 : St) (ex : Exc) (lx : Loc) :
    (evalE n ctx env x s = .exc ex s1 → evalE (n + 1) ctx env (.slice x bounds) s = .exc ex s1) ∧
    (evalE n ctx env x s = .ok lx s1 → evalArgs n ctx env bounds s1 = .exc ex s2 →
      evalE (n + 1) ctx env (.slice x bounds) s = .exc ex s2) := by
  constructor
  · intro h; simp only [evalE, bind_eq, M.bind, h]
  · intro h1 h2; simp only [evalE, bind_eq, M.bind, h1, h2]

/-- **A range sees an assignment to a variable used as its bound.**  The range object `o` holds the cells `lf`, `lt`;
after a store of `v` into `lt` (an assignment to the variable that was the `to` bound) its bounds are `(a, v)`. -/
theorem range_sees_assignment_to_bound (s : St) (o lf lt : Loc) (a b v : Int32)
    (ho : s.mem[o]? = some (.rngObj #[lf, lt])) (hf : s.mem[lf]? = some (.int a)) (ht : s.mem[lt]? = some (.int b))
    (hne : lf ≠ lt) :
    ∀ s', store lt (.int v) s = .ok () s' → rngBounds o s' = .ok [(a.toInt, v.toInt)] s' := by
  intro s' hs
  simp only [store] at hs
  injection hs with _ h2
  have hlt : lt < s.mem.size := by
    cases h : s.mem[lt]? with
    | none => rw [h] at ht; cases ht
    | some x => exact (Array.getElem?_eq_some_iff.mp h).1
  have hol : o ≠ lt := by
    intro heq; rw [heq, ht] at ho; cases ho
  apply rngBounds_ok s' o lf lt a v
  · rw [← h2]; simp only [Array.setIfInBounds, hlt, dite_true, Array.getElem?_set, Ne.symm hol, if_false]; exact ho
  · rw [← h2]; simp only [Array.setIfInBounds, hlt, dite_true, Array.getElem?_set, Ne.symm hne, if_false]; exact hf
  · rw [← h2]; simp [Array.setIfInBounds, hlt]

/-- **`r[i]` on a range is C12's position `i`.**  For the range object `o` with bound cells holding `a`, `b`, indexing
with `i` (no `int` overflow in `a ± i`): when `0 ≤ i < rangeLen a b` the result is a fresh 1-element int array holding
`rangePos a b i` — exactly `Idx.rangeDerefIndex` / `Idx.range_deref_exact` of C12 — and `index_out_of_bounds`
otherwise (negative index or beyond `to`); the store is otherwise unchanged. -/
theorem range_index_denotation (s : St) (o lf lt : Loc) (a b : Int32) (i : Int)
    (ho : s.mem[o]? = some (.rngObj #[lf, lt])) (hf : s.mem[lf]? = some (.int a)) (ht : s.mem[lt]? = some (.int b))
    (hov : inInt32 (a.toInt + i) = true ∧ inInt32 (a.toInt - i) = true) :
    rangeDeref (some o) [i] s =
      if 0 ≤ i ∧ i < (Idx.rangeLen a.toInt b.toInt : Int) then
        .ok (s.mem.size + 2) { s with mem := ((s.mem.push (.int (Int32.ofInt (Idx.rangePos a.toInt b.toInt i)))).push
          (.arrObj [1] #[s.mem.size])).push (.arr (some (s.mem.size + 1))) }
      else .exc .index_out_of_bounds { s with raised := .index_out_of_bounds :: s.raised } := by
  by_cases hc : 0 ≤ i ∧ i < (Idx.rangeLen a.toInt b.toInt : Int)
  · simp only [rangeDeref, bind_eq, M.bind, rngBounds_ok s o lf lt a b ho hf ht, rangePositions, sliceRangeM_single _ _ _ hov,
      if_pos hc, pure, M.pure, allocInts, alloc, List.length_cons, List.length_nil, Array.size_push]
  · simp only [rangeDeref, bind_eq, M.bind, rngBounds_ok s o lf lt a b ho hf ht, rangePositions, sliceRangeM_single _ _ _ hov,
      if_neg hc]
    rfl

/-- the same statement through C12's model of `vm_execute_range_deref`: the evaluator succeeds exactly when
`Idx.rangeDerefIndex` does, with its result -/
theorem range_index_matches_idx (s : St) (o lf lt : Loc) (a b : Int32) (i : Int)
    (ho : s.mem[o]? = some (.rngObj #[lf, lt])) (hf : s.mem[lf]? = some (.int a)) (ht : s.mem[lt]? = some (.int b))
    (hov : inInt32 (a.toInt + i) = true ∧ inInt32 (a.toInt - i) = true) (r : Int) :
    Idx.rangeDerefIndex a.toInt b.toInt i = .ok r ↔
      ∃ l s', rangeDeref (some o) [i] s = .ok l s' ∧ s'.mem[s.mem.size]? = some (.int (Int32.ofInt r)) ∧
        r = Idx.rangePos a.toInt b.toInt i := by
  rw [Idx.range_deref_exact, range_index_denotation s o lf lt a b i ho hf ht hov]
  constructor
  · rintro ⟨h0, h1, h2⟩
    refine ⟨_, _, by rw [if_pos ⟨h0, h1⟩], ?_, h2⟩
    subst h2
    simp [Array.getElem?_push]
    omega
  · rintro ⟨l, s', h, _, h2⟩
    by_cases hc : 0 ≤ i ∧ i < (Idx.rangeLen a.toInt b.toInt : Int)
    · exact ⟨hc.1, hc.2, h2⟩
    · rw [if_neg hc] at h; cases h

/-- **Slicing an array does not copy and does not check.**  `arr[a .. b]` on a non-nil array builds a slice that refers to
the array OBJECT `ao` itself and to the range object of the bounds, whatever the bounds are (`SLICE_ARRAY` has no bounds
check; the elements are checked when they are used). -/
theorem slice_of_array_shares_object (s : St) (ao rb : Loc) :
    sliceOf (.arr (some ao)) rb s =
      .ok (s.mem.size + 1) { s with mem := (s.mem.push (.slcObj ao rb)).push (.slc (some s.mem.size)) } := by
  simp only [sliceOf, bind_eq, M.bind, alloc, Array.size_push]

/-- **A slice aliases its array.**  Element `i` of the slice `arr[a .. b]` (slice object `so` over array object `ao`, bound
cells holding `a`, `b`; no `int` overflow in `a ± i`) IS the cell of element `rangePos a b i` of the array: `s[i]` and
`arr[rangePos a b i]` evaluate to the same location in the same state — so a store through the array is read through
the slice and a store through the slice is read through the array; outside `0 ≤ i < rangeLen a b` the access raises
`index_out_of_bounds`; a position that is not an element of the array raises it inside `arrDeref`. -/
theorem slice_aliases_array (s : St) (so ao ro lf lt : Loc) (a b : Int32) (i : Int)
    (hs : s.mem[so]? = some (.slcObj ao ro)) (hr : s.mem[ro]? = some (.rngObj #[lf, lt]))
    (hf : s.mem[lf]? = some (.int a)) (ht : s.mem[lt]? = some (.int b))
    (hov : inInt32 (a.toInt + i) = true ∧ inInt32 (a.toInt - i) = true) :
    sliceDeref (some so) [i] s =
      if 0 ≤ i ∧ i < (Idx.rangeLen a.toInt b.toInt : Int) then arrDeref (.arr (some ao)) [Idx.rangePos a.toInt b.toInt i] s
      else .exc .index_out_of_bounds { s with raised := .index_out_of_bounds :: s.raised } := by
  by_cases hneg : i < 0
  · have h1 : ¬ (0 ≤ i ∧ i < (Idx.rangeLen a.toInt b.toInt : Int)) := by omega
    simp only [sliceDeref, List.any_cons, List.any_nil, Bool.or_false, hneg, decide_true, if_true, h1, if_false]
    rfl
  · by_cases hc : 0 ≤ i ∧ i < (Idx.rangeLen a.toInt b.toInt : Int)
    · simp only [sliceDeref, List.any_cons, List.any_nil, Bool.or_false, hneg, decide_false, Bool.false_eq_true, if_false,
        bind_eq, M.bind, load_ok so s _ hs, rngBounds_ok s ro lf lt a b hr hf ht, rangePositions, sliceRangeM_single _ _ _ hov,
        if_pos hc, pure, M.pure]
    · simp only [sliceDeref, List.any_cons, List.any_nil, Bool.or_false, hneg, decide_false, Bool.false_eq_true, if_false,
        bind_eq, M.bind, load_ok so s _ hs, rngBounds_ok s ro lf lt a b hr hf ht, rangePositions, sliceRangeM_single _ _ _ hov,
        if_neg hc]
      rfl

/-- … in the evaluator's own terms: an index expression on an array reference and one on a slice of it denote the same
cell, hence `assignment_seen_through_alias` applies to them (kernel-evaluated instances below) -/
theorem slice_element_is_array_element (n : Nat) (ctx : Ctx) (env : Env) (xs xa : Name) (ls la : Loc) (s : St)
    (so ao ro lf lt : Loc) (a b : Int32) (i : Int32)
    (hxs : lookup xs env = some ls) (hxa : lookup xa env = some la)
    (hls : s.mem[ls]? = some (.slc (some so))) (hla : s.mem[la]? = some (.arr (some ao)))
    (hs : s.mem[so]? = some (.slcObj ao ro)) (hr : s.mem[ro]? = some (.rngObj #[lf, lt]))
    (hf : s.mem[lf]? = some (.int a)) (ht : s.mem[lt]? = some (.int b))
    (hov : inInt32 (a.toInt + i.toInt) = true ∧ inInt32 (a.toInt - i.toInt) = true)
    (hin : 0 ≤ i.toInt ∧ i.toInt < (Idx.rangeLen a.toInt b.toInt : Int))
    (li lj : Loc)
    (hi : s.mem[li]? = some (.int i)) (hj : s.mem[lj]? = some (.int (Int32.ofInt (Idx.rangePos a.toInt b.toInt i.toInt))))
    (hpos : (Int32.ofInt (Idx.rangePos a.toInt b.toInt i.toInt)).toInt = Idx.rangePos a.toInt b.toInt i.toInt)
    (xi xj : Name) (hxi : lookup xi env = some li) (hxj : lookup xj env = some lj) :
    evalE (n + 3) ctx env (.index (.var xs) [.var xi]) s = evalE (n + 3) ctx env (.index (.var xa) [.var xj]) s := by
  simp only [evalE, evalArgs, hxs, hxa, hxi, hxj, bind_eq, M.bind, pure, M.pure, getInts, getInt, load_ok _ s _ hi,
    load_ok _ s _ hj, load_ok _ s _ hls, load_ok _ s _ hla, hpos]
  rw [slice_aliases_array s so ao ro lf lt a b i.toInt hs hr hf ht hov, if_pos hin]

/-- **A loop over `[a .. b]` visits C12's positions in order.**  While nothing assigns the `to` cell, the counter of
`for (x in [a..b])` / of a generator `x in [a..b]` (start at `from`, one step towards `to`, stop after `to` — `inRange`,
`stepRange` of the evaluator's loops) takes exactly the values `rangePos a b 0, …, rangePos a b (rangeLen a b − 1)`:
ascending, descending and one-element ranges alike (`Idx.range_denotation` is about these positions). -/
theorem range_loop_visits_positions (a b : Int) (fuel : Nat) (hf : Idx.rangeLen a b < fuel) :
    loopVals (decide (a < b)) b fuel a = (List.range (Idx.rangeLen a b)).map (fun (k : Nat) => Idx.rangePos a b k) :=
  loopVals_positions a b fuel hf

/-- one iteration of the evaluator's loop over a range is one step of `loopVals`: with the `to` cell holding `t`, the
loop at counter `cur` either ends (fresh int 0) or binds `x` to a FRESH cell holding `cur`, runs the body, and continues
at `stepRange asc cur` -/
theorem for_in_range_step (f : Nat) (ctx : Ctx) (env : Env) (x : Name) (cur : Int) (asc : Bool) (lt : Loc) (t : Int32)
    (body : Expr) (s : St) (ht : s.mem[lt]? = some (.int t)) :
    evalForRng (f + 1) ctx env x none cur asc lt body s =
      if inRange asc cur t.toInt then
        (do let l ← alloc (.int (Int32.ofInt cur))
            let _ ← evalE f ctx ((x, l) :: env) body
            if inInt32 (stepRange asc cur) then evalForRng f ctx env x none (stepRange asc cur) asc lt body
            else stopM (.crash "range counter overflows int")) s
      else alloc (.int 0) s := by
  simp only [evalForRng, bind_eq, M.bind, getInt_ok lt s t ht, rngElem]
  split <;> rfl

/-- **`[ x | x in [a .. b] ]` is the array of the range's positions.**  The generator loop of a comprehension over a
range (counter at `from` = `a`, the `to` cell `lt` holding `b`, body `x`, element type int, array object `o` under
construction with elements `elems`), given enough fuel and no `int` overflow of the counter, ends normally; it
allocates exactly `rangeLen a b` fresh int cells holding `rangePos a b 0, …, rangePos a b (rangeLen a b − 1)` — C12's
denotation of the range, ascending, descending or one-element — appends them in this order to the array object, and
changes nothing else (no output). -/
theorem comprehension_over_range_denotation (ctx : Ctx) (env : Env) (x : Name) (lt o : Loc) (a : Int) (b : Int32) (f : Nat)
    (s : St) (d : List Nat) (elems : Array Loc)
    (ht : s.mem[lt]? = some (.int b)) (ho : s.mem[o]? = some (.arrObj d elems)) (hne : lt ≠ o)
    (hov : ∀ k : Nat, k < Idx.rangeLen a b.toInt →
      inInt32 (stepRange (decide (a < b.toInt)) (Idx.rangePos a b.toInt k)) = true)
    (hf : Idx.rangeLen a b.toInt + 3 ≤ f) :
    ∃ s', evalGenRng f ctx env x none a (decide (a < b.toInt)) lt [] (.var x) .int o s = .ok () s' ∧
      s'.mem.size = s.mem.size + Idx.rangeLen a b.toInt ∧
      s'.mem[o]? = some (.arrObj [elems.size + Idx.rangeLen a b.toInt]
        (elems ++ ((List.range (Idx.rangeLen a b.toInt)).map (fun k => s.mem.size + k)).toArray)) ∧
      (∀ k, k < Idx.rangeLen a b.toInt →
        s'.mem[s.mem.size + k]? = some (.int (Int32.ofInt (Idx.rangePos a b.toInt k)))) ∧
      (∀ l, l < s.mem.size → l ≠ o → s'.mem[l]? = s.mem[l]?) ∧ s'.out = s.out := by
  have hlen : ((List.range (Idx.rangeLen a b.toInt)).map (fun (k : Nat) => Idx.rangePos a b.toInt k)).length
      = Idx.rangeLen a b.toInt := by simp
  have hpos := loopVals_positions a b.toInt (Idx.rangeLen a b.toInt + 1) (by omega)
  have hne0 : (List.range (Idx.rangeLen a b.toInt)).map (fun (k : Nat) => Idx.rangePos a b.toInt k) ≠ [] := by
    intro h
    have := congrArg List.length h
    simp [Idx.rangeLen] at this
  have hrun := genRng_var_run ctx env x (decide (a < b.toInt)) lt o b hne
    ((List.range (Idx.rangeLen a b.toInt)).map (fun (k : Nat) => Idx.rangePos a b.toInt k)) f a s d elems
    (by rw [hlen]; exact hpos.symm)
    (by
      intro v hv
      simp only [List.mem_map, List.mem_range] at hv
      obtain ⟨k, hk, rfl⟩ := hv
      exact hov k hk)
    ht ho (by rw [hlen]; exact hf)
  obtain ⟨g1, g2, g3, g4, g5⟩ := genFold_spec o
    ((List.range (Idx.rangeLen a b.toInt)).map (fun (k : Nat) => Idx.rangePos a b.toInt k)) s d elems ho
  refine ⟨_, hrun, ?_, ?_, ?_, g4, g5⟩
  · rw [g1, hlen]
  · rw [g2, hlen, if_neg hne0]
  · intro k hk
    have := g3 k (by rw [hlen]; exact hk)
    rw [this]
    simp

/-- **Extent and bound names are references, evaluated where they are used.**  Calling `f(p[n1, …])` (array, range or
slice parameter with names) looks at NOTHING of the argument: each name is bound to a fresh cell holding the reference
`(cell of p, position of the name)` — so a nil argument is accepted by the call. -/
theorem parameter_names_are_references (p : Param) (l : Loc) (n1 n2 : Name) (env : Env) (s : St) (v : Val)
    (hv : s.mem[l]? = some v) (hc : convTo p.ty v = none) (hd : p.dims = [n1, n2]) :
    bindParams [p] [l] env s =
      .ok ((n2, s.mem.size + 1) :: (n1, s.mem.size) :: (p.name, l) :: env)
        { s with mem := (s.mem.push (.dimRef l 0)).push (.dimRef l 1) } := by
  simp only [bindParams, convCell, bindDimsOf, bindDimRefs, bind_eq, M.bind, load, hv, hc, hd, pure, M.pure,
    List.isEmpty_cons, Bool.false_eq_true, if_false, alloc, Array.size_push]

/-- **A bound name of a range parameter is the range's own cell.**  In `func f(r[lo .. hi] : range)`, a use of `hi`
(bound to the reference `(cell of r, 1)`) evaluates — at that moment — to the `to` CELL of the range `r` holds: no copy,
no allocation; an assignment through a variable used as the bound is seen, and a nil `r` raises `nil_pointer` HERE. -/
theorem range_bound_name_is_the_bound_cell (n : Nat) (ctx : Ctx) (env : Env) (x : Name) (c p o : Loc) (k : Nat)
    (bs : Array Loc) (b : Loc) (s : St)
    (hx : lookup x env = some c) (hc : s.mem[c]? = some (.dimRef p k))
    (hp : s.mem[p]? = some (.rng (some o))) (ho : s.mem[o]? = some (.rngObj bs)) (hb : bs[k]? = some b) :
    evalE (n + 1) ctx env (.dimVar x) s = .ok b s := by
  simp only [evalE, hx, bind_eq, M.bind, load, hc, dimValue, hp, ho, hb]; rfl

/-- **An extent name is read from the array the parameter holds when the name is used** (a fresh int), and the bound
names of a slice parameter `s[f .. t] : T` are fresh ints 0 and |to − from| (`ID_DIM_SLICE`) -/
theorem extent_name_is_read_at_use (n : Nat) (ctx : Ctx) (env : Env) (x : Name) (c p o : Loc) (k : Nat)
    (dims : List Nat) (elems : Array Loc) (e : Nat) (s : St)
    (hx : lookup x env = some c) (hc : s.mem[c]? = some (.dimRef p k))
    (hp : s.mem[p]? = some (.arr (some o))) (ho : s.mem[o]? = some (.arrObj dims elems)) (he : dims[k]? = some e) :
    evalE (n + 1) ctx env (.dimVar x) s = alloc (.int (Int32.ofNat e)) s := by
  simp only [evalE, hx, bind_eq, M.bind, load, hc, dimValue, hp, ho, he]

theorem slice_bound_names (n : Nat) (ctx : Ctx) (env : Env) (x : Name) (c p so ao ro lf lt : Loc) (a b : Int32) (s : St)
    (hx : lookup x env = some c) (hp : s.mem[p]? = some (.slc (some so))) (hs : s.mem[so]? = some (.slcObj ao ro))
    (hr : s.mem[ro]? = some (.rngObj #[lf, lt])) (hf : s.mem[lf]? = some (.int a)) (ht : s.mem[lt]? = some (.int b)) :
    (s.mem[c]? = some (.dimRef p 0) → evalE (n + 1) ctx env (.dimVar x) s = alloc (.int 0) s) ∧
    (s.mem[c]? = some (.dimRef p 1) → evalE (n + 1) ctx env (.dimVar x) s =
      alloc (.int (Int32.ofInt (if b.toInt > a.toInt then b.toInt - a.toInt else a.toInt - b.toInt))) s) := by
  constructor
  · intro hc
    simp only [evalE, hx, bind_eq, M.bind, load, hc, dimValue, hp, hs]; rfl
  · intro hc
    have h1 : (1 : Nat) % 2 = 0 ↔ False := by decide
    simp only [evalE, hx, bind_eq, M.bind, load, hc, dimValue, hp, hs, h1, if_false, rngBounds_ok s ro lf lt a b hr hf ht]
    rfl

/-- **An extent name ignores shadowing of the parameter's NAME.**  `D` of `a[D]` holds a reference to the parameter's
CELL: whatever is bound later under other names — in particular a `let a = …`, a match binding or a loop variable that
shadows the parameter's own name `a` — a use of `D` evaluates exactly as before (and, by `extent_name_is_read_at_use`,
reads the extent of the array in that cell). -/
theorem extent_name_ignores_shadowing_of_the_parameter_name (n : Nat) (ctx : Ctx) (env : Env) (x pn : Name) (l2 : Loc)
    (s : St) (hne : x ≠ pn) :
    evalE (n + 1) ctx ((pn, l2) :: env) (.dimVar x) s = evalE (n + 1) ctx env (.dimVar x) s := by
  simp only [evalE, lookup, hne, if_false]

/-- **A nil array, range or slice raises `nil_pointer` where one of its names is used** (not at the call; a callee that
never uses the names runs normally) -/
theorem name_of_nil_parameter_raises (n : Nat) (ctx : Ctx) (env : Env) (x : Name) (c p : Loc) (k : Nat) (s : St) (v : Val)
    (hx : lookup x env = some c) (hc : s.mem[c]? = some (.dimRef p k)) (hp : s.mem[p]? = some v)
    (hv : v = .arr none ∨ v = .rng none ∨ v = .slc none) :
    evalE (n + 1) ctx env (.dimVar x) s = throwE .nil_pointer s := by
  rcases hv with rfl | rfl | rfl <;> simp only [evalE, hx, bind_eq, M.bind, load, hc, dimValue, hp]

/-- a loop or a comprehension over a nil array raises `nil_pointer` (`ID_DIM_LOCAL` since repo fix 7100a94) -/
theorem for_in_nil_array_raises (f : Nat) (ctx : Ctx) (env : Env) (x : Name) (lc : Loc) (i : Nat) (b : Expr) (s : St)
    (qs : List Qual) (body : Expr) (ty : Ty) (o : Loc) (h : s.mem[lc]? = some (.arr none)) :
    evalForIn (f + 1) ctx env x lc i b s = throwE .nil_pointer s ∧
    evalGen (f + 1) ctx env x lc i qs body ty o s = throwE .nil_pointer s := by
  constructor <;> simp only [evalForIn, evalGen, bind_eq, M.bind, load, h]

/-! ### element-wise array arithmetic -/

/-- **`a + b`, `a - b` on arrays: shape conformance, then element by element.**  For two non-nil arrays with extents `d1`,
`d2`: exactly when C12's guard `Idx.canAdd` holds — i.e. (`Idx.shape_conformance`) same number of dimensions and the
same extents, `d1 = d2` — the result is a fresh array of that shape whose cells hold `binop op` of the corresponding
elements, in order; otherwise `wrong_array_size` is raised and nothing is allocated. -/
theorem array_add_shape_conformance (op : BinOp) (s : St) (o1 o2 : Loc) (d1 d2 : List Nat) (e1 e2 : Array Loc)
    (h1 : s.mem[o1]? = some (.arrObj d1 e1)) (h2 : s.mem[o2]? = some (.arrObj d2 e2)) :
    (Idx.canAdd (extDv d1) (extDv d2) = true ↔ d1 = d2) ∧
    arrZip op (some o1) (some o2) s =
      if d1 = d2 then
        (do let v1 ← loadVals e1.toList
            let v2 ← loadVals e2.toList
            let cells ← allocRes (List.zipWith (binop op) v1 v2)
            newArr d2 cells) s
      else throwE .wrong_array_size s := by
  refine ⟨canAdd_extDv d1 d2, ?_⟩
  by_cases h : d1 = d2
  · simp only [arrZip, arrObjOf, bind_eq, M.bind, load, h1, h2, pure, M.pure, (canAdd_extDv d1 d2).mpr h, if_true, if_pos h]
  · have hc : Idx.canAdd (extDv d1) (extDv d2) = false := by
      cases hx : Idx.canAdd (extDv d1) (extDv d2)
      · rfl
      · exact absurd ((canAdd_extDv d1 d2).mp hx) h
    simp only [arrZip, arrObjOf, bind_eq, M.bind, load, h1, h2, pure, M.pure, hc, Bool.false_eq_true, if_false, if_neg h]

/-- the cells of an element-wise result: when every element operation yields a value, the new cells are consecutive
fresh cells holding those values in order (nothing else changes) -/
theorem elementwise_result_cells (vs : List Val) (s : St) :
    allocRes (vs.map OpRes.val) s =
      .ok ((List.range vs.length).map (fun k => s.mem.size + k)) { s with mem := s.mem ++ vs.toArray } :=
  allocRes_vals vs s

/-- **`a * b` on arrays is the matrix product, guarded by C12's `Idx.canMult`**: both 2-dimensional with
columns(a) = rows(b) (`Idx.shape_conformance`), result `rows(a) × columns(b)` with entries `Σ_k a[i,k] * b[k,j]` computed in
the element type starting from 0 (`matEntries`); any other pair of shapes raises `wrong_array_size`. -/
theorem array_mul_shape_conformance (s : St) (o1 o2 : Loc) (d1 d2 : List Nat) (e1 e2 : Array Loc)
    (h1 : s.mem[o1]? = some (.arrObj d1 e1)) (h2 : s.mem[o2]? = some (.arrObj d2 e2)) :
    (∀ r1 c1 c2, d1 = [r1, c1] → d2 = [c1, c2] →
      matMul (some o1) (some o2) s =
        (do let v1 ← loadVals e1.toList
            let v2 ← loadVals e2.toList
            let cells ← allocRes (matEntries r1 c1 c2 v1 v2)
            newArr [r1, c2] cells) s) ∧
    ((¬ ∃ r1 c1 c2, d1 = [r1, c1] ∧ d2 = [c1, c2]) → matMul (some o1) (some o2) s = throwE .wrong_array_size s) := by
  constructor
  · rintro r1 c1 c2 rfl rfl
    have hc := (canMult_extDv [r1, c1] [c1, c2]).mpr ⟨r1, c1, c2, rfl, rfl⟩
    simp only [matMul, arrObjOf, bind_eq, M.bind, load, h1, h2, pure, M.pure, hc, if_true]
  · intro hn
    have hc : Idx.canMult (extDv d1) (extDv d2) = false := by
      cases hx : Idx.canMult (extDv d1) (extDv d2)
      · rfl
      · exact absurd ((canMult_extDv d1 d2).mp hx) hn
    simp only [matMul, arrObjOf, bind_eq, M.bind, load, h1, h2, pure, M.pure, hc, Bool.false_eq_true, if_false]

/-- a nil operand of array arithmetic raises `nil_pointer` (before any shape is looked at) -/
theorem array_arith_nil (op : BinOp) (a : Option Loc) (f : Val → OpRes) (s : St) :
    arrZip op none a s = throwE .nil_pointer s ∧ arrZip op a none s = throwE .nil_pointer s ∧
    matMul none a s = throwE .nil_pointer s ∧ matMul a none s = throwE .nil_pointer s ∧
    arrMap f none s = throwE .nil_pointer s := by
  cases a <;> simp [arrZip, matMul, arrMap]

/-! ### the pipe operator -/

/-- **`x |> f(args)` is `f(x, args)`.**  The arguments are evaluated first (right to left), THEN the piped expression,
then the function expression; a piped value that is not a tuple becomes the FIRST argument (its cell is passed, as in a
call). -/
theorem eval_order_pipe (n : Nat) (ctx : Ctx) (env : Env) (l fe : Expr) (args : List Expr)
    (s s1 s2 s3 : St) (ls : List Loc) (ll lf : Loc) (v : Val) (fid : Nat) (cells : List Loc)
    (hargs : evalArgs n ctx env args s = .ok ls s1) (hl : evalE n ctx env l s1 = .ok ll s2)
    (hv : s2.mem[ll]? = some v) (hnt : ∀ r, v ≠ .rcd r)
    (hf : evalE n ctx env fe s2 = .ok lf s3) (hclo : s3.mem[lf]? = some (.clo (some (fid, cells)))) :
    evalE (n + 1) ctx env (.pipe l fe args) s = callClo n ctx fid cells (ll :: ls) s3 := by
  have hp : pipeArgs ll s2 = .ok [ll] s2 := by
    simp only [pipeArgs, bind_eq, M.bind, load, hv]
    cases v <;> first | rfl | exact absurd rfl (hnt _)
  simp only [evalE, bind_eq, M.bind, hargs, hl, hp, hf, load, hclo, List.singleton_append]

/-- **A piped tuple is unpacked**: `(a, b) |> f(args)` is `f(a, b, args)` — the component CELLS of the tuple become the
leading arguments (no copy). -/
theorem pipe_unpacks_tuple (n : Nat) (ctx : Ctx) (env : Env) (l fe : Expr) (args : List Expr)
    (s s1 s2 s3 : St) (ls : List Loc) (ll lf o : Loc) (fields : Array Loc) (fid : Nat) (cells : List Loc)
    (hargs : evalArgs n ctx env args s = .ok ls s1) (hl : evalE n ctx env l s1 = .ok ll s2)
    (hv : s2.mem[ll]? = some (.rcd (some o))) (ho : s2.mem[o]? = some (.recObj "" fields))
    (hf : evalE n ctx env fe s2 = .ok lf s3) (hclo : s3.mem[lf]? = some (.clo (some (fid, cells)))) :
    evalE (n + 1) ctx env (.pipe l fe args) s = callClo n ctx fid cells (fields.toList ++ ls) s3 := by
  have hp : pipeArgs ll s2 = .ok fields.toList s2 := by
    simp only [pipeArgs, bind_eq, M.bind, load, hv, ho, if_true]; rfl
  simp only [evalE, bind_eq, M.bind, hargs, hl, hp, hf, load, hclo]

/-- a fault in the arguments: neither the piped expression nor the function expression is evaluated; a fault in the
piped expression happens after the arguments -/
theorem eval_order_pipe_fault (n : Nat) (ctx : Ctx) (env : Env) (l fe : Expr) (args : List Expr) (s s1 s2 : St) (ex : Exc)
    (ls : List Loc) :
    (evalArgs n ctx env args s = .exc ex s1 → evalE (n + 1) ctx env (.pipe l fe args) s = .exc ex s1) ∧
    (evalArgs n ctx env args s = .ok ls s1 → evalE n ctx env l s1 = .exc ex s2 →
      evalE (n + 1) ctx env (.pipe l fe args) s = .exc ex s2) := by
  constructor
  · intro h; simp only [evalE, bind_eq, M.bind, h]
  · intro h1 h2; simp only [evalE, bind_eq, M.bind, h1, h2]

/-! ### modules (Model/SrcMod.lean: a separate layer — units are elaborated into one core program, `eval` runs it) -/

/-- **A module is loaded once.**  However many units `use` it (directly, through several paths, repeatedly), a unit
occurs once in the load order, so its items — and the side effects of its initialisers — occur once in the program. -/
theorem module_loaded_once (us : List Mod.Unit) (main : Mod.Unit) : (Mod.loadOrder us main).Nodup :=
  Mod.loadOrder_nodup us main

/-- **A qualified name resolves in its unit.**  Elaboration gives the top-level items of unit `m` exactly the names `q m x`
(`x` a top-level name of the unit as written, same order), by the LEXICAL renaming of C08 (`qualItems` is `rnItems`), so uses
inside the unit follow their binders.  With a qualification that keeps units apart (`q m1 x = q m2 y → m1 = m2 ∧ x = y`; `m.x`
for module names without dots), `q m1 x` is bound by unit `m1` iff `m1` declares `x`, and NEVER by another unit `m2`, whatever
same-named items `m2` declares. -/
theorem qualified_name_resolves_in_its_unit (q : Name → Name → Name)
    (hq : ∀ m1 x m2 y, q m1 x = q m2 y → m1 = m2 ∧ x = y) (m1 m2 : Name) (items1 items2 : List Item) (x : Name) :
    Mod.itemBinders (Mod.qualItems q m1 items1) = (Mod.itemBinders items1).map (q m1) ∧
    (q m1 x ∈ Mod.itemBinders (Mod.qualItems q m1 items1) ↔ x ∈ Mod.itemBinders items1) ∧
    (m1 ≠ m2 → q m1 x ∉ Mod.itemBinders (Mod.qualItems q m2 items2)) := by
  refine ⟨Mod.itemBinders_qualItems q m1 items1, ?_, ?_⟩
  · rw [Mod.itemBinders_qualItems, List.mem_map]
    constructor
    · rintro ⟨y, hy, h⟩
      rw [(hq _ _ _ _ h).2] at hy; exact hy
    · intro h; exact ⟨x, h, rfl⟩
  · intro hne hmem
    rw [Mod.itemBinders_qualItems, List.mem_map] at hmem
    obtain ⟨y, _, h⟩ := hmem
    exact hne (hq _ _ _ _ h).1.symm

/-- qualification IS the lexical renaming of C08 (`rnItems`, the function `eval_alpha` is about) with the renaming that maps the
unit's top-level binders — and, by resolution, their uses inside the unit, through nested functions and shadowing — to `q m x` and
leaves every other binder alone: unit-local names are handled by the theory of renamings, not by string search -/
theorem qualification_is_lexical_renaming (q : Name → Name → Name) (m : Name) (items : List Item) :
    Mod.qualItems q m items = rnItems (Mod.qualNu q m (Mod.modDepths 0 items)) [] items := rfl

/-! ### non-vacuity: closed programs evaluated by the kernel -/

section Examples

private def pP : Func := .mk 0 "p" [{ name := "x", ty := .int }] .int (.seq [.expr (.builtin .print [.var "x"])]) []
private def fF : Func := .mk 1 "f" [{ name := "a", ty := .int }, { name := "b", ty := .int }] .int
  (.seq [.expr (.builtin .print [.lit (.int 0)]), .expr (.bin .add (.var "a") (.var "b"))]) []
private def mk (body : List Item) : Prog :=
  { recs := [], enums := [], funcs := [pP, fF, .mk 2 "main" [] .int (.seq body) []] }
private def p (k : Int) : Expr := .call (.var "p") [.lit (.int k)]

/-- `f(p(1), p(2))` prints 2, 1, then the body's 0; returns 3 -/
example : (eval (mk [.expr (.call (.var "f") [p 1, p 2])]) [] 30).out = [50, 13, 10, 49, 13, 10, 48, 13, 10] := by decide +kernel
example : (eval (mk [.expr (.call (.var "f") [p 1, p 2])]) [] 30).int? = some 3 := by decide +kernel
/-- `p(1) + p(2) * p(3)` prints 1, 2, 3 -/
example : (eval (mk [.expr (.bin .add (p 1) (.bin .mul (p 2) (p 3)))]) [] 30).out = [49, 13, 10, 50, 13, 10, 51, 13, 10] := by decide +kernel
/-- `p(0) != 0 && p(1) != 0` prints only 0; `p(2) != 0 || p(3) != 0` prints only 2 -/
example : (eval (mk [.expr (.and (.bin .ne (p 0) (.lit (.int 0))) (.bin .ne (p 1) (.lit (.int 0))))]) [] 30).out = [48, 13, 10] := by decide +kernel
example : (eval (mk [.expr (.or (.bin .ne (p 2) (.lit (.int 0))) (.bin .ne (p 3) (.lit (.int 0))))]) [] 30).out = [50, 13, 10] := by decide +kernel
/-- `var a = 1; let b = a; a = 5; b` is 5 -/
example : (eval (mk [.bind true "a" (.lit (.int 1)), .bind false "b" (.var "a"), .expr (.assign (.var "a") (.lit (.int 5))),
    .expr (.var "b")]) [] 30).int? = some 5 := by decide +kernel
/-- `f(p(1), 10 / z)` with `z = 0`: the fault in the RIGHT argument comes first, nothing is printed -/
example : (eval (mk [.bind false "z" (.lit (.int 0)), .expr (.call (.var "f") [p 1, .bin .div (.lit (.int 10)) (.var "z")])]) [] 30).exc?
    = some .division_by_zero := by decide +kernel
example : (eval (mk [.bind false "z" (.lit (.int 0)), .expr (.call (.var "f") [p 1, .bin .div (.lit (.int 10)) (.var "z")])]) [] 30).out
    = [] := by decide +kernel
/-- out of fuel is reported as such, and more fuel gives the answer -/
example : (eval (mk [.expr (p 7)]) [] 3).isOutOfFuel := by decide +kernel
example : (eval (mk [.expr (p 7)]) [] 30).int? = some 7 := by decide +kernel

/-! the pipe operator -/

/-- `p(1) |> f(p(2))` prints 2, 1, then the body's 0, returns 3 — exactly `f(p(1), p(2))` (`eval_order_pipe`) -/
example : (eval (mk [.expr (.pipe (p 1) (.var "f") [p 2])]) [] 30).out = [50, 13, 10, 49, 13, 10, 48, 13, 10] := by decide +kernel
example : (eval (mk [.expr (.pipe (p 1) (.var "f") [p 2])]) [] 30).int? = some 3 := by decide +kernel
/-- `(p(1), p(2)) |> f()` unpacks the tuple: prints 2, 1, 0; returns 3 (`pipe_unpacks_tuple`) -/
example : (eval (mk [.expr (.pipe (.tuple [p 1, p 2]) (.var "f") [])]) [] 30).out = [50, 13, 10, 49, 13, 10, 48, 13, 10] := by decide +kernel
example : (eval (mk [.expr (.pipe (.tuple [p 1, p 2]) (.var "f") [])]) [] 30).int? = some 3 := by decide +kernel
/-- `p(1) |> f(10 / z)` with `z = 0`: the fault in the argument comes first, nothing is printed (`eval_order_pipe_fault`) -/
example : (eval (mk [.bind false "z" (.lit (.int 0)), .expr (.pipe (p 1) (.var "f") [.bin .div (.lit (.int 10)) (.var "z")])]) [] 30).out
    = [] := by decide +kernel

/-! ranges and slices -/

private def prt (e : Expr) : Item := .expr (.builtin .print [e])
private def i (k : Int) : Expr := .lit (.int k)
private def arr4 : Expr := .arrLit [4] [i 10, i 11, i 12, i 13] .int

/-- `[p(1) .. p(2)]` prints 2 then 1 (`eval_order_range_bounds`) -/
example : (eval (mk [.bind false "r" (.range [p 1, p 2]), .expr (i 0)]) [] 30).out = [50, 13, 10, 49, 13, 10] := by decide +kernel
/-- `[7 .. 3][2][0]` is 5 = rangePos 7 3 2; position 5 does not exist (`range_index_denotation`) -/
example : (eval (mk [.expr (.index (.index (.range [i 7, i 3]) [i 2]) [i 0])]) [] 30).int? = some 5 := by decide +kernel
example : Idx.rangePos 7 3 2 = 5 ∧ Idx.rangeLen 7 3 = 5 := by decide
example : (eval (mk [.expr (.index (.index (.range [i 7, i 3]) [i 5]) [i 0])]) [] 30).exc? = some .index_out_of_bounds := by decide +kernel
example : (eval (mk [.expr (.index (.index (.range [i 7, i 3]) [.un .neg (i 1)]) [i 0])]) [] 30).exc? = some .index_out_of_bounds := by decide +kernel
/-- `var n = 3; let r = [0 .. n]; n = 5; for (x in r) print(x)` prints 0 … 5: the range holds the cell of `n`
(`range_sees_assignment_to_bound`) -/
example : (eval (mk [.bind true "n" (i 3), .bind false "r" (.range [i 0, .var "n"]), .expr (.assign (.var "n") (i 5)),
    .expr (.forIn "x" (.var "r") (.builtin .print [.var "x"]))]) [] 40).out
    = [48, 13, 10, 49, 13, 10, 50, 13, 10, 51, 13, 10, 52, 13, 10, 53, 13, 10] := by decide +kernel
/-- `for (x in [2 .. 0])` visits 2, 1, 0; `[4 .. 4]` has one element (`range_loop_visits_positions`, `for_in_range_step`) -/
example : (eval (mk [.expr (.forIn "x" (.range [i 2, i 0]) (.builtin .print [.var "x"]))]) [] 40).out
    = [50, 13, 10, 49, 13, 10, 48, 13, 10] := by decide +kernel
example : (eval (mk [.expr (.forIn "x" (.range [i 4, i 4]) (.builtin .print [.var "x"]))]) [] 40).out = [52, 13, 10] := by decide +kernel
example : loopVals (decide ((2 : Int) < 0)) 0 9 2 = [2, 1, 0] ∧ loopVals (decide ((4 : Int) < 4)) 4 9 4 = [4] := by decide
/-- the `to` bound is re-read before every iteration: `var k = 4; for (x in [0 .. k]) { k = k - 1; print(x) }` prints 0 1 2 -/
example : (eval (mk [.bind true "k" (i 4), .expr (.forIn "x" (.range [i 0, .var "k"])
    (.seq [.expr (.assign (.var "k") (.bin .sub (.var "k") (i 1))), prt (.var "x")]))]) [] 40).out
    = [48, 13, 10, 49, 13, 10, 50, 13, 10] := by decide +kernel
/-- `let a = [10,11,12,13]; let s = a[3 .. 1]; a[2] = 99; s[1]` is 99, and `s[0] = 7; a[3]` is 7 (`slice_aliases_array`:
`s[1]` is the cell of `a[rangePos 3 1 1] = a[2]`) -/
example : (eval (mk [.bind true "a" arr4, .bind false "s" (.slice (.var "a") [i 3, i 1]),
    .expr (.assign (.index (.var "a") [i 2]) (i 99)), .expr (.index (.var "s") [i 1])]) [] 40).int? = some 99 := by decide +kernel
example : (eval (mk [.bind true "a" arr4, .bind true "s" (.slice (.var "a") [i 3, i 1]),
    .expr (.assign (.index (.var "s") [i 0]) (i 7)), .expr (.index (.var "a") [i 3])]) [] 40).int? = some 7 := by decide +kernel
/-- the slice keeps the array OBJECT: after `a = other` it still shows the old elements (`slice_of_array_shares_object`) -/
example : (eval (mk [.bind true "a" arr4, .bind false "s" (.slice (.var "a") [i 1, i 2]),
    .expr (.assign (.var "a") (.arrLit [2] [i 0, i 0] .int)), .expr (.index (.var "s") [i 0])]) [] 40).int? = some 11 := by decide +kernel
/-- no check when slicing, `index_out_of_bounds` when the element is used: `a[-1 .. 9]` is fine, its element 0 is not -/
example : (eval (mk [.bind false "s" (.slice arr4 [.un .neg (i 1), i 9]), .expr (.index (.var "s") [i 1])]) [] 40).int? = some 10 := by decide +kernel
example : (eval (mk [.bind false "s" (.slice arr4 [.un .neg (i 1), i 9]), .expr (.index (.var "s") [i 0])]) [] 40).exc?
    = some .index_out_of_bounds := by decide +kernel
/-- slice of a slice, slice of a range (C12 `slice_of_slice`): `a[3 .. 0][1 .. 2]` is `[12, 11]`; `[10 .. 100][0 .. 10][5 .. 10]` starts at 15 -/
example : (eval (mk [.expr (.forIn "x" (.slice (.slice arr4 [i 3, i 0]) [i 1, i 2]) (.builtin .print [.var "x"]))]) [] 40).out
    = [49, 50, 13, 10, 49, 49, 13, 10] := by decide +kernel
example : (eval (mk [.expr (.index (.index (.slice (.slice (.range [i 10, i 100]) [i 0, i 10]) [i 5, i 10]) [i 0]) [i 0])]) [] 40).int?
    = some 15 := by decide +kernel
/-- `x[a .. b]` evaluates `x` first (`eval_order_slice`): `{ print(0); arr }[p(1) .. p(2)]` prints 0, 2, 1 -/
example : (eval (mk [.bind false "s" (.slice (.seq [prt (i 0), .expr arr4]) [p 1, p 2]), .expr (i 0)]) [] 40).out
    = [48, 13, 10, 50, 13, 10, 49, 13, 10] := by decide +kernel
/-- a string slice is a new string, descending bounds reverse: `prints("hello"[3 .. 1])` prints `lle` -/
example : (eval (mk [.expr (.builtin .prints [.slice (.lit (.str [104, 101, 108, 108, 111])) [i 3, i 1]]), .expr (i 0)]) [] 40).out
    = [108, 108, 101] := by decide +kernel
/-- a comprehension over a descending range: `[ x * 2 | x in [3 .. 1] ]` is `[6, 4, 2]` -/
example : (eval (mk [.expr (.forIn "y" (.listcomp (.bin .mul (.var "x") (i 2)) [.gen "x" (.range [i 3, i 1])] .int)
    (.builtin .print [.var "y"]))]) [] 40).out = [54, 13, 10, 52, 13, 10, 50, 13, 10] := by decide +kernel

/-- the hypotheses of `range_index_denotation` / `range_index_matches_idx` / `range_sees_assignment_to_bound` on a
concrete store: cells 0, 1 hold 7 and 3, cell 2 is the range object `[7 .. 3]` -/
private def stR : St := { mem := #[.int 7, .int 3, .rngObj #[0, 1]] }
example : (rangeDeref (some 2) [2] stR matches .ok 5 _) = true := by
  rw [range_index_denotation stR 2 0 1 7 3 2 rfl rfl rfl (by decide)]; rfl
example : (rangeDeref (some 2) [5] stR matches .exc .index_out_of_bounds _) = true := by
  rw [range_index_denotation stR 2 0 1 7 3 5 rfl rfl rfl (by decide)]; rfl
example : ∃ l s', rangeDeref (some 2) [2] stR = .ok l s' ∧ s'.mem[stR.mem.size]? = some (.int (Int32.ofInt 5)) ∧
    (5 : Int) = Idx.rangePos (7 : Int32).toInt (3 : Int32).toInt 2 :=
  (range_index_matches_idx stR 2 0 1 7 3 2 rfl rfl rfl (by decide) 5).mp (by decide)
example : ∀ s', store 1 (.int 9) stR = .ok () s' → rngBounds 2 s' = .ok [((7 : Int32).toInt, (9 : Int32).toInt)] s' :=
  range_sees_assignment_to_bound stR 2 0 1 7 3 9 rfl rfl rfl (by decide)
/-- the hypotheses of `slice_aliases_array`: cell 4 is the array object `[10, 11, 12]` (element cells 5, 6, 7), cell 3 the
slice object of `arr[2 .. 0]` over the range object in cell 2 (bound cells 0, 1): its element 1 is the array's cell 6 -/
private def stS : St := { mem := #[.int 2, .int 0, .rngObj #[0, 1], .slcObj 4 2, .arrObj [3] #[5, 6, 7], .int 10, .int 11, .int 12] }
example : sliceDeref (some 3) [1] stS = arrDeref (.arr (some 4)) [1] stS := by
  rw [slice_aliases_array stS 3 4 2 0 1 2 0 1 rfl rfl rfl rfl (by decide)]; rfl
example : (sliceDeref (some 3) [0] stS matches .ok 7 _) = true ∧ (sliceDeref (some 3) [2] stS matches .ok 5 _) = true := by
  rw [slice_aliases_array stS 3 4 2 0 1 2 0 0 rfl rfl rfl rfl (by decide),
    slice_aliases_array stS 3 4 2 0 1 2 0 2 rfl rfl rfl rfl (by decide)]
  constructor <;> rfl
example : (sliceDeref (some 3) [3] stS matches .exc .index_out_of_bounds _) = true := by
  rw [slice_aliases_array stS 3 4 2 0 1 2 0 3 rfl rfl rfl rfl (by decide)]; rfl
/-- … and of `slice_element_is_array_element`: with `s` (cell 8) the slice, `a` (cell 9) the array, `i = 1`, `j = 1`:
`s[i]` and `a[j]` are the same computation -/
private def stE : St := { mem := stS.mem ++ #[.slc (some 3), .arr (some 4), .int 1, .int 1] }
example : evalE 5 {} [("s", 8), ("a", 9), ("i", 10), ("j", 11)] (.index (.var "s") [.var "i"]) stE
    = evalE 5 {} [("s", 8), ("a", 9), ("i", 10), ("j", 11)] (.index (.var "a") [.var "j"]) stE :=
  slice_element_is_array_element 2 {} _ "s" "a" 8 9 stE 3 4 2 0 1 2 0 1 rfl rfl rfl rfl rfl rfl rfl rfl (by decide) (by decide)
    10 11 rfl rfl (by decide) "i" "j" rfl rfl
/-- `parameter_names_are_references` and the use-site theorems on concrete stores (cell 3 / cell 8 hold the references) -/
example : (bindParams [{ name := "r", ty := .rng, dims := ["lo", "hi"] }] [3] [] { stR with mem := stR.mem.push (.rng (some 2)) }
    matches .ok [("hi", 5), ("lo", 4), ("r", 3)] _) = true := by
  rw [parameter_names_are_references _ 3 "lo" "hi" [] _ (.rng (some 2)) rfl rfl rfl]; rfl
private def stP : St := { mem := (stE.mem.push (.dimRef 8 1)).push (.dimRef 9 0) ++ #[.rng (some 2), .dimRef 14 1, .arr none, .dimRef 16 0] }
example : evalE 1 {} [("t", 12)] (.dimVar "t") stP = alloc (.int 2) stP :=
  (slice_bound_names 0 {} _ "t" 12 8 3 4 2 0 1 2 0 stP rfl rfl rfl rfl rfl rfl).2 rfl
example : evalE 1 {} [("D", 13)] (.dimVar "D") stP = alloc (.int 3) stP :=
  extent_name_is_read_at_use 0 {} _ "D" 13 9 4 0 [3] #[5, 6, 7] 3 stP rfl rfl rfl rfl rfl
example : evalE 1 {} [("hi", 15)] (.dimVar "hi") stP = .ok 1 stP :=
  range_bound_name_is_the_bound_cell 0 {} _ "hi" 15 14 2 1 #[0, 1] 1 stP rfl rfl rfl rfl rfl
example : evalE 1 {} [("D", 17)] (.dimVar "D") stP = throwE .nil_pointer stP :=
  name_of_nil_parameter_raises 0 {} _ "D" 17 16 0 stP _ rfl rfl rfl (Or.inl rfl)
example : evalForIn 1 {} [] "x" 16 0 (.var "x") stP = throwE .nil_pointer stP :=
  (for_in_nil_array_raises 0 {} [] "x" 16 0 (.var "x") stP [] (.var "x") .int 0 rfl).1
/-- `func f([lo .. hi] : range) -> int { hi - lo }` applied to `[3 .. 10]` is 7; `func g(s[f .. t] : int) -> int { t }` applied
to `arr[3 .. 1]` is 2; `func d(var a[D] : int, b[E] : int) -> int { a = b; D }` applied to arrays of 4 and 2 elements is 2
(the extent is read when `D` is used); `func d(a[D] : int) -> int { D } catch (nil_pointer) { 0 - 3 }` applied to a nil
element is −3, and 7 when the body is `7` -/
example : (eval { recs := [], enums := [], funcs := [
    .mk 0 "f" [{ name := "", ty := .rng, dims := ["lo", "hi"] }] .int (.bin .sub (.dimVar "hi") (.dimVar "lo")) [],
    .mk 1 "main" [] .int (.call (.var "f") [.range [i 3, i 10]]) []] } [] 30).int? = some 7 := by decide +kernel
example : (eval { recs := [], enums := [], funcs := [
    .mk 0 "g" [{ name := "s", ty := .slc, dims := ["f", "t"] }] .int (.dimVar "t") [],
    .mk 1 "main" [] .int (.call (.var "g") [.slice arr4 [i 3, i 1]]) []] } [] 30).int? = some 2 := by decide +kernel
example : (eval { recs := [], enums := [], funcs := [
    .mk 0 "d" [{ name := "a", ty := .arr, dims := ["D"] }, { name := "b", ty := .arr, dims := ["E"] }] .int
      (.seq [.expr (.assign (.var "a") (.var "b")), .expr (.dimVar "D")]) [],
    .mk 1 "main" [] .int (.call (.var "d") [arr4, .arrLit [2] [i 1, i 2] .int]) []] } [] 30).int? = some 2 := by decide +kernel
example : (eval { recs := [], enums := [], funcs := [
    .mk 0 "d" [{ name := "a", ty := .arr, dims := ["D"] }] .int (.dimVar "D") [.mk (some .nil_pointer) (.un .neg (i 3))],
    .mk 1 "main" [] .int (.call (.var "d") [.index (.arrNew [i 2] .arr) [i 0]]) []] } [] 30).int? = some (-3) := by decide +kernel
example : (eval { recs := [], enums := [], funcs := [
    .mk 0 "d" [{ name := "a", ty := .arr, dims := ["D"] }] .int (i 7) [.mk (some .nil_pointer) (.un .neg (i 3))],
    .mk 1 "main" [] .int (.call (.var "d") [.index (.arrNew [i 2] .arr) [i 0]]) []] } [] 30).int? = some 7 := by decide +kernel
/-- `func f(k[cnt] : int) -> int { let k = 7; cnt }` applied to a 4-element array is 4: the `let k` does not change what
`cnt` reads (`extent_name_ignores_shadowing_of_the_parameter_name`); `[cnt, 0] : int` holds the int 4 -/
example : (eval { recs := [], enums := [], funcs := [
    .mk 0 "f" [{ name := "k", ty := .arr, dims := ["cnt"] }] .int (.seq [.bind false "k" (i 7), .expr (.dimVar "cnt")]) [],
    .mk 1 "main" [] .int (.call (.var "f") [arr4]) []] } [] 30).int? = some 4 := by decide +kernel
example : (eval { recs := [], enums := [], funcs := [
    .mk 0 "f" [{ name := "k", ty := .arr, dims := ["cnt"] }] .int
      (.seq [.bind false "k" (i 7), .bind true "v" (.arrLit [2] [.dimVar "cnt", i 0] .int),
        .expr (.assign (.index (.var "v") [i 1]) (i 5)), .expr (.bin .add (.index (.var "v") [i 0]) (.index (.var "v") [i 1]))]) [],
    .mk 1 "main" [] .int (.call (.var "f") [arr4]) []] } [] 30).int? = some 9 := by decide +kernel
example : evalE 1 {} [("k", 0), ("D", 13)] (.dimVar "D") stP = evalE 1 {} [("D", 13)] (.dimVar "D") stP :=
  extent_name_ignores_shadowing_of_the_parameter_name 0 {} _ "D" "k" 0 stP (by decide)
/-- the hypotheses of `comprehension_over_range_denotation` on a concrete store: cell 0 holds `to` = 1, cell 1 is the empty
array object; from = 3: three new cells 2, 3, 4 hold 3, 2, 1 and the array object lists them -/
private def stC : St := { mem := #[.int 1, .arrObj [0] #[]] }
example : ∃ s', evalGenRng 6 {} [] "x" none 3 (decide ((3 : Int) < (1 : Int32).toInt)) 0 [] (.var "x") .int 1 stC = .ok () s' ∧
    s'.mem.size = 5 ∧ s'.mem[1]? = some (.arrObj [3] #[2, 3, 4]) ∧
    s'.mem[2]? = some (.int 3) ∧ s'.mem[3]? = some (.int 2) ∧ s'.mem[4]? = some (.int 1) := by
  obtain ⟨s', h1, h2, h3, h4, _, _⟩ := comprehension_over_range_denotation {} [] "x" 0 1 3 1 6 stC [0] #[] rfl rfl (by decide)
    (by decide) (by decide)
  exact ⟨s', h1, h2, h3, h4 0 (by decide), h4 1 (by decide), h4 2 (by decide)⟩

/-! array arithmetic -/

private def a3 (x y z : Int) : Expr := .arrLit [3] [i x, i y, i z] .int
private def prtAll (e : Expr) : Item := .expr (.forIn "q" e (.builtin .print [.var "q"]))
/-- `[1,2,3] + [10,20,30]` is `[11,22,33]`; `2 * [3,5,7]` is `[6,10,14]`; `-[1,2,3]`; `[5,5,5] - [1,2,3]` -/
example : (eval (mk [prtAll (.bin .add (a3 1 2 3) (a3 10 20 30))]) [] 40).out = [49, 49, 13, 10, 50, 50, 13, 10, 51, 51, 13, 10] := by decide +kernel
example : (eval (mk [prtAll (.bin .mul (i 2) (a3 3 5 7))]) [] 40).out = [54, 13, 10, 49, 48, 13, 10, 49, 52, 13, 10] := by decide +kernel
example : (eval (mk [prtAll (.un .neg (a3 1 2 3))]) [] 40).out = [45, 49, 13, 10, 45, 50, 13, 10, 45, 51, 13, 10] := by decide +kernel
example : (eval (mk [prtAll (.bin .sub (a3 5 5 5) (a3 1 2 3))]) [] 40).out = [52, 13, 10, 51, 13, 10, 50, 13, 10] := by decide +kernel
/-- shapes that do not conform: `[1,2,3] + [1,2]` raises `wrong_array_size` (`array_add_shape_conformance`) -/
example : (eval (mk [prtAll (.bin .add (a3 1 2 3) (.arrLit [2] [i 1, i 2] .int))]) [] 40).exc? = some .wrong_array_size := by decide +kernel
/-- `[[1,2],[3,4]] * [[5,6],[7,8]]` is `[[19,22],[43,50]]`; a 2×2 times a 3×1 raises `wrong_array_size` -/
example : (eval (mk [prtAll (.index (.bin .mul (.arrLit [2, 2] [i 1, i 2, i 3, i 4] .int) (.arrLit [2, 2] [i 5, i 6, i 7, i 8] .int)) [i 1, i 0]
    |> fun e => .arrLit [1] [e] .int)]) [] 40).out = [52, 51, 13, 10] := by decide +kernel
example : (eval (mk [.expr (.index (.bin .mul (.arrLit [2, 2] [i 1, i 2, i 3, i 4] .int) (.arrLit [3, 1] [i 5, i 6, i 7] .int)) [i 0, i 0])]) [] 40).exc?
    = some .wrong_array_size := by decide +kernel
/-- the hypotheses of the store-level theorems: two array objects of extents `[2]` and `[3]` -/
private def stA : St := { mem := #[.arrObj [2] #[2, 3], .arrObj [3] #[2, 3, 4], .int 1, .int 2, .int 3] }
example : arrZip .add (some 0) (some 1) stA = throwE .wrong_array_size stA := by
  rw [(array_add_shape_conformance .add stA 0 1 [2] [3] _ _ rfl rfl).2]; rfl
example : (arrZip .add (some 0) (some 0) stA matches .ok (.arr (some 7)) _) = true := by
  rw [(array_add_shape_conformance .add stA 0 0 [2] [2] _ _ rfl rfl).2]; rfl
example : matMul (some 0) (some 1) stA = throwE .wrong_array_size stA :=
  (array_mul_shape_conformance stA 0 1 [2] [3] _ _ rfl rfl).2 (by rintro ⟨r1, c1, c2, h, _⟩; cases h)

/-! modules -/

private def getF (idn : Nat) : Func := .mk idn "get" [] .int (.var "X") []
private def uA : Mod.Unit := { name := "ma", uses := ["mc"], recs := [], enums := [],
                                        items := [.bind true "X" (.bin .add (.builtin .print [i 1]) (.var "mc.X")), .funcs [getF 1]] }
private def uB : Mod.Unit := { name := "mb", uses := ["mc"], recs := [], enums := [],
                                        items := [.bind true "X" (.builtin .print [i 2]), .funcs [getF 2]] }
private def uC : Mod.Unit := { name := "mc", uses := [], recs := [], enums := [],
                                        items := [.bind true "X" (.builtin .print [i 3]), .funcs [getF 3]] }
private def uMain : Mod.Unit := { name := "", uses := ["ma", "mb"], recs := [], enums := [],
                                        items := [.bind true "X" (i 100), .funcs [getF 4, .mk 5 "main" [] .int
                                            (.bin .add (.bin .mul (.call (.var "ma.get") []) (i 100)) (.bin .add (.bin .mul (.call (.var "mb.get") []) (i 10)) (.call (.var "get") []))) []]] }
/-- a shared module used from two places is loaded once, before its users: `mc, ma, mb` (`module_loaded_once`) -/
example : Mod.loadOrder [uA, uB, uC] uMain = ["mc", "ma", "mb"] := by decide
example : (Mod.loadOrder [uA, uB, uC] uMain).Nodup := module_loaded_once _ _
/-- dependency order whatever the main unit's `use` order: `ma` uses `mc`, the main unit uses only `ma` -/
example : Mod.loadOrder [uA, uC] { uMain with uses := ["ma"] } = ["mc", "ma"] := by decide
/-- a `use` cycle is refused -/
example : Mod.cyclic [{ uA with uses := ["mb"] }, { uB with uses := ["ma"] }] uMain = true := by decide
example : Mod.cyclic [uA, uB, uC] uMain = false := by decide
/-- every unit has its own `X` and `get`: the initialisers print 3 (once), 1, 2; `ma.get()` is 4 = 1 + mc.X, `mb.get()` is 2,
the main unit's `get()` is 100: 4·100 + 2·10 + 100 = 520 (`qualified_name_resolves_in_its_unit`) -/
example : (Mod.evalUnits uMain [uA, uB, uC] [] 40).map (·.out) = some [51, 13, 10, 49, 13, 10, 50, 13, 10] := by decide +kernel
example : (Mod.evalUnits uMain [uA, uB, uC] [] 40).bind (·.int?) = some 520 := by decide +kernel
example : Mod.itemBinders (Mod.qualItems Mod.qdot "ma" uA.items) = ["ma.X", "ma.get"] := by decide
example : "ma.X" ∉ Mod.itemBinders (Mod.qualItems Mod.qdot "mb" uB.items) := by decide
/-- a use of `X` inside `get` follows its binder: `func get() -> int { X }` of `ma` becomes `ma.get` reading `ma.X` -/
example : Mod.qualItems Mod.qdot "ma" [.bind true "X" (i 1), .funcs [getF 1]]
    = [.bind true "ma.X" (i 1), .funcs [.mk 1 "ma.get" [] .int (.var "ma.X") []]] :=
  by rfl

end Examples

end Never.Src.C02
