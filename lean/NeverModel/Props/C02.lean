/-
C02 — compiled programs compute what the language's evaluation rules say.

What is PROVED here are the laws of the reference evaluator S = `Never.Src.eval` (M-Src) that the
property names: evaluation orders, short circuit, shared cells, determinism / fuel monotonicity.
That the real pipeline computes `eval` is NOT proved: it is checked by differential testing
(checks/src_corr.py) on every run.
-/
import NeverModel.Lemmas.SrcTop
namespace Never.Src.C02
open Never.Src

def _root_.Never.Src.Outcome.out : Outcome → Bytes
  | .result _ o | .unhandled _ o | .assertFailed o | .outOfFuel o | .crash _ o | .stuck _ o => o

def _root_.Never.Src.Outcome.isOutOfFuel : Outcome → Prop
  | .outOfFuel _ => True
  | _ => False

def _root_.Never.Src.Outcome.exc? : Outcome → Option Exc
  | .unhandled e _ => some e
  | _ => none

instance (o : Outcome) : Decidable o.isOutOfFuel := by
  cases o <;> simp only [Outcome.isOutOfFuel] <;> infer_instance

/-- the int a run returns, if it returns one -/
def _root_.Never.Src.Outcome.int? : Outcome → Option Int
  | .result (.int v) _ => some v.toInt
  | _ => none

/-! ### call / constructor / array-literal arguments: right to left -/

/-- **Arguments right to left.**  The argument list `e :: es` is evaluated by evaluating the
arguments to the RIGHT first (`es`), then `e` in the state they leave. -/
theorem eval_order_call_args_right_to_left (n : Nat) (ctx : Ctx) (env : Env) (e : Expr) (es : List Expr)
    (s s1 s2 : St) (ls : List Loc) (l : Loc)
    (hes : evalArgs n ctx env es s = .ok ls s1) (he : evalE n ctx env e s1 = .ok l s2) :
    evalArgs (n + 1) ctx env (e :: es) s = .ok (l :: ls) s2 := by
  simp only [evalArgs, bind_eq, M.bind, hes, he]; rfl

/-- a fault in an argument to the right: the arguments to its left are never evaluated
(`e` is arbitrary — it may print, fault or diverge) -/
theorem eval_order_call_args_fault_right (n : Nat) (ctx : Ctx) (env : Env) (e : Expr) (es : List Expr)
    (s s1 : St) (ex : Exc) (hes : evalArgs n ctx env es s = .exc ex s1) :
    evalArgs (n + 1) ctx env (e :: es) s = .exc ex s1 := by
  simp only [evalArgs, bind_eq, M.bind, hes]

/-- a call evaluates its arguments (right to left), THEN the function expression, then the body -/
theorem eval_order_call (n : Nat) (ctx : Ctx) (env : Env) (fe : Expr) (args : List Expr)
    (s s1 s2 : St) (ls : List Loc) (lf : Loc) (fid : Nat) (cells : List Loc)
    (hargs : evalArgs n ctx env args s = .ok ls s1) (hf : evalE n ctx env fe s1 = .ok lf s2)
    (hclo : s2.mem[lf]? = some (.clo (some (fid, cells)))) :
    evalE (n + 1) ctx env (.call fe args) s = callClo n ctx fid cells ls s2 := by
  simp only [evalE, bind_eq, M.bind, hargs, hf, load, hclo]

/-- record constructor, tuple and array literal use the same right-to-left argument evaluation -/
theorem eval_order_constructor_args (n : Nat) (ctx : Ctx) (env : Env) (args : List Expr) (s s1 : St) (ex : Exc)
    (h : evalArgs n ctx env args s = .exc ex s1) (rn : Name) (dims : List Nat) (ty : Ty) :
    evalE (n + 1) ctx env (.record rn args) s = .exc ex s1 ∧
    evalE (n + 1) ctx env (.tuple args) s = .exc ex s1 ∧
    evalE (n + 1) ctx env (.arrLit dims args ty) s = .exc ex s1 := by
  simp only [evalE, bind_eq, M.bind, h, and_self]

/-! ### binary operands: left to right -/

/-- **Binary operands left to right.**  `a op b`: `a` first, `b` in the state `a` leaves, then the
two operand CELLS are read and combined. -/
theorem eval_order_binary_left_to_right (n : Nat) (ctx : Ctx) (env : Env) (op : BinOp) (a b : Expr)
    (s s1 s2 : St) (la lb : Loc)
    (ha : evalE n ctx env a s = .ok la s1) (hb : evalE n ctx env b s1 = .ok lb s2) :
    evalE (n + 1) ctx env (.bin op a b) s =
      (do let va ← load la; let vb ← load lb; let r ← binopM op va vb; alloc r) s2 := by
  simp only [evalE, bind_eq, M.bind, ha, hb]

/-- a fault in the left operand: the right operand is never evaluated -/
theorem eval_order_binary_fault_left (n : Nat) (ctx : Ctx) (env : Env) (op : BinOp) (a b : Expr)
    (s s1 : St) (ex : Exc) (ha : evalE n ctx env a s = .exc ex s1) :
    evalE (n + 1) ctx env (.bin op a b) s = .exc ex s1 := by
  simp only [evalE, bind_eq, M.bind, ha]

/-- a fault in the right operand happens in the state the left operand left (its effects are kept) -/
theorem eval_order_binary_fault_right (n : Nat) (ctx : Ctx) (env : Env) (op : BinOp) (a b : Expr)
    (s s1 s2 : St) (la : Loc) (ex : Exc)
    (ha : evalE n ctx env a s = .ok la s1) (hb : evalE n ctx env b s1 = .exc ex s2) :
    evalE (n + 1) ctx env (.bin op a b) s = .exc ex s2 := by
  simp only [evalE, bind_eq, M.bind, ha, hb]

/-- assignment: the LEFT side is evaluated first -/
theorem eval_order_assign_fault_left (n : Nat) (ctx : Ctx) (env : Env) (l r : Expr)
    (s s1 : St) (ex : Exc) (hl : evalE n ctx env l s = .exc ex s1) :
    evalE (n + 1) ctx env (.assign l r) s = .exc ex s1 := by
  simp only [evalE, bind_eq, M.bind, hl]

/-! ### short circuit -/

/-- **`false && e` does not evaluate `e`** (whatever `e` is): the result is a fresh cell
holding 0, in the state the left operand left. -/
theorem eval_order_and_short_circuit (n : Nat) (ctx : Ctx) (env : Env) (a b : Expr) (s s1 : St) (la : Loc)
    (ha : evalE n ctx env a s = .ok la s1) (h0 : s1.mem[la]? = some (.int 0)) :
    evalE (n + 1) ctx env (.and a b) s = alloc (.int 0) s1 := by
  simp only [evalE, bind_eq, M.bind, ha, load, h0, truthy, pure, M.pure]
  rfl

/-- **`true || e` does not evaluate `e`.** -/
theorem eval_order_or_short_circuit (n : Nat) (ctx : Ctx) (env : Env) (a b : Expr) (s s1 : St) (la : Loc) (v : Int32)
    (ha : evalE n ctx env a s = .ok la s1) (h1 : s1.mem[la]? = some (.int v)) (hv : (v != 0) = true) :
    evalE (n + 1) ctx env (.or a b) s = alloc (.int 1) s1 := by
  simp only [evalE, bind_eq, M.bind, ha, load, h1, truthy, pure, M.pure, hv]
  rfl

/-- when the left operand of `&&` is true the right one IS evaluated, after it -/
theorem eval_order_and_evaluates_right (n : Nat) (ctx : Ctx) (env : Env) (a b : Expr) (s s1 s2 : St) (la : Loc) (v : Int32)
    (ex : Exc) (ha : evalE n ctx env a s = .ok la s1) (h1 : s1.mem[la]? = some (.int v)) (hv : (v != 0) = true)
    (hb : evalE n ctx env b s1 = .exc ex s2) :
    evalE (n + 1) ctx env (.and a b) s = .exc ex s2 := by
  simp only [evalE, bind_eq, M.bind, ha, load, h1, truthy, pure, M.pure, hv, if_true, hb]

/-! ### determinism, fuel monotonicity -/

/-- **Fuel monotonicity.**  An outcome other than "out of fuel" is the outcome for every larger fuel. -/
theorem eval_fuel_mono (p : Prog) (args : List Arg) (n m : Nat) (h : n ≤ m)
    (hn : ¬ (eval p args n).isOutOfFuel) : eval p args m = eval p args n := by
  have : ¬ (runMain p args n).isOOF := by
    intro hoof
    apply hn
    simp only [eval]
    cases hr : runMain p args n with
    | ok l s => rw [hr] at hoof; exact absurd hoof (fun h => h)
    | exc e s => rw [hr] at hoof; exact absurd hoof (fun h => h)
    | stop k s =>
      rw [hr] at hoof
      cases k with
      | outOfFuel => trivial
      | assertFailed => exact absurd hoof (fun h => h)
      | crash m => exact absurd hoof (fun h => h)
      | stuck m => exact absurd hoof (fun h => h)
  simp only [eval, runMain_mono p args n m h this]

/-- **Determinism.**  `eval` is a function; two fuels that both suffice give the same outcome. -/
theorem eval_deterministic (p : Prog) (args : List Arg) (n m : Nat)
    (hn : ¬ (eval p args n).isOutOfFuel) (hm : ¬ (eval p args m).isOutOfFuel) :
    eval p args n = eval p args m := by
  cases Nat.le_total n m with
  | inl h => exact (eval_fuel_mono p args n m h hn).symm
  | inr h => exact eval_fuel_mono p args m n h hm

/-! ### binding shares cells -/

/-- a use of a name evaluates to the name's CELL (no copy, no allocation, store unchanged) -/
theorem var_evaluates_to_its_cell (n : Nat) (ctx : Ctx) (env : Env) (x : Name) (l : Loc) (s : St)
    (h : lookup x env = some l) : evalE (n + 1) ctx env (.var x) s = .ok l s := by
  simp only [evalE, h]; rfl

/-- **Binding never copies.**  `let b = a` / `var b = a` binds `b` to the very cell of `a`: the rest
of the block runs in an environment where `a` and `b` denote the same location. -/
theorem binding_shares_cells (n : Nat) (ctx : Ctx) (env : Env) (isVar : Bool) (a b : Name) (l : Loc)
    (rest : List Item) (s : St) (h : lookup a env = some l) :
    evalSeq (n + 2) ctx env (.bind isVar b (.var a) :: rest) s = evalSeq (n + 1) ctx ((b, l) :: env) rest s := by
  simp only [evalSeq, bind_eq, M.bind, var_evaluates_to_its_cell n ctx env a l s h]

/-- … hence an assignment through one name is read through the other: after `a = e`, reading
`b` (bound to the same cell) yields the stored value. -/
theorem assignment_seen_through_alias (n : Nat) (ctx : Ctx) (env : Env) (a b : Name) (l : Loc) (s : St)
    (ha : lookup a env = some l) (hb : lookup b env = some l) (v : Val) (hl : l < s.mem.size) :
    ∀ s', store l v s = .ok () s' →
      evalE (n + 1) ctx env (.var a) s' = .ok l s' ∧ evalE (n + 1) ctx env (.var b) s' = .ok l s' ∧ s'.mem[l]? = some v := by
  intro s' hs
  refine ⟨var_evaluates_to_its_cell n ctx env a l s' ha, var_evaluates_to_its_cell n ctx env b l s' hb, ?_⟩
  simp only [store] at hs
  injection hs with _ h2
  rw [← h2]
  simp [hl]

/-- parameter passing shares cells too: the callee's parameter is bound to the argument's cell
(no numeric conversion applying) -/
theorem parameter_shares_cell (p : Param) (l : Loc) (env : Env) (s : St) (v : Val)
    (hv : s.mem[l]? = some v) (hc : convTo p.ty v = none) (hd : p.dims = []) :
    bindParams [p] [l] env s = .ok ((p.name, l) :: env) s := by
  simp only [bindParams, convCell, bind_eq, M.bind, load, hv, hc, hd, pure, M.pure, List.isEmpty_nil, if_true]

/-! ### non-vacuity: closed programs evaluated by the kernel -/

section Examples

private def pP : Func := .mk 0 "p" [{ name := "x", ty := .int }] .int (.seq [.expr (.builtin .print [.var "x"])]) []
private def fF : Func := .mk 1 "f" [{ name := "a", ty := .int }, { name := "b", ty := .int }] .int
  (.seq [.expr (.builtin .print [.lit (.int 0)]), .expr (.bin .add (.var "a") (.var "b"))]) []
private def mk (body : List Item) : Prog :=
  { recs := [], enums := [], funcs := [pP, fF, .mk 2 "main" [] .int (.seq body) []] }
private def p (k : Int) : Expr := .call (.var "p") [.lit (.int k)]

/-- `f(p(1), p(2))` prints 2, 1, then the body's 0; returns 3 -/
example : (eval (mk [.expr (.call (.var "f") [p 1, p 2])]) [] 30).out = [50, 13, 10, 49, 13, 10, 48, 13, 10] := by decide +kernel
example : (eval (mk [.expr (.call (.var "f") [p 1, p 2])]) [] 30).int? = some 3 := by decide +kernel
/-- `p(1) + p(2) * p(3)` prints 1, 2, 3 -/
example : (eval (mk [.expr (.bin .add (p 1) (.bin .mul (p 2) (p 3)))]) [] 30).out = [49, 13, 10, 50, 13, 10, 51, 13, 10] := by decide +kernel
/-- `p(0) != 0 && p(1) != 0` prints only 0; `p(2) != 0 || p(3) != 0` prints only 2 -/
example : (eval (mk [.expr (.and (.bin .ne (p 0) (.lit (.int 0))) (.bin .ne (p 1) (.lit (.int 0))))]) [] 30).out = [48, 13, 10] := by decide +kernel
example : (eval (mk [.expr (.or (.bin .ne (p 2) (.lit (.int 0))) (.bin .ne (p 3) (.lit (.int 0))))]) [] 30).out = [50, 13, 10] := by decide +kernel
/-- `var a = 1; let b = a; a = 5; b` is 5 -/
example : (eval (mk [.bind true "a" (.lit (.int 1)), .bind false "b" (.var "a"), .expr (.assign (.var "a") (.lit (.int 5))),
    .expr (.var "b")]) [] 30).int? = some 5 := by decide +kernel
/-- `f(p(1), 10 / z)` with `z = 0`: the fault in the RIGHT argument comes first, nothing is printed -/
example : (eval (mk [.bind false "z" (.lit (.int 0)), .expr (.call (.var "f") [p 1, .bin .div (.lit (.int 10)) (.var "z")])]) [] 30).exc?
    = some .division_by_zero := by decide +kernel
example : (eval (mk [.bind false "z" (.lit (.int 0)), .expr (.call (.var "f") [p 1, .bin .div (.lit (.int 10)) (.var "z")])]) [] 30).out
    = [] := by decide +kernel
/-- out of fuel is reported as such, and more fuel gives the answer -/
example : (eval (mk [.expr (p 7)]) [] 3).isOutOfFuel := by decide +kernel
example : (eval (mk [.expr (p 7)]) [] 30).int? = some 7 := by decide +kernel

end Examples

end Never.Src.C02
