import NeverModel.Model.Heap
namespace Never.C09
end Never.C09
