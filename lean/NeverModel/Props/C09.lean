import NeverModel.Lemmas.InvCollect
import NeverModel.Lemmas.VmFreeSound
set_option linter.unusedSimpArgs false
set_option linter.unusedVariables false
/-!
# C09 — the collector reclaims all garbage and keeps heap bookkeeping consistent

Property theorems only (helper lemmas live in `NeverModel/Lemmas`).  The model is
`NeverModel/Model/Heap.lean` (mirror of back/gc.c); it is tied to the C code by the
correspondence check `checks/gc_corr.py` (state-for-state on seeded histories).

Quantifier of the property: all finite sequences of {allocate any object kind, store a
reference, change the root set, collect}.  `Gc.exec` runs such a sequence; the root
set is an argument of each `collect`/`omfalos` operation, so it changes freely.
-/
namespace Never.C09
open Never Mem

/-- `gc_new` establishes the invariant (the C code itself needs `mem_size ≥ 2`) -/
theorem inv_init (n : Nat) (h : 1 ≤ n) : Inv (Gc.new n) := inv_new n h

/-- every well-typed operation preserves the invariant -/
theorem inv_step {g g' : Gc} {op : Op} (inv : Inv g) (wt : g.wellTyped op = true)
    (h : g.apply op = some g') : Inv g' := by
  obtain ⟨fl, il⟩ := inv
  cases op with
  | alloc o =>
    simp only [Gc.apply] at h
    simp only [Gc.wellTyped] at wt
    cases ha : g.alloc o with
    | none => simp [ha] at h; subst h; exact ⟨fl, il⟩
    | some r =>
      obtain ⟨g1, loc⟩ := r
      simp [ha] at h; subst h
      obtain ⟨fl', _, i', _⟩ := inv_alloc il wt ha
      exact ⟨fl', i'⟩
  | setVec a i v => exact ⟨fl, inv_setVec il (by simpa [Gc.wellTyped] using wt) h⟩
  | setArr a i v => exact ⟨fl, inv_setArrElem il (by simpa [Gc.wellTyped] using wt) h⟩
  | append a v => exact ⟨fl, inv_appendArrElem il (by simpa [Gc.wellTyped] using wt) h⟩
  | setFuncVec a v => exact ⟨fl, inv_setFuncVec il (by simpa [Gc.wellTyped] using wt) h⟩
  | setVecRef a v => exact ⟨fl, inv_setVecRef il (by simpa [Gc.wellTyped] using wt) h⟩
  | setArrRef a v => exact ⟨fl, inv_setArrRef il (by simpa [Gc.wellTyped] using wt) h⟩
  | setStrRef a v => exact ⟨fl, inv_setStringRef il (by simpa [Gc.wellTyped] using wt) h⟩
  | collect st gp =>
    simp only [Gc.wellTyped, Bool.and_eq_true, decide_eq_true_eq] at wt
    obtain ⟨g2, h2, _, i2, _⟩ := collect_spec il wt.1 wt.2
    simp only [Gc.apply] at h
    rw [h2] at h; cases h; exact i2
  | omfalos st =>
    simp only [Gc.wellTyped] at wt
    have hpos : 0 < g.mem.size := by have := il.count; omega
    obtain ⟨g2, h2, _, i2, _⟩ := collect_spec (gp := 0) il wt hpos
    simp only [Gc.apply, runOmfalos_eq] at h
    rw [h2] at h; cases h; exact i2
  | run st gp =>
    simp only [Gc.apply] at h
    unfold Gc.run at h
    split at h
    · simp only [Gc.wellTyped, Bool.and_eq_true, decide_eq_true_eq] at wt
      obtain ⟨g2, h2, _, i2, _⟩ := collect_spec il wt.1 wt.2
      rw [h2] at h; cases h; exact i2
    · cases h; exact ⟨fl, il⟩

/-- `gc_run` with the 80 % trigger: either it leaves at least a fifth of the heap
unallocated, or it has just collected and exactly the live cells remain -/
theorem run_headroom {g g' : Gc} {st : List Slot} {gp : Nat} (inv : Inv g)
    (wt : g.wellTyped (.run st gp) = true) (h : g.run st gp = some g') :
    Inv g' ∧ ((5 * g'.cur.length < 4 * g'.mem.size ∧ g' = g) ∨
      (∀ x, x ∈ g'.cur ↔ x ∈ g.cur ∧ Live g.mem (allRoots st gp) x)) := by
  unfold Gc.run at h
  split at h
  · obtain ⟨fl, il⟩ := inv
    simp only [Gc.wellTyped, Bool.and_eq_true, decide_eq_true_eq] at wt
    obtain ⟨g2, h2, _, i2, _, _, c2, _⟩ := collect_spec il wt.1 wt.2
    rw [h2] at h; cases h
    exact ⟨i2, Or.inr c2⟩
  · rename_i hw
    cases h
    refine ⟨inv, Or.inl ⟨?_, rfl⟩⟩
    simpa [Gc.wantsCollect] using hw

/-- **the invariant holds after every history** (all op sequences, all lengths) -/
theorem inv_history (n : Nat) (h : 1 ≤ n) (ops : List Op) : Inv ((Gc.new n).exec ops) := by
  suffices ∀ g, Inv g → Inv (g.exec ops) from this _ (inv_init n h)
  induction ops with
  | nil => intro g i; exact i
  | cons op ops ih =>
    intro g i
    simp only [Gc.exec]
    split
    · rename_i wt
      split
      · rename_i g' h'; exact ih _ (inv_step i wt h')
      · exact ih _ i
    · exact ih _ i

/-- a collection on a consistent heap is always defined: the marking recursion ends, no
NULL / foreign object is read (fuel `2·cells+3` is enough) -/
theorem collect_defined {g : Gc} {st : List Slot} {gp : Nat} (inv : Inv g)
    (wt : g.wellTyped (.collect st gp) = true) : (g.collect st gp).isSome = true := by
  obtain ⟨fl, il⟩ := inv
  simp only [Gc.wellTyped, Bool.and_eq_true, decide_eq_true_eq] at wt
  obtain ⟨g2, h2, _⟩ := collect_spec il wt.1 wt.2
  simp [h2]

/-- **after any collection exactly the cells reachable from the roots stay allocated**:
every unreachable cell is free again, every reachable one is kept, bit-identical,
and the survivors keep their list order -/
theorem collect_exact {g g' : Gc} {st : List Slot} {gp : Nat} (inv : Inv g)
    (wt : g.wellTyped (.collect st gp) = true) (h : g.collect st gp = some g') :
    Inv g' ∧
    (∀ x, (objAt g'.mem x).isSome = true ↔ Live g.mem (allRoots st gp) x) ∧
    (∀ x, Live g.mem (allRoots st gp) x → objAt g'.mem x = objAt g.mem x) ∧
    (∀ x, x ∈ g'.cur ↔ x ∈ g.cur ∧ Live g.mem (allRoots st gp) x) := by
  obtain ⟨fl, il⟩ := inv
  simp only [Gc.wellTyped, Bool.and_eq_true, decide_eq_true_eq] at wt
  obtain ⟨g2, h2, _, i2, e2, k2, c2, _⟩ := collect_spec il wt.1 wt.2
  rw [h2] at h; cases h
  exact ⟨i2, e2, k2, c2⟩

/-- each heap cell is in exactly one place: on the free chain or on the allocated list -/
theorem partition {g : Gc} (inv : Inv g) :
    ∃ fl, Chain g.mem g.free fl ∧ fl.Nodup ∧ g.cur.Nodup ∧
      ∀ x, 0 < x → x < g.mem.size → (x ∈ fl ∨ x ∈ g.cur) ∧ ¬ (x ∈ fl ∧ x ∈ g.cur) := by
  obtain ⟨fl, il⟩ := inv
  refine ⟨fl, il.chain, il.fl_nodup, il.cur_nodup, fun x h0 hx => ⟨il.cover x h0 hx, ?_⟩⟩
  rintro ⟨h1, h2⟩
  have := (il.cur_alloc x).mp h2
  rw [il.fl_free x h1] at this; cases this

/-- a cell is never handed out while in use, and nil is never handed out -/
theorem alloc_fresh {g g' : Gc} {o : Obj} {loc : Nat} (inv : Inv g) (wt : g.wellTyped (.alloc o) = true)
    (h : g.alloc o = some (g', loc)) :
    loc ≠ 0 ∧ objAt g.mem loc = none ∧ loc ∉ g.cur ∧ g'.cur = g.cur ++ [loc] ∧ objAt g'.mem loc = some o := by
  obtain ⟨fl, il⟩ := inv
  obtain ⟨fl', hfl, i', hnone, h0, hmem, hcur⟩ := inv_alloc il (by simpa [Gc.wellTyped] using wt) h
  refine ⟨h0, hnone, ?_, hcur, ?_⟩
  · intro hc; have := (il.cur_alloc loc).mp hc; rw [hnone] at this; cases this
  · rw [hmem, objAt_setObj]
    have : loc < g.mem.size := by
      have := il.chain; rw [hfl] at this; exact this.2.2.1
    simp [this]

/-- "out of memory" is reported exactly when every cell is in use: none is lost -/
theorem oom_iff_full {g : Gc} (o : Obj) (inv : Inv g) :
    g.alloc o = none ↔ g.cur.length + 1 = g.mem.size := by
  obtain ⟨fl, il⟩ := inv
  have hc := il.count
  unfold Gc.alloc
  simp only
  constructor
  · intro h
    split at h
    · rename_i hf
      cases fl with
      | nil => simpa using hc
      | cons x xs => have := il.chain; simp [Chain] at this; omega
    · cases h
  · intro h
    have : fl = [] := by cases fl with | nil => rfl | cons x xs => simp at hc; omega
    subst this
    have := il.chain; simp [Chain] at this
    simp [this]

/-- the two allocated lists never overflow their `mem_size` entries -/
theorem wb_bound {g : Gc} (inv : Inv g) : g.cur.length + 1 ≤ g.mem.size ∧ g.oth = [] := by
  obtain ⟨fl, il⟩ := inv
  exact ⟨by have := il.count; omega, il.oth_empty⟩

/-- allocating `k` reference-free objects -/
def allocAll (g : Gc) : List Obj → Option Gc
  | [] => some g
  | o :: os => match g.alloc o with
    | none => none
    | some (g', _) => allocAll g' os

/-- **bounded live data runs forever in a fixed heap**: whenever the allocated count plus
`k` fits, the next `k` allocations succeed (in particular right after a collection,
where the allocated count is the live count by `collect_exact`) -/
theorem bounded_live_runs_forever {g : Gc} (inv : Inv g) (os : List Obj)
    (hs : ∀ o ∈ os, o.refs = [] ∧ g.mem.okObj o = true)
    (hfit : g.cur.length + os.length + 1 ≤ g.mem.size) : (allocAll g os).isSome = true := by
  induction os generalizing g with
  | nil => rfl
  | cons o os ih =>
    simp only [allocAll]
    cases ha : g.alloc o with
    | none =>
      have := (oom_iff_full o inv).mp ha
      simp at hfit; omega
    | some r =>
      obtain ⟨g1, loc⟩ := r
      obtain ⟨fl, il⟩ := inv
      have ho := (hs o (by simp)).2
      obtain ⟨fl', hfl, i', hnone, h0, hmem, hcur⟩ := inv_alloc il ho ha
      simp only
      apply ih ⟨fl', i'⟩
      · intro o' ho'
        have := hs o' (List.mem_cons_of_mem _ ho')
        refine ⟨this.1, ?_⟩
        rw [hmem]; exact okObj_alloc hnone _ this.2
      · rw [hcur, hmem]; simp at hfit ⊢; omega

/-! ### non-vacuity: the hypotheses are met by concrete, non-trivial states -/

def exPrefix : List Op :=
  [.alloc (.vec [0, 0]), .alloc (.int 7), .setVec 1 0 2, .alloc (.strRef 0), .alloc (.vecRef 1)]
def exCollect : Op := .collect [.addr 4, .stk 3, .unknown] 1

/-- a concrete non-trivial state meeting the hypotheses of `collect_exact`/`collect_defined` -/
example : Inv ((Gc.new 6).exec exPrefix) ∧ ((Gc.new 6).exec exPrefix).wellTyped exCollect = true ∧
    ((Gc.new 6).exec exPrefix).cur = [1, 2, 3, 4] :=
  ⟨inv_history 6 (by decide) _, by decide +kernel, by decide +kernel⟩
example : Inv ((Gc.new 6).exec (exPrefix ++ [exCollect, .alloc (.func 1 9)])) := inv_history 6 (by decide) _
example : (Gc.new 3).alloc (.int 1) ≠ none := by decide +kernel
example : ((Gc.new 2).alloc (.int 1)).bind (fun r => r.1.alloc (.int 2)) = none := by decide +kernel


/-! ## the bookkeeping invariant at VM level

`Inv` above needs every stored reference to be well-kinded (`WK`), which is a typing matter; its allocator part `FreeInv`
(Lemmas/FreeInv.lean) does not: the mark phase only sets marks and the sweep decides by mark and by `obj ≠ none`, so a collection
keeps the free chain and the allocated list right WHATEVER the objects hold (`freeInv_collect`).  A fifth effect logic over the VM monad
(`KF`, Lemmas/VmFree*.lean) shows that every handler of `exec` keeps it: the only primitive that could break it is a raw store
`setObj a` into a FREE cell, and every handler has read the object at `a` or allocated `a` just before, with nothing in between that
frees a cell. -/

/-- the allocator part of the invariant follows from it, holds of a fresh heap, and is kept by an allocation, by a store into a cell
that holds an object, and by a whole collection — with no condition on what the objects refer to -/
theorem free_inv_basics :
    (∀ g, Inv g → FreeInv g) ∧ (∀ n, 1 ≤ n → FreeInv (Gc.new n)) ∧
    (∀ g g' o loc, FreeInv g → g.alloc o = some (g', loc) → FreeInv g' ∧ loc ≠ 0 ∧ objAt g.mem loc = none ∧ objAt g'.mem loc = some o) ∧
    (∀ g a o, FreeInv g → (objAt g.mem a).isSome = true → FreeInv { g with mem := g.mem.setObj a (some o) }) ∧
    (∀ g g' st gp, FreeInv g → g.collect st gp = some g' → FreeInv g') ∧
    (∀ g g' st gp, FreeInv g → g.run st gp = some g' → FreeInv g') :=
  ⟨fun _ h => h.toFree, freeInv_new, fun _ _ _ _ hi h => freeInv_alloc hi h, fun _ _ _ hi h => freeInv_setObj hi (Or.inl h),
   fun _ _ _ _ hi h => freeInv_collect hi h, fun _ _ _ _ hi h => freeInv_run hi h⟩

/-- **Every handler of M-VM keeps the heap's bookkeeping intact** (all 222 opcodes, any module — verified or not —, any machine state,
any results of external calls), hence so does every `step` -/
theorem vm_step_keeps_bookkeeping (md : Vm.Module) (orc : Vm.Oracle) (vm vm' : Vm.Vm) (hi : FreeInv vm.gc)
    (hstep : (Vm.step md orc).run vm = .ok ((), vm')) : FreeInv vm'.gc :=
  Vm.step_keeps_freeInv md orc vm vm' hi hstep

/-- **The heap bookkeeping invariant holds along every execution of M-VM.**  For every module, every heap of at least one cell and
every run of `step` from the machine `nev_execute` starts on (`Ver.RunsTo`: any number of steps, each with any results of its external
calls), the heap of the reached state satisfies `FreeInv`: cell 0 is nil; every other cell is in exactly one place — on the free chain
(then it holds no object) or on the allocated list (then it holds one); both lists are duplicate-free and none is lost
(`free + allocated + 1 = size` for a heap of at least one cell); and the allocator hands out only free cells inside the heap.  This is C09's property for every VM
execution, not only for histories of well-typed `Gc` operations. -/
theorem vm_heap_bookkeeping_invariant (md : Vm.Module) (mem stack gcMode : Nat) (hmem : 1 ≤ mem) (n : Nat) (vm' : Vm.Vm)
    (hr : Ver.RunsTo md (fun _ => True) n (Vm.beginExecute md (Vm.Vm.new mem stack gcMode)) vm') :
    FreeInv vm'.gc ∧
    (∃ fl, Chain vm'.gc.mem vm'.gc.free fl ∧ fl.Nodup ∧ vm'.gc.cur.Nodup ∧
      (1 ≤ vm'.gc.mem.size → fl.length + vm'.gc.cur.length + 1 = vm'.gc.mem.size) ∧
      ∀ x, 0 < x → x < vm'.gc.mem.size →
        (x ∈ fl ∧ x ∉ vm'.gc.cur ∧ objAt vm'.gc.mem x = none) ∨ (x ∉ fl ∧ x ∈ vm'.gc.cur ∧ (objAt vm'.gc.mem x).isSome = true)) ∧
    (vm'.gc.free = 0 ∨ (vm'.gc.free < vm'.gc.mem.size ∧ objAt vm'.gc.mem vm'.gc.free = none)) := by
  have h0 : FreeInv (Vm.beginExecute md (Vm.Vm.new mem stack gcMode)).gc := by
    have : (Vm.beginExecute md (Vm.Vm.new mem stack gcMode)).gc = Gc.new mem := by
      unfold Vm.beginExecute Vm.Vm.new; simp
    rw [this]; exact freeInv_new mem hmem
  have hf := Vm.runs_keep_freeInv md n _ vm' h0 hr
  refine ⟨hf, ?_, hf.alloc_fresh⟩
  obtain ⟨fl, il⟩ := hf
  exact ⟨fl, il.chain, il.fl_nodup, il.cur_nodup, fun hsz => il.count hsz, fun x h0 hx => il.exactly_one x h0 hx⟩

/-- **Reads hit allocated cells or stop the machine.**  Every read of a heap cell a handler performs goes through `objOf` (directly or
through a typed accessor `getInt … getCPtr`): a read that completes found an object in cell `a` and changed nothing; on a free cell, the
nil cell or an address outside the heap the model crashes (the C code would dereference NULL / fail its assert). -/
theorem vm_reads_hit_allocated (a : Nat) :
    Vm.Guard a (Vm.objOf a) ∧ Vm.Guard a (Vm.getInt a) ∧ Vm.Guard a (Vm.getLong a) ∧ Vm.Guard a (Vm.getFloat a) ∧ Vm.Guard a (Vm.getDouble a) ∧
    Vm.Guard a (Vm.getChar a) ∧ Vm.Guard a (Vm.getStr a) ∧ Vm.Guard a (Vm.getStrRef a) ∧ Vm.Guard a (Vm.getVecRef a) ∧ Vm.Guard a (Vm.getArrRef a) ∧
    Vm.Guard a (Vm.getVecObj a) ∧ Vm.Guard a (Vm.getArrObj a) ∧ Vm.Guard a (Vm.getFunc a) ∧ Vm.Guard a (Vm.getCPtr a) :=
  ⟨Vm.guard_objOf a, Vm.guard_getInt a, Vm.guard_getLong a, Vm.guard_getFloat a, Vm.guard_getDouble a, Vm.guard_getChar a, Vm.guard_getStr a,
   Vm.guard_getStrRef a, Vm.guard_getVecRef a, Vm.guard_getArrRef a, Vm.guard_getVecObj a, Vm.guard_getArrObj a, Vm.guard_getFunc a, Vm.guard_getCPtr a⟩

/-- **Between safe points no cell is freed, and no store lands in a free cell** (the access half of C04, for stores PARTIAL in form).  The
handler of every instruction of the verifier's effect table (198 opcodes: everything but the frame operations, of which only SLIDE / RET /
RETHROW run the collector) leaves an object in every cell that held one and keeps `FreeInv`: in particular every cell on the free chain
afterwards holds no object — a raw `setObj` into a free cell would put one there.  (The logic behind it, `KF`, discharges for every raw
store the proviso "the target cell holds an object" from the read or the allocation the handler performed just before; a statement
about each individual store would need an instrumented semantics and is not given.) -/
theorem vm_touch_allocated_partial (md : Vm.Module) (ins : Vm.Instr) (orc : Vm.Oracle) (p q : Nat) (h : Ver.simpleEffect ins = some (p, q))
    (vm vm' : Vm.Vm) (hr : (Vm.exec md ins orc).run vm = .ok ((), vm')) :
    (∀ x, (objAt vm.gc.mem x).isSome = true → (objAt vm'.gc.mem x).isSome = true) ∧ (FreeInv vm.gc → FreeInv vm'.gc) := by
  obtain ⟨h1, h2⟩ := Vm.exec_kf_table md ins orc p q h vm () vm' hr
  exact ⟨h1, fun hi => h2 (fun a ha => by cases ha) hi⟩

/-- the hypotheses are met by real runs: `7 + 5` then HALT on a heap of 8 cells with a collection at every safe point is a `RunsTo` run
from the start machine (4 steps), so its final heap satisfies the invariant; three cells are allocated, four free -/
def vmExModule : Vm.Module := { code := #[⟨.INT, 7, 0, 0⟩, ⟨.INT, 5, 0, 0⟩, ⟨.OP_ADD_INT, 0, 0, 0⟩, ⟨.HALT, 0, 0, 0⟩, ⟨.UNHANDLED_EXCEPTION, 0, 0, 0⟩], strtab := #[], exctab := #[⟨0, 4⟩, ⟨4294967295, 0⟩], excCount := 1, codeEntry := 0, entryAddr := 0, params := [] }

example : ∃ k vm', Ver.RunsTo vmExModule (fun _ => True) k (Vm.beginExecute vmExModule (Vm.Vm.new 8 8 1)) vm' ∧ vm'.running = 0 ∧
    vm'.gc.cur.length = 3 ∧ FreeInv vm'.gc := by
  have key : (match Ver.run vmExModule (fun _ => {}) 4 (Vm.beginExecute vmExModule (Vm.Vm.new 8 8 1)) with
      | .ok v => v.running == 0 && v.gc.cur.length == 3 | .error _ => false) = true := by decide +kernel
  cases hr : Ver.run vmExModule (fun _ => {}) 4 (Vm.beginExecute vmExModule (Vm.Vm.new 8 8 1)) with
  | error e => rw [hr] at key; cases key
  | ok v =>
    rw [hr] at key
    simp only [Bool.and_eq_true, beq_iff_eq] at key
    obtain ⟨k, _, hk⟩ := Ver.run_runsTo vmExModule _ 4 _ _ hr
    exact ⟨k, v, hk, key.1, key.2, (vm_heap_bookkeeping_invariant vmExModule 8 8 1 (by decide) k v hk).1⟩

end Never.C09