import NeverModel.Lemmas.CheckRules
import NeverModel.Lemmas.CheckSound
/-!
# C06 — ill-typed programs are rejected with a diagnostic

Model: `NeverModel/Model/Check.lean` (`check : Prog → Except Diag Unit`, the first diagnostic of
`front/typecheck.c` for a core of the language), tied to the C code by correspondence
(`checks/c06_corr.py`: generated well-typed programs × single-fault mutators; accept/reject, line
and kind of the first `error:` compared with `nev_compile_str`).

Shape of every `rejects_*` theorem: for EVERY program context `P` (`ProgCtx`: which top-level
function, body or catch clause, then any stack of frames — operands, arguments, bindings, blocks,
nested functions, function literals (closures), comprehension elements and qualifiers, match
arms, loop bodies, catch-clause bodies, to any depth) such that the checker reaches the hole
(`P.holeEnv = ok Γ`: nothing visited before the hole is itself in error — the single-fault
reading of the property; `Γ` is the symbol table in force at the hole), and for every offending
node placed in the hole, `check (P.plug bad) = error d` with `d.line` the offending node's line.
`context_never_accepts` drops the reachability hypothesis for nodes that are wrong in every table.

Proofs in `Lemmas/CheckCtx.lean`, `CheckPlug.lean`, `CheckProg.lean`, `CheckRules.lean`.
-/
namespace Never.C06
open Never.Tc

/-! ## the general lemmas: `check` is compositional -/

/-- an error found at the hole is the program's diagnostic -/
theorem context_error_propagates (P : ProgCtx) (Γ : Env) (e : Expr) (d : Diag)
    (hreach : P.holeEnv = .ok Γ) (he : tc Γ e = .error d) : check (P.plug e) = .error d :=
  P.plug_error Γ e d hreach he

/-- an error found before the hole is the program's diagnostic, whatever is in the hole -/
theorem context_prefix_error (P : ProgCtx) (e : Expr) (d : Diag)
    (h : P.holeEnv = .error d) : check (P.plug e) = .error d :=
  P.plug_prefix e d h

/-- a node that is wrong in every symbol table is never accepted, in any context at all -/
theorem context_never_accepts (P : ProgCtx) (e : Expr) (hbad : ∀ Γ, ∃ d, tc Γ e = .error d) :
    ∃ d, check (P.plug e) = .error d :=
  P.never_accepts e hbad

/-- the same for a whole function (top level / item of a block / literal) whose catch clauses,
body or result are in error -/
theorem function_error_propagates (C : FuncCtx) (f : Func) (Γf : Env) (s : Sig) (d : Diag)
    (hreach : C.env f = .ok (Γf, s)) (hf : tcRest Γf s f = .error d) : check (C.plug f) = .error d :=
  C.plug_error f Γf s d hreach hf

/-! ## the catalogue -/

/-- assignment to a `let` binding or to a parameter not declared `var` -/
theorem rejects_assign_let_or_param (P : ProgCtx) (Γ : Env) (ln lx : Ln) (x : String) (rhs : Expr)
    (ent : Entry) (cr : Comb) (hreach : P.holeEnv = .ok Γ)
    (hx : Γ.lookup x = some ent) (hconst : constEntry ent = true) (hr : tc Γ rhs = .ok cr) :
    check (P.plug (.ass ln (.id lx x) rhs)) = .error ⟨ln, .assignConst⟩ :=
  P.plug_error Γ _ _ hreach (tc_assign_const Γ ln lx x rhs ent cr hx hconst hr)

/-- … and to anything else that is not a `var` l-value (result of a call without `var`, element
of a `let` array, field declared `let`, a loop, a literal, …) -/
theorem rejects_assign_nonvar (P : ProgCtx) (Γ : Env) (ln : Ln) (l rhs : Expr) (cl cr : Comb)
    (hreach : P.holeEnv = .ok Γ) (hl : tc Γ l = .ok cl) (hc : cl.cst ≠ .var) (hr : tc Γ rhs = .ok cr) :
    check (P.plug (.ass ln l rhs)) = .error ⟨ln, .assignConst⟩ :=
  P.plug_error Γ _ _ hreach (tc_assign_nonvar Γ ln l rhs cl cr hl hc hr)

/-- call with the wrong number of arguments -/
theorem rejects_call_arity (P : ProgCtx) (Γ : Env) (ln : Ln) (f : Expr) (args : ExprList) (cf : Comb)
    (cs : List (Ln × Comb)) (ps : TyList) (rc : PCst) (r : Ty) (hreach : P.holeEnv = .ok Γ)
    (hf : tc Γ f = .ok cf) (hct : cf.ct = .val (.func ps rc r)) (ha : tcArgs Γ args = .ok cs)
    (hlen : ps.toList.length ≠ cs.length) :
    check (P.plug (.call ln f args)) = .error ⟨ln, .callMismatch⟩ :=
  P.plug_error Γ _ _ hreach (tc_call_arity Γ ln f args cf cs ps rc r hf hct ha hlen)

/-- call with an argument of a kind the parameter does not accept (`Accepts`: numeric kinds
convert, enum → int, otherwise the same type — function types compared through every level).
The diagnostic is at the call or at one of the arguments.  Full strength since the repair of
`param_cmp` (186dfd9); before it, it needed first-order parameter types. -/
theorem rejects_call_kind (P : ProgCtx) (Γ : Env) (ln : Ln) (f : Expr) (args : ExprList)
    (cf : Comb) (cs : List (Ln × Comb)) (ps : TyList) (rc : PCst) (r : Ty)
    (hreach : P.holeEnv = .ok Γ)
    (hf : tc Γ f = .ok cf) (hct : cf.ct = .val (.func ps rc r)) (ha : tcArgs Γ args = .ok cs)
    (hbad : SomeArgRejected ps.toList cs) :
    ∃ d, check (P.plug (.call ln f args)) = .error d ∧ (d.line = ln ∨ ∃ a ∈ cs, d.line = a.1) := by
  obtain ⟨d, hd, hl⟩ := tc_call_kind Γ ln f args cf cs ps rc r hf hct ha hbad
  exact ⟨d, P.plug_error Γ _ _ hreach hd, hl⟩

/-- `(int) -> r` -/
def cexInner (r : Ty) : Ty := .func (.cons .const .int .nil) .const r
/-- parameter type `((int) -> int) -> int` -/
def cexParam : Ty := .func (.cons .const (cexInner .int) .nil) .const .int
/-- argument type `((int) -> string) -> int` -/
def cexArg : Ty := .func (.cons .const (cexInner .string) .nil) .const .int

theorem cexArg_not_accepted : ¬ Accepts cexParam (.val cexArg) := by
  intro h
  cases h with
  | num _ _ hp _ => simp [isNum, cexParam] at hp
  | func _ _ _ _ _ _ hps _ =>
    cases hps with
    | cons _ _ _ _ _ ht _ =>
      cases ht with
      | func _ _ _ _ _ _ _ hr => cases hr

/-- HISTORY — the point that `rejects_call_kind` had to exclude in the pinned tree: the pinned
`param_cmp` (`paramCmpPinned`, `func_cmp(one.params, one.ret, two.params, one.ret)`) said yes
to `(int) -> int` against `(int) -> string` whenever it compared two function types, so a
parameter `h((int) -> int) -> int` took an argument `((int) -> string) -> int`; the repaired
comparison (the model's `paramExprCmp`) rejects it, silently, i.e. with the diagnostic at the call -/
theorem rejects_call_kind_pinned_counterexample :
    paramCmpPinned true .const (cexInner .int) .const (cexInner .string) = true ∧
    ¬ Accepts cexParam (.val cexArg) ∧
    paramExprCmp true .const cexParam 1 ⟨.val cexArg, .temp⟩ = .fail none :=
  ⟨rfl, cexArg_not_accepted, rfl⟩

/-- use of an undefined name -/
theorem rejects_undefined_name (P : ProgCtx) (Γ : Env) (ln : Ln) (x : String)
    (hreach : P.holeEnv = .ok Γ) (hx : Γ.lookup x = none) :
    check (P.plug (.id ln x)) = .error ⟨ln, .undefId⟩ :=
  P.plug_error Γ _ _ hreach (tc_id_undef Γ ln x hx)

/-- use of an undefined attribute of a record -/
theorem rejects_undefined_attribute (P : ProgCtx) (Γ : Env) (ln : Ln) (r : Expr) (fld : String)
    (cr : Comb) (s : String) (hreach : P.holeEnv = .ok Γ) (hr : tc Γ r = .ok cr)
    (hrec : cr.ct = .val (.record s) ∨ cr.ct = .recordId s)
    (hf : findField (Γ.recordFields s) fld = none) :
    check (P.plug (.attr ln r fld)) = .error ⟨ln, .undefAttr⟩ :=
  P.plug_error Γ _ _ hreach (tc_attr_undef Γ ln r fld cr s hr hrec hf)

/-- a binary operator on operand types outside its table (`binTy`; for the scalar kinds the
table is characterised declaratively by `binTy_scalar_sound` / `BinOk`) -/
theorem rejects_operator_incompatible (P : ProgCtx) (Γ : Env) (ln : Ln) (op : BinOp) (l r : Expr)
    (cl cr : Comb) (tl tr : Ty) (hreach : P.holeEnv = .ok Γ)
    (hl : tc Γ l = .ok cl) (hr : tc Γ r = .ok cr) (htl : cl.ct = .val tl) (htr : cr.ct = .val tr)
    (hop : binTy op tl tr = none) :
    check (P.plug (.bin ln op l r)) = .error ⟨ln, binRule op⟩ :=
  P.plug_error Γ _ _ hreach (tc_bin_incompat Γ ln op l r cl cr tl tr hl hr htl htr hop)

theorem rejects_unary_operator_incompatible (P : ProgCtx) (Γ : Env) (ln : Ln) (op : UnOp) (e : Expr)
    (c : Comb) (t : Ty) (hreach : P.holeEnv = .ok Γ)
    (he : tc Γ e = .ok c) (ht : c.ct = .val t) (hop : unTy op t = none) :
    check (P.plug (.un ln op e)) = .error ⟨ln, unRule op⟩ :=
  P.plug_error Γ _ _ hreach (tc_un_incompat Γ ln op e c t he ht hop)

/-- a condition (`c ? a : b`, `if (c) a else b`) that is not `bool` -/
theorem rejects_nonbool_condition (P : ProgCtx) (Γ : Env) (ln : Ln) (c t e : Expr) (cc ct ce : Comb)
    (hreach : P.holeEnv = .ok Γ) (hc : tc Γ c = .ok cc) (ht : tc Γ t = .ok ct) (he : tc Γ e = .ok ce)
    (hb : isBool cc.ct = false) :
    check (P.plug (.cond ln c t e)) = .error ⟨ln, .condNotBool⟩ :=
  P.plug_error Γ _ _ hreach (tc_cond_nonbool Γ ln c t e cc ct ce hc ht he hb)

/-- a `while` condition that is not `bool` -/
theorem rejects_nonbool_while_condition (P : ProgCtx) (Γ : Env) (ln : Ln) (c b : Expr) (cc cb : Comb)
    (hreach : P.holeEnv = .ok Γ) (hc : tc Γ c = .ok cc) (hbd : tc Γ b = .ok cb)
    (hb : isBool cc.ct = false) :
    check (P.plug (.while_ ln c b)) = .error ⟨ln, .whileNotBool⟩ :=
  P.plug_error Γ _ _ hreach (tc_while_nonbool Γ ln c b cc cb hc hbd hb)

/-- without any hypothesis on the context: `while (<int literal>) …` is never accepted -/
theorem rejects_nonbool_condition_anywhere (P : ProgCtx) (ln l : Ln) (b : Expr) :
    ∃ d, check (P.plug (.while_ ln (.litInt l) b)) = .error d := by
  apply P.never_accepts
  intro Γ
  cases hb : tc Γ b with
  | error d => exact ⟨d, by simp [tc, litComb, hb]⟩
  | ok cb => exact ⟨_, tc_while_nonbool Γ ln (.litInt l) b ⟨.val .int, .temp⟩ cb (by simp [tc, litComb]) hb rfl⟩

/-- a function whose body yields a kind of value its declared result does not accept; the
diagnostic is at the function or at its result expression.  For a function at top level, as
an item of a block, or a literal, anywhere (`FuncCtx`). -/
theorem rejects_result_kind (C : FuncCtx) (Γf : Env) (s : Sig) (ln : Ln) (name : String)
    (ps : List Param) (rc : PCst) (rty : Ty) (body : Expr) (excs : ExcList) (c : Comb)
    (hreach : C.env (.mk ln name ps rc rty body excs) = .ok (Γf, s))
    (hx : tcExcs Γf s excs = .ok ()) (hb : tc Γf body = .ok c)
    (hbad : ¬ Accepts s.r c.ct) :
    ∃ d, check (C.plug (.mk ln name ps rc rty body excs)) = .error d ∧ (d.line = ln ∨ d.line = body.ln) := by
  obtain ⟨d, hd, hl⟩ := tcRest_result_kind Γf s ln name ps rc rty body excs c hx hb hbad
  exact ⟨d, C.plug_error _ Γf s d hreach hd, hl⟩

/-- a `match` over an enum that has no `else` and leaves an enumerator without a guard.
PARTIAL: the guard list is not empty; see `rejects_match_missing_counterexample`. -/
theorem rejects_match_missing_partial (P : ProgCtx) (Γ : Env) (ln : Ln) (s : Expr) (g : Guard)
    (gs : GuardList) (cs : Comb) (en : String) (arms : List Comb) (it : String)
    (hreach : P.holeEnv = .ok Γ) (hs : tc Γ s = .ok cs) (hen : cs.ct = .val (.enum en))
    (hg : tcGuards Γ (.cons g gs) = .ok arms) (hsame : guardsSameEnum en (.cons g gs) = .ok ())
    (hnoelse : hasElse (.cons g gs) = false)
    (hit : it ∈ Γ.enumItems en) (hmiss : coversItem it (.cons g gs) = false) :
    check (P.plug (.match_ ln s (.cons g gs))) = .error ⟨ln, .matchMissing⟩ :=
  P.plug_error Γ _ _ hreach
    (tc_match_missing Γ ln s g gs cs en arms hs hen hg hsame
      ((not_exhaustive_iff Γ en _).2 ⟨hnoelse, it, hit, hmiss⟩))

/-- the excluded point: `match e { }` covers no enumerator and is accepted (expr_match_check_type
does nothing when the guard list is NULL) -/
theorem rejects_match_missing_counterexample :
    let p : Prog := ⟨[.enum 1 "E" [(1, "A"), (1, "B")]],
      .cons (.mk 2 "main" [] .dflt .int
        (.seq 5 (.cons (.expr (.match_ 4 (.enumVal 4 (.id 4 "E") "A") .nil))
                (.cons (.expr (.litInt 5)) .nil))) .nil) .nil⟩
    check p = .ok () := by
  rfl

/-- a catch clause naming an exception that does not exist; `xpre` are the clauses before it -/
theorem rejects_unknown_exception (C : FuncCtx) (Γf : Env) (s : Sig) (ln : Ln) (name : String)
    (ps : List Param) (rc : PCst) (rty : Ty) (body : Expr) (xpre xpost : ExcList) (xln : Ln)
    (xname : String) (xbody : Expr)
    (hreach : C.env (.mk ln name ps rc rty body (xpre.app (.cons (.mk xln xname xbody) xpost))) = .ok (Γf, s))
    (hpre : tcExcs Γf s xpre = .ok ()) (hun : unknownExc xname = true) :
    check (C.plug (.mk ln name ps rc rty body (xpre.app (.cons (.mk xln xname xbody) xpost))))
      = .error ⟨xln, .unknownException⟩ :=
  C.plug_error _ Γf s _ hreach
    (tcRest_unknown_exc Γf s ln name ps rc rty body xpre xpost xln xname xbody hpre hun)

/-! ## soundness of acceptance, expression fragment -/

/-- PARTIAL (expression fragment: literals, identifiers, unary and binary operators,
parentheses, conditionals, assignment, `while`; scalar operand kinds): what `tc` accepts is
typable in the declarative system `HasType`, whose operator rules (`BinOk`, `UnOk`) are stated
from the language's promotion order int → long → float → double, not from the checker's tables -/
theorem check_sound_partial (Γ : Env) (e : Expr) (c : Comb) (hΓ : ScalarEnv Γ) (hfrag : Frag e)
    (h : tc Γ e = .ok c) : ∃ t, c.ct = .val t ∧ HasType Γ e t :=
  tc_sound_frag Γ e c hΓ hfrag h


/-! ## non-vacuity: one concrete context, five levels deep, used by every theorem

```
enum E { A, B }   record R { x : int; }
func main() -> int {
    let a = [ 1, 2 ] : int;  let e = E::A;  let r = R(1);
    func g(p : int) -> int {                         -- nested function
        match e {                                    -- match arm
            E::A -> (let func (q : int) -> int {     -- function literal (closure: uses a, e, r)
                       ([ { HOLE; x } | x in a ] : int)[0]   -- comprehension element
                     })(1);
            E::B -> 1;
        }
    } catch (overflow) { 0 };
    g(1)
} catch (division_by_zero) { 0 }
```
-/

def exDecls : List Decl :=
  [.enum 1 "E" [(1, "A"), (1, "B")], .record 2 "R" [⟨2, "x", .dflt, .int, []⟩]]

def exOne : Expr := .litInt 1
def exSeq1 (e : Expr) : Expr := .seq 0 (.cons (.expr e) .nil)

def exFrames : List Frame :=
  [ .seqFunc 20 (.cons (.bind 6 false "a" (.array 6 (.cons exOne (.cons exOne .nil)) .dflt .int))
        (.cons (.bind 7 false "e" (.enumVal 7 (.id 7 "E") "A"))
        (.cons (.bind 7 false "r" (.call 7 (.id 7 "R") (.cons exOne .nil))) .nil)))
      .nil (.body 8 "g" [⟨8, "p", .dflt, .int, []⟩] .dflt .int
              (.cons (.mk 18 "overflow" (exSeq1 (.litInt 18))) .nil))
      .nil (.cons (.expr (.call 19 (.id 19 "g") (.cons exOne .nil))) .nil),
    .seqExpr 10 .nil .nil,
    .matchArm 10 (.id 10 "e") .nil (.item 11 "E" "A") (.cons (.item 15 "E" "B" exOne) .nil),
    .callF 11 (.cons exOne .nil),
    .sup 11,
    .funcLit (.body 11 "" [⟨11, "q", .dflt, .int, []⟩] .dflt .int .nil),
    .seqExpr 13 .nil .nil,
    .derefA 13 (.cons (.litInt 13) .nil),
    .sup 13,
    .lcE 13 (.cons (.gen 13 "x" (.id 13 "a")) .nil) .dflt .int,
    .seqExpr 13 .nil (.cons (.expr (.id 13 "x")) .nil) ]

def exP : ProgCtx :=
  { decls := exDecls, fpre := .nil,
    h := .body 5 "main" [] .dflt .int (.cons (.mk 21 "division_by_zero" (exSeq1 (.litInt 21))) .nil),
    fpost := .nil, frames := exFrames }

instance : Inhabited Env := ⟨⟨[], [], []⟩⟩

/-- the symbol table at the hole -/
def exΓ : Env := match exP.holeEnv with | .ok Γ => Γ | .error _ => default

theorem exP_reaches : exP.holeEnv = .ok exΓ := rfl

/-- the context itself is a well-typed program when the hole holds a harmless expression -/
example : check (exP.plug (.litInt 13)) = .ok () := rfl

-- assignment to the `let` binding `e` of the enclosing function, from inside the closure
example : check (exP.plug (.ass 13 (.id 13 "e") (.enumVal 13 (.id 13 "E") "B"))) = .error ⟨13, .assignConst⟩ :=
  rejects_assign_let_or_param exP exΓ 13 13 "e" _ (.bind false (.val (.enum "E"))) ⟨.val (.enum "E"), .temp⟩
    exP_reaches rfl rfl rfl
-- … and to the non-`var` parameter `q` of the closure
example : check (exP.plug (.ass 13 (.id 13 "q") exOne)) = .error ⟨13, .assignConst⟩ :=
  rejects_assign_let_or_param exP exΓ 13 13 "q" _ (.param .const .int) ⟨.val .int, .temp⟩ exP_reaches rfl rfl rfl
example : check (exP.plug (.ass 13 (.call 13 (.id 13 "g") (.cons exOne .nil)) exOne)) = .error ⟨13, .assignConst⟩ :=
  rejects_assign_nonvar exP exΓ 13 _ _ ⟨.val .int, .const⟩ ⟨.val .int, .temp⟩ exP_reaches rfl (by decide) rfl
-- g(1, 1)
example : check (exP.plug (.call 13 (.id 13 "g") (.cons exOne (.cons exOne .nil)))) = .error ⟨13, .callMismatch⟩ :=
  rejects_call_arity exP exΓ 13 _ _ ⟨.val (.func (.cons .const .int .nil) .const .int), .temp⟩
    [(1, ⟨.val .int, .temp⟩), (1, ⟨.val .int, .temp⟩)] _ _ _ exP_reaches rfl rfl rfl (by decide)
-- g("s"): the diagnostic is at the argument (line 14)
example : ∃ d, check (exP.plug (.call 13 (.id 13 "g") (.cons (.litString 14) .nil))) = .error d ∧
    (d.line = 13 ∨ ∃ a ∈ [(14, (⟨.val .string, .temp⟩ : Comb))], d.line = a.1) :=
  rejects_call_kind exP exΓ 13 _ _ ⟨.val (.func (.cons .const .int .nil) .const .int), .temp⟩
    [(14, ⟨.val .string, .temp⟩)] _ _ _ exP_reaches rfl rfl rfl
    (.inl (by intro h; cases h with | num _ _ _ hb => simp [isNum] at hb))
example : check (exP.plug (.call 13 (.id 13 "g") (.cons (.litString 14) .nil))) = .error ⟨14, .paramKind⟩ := rfl
example : check (exP.plug (.id 13 "nosuch")) = .error ⟨13, .undefId⟩ :=
  rejects_undefined_name exP exΓ 13 "nosuch" exP_reaches rfl
example : check (exP.plug (.attr 13 (.id 13 "r") "y")) = .error ⟨13, .undefAttr⟩ :=
  rejects_undefined_attribute exP exΓ 13 _ "y" ⟨.val (.record "R"), .const⟩ "R" exP_reaches rfl (.inl rfl) rfl
example : check (exP.plug (.bin 13 .add exOne (.litBool 13))) = .error ⟨13, .arith⟩ :=
  rejects_operator_incompatible exP exΓ 13 .add _ _ ⟨.val .int, .temp⟩ ⟨.val .bool, .temp⟩ .int .bool
    exP_reaches rfl rfl rfl rfl rfl
example : check (exP.plug (.un 13 .not exOne)) = .error ⟨13, .notOp⟩ :=
  rejects_unary_operator_incompatible exP exΓ 13 .not _ ⟨.val .int, .temp⟩ .int exP_reaches rfl rfl rfl
example : check (exP.plug (.cond 13 (.id 13 "p") exOne exOne)) = .error ⟨13, .condNotBool⟩ :=
  rejects_nonbool_condition exP exΓ 13 _ _ _ ⟨.val .int, .const⟩ ⟨.val .int, .temp⟩ ⟨.val .int, .temp⟩
    exP_reaches rfl rfl rfl rfl
example : check (exP.plug (.while_ 13 (.litString 13) exOne)) = .error ⟨13, .whileNotBool⟩ :=
  rejects_nonbool_while_condition exP exΓ 13 _ _ ⟨.val .string, .temp⟩ ⟨.val .int, .temp⟩ exP_reaches rfl rfl rfl
-- match e { E::A -> 1; }   (E::B has no guard)
example : check (exP.plug (.match_ 13 (.id 13 "e") (.cons (.item 14 "E" "A" exOne) .nil)))
    = .error ⟨13, .matchMissing⟩ :=
  rejects_match_missing_partial exP exΓ 13 _ _ _ ⟨.val (.enum "E"), .const⟩ "E" [⟨.val .int, .temp⟩] "B"
    exP_reaches rfl rfl rfl rfl rfl (by decide) rfl
-- a function item `func bad() -> int { "s" }` in a block at the hole: diagnostic at the result (line 15)
example : ∃ d, check ((FuncCtx.nested exP 13 .nil .nil .nil (.cons (.expr exOne) .nil)).plug
      (.mk 14 "bad" [] .dflt .int (.seq 15 (.cons (.expr (.litString 15)) .nil)) .nil)) = .error d ∧
    (d.line = 14 ∨ d.line = 15) :=
  rejects_result_kind (.nested exP 13 .nil .nil .nil (.cons (.expr exOne) .nil))
    (funcEnv (match (exΓ.push).add 14 "bad" (.func .nil .const .int) with | .ok Γ => Γ | .error _ => default)
      "bad" ⟨[], .const, .int⟩) ⟨[], .const, .int⟩
    14 "bad" [] .dflt .int _ .nil ⟨.val .string, .temp⟩ rfl rfl rfl
    (by intro h; cases h with | num _ _ _ hb => simp [isNum] at hb)
-- a function literal with `catch (no_such_exception)` at the hole
example : check ((FuncCtx.lit exP).plug
      (.mk 14 "" [] .dflt .int (exSeq1 exOne)
        (ExcList.app .nil (.cons (.mk 16 "no_such_exception" (exSeq1 exOne)) .nil)))) = .error ⟨16, .unknownException⟩ :=
  rejects_unknown_exception (.lit exP) (funcEnv exΓ "" ⟨[], .const, .int⟩) ⟨[], .const, .int⟩
    14 "" [] .dflt .int _ .nil .nil 16 "no_such_exception" _ rfl rfl rfl
-- a top-level function with an unknown exception in its SECOND catch clause
example : check ((FuncCtx.top exDecls .nil .nil).plug
      (.mk 3 "main" [] .dflt .int (exSeq1 exOne)
        (ExcList.app (.cons (.mk 5 "overflow" (exSeq1 exOne)) .nil)
          (.cons (.mk 6 "Overflow" (exSeq1 exOne)) .nil)))) = .error ⟨6, .unknownException⟩ := rfl
-- the hole can also be in a catch clause of a top-level function
def exPcatch : ProgCtx :=
  { decls := exDecls, fpre := .nil,
    h := .exc 5 "main" [⟨5, "n", .dflt, .int, []⟩] .dflt .int (exSeq1 exOne) .nil 7 "division_by_zero" .nil,
    fpost := .nil, frames := [.seqExpr 8 .nil (.cons (.expr exOne) .nil)] }
example : check (exPcatch.plug (.ass 8 (.id 8 "n") exOne)) = .error ⟨8, .assignConst⟩ := rfl
example : ∃ d, check (exP.plug (.while_ 13 (.litInt 13) exOne)) = .error d :=
  rejects_nonbool_condition_anywhere exP 13 13 exOne
-- fragment soundness is not vacuous: 1 + 2L < 3.0 is typable, of type bool
example : ∃ t, (⟨.val .bool, .temp⟩ : Comb).ct = .val t ∧
    HasType exΓ (.bin 1 .lt (.bin 1 .add (.litInt 1) (.litLong 1)) (.litFloat 1)) t := by
  refine ⟨.bool, rfl, ?_⟩
  exact .bin _ _ _ _ .long .float .bool
    (.bin _ _ _ _ .int .long .long (.litInt 1) (.litLong 1) (.arith _ _ _ _ rfl ⟨0, 1, rfl, rfl, rfl⟩))
    (.litFloat 1) (.order _ _ _ .float rfl ⟨1, 2, rfl, rfl, rfl⟩)


def exScalarΓ : Env := ⟨[], [], [[("n", .param .const .int)]]⟩

theorem exScalarΓ_scalar : ScalarEnv exScalarΓ := by
  intro x ent h
  simp only [exScalarΓ, Env.lookup, lookupScopes, Scope.find] at h
  by_cases hx : "n" = x
  · simp [hx] at h; subst h; exact ⟨.int, rfl, rfl⟩
  · simp [hx] at h

example : ∃ t, (⟨.val .bool, .temp⟩ : Comb).ct = .val t ∧
    HasType exScalarΓ (.bin 1 .lt (.bin 1 .add (.id 1 "n") (.litLong 1)) (.litFloat 1)) t :=
  check_sound_partial exScalarΓ _ _ exScalarΓ_scalar
    (.bin _ _ _ _ (.bin _ _ _ _ (.id 1 "n") (.litLong 1)) (.litFloat 1)) rfl


/-- the former known finding as a whole program: `apply(h((int) -> int) -> int)` called with
`k(g(int) -> string)` — rejected at the call (line 3) since 186dfd9 -/
def exSecondOrder : Prog :=
  let fn (r : Ty) : Ty := .func (.cons .dflt .int .nil) .dflt r
  ⟨[], .cons (.mk 1 "apply" [⟨1, "h", .dflt, .func (.cons .dflt (fn .int) .nil) .dflt .int, []⟩] .dflt .int
          (.seq 1 (.cons (.expr (.litInt 1)) .nil)) .nil)
       (.cons (.mk 2 "k" [⟨2, "g", .dflt, fn .string, []⟩] .dflt .int
          (.seq 2 (.cons (.expr (.litInt 2)) .nil)) .nil)
       (.cons (.mk 3 "main" [] .dflt .int
          (.seq 3 (.cons (.expr (.call 3 (.id 3 "apply") (.cons (.id 3 "k") .nil))) .nil)) .nil) .nil))⟩

example : check exSecondOrder = .error ⟨3, .callMismatch⟩ := rfl

/-! ## D11 — tuples, exact element types, ranges, array literal shape, for-in, pipes, marks -/

/-- the branches of `c ? a : b` / `if (c) a else b` must have types `expr_comb_cmp_and_set`
unifies: whatever rule `combCmp` answers is the diagnostic, at the conditional -/
theorem rejects_branch_mismatch (P : ProgCtx) (Γ : Env) (ln : Ln) (c t e : Expr) (cc ct ce : Comb)
    (r : Rule) (hreach : P.holeEnv = .ok Γ)
    (hc : tc Γ c = .ok cc) (ht : tc Γ t = .ok ct) (he : tc Γ e = .ok ce)
    (hb : isBool cc.ct = true) (hcmp : combCmp ct.ct ce.ct = .error r) :
    check (P.plug (.cond ln c t e)) = .error ⟨ln, r⟩ :=
  P.plug_error Γ _ _ hreach (tc_cond_branches Γ ln c t e cc ct ce r hc ht he hb hcmp)

/-- … in particular two tuples of different shape (number of members) or with a member of a
different type (repair b235435: the pinned tree unified them to the left one) -/
theorem rejects_branch_tuples (P : ProgCtx) (Γ : Env) (ln : Ln) (c t e : Expr) (cc ct ce : Comb)
    (ms1 ms2 : TyList) (hreach : P.holeEnv = .ok Γ)
    (hc : tc Γ c = .ok cc) (ht : tc Γ t = .ok ct) (he : tc Γ e = .ok ce) (hb : isBool cc.ct = true)
    (h1 : ct.ct = .val (.tuple ms1)) (h2 : ce.ct = .val (.tuple ms2))
    (hdiff : ms1.length ≠ ms2.length ∨ paramListCmp false ms1 ms2 = false) :
    check (P.plug (.cond ln c t e)) = .error ⟨ln, .condBranches⟩ := by
  apply rejects_branch_mismatch P Γ ln c t e cc ct ce _ hreach hc ht he hb
  rw [h1, h2]
  apply combCmp_tuple
  cases hdiff with
  | inl h => exact paramListCmp_length false ms1 ms2 h
  | inr h => exact h

/-- … and two ranges of different dimension (repair b996419: the pinned tree read the
CONDITION's type there) -/
theorem rejects_branch_ranges (P : ProgCtx) (Γ : Env) (ln : Ln) (c t e : Expr) (cc ct ce : Comb)
    (n1 n2 : Nat) (hreach : P.holeEnv = .ok Γ)
    (hc : tc Γ c = .ok cc) (ht : tc Γ t = .ok ct) (he : tc Γ e = .ok ce) (hb : isBool cc.ct = true)
    (h1 : ct.ct = .val (.range n1)) (h2 : ce.ct = .val (.range n2)) (hdiff : n1 ≠ n2) :
    check (P.plug (.cond ln c t e)) = .error ⟨ln, .branchRanges⟩ := by
  apply rejects_branch_mismatch P Γ ln c t e cc ct ce _ hreach hc ht he hb
  rw [h1, h2]; exact combCmp_range n1 n2 hdiff

/-- … arrays / slices of different dimension or element type, function types that differ -/
theorem rejects_branch_arrays (P : ProgCtx) (Γ : Env) (ln : Ln) (c t e : Expr) (cc ct ce : Comb)
    (n1 n2 : Nat) (c1 c2 : PCst) (e1 e2 : Ty) (hreach : P.holeEnv = .ok Γ)
    (hc : tc Γ c = .ok cc) (ht : tc Γ t = .ok ct) (he : tc Γ e = .ok ce) (hb : isBool cc.ct = true)
    (h1 : ct.ct = .val (.array n1 c1 e1)) (h2 : ce.ct = .val (.array n2 c2 e2))
    (hdiff : (n1 == n2 && paramCmp false c1 e1 c2 e2) = false) :
    check (P.plug (.cond ln c t e)) = .error ⟨ln, .branchArrays⟩ := by
  apply rejects_branch_mismatch P Γ ln c t e cc ct ce _ hreach hc ht he hb
  rw [h1, h2]; exact combCmp_array n1 n2 c1 c2 e1 e2 hdiff

theorem rejects_branch_slices (P : ProgCtx) (Γ : Env) (ln : Ln) (c t e : Expr) (cc ct ce : Comb)
    (n1 n2 : Nat) (c1 c2 : PCst) (e1 e2 : Ty) (hreach : P.holeEnv = .ok Γ)
    (hc : tc Γ c = .ok cc) (ht : tc Γ t = .ok ct) (he : tc Γ e = .ok ce) (hb : isBool cc.ct = true)
    (h1 : ct.ct = .val (.slice n1 c1 e1)) (h2 : ce.ct = .val (.slice n2 c2 e2))
    (hdiff : (n1 == n2 && paramCmp false c1 e1 c2 e2) = false) :
    check (P.plug (.cond ln c t e)) = .error ⟨ln, .branchSlices⟩ := by
  apply rejects_branch_mismatch P Γ ln c t e cc ct ce _ hreach hc ht he hb
  rw [h1, h2]; exact combCmp_slice n1 n2 c1 c2 e1 e2 hdiff

theorem rejects_branch_functions (P : ProgCtx) (Γ : Env) (ln : Ln) (c t e : Expr) (cc ct ce : Comb)
    (ps1 ps2 : TyList) (c1 c2 : PCst) (r1 r2 : Ty) (hreach : P.holeEnv = .ok Γ)
    (hc : tc Γ c = .ok cc) (ht : tc Γ t = .ok ct) (he : tc Γ e = .ok ce) (hb : isBool cc.ct = true)
    (h1 : ct.ct = .val (.func ps1 c1 r1)) (h2 : ce.ct = .val (.func ps2 c2 r2))
    (hdiff : funcCmp ps1 c1 r1 ps2 c2 r2 = false) :
    check (P.plug (.cond ln c t e)) = .error ⟨ln, .branchFuncs⟩ := by
  apply rejects_branch_mismatch P Γ ln c t e cc ct ce _ hreach hc ht he hb
  rw [h1, h2]; exact combCmp_func ps1 ps2 c1 c2 r1 r2 hdiff

/-- the branches of `if let (En::it = e) t else f` (item guard) must agree like those of `?:` -/
theorem rejects_iflet_branches (P : ProgCtx) (Γ : Env) (ln gln : Ln) (en it : String) (e t f : Expr)
    (ce ct cf : Comb) (r : Rule) (hreach : P.holeEnv = .ok Γ)
    (he : tc Γ e = .ok ce) (hen : ce.ct = .val (.enum en)) (hg : guardItemPre Γ gln en it = .ok ())
    (ht : tc Γ t = .ok ct) (hf : tc Γ f = .ok cf) (hcmp : combCmp ct.ct cf.ct = .error r) :
    check (P.plug (.ifLet ln gln en it e t f)) = .error ⟨ln, r⟩ :=
  P.plug_error Γ _ _ hreach (tc_iflet_branches Γ ln gln en it e t f ce ct cf r he hen hg ht hf hcmp)

/-- … and its guard must name the enum of the tested value -/
theorem rejects_iflet_other_enum (P : ProgCtx) (Γ : Env) (ln gln : Ln) (en en' it : String) (e t f : Expr)
    (ce ct cf : Comb) (hreach : P.holeEnv = .ok Γ)
    (he : tc Γ e = .ok ce) (hen : ce.ct = .val (.enum en')) (hg : guardItemPre Γ gln en it = .ok ())
    (ht : tc Γ t = .ok ct) (hf : tc Γ f = .ok cf) (hne : en' ≠ en) :
    check (P.plug (.ifLet ln gln en it e t f)) = .error ⟨ln, .matchGuardDiffers⟩ :=
  P.plug_error Γ _ _ hreach (tc_iflet_other_enum Γ ln gln en en' it e t f ce ct cf he hen hg ht hf hne)

/-- the arms of an exhaustive `match` are compared the same way, the first with each later one -/
theorem rejects_match_arms_mismatch (P : ProgCtx) (Γ : Env) (ln : Ln) (s : Expr) (g : Guard)
    (gs : GuardList) (cs : Comb) (en : String) (a : Comb) (rest : List Comb) (r : Rule)
    (hreach : P.holeEnv = .ok Γ) (hs : tc Γ s = .ok cs) (hen : cs.ct = .val (.enum en))
    (hg : tcGuards Γ (.cons g gs) = .ok (a :: rest)) (hsame : guardsSameEnum en (.cons g gs) = .ok ())
    (hex : exhaustive Γ en (.cons g gs) = true) (hcmp : armsCmp a.ct rest = .error r) :
    check (P.plug (.match_ ln s (.cons g gs))) = .error ⟨ln, r⟩ :=
  P.plug_error Γ _ _ hreach (tc_match_arms Γ ln s g gs cs en a rest r hs hen hg hsame hex hcmp)

/-- RECORDED false rejection (not a rule): `param_cmp` has no case for `long` and none for
`double`, so two IDENTICAL types that mention one of them compare as different — an array of
long is not accepted where an array of long is declared, `c ? [1L] : [2L]` is refused.  The
model mirrors the code; seed C06-7 ("add the missing cases" as one case) is the wrong repair. -/
theorem param_cmp_long_double_false_rejection_counterexample :
    paramCmp false .var .long .var .long = false ∧ paramCmp false .var .double .var .double = false ∧
    paramExprCmp true .const (.array 1 .var .long) 1 ⟨.val (.array 1 .var .long), .temp⟩ = .fail none ∧
    combCmp (.val (.array 1 .var .long)) (.val (.array 1 .var .long)) = .error .branchArrays ∧
    -- and, as it should be, long is not double inside a container
    paramCmp false .var .long .var .double = false :=
  ⟨rfl, rfl, rfl, rfl, rfl⟩

/-- a tuple literal with a number of values different from its declared members -/
theorem rejects_tuple_arity (P : ProgCtx) (Γ : Env) (ln : Ln) (elems : ExprList) (ms ms' : TyList)
    (cs : List (Ln × Comb)) (hreach : P.holeEnv = .ok Γ)
    (he : tcArgs Γ elems = .ok cs) (hm : resolveTys Γ ms.defaultVar = .ok ms')
    (hlen : ms'.toList.length ≠ cs.length) :
    check (P.plug (.tuple ln elems ms)) = .error ⟨ln, .tupleForm⟩ :=
  P.plug_error Γ _ _ hreach (tc_tuple_arity Γ ln elems ms ms' cs he hm hlen)

/-- a tuple literal with a value of a kind its declared member does not accept; the diagnostic
is at the literal or at the value -/
theorem rejects_tuple_member_kind (P : ProgCtx) (Γ : Env) (ln : Ln) (elems : ExprList) (ms ms' : TyList)
    (cs : List (Ln × Comb)) (hreach : P.holeEnv = .ok Γ)
    (he : tcArgs Γ elems = .ok cs) (hm : resolveTys Γ ms.defaultVar = .ok ms')
    (hbad : SomeArgRejected ms'.toList cs) :
    ∃ d, check (P.plug (.tuple ln elems ms)) = .error d ∧ (d.line = ln ∨ ∃ a ∈ cs, d.line = a.1) := by
  obtain ⟨d, hd, hl⟩ := tc_tuple_kind Γ ln elems ms ms' cs he hm hbad
  exact ⟨d, P.plug_error Γ _ _ hreach hd, hl⟩

/-- projection `t[i]` with a literal index beyond the members of the tuple -/
theorem rejects_tuple_index (P : ProgCtx) (Γ : Env) (ln iln : Ln) (e : Expr) (i : Nat) (c : Comb)
    (ms : TyList) (hreach : P.holeEnv = .ok Γ) (he : tc Γ e = .ok c) (hct : c.ct = .val (.tuple ms))
    (hi : ms.length ≤ i) :
    check (P.plug (.proj ln e iln i)) = .error ⟨ln, .tupleIndex⟩ :=
  P.plug_error Γ _ _ hreach (tc_proj_bounds Γ ln iln e i c ms he hct (TyList.get?_none ms i hi))

/-- array literal shape (tcheckarr.c): a literal of rows `[ r_1, …, r_k, r_last ] : T` (each row
a list of well-typed elements) in which some row has not the length of the last one — an EMPTY
row included (seeds C01-6 / C12-7 dropped exactly that disjunct) — is refused.  The C code
prints this first diagnostic at line 0 (a row carries no line), then "array is not well formed"
at the literal. -/
theorem rejects_array_shape (P : ProgCtx) (Γ : Env) (ln : Ln) (elems : ExprList) (ec : PCst)
    (ety et : Ty) (cnts : List Nat) (n : Nat) (leaves : List Item) (hreach : P.holeEnv = .ok Γ)
    (hrows : tcRows Γ elems = .ok [(cnts ++ [n]).map Item.sub, leaves])
    (hty : resolveTy Γ ety = .ok et)
    (hleaves : checkDeepest ec.normVar et leaves.reverse = .ok ())
    (hdiff : ∃ m ∈ cnts, m ≠ n) :
    check (P.plug (.array ln elems ec ety)) = .error ⟨0, .arrayShape⟩ :=
  P.plug_error Γ _ _ hreach (tc_array_ragged Γ ln elems ec ety et cnts n leaves hrows hty hleaves hdiff)

/-- for-in constness (tcforin.c): the iterator of `for (x in a)` over a CONST one-dimensional
array (`let` binding, parameter not declared `var`) is CONST; `x = …` in the body is refused at
the assignment (seeds C06-6 / C06-9 lost exactly this) -/
theorem rejects_forin_iterator_assign (P : ProgCtx) (Γ : Env) (ln la lx : Ln) (x : String)
    (a rhs : Expr) (ca cr : Comb) (ec : PCst) (et : Ty) (hreach : P.holeEnv = .ok Γ)
    (ha : tc Γ a = .ok ca) (hct : ca.ct = .val (.array 1 ec et)) (hconst : ca.cst = .const)
    (hr : tc (Γ.push [(x, .forin ⟨.val et, .const⟩)]) rhs = .ok cr) :
    check (P.plug (.forIn ln x a (.ass la (.id lx x) rhs))) = .error ⟨la, .assignConst⟩ :=
  P.plug_error Γ _ _ hreach (tc_forin_assign_const Γ ln la lx x a rhs ca cr 1 ec et ha hct rfl hconst hr)

/-- … and the iterator of a for-in over a range, always -/
theorem rejects_forin_range_iterator_assign (P : ProgCtx) (Γ : Env) (ln la lx : Ln) (x : String)
    (a rhs : Expr) (ca cr : Comb) (hreach : P.holeEnv = .ok Γ)
    (ha : tc Γ a = .ok ca) (hct : ca.ct = .val (.range 1))
    (hr : tc (Γ.push [(x, .forin ⟨.val .int, .const⟩)]) rhs = .ok cr) :
    check (P.plug (.forIn ln x a (.ass la (.id lx x) rhs))) = .error ⟨la, .assignConst⟩ :=
  P.plug_error Γ _ _ hreach (tc_forin_assign_range Γ ln la lx x a rhs ca cr ha hct hr)

/-- pipe arity (`param_list_expr_expr_list_cmp`): `l |> f(args)` with `l` not a tuple and accepted
by the first parameter: too few AND too many explicit arguments (seed C06-5 dropped the surplus
test) are refused at the pipe -/
theorem rejects_pipe_arity (P : ProgCtx) (Γ : Env) (ln : Ln) (l f : Expr) (args : ExprList)
    (cl cf : Comb) (cs : List (Ln × Comb)) (pc : PCst) (pt : Ty) (ps : TyList) (rc : PCst) (r : Ty)
    (hreach : P.holeEnv = .ok Γ)
    (hl : tc Γ l = .ok cl) (hnt : ∀ ms, cl.ct ≠ .val (.tuple ms))
    (hf : tc Γ f = .ok cf) (hct : cf.ct = .val (.func (.cons pc pt ps) rc r))
    (ha : tcArgs Γ args = .ok cs) (hfirst : paramExprCmp true pc pt l.ln cl = .ok)
    (hlen : ps.toList.length ≠ cs.length) :
    check (P.plug (.pipe ln l f args)) = .error ⟨ln, .callMismatch⟩ :=
  P.plug_error Γ _ _ hreach (tc_pipe_arity Γ ln l f args cl cf cs pc pt ps rc r hl hnt hf hct ha hfirst hlen)

/-- a function without parameters takes no piped value (scalar or tuple) -/
theorem rejects_pipe_into_nullary (P : ProgCtx) (Γ : Env) (ln : Ln) (l f : Expr) (args : ExprList)
    (cl cf : Comb) (cs : List (Ln × Comb)) (rc : PCst) (r : Ty) (hreach : P.holeEnv = .ok Γ)
    (hl : tc Γ l = .ok cl) (hf : tc Γ f = .ok cf) (hct : cf.ct = .val (.func .nil rc r))
    (ha : tcArgs Γ args = .ok cs) :
    check (P.plug (.pipe ln l f args)) = .error ⟨ln, .callMismatch⟩ :=
  P.plug_error Γ _ _ hreach (tc_pipe_noparams Γ ln l f args cl cf cs rc r hl hf hct ha)

/-- tuple unpacking: `t |> f(args)` — members and explicit arguments together must be as many
as the parameters -/
theorem rejects_pipe_tuple_arity (P : ProgCtx) (Γ : Env) (ln : Ln) (l f : Expr) (args : ExprList)
    (cl cf : Comb) (cs : List (Ln × Comb)) (ms ps : TyList) (rc : PCst) (r : Ty)
    (hreach : P.holeEnv = .ok Γ)
    (hl : tc Γ l = .ok cl) (hlt : cl.ct = .val (.tuple ms))
    (hf : tc Γ f = .ok cf) (hct : cf.ct = .val (.func ps rc r)) (ha : tcArgs Γ args = .ok cs)
    (hlen : ps.toList.length ≠ ms.toList.length + cs.length) :
    check (P.plug (.pipe ln l f args)) = .error ⟨ln, .callMismatch⟩ :=
  P.plug_error Γ _ _ hreach (tc_pipe_tuple_arity Γ ln l f args cl cf cs ms ps rc r hl hlt hf hct ha hlen)

/-- match exhaustiveness on the SHARED mark flags (tcmatch.c): whatever matches were checked
before — any number, over any enums, with or without `else`, leaving whatever marks `m0` and
their own marks behind — the exhaustiveness test of a match without `else` that leaves the
enumerator `it` without a guard answers "not covered", and the program is refused at the match.
(Seeds C06-4 / C01-7 made the verdict depend on the earlier matches.)  Guard list not empty:
see `rejects_match_missing_counterexample`. -/
theorem rejects_missing_enumerator (P : ProgCtx) (Γ : Env) (ln : Ln) (s : Expr) (g : Guard)
    (gs : GuardList) (cs : Comb) (en : String) (arms : List Comb) (it : String)
    (earlier : List (String × GuardList)) (m0 : Marks)
    (hreach : P.holeEnv = .ok Γ) (hs : tc Γ s = .ok cs) (hen : cs.ct = .val (.enum en))
    (hg : tcGuards Γ (.cons g gs) = .ok arms) (hsame : guardsSameEnum en (.cons g gs) = .ok ())
    (hnoelse : hasElse (.cons g gs) = false)
    (hit : it ∈ Γ.enumItems en) (hmiss : coversItem it (.cons g gs) = false) :
    (exhaustiveM Γ en (.cons g gs) (runMatches Γ earlier m0)).1 = false ∧
    check (P.plug (.match_ ln s (.cons g gs))) = .error ⟨ln, .matchMissing⟩ := by
  have hex : exhaustive Γ en (.cons g gs) = false :=
    (not_exhaustive_iff Γ en _).2 ⟨hnoelse, it, hit, hmiss⟩
  exact ⟨by rw [exhaustiveM_fst]; exact hex,
    P.plug_error Γ _ _ hreach (tc_match_missing Γ ln s g gs cs en arms hs hen hg hsame hex)⟩

/-! ### enum records -/

/-- `En::it(args)` with a number of arguments other than the fields of the enumerator -/
theorem rejects_ctor_arity (P : ProgCtx) (Γ : Env) (ln : Ln) (e : Expr) (it s : String) (args : ExprList)
    (ce : Comb) (cs : List (Ln × Comb)) (fs : List Field) (hreach : P.holeEnv = .ok Γ)
    (he : tc Γ e = .ok ce) (hct : ce.ct = .enumId s) (hit : Γ.hasItem s it = true)
    (ha : tcArgs Γ args = .ok cs) (hf : Γ.enumRecFields s it = some fs) (hlen : fs.length ≠ cs.length) :
    check (P.plug (.ctor ln e it args)) = .error ⟨ln, .enumCreate⟩ :=
  P.plug_error Γ _ _ hreach (tc_ctor_arity Γ ln e it s args ce cs fs he hct hit ha hf hlen)

/-- … with an argument of a kind the field does not accept (diagnostic at the constructor or at
the argument) -/
theorem rejects_ctor_kind (P : ProgCtx) (Γ : Env) (ln : Ln) (e : Expr) (it s : String) (args : ExprList)
    (ce : Comb) (cs : List (Ln × Comb)) (fs : List Field) (hreach : P.holeEnv = .ok Γ)
    (he : tc Γ e = .ok ce) (hct : ce.ct = .enumId s) (hit : Γ.hasItem s it = true)
    (ha : tcArgs Γ args = .ok cs) (hf : Γ.enumRecFields s it = some fs)
    (hbad : SomeArgRejected (fs.map fun f => (f.cst, f.ty)) cs) :
    ∃ d, check (P.plug (.ctor ln e it args)) = .error d ∧ (d.line = ln ∨ ∃ a ∈ cs, d.line = a.1) := by
  obtain ⟨d, hd, hl⟩ := tc_ctor_kind Γ ln e it s args ce cs fs he hct hit ha hf hbad
  exact ⟨d, P.plug_error Γ _ _ hreach hd, hl⟩

/-- … and a plain enumerator is not a constructor -/
theorem rejects_ctor_of_plain_enumerator (P : ProgCtx) (Γ : Env) (ln : Ln) (e : Expr) (it s : String)
    (args : ExprList) (ce : Comb) (cs : List (Ln × Comb)) (hreach : P.holeEnv = .ok Γ)
    (he : tc Γ e = .ok ce) (hct : ce.ct = .enumId s) (hit : Γ.hasItem s it = true)
    (ha : tcArgs Γ args = .ok cs) (hf : Γ.enumRecFields s it = none) :
    check (P.plug (.ctor ln e it args)) = .error ⟨ln, .enumCreate⟩ :=
  P.plug_error Γ _ _ hreach (tc_ctor_plain Γ ln e it s args ce cs he hct hit ha hf)

/-- a record guard `En::it(x, …) -> …` of a match (`pre` are the guards before it) whose number
of binds is not the number of fields of the enumerator: refused at the guard (52cb4aa: without
walking the missing list) -/
theorem rejects_guard_bind_count (P : ProgCtx) (Γ : Env) (ln gln : Ln) (s : Expr) (en it : String)
    (binds : List (Ln × String)) (e : Expr) (gs : GuardList) (cs : Comb) (en' : String) (pre : GuardList)
    (arms : List Comb) (hreach : P.holeEnv = .ok Γ)
    (hs : tc Γ s = .ok cs) (hen : cs.ct = .val (.enum en')) (hpre : tcGuards Γ pre = .ok arms)
    (hg : guardItemPre Γ gln en it = .ok ())
    (hbad : guardBindsOk Γ gln en it binds = .error ⟨gln, .guardBinds⟩) :
    check (P.plug (.match_ ln s (pre.app (.cons (.recd gln en it binds e) gs)))) = .error ⟨gln, .guardBinds⟩ :=
  P.plug_error Γ _ _ hreach (tc_match_guard_binds Γ ln gln s en it binds e gs cs en' pre arms hs hen hpre hg hbad)

/-- … the same in `if let (En::it(x, …) = e)` -/
theorem rejects_iflet_bind_count (P : ProgCtx) (Γ : Env) (ln gln : Ln) (en it : String)
    (binds : List (Ln × String)) (e t f : Expr) (ce : Comb) (en' : String) (hreach : P.holeEnv = .ok Γ)
    (he : tc Γ e = .ok ce) (hen : ce.ct = .val (.enum en')) (hg : guardItemPre Γ gln en it = .ok ())
    (hbad : guardBindsOk Γ gln en it binds = .error ⟨gln, .guardBinds⟩) :
    check (P.plug (.ifLetRec ln gln en it binds e t f)) = .error ⟨gln, .guardBinds⟩ :=
  P.plug_error Γ _ _ hreach (tc_ifletrec_binds Γ ln gln en it binds e t f ce en' he hen hg hbad)

/-- a record guard that does not resolve (unknown enum, unknown enumerator, a name that is not
an enum): refused with the diagnostic of the resolution, at the guard -/
theorem rejects_guard_unknown_enumerator (P : ProgCtx) (Γ : Env) (ln gln : Ln) (s : Expr) (en it : String)
    (binds : List (Ln × String)) (e : Expr) (gs : GuardList) (cs : Comb) (en' : String) (pre : GuardList)
    (arms : List Comb) (d : Diag) (hreach : P.holeEnv = .ok Γ)
    (hs : tc Γ s = .ok cs) (hen : cs.ct = .val (.enum en')) (hpre : tcGuards Γ pre = .ok arms)
    (hg : guardItemPre Γ gln en it = .error d) :
    check (P.plug (.match_ ln s (pre.app (.cons (.recd gln en it binds e) gs)))) = .error d :=
  P.plug_error Γ _ _ hreach (tc_match_guard_unknown Γ ln gln s en it binds e gs cs en' pre arms d hs hen hpre hg)

/-- guards that all resolve, one of them — item or record guard — of ANOTHER enum than the
matched value: "enums are different", at that guard (enums are compared by identity, so a
same-named, same-shaped enum of another module is another enum: modules are outside the model,
corpus/tc_neg/nominal_* hold those cases) -/
theorem rejects_guard_other_enum (P : ProgCtx) (Γ : Env) (ln : Ln) (s : Expr) (g : Guard) (gs : GuardList)
    (cs : Comb) (en : String) (arms : List Comb) (d : Diag) (hreach : P.holeEnv = .ok Γ)
    (hs : tc Γ s = .ok cs) (hen : cs.ct = .val (.enum en))
    (hg : tcGuards Γ (.cons g gs) = .ok arms) (hsame : guardsSameEnum en (.cons g gs) = .error d) :
    check (P.plug (.match_ ln s (.cons g gs))) = .error d :=
  P.plug_error Γ _ _ hreach (tc_match_guard_other_enum Γ ln s g gs cs en arms d hs hen hg hsame)

/-- a main unit without any function (declarations only, or nothing) is refused, at line 1
(bad4904: `main_check_type` used to walk the NULL list) -/
theorem rejects_empty_main_unit (ds : List Decl) (Γ : Env) (hd : globalEnv ds = .ok Γ) :
    check ⟨ds, .nil⟩ = .error ⟨1, .emptyMainUnit⟩ := by
  simp [check, hd, nonEmptyUnit]

/-- a top-level function item without a name is refused at its line (0b116cb: the NULL name
used to be hashed); `fpre` are the functions declared before it -/
theorem rejects_nameless_function (ds : List Decl) (Γ Γ1 : Env) (fpre fpost : FuncList) (ss : List Sig)
    (f : Func) (hd : globalEnv ds = .ok Γ) (hpre : declFuncs Γ fpre = .ok (Γ1, ss)) (hn : f.name = "") :
    check ⟨ds, fpre.app (.cons f fpost)⟩ = .error ⟨f.ln, .funcNoName⟩ := by
  rw [check_eq]
  simp [hd, nonEmptyUnit_app, declFuncs_app_noname Γ Γ1 fpre ss f fpost hpre hn]

/-- … and so is one that is an item of a block, in any context (a function LITERAL,
`let func (…) -> …`, has no name and needs none) -/
theorem rejects_nameless_function_item (P : ProgCtx) (Γ Γ1 Γ2 : Env) (ln : Ln) (pre post : SeqList)
    (fpre fpost : FuncList) (ss : List Sig) (f : Func) (hreach : P.holeEnv = .ok Γ)
    (hpre : seqEnv Γ.push pre = .ok Γ1) (hf : declFuncs Γ1 fpre = .ok (Γ2, ss)) (hn : f.name = "") :
    check (P.plug (.seq ln (pre.app (.cons (.funcs (fpre.app (.cons f fpost))) post))))
      = .error ⟨f.ln, .funcNoName⟩ :=
  P.plug_error Γ _ _ hreach (tc_seq_noname Γ Γ1 Γ2 ln pre post fpre fpost ss f hpre hf hn)

/-! ### known acceptances of the tree (corpus/tc_known), visible as theorems: the model, which
mirrors the code, ACCEPTS each of these programs that break a static rule -/

def exArr4 : Expr := .array 3 (.cons (.litInt 3) (.cons (.litInt 3) (.cons (.litInt 3) (.cons (.litInt 3) .nil)))) .dflt .int
def exMain (body : SeqList) : Func := .mk 1 "main" [] .dflt .int (.seq 6 body) .nil

/-- `let a = [1,2,3,4] : int; a[1 .. 2][0] = 7; a[1]` — an element of a `let` array assigned
through a slice of it (`expr_slice_check_type` leaves the slice TEMP) -/
theorem const_lost_through_slice_assign_accepted_counterexample :
    check ⟨[], .cons (exMain
      (.cons (.bind 3 false "a" exArr4)
      (.cons (.expr (.ass 4 (.proj 4 (.slice 4 (.id 4 "a") (.cons (.litInt 4) (.cons (.litInt 4) .nil))) 4 0) (.litInt 4)))
      (.cons (.expr (.proj 5 (.id 5 "a") 5 1)) .nil)))) .nil⟩ = .ok () := by rfl

/-- `for (e in a[1 .. 2]) { e = 0 }` over a slice of a `let` array -/
theorem const_lost_through_slice_forin_accepted_counterexample :
    check ⟨[], .cons (exMain
      (.cons (.bind 3 false "a" exArr4)
      (.cons (.expr (.forIn 4 "e" (.slice 4 (.id 4 "a") (.cons (.litInt 4) (.cons (.litInt 4) .nil)))
                (.seq 4 (.cons (.expr (.ass 4 (.id 4 "e") (.litInt 4))) .nil))))
      (.cons (.expr (.proj 5 (.id 5 "a") 5 1)) .nil)))) .nil⟩ = .ok () := by rfl

/-- `let t = (1, 2) : (int, int); t |> f()` with `f(var a : int, var b : int)`: members of a
`let` tuple reach `var` parameters (the tuple pipe compares with `const_cmp = false`) -/
theorem const_tuple_members_to_var_params_accepted_counterexample :
    check ⟨[], .cons (.mk 1 "f" [⟨1, "a", .var, .int, []⟩, ⟨1, "b", .var, .int, []⟩] .dflt .int
        (.seq 1 (.cons (.expr (.ass 1 (.id 1 "a") (.litInt 1))) (.cons (.expr (.id 1 "a")) .nil))) .nil)
      (.cons (.mk 2 "main" [] .dflt .int (.seq 6
        (.cons (.bind 4 false "t" (.tuple 4 (.cons (.litInt 4) (.cons (.litInt 4) .nil))
            (.cons .dflt .int (.cons .dflt .int .nil))))
        (.cons (.expr (.pipe 5 (.id 5 "t") (.id 5 "f") .nil))
        (.cons (.expr (.litInt 6)) .nil)))) .nil) .nil)⟩ = .ok () := by rfl

/-- `func f() -> var [_] : int { [1,2,3] : int } catch (division_by_zero) { let a = [1] : int; a }`:
the value of a catch clause is compared with `const_cmp = false` -/
theorem catch_clause_const_for_var_result_accepted_counterexample :
    check ⟨[], .cons (.mk 1 "f" [] .var (.array 1 .dflt .int)
        (.seq 1 (.cons (.expr (.array 1 (.cons (.litInt 1) .nil) .dflt .int)) .nil))
        (.cons (.mk 1 "division_by_zero"
          (.seq 1 (.cons (.bind 1 false "a" (.array 1 (.cons (.litInt 1) .nil) .dflt .int))
                  (.cons (.expr (.id 1 "a")) .nil)))) .nil))
      (.cons (.mk 2 "main" [] .dflt .int (.seq 2 (.cons (.expr (.litInt 2)) .nil)) .nil) .nil)⟩ = .ok () := by rfl

/-- `func f(r[a .. b] : range) -> int { a = 4; 0 }` — the bound names of a range parameter that
is NOT `var` are assignable (`param_new_range_dim` makes them VAR; the assignment writes the
caller's cell: docs/D3-findings/const-changed-through-range-bound-name.nev) -/
theorem range_bound_name_assign_accepted_counterexample :
    check ⟨[], .cons (.mk 1 "f" [⟨1, "r", .dflt, .range 1, [(1, "a"), (1, "b")]⟩] .dflt .int
        (.seq 4 (.cons (.expr (.ass 3 (.id 3 "a") (.litInt 3))) (.cons (.expr (.litInt 4)) .nil))) .nil)
      (.cons (.mk 6 "main" [] .dflt .int (.seq 9
        (.cons (.bind 8 false "k" (.litInt 8))
        (.cons (.expr (.call 9 (.id 9 "f") (.cons (.range 9 (.cons (.id 9 "k") (.cons (.litInt 9) .nil))) .nil))) .nil))) .nil) .nil)⟩
      = .ok () := by rfl

/-- the same for the bound names of a slice parameter `s[a .. b] : int` -/
theorem slice_bound_name_assign_accepted_counterexample :
    check ⟨[], .cons (.mk 1 "f" [⟨1, "s", .dflt, .slice 1 .dflt .int, [(1, "a"), (1, "b")]⟩] .dflt .int
        (.seq 4 (.cons (.expr (.ass 3 (.id 3 "a") (.litInt 3))) (.cons (.expr (.id 4 "a")) .nil))) .nil) .nil⟩
      = .ok () := by rfl

/-- … whereas the parameter itself is a constant, and a bound name may not be declared twice -/
example : check ⟨[], .cons (.mk 1 "f" [⟨1, "r", .dflt, .range 1, [(1, "a"), (1, "b")]⟩] .dflt .int
      (.seq 4 (.cons (.expr (.ass 3 (.id 3 "r") (.range 3 (.cons (.litInt 3) (.cons (.litInt 3) .nil)))))
              (.cons (.expr (.litInt 4)) .nil))) .nil) .nil⟩ = .error ⟨3, .assignConst⟩ := by rfl
example : check ⟨[], .cons (.mk 1 "f" [⟨1, "r", .dflt, .range 1, [(1, "a"), (2, "a")]⟩] .dflt .int
      (.seq 4 (.cons (.expr (.litInt 4)) .nil)) .nil) .nil⟩ = .error ⟨2, .redefined⟩ := by rfl

/-- … while the same `let` array as the BODY's value is refused (so the rule exists) -/
example :
    check ⟨[], .cons (.mk 1 "f" [] .var (.array 1 .dflt .int)
        (.seq 1 (.cons (.bind 1 false "a" (.array 1 (.cons (.litInt 1) .nil) .dflt .int))
                (.cons (.expr (.id 1 "a")) .nil))) .nil) .nil⟩ = .error ⟨1, .constToVarParam⟩ := by rfl

/-! ### non-vacuity of the D11 theorems, in the five-level context `exP` -/

def exTup (a b : Expr) (ta tb : Ty) : Expr :=
  .tuple 13 (.cons a (.cons b .nil)) (.cons .dflt ta (.cons .dflt tb .nil))
def exTy2 (ta tb : Ty) : TyList := .cons .var ta (.cons .var tb .nil)

-- p == 1 ? (1, 2) : (int, int) : ("s", 1.5, 3) : (string, float, int)
example : check (exP.plug (.cond 13 (.litBool 13) (exTup exOne exOne .int .int)
      (.tuple 13 (.cons (.litString 13) (.cons (.litFloat 13) (.cons exOne .nil)))
        (.cons .dflt .string (.cons .dflt .float (.cons .dflt .int .nil))))))
    = .error ⟨13, .condBranches⟩ :=
  rejects_branch_tuples exP exΓ 13 _ _ _ ⟨.val .bool, .temp⟩ ⟨.val (.tuple (exTy2 .int .int)), .temp⟩
    ⟨.val (.tuple (.cons .var .string (.cons .var .float (.cons .var .int .nil)))), .temp⟩ _ _
    exP_reaches rfl rfl rfl rfl rfl rfl (.inl (by decide))
-- same shape, one member of another type
example : check (exP.plug (.cond 13 (.litBool 13) (exTup exOne exOne .int .int)
      (exTup (.litString 13) exOne .string .int))) = .error ⟨13, .condBranches⟩ :=
  rejects_branch_tuples exP exΓ 13 _ _ _ ⟨.val .bool, .temp⟩ ⟨.val (.tuple (exTy2 .int .int)), .temp⟩
    ⟨.val (.tuple (exTy2 .string .int)), .temp⟩ _ _ exP_reaches rfl rfl rfl rfl rfl rfl (.inr rfl)
-- true ? [1 .. 2] : [1 .. 2, 1 .. 3]
example : check (exP.plug (.cond 13 (.litBool 13) (.range 13 (.cons exOne (.cons exOne .nil)))
      (.range 13 (.cons exOne (.cons exOne (.cons exOne (.cons exOne .nil))))))) = .error ⟨13, .branchRanges⟩ :=
  rejects_branch_ranges exP exΓ 13 _ _ _ ⟨.val .bool, .temp⟩ ⟨.val (.range 1), .temp⟩ ⟨.val (.range 2), .temp⟩
    1 2 exP_reaches rfl rfl rfl rfl rfl rfl (by decide)
-- true ? a : [[1]] : int     (one against two dimensions)
example : check (exP.plug (.cond 13 (.litBool 13) (.id 13 "a")
      (.array 13 (.cons (.sub (.cons exOne .nil)) .nil) .dflt .int))) = .error ⟨13, .branchArrays⟩ :=
  rejects_branch_arrays exP exΓ 13 _ _ _ ⟨.val .bool, .temp⟩ ⟨.val (.array 1 .var .int), .const⟩
    ⟨.val (.array 2 .var .int), .temp⟩ 1 2 .var .var .int .int exP_reaches rfl rfl rfl rfl rfl rfl rfl
-- match e { E::A -> (1, 2) : (int, int); E::B -> ("s", 2) : (string, int); }
example : check (exP.plug (.match_ 13 (.id 13 "e")
      (.cons (.item 14 "E" "A" (exTup exOne exOne .int .int))
      (.cons (.item 15 "E" "B" (exTup (.litString 15) exOne .string .int)) .nil))))
    = .error ⟨13, .condBranches⟩ :=
  rejects_match_arms_mismatch exP exΓ 13 _ _ _ ⟨.val (.enum "E"), .const⟩ "E"
    ⟨.val (.tuple (exTy2 .int .int)), .temp⟩ [⟨.val (.tuple (exTy2 .string .int)), .temp⟩] _
    exP_reaches rfl rfl rfl rfl rfl rfl
-- if let (E::A = e) (1, 2) : (int, int) else ("s", 2) : (string, int)
example : check (exP.plug (.ifLet 13 13 "E" "A" (.id 13 "e") (exTup exOne exOne .int .int)
      (exTup (.litString 13) exOne .string .int))) = .error ⟨13, .condBranches⟩ :=
  rejects_iflet_branches exP exΓ 13 13 "E" "A" _ _ _ ⟨.val (.enum "E"), .const⟩
    ⟨.val (.tuple (exTy2 .int .int)), .temp⟩ ⟨.val (.tuple (exTy2 .string .int)), .temp⟩ _
    exP_reaches rfl rfl rfl rfl rfl rfl
example : check (exP.plug (.ifLet 13 13 "E" "A" (.id 13 "e") exOne exOne)) = .ok () := rfl
-- the hole in the else branch of an if-let
example : check (ProgCtx.plug { exP with frames := exFrames ++ [Frame.ifLetF 13 13 "E" "B" (.id 13 "e") exOne] } (.id 14 "nosuch"))
    = .error ⟨14, .undefId⟩ := rfl
-- (1, 2) : (int, int, int)
example : check (exP.plug (.tuple 13 (.cons exOne (.cons exOne .nil))
      (.cons .dflt .int (.cons .dflt .int (.cons .dflt .int .nil))))) = .error ⟨13, .tupleForm⟩ :=
  rejects_tuple_arity exP exΓ 13 _ _ (.cons .var .int (.cons .var .int (.cons .var .int .nil)))
    [(1, ⟨.val .int, .temp⟩), (1, ⟨.val .int, .temp⟩)] exP_reaches rfl rfl (by decide)
-- ("s", 2) : (int, int): the diagnostic is at the value (line 14)
example : check (exP.plug (exTup (.litString 14) exOne .int .int)) = .error ⟨14, .paramKind⟩ := rfl
example : ∃ d, check (exP.plug (exTup (.litString 14) exOne .int .int)) = .error d ∧
    (d.line = 13 ∨ ∃ a ∈ [(14, (⟨.val .string, .temp⟩ : Comb)), (1, ⟨.val .int, .temp⟩)], d.line = a.1) :=
  rejects_tuple_member_kind exP exΓ 13 _ _ (exTy2 .int .int) _ exP_reaches rfl rfl
    (.inl (by intro h; cases h with | num _ _ _ hb => simp [isNum] at hb))
-- ((1, 2) : (int, int))[2]
example : check (exP.plug (.proj 13 (exTup exOne exOne .int .int) 13 2)) = .error ⟨13, .tupleIndex⟩ :=
  rejects_tuple_index exP exΓ 13 13 _ 2 ⟨.val (.tuple (exTy2 .int .int)), .temp⟩ _ exP_reaches rfl rfl (by decide)
example : check (exP.plug (.proj 13 (exTup exOne exOne .int .int) 13 1)) = .ok () := rfl
-- [ [ ], [ 1, 1 ] ] : int   (the literal of seed C01-6), [ [1], [1, 1] ] : int, and a rectangular one
example : check (exP.plug (.array 13 (.cons (.sub .nil) (.cons (.sub (.cons exOne (.cons exOne .nil))) .nil)) .dflt .int))
    = .error ⟨0, .arrayShape⟩ :=
  rejects_array_shape exP exΓ 13 _ .dflt .int .int [0] 2 [.leaf 1 ⟨.val .int, .temp⟩, .leaf 1 ⟨.val .int, .temp⟩]
    exP_reaches rfl rfl rfl ⟨0, by simp, by decide⟩
example : check (exP.plug (.array 13 (.cons (.sub (.cons exOne .nil)) (.cons (.sub (.cons exOne (.cons exOne .nil))) .nil)) .dflt .int))
    = .error ⟨0, .arrayShape⟩ := rfl
example : check (exP.plug (.array 13 (.cons (.sub (.cons exOne (.cons exOne .nil))) (.cons (.sub .nil) .nil)) .dflt .int))
    = .error ⟨0, .arrayShape⟩ := rfl
example : check (exP.plug (.proj 13 (.sup 13 (.deref 13 (.sup 13
      (.array 13 (.cons (.sub (.cons exOne (.cons exOne .nil))) (.cons (.sub (.cons exOne (.cons exOne .nil))) .nil)) .dflt .int))
      (.cons exOne (.cons exOne .nil)))) 13 0)) = .error ⟨13, .derefNonArray⟩ := rfl
-- for (y in a) y = 1     (a is a `let` array of the enclosing function)
example : check (exP.plug (.forIn 13 "y" (.id 13 "a") (.ass 14 (.id 14 "y") exOne))) = .error ⟨14, .assignConst⟩ :=
  rejects_forin_iterator_assign exP exΓ 13 14 14 "y" _ _ ⟨.val (.array 1 .var .int), .const⟩ ⟨.val .int, .temp⟩
    .var .int exP_reaches rfl rfl rfl rfl
example : check (exP.plug (.forIn 13 "y" (.range 13 (.cons exOne (.cons exOne .nil))) (.ass 14 (.id 14 "y") exOne)))
    = .error ⟨14, .assignConst⟩ :=
  rejects_forin_range_iterator_assign exP exΓ 13 14 14 "y" _ _ ⟨.val (.range 1), .temp⟩ ⟨.val .int, .temp⟩
    exP_reaches rfl rfl rfl
-- 1 |> g(1)   (g has one parameter: a surplus argument), 1 |> g() is fine
example : check (exP.plug (.pipe 13 exOne (.id 13 "g") (.cons exOne .nil))) = .error ⟨13, .callMismatch⟩ :=
  rejects_pipe_arity exP exΓ 13 _ _ _ ⟨.val .int, .temp⟩ ⟨.val (.func (.cons .const .int .nil) .const .int), .temp⟩
    [(1, ⟨.val .int, .temp⟩)] .const .int .nil .const .int exP_reaches rfl (by intro ms h; cases h) rfl rfl rfl rfl
    (by decide)
example : check (exP.plug (.pipe 13 exOne (.id 13 "g") .nil)) = .ok () := rfl
-- (1, 2) : (int, int) |> g()
example : check (exP.plug (.pipe 13 (exTup exOne exOne .int .int) (.id 13 "g") .nil)) = .error ⟨13, .callMismatch⟩ :=
  rejects_pipe_tuple_arity exP exΓ 13 _ _ _ ⟨.val (.tuple (exTy2 .int .int)), .temp⟩
    ⟨.val (.func (.cons .const .int .nil) .const .int), .temp⟩ [] _ _ _ _ exP_reaches rfl rfl rfl rfl rfl (by decide)
-- 1 |> (let func () -> int { 1 })()
example : check (exP.plug (.pipe 13 exOne (.funcLit (.mk 13 "" [] .dflt .int (exSeq1 exOne) .nil)) .nil))
    = .error ⟨13, .callMismatch⟩ :=
  rejects_pipe_into_nullary exP exΓ 13 _ _ _ ⟨.val .int, .temp⟩ ⟨.val (.func .nil .const .int), .temp⟩ [] _ _
    exP_reaches rfl rfl rfl rfl
-- match e { E::A -> 1; } after two earlier matches over E (one with else naming B — the stale
-- mark of seed C06-4 — one complete), starting from marks on both enumerators
example : (exhaustiveM exΓ "E" (.cons (.item 14 "E" "A" exOne) .nil)
      (runMatches exΓ [("E", .cons (.item 1 "E" "B" exOne) (.cons (.else_ 1 exOne) .nil)),
                       ("E", .cons (.item 1 "E" "A" exOne) (.cons (.item 1 "E" "B" exOne) .nil))]
        [("E", "A"), ("E", "B")])).1 = false ∧
    check (exP.plug (.match_ 13 (.id 13 "e") (.cons (.item 14 "E" "A" exOne) .nil))) = .error ⟨13, .matchMissing⟩ :=
  rejects_missing_enumerator exP exΓ 13 _ _ _ ⟨.val (.enum "E"), .const⟩ "E" [⟨.val .int, .temp⟩] "B" _ _
    exP_reaches rfl rfl rfl rfl rfl (by decide) rfl

-- `record P { x : int; }` alone; `func main() …` then `func () -> int { 0 }`; a nameless item in a block at the hole
example : check ⟨exDecls, .nil⟩ = .error ⟨1, .emptyMainUnit⟩ :=
  rejects_empty_main_unit exDecls (match globalEnv exDecls with | .ok Γ => Γ | .error _ => default) rfl
example : check ⟨exDecls, FuncList.app (.cons (.mk 3 "main" [] .dflt .int (exSeq1 exOne) .nil) .nil)
      (.cons (.mk 4 "" [] .dflt .int (exSeq1 exOne) .nil) .nil)⟩ = .error ⟨4, .funcNoName⟩ :=
  rejects_nameless_function exDecls (match globalEnv exDecls with | .ok Γ => Γ | .error _ => default)
    (match globalEnv exDecls with
      | .ok Γ => (match declFuncs Γ (.cons (.mk 3 "main" [] .dflt .int (exSeq1 exOne) .nil) .nil) with
                  | .ok q => q.1 | .error _ => default)
      | .error _ => default)
    _ _ [⟨[], .const, .int⟩] (.mk 4 "" [] .dflt .int (exSeq1 exOne) .nil) rfl rfl rfl
example : check (exP.plug (.seq 13 (SeqList.app .nil (.cons (.funcs (FuncList.app .nil
      (.cons (.mk 14 "" [] .dflt .int (exSeq1 exOne) .nil) .nil))) (.cons (.expr exOne) .nil)))))
    = .error ⟨14, .funcNoName⟩ :=
  rejects_nameless_function_item exP exΓ exΓ.push exΓ.push 13 .nil _ .nil .nil [] _ exP_reaches rfl rfl rfl
-- … while the literal `let func () -> int { 1 }` is fine
example : check (exP.plug (.call 13 (.funcLit (.mk 13 "" [] .dflt .int (exSeq1 exOne) .nil)) .nil)) = .ok () := rfl

/-! ### the hole may sit INSIDE the new constructs (39 frame kinds): a member of a tuple that is
the upper bound of a slice of the piped value of a pipe, the argument of that pipe a row element
of a literal whose projection …  `context_error_propagates` at that depth -/
def exP2 : ProgCtx :=
  { exP with frames := exFrames ++
      [ .pipeA 13 (.id 13 "p") (.id 13 "g") .nil .nil,         -- p |> g( HOLE' )   (arity wrong: irrelevant, the hole is first)
        .projE 13 13 0,                                        -- HOLE''[0]
        .tupleE 13 (.cons exOne .nil) .nil (.cons .dflt .int (.cons .dflt .int .nil)),  -- (1, HOLE''') : (int, int)
        .sliceT 13 (.id 13 "a") [] exOne .nil,                 -- a[1 .. HOLE'''']
        .pipeL 13 (.id 13 "g") .nil,                           -- HOLE |> g()
        .derefA 13 (.cons exOne (.cons exOne .nil)),           -- HOLE[1, 1]
        .arrayE 13 .nil .nil .dflt .int,                       -- [ HOLE ] : int
        .subE (.cons exOne .nil) .nil,                         -- [ 1, HOLE ]
        .rangeF 13 [(exOne, exOne)] exOne .nil ] }              -- [ 1 .. 1, HOLE .. 1 ]

def exΓ2 : Env := match exP2.holeEnv with | .ok Γ => Γ | .error _ => default
theorem exP2_reaches : exP2.holeEnv = .ok exΓ2 := rfl
example : check (exP2.plug (.id 14 "nosuch")) = .error ⟨14, .undefId⟩ :=
  rejects_undefined_name exP2 exΓ2 14 "nosuch" exP2_reaches rfl
example : check (exP2.plug (.ass 14 (.id 14 "q") exOne)) = .error ⟨14, .assignConst⟩ :=
  context_error_propagates exP2 exΓ2 _ _ exP2_reaches rfl

/-! non-vacuity, enum records:
`enum O { N, S { x : int; y : string; } }  enum Q { S { x : int; y : string; } }  func main() -> int { HOLE }` -/
def exRecDecls : List Decl :=
  [.enum 1 "O" [(1, "N"), (1, "S")], .enumRec 1 "O" "S" [⟨1, "x", .dflt, .int, []⟩, ⟨1, "y", .dflt, .string, []⟩],
   .enum 2 "Q" [(2, "S")], .enumRec 2 "Q" "S" [⟨2, "x", .dflt, .int, []⟩, ⟨2, "y", .dflt, .string, []⟩]]
def exR : ProgCtx :=
  { decls := exRecDecls, fpre := .nil, h := .body 3 "main" [] .dflt .int .nil, fpost := .nil,
    frames := [.seqExpr 3 .nil (.cons (.expr exOne) .nil)] }
def exRΓ : Env := match exR.holeEnv with | .ok Γ => Γ | .error _ => default
theorem exR_reaches : exR.holeEnv = .ok exRΓ := rfl
def exS (a b : Expr) : Expr := .ctor 4 (.id 4 "O") "S" (.cons a (.cons b .nil))
def exFs : List Field := [⟨"x", .var, .int⟩, ⟨"y", .var, .string⟩]
-- O::S(1, "s") is fine; O::S(1) and O::S("s", "s") and O::N(1) are not
example : check (exR.plug (exS exOne (.litString 4))) = .ok () := rfl
example : check (exR.plug (.ctor 4 (.id 4 "O") "S" (.cons exOne .nil))) = .error ⟨4, .enumCreate⟩ :=
  rejects_ctor_arity exR exRΓ 4 _ "S" "O" _ ⟨.enumId "O", .temp⟩ [(1, ⟨.val .int, .temp⟩)] exFs
    exR_reaches rfl rfl rfl rfl rfl (by decide)
example : ∃ d, check (exR.plug (exS (.litString 5) (.litString 4))) = .error d ∧
    (d.line = 4 ∨ ∃ a ∈ [(5, (⟨.val .string, .temp⟩ : Comb)), (4, ⟨.val .string, .temp⟩)], d.line = a.1) :=
  rejects_ctor_kind exR exRΓ 4 _ "S" "O" _ ⟨.enumId "O", .temp⟩ _ exFs exR_reaches rfl rfl rfl rfl rfl
    (.inl (by intro h; cases h with | num _ _ _ hb => simp [isNum] at hb))
example : check (exR.plug (.ctor 4 (.id 4 "O") "N" (.cons exOne .nil))) = .error ⟨4, .enumCreate⟩ :=
  rejects_ctor_of_plain_enumerator exR exRΓ 4 _ "N" "O" _ ⟨.enumId "O", .temp⟩ [(1, ⟨.val .int, .temp⟩)]
    exR_reaches rfl rfl rfl rfl rfl
-- match O::S(1, "s") { O::N -> 0; O::S(a, b) -> a; }: the binds are typed from the fields
example : check (exR.plug (.match_ 5 (exS exOne (.litString 4))
    (.cons (.item 6 "O" "N" exOne) (.cons (.recd 7 "O" "S" [(7, "a"), (7, "b")] (.id 7 "a")) .nil)))) = .ok () := rfl
example : check (exR.plug (.match_ 5 (exS exOne (.litString 4))
    (.cons (.item 6 "O" "N" exOne) (.cons (.recd 7 "O" "S" [(7, "a"), (7, "b")] (.id 7 "b")) .nil))))
    = .error ⟨5, .condBranches⟩ := rfl
-- one bind for two fields
example : check (exR.plug (.match_ 5 (exS exOne (.litString 4))
    (GuardList.app (.cons (.item 6 "O" "N" exOne) .nil) (.cons (.recd 7 "O" "S" [(7, "a")] (.id 7 "a")) .nil))))
    = .error ⟨7, .guardBinds⟩ :=
  rejects_guard_bind_count exR exRΓ 5 7 _ "O" "S" _ _ .nil ⟨.val (.enum "O"), .temp⟩ "O" _ [⟨.val .int, .temp⟩]
    exR_reaches rfl rfl rfl rfl rfl
example : check (exR.plug (.ifLetRec 5 5 "O" "S" [(5, "a"), (5, "b"), (5, "c")] (exS exOne (.litString 4)) exOne exOne))
    = .error ⟨5, .guardBinds⟩ :=
  rejects_iflet_bind_count exR exRΓ 5 5 "O" "S" _ _ _ _ ⟨.val (.enum "O"), .temp⟩ "O" exR_reaches rfl rfl rfl rfl
example : check (exR.plug (.ifLetRec 5 5 "O" "S" [(5, "a"), (5, "b")] (exS exOne (.litString 4)) (.id 5 "a") exOne)) = .ok () := rfl
-- O::T(a, b): no such enumerator
example : check (exR.plug (.match_ 5 (exS exOne (.litString 4))
    (GuardList.app .nil (.cons (.recd 7 "O" "T" [(7, "a"), (7, "b")] (.id 7 "a")) .nil)))) = .error ⟨7, .matchGuardItem⟩ :=
  rejects_guard_unknown_enumerator exR exRΓ 5 7 _ "O" "T" _ _ .nil ⟨.val (.enum "O"), .temp⟩ "O" .nil [] _
    exR_reaches rfl rfl rfl rfl
-- Q::S(a, b): same name, same shape, another enum
example : check (exR.plug (.match_ 5 (exS exOne (.litString 4))
    (.cons (.recd 7 "Q" "S" [(7, "a"), (7, "b")] (.id 7 "a")) (.cons (.else_ 8 exOne) .nil)))) = .error ⟨7, .matchGuardDiffers⟩ :=
  rejects_guard_other_enum exR exRΓ 5 _ _ _ ⟨.val (.enum "O"), .temp⟩ "O" [⟨.val .int, .var⟩, ⟨.val .int, .temp⟩] _
    exR_reaches rfl rfl rfl rfl

end Never.C06
