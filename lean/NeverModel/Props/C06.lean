import NeverModel.Lemmas.CheckRules
import NeverModel.Lemmas.CheckSound
/-!
# C06 — ill-typed programs are rejected with a diagnostic

Model: `NeverModel/Model/Check.lean` (`check : Prog → Except Diag Unit`, the first diagnostic of
`front/typecheck.c` for a core of the language), tied to the C code by correspondence
(`checks/c06_corr.py`: generated well-typed programs × single-fault mutators; accept/reject, line
and kind of the first `error:` compared with `nev_compile_str`).

Shape of every `rejects_*` theorem: for EVERY program context `P` (`ProgCtx`: which top-level
function, body or catch clause, then any stack of frames — operands, arguments, bindings, blocks,
nested functions, function literals (closures), comprehension elements and qualifiers, match
arms, loop bodies, catch-clause bodies, to any depth) such that the checker reaches the hole
(`P.holeEnv = ok Γ`: nothing visited before the hole is itself in error — the single-fault
reading of the property; `Γ` is the symbol table in force at the hole), and for every offending
node placed in the hole, `check (P.plug bad) = error d` with `d.line` the offending node's line.
`context_never_accepts` drops the reachability hypothesis for nodes that are wrong in every table.

Proofs in `Lemmas/CheckCtx.lean`, `CheckPlug.lean`, `CheckProg.lean`, `CheckRules.lean`.
-/
namespace Never.C06
open Never.Tc

/-! ## the general lemmas: `check` is compositional -/

/-- an error found at the hole is the program's diagnostic -/
theorem context_error_propagates (P : ProgCtx) (Γ : Env) (e : Expr) (d : Diag)
    (hreach : P.holeEnv = .ok Γ) (he : tc Γ e = .error d) : check (P.plug e) = .error d :=
  P.plug_error Γ e d hreach he

/-- an error found before the hole is the program's diagnostic, whatever is in the hole -/
theorem context_prefix_error (P : ProgCtx) (e : Expr) (d : Diag)
    (h : P.holeEnv = .error d) : check (P.plug e) = .error d :=
  P.plug_prefix e d h

/-- a node that is wrong in every symbol table is never accepted, in any context at all -/
theorem context_never_accepts (P : ProgCtx) (e : Expr) (hbad : ∀ Γ, ∃ d, tc Γ e = .error d) :
    ∃ d, check (P.plug e) = .error d :=
  P.never_accepts e hbad

/-- the same for a whole function (top level / item of a block / literal) whose catch clauses,
body or result are in error -/
theorem function_error_propagates (C : FuncCtx) (f : Func) (Γf : Env) (s : Sig) (d : Diag)
    (hreach : C.env f = .ok (Γf, s)) (hf : tcRest Γf s f = .error d) : check (C.plug f) = .error d :=
  C.plug_error f Γf s d hreach hf

/-! ## the catalogue -/

/-- assignment to a `let` binding or to a parameter not declared `var` -/
theorem rejects_assign_let_or_param (P : ProgCtx) (Γ : Env) (ln lx : Ln) (x : String) (rhs : Expr)
    (ent : Entry) (cr : Comb) (hreach : P.holeEnv = .ok Γ)
    (hx : Γ.lookup x = some ent) (hconst : constEntry ent = true) (hr : tc Γ rhs = .ok cr) :
    check (P.plug (.ass ln (.id lx x) rhs)) = .error ⟨ln, .assignConst⟩ :=
  P.plug_error Γ _ _ hreach (tc_assign_const Γ ln lx x rhs ent cr hx hconst hr)

/-- … and to anything else that is not a `var` l-value (result of a call without `var`, element
of a `let` array, field declared `let`, a loop, a literal, …) -/
theorem rejects_assign_nonvar (P : ProgCtx) (Γ : Env) (ln : Ln) (l rhs : Expr) (cl cr : Comb)
    (hreach : P.holeEnv = .ok Γ) (hl : tc Γ l = .ok cl) (hc : cl.cst ≠ .var) (hr : tc Γ rhs = .ok cr) :
    check (P.plug (.ass ln l rhs)) = .error ⟨ln, .assignConst⟩ :=
  P.plug_error Γ _ _ hreach (tc_assign_nonvar Γ ln l rhs cl cr hl hc hr)

/-- call with the wrong number of arguments -/
theorem rejects_call_arity (P : ProgCtx) (Γ : Env) (ln : Ln) (f : Expr) (args : ExprList) (cf : Comb)
    (cs : List (Ln × Comb)) (ps : TyList) (rc : PCst) (r : Ty) (hreach : P.holeEnv = .ok Γ)
    (hf : tc Γ f = .ok cf) (hct : cf.ct = .val (.func ps rc r)) (ha : tcArgs Γ args = .ok cs)
    (hlen : ps.toList.length ≠ cs.length) :
    check (P.plug (.call ln f args)) = .error ⟨ln, .callMismatch⟩ :=
  P.plug_error Γ _ _ hreach (tc_call_arity Γ ln f args cf cs ps rc r hf hct ha hlen)

/-- call with an argument of a kind the parameter does not accept (`Accepts`: numeric kinds
convert, enum → int, otherwise the same type — function types compared through every level).
The diagnostic is at the call or at one of the arguments.  Full strength since the repair of
`param_cmp` (186dfd9); before it, it needed first-order parameter types. -/
theorem rejects_call_kind (P : ProgCtx) (Γ : Env) (ln : Ln) (f : Expr) (args : ExprList)
    (cf : Comb) (cs : List (Ln × Comb)) (ps : TyList) (rc : PCst) (r : Ty)
    (hreach : P.holeEnv = .ok Γ)
    (hf : tc Γ f = .ok cf) (hct : cf.ct = .val (.func ps rc r)) (ha : tcArgs Γ args = .ok cs)
    (hbad : SomeArgRejected ps.toList cs) :
    ∃ d, check (P.plug (.call ln f args)) = .error d ∧ (d.line = ln ∨ ∃ a ∈ cs, d.line = a.1) := by
  obtain ⟨d, hd, hl⟩ := tc_call_kind Γ ln f args cf cs ps rc r hf hct ha hbad
  exact ⟨d, P.plug_error Γ _ _ hreach hd, hl⟩

/-- `(int) -> r` -/
def cexInner (r : Ty) : Ty := .func (.cons .const .int .nil) .const r
/-- parameter type `((int) -> int) -> int` -/
def cexParam : Ty := .func (.cons .const (cexInner .int) .nil) .const .int
/-- argument type `((int) -> string) -> int` -/
def cexArg : Ty := .func (.cons .const (cexInner .string) .nil) .const .int

theorem cexArg_not_accepted : ¬ Accepts cexParam (.val cexArg) := by
  intro h
  cases h with
  | num _ _ hp _ => simp [isNum, cexParam] at hp
  | func _ _ _ _ _ _ hps _ =>
    cases hps with
    | cons _ _ _ _ _ ht _ =>
      cases ht with
      | func _ _ _ _ _ _ _ hr => cases hr

/-- HISTORY — the point that `rejects_call_kind` had to exclude in the pinned tree: the pinned
`param_cmp` (`paramCmpPinned`, `func_cmp(one.params, one.ret, two.params, one.ret)`) said yes
to `(int) -> int` against `(int) -> string` whenever it compared two function types, so a
parameter `h((int) -> int) -> int` took an argument `((int) -> string) -> int`; the repaired
comparison (the model's `paramExprCmp`) rejects it, silently, i.e. with the diagnostic at the call -/
theorem rejects_call_kind_pinned_counterexample :
    paramCmpPinned true .const (cexInner .int) .const (cexInner .string) = true ∧
    ¬ Accepts cexParam (.val cexArg) ∧
    paramExprCmp true .const cexParam 1 ⟨.val cexArg, .temp⟩ = .fail none :=
  ⟨rfl, cexArg_not_accepted, rfl⟩

/-- use of an undefined name -/
theorem rejects_undefined_name (P : ProgCtx) (Γ : Env) (ln : Ln) (x : String)
    (hreach : P.holeEnv = .ok Γ) (hx : Γ.lookup x = none) :
    check (P.plug (.id ln x)) = .error ⟨ln, .undefId⟩ :=
  P.plug_error Γ _ _ hreach (tc_id_undef Γ ln x hx)

/-- use of an undefined attribute of a record -/
theorem rejects_undefined_attribute (P : ProgCtx) (Γ : Env) (ln : Ln) (r : Expr) (fld : String)
    (cr : Comb) (s : String) (hreach : P.holeEnv = .ok Γ) (hr : tc Γ r = .ok cr)
    (hrec : cr.ct = .val (.record s) ∨ cr.ct = .recordId s)
    (hf : findField (Γ.recordFields s) fld = none) :
    check (P.plug (.attr ln r fld)) = .error ⟨ln, .undefAttr⟩ :=
  P.plug_error Γ _ _ hreach (tc_attr_undef Γ ln r fld cr s hr hrec hf)

/-- a binary operator on operand types outside its table (`binTy`; for the scalar kinds the
table is characterised declaratively by `binTy_scalar_sound` / `BinOk`) -/
theorem rejects_operator_incompatible (P : ProgCtx) (Γ : Env) (ln : Ln) (op : BinOp) (l r : Expr)
    (cl cr : Comb) (tl tr : Ty) (hreach : P.holeEnv = .ok Γ)
    (hl : tc Γ l = .ok cl) (hr : tc Γ r = .ok cr) (htl : cl.ct = .val tl) (htr : cr.ct = .val tr)
    (hop : binTy op tl tr = none) :
    check (P.plug (.bin ln op l r)) = .error ⟨ln, binRule op⟩ :=
  P.plug_error Γ _ _ hreach (tc_bin_incompat Γ ln op l r cl cr tl tr hl hr htl htr hop)

theorem rejects_unary_operator_incompatible (P : ProgCtx) (Γ : Env) (ln : Ln) (op : UnOp) (e : Expr)
    (c : Comb) (t : Ty) (hreach : P.holeEnv = .ok Γ)
    (he : tc Γ e = .ok c) (ht : c.ct = .val t) (hop : unTy op t = none) :
    check (P.plug (.un ln op e)) = .error ⟨ln, unRule op⟩ :=
  P.plug_error Γ _ _ hreach (tc_un_incompat Γ ln op e c t he ht hop)

/-- a condition (`c ? a : b`, `if (c) a else b`) that is not `bool` -/
theorem rejects_nonbool_condition (P : ProgCtx) (Γ : Env) (ln : Ln) (c t e : Expr) (cc ct ce : Comb)
    (hreach : P.holeEnv = .ok Γ) (hc : tc Γ c = .ok cc) (ht : tc Γ t = .ok ct) (he : tc Γ e = .ok ce)
    (hb : isBool cc.ct = false) :
    check (P.plug (.cond ln c t e)) = .error ⟨ln, .condNotBool⟩ :=
  P.plug_error Γ _ _ hreach (tc_cond_nonbool Γ ln c t e cc ct ce hc ht he hb)

/-- a `while` condition that is not `bool` -/
theorem rejects_nonbool_while_condition (P : ProgCtx) (Γ : Env) (ln : Ln) (c b : Expr) (cc cb : Comb)
    (hreach : P.holeEnv = .ok Γ) (hc : tc Γ c = .ok cc) (hbd : tc Γ b = .ok cb)
    (hb : isBool cc.ct = false) :
    check (P.plug (.while_ ln c b)) = .error ⟨ln, .whileNotBool⟩ :=
  P.plug_error Γ _ _ hreach (tc_while_nonbool Γ ln c b cc cb hc hbd hb)

/-- without any hypothesis on the context: `while (<int literal>) …` is never accepted -/
theorem rejects_nonbool_condition_anywhere (P : ProgCtx) (ln l : Ln) (b : Expr) :
    ∃ d, check (P.plug (.while_ ln (.litInt l) b)) = .error d := by
  apply P.never_accepts
  intro Γ
  cases hb : tc Γ b with
  | error d => exact ⟨d, by simp [tc, litComb, hb]⟩
  | ok cb => exact ⟨_, tc_while_nonbool Γ ln (.litInt l) b ⟨.val .int, .temp⟩ cb (by simp [tc, litComb]) hb rfl⟩

/-- a function whose body yields a kind of value its declared result does not accept; the
diagnostic is at the function or at its result expression.  For a function at top level, as
an item of a block, or a literal, anywhere (`FuncCtx`). -/
theorem rejects_result_kind (C : FuncCtx) (Γf : Env) (s : Sig) (ln : Ln) (name : String)
    (ps : List Param) (rc : PCst) (rty : Ty) (body : Expr) (excs : ExcList) (c : Comb)
    (hreach : C.env (.mk ln name ps rc rty body excs) = .ok (Γf, s))
    (hx : tcExcs Γf s excs = .ok ()) (hb : tc Γf body = .ok c)
    (hbad : ¬ Accepts s.r c.ct) :
    ∃ d, check (C.plug (.mk ln name ps rc rty body excs)) = .error d ∧ (d.line = ln ∨ d.line = body.ln) := by
  obtain ⟨d, hd, hl⟩ := tcRest_result_kind Γf s ln name ps rc rty body excs c hx hb hbad
  exact ⟨d, C.plug_error _ Γf s d hreach hd, hl⟩

/-- a `match` over an enum that has no `else` and leaves an enumerator without a guard.
PARTIAL: the guard list is not empty; see `rejects_match_missing_counterexample`. -/
theorem rejects_match_missing_partial (P : ProgCtx) (Γ : Env) (ln : Ln) (s : Expr) (g : Guard)
    (gs : GuardList) (cs : Comb) (en : String) (arms : List Comb) (it : String)
    (hreach : P.holeEnv = .ok Γ) (hs : tc Γ s = .ok cs) (hen : cs.ct = .val (.enum en))
    (hg : tcGuards Γ (.cons g gs) = .ok arms) (hsame : guardsSameEnum en (.cons g gs) = .ok ())
    (hnoelse : hasElse (.cons g gs) = false)
    (hit : it ∈ Γ.enumItems en) (hmiss : coversItem it (.cons g gs) = false) :
    check (P.plug (.match_ ln s (.cons g gs))) = .error ⟨ln, .matchMissing⟩ :=
  P.plug_error Γ _ _ hreach
    (tc_match_missing Γ ln s g gs cs en arms hs hen hg hsame
      ((not_exhaustive_iff Γ en _).2 ⟨hnoelse, it, hit, hmiss⟩))

/-- the excluded point: `match e { }` covers no enumerator and is accepted (expr_match_check_type
does nothing when the guard list is NULL) -/
theorem rejects_match_missing_counterexample :
    let p : Prog := ⟨[.enum 1 "E" [(1, "A"), (1, "B")]],
      .cons (.mk 2 "main" [] .dflt .int
        (.seq 5 (.cons (.expr (.match_ 4 (.enumVal 4 (.id 4 "E") "A") .nil))
                (.cons (.expr (.litInt 5)) .nil))) .nil) .nil⟩
    check p = .ok () := by
  rfl

/-- a catch clause naming an exception that does not exist; `xpre` are the clauses before it -/
theorem rejects_unknown_exception (C : FuncCtx) (Γf : Env) (s : Sig) (ln : Ln) (name : String)
    (ps : List Param) (rc : PCst) (rty : Ty) (body : Expr) (xpre xpost : ExcList) (xln : Ln)
    (xname : String) (xbody : Expr)
    (hreach : C.env (.mk ln name ps rc rty body (xpre.app (.cons (.mk xln xname xbody) xpost))) = .ok (Γf, s))
    (hpre : tcExcs Γf s xpre = .ok ()) (hun : unknownExc xname = true) :
    check (C.plug (.mk ln name ps rc rty body (xpre.app (.cons (.mk xln xname xbody) xpost))))
      = .error ⟨xln, .unknownException⟩ :=
  C.plug_error _ Γf s _ hreach
    (tcRest_unknown_exc Γf s ln name ps rc rty body xpre xpost xln xname xbody hpre hun)

/-! ## soundness of acceptance, expression fragment -/

/-- PARTIAL (expression fragment: literals, identifiers, unary and binary operators,
parentheses, conditionals, assignment, `while`; scalar operand kinds): what `tc` accepts is
typable in the declarative system `HasType`, whose operator rules (`BinOk`, `UnOk`) are stated
from the language's promotion order int → long → float → double, not from the checker's tables -/
theorem check_sound_partial (Γ : Env) (e : Expr) (c : Comb) (hΓ : ScalarEnv Γ) (hfrag : Frag e)
    (h : tc Γ e = .ok c) : ∃ t, c.ct = .val t ∧ HasType Γ e t :=
  tc_sound_frag Γ e c hΓ hfrag h


/-! ## non-vacuity: one concrete context, five levels deep, used by every theorem

```
enum E { A, B }   record R { x : int; }
func main() -> int {
    let a = [ 1, 2 ] : int;  let e = E::A;  let r = R(1);
    func g(p : int) -> int {                         -- nested function
        match e {                                    -- match arm
            E::A -> (let func (q : int) -> int {     -- function literal (closure: uses a, e, r)
                       ([ { HOLE; x } | x in a ] : int)[0]   -- comprehension element
                     })(1);
            E::B -> 1;
        }
    } catch (overflow) { 0 };
    g(1)
} catch (division_by_zero) { 0 }
```
-/

def exDecls : List Decl :=
  [.enum 1 "E" [(1, "A"), (1, "B")], .record 2 "R" [⟨2, "x", .dflt, .int⟩]]

def exOne : Expr := .litInt 1
def exSeq1 (e : Expr) : Expr := .seq 0 (.cons (.expr e) .nil)

def exFrames : List Frame :=
  [ .seqFunc 20 (.cons (.bind 6 false "a" (.array 6 (.cons exOne (.cons exOne .nil)) .dflt .int))
        (.cons (.bind 7 false "e" (.enumVal 7 (.id 7 "E") "A"))
        (.cons (.bind 7 false "r" (.call 7 (.id 7 "R") (.cons exOne .nil))) .nil)))
      .nil (.body 8 "g" [⟨8, "p", .dflt, .int⟩] .dflt .int
              (.cons (.mk 18 "overflow" (exSeq1 (.litInt 18))) .nil))
      .nil (.cons (.expr (.call 19 (.id 19 "g") (.cons exOne .nil))) .nil),
    .seqExpr 10 .nil .nil,
    .matchArm 10 (.id 10 "e") .nil (.item 11 "E" "A") (.cons (.item 15 "E" "B" exOne) .nil),
    .callF 11 (.cons exOne .nil),
    .sup 11,
    .funcLit (.body 11 "" [⟨11, "q", .dflt, .int⟩] .dflt .int .nil),
    .seqExpr 13 .nil .nil,
    .derefA 13 (.cons (.litInt 13) .nil),
    .sup 13,
    .lcE 13 (.cons (.gen 13 "x" (.id 13 "a")) .nil) .dflt .int,
    .seqExpr 13 .nil (.cons (.expr (.id 13 "x")) .nil) ]

def exP : ProgCtx :=
  { decls := exDecls, fpre := .nil,
    h := .body 5 "main" [] .dflt .int (.cons (.mk 21 "division_by_zero" (exSeq1 (.litInt 21))) .nil),
    fpost := .nil, frames := exFrames }

instance : Inhabited Env := ⟨⟨[], [], []⟩⟩

/-- the symbol table at the hole -/
def exΓ : Env := match exP.holeEnv with | .ok Γ => Γ | .error _ => default

theorem exP_reaches : exP.holeEnv = .ok exΓ := rfl

/-- the context itself is a well-typed program when the hole holds a harmless expression -/
example : check (exP.plug (.litInt 13)) = .ok () := rfl

-- assignment to the `let` binding `e` of the enclosing function, from inside the closure
example : check (exP.plug (.ass 13 (.id 13 "e") (.enumVal 13 (.id 13 "E") "B"))) = .error ⟨13, .assignConst⟩ :=
  rejects_assign_let_or_param exP exΓ 13 13 "e" _ (.bind false (.val (.enum "E"))) ⟨.val (.enum "E"), .temp⟩
    exP_reaches rfl rfl rfl
-- … and to the non-`var` parameter `q` of the closure
example : check (exP.plug (.ass 13 (.id 13 "q") exOne)) = .error ⟨13, .assignConst⟩ :=
  rejects_assign_let_or_param exP exΓ 13 13 "q" _ (.param .const .int) ⟨.val .int, .temp⟩ exP_reaches rfl rfl rfl
example : check (exP.plug (.ass 13 (.call 13 (.id 13 "g") (.cons exOne .nil)) exOne)) = .error ⟨13, .assignConst⟩ :=
  rejects_assign_nonvar exP exΓ 13 _ _ ⟨.val .int, .const⟩ ⟨.val .int, .temp⟩ exP_reaches rfl (by decide) rfl
-- g(1, 1)
example : check (exP.plug (.call 13 (.id 13 "g") (.cons exOne (.cons exOne .nil)))) = .error ⟨13, .callMismatch⟩ :=
  rejects_call_arity exP exΓ 13 _ _ ⟨.val (.func (.cons .const .int .nil) .const .int), .temp⟩
    [(1, ⟨.val .int, .temp⟩), (1, ⟨.val .int, .temp⟩)] _ _ _ exP_reaches rfl rfl rfl (by decide)
-- g("s"): the diagnostic is at the argument (line 14)
example : ∃ d, check (exP.plug (.call 13 (.id 13 "g") (.cons (.litString 14) .nil))) = .error d ∧
    (d.line = 13 ∨ ∃ a ∈ [(14, (⟨.val .string, .temp⟩ : Comb))], d.line = a.1) :=
  rejects_call_kind exP exΓ 13 _ _ ⟨.val (.func (.cons .const .int .nil) .const .int), .temp⟩
    [(14, ⟨.val .string, .temp⟩)] _ _ _ exP_reaches rfl rfl rfl
    (.inl (by intro h; cases h with | num _ _ _ hb => simp [isNum] at hb))
example : check (exP.plug (.call 13 (.id 13 "g") (.cons (.litString 14) .nil))) = .error ⟨14, .paramKind⟩ := rfl
example : check (exP.plug (.id 13 "nosuch")) = .error ⟨13, .undefId⟩ :=
  rejects_undefined_name exP exΓ 13 "nosuch" exP_reaches rfl
example : check (exP.plug (.attr 13 (.id 13 "r") "y")) = .error ⟨13, .undefAttr⟩ :=
  rejects_undefined_attribute exP exΓ 13 _ "y" ⟨.val (.record "R"), .const⟩ "R" exP_reaches rfl (.inl rfl) rfl
example : check (exP.plug (.bin 13 .add exOne (.litBool 13))) = .error ⟨13, .arith⟩ :=
  rejects_operator_incompatible exP exΓ 13 .add _ _ ⟨.val .int, .temp⟩ ⟨.val .bool, .temp⟩ .int .bool
    exP_reaches rfl rfl rfl rfl rfl
example : check (exP.plug (.un 13 .not exOne)) = .error ⟨13, .notOp⟩ :=
  rejects_unary_operator_incompatible exP exΓ 13 .not _ ⟨.val .int, .temp⟩ .int exP_reaches rfl rfl rfl
example : check (exP.plug (.cond 13 (.id 13 "p") exOne exOne)) = .error ⟨13, .condNotBool⟩ :=
  rejects_nonbool_condition exP exΓ 13 _ _ _ ⟨.val .int, .const⟩ ⟨.val .int, .temp⟩ ⟨.val .int, .temp⟩
    exP_reaches rfl rfl rfl rfl
example : check (exP.plug (.while_ 13 (.litString 13) exOne)) = .error ⟨13, .whileNotBool⟩ :=
  rejects_nonbool_while_condition exP exΓ 13 _ _ ⟨.val .string, .temp⟩ ⟨.val .int, .temp⟩ exP_reaches rfl rfl rfl
-- match e { E::A -> 1; }   (E::B has no guard)
example : check (exP.plug (.match_ 13 (.id 13 "e") (.cons (.item 14 "E" "A" exOne) .nil)))
    = .error ⟨13, .matchMissing⟩ :=
  rejects_match_missing_partial exP exΓ 13 _ _ _ ⟨.val (.enum "E"), .const⟩ "E" [⟨.val .int, .temp⟩] "B"
    exP_reaches rfl rfl rfl rfl rfl (by decide) rfl
-- a function item `func bad() -> int { "s" }` in a block at the hole: diagnostic at the result (line 15)
example : ∃ d, check ((FuncCtx.nested exP 13 .nil .nil .nil (.cons (.expr exOne) .nil)).plug
      (.mk 14 "bad" [] .dflt .int (.seq 15 (.cons (.expr (.litString 15)) .nil)) .nil)) = .error d ∧
    (d.line = 14 ∨ d.line = 15) :=
  rejects_result_kind (.nested exP 13 .nil .nil .nil (.cons (.expr exOne) .nil))
    (funcEnv (match (exΓ.push).add 14 "bad" (.func .nil .const .int) with | .ok Γ => Γ | .error _ => default)
      "bad" ⟨[], .const, .int⟩) ⟨[], .const, .int⟩
    14 "bad" [] .dflt .int _ .nil ⟨.val .string, .temp⟩ rfl rfl rfl
    (by intro h; cases h with | num _ _ _ hb => simp [isNum] at hb)
-- a function literal with `catch (no_such_exception)` at the hole
example : check ((FuncCtx.lit exP).plug
      (.mk 14 "" [] .dflt .int (exSeq1 exOne)
        (ExcList.app .nil (.cons (.mk 16 "no_such_exception" (exSeq1 exOne)) .nil)))) = .error ⟨16, .unknownException⟩ :=
  rejects_unknown_exception (.lit exP) (funcEnv exΓ "" ⟨[], .const, .int⟩) ⟨[], .const, .int⟩
    14 "" [] .dflt .int _ .nil .nil 16 "no_such_exception" _ rfl rfl rfl
-- a top-level function with an unknown exception in its SECOND catch clause
example : check ((FuncCtx.top exDecls .nil .nil).plug
      (.mk 3 "main" [] .dflt .int (exSeq1 exOne)
        (ExcList.app (.cons (.mk 5 "overflow" (exSeq1 exOne)) .nil)
          (.cons (.mk 6 "Overflow" (exSeq1 exOne)) .nil)))) = .error ⟨6, .unknownException⟩ := rfl
-- the hole can also be in a catch clause of a top-level function
def exPcatch : ProgCtx :=
  { decls := exDecls, fpre := .nil,
    h := .exc 5 "main" [⟨5, "n", .dflt, .int⟩] .dflt .int (exSeq1 exOne) .nil 7 "division_by_zero" .nil,
    fpost := .nil, frames := [.seqExpr 8 .nil (.cons (.expr exOne) .nil)] }
example : check (exPcatch.plug (.ass 8 (.id 8 "n") exOne)) = .error ⟨8, .assignConst⟩ := rfl
example : ∃ d, check (exP.plug (.while_ 13 (.litInt 13) exOne)) = .error d :=
  rejects_nonbool_condition_anywhere exP 13 13 exOne
-- fragment soundness is not vacuous: 1 + 2L < 3.0 is typable, of type bool
example : ∃ t, (⟨.val .bool, .temp⟩ : Comb).ct = .val t ∧
    HasType exΓ (.bin 1 .lt (.bin 1 .add (.litInt 1) (.litLong 1)) (.litFloat 1)) t := by
  refine ⟨.bool, rfl, ?_⟩
  exact .bin _ _ _ _ .long .float .bool
    (.bin _ _ _ _ .int .long .long (.litInt 1) (.litLong 1) (.arith _ _ _ _ rfl ⟨0, 1, rfl, rfl, rfl⟩))
    (.litFloat 1) (.order _ _ _ .float rfl ⟨1, 2, rfl, rfl, rfl⟩)


def exScalarΓ : Env := ⟨[], [], [[("n", .param .const .int)]]⟩

theorem exScalarΓ_scalar : ScalarEnv exScalarΓ := by
  intro x ent h
  simp only [exScalarΓ, Env.lookup, lookupScopes, Scope.find] at h
  by_cases hx : "n" = x
  · simp [hx] at h; subst h; exact ⟨.int, rfl, rfl⟩
  · simp [hx] at h

example : ∃ t, (⟨.val .bool, .temp⟩ : Comb).ct = .val t ∧
    HasType exScalarΓ (.bin 1 .lt (.bin 1 .add (.id 1 "n") (.litLong 1)) (.litFloat 1)) t :=
  check_sound_partial exScalarΓ _ _ exScalarΓ_scalar
    (.bin _ _ _ _ (.bin _ _ _ _ (.id 1 "n") (.litLong 1)) (.litFloat 1)) rfl


/-- the former known finding as a whole program: `apply(h((int) -> int) -> int)` called with
`k(g(int) -> string)` — rejected at the call (line 3) since 186dfd9 -/
def exSecondOrder : Prog :=
  let fn (r : Ty) : Ty := .func (.cons .dflt .int .nil) .dflt r
  ⟨[], .cons (.mk 1 "apply" [⟨1, "h", .dflt, .func (.cons .dflt (fn .int) .nil) .dflt .int⟩] .dflt .int
          (.seq 1 (.cons (.expr (.litInt 1)) .nil)) .nil)
       (.cons (.mk 2 "k" [⟨2, "g", .dflt, fn .string⟩] .dflt .int
          (.seq 2 (.cons (.expr (.litInt 2)) .nil)) .nil)
       (.cons (.mk 3 "main" [] .dflt .int
          (.seq 3 (.cons (.expr (.call 3 (.id 3 "apply") (.cons (.id 3 "k") .nil))) .nil)) .nil) .nil))⟩

example : check exSecondOrder = .error ⟨3, .callMismatch⟩ := rfl

end Never.C06
