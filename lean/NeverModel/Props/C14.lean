import NeverModel.Lemmas.Frame
import NeverModel.Props.C09
/-!
# C14 — exhausting the VM stack or heap is reported, not suffered

`pushP` is the push sequence every value-producing handler of the model goes through
(`sp++; vm_check_stack; stack[sp] = …`, `pushAddr`).  The theorems say: such a push, and the frame
construction of MARK, is either in bounds or ends in the "stack too large" report *before* any
write.  On the pinned tree MARK, ALLOC, RECORD_UNPACK and DUP wrote first and checked afterwards
(`mark_pinned_writes_before_check_counterexample`); a `fix:` commit moved the check before the
writes in all four, the model mirrors the repaired code, and ALLOC now goes through `pushAddr`.
-/
namespace Never.C14
open Never Never.Vm

/-- a checked push never writes outside the configured stack: it is in bounds, or it is reported -/
theorem push_in_bounds_or_reported (vm : Vm) (a : Nat) (hs : StackOk vm) (h0 : -1 ≤ vm.sp) :
    (∃ t, pushP vm a = .error (.exit "stack too large" t)) ∨
    (∃ vm', pushP vm a = .ok vm' ∧ 0 ≤ vm'.sp ∧ vm'.sp < vm'.stackSize ∧ slot vm' vm'.sp = .addr a ∧
       ∀ j, j ≠ vm'.sp → slot vm' j = slot vm j) := by
  obtain ⟨hA, hB⟩ := pushP_spec vm a hs h0
  by_cases h : vm.sp + 1 ≥ vm.stackSize
  · exact Or.inl (hA h)
  · obtain ⟨vm', e, hsp, hw, ho, _, _, _, hsz⟩ := hB (by omega)
    refine Or.inr ⟨vm', e, by omega, by rw [hsp, hsz]; omega, by rw [hsp]; exact hw, ?_⟩
    intro j hj; exact ho j (by rw [← hsp]; exact hj)

/-- in particular a checked push never ends in the model's "wild write" outcome -/
theorem push_never_wild (vm : Vm) (a : Nat) (hs : StackOk vm) (h0 : -1 ≤ vm.sp) :
    pushP vm a ≠ .error (.crash "stack write out of bounds") := by
  rcases push_in_bounds_or_reported vm a hs h0 with ⟨t, h⟩ | ⟨v, h, _⟩ <;> rw [h] <;> simp

/-- **MARK never writes outside the stack** (full strength since the `fix:` commit b857a09 moved the check before the
writes): either the frame fits and all five words land inside, or "stack too large" is reported and nothing
was written -/
theorem mark_in_bounds (vm : Vm) (retAddr : Nat) (hs : StackOk vm) (h0 : -1 ≤ vm.sp) :
    (∃ t, markP vm retAddr = .error (.exit "stack too large" t)) ∨
    (∃ vm', markP vm retAddr = .ok vm' ∧ vm'.sp < vm'.stackSize ∧ vm'.sp = vm.sp + 5) := by
  by_cases h : vm.sp + 5 ≥ vm.stackSize
  · exact Or.inl (markP_overflow vm retAddr h)
  · obtain ⟨vm', e, p⟩ := markP_spec vm retAddr hs h0 (by omega)
    exact Or.inr ⟨vm', e, by rw [p.sp, p.size]; omega, p.sp⟩

theorem mark_never_wild (vm : Vm) (retAddr : Nat) (hs : StackOk vm) (h0 : -1 ≤ vm.sp) :
    markP vm retAddr ≠ .error (.crash "stack write out of bounds") := by
  rcases mark_in_bounds vm retAddr hs h0 with ⟨t, h⟩ | ⟨v, h, _⟩ <;> rw [h] <;> simp

/-- the defect that was repaired: the pinned MARK wrote five words first and checked afterwards, so an exhausted
stack was overrun instead of reported — for every machine state (recorded as `fixed:`; the ASan grid of
checks/c14.py reports it again if it ever returns, together with ALLOC / RECORD_UNPACK / DUP which shared it) -/
theorem mark_pinned_writes_before_check_counterexample (vm : Vm) (retAddr : Nat) (h : vm.sp + 5 ≥ vm.stackSize) :
    markPinnedP vm retAddr = .error (.crash "stack write out of bounds") ∧
    ∀ t, markPinnedP vm retAddr ≠ .error (.exit "stack too large" t) := by
  have := markPinnedP_overflow vm retAddr h
  exact ⟨this, by intro t; rw [this]; simp⟩

/-- the stack limit test reads nothing but `sp` and the configured size: a larger stack never turns
a passing check into a failing one -/
theorem stack_check_monotone (vm vm' : Vm) (hsp : vm'.sp = vm.sp) (hsz : vm.stackSize ≤ vm'.stackSize)
    (h : checkP vm = .ok vm) : checkP vm' = .ok vm' := by
  unfold checkP at *
  split at h
  · cases h
  · rename_i hlt
    have : ¬ vm'.sp ≥ vm'.stackSize := by rw [hsp]; omega
    simp [this]

/-- heap exhaustion is reported exactly when every cell is in use (from C09), and the report
touches no cell -/
theorem heap_limit_reported {g : Gc} (o : Obj) (inv : Inv g) :
    g.alloc o = none ↔ g.cur.length + 1 = g.mem.size := C09.oom_iff_full o inv

example : ((Vm.new 10 8).sp + 5 ≥ ((Vm.new 10 8).stackSize : Int)) = False := by simp [Vm.new]
example : (({ Vm.new 10 8 with sp := 4 } : Vm).sp + 5 ≥ (({ Vm.new 10 8 with sp := 4 } : Vm).stackSize : Int)) := by simp [Vm.new]

end Never.C14
