import NeverModel.Lemmas.Frame
import NeverModel.Props.C09
import NeverModel.Props.C07
import NeverModel.Lemmas.VmWOkSound
/-!
# C14 — exhausting the VM stack or heap is reported, not suffered

`pushP` is the push sequence every value-producing handler of the model goes through
(`sp++; vm_check_stack; stack[sp] = …`, `pushAddr`).  The theorems say: such a push, and the frame
construction of MARK, is either in bounds or ends in the "stack too large" report *before* any
write.  On the pinned tree MARK, ALLOC, RECORD_UNPACK and DUP wrote first and checked afterwards
(`mark_pinned_writes_before_check_counterexample`); a `fix:` commit moved the check before the
writes in all four, the model mirrors the repaired code, and ALLOC now goes through `pushAddr`.
-/
namespace Never.C14
open Never Never.Vm Never.Mem

/-- a checked push never writes outside the configured stack: it is in bounds, or it is reported -/
theorem push_in_bounds_or_reported (vm : Vm) (a : Nat) (hs : StackOk vm) (h0 : -1 ≤ vm.sp) :
    (∃ t, pushP vm a = .error (.exit "stack too large" t)) ∨
    (∃ vm', pushP vm a = .ok vm' ∧ 0 ≤ vm'.sp ∧ vm'.sp < vm'.stackSize ∧ slot vm' vm'.sp = .addr a ∧
       ∀ j, j ≠ vm'.sp → slot vm' j = slot vm j) := by
  obtain ⟨hA, hB⟩ := pushP_spec vm a hs h0
  by_cases h : vm.sp + 1 ≥ vm.stackSize
  · exact Or.inl (hA h)
  · obtain ⟨vm', e, hsp, hw, ho, _, _, _, hsz⟩ := hB (by omega)
    refine Or.inr ⟨vm', e, by omega, by rw [hsp, hsz]; omega, by rw [hsp]; exact hw, ?_⟩
    intro j hj; exact ho j (by rw [← hsp]; exact hj)

/-- in particular a checked push never ends in the model's "wild write" outcome -/
theorem push_never_wild (vm : Vm) (a : Nat) (hs : StackOk vm) (h0 : -1 ≤ vm.sp) :
    pushP vm a ≠ .error (.crash "stack write out of bounds") := by
  rcases push_in_bounds_or_reported vm a hs h0 with ⟨t, h⟩ | ⟨v, h, _⟩ <;> rw [h] <;> simp

/-- **MARK never writes outside the stack** (full strength since the `fix:` commit b857a09 moved the check before the
writes): either the frame fits and all five words land inside, or "stack too large" is reported and nothing
was written -/
theorem mark_in_bounds (vm : Vm) (retAddr : Nat) (hs : StackOk vm) (h0 : -1 ≤ vm.sp) :
    (∃ t, markP vm retAddr = .error (.exit "stack too large" t)) ∨
    (∃ vm', markP vm retAddr = .ok vm' ∧ vm'.sp < vm'.stackSize ∧ vm'.sp = vm.sp + 5) := by
  by_cases h : vm.sp + 5 ≥ vm.stackSize
  · exact Or.inl (markP_overflow vm retAddr h)
  · obtain ⟨vm', e, p⟩ := markP_spec vm retAddr hs h0 (by omega)
    exact Or.inr ⟨vm', e, by rw [p.sp, p.size]; omega, p.sp⟩

theorem mark_never_wild (vm : Vm) (retAddr : Nat) (hs : StackOk vm) (h0 : -1 ≤ vm.sp) :
    markP vm retAddr ≠ .error (.crash "stack write out of bounds") := by
  rcases mark_in_bounds vm retAddr hs h0 with ⟨t, h⟩ | ⟨v, h, _⟩ <;> rw [h] <;> simp

/-- the defect that was repaired: the pinned MARK wrote five words first and checked afterwards, so an exhausted
stack was overrun instead of reported — for every machine state (recorded as `fixed:`; the ASan grid of
checks/c14.py reports it again if it ever returns, together with ALLOC / RECORD_UNPACK / DUP which shared it) -/
theorem mark_pinned_writes_before_check_counterexample (vm : Vm) (retAddr : Nat) (h : vm.sp + 5 ≥ vm.stackSize) :
    markPinnedP vm retAddr = .error (.crash "stack write out of bounds") ∧
    ∀ t, markPinnedP vm retAddr ≠ .error (.exit "stack too large" t) := by
  have := markPinnedP_overflow vm retAddr h
  exact ⟨this, by intro t; rw [this]; simp⟩

/-- the stack limit test reads nothing but `sp` and the configured size: a larger stack never turns
a passing check into a failing one -/
theorem stack_check_monotone (vm vm' : Vm) (hsp : vm'.sp = vm.sp) (hsz : vm.stackSize ≤ vm'.stackSize)
    (h : checkP vm = .ok vm) : checkP vm' = .ok vm' := by
  unfold checkP at *
  split at h
  · cases h
  · rename_i hlt
    have : ¬ vm'.sp ≥ vm'.stackSize := by rw [hsp]; omega
    simp [this]

/-- heap exhaustion is reported exactly when every cell is in use (from C09), and the report
touches no cell -/
theorem heap_limit_reported {g : Gc} (o : Obj) (inv : Inv g) :
    g.alloc o = none ↔ g.cur.length + 1 = g.mem.size := C09.oom_iff_full o inv

example : ((Vm.new 10 8).sp + 5 ≥ ((Vm.new 10 8).stackSize : Int)) = False := by simp [Vm.new]
example : (({ Vm.new 10 8 with sp := 4 } : Vm).sp + 5 ≥ (({ Vm.new 10 8 with sp := 4 } : Vm).stackSize : Int)) := by simp [Vm.new]

/-! ## every handler, every step: no store outside the stack array

`WOk` (Lemmas/VmWOk*.lean) is an effect logic over the VM monad that tracks `sp` and the bounds facts a handler has established: a
completed read of slot `i` gives `0 ≤ i < stackSize`, a passed `vm_check_stack` gives `sp < stackSize`; every `wrSlot` must be
justified by such facts.  It is discharged for all 222 opcodes. -/

/-- **No handler writes outside the stack.**  For every instruction (all 222 opcodes, any module, any oracle) and every machine state
with `−1 ≤ sp < stackSize`, the handler never ends in the crash that models a store outside `[0, stackSize)`: each store goes to a
slot the handler has read before (or to a higher slot than a read one and a lower one than a read or checked one), and every push
runs `vm_check_stack` — which reports "stack too large" — BEFORE its store.  Nothing else is assumed (no well-formed frames, no
verified module, `StackOk` not needed) except one proviso, which is necessary (counterexample below):
`SLIDE q m` with `q, m ≠ 0` needs `−1 ≤ sp − q − m`: its first store goes to `sp − q − m + 1` while its first read is `q` slots
higher (`verified_slide_stores_in_frame` discharges this in verified modules).  (Until the `fix:` commit 034394a there was a second
one: the build-in `read` pushed without `vm_check_stack`, `read_build_in_pushed_unchecked_pinned_counterexample`.) -/
theorem no_handler_writes_outside_the_stack (md : Vm.Module) (ins : Vm.Instr) (orc : Vm.Oracle) (vm : Vm)
    (h0 : -1 ≤ vm.sp) (h1 : vm.sp < vm.stackSize)
    (hslide : ins.op = .SLIDE → ins.w0 ≠ 0 → ins.w1 ≠ 0 → -1 ≤ vm.sp - (ins.w0 : Int) - (ins.w1 : Int)) :
    (exec md ins orc).run vm ≠ .error (.crash "stack write out of bounds") :=
  exec_wok md ins orc vm.stackSize vm.sp h0 h1 hslide vm rfl rfl

/-- **No step writes outside the stack**: the same for `step` (fetch, `ip++`, handler, exception dispatch), the proviso being about
the instruction at `ip` -/
theorem no_step_writes_outside_the_stack (md : Vm.Module) (orc : Vm.Oracle) (vm : Vm) (h0 : -1 ≤ vm.sp) (h1 : vm.sp < vm.stackSize)
    (hslide : ∀ ins, md.code[vm.ip]? = some ins → ins.op = .SLIDE → ins.w0 ≠ 0 → ins.w1 ≠ 0 → -1 ≤ vm.sp - (ins.w0 : Int) - (ins.w1 : Int)) :
    (step md orc).run vm ≠ .error (.crash "stack write out of bounds") :=
  step_wok md orc vm h0 h1 hslide

/-- the SLIDE proviso holds in a verified module: at the recorded height `h` of a SLIDE `q m` the certificate has `q + m ≤ h`, or the
last-call shape `h = q + 1`, `m = nparams + 1`; so the lowest slot stored to is above the argument base `pp` -/
theorem verified_slide_stores_in_frame (md : Vm.Module) (sm : Ver.Summary) (hm : Ver.HMap) (hv : Ver.verifyH md = .ok (sm, hm))
    (vm : Vm) (i : Vm.Instr) (hi : md.code[vm.ip]? = some i) (hop : i.op = .SLIDE) (hh : Ver.AtHeight md hm vm) (hpp : -1 ≤ vm.pp) :
    i.w0 ≠ 0 → i.w1 ≠ 0 → -1 ≤ vm.sp - (i.w0 : Int) - (i.w1 : Int) := by
  intro hq _
  obtain ⟨_, hf⟩ := C07.verifyH_ok md sm hm hv
  obtain ⟨hrun, st, hs, hinv⟩ := hh
  rcases Ver.frameOkAt_SLIDE hi hs hop (Ver.frame_at hf hi) with ⟨hq', _⟩ | ⟨_, hle, _⟩ | ⟨_, _, hh, hm1, _, _⟩
  · exact absurd hq' hq
  · omega
  · unfold Ver.fnParamsAt at hinv; omega

/-- the `read` build-in **on the pinned tree** stored one slot past the array when `sp = stackSize − 1`: LIB_MATH_READ did
`machine->sp++` and the store without `vm_check_stack` (`buildInReadPinned`).  Repaired by the `fix:` commit 034394a; the repaired
handler reports "stack too large" in that state (second statement).  (The defect was latent: the call sequence pushes the function
value, with a check, into that very slot just before the CALL pops it.) -/
theorem read_build_in_pushed_unchecked_pinned_counterexample :
    (match (buildInReadPinned {}).run ({ Vm.new 4 2 with sp := 1, stack := #[.unknown, .addr 0] } : Vm) with
      | .error (.crash w) => w == "stack write out of bounds" | _ => false) = true ∧
    (match (exec default ⟨.BUILD_IN, 12, 0, 0⟩ {}).run ({ Vm.new 4 2 with sp := 1, stack := #[.unknown, .addr 0] } : Vm) with
      | .error (.exit w _) => w == "stack too large" | _ => false) = true := by decide +kernel

/-- the SLIDE proviso is necessary: `SLIDE 1 1` at `sp = 0` reads slot 0 and stores to slot −1 -/
theorem slide_below_the_array_counterexample :
    (match (exec default ⟨.SLIDE, 1, 1, 0⟩ {}).run ({ Vm.new 4 2 with sp := 0 } : Vm) with
      | .error (.crash w) => w == "stack write out of bounds" | _ => false) = true := by decide +kernel

/-- the hypotheses are satisfiable: the start machine has `sp = −1`, and a step of a real run from it meets them -/
example : (-1 : Int) ≤ (Vm.new 8 8).sp ∧ (Vm.new 8 8).sp < ((Vm.new 8 8).stackSize : Int) := by simp [Vm.new]
example : (step C09.vmExModule {}).run (beginExecute C09.vmExModule (Vm.new 8 8)) ≠ .error (.crash "stack write out of bounds") :=
  no_step_writes_outside_the_stack _ _ _ (by simp [beginExecute, Vm.new]) (by simp [beginExecute, Vm.new])
    (fun ins h hop => by
      have : ins = ⟨.INT, 7, 0, 0⟩ := by
        have e : C09.vmExModule.code[(beginExecute C09.vmExModule (Vm.new 8 8)).ip]? = some ⟨.INT, 7, 0, 0⟩ := by decide +kernel
        rw [e] at h; cases h; rfl
      subst this; cases hop)

/-! ## the heap side

In M-Heap a store outside the cell array is NOT a crash: `Mem.setObj` with `a ≥ size` leaves the memory as it is (a model
inaccuracy with respect to the C code, where it is undefined behaviour), so "no heap store is out of bounds" cannot be read off the
outcome of a handler the way the stack side can.  What is proved instead: the allocator hands out only cells inside the heap that are
free (`alloc_in_heap_or_reported`); every raw store of a handler goes to a cell that a completed read or an allocation of the same
handler has shown to hold an object — this is the proviso of the leaf rule `kf_setObj` of the logic `KF`, discharged for all 222
opcodes in `exec_keeps_freeInv` (C09 `vm_step_keeps_bookkeeping`), and such cells are inside the heap (`heap_reads_in_heap`,
`guarded_stores_in_heap`); exhaustion is reported exactly when no cell is free (`vm_heap_limit_reported`) and a report raised inside a
handler is the handler's outcome (`limit_report_propagates`). -/

theorem alloc_run_eq (o : Obj) (vm : Vm) :
    (alloc o).run vm = (match vm.gc.alloc o with
      | none => .error (.exit "out of memory" [])
      | some (g, loc) => .ok (loc, { vm with gc := g })) := by
  unfold alloc
  show (match vm.gc.alloc o with
      | none => (exitVm "out of memory" : M Nat)
      | some (g, loc) => do set { vm with gc := g }; pure loc).run vm = _
  cases vm.gc.alloc o with
  | none => rfl
  | some p => rfl

/-- **An allocation lands inside the heap, in a free cell, or is reported.**  In a machine whose heap bookkeeping is intact
(`FreeInv`, an invariant of EVERY execution: C09 `vm_heap_bookkeeping_invariant`) the VM's `alloc` either finds the free chain empty
and stops with the "out of memory" report, the heap untouched, or returns the head of the free chain: an address `0 < a < size` whose
cell held no object before and holds the new one afterwards; nothing but the heap changes, and the bookkeeping stays intact. -/
theorem alloc_in_heap_or_reported (vm : Vm) (o : Obj) (hi : FreeInv vm.gc) :
    (vm.gc.free = 0 ∧ (alloc o).run vm = .error (.exit "out of memory" [])) ∨
    (∃ g, (alloc o).run vm = .ok (vm.gc.free, { vm with gc := g }) ∧ 0 < vm.gc.free ∧ vm.gc.free < vm.gc.mem.size ∧
       objAt vm.gc.mem vm.gc.free = none ∧ objAt g.mem vm.gc.free = some o ∧ FreeInv g) := by
  rw [alloc_run_eq]
  cases h : vm.gc.alloc o with
  | none =>
    left
    refine ⟨?_, rfl⟩
    unfold Gc.alloc at h
    simp only at h
    split at h
    · assumption
    · cases h
  | some p =>
    obtain ⟨g, loc⟩ := p
    right
    obtain ⟨f1, f2, f3, f4⟩ := freeInv_alloc hi h
    have hl : loc = vm.gc.free := by
      unfold Gc.alloc at h
      simp only at h
      split at h
      · cases h
      · simp only [Option.some.injEq, Prod.mk.injEq] at h; exact h.2.symm
    subst hl
    rcases hi.alloc_fresh with h0 | ⟨hlt, _⟩
    · exact absurd h0 f2
    · exact ⟨g, rfl, by omega, hlt, f3, f4, f1⟩

/-- **Heap exhaustion is reported exactly when every cell is in use** (the VM-level form of `heap_limit_reported`, under the
invariant of all executions instead of C09's typed `Inv`) -/
theorem vm_heap_limit_reported (vm : Vm) (o : Obj) (hi : FreeInv vm.gc) (hsz : 1 ≤ vm.gc.mem.size) :
    (alloc o).run vm = .error (.exit "out of memory" []) ↔ vm.gc.cur.length + 1 = vm.gc.mem.size := by
  obtain ⟨fl, il⟩ := hi
  have hc := il.count hsz
  rw [alloc_run_eq]
  unfold Gc.alloc
  simp only
  constructor
  · intro h
    split at h
    · rename_i heq
      split at heq
      · rename_i hf
        cases fl with
        | nil => simpa using hc
        | cons x xs => have := il.chain; simp [Chain] at this; omega
      · cases heq
    · cases h
  · intro h
    have : fl = [] := by cases fl with | nil => rfl | cons x xs => simp at hc; omega
    subst this
    have := il.chain; simp [Chain] at this
    simp [this]

/-- a limit report (or any other stop) raised by a part of a handler is the outcome of the handler: with `alloc_in_heap_or_reported`,
EVERY allocating handler — they are all built from `alloc` by `>>=` — stops with "out of memory" at the first allocation that finds
the heap full -/
theorem limit_report_propagates {α β} (f : M α) (g : α → M β) (vm : Vm) (e : Vm.Stop) :
    (f >>= g).run vm = .error e ↔ f.run vm = .error e ∨ ∃ a vm', f.run vm = .ok (a, vm') ∧ (g a).run vm' = .error e :=
  run_bind_err f g vm e

/-- every completed heap read — `gc_get_*` with its assertions — hit a cell inside the heap that holds an object -/
theorem heap_reads_in_heap (a : Nat) (vm vm' : Vm) (o : Obj) (h : (objOf a).run vm = .ok (o, vm')) :
    vm' = vm ∧ a < vm.gc.mem.size ∧ objAt vm.gc.mem a = some o := by
  obtain ⟨e, ha⟩ := guard_objOf a vm o vm' h
  obtain ⟨b, hb, _⟩ := objOf_val h
  exact ⟨e, objAt_some_lt hb, hb⟩

/-- the stores into vectors and arrays read their target first, so a completed one went to a cell inside the heap holding an object -/
theorem guarded_stores_in_heap (a i v : Nat) (vm vm' : Vm) :
    ((setVec a i v).run vm = .ok ((), vm') → a < vm.gc.mem.size ∧ (objAt vm.gc.mem a).isSome = true) ∧
    ((setArrElem a i v).run vm = .ok ((), vm') → a < vm.gc.mem.size ∧ (objAt vm.gc.mem a).isSome = true) := by
  constructor
  · intro h
    unfold setVec at h
    obtain ⟨fs, v1, h1, _⟩ := (run_bind_ok _ _ _ _ _).mp h
    obtain ⟨_, ha⟩ := guard_getVecObj a vm fs v1 h1
    have ha' : (objAt vm.gc.mem a).isSome = true := ha
    cases hb : objAt vm.gc.mem a with
    | none => rw [hb] at ha'; cases ha'
    | some b => exact ⟨objAt_some_lt hb, rfl⟩
  · intro h
    unfold setArrElem at h
    obtain ⟨p, v1, h1, _⟩ := (run_bind_ok _ _ _ _ _).mp h
    obtain ⟨_, ha⟩ := guard_getArrObj a vm p v1 h1
    have ha' : (objAt vm.gc.mem a).isSome = true := ha
    cases hb : objAt vm.gc.mem a with
    | none => rw [hb] at ha'; cases ha'
    | some b => exact ⟨objAt_some_lt hb, rfl⟩

/-- the heap hypotheses are met by the start machine of every execution with at least one cell, and by every state it reaches -/
example : FreeInv (Vm.new 8 8).gc := by
  have : (Vm.new 8 8).gc = Gc.new 8 := by unfold Vm.new; simp
  rw [this]; exact freeInv_new 8 (by omega)

end Never.C14
