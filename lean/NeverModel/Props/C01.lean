import NeverModel.Model.Vm
namespace Never.C01
end Never.C01
