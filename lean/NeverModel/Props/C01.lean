import NeverModel.Props.C09
import NeverModel.Lemmas.NumCrash
import NeverModel.Props.C12
import NeverModel.Props.C14
import NeverModel.Props.C03
/-!
# C01 — accepted programs run safely

Safety of the VM is split at the interface where it can be split without modelling the 10 kLoC
typechecker: the *tag discipline* of operands.  The theorems below say that — operands of the
right object type given — the VM's guards are complete: for ALL operand values a handler ends in a
value, a language exception or a reported limit, never in a trap / wild access, except at the
points exhibited by the `_counterexample` theorems (genuine defects of the pinned tree, replayed on
the real VM by checks/c01.py as known findings).
That static typing implies the tag discipline at every instruction of every accepted program is
NOT proved; it is validated dynamically: every replayed step of every program runs the model's
tag-checked accessors (a wrong tag is a divergence / crash), see checks/c01.py.
-/
namespace Never.C01
open Never Never.Num Never.Idx

/-! ## arithmetic, comparison, bitwise and conversion handlers -/

/-- well-tagged operands never make a typed handler fail on a tag -/
theorem arith_never_tag (ty : NTy) (op : BinOp) (a b : NVal) (ha : a.ty = ty) (hb : b.ty = ty)
    (hop : ty = .char → (op = .lt ∨ op = .gt ∨ op = .lte ∨ op = .gte ∨ op = .eq ∨ op = .neq))
    (hf : (ty = .float ∨ ty = .double) → (op ≠ .mod ∧ op ≠ .band ∧ op ≠ .bor ∧ op ≠ .bxor ∧ op ≠ .shl ∧ op ≠ .shr)) :
    bin ty op a b ≠ .tag := by
  cases ty <;> cases a <;> simp [NVal.ty] at ha <;> cases b <;> simp [NVal.ty] at hb
  · cases op <;> simp [bin, binInt] <;> (repeat' split) <;> simp
  · cases op <;> simp [bin, binLong] <;> (repeat' split) <;> simp
  · have := hf (Or.inl rfl)
    cases op <;> simp_all [bin, binFloat] <;> (repeat' split) <;> simp
  · have := hf (Or.inr rfl)
    cases op <;> simp_all [bin, binDouble] <;> (repeat' split) <;> simp
  · rcases hop rfl with h | h | h | h | h | h <;> subst h <;> simp [bin, binChar]

/-- **zero-divisor and overflow guards**: a typed binary handler traps only at `(MIN, -1)` division /
remainder and at shift counts outside `[0, width)`; everywhere else — all 2^64 / 2^128 operand
pairs — it yields a value or `division_by_zero` -/
theorem arith_guards_complete_partial (ty : NTy) (op : BinOp) (a b : NVal) (w : String)
    (h : bin ty op a b = .crash w) : TrapCase ty op a b :=
  bin_trap ty op a b w h

/-- unary handlers and the twelve conversions never trap -/
theorem unary_and_conversions_total (a : NVal) (w : String) :
    (∀ ty op, un ty op a ≠ .crash w) ∧ (∀ s d, conv s d a ≠ .crash w) := un_conv_never_trap a w

/-- the excluded point is real: `INT_MIN / -1` traps (SIGFPE) instead of raising or wrapping -/
theorem arith_guards_counterexample :
    bin .int .div (.int intMin32) (.int (-1)) = .crash "SIGFPE: INT_MIN / -1" ∧
    bin .int .mod (.int intMin32) (.int (-1)) = .crash "SIGFPE: INT_MIN % -1" := by
  constructor <;> decide

/-- division by zero is always caught, for every dividend, in all four numeric types -/
theorem zero_divisor_raises (op : BinOp) (hop : op = .div ∨ op = .mod) (a : BitVec 32) (b : BitVec 64) :
    binInt op a 0 = .exc 1 ∧ binLong op b 0 = .exc 1 := by
  rcases hop with h | h <;> subst h <;> simp [binInt, binLong]

/-! ## array indexing -/

theorem dimAddrAux_ok_inrange : ∀ (dv : List (Nat × Nat)) (idx : List Nat) (m acc a : Nat),
    dimAddrAux dv idx m acc = .ok a →
    ∀ k (h1 : k < dv.length) (h2 : k < idx.length), idx[k] < dv[k].1 := by
  intro dv
  induction dv with
  | nil => intro idx m acc a _ k h1; simp at h1
  | cons d dv ih =>
    intro idx m acc a h k h1 h2
    cases idx with
    | nil => simp at h2
    | cons i idx =>
      obtain ⟨el, mu⟩ := d
      simp only [dimAddrAux] at h
      split at h
      · cases h
      · rename_i hlt
        cases k with
        | zero => simp; omega
        | succ k =>
          simp only [List.getElem_cons_succ]
          exact ih idx (m + 1) _ a h k (by simpa using h1) (by simpa using h2)

theorem multPass_fst : ∀ (exts : List Nat) (e : Nat), (multPass exts e).map (·.1) = exts := by
  intro exts
  induction exts with
  | nil => intro e; rfl
  | cons x xs ih =>
    intro e
    simp only [multPass]
    split <;> simp [ih]

theorem firstNeg_none_all : ∀ (idx : List Int) (m : Nat), firstNeg idx m = none →
    ∀ k (hk : k < idx.length), 0 ≤ idx[k] := by
  intro idx
  induction idx with
  | nil => intro m _ k hk; simp at hk
  | cons e es ih =>
    intro m h k hk
    simp only [firstNeg] at h
    split at h
    · cases h
    · rename_i hge
      cases k with
      | zero => simp; omega
      | succ k => simp only [List.getElem_cons_succ]; exact ih (m + 1) h k (by simpa using hk)

/-- **bounds guard complete**: whenever the deref of an array whose element count did not wrap is
accepted, the element index it yields lies inside the element array and is the row-major one, and
no index was negative; so an out-of-range or negative index in any dimension never reaches memory -/
theorem array_index_guard_complete_partial (exts : List Nat) (idx : List Int) (a : Nat)
    (hp : prod exts < U32) (hl : idx.length = exts.length)
    (h : derefIndices (dimMult exts).1 idx = .ok a) :
    a < (dimMult exts).2 ∧ a = rowMajor exts (idx.map Int.toNat) ∧ ∀ k (hk : k < idx.length), 0 ≤ idx[k] := by
  unfold derefIndices at h
  split at h
  · cases h
  · rename_i hfn
    have hnn := firstNeg_none_all idx 0 hfn
    have hdv : (dimMult exts).1 = multPass exts (prod exts) := by rw [dimMult_of_lt exts hp]
    have hfst : ((dimMult exts).1).map (·.1) = exts := by rw [hdv]; exact multPass_fst exts _
    have hlen : (dimMult exts).1.length = exts.length := by
      have := congrArg List.length hfst; simpa using this
    have hin := dimAddrAux_ok_inrange (dimMult exts).1 (idx.map Int.toNat) 0 0 a h
    have hin' : ∀ k (h1 : k < (idx.map Int.toNat).length) (h2 : k < exts.length), (idx.map Int.toNat)[k] < exts[k] := by
      intro k h1 h2
      have hk := hin k (by rw [hlen]; exact h2) h1
      have he : (((dimMult exts).1)[k]'(by rw [hlen]; exact h2)).1 = exts[k] := by
        have h3 : (((dimMult exts).1).map (·.1))[k]'(by simp [hlen]; exact h2) = exts[k] := by simp [hfst]
        simpa using h3
      rw [he] at hk; exact hk
    obtain ⟨e1, e2, e3⟩ := rowmajor_exact exts (idx.map Int.toNat) hp (by simpa using hl) hin'
    have : dimAddr (dimMult exts).1 (idx.map Int.toNat) = .ok a := h
    rw [e1] at this
    cases this
    exact ⟨e2, rfl, hnn⟩

/-- the excluded point is real: with a wrapped element count the guard accepts an index into an empty array -/
theorem array_index_guard_counterexample :
    derefIndices (dimMult [65536, 65536]).1 [1, 1] = .ok 0 ∧ (dimMult [65536, 65536]).2 = 0 := by
  constructor <;> decide

/-! ## strings, stack, heap, handler lookup: the guards proved elsewhere, collected -/

/-- the string guard is exact (since fix f8907f0; the pinned guard accepted every negative index) -/
theorem string_index_guard :
    (∀ len i, stringDerefOk len i = true ↔ (0 ≤ i ∧ i < (len : Int))) ∧
    (∀ len : Nat, ∀ i : Int, i < 0 → stringDerefOkPinned len i = true) :=
  ⟨string_index, string_deref_pinned_counterexample.2.2⟩

/-- a checked push is in bounds or reported (C14) -/
theorem stack_push_guard (vm : Vm.Vm) (a : Nat) (hs : Vm.StackOk vm) (h0 : -1 ≤ vm.sp) :
    Vm.pushP vm a ≠ .error (.crash "stack write out of bounds") := C14.push_never_wild vm a hs h0

/-- a collection on a consistent heap is defined: no NULL / foreign object is read, the marking
recursion ends (C09) -/
theorem collector_guard {g : Gc} {st : List Slot} {gp : Nat} (inv : Inv g)
    (wt : g.wellTyped (.collect st gp) = true) : (g.collect st gp).isSome = true := C09.collect_defined inv wt

/-- every fault address below the sentinel has a handler in a well-formed table: the
`assert(res != NULL)` of `exception_tab_search` cannot fire (C03) -/
theorem handler_lookup_guard (tab : Array ExcEntry) (count ip : Nat) (hwf : ExcWF tab count = true)
    (hip : ip < 4294967295) : (excHandler tab count ip).isSome = true := by
  obtain ⟨i, e1, e2, _, _, _, _, _, h⟩ := C03.exctab_search_correct tab count ip hwf hip
  simp [h]

example : derefIndices (dimMult [2, 3]).1 [1, 2] = .ok 5 ∧ prod [2, 3] < U32 := by decide

end Never.C01
