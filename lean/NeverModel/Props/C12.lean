import NeverModel.Lemmas.Index
/-!
# Never.Idx — machine-checked properties of the VM index arithmetic (claim C12)

Core library only.  No sorry / admit / axiom / native_decide / bv_decide / unsafe.
`_partial` theorems carry the explicit hypothesis under which the C code is right,
`_counterexample` theorems exhibit a concrete input where the unrestricted statement fails.
-/
namespace Never.Idx

/-! ## 1. rowmajor_exact -/

theorem rowmajor_exact (exts idx : List Nat) (hp : prod exts < U32)
    (hl : idx.length = exts.length)
    (hin : ∀ k (h1 : k < idx.length) (h2 : k < exts.length), idx[k] < exts[k]) :
    dimAddr (dimMult exts).1 idx = .ok (rowMajor exts idx) ∧
    rowMajor exts idx < (dimMult exts).2 ∧ (dimMult exts).2 = prod exts := by
  have hr : InRangeR exts idx := (inRangeR_iff exts idx).2 ⟨hl, hin⟩
  have hlt := rowMajor_lt exts idx hr
  rw [dimMult_of_lt exts hp]
  refine ⟨?_, hlt, rfl⟩
  have := dimAddrAux_multPass_ok exts idx 0 0 hr (by omega)
  simpa [dimAddr] using this

example : dimAddr (dimMult [2, 3, 4]).1 [1, 2, 3] = .ok 23 ∧ rowMajor [2, 3, 4] [1, 2, 3] = 23 := by decide

/-! ## 2. rowmajor_oob (no hypothesis on the product is needed) -/

theorem rowmajor_oob (exts idx : List Nat) (k0 : Nat)
    (h1 : k0 < exts.length) (h2 : k0 < idx.length)
    (hoob : exts[k0] ≤ idx[k0])
    (hfirst : ∀ k (hk : k < k0), idx[k] < exts[k]) :
    dimAddr (dimMult exts).1 idx = .error k0 := by
  have := dimAddrAux_multPass_error exts (prodWrap exts 1) idx 0 0 k0 h1 h2 hoob hfirst
  simpa [dimAddr, dimMult] using this

example : dimAddr (dimMult [2, 3, 4]).1 [1, 3, 4] = .error 1 := by decide
example : dimAddr (dimMult [2, 0, 4]).1 [1, 0, 0] = .error 1 := by decide

/-! ## 3. rowmajor_injective -/

theorem rowmajor_injective (exts i1 i2 : List Nat) (hp : prod exts < U32)
    (hl1 : i1.length = exts.length)
    (hin1 : ∀ k (h1 : k < i1.length) (h2 : k < exts.length), i1[k] < exts[k])
    (hl2 : i2.length = exts.length)
    (hin2 : ∀ k (h1 : k < i2.length) (h2 : k < exts.length), i2[k] < exts[k])
    (heq : dimAddr (dimMult exts).1 i1 = dimAddr (dimMult exts).1 i2) : i1 = i2 := by
  rw [(rowmajor_exact exts i1 hp hl1 hin1).1, (rowmajor_exact exts i2 hp hl2 hin2).1] at heq
  exact rowMajor_inj exts i1 i2 ((inRangeR_iff exts i1).2 ⟨hl1, hin1⟩)
    ((inRangeR_iff exts i2).2 ⟨hl2, hin2⟩) (by injection heq)

example : dimAddr (dimMult [2, 3]).1 [1, 0] ≠ dimAddr (dimMult [2, 3]).1 [0, 2] := by decide

/-! ## 4. rowmajor_overflow_counterexample -/

theorem rowmajor_overflow_counterexample :
    (dimMult [65536, 65536]).2 = 0 ∧ (∀ x ∈ [65536, 65536], x ≠ 0) ∧
    ¬ prod [65536, 65536] < U32 ∧
    dimAddr (dimMult [65536, 65536]).1 [1, 1] = .ok 0 ∧
    dimAddr (dimMult [65536, 65536]).1 [0, 0] = dimAddr (dimMult [65536, 65536]).1 [1, 1] ∧
    ¬ (0 < (dimMult [65536, 65536]).2) := by decide

/-! ## 5. deref_negative_rejected -/

theorem deref_negative_rejected (dv : List (Nat × Nat)) (idx : List Int) :
    (∀ d (h : d < idx.length), idx[d] < 0 → (∀ k (hk : k < d), 0 ≤ idx[k]) →
        derefIndices dv idx = .error d) ∧
    ((∀ k (hk : k < idx.length), 0 ≤ idx[k]) →
        derefIndices dv idx = dimAddr dv (idx.map Int.toNat)) := by
  constructor
  · intro d h hneg hfirst
    have := firstNeg_some idx 0 d h hneg hfirst
    simp [derefIndices, this]
  · intro h
    simp [derefIndices, firstNeg_none idx 0 h]

example : derefIndices (dimMult [2, 3]).1 [5, -1] = .error 1 := by decide
example : derefIndices (dimMult [2, 3]).1 [1, 2] = .ok 5 := by decide


theorem sliceRange_eq_pinned (a b c d : Int) (hc : 0 ≤ c) (hd : 0 ≤ d) :
    sliceRange a b c d = sliceRangePinned a b c d := by
  have : ¬ (c < 0 ∨ d < 0) := by omega
  simp [sliceRange, this]

theorem sliceRange_neg (a b c d : Int) (h : c < 0 ∨ d < 0) : sliceRange a b c d = none := by
  simp [sliceRange, h]

theorem range_denotation_partial (a b c d : Int) (hc : 0 ≤ c) (hd : 0 ≤ d) :
    (∀ r1 r2 : Int, sliceRange a b c d = some (r1, r2) ↔
        (c < (rangeLen a b : Int) ∧ d < (rangeLen a b : Int) ∧
         r1 = rangePos a b c ∧ r2 = rangePos a b d)) ∧
    (∀ r1 r2 : Int, sliceRange a b c d = some (r1, r2) →
        rangeLen r1 r2 = rangeLen c d ∧
        ∀ k : Int, 0 ≤ k → k ≤ ((c - d).natAbs : Int) →
          0 ≤ rangePos c d k ∧ rangePos c d k < (rangeLen a b : Int) ∧
          rangePos r1 r2 k = rangePos a b (rangePos c d k)) := by
  rw [sliceRange_eq_pinned a b c d hc hd]
  constructor
  · intro r1 r2
    simp only [sliceRangePinned, rangeLen, rangePos]
    split <;> split <;> split <;> simp <;> omega
  · intro r1 r2
    simp only [sliceRangePinned, rangeLen, rangePos]
    split <;> split <;> split <;> simp <;> intro h1 h2 <;> subst h1 h2 <;>
      (refine ⟨by omega, ?_⟩; intro k hk0 hk; split <;> omega)

example : sliceRange 2 9 1 4 = some (3, 6) ∧ sliceRange 9 2 4 1 = some (5, 8) ∧
    sliceRange 4 4 0 0 = some (4, 4) ∧ sliceRange 2 9 3 3 = some (5, 5) ∧
    sliceRange 2 9 8 0 = none ∧ sliceRange 4 4 0 1 = none := by decide

/-! ## 6b. range_denotation, full strength (since the `fix:` commit 3ebfaa3 added the lower-bound test) -/

/-- a range `[a..b]` composed with `[c..d]` is accepted iff both `c` and `d` are positions of the outer range, and
then denotes exactly the sub-sequence of positions `c…d` — for all integers, all four direction combinations -/
theorem range_denotation (a b c d : Int) :
    (∀ r1 r2 : Int, sliceRange a b c d = some (r1, r2) ↔
        (0 ≤ c ∧ 0 ≤ d ∧ c < (rangeLen a b : Int) ∧ d < (rangeLen a b : Int) ∧
         r1 = rangePos a b c ∧ r2 = rangePos a b d)) ∧
    (∀ r1 r2 : Int, sliceRange a b c d = some (r1, r2) →
        rangeLen r1 r2 = rangeLen c d ∧
        ∀ k : Int, 0 ≤ k → k ≤ ((c - d).natAbs : Int) →
          0 ≤ rangePos c d k ∧ rangePos c d k < (rangeLen a b : Int) ∧
          rangePos r1 r2 k = rangePos a b (rangePos c d k)) := by
  by_cases hneg : c < 0 ∨ d < 0
  · rw [sliceRange_neg a b c d hneg]
    constructor
    · intro r1 r2; constructor
      · intro h; cases h
      · intro h; omega
    · intro r1 r2 h; cases h
  · have hc : 0 ≤ c := by omega
    have hd : 0 ≤ d := by omega
    obtain ⟨p1, p2⟩ := range_denotation_partial a b c d hc hd
    refine ⟨fun r1 r2 => ?_, p2⟩
    rw [p1 r1 r2]
    constructor
    · intro h; exact ⟨hc, hd, h⟩
    · intro h; exact h.2.2

example : sliceRange 2 5 (-1) 1 = none ∧ sliceRange 2 5 1 (-1) = none ∧ sliceRange 5 2 (-1) 1 = none ∧
    sliceRange 2 5 1 3 = some (3, 5) := by decide

/-! ## 7. the defect that was repaired (`fix:` commit 3ebfaa3): the pinned function accepted negative inner bounds -/

theorem range_denotation_pinned_counterexample :
    -- accepted although position c = -1 does not exist in [2..5]; the result starts at 1 < 2
    sliceRangePinned 2 5 (-1) 1 = some (1, 3) ∧ ¬ (0 ≤ (-1 : Int)) ∧ ¬ (2 ≤ (1 : Int)) ∧
    -- same with the unchecked end on the other side (c ≥ d sub-branch checks only res_from)
    sliceRangePinned 2 5 1 (-1) = some (3, 1) ∧
    -- descending outer range [5..2]: result starts at 6 > 5
    sliceRangePinned 5 2 (-1) 1 = some (6, 4) ∧
    -- the unrestricted iff of `range_denotation_partial` fails here
    ¬ (sliceRangePinned 2 5 (-1) 1 = some (1, 3) ↔
        ((0 ≤ (-1 : Int) ∧ (-1 : Int) < (rangeLen 2 5 : Int)) ∧ (1 : Int) < (rangeLen 2 5 : Int))) := by
  decide

/-! ## 8. slice_of_slice -/

theorem slice_of_slice (a b c d e f : Int) (hc : 0 ≤ c) (hd : 0 ≤ d) (he : 0 ≤ e) (hf : 0 ≤ f) :
    (∀ s1 s2 : Int,
        (∃ r1 r2 : Int, sliceRange a b c d = some (r1, r2) ∧ sliceRange r1 r2 e f = some (s1, s2)) ↔
        (c < (rangeLen a b : Int) ∧ d < (rangeLen a b : Int) ∧
         e < (rangeLen c d : Int) ∧ f < (rangeLen c d : Int) ∧
         s1 = rangePos a b (rangePos c d e) ∧ s2 = rangePos a b (rangePos c d f))) ∧
    (∀ r1 r2 s1 s2 : Int, sliceRange a b c d = some (r1, r2) → sliceRange r1 r2 e f = some (s1, s2) →
        rangeLen s1 s2 = rangeLen e f ∧
        ∀ k : Int, 0 ≤ k → k ≤ ((e - f).natAbs : Int) →
          rangePos s1 s2 k = rangePos a b (rangePos c d (rangePos e f k))) := by
  constructor
  · intro s1 s2
    constructor
    · rintro ⟨r1, r2, h1, h2⟩
      have A1 := ((range_denotation_partial a b c d hc hd).1 r1 r2).1 h1
      have A2 := (range_denotation_partial a b c d hc hd).2 r1 r2 h1
      have B1 := ((range_denotation_partial r1 r2 e f he hf).1 s1 s2).1 h2
      have hlen : (rangeLen r1 r2 : Int) = (rangeLen c d : Int) := by rw [A2.1]
      have He := A2.2 e he (by have := B1.1; simp only [rangeLen] at this hlen; omega)
      have Hf := A2.2 f hf (by have := B1.2.1; simp only [rangeLen] at this hlen; omega)
      refine ⟨A1.1, A1.2.1, by omega, by omega, ?_, ?_⟩
      · rw [B1.2.2.1, He.2.2]
      · rw [B1.2.2.2, Hf.2.2]
    · rintro ⟨h1, h2, h3, h4, h5, h6⟩
      refine ⟨rangePos a b c, rangePos a b d, ?_, ?_⟩
      · exact ((range_denotation_partial a b c d hc hd).1 _ _).2 ⟨h1, h2, rfl, rfl⟩
      · have h0 := ((range_denotation_partial a b c d hc hd).1 _ _).2 ⟨h1, h2, rfl, rfl⟩
        have A2 := (range_denotation_partial a b c d hc hd).2 _ _ h0
        have hlen : (rangeLen (rangePos a b c) (rangePos a b d) : Int) = (rangeLen c d : Int) := by rw [A2.1]
        have He := A2.2 e he (by simp only [rangeLen] at h3; omega)
        have Hf := A2.2 f hf (by simp only [rangeLen] at h4; omega)
        refine ((range_denotation_partial _ _ e f he hf).1 _ _).2 ⟨by omega, by omega, ?_, ?_⟩
        · rw [h5, He.2.2]
        · rw [h6, Hf.2.2]
  · intro r1 r2 s1 s2 h1 h2
    have A2 := (range_denotation_partial a b c d hc hd).2 r1 r2 h1
    have B2 := (range_denotation_partial r1 r2 e f he hf).2 s1 s2 h2
    have hlen : (rangeLen r1 r2 : Int) = (rangeLen c d : Int) := by rw [A2.1]
    refine ⟨B2.1, ?_⟩
    intro k hk0 hk
    have C := B2.2 k hk0 hk
    have D := A2.2 (rangePos e f k) C.1 (by have := C.2.1; simp only [rangeLen] at this hlen; omega)
    rw [C.2.2, D.2.2]

example : sliceRange 10 2 1 7 = some (9, 3) ∧ sliceRange 9 3 5 2 = some (4, 7) ∧
    rangePos 10 2 (rangePos 1 7 (rangePos 5 2 1)) = 5 ∧ rangePos 4 7 1 = 5 := by decide


/-! ## 9. slice_deref_exact_partial -/

theorem sliceRange_single (fr t i : Int) (hi : 0 ≤ i) :
    (i < (rangeLen fr t : Int) → sliceRange fr t i i = some (rangePos fr t i, rangePos fr t i)) ∧
    ((rangeLen fr t : Int) ≤ i → sliceRange fr t i i = none) := by
  constructor
  · intro h
    exact ((range_denotation_partial fr t i i hi hi).1 _ _).2 ⟨h, h, rfl, rfl⟩
  · intro h
    cases hs : sliceRange fr t i i with
    | none => rfl
    | some p =>
      obtain ⟨r1, r2⟩ := p
      have := ((range_denotation_partial fr t i i hi hi).1 r1 r2).1 hs
      omega

theorem sliceAddrs_ok (ranges : List (Int × Int)) : ∀ (idx : List Int) (m : Nat),
    idx.length = ranges.length →
    (∀ k (h1 : k < ranges.length) (h2 : k < idx.length),
      0 ≤ idx[k] ∧ idx[k] < (rangeLen ranges[k].1 ranges[k].2 : Int)) →
    sliceAddrs ranges idx m = .ok ((composed ranges idx).map toU32) := by
  induction ranges with
  | nil => intro idx m hl _; cases idx <;> simp_all [sliceAddrs, composed]
  | cons r rs ih =>
    intro idx m hl h
    obtain ⟨fr, t⟩ := r
    cases idx with
    | nil => simp at hl
    | cons i is =>
      have h0 := h 0 (by simp) (by simp)
      simp only [List.getElem_cons_zero] at h0
      have hs := (sliceRange_single fr t i h0.1).1 h0.2
      have hrec := ih is (m+1) (by simpa using hl) (fun k h1 h2 => by
        have := h (k+1) (by simpa using h1) (by simpa using h2)
        simpa using this)
      simp only [sliceAddrs, hs, hrec, composed, List.zipWith_cons_cons, List.map_cons]

theorem sliceAddrs_error (ranges : List (Int × Int)) : ∀ (idx : List Int) (m k0 : Nat)
    (h1 : k0 < ranges.length) (h2 : k0 < idx.length),
    0 ≤ idx[k0] → (rangeLen ranges[k0].1 ranges[k0].2 : Int) ≤ idx[k0] →
    (∀ k (hk : k < k0), 0 ≤ idx[k] ∧ idx[k] < (rangeLen ranges[k].1 ranges[k].2 : Int)) →
    sliceAddrs ranges idx m = .error (m + k0) := by
  induction ranges with
  | nil => intro idx m k0 h1; simp at h1
  | cons r rs ih =>
    intro idx m k0 h1 h2 hnn hge hfirst
    obtain ⟨fr, t⟩ := r
    cases idx with
    | nil => simp at h2
    | cons i is =>
      cases k0 with
      | zero =>
        simp only [List.getElem_cons_zero] at hnn hge
        simp [sliceAddrs, (sliceRange_single fr t i hnn).2 hge]
      | succ k =>
        have h0 := hfirst 0 (by omega)
        simp only [List.getElem_cons_zero] at h0
        have hs := (sliceRange_single fr t i h0.1).1 h0.2
        have hrec := ih is (m+1) k (by simpa using h1) (by simpa using h2)
          (by simpa using hnn) (by simpa using hge)
          (fun j hj => by have := hfirst (j+1) (by omega); simpa using this)
        simp only [sliceAddrs, hs, hrec]
        congr 1; omega

theorem slice_deref_exact_partial (exts : List Nat) (ranges : List (Int × Int)) (idx : List Int)
    (hlr : ranges.length = exts.length) (hli : idx.length = exts.length)
    (hi : ∀ k (h : k < idx.length), 0 ≤ idx[k]) :
    -- (a) every index inside its range, ranges inside the array, no wrap of the element count:
    --     the element reached is the row-major element of the composed index (aliasing)
    (prod exts < U32 →
     (∀ k (h1 : k < ranges.length) (h2 : k < exts.length),
        0 ≤ ranges[k].1 ∧ ranges[k].1 < (exts[k] : Int) ∧
        0 ≤ ranges[k].2 ∧ ranges[k].2 < (exts[k] : Int)) →
     (∀ k (h1 : k < ranges.length) (h2 : k < idx.length),
        idx[k] < (rangeLen ranges[k].1 ranges[k].2 : Int)) →
     sliceDerefIndices (dimMult exts).1 ranges idx
        = .ok (rowMajor exts ((composed ranges idx).map Int.toNat)) ∧
     sliceDerefIndices (dimMult exts).1 ranges idx
        = derefIndices (dimMult exts).1 (composed ranges idx) ∧
     rowMajor exts ((composed ranges idx).map Int.toNat) < (dimMult exts).2) ∧
    -- (b) the first index at or beyond its range length is reported (no hypothesis on ranges/extents)
    (∀ k0 (h1 : k0 < ranges.length) (h2 : k0 < idx.length),
        (rangeLen ranges[k0].1 ranges[k0].2 : Int) ≤ idx[k0] →
        (∀ k (hk : k < k0), idx[k] < (rangeLen ranges[k].1 ranges[k].2 : Int)) →
        sliceDerefIndices (dimMult exts).1 ranges idx = .error k0) := by
  have hneg : firstNeg idx 0 = none := firstNeg_none idx 0 hi
  constructor
  · intro hp hr hlen
    have hsa := sliceAddrs_ok ranges idx 0 (by omega) (fun k h1 h2 => ⟨hi k h2, hlen k h1 h2⟩)
    have hclen : (composed ranges idx).length = exts.length := by
      simp [composed, List.length_zipWith]; omega
    -- per-position facts about the composed index
    have hcomp : ∀ k (h : k < (composed ranges idx).length) (h2 : k < exts.length),
        0 ≤ (composed ranges idx)[k] ∧ (composed ranges idx)[k] < (exts[k] : Int) := by
      intro k h h2
      have hk1 : k < ranges.length := by omega
      have hk2 : k < idx.length := by omega
      have e : (composed ranges idx)[k] = rangePos ranges[k].1 ranges[k].2 idx[k] := by
        simp [composed, List.getElem_zipWith]
      have a := hr k hk1 h2
      have b := hlen k hk1 hk2
      have c := hi k hk2
      rw [e]; simp only [rangePos, rangeLen] at *
      split <;> omega
    have hpos : ∀ x ∈ exts, 0 < x := by
      intro x hx
      obtain ⟨k, hk, rfl⟩ := List.getElem_of_mem hx
      have := hcomp k (by omega) hk
      omega
    have hmap : (composed ranges idx).map toU32 = (composed ranges idx).map Int.toNat := by
      apply List.map_congr_left
      intro x hx
      obtain ⟨k, hk, rfl⟩ := List.getElem_of_mem hx
      have := hcomp k hk (by omega)
      have hle := le_prod_of_pos exts hpos k (by omega)
      exact toU32_eq_toNat _ this.1 (by omega)
    have hin : ∀ k (h1 : k < ((composed ranges idx).map Int.toNat).length) (h2 : k < exts.length),
        ((composed ranges idx).map Int.toNat)[k] < exts[k] := by
      intro k h1 h2
      have := hcomp k (by simpa using h1) h2
      simp only [List.getElem_map]; omega
    have hex := rowmajor_exact exts ((composed ranges idx).map Int.toNat) hp (by simpa using hclen) hin
    have hd := (deref_negative_rejected (dimMult exts).1 (composed ranges idx)).2
      (fun k hk => (hcomp k hk (by omega)).1)
    refine ⟨?_, ?_, hex.2.1⟩
    · simp only [sliceDerefIndices, hneg, hsa, hmap]; exact hex.1
    · simp only [sliceDerefIndices, hneg, hsa, hmap]; exact hd.symm
  · intro k0 h1 h2 hge hfirst
    have := sliceAddrs_error ranges idx 0 k0 h1 h2 (hi k0 h2) hge
      (fun k hk => ⟨hi k (by omega), hfirst k hk⟩)
    simp [sliceDerefIndices, hneg, this]

example : sliceDerefIndices (dimMult [5, 6]).1 [(3, 1), (2, 4)] [1, 2] = .ok 16 ∧
    rowMajor [5, 6] ((composed [(3, 1), (2, 4)] [1, 2]).map Int.toNat) = 16 ∧
    composed [(3, 1), (2, 4)] [1, 2] = [2, 4] ∧
    sliceDerefIndices (dimMult [5, 6]).1 [(3, 1), (2, 4)] [1, 3] = .error 1 := by decide

/-- Why the "ranges inside the array" hypothesis is needed: `vm_execute_slice_array` stores the
    range unchecked, and a negative composed position is converted to `unsigned`; with a large
    enough extent it lands on a real element.  Also: a range reaching beyond the array is accepted
    at creation and only `object_arr_dim_addr` stops it at dereference. -/
theorem slice_deref_counterexample :
    sliceDerefIndices (dimMult [3000000000]).1 [(-2147483648, -2147483647)] [0] = .ok 2147483648 ∧
    composed [(-2147483648, -2147483647)] [0] = [-2147483648] ∧
    derefIndices (dimMult [3000000000]).1 [-2147483648] = .error 0 ∧
    sliceDerefIndices (dimMult [10]).1 [(0, 20)] [15] = .error 0 ∧
    (15 : Int) < (rangeLen 0 20 : Int) := by decide


/-! ## 10. string_index -/

/-- string indexing reads only offsets `0 ≤ i < strlen` (full strength since fix f8907f0) -/
theorem string_index (len : Nat) (i : Int) :
    stringDerefOk len i = true ↔ (0 ≤ i ∧ i < (len : Int)) := by
  simp [stringDerefOk]

/-- the defect that was repaired: the pinned guard accepted every negative index
(recorded as `fixed:` in known_findings.json; the check reports it again if it ever returns) -/
theorem string_deref_pinned_counterexample :
    stringDerefOkPinned 3 (-1) = true ∧ stringDerefOk 3 (-1) = false ∧
    (∀ len : Nat, ∀ i : Int, i < 0 → stringDerefOkPinned len i = true) := by
  refine ⟨by decide, by decide, ?_⟩
  intro len i hi
  simp [stringDerefOkPinned]; omega

example : stringDerefOk 3 2 = true ∧ stringDerefOk 3 3 = false ∧ stringDerefOk 3 (-1) = false := by decide

theorem slice_string (s : List UInt8) (fr t : Int) :
    ((sliceString s fr t).isSome ↔
        (0 ≤ fr ∧ fr < (s.length : Int) ∧ 0 ≤ t ∧ t < (s.length : Int))) ∧
    (∀ r, sliceString s fr t = some r →
        r.length = rangeLen fr t ∧
        ∀ k : Nat, k < rangeLen fr t →
          0 ≤ rangePos fr t k ∧ rangePos fr t k < (s.length : Int) ∧
          r[k]? = s[(rangePos fr t k).toNat]?) := by
  constructor
  · simp only [sliceString]
    split
    · rename_i h; simp at h ⊢; omega
    · rename_i h; simp at h
      split <;> simp <;> omega
  · intro r
    simp only [sliceString]
    split
    · simp
    · rename_i h; simp at h
      split
      · rename_i hlt
        intro hr; injection hr with hr; subst hr
        have hlen : ((s.drop fr.toNat).take (t - fr + 1).toNat).length = rangeLen fr t := by
          simp only [List.length_take, List.length_drop, rangeLen]; omega
        refine ⟨hlen, ?_⟩
        intro k hk
        simp only [rangeLen] at hk
        simp only [rangePos, hlt, if_true]
        refine ⟨by omega, by omega, ?_⟩
        rw [List.getElem?_take, if_pos (by omega), List.getElem?_drop]
        congr 1; omega
      · rename_i hge
        intro hr; injection hr with hr; subst hr
        have hlen : ((s.drop t.toNat).take (fr - t + 1).toNat).length = rangeLen fr t := by
          simp only [List.length_take, List.length_drop, rangeLen]; omega
        refine ⟨by simpa using hlen, ?_⟩
        intro k hk
        simp only [rangePos, hge, if_false]
        simp only [rangeLen] at hk hlen
        refine ⟨by omega, by omega, ?_⟩
        rw [List.getElem?_reverse (by omega), List.getElem?_take, if_pos (by omega), List.getElem?_drop]
        congr 1; omega

example : sliceString [10, 11, 12, 13, 14] 3 1 = some [13, 12, 11] ∧
    sliceString [10, 11, 12, 13, 14] 1 3 = some [11, 12, 13] ∧
    sliceString [10, 11, 12, 13, 14] 2 2 = some [12] ∧
    sliceString [10, 11, 12, 13, 14] 1 5 = none ∧
    sliceString [10, 11, 12, 13, 14] (-1) 2 = none := by decide

/-! ## 11. shape_conformance -/

theorem shape_conformance (dv1 dv2 : List (Nat × Nat)) :
    (canAdd dv1 dv2 = true ↔
        (dv1.length = dv2.length ∧
         ∀ k (h1 : k < dv1.length) (h2 : k < dv2.length), dv1[k].1 = dv2[k].1)) ∧
    (canMult dv1 dv2 = true ↔
        ∃ rows1 m1 cols1 m2 rows2 m3 cols2 m4,
          dv1 = [(rows1, m1), (cols1, m2)] ∧ dv2 = [(rows2, m3), (cols2, m4)] ∧ cols1 = rows2) := by
  constructor
  · by_cases hl : dv1.length = dv2.length
    · simp only [canAdd, hl, ne_eq, not_true_eq_false, if_false, true_and, extsEq_iff dv1 dv2 hl]
      constructor
      · intro h k h1 h2
        have : (dv1.map Prod.fst)[k]'(by simp; omega) = (dv2.map Prod.fst)[k]'(by simp; omega) := by
          simp only [h]
        simpa using this
      · intro h
        apply List.ext_getElem (by simpa using hl)
        intro k h1 h2
        simpa using h k (by simp at h1; omega) (by simp at h2; omega)
    · simp [canAdd, hl]
  · constructor
    · intro h
      simp only [canMult] at h
      split at h
      · simp at h
      · rename_i hlen
        simp at hlen
        match dv1, dv2, hlen with
        | [(r1, m1), (c1, m2)], [(r2, m3), (c2, m4)], _ =>
          simp at h
          exact ⟨r1, m1, c1, m2, r2, m3, c2, m4, rfl, rfl, h⟩
    · rintro ⟨r1, m1, c1, m2, r2, m3, c2, m4, rfl, rfl, rfl⟩
      simp [canMult]

example : canAdd (dimMult [2, 3]).1 (dimMult [2, 3]).1 = true ∧
    canAdd (dimMult [2, 3]).1 (dimMult [3, 2]).1 = false ∧
    canAdd (dimMult [2, 3]).1 (dimMult [2, 3, 1]).1 = false ∧
    canMult (dimMult [2, 3]).1 (dimMult [3, 4]).1 = true ∧
    canMult (dimMult [2, 3]).1 (dimMult [2, 3]).1 = false ∧
    canMult (dimMult [6]).1 (dimMult [6]).1 = false := by decide


/-! ## range_deref (one dimension of vm_execute_range_deref) -/

theorem range_deref_exact (fr t i r : Int) :
    rangeDerefIndex fr t i = .ok r ↔
      (0 ≤ i ∧ i < (rangeLen fr t : Int) ∧ r = rangePos fr t i) := by
  simp only [rangeDerefIndex]
  split
  · constructor
    · intro h; cases h
    · intro h; omega
  · rename_i hi
    have hi' : 0 ≤ i := by omega
    by_cases hlt : i < (rangeLen fr t : Int)
    · rw [(sliceRange_single fr t i hi').1 hlt]
      constructor
      · intro h; injection h with h; exact ⟨hi', hlt, h.symm⟩
      · rintro ⟨_, _, rfl⟩; rfl
    · rw [(sliceRange_single fr t i hi').2 (by omega)]
      constructor
      · intro h; cases h
      · intro h; omega

example : rangeDerefIndex 7 3 2 = .ok 5 ∧ rangeDerefIndex 7 3 5 = .error () ∧
    rangeDerefIndex 7 3 (-1) = .error () ∧ rangeDerefIndex 4 4 0 = .ok 4 := by decide

/-! ## object_arr_append keeps the (extent, mult) vector of a 1-dimensional array consistent -/

theorem append_consistent (n : Nat) (h : n < U32) : (dimMult [n]).1 = [(n, 1)] := by
  have : prodWrap [n] 1 = n := by simp [prodWrap, Nat.mod_eq_of_lt h]
  simp only [dimMult, this, multPass]
  by_cases hn : n = 0
  · simp [hn]
  · simp [hn, Nat.div_self (Nat.pos_of_ne_zero hn)]

/-! ## axioms -/

end Never.Idx

