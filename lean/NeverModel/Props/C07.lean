import NeverModel.Model.Verify
import NeverModel.Props.C03
import NeverModel.Lemmas.VmEffect
import NeverModel.Lemmas.VmEffectSound
import NeverModel.Lemmas.VmIpSound
import NeverModel.Lemmas.VerCert
import NeverModel.Lemmas.VerLocal
import NeverModel.Lemmas.VerCalls
/-!
# C07 — emitted code is well-formed on every path, executed or not

`Ver.verify` (Model/Verify.lean) is the per-module certificate checker run on every module the real
compiler emits (checks/c07.py).  Theorems here connect a successful verification with the rest of
the development.  A full `verify_sound` (every execution of M-VM on a verified module keeps
`sp = pp + nparams + h(ip)` and stays inside its frame) has NOT been completed; what is proved is its
per-instruction half for EVERY opcode of the verifier's table (`simple_effect_sound`): the (pops, pushes) pair
the verifier uses is what the M-VM handler does to `sp`, on every machine state.  The frame opcodes outside the
table (MARK, CALL, SLIDE, RET, CLEAR_STACK …) have their own exact specifications in Lemmas/Frame.lean; the
global induction over executions that would combine the two is checked dynamically instead (checks/c07.py compares
`sp - pp - nparams` with `h(ip)` before every executed instruction of every program it runs).
-/
namespace Never.C07
open Never Never.Vm Never.Ver

/-- a verified module has a well-formed exception table -/
theorem verify_ok_iff (md : Module) (s : Summary) (h : verify md = .ok s) : ∃ hm, verifyH md = .ok (s, hm) := by
  unfold verify at h
  cases hv : verifyH md with
  | error e => rw [hv] at h; cases h
  | ok p => rw [hv] at h; obtain ⟨s', hm⟩ := p; simp [Except.map] at h; subst h; exact ⟨hm, rfl⟩

theorem verifyH_ok (md : Module) (s : Summary) (hm : HMap) (h : verifyH md = .ok (s, hm)) :
    verifyCore md = .ok (s, hm) ∧ flowOk md hm = true := by
  unfold verifyH at h
  cases hc : verifyCore md with
  | error e => rw [hc] at h; cases h
  | ok p =>
    obtain ⟨s', hm'⟩ := p
    rw [hc] at h
    dsimp only at h
    by_cases hf : flowOk md hm' = true
    · simp only [hf, if_true, Except.ok.injEq, Prod.mk.injEq] at h
      obtain ⟨rfl, rfl⟩ := h; exact ⟨rfl, hf⟩
    · simp [hf] at h

theorem verified_table_wellformed (md : Module) (s : Summary) (h : verify md = .ok s) :
    ExcWF md.exctab md.excCount = true := by
  obtain ⟨hm, h⟩ := verify_ok_iff md s h
  obtain ⟨h, _⟩ := verifyH_ok md s hm h
  unfold verifyCore at h
  simp only [bind, Except.bind] at h
  split at h
  · cases h
  · split at h
    · cases h
    · rename_i hwf
      simpa using hwf

/-- hence in a verified module every fault address (below the sentinel) has exactly one handler:
the `assert(res != NULL)` of `exception_tab_search` cannot fire and the lookup stays in bounds -/
theorem verified_every_fault_has_handler (md : Module) (s : Summary) (h : verify md = .ok s)
    (ip : Nat) (hip : ip < 4294967295) : (excHandler md.exctab md.excCount ip).isSome = true := by
  have hwf := verified_table_wellformed md s h
  obtain ⟨i, e1, e2, _, _, _, _, _, hh⟩ := C03.exctab_search_correct md.exctab md.excCount ip hwf hip
  simp [hh]

/-- a verified module is not empty -/
theorem verified_nonempty (md : Module) (s : Summary) (h : verify md = .ok s) : md.code.size ≠ 0 := by
  obtain ⟨hm, h⟩ := verify_ok_iff md s h
  obtain ⟨h, _⟩ := verifyH_ok md s hm h
  unfold verifyCore at h
  simp only [bind, Except.bind] at h
  split at h
  · cases h
  · rename_i hn; simpa using hn

/-- the opcodes of the three typed arithmetic families (binary, unary, conversion) -/
def isArith (op : Opc) : Bool := (binOpOf op).isSome || (unOpOf op).isSome || (convOf op).isSome

/-- **Soundness of the verifier's stack-effect table on the arithmetic families.**  For every opcode of
the typed binary / unary / conversion families (`isArith`; counted below) the verifier's `simpleEffect`
is defined, and on *every* machine state on which the M-VM handler of that instruction completes, the
frame registers and the stack size are untouched and `sp` moves by exactly `pushes - pops`, or the
handler raised an exception (running = 2, `sp` unchanged: the exception path then resets the stack). -/
theorem simple_effect_sound_arith (md : Module) (ins : Instr) (orc : Oracle) (ha : isArith ins.op = true) :
    ∃ p q, simpleEffect ins = some (p, q) ∧
      ∀ vm vm', (exec md ins orc).run vm = .ok ((), vm') →
        vm'.fp = vm.fp ∧ vm'.pp = vm.pp ∧ vm'.stackSize = vm.stackSize ∧
        (vm'.sp = vm.sp - (p : Int) + (q : Int) ∨ (vm'.sp = vm.sp ∧ vm'.running = 2)) := by
  unfold isArith at ha
  cases hb : binOpOf ins.op with
  | some tb =>
    obtain ⟨ty, bop⟩ := tb
    refine ⟨2, 1, by simp [simpleEffect, hb], ?_⟩
    intro vm vm' h
    rw [exec_bin md ins orc ty bop hb] at h
    obtain ⟨a, b, c, d⟩ := execBin_effect ty bop vm vm' h
    refine ⟨a, b, c, ?_⟩
    rcases d with d | d
    · left; omega
    · right; exact d
  | none =>
    cases hu : unOpOf ins.op with
    | some tu =>
      obtain ⟨ty, uop⟩ := tu
      refine ⟨1, 1, by simp [simpleEffect, hb, hu], ?_⟩
      intro vm vm' h
      rw [exec_un md ins orc ty uop hb hu] at h
      obtain ⟨a, b, c, d⟩ := execUn_effect ty uop vm vm' h
      refine ⟨a, b, c, ?_⟩
      rcases d with d | d
      · left; omega
      · right; exact d
    | none =>
      cases hc : convOf ins.op with
      | some tc =>
        obtain ⟨src, dst⟩ := tc
        refine ⟨1, 1, by simp [simpleEffect, hb, hu, hc], ?_⟩
        intro vm vm' h
        rw [exec_conv md ins orc src dst hb hu hc] at h
        obtain ⟨a, b, c, d⟩ := execConv_effect src dst vm vm' h
        refine ⟨a, b, c, ?_⟩
        rcases d with d | d
        · left; omega
        · right; exact d
      | none => simp [hb, hu, hc] at ha

/-- **Soundness of the verifier's whole stack-effect table** (proved in Lemmas/VmEffectSound.lean, restated here):
for every instruction to which `Ver.simpleEffect` assigns `(pops, pushes)`, the M-VM handler started on any machine
state with `sp = s` and run to completion leaves `fp`, `pp` and the stack size alone and ends with
`sp = s + pushes - pops`, or with an exception raised (the handler entered next resets `sp` from the frame), or
stopped in `VM_ERROR` (failed `assert`).  The attempt to prove this found the defect repaired by d4916ed
(`c_string_ptr` popped its operand). -/
theorem simple_effect_sound (md : Module) (ins : Instr) (orc : Oracle) (p q : Nat) (h : simpleEffect ins = some (p, q)) (s : Int) :
    ∀ vm a vm', vm.sp = s → (exec md ins orc).run vm = .ok (a, vm') →
      vm'.fp = vm.fp ∧ vm'.pp = vm.pp ∧ vm'.stackSize = vm.stackSize ∧
      (vm'.sp = s + ((q : Int) - (p : Int)) ∨ vm'.running = 2 ∨ vm'.running = 3) :=
  Vm.simple_effect_sound md ins orc p q h s

/-- the table is defined on 198 of the 222 opcodes (operand 1); the rest are the frame opcodes of Lemmas/Frame.lean,
MK_INIT_ARRAY (handled with constant propagation), JUMP, the FFI opcodes and the placeholders -/
example : (Opc.all.toList.filter fun op => (simpleEffect { op := op, w0 := 1, w1 := 0, w2 := 0 }).isSome).length = 198 := by decide +kernel

/-- **The height map of a verified module is flow-consistent**: at every reached address that holds an instruction of
the effect table (any except `JUMPZ`), the operands exist and the height recorded for the next address is
`h − pops + pushes`. (From the certificate re-check `flowOk` that `verifyH` applies to its own result.) -/
theorem verified_flow (md : Module) (sm : Summary) (hm : HMap) (hv : verifyH md = .ok (sm, hm))
    (a : Nat) (i : Instr) (st : AbsSt) (p q : Nat)
    (hi : md.code[a]? = some i) (hs : hm[a]? = some (some st)) (he : simpleEffect i = some (p, q)) (hj : i.op ≠ .JUMPZ) :
    ∃ st', hm[a + 1]? = some (some st') ∧ p ≤ st.h ∧ st'.h + p = st.h + q := by
  obtain ⟨_, hf⟩ := verifyH_ok md sm hm hv
  have := (flowOk_at hf (lt_size_of_getElem? hi)).1
  unfold flowOkAt at this
  simp only [hi, hs, he] at this
  have hj' : (i.op == Opc.JUMPZ) = false := by simpa using hj
  simp only [hj'] at this
  cases hn : hm[a + 1]? with
  | none => simp [hn] at this
  | some o =>
    cases o with
    | none => simp [hn] at this
    | some st' =>
      simp [hn] at this
      exact ⟨st', rfl, this.1, this.2⟩

/-- **A verified module runs at the verified heights, instruction by instruction.**  Let the machine be running at an
address `a` of a verified module that holds an instruction of the effect table (not `JUMPZ`), with
`sp = base + h(a)` for the height `h(a)` the verifier recorded (`base` = `pp + nparams` of the running function). After one
`step`: the frame registers are unchanged and either the machine is running at `a + 1` with `sp = base + h(a + 1)` — the
recorded height of that address —, or an exception was raised and control is at the handler the (well-formed) exception
table assigns to `a`, or the machine stopped in VM_ERROR. -/
theorem verified_step_keeps_height (md : Module) (orc : Oracle) (sm : Summary) (hm : HMap) (hv : verifyH md = .ok (sm, hm))
    (vm vm' : Vm) (i : Instr) (st : AbsSt) (p q : Nat) (base : Int)
    (hi : md.code[vm.ip]? = some i) (hs : hm[vm.ip]? = some (some st)) (he : simpleEffect i = some (p, q)) (hj : i.op ≠ .JUMPZ)
    (hrun : vm.running = 1) (hinv : vm.sp = base + (st.h : Int))
    (hstep : (step md orc).run vm = .ok ((), vm')) :
    vm'.fp = vm.fp ∧ vm'.pp = vm.pp ∧ vm'.stackSize = vm.stackSize ∧
    ((vm'.running = 1 ∧ vm'.ip = vm.ip + 1 ∧ ∃ st', hm[vm'.ip]? = some (some st') ∧ vm'.sp = base + (st'.h : Int)) ∨
     (vm'.running = 1 ∧ excHandler md.exctab md.excCount vm.ip = some vm'.ip) ∨
     vm'.running = 3) := by
  obtain ⟨st', h1, h2, h3⟩ := verified_flow md sm hm hv vm.ip i st p q hi hs he hj
  obtain ⟨a1, a2, a3, a4⟩ := step_table md orc vm vm' i p q hi hrun he hj hstep
  refine ⟨a1, a2, a3, ?_⟩
  rcases a4 with ⟨r, hip, hsp⟩ | a4 | a4
  · left
    refine ⟨r, hip, st', by rw [hip]; exact h1, ?_⟩
    omega
  · right; left; exact a4
  · right; right; exact a4

/-- flow consistency at the two branch instructions: both successors of `JUMPZ` carry `h − 1`, the target of `JUMP` carries `h` -/
theorem verified_flow_branch (md : Module) (sm : Summary) (hm : HMap) (hv : verifyH md = .ok (sm, hm))
    (a : Nat) (i : Instr) (st : AbsSt) (hi : md.code[a]? = some i) (hs : hm[a]? = some (some st)) :
    (i.op = .JUMPZ → 1 ≤ st.h ∧ (∃ s1, hm[a + 1]? = some (some s1) ∧ s1.h + 1 = st.h) ∧
        (∃ s2, hm[((a : Int) + 1 + i32 i.w0).toNat]? = some (some s2) ∧ s2.h + 1 = st.h)) ∧
    (i.op = .JUMP → ∃ s2, hm[((a : Int) + 1 + i32 i.w0).toNat]? = some (some s2) ∧ s2.h = st.h) := by
  obtain ⟨_, hf⟩ := verifyH_ok md sm hm hv
  have key := (flowOk_at hf (lt_size_of_getElem? hi)).1
  unfold flowOkAt at key
  simp only [hi, hs] at key
  constructor
  · intro hop
    have he : simpleEffect i = some (1, 0) := by simp [simpleEffect, hop, binOpOf, unOpOf, convOf, nilCmpOf, strAddOf, arrOpOf, mkArrayElem]
    simp only [he, hop, beq_self_eq_true, if_true, Bool.and_eq_true] at key
    obtain ⟨k1, k2⟩ := key
    cases hn : hm[a + 1]? with
    | none => simp [hn] at k1
    | some o =>
      cases o with
      | none => simp [hn] at k1
      | some s1 =>
        simp [hn] at k1
        cases ht : hm[((a : Int) + 1 + i32 i.w0).toNat]? with
        | none => simp [ht] at k2
        | some o2 =>
          cases o2 with
          | none => simp [ht] at k2
          | some s2 =>
            simp [ht] at k2
            exact ⟨k1.1, ⟨s1, rfl, by omega⟩, ⟨s2, rfl, by omega⟩⟩
  · intro hop
    have he : simpleEffect i = none := by simp [simpleEffect, hop, binOpOf, unOpOf, convOf, nilCmpOf, strAddOf, arrOpOf, mkArrayElem]
    simp only [he, hop, beq_self_eq_true, if_true] at key
    cases ht : hm[((a : Int) + 1 + i32 i.w0).toNat]? with
    | none => simp [ht] at key
    | some o2 =>
      cases o2 with
      | none => simp [ht] at key
      | some s2 =>
        simp [ht] at key
        exact ⟨s2, rfl, key⟩

/-- the branch instructions of a verified module also run at the verified heights: after one `step` on `JUMPZ` / `JUMP` the
machine is running at one of the successors the verifier followed, with `sp = base + h(successor)` -/
theorem verified_branch_keeps_height (md : Module) (orc : Oracle) (sm : Summary) (hm : HMap) (hv : verifyH md = .ok (sm, hm))
    (vm vm' : Vm) (i : Instr) (st : AbsSt) (base : Int)
    (hi : md.code[vm.ip]? = some i) (hs : hm[vm.ip]? = some (some st)) (hop : i.op = .JUMPZ ∨ i.op = .JUMP)
    (hrun : vm.running = 1) (hinv : vm.sp = base + (st.h : Int))
    (hstep : (step md orc).run vm = .ok ((), vm')) :
    vm'.fp = vm.fp ∧ vm'.pp = vm.pp ∧ vm'.stackSize = vm.stackSize ∧ vm'.running = 1 ∧
    ∃ st', hm[vm'.ip]? = some (some st') ∧ vm'.sp = base + (st'.h : Int) := by
  obtain ⟨fz, fj⟩ := verified_flow_branch md sm hm hv vm.ip i st hi hs
  obtain ⟨a1, a2, a3, a4, a5⟩ := step_branch md orc vm vm' i hi hrun hop hstep
  refine ⟨a1, a2, a3, a4, ?_⟩
  rcases a5 with ⟨hz, hsp, hip⟩ | ⟨hjmp, hsp, hip⟩
  · obtain ⟨h1, ⟨s1, e1, r1⟩, ⟨s2, e2, r2⟩⟩ := fz hz
    rcases hip with hip | hip
    · exact ⟨s1, by rw [hip]; exact e1, by omega⟩
    · exact ⟨s2, by rw [hip]; exact e2, by omega⟩
  · obtain ⟨s2, e2, r2⟩ := fj hjmp
    exact ⟨s2, by rw [hip]; exact e2, by omega⟩

/-- a module that verifies (`7 + 5` and HALT, one catch-all handler): the hypotheses of `verified_step_keeps_height` are met
at address 2, where `OP_ADD_INT` runs at the recorded height 2 and leaves height 1 -/
def tinyModule : Module := { code := #[⟨.INT, 7, 0, 0⟩, ⟨.INT, 5, 0, 0⟩, ⟨.OP_ADD_INT, 0, 0, 0⟩, ⟨.HALT, 0, 0, 0⟩, ⟨.UNHANDLED_EXCEPTION, 0, 0, 0⟩], strtab := #[], exctab := #[⟨0, 4⟩, ⟨4294967295, 0⟩], excCount := 1, codeEntry := 0, entryAddr := 0, params := [] }
example : (match verifyH tinyModule with
    | .ok (_, hm) => (hm.toList.map fun o => o.map (·.h)) == [some 0, some 1, some 2, some 1, some 0]
    | .error _ => false) = true := by decide +kernel

/-- how many opcodes that theorem covers (of `Opc.all`) — not vacuous -/
example : (Opc.all.toList.filter isArith).length = 77 := by decide +kernel

/-! ## From the certificate to executions: frame opcodes, frame-relative addressing, runs inside one activation

`verifyH` re-checks its height map with `flowOk` = `flowOkAt` (the effect table, JUMP) ∧ `frameOkAt` (MARK, CALL, SLIDE, RET,
CLEAR_STACK, PUSH_PARAM, MK_INIT_ARRAY, the reach of the frame-relative opcodes, every edge inside one function) ∧ `handlersOk`
(every handler of the exception table is `[LABEL] CLEAR_STACK/RETHROW/UNHANDLED_EXCEPTION` at a reached address).  The theorems
below rest on that re-check only.  Notation: `fnParamsAt md a` = parameter count (emitter hook) of the function containing `a`;
`AtHeight md hm vm` = running, `ip` reached, `sp = pp + fnParamsAt md ip + h(ip)`; `AtHandler` = running at a handler entry. -/

/-- **What a verified module says statically about its frame opcodes** (at every reached address, executed or not): a function
returns with exactly its result above its parameters (`RET` at height 1); a `CALL` no `MARK` returns behind (a last call) leaves
exactly the fresh-entry frame (height 1 = the function object; 0 after the pop), a marked one finds its function object; both
successors of a `MARK` are reached at the heights `h + 5` (behind it) and `h + 1` (its return address: frame popped, result pushed),
in the same function; `CLEAR_STACK n` has `n` = the parameter count of its function. -/
theorem verified_frame_heights (md : Module) (sm : Summary) (hm : HMap) (hv : verifyH md = .ok (sm, hm))
    (a : Nat) (i : Instr) (st : AbsSt) (hi : md.code[a]? = some i) (hs : hm[a]? = some (some st)) :
    (i.op = .RET → st.h = 1) ∧
    (i.op = .CALL → (markedCall md a = true ∧ 1 ≤ st.h) ∨ (markedCall md a = false ∧ st.h = 1)) ∧
    (i.op = .MARK → (∃ s1, hm[a + 1]? = some (some s1) ∧ s1.h = st.h + 5 ∧ fnParamsAt md (a + 1) = fnParamsAt md a) ∧
                    (∃ s2, hm[i.w0]? = some (some s2) ∧ s2.h = st.h + 1 ∧ fnParamsAt md i.w0 = fnParamsAt md a)) ∧
    (i.op = .CLEAR_STACK → i.w0 = fnParamsAt md a) := by
  obtain ⟨_, hf⟩ := verifyH_ok md sm hm hv
  have hfr := frame_at hf hi
  refine ⟨fun h => frameOkAt_RET hi hs h hfr, fun h => frameOkAt_CALL hi hs h hfr, fun h => ?_, fun h => (frameOkAt_CLEAR_STACK hi hs h hfr).1⟩
  obtain ⟨k1, k2⟩ := frameOkAt_MARK hi hs h hfr
  obtain ⟨s2, e1, e2, e3⟩ := hAt_spec k1
  obtain ⟨s1, f1, f2, f3⟩ := hAt_spec k2
  exact ⟨⟨s1, f1, f2, fnParamsAt_same f3⟩, ⟨s2, e1, e2, fnParamsAt_same e3⟩⟩

/-- **MARK** in a verified module, from a machine at its recorded height: `pp` is left alone, `fp = sp := sp + 5` (the five frame
words), and the machine is at the recorded height of the next address -/
theorem verified_mark_step (md : Module) (orc : Oracle) (sm : Summary) (hm : HMap) (hv : verifyH md = .ok (sm, hm))
    (vm vm' : Vm) (i : Instr) (hi : md.code[vm.ip]? = some i) (hop : i.op = .MARK) (hh : AtHeight md hm vm)
    (hstep : (step md orc).run vm = .ok ((), vm')) :
    vm'.pp = vm.pp ∧ vm'.fp = vm.sp + 5 ∧ vm'.sp = vm.sp + 5 ∧ vm'.ip = vm.ip + 1 ∧ vm'.stackSize = vm.stackSize ∧ AtHeight md hm vm' := by
  obtain ⟨_, hf⟩ := verifyH_ok md sm hm hv
  obtain ⟨hrun, st, hs, hinv⟩ := hh
  obtain ⟨_, r1, r2, r3, _, r5, r6, r7⟩ := step_MARK_regs md orc vm vm' i hi hop hrun hstep
  obtain ⟨_, hk⟩ := frameOkAt_MARK hi hs hop (frame_at hf hi)
  exact ⟨r3, r2, r1, r5, r7, (atHeight_next hf hinv hk r6 r5 r3 (by rw [r1]; omega)).1⟩

/-- **SLIDE q m** in a verified module, from a machine at its recorded height: `sp` moves by `−q`, `fp`/`pp` are left alone, and the
machine is at the recorded height of the next address — in the ordinary case (`q + m ≤ h`) and in the last-call case (`h = q + 1`,
`m = nparams + 1`: the new arguments and the function object replace the parameters; then `sp = pp + nparams + 1`) -/
theorem verified_slide_step (md : Module) (orc : Oracle) (sm : Summary) (hm : HMap) (hv : verifyH md = .ok (sm, hm))
    (vm vm' : Vm) (i : Instr) (hi : md.code[vm.ip]? = some i) (hop : i.op = .SLIDE) (hh : AtHeight md hm vm)
    (hstep : (step md orc).run vm = .ok ((), vm')) :
    vm'.pp = vm.pp ∧ vm'.fp = vm.fp ∧ vm'.sp = vm.sp - (i.w0 : Int) ∧ vm'.ip = vm.ip + 1 ∧ vm'.stackSize = vm.stackSize ∧ AtHeight md hm vm' ∧
    (∀ st, hm[vm.ip]? = some (some st) → i.w0 ≠ 0 → st.h < i.w0 + i.w1 →
       i.w1 = fnParamsAt md vm.ip + 1 ∧ vm'.sp = vm.pp + (fnParamsAt md vm.ip : Int) + 1 ∧ (md.code[vm.ip + 1]?.map (·.op)) = some .CALL) := by
  obtain ⟨_, hf⟩ := verifyH_ok md sm hm hv
  obtain ⟨hrun, st, hs, hinv⟩ := hh
  obtain ⟨r1, r2, r3, _, r5, r6, r7⟩ := step_SLIDE_regs md orc vm vm' i hi hop hrun hstep
  have hc := frameOkAt_SLIDE hi hs hop (frame_at hf hi)
  refine ⟨r3, r2, r1, r5, r7, ?_, ?_⟩
  · rcases hc with ⟨hq, hk⟩ | ⟨hq, hle, hk⟩ | ⟨hq, hlt, hh, _, _, hk⟩
    · exact (atHeight_next hf hinv hk r6 r5 r3 (by rw [r1, hq]; simp)).1
    · exact (atHeight_next hf hinv hk r6 r5 r3 (by rw [r1]; omega)).1
    · exact (atHeight_next hf hinv hk r6 r5 r3 (by rw [r1]; omega)).1
  · intro st2 hs2 hq hlt
    rw [hs] at hs2; cases hs2
    rcases hc with ⟨hq', _⟩ | ⟨_, hle, _⟩ | ⟨_, _, hh, hm1, hcall, _⟩
    · exact absurd hq' hq
    · omega
    · exact ⟨hm1, by rw [r1]; unfold fnParamsAt at hinv ⊢; omega, hcall⟩

/-- **CLEAR_STACK n** in a verified module, from ANY running or just-dispatched machine at a reached address (a catch clause is
entered with whatever `sp` the faulting instruction left): `fp = pp`, `sp = pp + n` with `n` the parameter count of the function, and
the machine is at the recorded height (0) of the next address -/
theorem verified_clear_stack_step (md : Module) (orc : Oracle) (sm : Summary) (hm : HMap) (hv : verifyH md = .ok (sm, hm))
    (vm vm' : Vm) (i : Instr) (st : AbsSt) (hi : md.code[vm.ip]? = some i) (hop : i.op = .CLEAR_STACK) (hs : hm[vm.ip]? = some (some st))
    (hstep : (step md orc).run vm = .ok ((), vm')) :
    vm'.pp = vm.pp ∧ vm'.fp = vm.pp ∧ vm'.sp = vm.pp + (fnParamsAt md vm.ip : Int) ∧ vm'.ip = vm.ip + 1 ∧ vm'.stackSize = vm.stackSize ∧
    AtHeight md hm vm' := by
  obtain ⟨_, hf⟩ := verifyH_ok md sm hm hv
  obtain ⟨r1, r2, r3, _, r5, r6, r7⟩ := step_CLEAR_STACK_regs md orc vm vm' i hi hop hstep
  obtain ⟨hn, hk⟩ := frameOkAt_CLEAR_STACK hi hs hop (frame_at hf hi)
  obtain ⟨st', e1, e2, e3⟩ := hAt_spec hk
  refine ⟨r3, r2, by rw [r1, hn]; rfl, r5, r7, r6, st', by rw [r5]; exact e1, ?_⟩
  rw [r5, fnParamsAt_same e3, r3, r1, e2, hn]; unfold fnParamsAt; omega

/-- **PUSH_PARAM** (entry stub) and **MK_INIT_ARRAY** in a verified module, from a machine at its recorded height: `pp` is left alone
and the machine is at the recorded height of the next address (or an allocation stopped the machine).  For `MK_INIT_ARRAY` the
hypothesis is that the extents found on the stack are the constants the verifier recorded (pushed by the preceding `INT`s; the
verifier's constant propagation is not re-proved over executions): then exactly `dims + Π extents` slots are popped and one pushed. -/
theorem verified_data_step (md : Module) (orc : Oracle) (sm : Summary) (hm : HMap) (hv : verifyH md = .ok (sm, hm))
    (vm vm' : Vm) (i : Instr) (st : AbsSt) (hi : md.code[vm.ip]? = some i) (hs : hm[vm.ip]? = some (some st))
    (hop : i.op = .PUSH_PARAM ∨ (i.op = .MK_INIT_ARRAY ∧ stackInts vm i.w0 vm.sp = initExts st i.w0))
    (hh : AtHeight md hm vm) (hstep : (step md orc).run vm = .ok ((), vm')) : Succ md hm vm vm' := by
  obtain ⟨_, hf⟩ := verifyH_ok md sm hm hv
  obtain ⟨hrun, st2, hs2, hinv⟩ := hh
  rw [hs] at hs2; cases hs2
  rcases hop with hop | ⟨hop, hext⟩
  · exact succ_PUSH_PARAM hf orc vm vm' i st hi hs hop hrun hinv hstep
  · exact succ_MK_INIT_ARRAY hf orc vm vm' i st hi hs hop hrun hinv hext hstep

/-- **Frame-relative addressing stays in the function's own frame.**  For `ID_LOCAL`, `ID_DIM_LOCAL`, `ID_DIM_SLICE`, `OP_DUP_INT`,
`OP_INC_INT`, `OP_DEC_INT`, `ARRAY_APPEND`, `VEC_DEREF`, `VECREF_VEC_DEREF`, `DUP`, `REWRITE` (`frameDist i = some d`: the handler
reads stack slot `sp − d`, see `frame_slot_is_read`) at a reached address inside a function body of a verified module: whenever
`sp = pp + nparams + h(ip)`, the slot lies in `(pp, sp]` — above the caller's data and the five frame words, at or below the top. -/
theorem verified_local_in_frame (md : Module) (sm : Summary) (hm : HMap) (hv : verifyH md = .ok (sm, hm))
    (a : Nat) (i : Instr) (st : AbsSt) (d : Int) (hi : md.code[a]? = some i) (hs : hm[a]? = some (some st))
    (hd : frameDist i = some d) (hfn : inFunction md a = true)
    (sp pp : Int) (hsp : sp = pp + (fnParamsAt md a : Int) + (st.h : Int)) : pp < sp - d ∧ sp - d ≤ sp :=
  local_in_frame (verifyH_ok md sm hm hv).2 hi hs hd hfn sp pp hsp

/-- the handler of a frame-relative opcode does access slot `sp − frameDist`: if that index were outside the stack array the
handler would not complete (M-VM: crash = an out-of-bounds access of the C array) -/
theorem frame_slot_is_read (md : Module) (i : Instr) (orc : Oracle) (d : Int) (hd : frameDist i = some d) (vm vm' : Vm)
    (h : (exec md i orc).run vm = .ok ((), vm')) : 0 ≤ vm.sp - d ∧ vm.sp - d < vm.stackSize :=
  exec_reads_frame_slot md i orc d hd vm vm' h

/-- **One step inside an activation of a verified module.**  From a machine at its recorded height (`AtHeight`) or at a handler
entry (`AtHandler`), a step on any instruction other than CALL / RET / RETHROW / HALT / UNHANDLED_EXCEPTION (`Inside`; for
`MK_INIT_ARRAY` it also asks that the extents on the stack are the recorded constants) leaves `pp` and the stack size alone and
ends: at the recorded height of the address it reached, along an edge the certificate knows (`EdgeOk`: same function, the recorded
calls in preparation are those behind the instruction, no run of `INT` constants continues there except behind an `INT`); or at a handler entry — the next address, or the
handler the exception table assigns to the faulting address —; or with the machine stopped (`running = 3`). -/
theorem verified_step_in_activation (md : Module) (orc : Oracle) (sm : Summary) (hm : HMap) (hv : verifyH md = .ok (sm, hm))
    (vm vm' : Vm) (hg : AtHeight md hm vm ∨ AtHandler md hm vm) (hin : Inside md hm vm)
    (hstep : (step md orc).run vm = .ok ((), vm')) :
    vm'.pp = vm.pp ∧ vm'.stackSize = vm.stackSize ∧
    ((AtHeight md hm vm' ∧ EdgeOk md hm vm.ip vm'.ip) ∨
     (AtHandler md hm vm' ∧ (vm'.ip = vm.ip + 1 ∨ excHandler md.exctab md.excCount vm.ip = some vm'.ip)) ∨
     vm'.running = 3) :=
  step_good (verifyH_ok md sm hm hv).2 orc vm vm' hg hin hstep

/-- **Runs inside one activation of a verified module keep the height invariant** (`RunsTo md P n vm vm'`: `vm'` is reached from
`vm` by `n` steps, each from a running machine satisfying `P`, each with arbitrary results of its external calls).  From a machine at
its recorded height or at a handler entry, as long as the executed instructions are not CALL / RET / RETHROW / HALT /
UNHANDLED_EXCEPTION (and `MK_INIT_ARRAY` finds the recorded constants), every reached state has the same `pp` and stack size and is
again at the recorded height of ITS address (`sp = pp + nparams + h(ip)`), or at a handler entry (whose `CLEAR_STACK` re-establishes
the height), or the machine stopped. -/
theorem verified_run_in_activation (md : Module) (sm : Summary) (hm : HMap) (hv : verifyH md = .ok (sm, hm))
    (n : Nat) (vm vm' : Vm) (hg : AtHeight md hm vm ∨ AtHandler md hm vm) (hr : RunsTo md (Inside md hm) n vm vm') :
    vm'.pp = vm.pp ∧ vm'.stackSize = vm.stackSize ∧ ((AtHeight md hm vm' ∨ AtHandler md hm vm') ∨ vm'.running = 3) :=
  runsTo_good (verifyH_ok md sm hm hv).2 n vm vm' hg hr

/-- the same for the loop function `run` (`while (running == VM_RUNNING) step`), with one oracle per step: if every state the run
passes through is `Inside` its activation, the final state satisfies the invariant -/
theorem verified_run_fn_in_activation (md : Module) (sm : Summary) (hm : HMap) (hv : verifyH md = .ok (sm, hm))
    (orc : Nat → Oracle) (n : Nat) (vm vm' : Vm) (hg : AtHeight md hm vm ∨ AtHandler md hm vm)
    (hrun : run md orc n vm = .ok vm')
    (hin : ∀ k v, RunsTo md (fun _ => True) k vm v → v.running = 1 → Inside md hm v) :
    vm'.pp = vm.pp ∧ vm'.stackSize = vm.stackSize ∧ ((AtHeight md hm vm' ∨ AtHandler md hm vm') ∨ vm'.running = 3) := by
  obtain ⟨k, _, hk⟩ := run_runsTo md orc n vm vm' hrun
  exact verified_run_in_activation md sm hm hv k vm vm' hg
    (runsTo_strengthen md _ k vm vm' hk (fun j v _ hr hv => hin j v hr hv))

/-- a module with a marked call, a frame-relative read, a catch clause and a last call; it verifies, and the certificate re-check
`frameOkAt` is exercised at MARK (0), CALL (4, marked; 23, last call), ID_LOCAL (9, 17), RET (12), CLEAR_STACK (14), SLIDE (22) -/
def callModule : Module := {
  code := #[⟨.MARK, 5, 0, 0⟩, ⟨.INT, 7, 0, 0⟩, ⟨.GLOBAL_VEC, 0, 0, 0⟩, ⟨.ID_FUNC_ADDR, 8, 0, 0⟩, ⟨.CALL, 0, 0, 0⟩, ⟨.HALT, 0, 0, 0⟩,
            ⟨.LABEL, 0, 0, 0⟩, ⟨.UNHANDLED_EXCEPTION, 0, 0, 0⟩,
            -- f(x) = x + 1, with a catch clause returning 0
            ⟨.FUNC_DEF, 0, 0, 0⟩, ⟨.ID_LOCAL, 0, 0, 0⟩, ⟨.INT, 1, 0, 0⟩, ⟨.OP_ADD_INT, 0, 0, 0⟩, ⟨.RET, 0, 0, 0⟩,
            ⟨.LABEL, 0, 0, 0⟩, ⟨.CLEAR_STACK, 1, 0, 0⟩, ⟨.INT, 0, 0, 0⟩, ⟨.RET, 0, 0, 0⟩,
            -- g(x) = g(x + 1) as a last call: args; func; SLIDE 1+L 2; CALL  (here L = 0: height 2 = q + 1 with q = 1)
            ⟨.FUNC_DEF, 0, 0, 0⟩, ⟨.ID_LOCAL, 0, 0, 0⟩, ⟨.INT, 1, 0, 0⟩, ⟨.OP_ADD_INT, 0, 0, 0⟩, ⟨.GLOBAL_VEC, 0, 0, 0⟩, ⟨.ID_FUNC_ADDR, 17, 0, 0⟩,
            ⟨.SLIDE, 1, 2, 0⟩, ⟨.CALL, 0, 0, 0⟩, ⟨.LABEL, 0, 0, 0⟩, ⟨.RETHROW, 0, 0, 0⟩],
  strtab := #[], exctab := #[⟨0, 6⟩, ⟨8, 13⟩, ⟨17, 25⟩, ⟨4294967295, 0⟩], excCount := 3, codeEntry := 0, entryAddr := 8, params := [],
  fnParams := [(8, 1), (17, 1)] }

example : (match verifyH callModule with
    | .ok (_, hm) => (hm.toList.map fun o => o.map (·.h)) ==
        [some 0, some 5, some 6, some 7, some 7, some 1, some 0, some 0,
         some 0, some 0, some 1, some 2, some 1, some 0, some 0, some 0, some 1,
         some 0, some 0, some 1, some 2, some 1, some 2, some 2, some 1, some 0, some 0]
    | .error _ => false) = true := by decide +kernel

/-- the certificate is not vacuous: the height map of the good module does not re-check (`flowOk`) against the same code with the
function returning at height 2, with a frame-relative read below the frame, or with a wrong `CLEAR_STACK` count -/
example : (match verifyH callModule with
    | .ok (_, hm) =>
      let bad (a : Nat) (i : Instr) : Bool := !flowOk { callModule with code := callModule.code.set! a i } hm
      bad 11 ⟨.RET, 0, 0, 0⟩ && bad 9 ⟨.ID_LOCAL, 1, 0, 0⟩ && bad 14 ⟨.CLEAR_STACK, 2, 0, 0⟩ && flowOk callModule hm
    | .error _ => false) = true := by decide +kernel

/-- … and address by address (`frameOkAt`): reach below the frame / above the top, `CLEAR_STACK` count, last-call slide one too
far, `RET` at height 2, `MARK` whose return address has the wrong height -/
example : (match verifyH callModule with
    | .ok (_, hm) =>
      let ok (a : Nat) (i : Instr) : Bool := frameOkAt { callModule with code := callModule.code.set! a i } (funcStarts callModule) hm a
      !ok 9 ⟨.ID_LOCAL, 1, 0, 0⟩ && !ok 9 ⟨.ID_LOCAL, 0, 1, 0⟩ && !ok 14 ⟨.CLEAR_STACK, 2, 0, 0⟩ && !ok 23 ⟨.SLIDE, 2, 2, 0⟩ &&
      !ok 11 ⟨.RET, 0, 0, 0⟩ && !ok 0 ⟨.MARK, 4, 0, 0⟩ && ok 9 ⟨.ID_LOCAL, 0, 0, 0⟩ && ok 24 ⟨.CALL, 0, 0, 0⟩
    | .error _ => false) = true := by decide +kernel

/-- the hypotheses of the step theorems are met on a real run: three steps of M-VM from the initial machine of `callModule`
(MARK; INT; GLOBAL_VEC) pass through states at the recorded heights 5, 6, 7 -/
example : (match run callModule (fun _ => {}) 3 { Vm.new 64 32 with running := 1 } with
    | .ok v => v.ip == 3 && v.sp == v.pp + 0 + 7 && v.fp == 4 && v.running == 1
    | .error _ => false) = true := by decide +kernel

/-- the hypotheses of `verified_run_in_activation` are satisfiable on real runs: from the start machine of `callModule` the four
steps MARK; INT; GLOBAL_VEC; ID_FUNC_ADDR form a run `Inside` the activation (checked by the decidable `insideB`), and so do the four
steps of the callee's body from its entry (state after 5 steps) up to its RET -/
example : ∀ sm hm, verifyH callModule = .ok (sm, hm) →
    (∃ k v, RunsTo callModule (Inside callModule hm) k (beginExecute callModule (Vm.new 64 32)) v ∧ v.ip = 4) := by
  intro sm hm hv
  have key : (match verifyH callModule with
      | .ok (_, hm) => (match runInB callModule hm (fun _ => {}) 4 (beginExecute callModule (Vm.new 64 32)) with
                        | some v => v.ip == 4 | none => false)
      | .error _ => false) = true := by decide +kernel
  rw [hv] at key
  simp only at key
  cases hr : runInB callModule hm (fun _ => {}) 4 (beginExecute callModule (Vm.new 64 32)) with
  | none => rw [hr] at key; cases key
  | some v =>
    rw [hr] at key
    obtain ⟨k, hk⟩ := runInB_runsTo callModule hm _ 4 _ _ hr
    exact ⟨k, v, hk, by simpa using key⟩


/-! ## Calls and returns: the global invariant over whole executions

The frame records MARK pushes are followed as a ghost list beside the machine (`Rec`: position `F` of the return-address word =
`fp` after the MARK, saved `pp`, saved `fp`, return address; `ghostNext`: MARK pushes, RET / RETHROW pop, CLEAR_STACK drops the
records of calls in preparation).  The certificate records, per address, the calls in preparation (`AbsSt.marks`: the heights of
their MARKs) and re-checks (`pendOkAt`) that they are properly nested and that no instruction pops, slides or writes into their five
words; it also re-checks that the extents of every MK_INIT_ARRAY are the `INT` instructions immediately before it and that no control
transfer lands behind an `INT` (`intRun`).  `Sound md hm bot vm recs` is the global invariant: the stack array has its size; `fp` is the
innermost live record; the live records are apart (`Desc5`), hold their three words, and returning through each lands at the recorded
height of its return address with the records below it exactly as the function that pushed it will expect (`WF`); and the machine is
at the recorded height of its address, with the pending records where the certificate says and the constants of the `INT` run on
the stack (`Here`), or at a handler entry; and the heap's bookkeeping is intact (`FreeInv`, kept by every handler of every module:
Props/C09 `vm_heap_bookkeeping_invariant` — so the allocator hands every `INT` a fresh cell).  What the verifier cannot establish enters
as the per-step side condition `StepOk`, one typing matter: the function value at a CALL has the arity of its call site
(`CalleeArity`). -/

/-- **The size of the stack array is an invariant of execution** (any module, any instruction: every stack write of M-VM is in
bounds or a crash): a `step` from a machine whose stack array has the configured size ends in such a machine. -/
theorem stack_size_invariant (md : Module) (orc : Oracle) (vm vm' : Vm) (hs : StackOk vm)
    (hstep : (step md orc).run vm = .ok ((), vm')) : StackOk vm' ∧ vm'.stackSize = vm.stackSize :=
  step_keeps_stackOk md orc vm vm' hs hstep

/-- **Write footprint of the verifier's effect table** (all 198 opcodes, any machine state): the handler of an instruction to
which `simpleEffect` assigns `(pops, pushes)`, started with stack pointer `sp` and run to completion or to a raised exception, leaves
every stack slot below `sp − pops + 1` — everything under its lowest operand — exactly as it was.  (A fourth effect logic,
`NoWr`/`Foot`/`FootAt` in Lemmas/VmNoWr.lean, VmFoot*.lean, reusing the `sp` bookkeeping of `EffAt`.) -/
theorem effect_table_write_footprint (md : Module) (ins : Instr) (orc : Oracle) (p q : Nat) (h : simpleEffect ins = some (p, q))
    (vm vm' : Vm) (hr : (exec md ins orc).run vm = .ok ((), vm')) (j : Int) (hj : j < vm.sp - (p : Int) + 1) : slot vm' j = slot vm j :=
  exec_foot_table md ins orc p q h vm.sp vm () vm' rfl hr j hj

/-- **"Frame words are not overwritten" is a theorem about verified modules.**  In a verified module, from a machine at its recorded
height (`sp = pp + nparams + h(ip)`) a step on ANY instruction other than RET / RETHROW leaves every stack slot at or below
`recTop` as it was, where `recTop` is the top word of the innermost frame record of a call in preparation (`pp + nparams + m + 5` for
the innermost recorded MARK height `m`) or `pp` when no call is in preparation: the instruction's operands lie above the pending
records (`pendOkAt`), it writes nothing under its lowest operand (`effect_table_write_footprint`; MARK writes above the top; SLIDE
only what it moves; PUSH_PARAM only pushes; MK_INIT_ARRAY only its result slot — given the extents on the stack are the recorded
constants, which `Here.mk_init` provides).  Hence (`Split.le_top`) no word of any live frame record — pending, entered, or of a caller —
is touched; RET / RETHROW write exactly the lowest word of the record they pop (`ret_keeps_below`). -/
theorem verified_step_keeps_frame_records (md : Module) (orc : Oracle) (sm : Summary) (hm : HMap) (hv : verifyH md = .ok (sm, hm))
    (vm vm' : Vm) (i : Instr) (st : AbsSt) (hi : md.code[vm.ip]? = some i) (hs : hm[vm.ip]? = some (some st)) (hrun : vm.running = 1)
    (hinv : vm.sp = vm.pp + (fnParamsAt md vm.ip : Int) + (st.h : Int)) (hnot : i.op ≠ .RET ∧ i.op ≠ .RETHROW)
    (hmk : i.op = .MK_INIT_ARRAY → stackInts vm i.w0 vm.sp = initExts st i.w0)
    (hstep : (step md orc).run vm = .ok ((), vm')) :
    ∀ j, j ≤ recTop vm.pp (vm.pp + (fnParamsAt md vm.ip : Int)) st.marks → slot vm' j = slot vm j :=
  step_keeps_records (verifyH_ok md sm hm hv).2 orc vm vm' i st hi hs hrun hinv hnot hmk hstep

/-- in particular **a verified function never writes at or below its frame base `pp`**: the frame record it was entered through and
all frames of its callers are out of its reach -/
theorem verified_step_keeps_callers_frames (md : Module) (orc : Oracle) (sm : Summary) (hm : HMap) (hv : verifyH md = .ok (sm, hm))
    (vm vm' : Vm) (i : Instr) (hi : md.code[vm.ip]? = some i) (hh : AtHeight md hm vm)
    (hop : (simpleEffect i).isSome = true ∨ i.op = .MARK ∨ i.op = .SLIDE ∨ i.op = .CALL ∨ i.op = .CLEAR_STACK ∨ i.op = .JUMP)
    (hstep : (step md orc).run vm = .ok ((), vm')) : ∀ j, j ≤ vm.pp → slot vm' j = slot vm j :=
  step_keeps_below_pp (verifyH_ok md sm hm hv).2 orc vm vm' i hi hh hop hstep

/-- **The extents of MK_INIT_ARRAY over executions.**  In a state satisfying the invariant (`Here`), at a MK_INIT_ARRAY the integers
the top `dims` slots point at ARE the constants the verifier recorded: they are the operands of the `dims` `INT` instructions
immediately before it (certificate), each of which extended the run of constants on the stack (`int_extends_consts`: `INT` allocates a
fresh cell — the heap's bookkeeping invariant — and pushes it, touching no older cell), and control cannot have entered the run from
elsewhere (no jump target, return address, function or handler entry lies behind an `INT`). -/
theorem verified_mk_init_array_extents (md : Module) (sm : Summary) (hm : HMap) (hv : verifyH md = .ok (sm, hm)) (bot : Int)
    (vm : Vm) (recs : List Rec) (hh : Here md hm bot vm recs) (i : Instr) (st : AbsSt)
    (hi : md.code[vm.ip]? = some i) (hs : hm[vm.ip]? = some (some st)) (hop : i.op = .MK_INIT_ARRAY) :
    stackInts vm i.w0 vm.sp = initExts st i.w0 :=
  hh.mk_init (verifyH_ok md sm hm hv).2 hi hs hop

/-- **The arity condition is a statement about the function value alone.**  In a state satisfying the invariant, at a CALL, `fp` is
the frame record of the call in preparation (or `pp` for a last call), so the number of slots between it and the function value on
top is `callArgs md hm ip` — a number the certificate fixes per call site.  What remains to be assumed of a CALL (`CalleeArity`) is
therefore only: the function object on top holds nil or the entry address of a function with that many parameters.
WHY THIS IS A TYPING MATTER: which function value reaches a call site is decided by data flow through variables, closures, records
and arrays — the bytecode carries no types, a `func` object is just (environment, address), and `CALL` jumps to whatever address it
finds.  That every value flowing to the site `f(a₁ … aₙ)` is a function of `n` parameters is exactly what the type checker establishes
(`f : (T₁ … Tₙ) → T`; C06) and what compiling preserves (C02); the verifier, which sees one module's code and not the values, cannot.
`arityModule` (below) verifies and violates it. -/
theorem callee_arity_suffices (md : Module) (sm : Summary) (hm : HMap) (hv : verifyH md = .ok (sm, hm)) (bot : Int)
    (vm : Vm) (recs : List Rec) (i : Instr) (hi : md.code[vm.ip]? = some i) (hop : i.op = .CALL)
    (hfp : vm.fp = topF bot recs) (hh : Here md hm bot vm recs) (h : CalleeArity md hm vm) : CallOk md vm :=
  calleeArity_callOk (verifyH_ok md sm hm hv).2 hi hop hfp hh h

/-- the record a MARK pushes: `F = sp + 5`, the `pp` and `fp` of the moment, the MARK's return address -/
theorem mark_pushes_record (md : Module) (vm : Vm) (recs : List Rec) (i : Instr) (hi : md.code[vm.ip]? = some i) (hop : i.op = .MARK) :
    ghostNext md vm recs = { F := vm.sp + 5, pp := vm.pp, fp := vm.fp, ra := i.w0 } :: recs := by
  unfold ghostNext; simp only [hi, hop]

/-- **`verify_sound`, relative to the arity of function values.**  In a verified module, every run of M-VM — calls, returns, raised and
re-raised exceptions included — from a state satisfying the global invariant `Sound`, ends in a state that satisfies it again —
running at an address the verifier reached, with exactly the stack height it recorded there above the parameters of the running
function, every frame record intact, the heap's bookkeeping intact, or at a handler entry —, or the machine stopped (`running = 3`:
failed assert / unhandled exception) or halted (`running = 0`) — provided each step meets `StepOk` (`RunsG`): at a CALL the function
value has the arity of its call site (`CalleeArity`, see `callee_arity_suffices`: type soundness), and a RET / RETHROW finds a live
record (the run has not returned out of the activation it was started in).
Proved of verified modules, not assumed: frame words are not overwritten (`verified_step_keeps_frame_records`); MK_INIT_ARRAY finds the
recorded constants (`verified_mk_init_array_extents`); the allocator hands out free cells (C09 `vm_heap_bookkeeping_invariant`, for ANY
module).  PARTIAL for the arity condition only, which is checked on every replayed step (`stepOkB`). -/
theorem verify_sound_partial (md : Module) (sm : Summary) (hm : HMap) (hv : verifyH md = .ok (sm, hm)) (bot : Int)
    (n : Nat) (vm vm' : Vm) (recs recs' : List Rec) (hs : Sound md hm bot vm recs) (hr : RunsG md hm n vm recs vm' recs') :
    Sound md hm bot vm' recs' ∨ vm'.running = 3 ∨ vm'.running = 0 :=
  runsG_sound (verifyH_ok md sm hm hv).2 n vm vm' recs recs' hs hr

/-- … in particular from the machine the first `nev_execute` starts on (empty stack, no live record) -/
theorem verify_sound_from_start_partial (md : Module) (sm : Summary) (hm : HMap) (hv : verifyH md = .ok (sm, hm))
    (mem stack gcMode : Nat) (hmem : 1 ≤ mem) (n : Nat) (vm' : Vm) (recs' : List Rec)
    (hr : RunsG md hm n (beginExecute md (Vm.new mem stack gcMode)) [] vm' recs') :
    Sound md hm (-1) vm' recs' ∨ vm'.running = 3 ∨ vm'.running = 0 :=
  verify_sound_partial md sm hm hv (-1) n _ vm' [] recs' (sound_initial (verifyH_ok md sm hm hv).2 mem stack gcMode hmem) hr

/-- one step of it (any instruction) -/
theorem verify_sound_step_partial (md : Module) (orc : Oracle) (sm : Summary) (hm : HMap) (hv : verifyH md = .ok (sm, hm)) (bot : Int)
    (vm vm' : Vm) (recs : List Rec) (hs : Sound md hm bot vm recs) (hstep : (step md orc).run vm = .ok ((), vm'))
    (hok : StepOk md hm vm recs) : Sound md hm bot vm' (ghostNext md vm recs) ∨ vm'.running = 3 ∨ vm'.running = 0 :=
  Ver.step_sound (verifyH_ok md sm hm hv).2 orc vm vm' recs hs hstep hok

/-- **A call returns to its MARK with exactly its result.**  RET in a verified module, from a state satisfying the global invariant
with innermost live record `r` (pushed by the MARK executed at stack pointer `sp₀ = r.F − 5`, in a frame with `pp = r.pp`, `fp = r.fp`,
return address `r.ra`): the machine is running at `r.ra` with `sp = r.F − 4 = sp₀ + 1` — the frame record and everything above it
popped, the one result pushed —, `pp` and `fp` restored to their values at the MARK; the record is no longer live, and the invariant
holds again (in particular `sp = pp + nparams + h(r.ra)`: the recorded height of the return address). -/
theorem verified_ret_step (md : Module) (orc : Oracle) (sm : Summary) (hm : HMap) (hv : verifyH md = .ok (sm, hm)) (bot : Int)
    (vm vm' : Vm) (recs : List Rec) (i : Instr) (hi : md.code[vm.ip]? = some i) (hop : i.op = .RET)
    (hs : Sound md hm bot vm recs) (hstep : (step md orc).run vm = .ok ((), vm')) (hne : recs ≠ []) :
    ∃ r rs, recs = r :: rs ∧ vm'.ip = r.ra ∧ vm'.sp = r.F - 4 ∧ vm'.fp = r.fp ∧ vm'.pp = r.pp ∧ vm'.running = 1 ∧ Sound md hm bot vm' rs := by
  obtain ⟨⟨hso, hfp, hd, hwf, hcase⟩, hfree⟩ := hs
  have hrun : vm.running = 1 := by
    rcases hcase with h | h
    · exact h.height.1
    · exact h.1.1
  obtain ⟨h, r, rs, e1, e2, e3, e4, e5, e6, e7⟩ := sound_RET (verifyH_ok md sm hm hv).2 orc vm vm' recs i hi hop hso hfp hd hwf hrun hne hstep
  rw [e2] at h
  exact ⟨r, rs, e1, e3, e4, e5, e6, e7, h, step_keeps_freeInv md orc vm vm' hfree hstep⟩

/-- **A complete (balanced) call returns behind its MARK with exactly its result.**  Let a verified module's machine satisfy the
global invariant with live records `recs`, about to execute `MARK ra` at stack pointer `sp₀`.  After the MARK (the live records are
`r₀ :: recs`, `r₀` = the record it pushed), let the run go on in any way — arguments, nested calls, the CALL itself, the whole callee,
exceptions caught inside — (`RunsG`: the arity condition at every CALL) to a running state whose live records are again exactly
`r₀ :: recs` and whose instruction is `RET`.  Then that RET — the matching one — continues at `ra` with `sp = sp₀ + 1` (frame record,
arguments and everything the callee pushed are gone; the one result is pushed), `fp` and `pp` as they were at the MARK, and the global
invariant holds with live records `recs`: in particular `sp = pp + nparams + h(ra)`, the height the verifier recorded behind the call. -/
theorem verified_marked_call_returns (md : Module) (sm : Summary) (hm : HMap) (hv : verifyH md = .ok (sm, hm)) (bot : Int)
    (vm v1 v2 v3 : Vm) (recs : List Rec) (i j : Instr) (orc1 orc3 : Oracle) (k : Nat)
    (hs : Sound md hm bot vm recs)
    (hi : md.code[vm.ip]? = some i) (hop : i.op = .MARK)
    (hstep1 : (step md orc1).run vm = .ok ((), v1))
    (hrun : RunsG md hm k v1 ({ F := vm.sp + 5, pp := vm.pp, fp := vm.fp, ra := i.w0 } :: recs) v2 ({ F := vm.sp + 5, pp := vm.pp, fp := vm.fp, ra := i.w0 } :: recs))
    (hr2 : v2.running = 1) (hj : md.code[v2.ip]? = some j) (hret : j.op = .RET)
    (hstep3 : (step md orc3).run v2 = .ok ((), v3)) :
    v3.ip = i.w0 ∧ v3.sp = vm.sp + 1 ∧ v3.fp = vm.fp ∧ v3.pp = vm.pp ∧ v3.running = 1 ∧ Sound md hm bot v3 recs := by
  have hf := (verifyH_ok md sm hm hv).2
  have hok1 : StepOk md hm vm recs := by
    intro i' hi'
    rw [hi] at hi'
    cases hi'
    refine ⟨fun h => ?_, fun h => ?_⟩
    · rw [hop] at h; cases h
    · rcases h with h | h <;> (rw [hop] at h; cases h)
  have h1 := Ver.step_sound hf orc1 vm v1 recs hs hstep1 hok1
  rw [mark_pushes_record md vm recs i hi hop] at h1
  have hs2 : Sound md hm bot v2 ({ F := vm.sp + 5, pp := vm.pp, fp := vm.fp, ra := i.w0 } :: recs) := by
    rcases h1 with h1 | h1 | h1
    · rcases runsG_sound hf k v1 v2 _ _ h1 hrun with h | h | h
      · exact h
      · omega
      · omega
    · cases hrun with
      | zero => omega
      | succ _ hr _ _ _ => omega
    · cases hrun with
      | zero => omega
      | succ _ hr _ _ _ => omega
  obtain ⟨r, rs, e, e1, e2, e3, e4, e5, e6⟩ := verified_ret_step md orc3 sm hm hv bot v2 v3 _ j hj hret hs2 hstep3 (by simp)
  cases e
  exact ⟨e1, by rw [e2]; simp only; omega, e3, e4, e5, e6⟩

/-- the global invariant holds of the start machine of `callModule` -/
example : ∀ sm hm, verifyH callModule = .ok (sm, hm) → Sound callModule hm (-1) (beginExecute callModule (Vm.new 64 32)) [] :=
  fun sm hm hv => sound_initial (verifyH_ok callModule sm hm hv).2 64 32 0 (by decide)

/-- the certificate's record of the calls in preparation in `callModule`: between the MARK at 0 (height 0) and its CALL at 4 -/
example : (match verifyH callModule with
    | .ok (_, hm) => (hm.toList.take 9).map (fun o => o.map (·.marks)) ==
        [some [], some [0], some [0], some [0], some [0], some [], some [], some [], some []]
    | .error _ => false) = true := by decide +kernel

/-- a whole run of `callModule` — MARK, the argument, the function value, CALL into `f`, `x + 1`, RET back behind the CALL, HALT —
ends halted with exactly the result on the stack (`sp = 0`), `fp = pp = −1` restored; inside the callee (5 steps) `pp = fp = 4` (the
record), `sp = pp + 1`; between the entry of `f` and its RET (9 steps) the slots 0 … 4 of the record are untouched -/
example : (match run callModule (fun _ => {}) 11 (beginExecute callModule (Vm.new 64 32)),
                 run callModule (fun _ => {}) 5 (beginExecute callModule (Vm.new 64 32)),
                 run callModule (fun _ => {}) 9 (beginExecute callModule (Vm.new 64 32)) with
    | .ok v, .ok a, .ok b =>
      v.running == 0 && v.ip == 6 && v.sp == 0 && v.fp == -1 && v.pp == -1 &&
      a.running == 1 && a.ip == 8 && a.pp == 4 && a.fp == 4 && a.sp == a.pp + 1 + 0 &&
      b.pp == 4 && b.ip == 12 && (List.range 5).all (fun j => slot b j == slot a j) && slot b 6 != slot a 6
    | _, _, _ => false) = true := by decide +kernel

/-- **the side conditions `StepOk` are satisfiable on a run with a call and a return**: the whole run of `callModule` from its start
machine to HALT (11 steps) is a `RunsG` run — every step meets the side conditions (checked by the decidable `stepOkB`, sound by
`stepOkB_sound`) —, so `verify_sound_partial` applies to it -/
example : ∀ sm hm, verifyH callModule = .ok (sm, hm) →
    ∃ k vm' recs', RunsG callModule hm k (beginExecute callModule (Vm.new 64 32)) [] vm' recs' ∧ vm'.running = 0 ∧ recs' = [] := by
  intro sm hm hv
  have key : (match verifyH callModule with
      | .ok (_, hm) =>
        (match runGB callModule hm (fun _ => {}) 11 (beginExecute callModule (Vm.new 64 32)) [] with
         | some (v, rs) => v.running == 0 && rs.isEmpty
         | none => false)
      | .error _ => false) = true := by decide +kernel
  rw [hv] at key
  simp only at key
  cases hr : runGB callModule hm (fun _ => {}) 11 (beginExecute callModule (Vm.new 64 32)) [] with
  | none => rw [hr] at key; cases key
  | some p =>
    obtain ⟨v, rs⟩ := p
    rw [hr] at key
    simp only [Bool.and_eq_true, beq_iff_eq, List.isEmpty_iff] at key
    obtain ⟨k, hk⟩ := runGB_runsG callModule hm _ 11 _ _ _ _ hr
    exact ⟨k, v, rs, hk, key.1, key.2⟩

/-- **the arity side condition is needed** (the verifier cannot know it: function values are dynamic).  `arityModule` is `callModule`
with a second argument pushed for the one-parameter function `f`.  It verifies — every height, every pending record re-checks; the
call site passes `callArgs = 2` —, but its run enters `f`, a function of 1 parameter, with `sp = pp + 2`: one slot above the recorded
height 0 of the entry.  `stepOkB` refuses exactly the CALL (step 5).  In the language this is excluded by the type checker (C06), not
by the bytecode verifier. -/
def arityModule : Module := { callModule with
  code := #[⟨.MARK, 6, 0, 0⟩, ⟨.INT, 7, 0, 0⟩, ⟨.INT, 9, 0, 0⟩, ⟨.GLOBAL_VEC, 0, 0, 0⟩, ⟨.ID_FUNC_ADDR, 9, 0, 0⟩, ⟨.CALL, 0, 0, 0⟩, ⟨.HALT, 0, 0, 0⟩,
            ⟨.LABEL, 0, 0, 0⟩, ⟨.UNHANDLED_EXCEPTION, 0, 0, 0⟩,
            ⟨.FUNC_DEF, 0, 0, 0⟩, ⟨.ID_LOCAL, 0, 0, 0⟩, ⟨.INT, 1, 0, 0⟩, ⟨.OP_ADD_INT, 0, 0, 0⟩, ⟨.RET, 0, 0, 0⟩,
            ⟨.LABEL, 0, 0, 0⟩, ⟨.RETHROW, 0, 0, 0⟩],
  exctab := #[⟨0, 7⟩, ⟨9, 14⟩, ⟨4294967295, 0⟩], excCount := 2, entryAddr := 9, fnParams := [(9, 1)] }

example : (match verifyH arityModule with
    | .ok (_, hm) =>
      callArgs arityModule hm 5 == 2 && fnParamsAt arityModule 9 == 1 &&
      (runGB arityModule hm (fun _ => {}) 12 (beginExecute arityModule (Vm.new 64 32)) []).isNone &&
      (runGB arityModule hm (fun _ => {}) 5 (beginExecute arityModule (Vm.new 64 32)) []).isSome &&
      (match run arityModule (fun _ => {}) 6 (beginExecute arityModule (Vm.new 64 32)) with
       | .ok v => v.ip == 9 && (hm[9]?.map (·.map (·.h))) == some (some 0) && v.sp == v.pp + 1 + 0 + 1
       | .error _ => false)
    | .error _ => false) = true := by decide +kernel

/-- **calls in preparation are protected by the certificate.**  `slideModule` — `MARK`, one value, then an ordinary `SLIDE 5 1`
(`q + m = 6 ≤ h = 6`) that would move the value down over the five frame words MARK has just pushed, then the function value and the
CALL — passed the verifier before the pending-record discipline (every height re-checks) although its SLIDE overwrites the saved-`pp`
word of a live record.  It is now REJECTED: the SLIDE reaches below the top word of the pending record (`pendFloor + q + m ≤ h` fails:
`5 + 6 > 6`).  The same code with the value slid only over itself (`SLIDE 0 1`) is accepted. -/
def slideModule : Module := { callModule with
  code := #[⟨.MARK, 6, 0, 0⟩, ⟨.INT, 1, 0, 0⟩, ⟨.SLIDE, 5, 1, 0⟩, ⟨.GLOBAL_VEC, 0, 0, 0⟩, ⟨.ID_FUNC_ADDR, 9, 0, 0⟩, ⟨.CALL, 0, 0, 0⟩, ⟨.HALT, 0, 0, 0⟩,
            ⟨.LABEL, 0, 0, 0⟩, ⟨.UNHANDLED_EXCEPTION, 0, 0, 0⟩,
            ⟨.FUNC_DEF, 0, 0, 0⟩, ⟨.ID_LOCAL, 0, 0, 0⟩, ⟨.RET, 0, 0, 0⟩, ⟨.LABEL, 0, 0, 0⟩, ⟨.RETHROW, 0, 0, 0⟩],
  exctab := #[⟨0, 7⟩, ⟨9, 12⟩, ⟨4294967295, 0⟩], excCount := 2, entryAddr := 9, fnParams := [(9, 1)] }

example : (match verifyH slideModule, verifyCore slideModule with
    | .error _, .ok (_, hm) =>
      -- the heights alone re-check; the pending-record re-check fails at the SLIDE (address 2) and behind it, where the record is still
      -- recorded as pending although the height has dropped below it
      (List.range 14).all (fun a => flowOkAt slideModule hm a && frameOkAt slideModule (funcStarts slideModule) hm a) &&
      !pendOkAt slideModule hm 2 && ((List.range 14).filter (fun a => !pendOkAt slideModule hm a)) == [2, 3, 4, 5]
    | _, _ => false) = true := by decide +kernel

/-- **MK_INIT_ARRAY**: `arrModule` builds `[7, 8, 9]` (elements, the extent `INT 3`, `MK_INIT_ARRAY 1`) in a function called from the
entry stub.  It verifies, the extents recorded at address 14 are the `INT` run before it, and its whole run meets the side conditions
(and, re-validated though proved: every `INT` gets a free cell, the extents on the stack are the recorded ones).  With a
`LABEL` between the extent and MK_INIT_ARRAY (the extent no longer immediately before) it is rejected. -/
def arrModule : Module := { callModule with
  code := #[⟨.MARK, 4, 0, 0⟩, ⟨.GLOBAL_VEC, 0, 0, 0⟩, ⟨.ID_FUNC_ADDR, 7, 0, 0⟩, ⟨.CALL, 0, 0, 0⟩, ⟨.HALT, 0, 0, 0⟩,
            ⟨.LABEL, 0, 0, 0⟩, ⟨.UNHANDLED_EXCEPTION, 0, 0, 0⟩,
            ⟨.FUNC_DEF, 0, 0, 0⟩, ⟨.LINE, 1, 0, 0⟩, ⟨.LINE, 1, 0, 0⟩, ⟨.INT, 9, 0, 0⟩, ⟨.INT, 8, 0, 0⟩, ⟨.INT, 7, 0, 0⟩, ⟨.INT, 3, 0, 0⟩,
            ⟨.MK_INIT_ARRAY, 1, 0, 0⟩, ⟨.RET, 0, 0, 0⟩, ⟨.LABEL, 0, 0, 0⟩, ⟨.RETHROW, 0, 0, 0⟩],
  exctab := #[⟨0, 5⟩, ⟨7, 16⟩, ⟨4294967295, 0⟩], excCount := 2, entryAddr := 7, fnParams := [(7, 0)] }

example : (match verifyH arrModule with
    | .ok (_, hm) =>
      intRun arrModule 14 == [3, 7, 8, 9] && (hm[14]?.map (·.map (fun st => initExts st 1))) == some (some (some [3])) &&
      (match runGB arrModule hm (fun _ => {}) 14 (beginExecute arrModule (Vm.new 64 32)) [] with
       | some (v, rs) => v.running == 0 && rs.isEmpty && v.sp == 0
       | none => false)
    | .error _ => false) = true := by decide +kernel

example : (match verifyH { arrModule with code := (arrModule.code.set! 9 ⟨.INT, 3, 0, 0⟩).set! 13 ⟨.LABEL, 0, 0, 0⟩ } with
    | .error _ => true | .ok _ => false) = true := by decide +kernel

end Never.C07
