import NeverModel.Model.Verify
import NeverModel.Props.C03
import NeverModel.Lemmas.VmEffect
import NeverModel.Lemmas.VmEffectSound
import NeverModel.Lemmas.VmIpSound
/-!
# C07 — emitted code is well-formed on every path, executed or not

`Ver.verify` (Model/Verify.lean) is the per-module certificate checker run on every module the real
compiler emits (checks/c07.py).  Theorems here connect a successful verification with the rest of
the development.  A full `verify_sound` (every execution of M-VM on a verified module keeps
`sp = pp + nparams + h(ip)` and stays inside its frame) has NOT been completed; what is proved is its
per-instruction half for EVERY opcode of the verifier's table (`simple_effect_sound`): the (pops, pushes) pair
the verifier uses is what the M-VM handler does to `sp`, on every machine state.  The frame opcodes outside the
table (MARK, CALL, SLIDE, RET, CLEAR_STACK …) have their own exact specifications in Lemmas/Frame.lean; the
global induction over executions that would combine the two is checked dynamically instead (checks/c07.py compares
`sp - pp - nparams` with `h(ip)` before every executed instruction of every program it runs).
-/
namespace Never.C07
open Never Never.Vm Never.Ver

/-- a verified module has a well-formed exception table -/
theorem verify_ok_iff (md : Module) (s : Summary) (h : verify md = .ok s) : ∃ hm, verifyH md = .ok (s, hm) := by
  unfold verify at h
  cases hv : verifyH md with
  | error e => rw [hv] at h; cases h
  | ok p => rw [hv] at h; obtain ⟨s', hm⟩ := p; simp [Except.map] at h; subst h; exact ⟨hm, rfl⟩

theorem verifyH_ok (md : Module) (s : Summary) (hm : HMap) (h : verifyH md = .ok (s, hm)) :
    verifyCore md = .ok (s, hm) ∧ flowOk md hm = true := by
  unfold verifyH at h
  cases hc : verifyCore md with
  | error e => rw [hc] at h; cases h
  | ok p =>
    obtain ⟨s', hm'⟩ := p
    rw [hc] at h
    dsimp only at h
    by_cases hf : flowOk md hm' = true
    · simp only [hf, if_true, Except.ok.injEq, Prod.mk.injEq] at h
      obtain ⟨rfl, rfl⟩ := h; exact ⟨rfl, hf⟩
    · simp [hf] at h

theorem verified_table_wellformed (md : Module) (s : Summary) (h : verify md = .ok s) :
    ExcWF md.exctab md.excCount = true := by
  obtain ⟨hm, h⟩ := verify_ok_iff md s h
  obtain ⟨h, _⟩ := verifyH_ok md s hm h
  unfold verifyCore at h
  simp only [bind, Except.bind] at h
  split at h
  · cases h
  · split at h
    · cases h
    · rename_i hwf
      simpa using hwf

/-- hence in a verified module every fault address (below the sentinel) has exactly one handler:
the `assert(res != NULL)` of `exception_tab_search` cannot fire and the lookup stays in bounds -/
theorem verified_every_fault_has_handler (md : Module) (s : Summary) (h : verify md = .ok s)
    (ip : Nat) (hip : ip < 4294967295) : (excHandler md.exctab md.excCount ip).isSome = true := by
  have hwf := verified_table_wellformed md s h
  obtain ⟨i, e1, e2, _, _, _, _, _, hh⟩ := C03.exctab_search_correct md.exctab md.excCount ip hwf hip
  simp [hh]

/-- a verified module is not empty -/
theorem verified_nonempty (md : Module) (s : Summary) (h : verify md = .ok s) : md.code.size ≠ 0 := by
  obtain ⟨hm, h⟩ := verify_ok_iff md s h
  obtain ⟨h, _⟩ := verifyH_ok md s hm h
  unfold verifyCore at h
  simp only [bind, Except.bind] at h
  split at h
  · cases h
  · rename_i hn; simpa using hn

/-- the opcodes of the three typed arithmetic families (binary, unary, conversion) -/
def isArith (op : Opc) : Bool := (binOpOf op).isSome || (unOpOf op).isSome || (convOf op).isSome

/-- **Soundness of the verifier's stack-effect table on the arithmetic families.**  For every opcode of
the typed binary / unary / conversion families (`isArith`; counted below) the verifier's `simpleEffect`
is defined, and on *every* machine state on which the M-VM handler of that instruction completes, the
frame registers and the stack size are untouched and `sp` moves by exactly `pushes - pops`, or the
handler raised an exception (running = 2, `sp` unchanged: the exception path then resets the stack). -/
theorem simple_effect_sound_arith (md : Module) (ins : Instr) (orc : Oracle) (ha : isArith ins.op = true) :
    ∃ p q, simpleEffect ins = some (p, q) ∧
      ∀ vm vm', (exec md ins orc).run vm = .ok ((), vm') →
        vm'.fp = vm.fp ∧ vm'.pp = vm.pp ∧ vm'.stackSize = vm.stackSize ∧
        (vm'.sp = vm.sp - (p : Int) + (q : Int) ∨ (vm'.sp = vm.sp ∧ vm'.running = 2)) := by
  unfold isArith at ha
  cases hb : binOpOf ins.op with
  | some tb =>
    obtain ⟨ty, bop⟩ := tb
    refine ⟨2, 1, by simp [simpleEffect, hb], ?_⟩
    intro vm vm' h
    rw [exec_bin md ins orc ty bop hb] at h
    obtain ⟨a, b, c, d⟩ := execBin_effect ty bop vm vm' h
    refine ⟨a, b, c, ?_⟩
    rcases d with d | d
    · left; omega
    · right; exact d
  | none =>
    cases hu : unOpOf ins.op with
    | some tu =>
      obtain ⟨ty, uop⟩ := tu
      refine ⟨1, 1, by simp [simpleEffect, hb, hu], ?_⟩
      intro vm vm' h
      rw [exec_un md ins orc ty uop hb hu] at h
      obtain ⟨a, b, c, d⟩ := execUn_effect ty uop vm vm' h
      refine ⟨a, b, c, ?_⟩
      rcases d with d | d
      · left; omega
      · right; exact d
    | none =>
      cases hc : convOf ins.op with
      | some tc =>
        obtain ⟨src, dst⟩ := tc
        refine ⟨1, 1, by simp [simpleEffect, hb, hu, hc], ?_⟩
        intro vm vm' h
        rw [exec_conv md ins orc src dst hb hu hc] at h
        obtain ⟨a, b, c, d⟩ := execConv_effect src dst vm vm' h
        refine ⟨a, b, c, ?_⟩
        rcases d with d | d
        · left; omega
        · right; exact d
      | none => simp [hb, hu, hc] at ha

/-- **Soundness of the verifier's whole stack-effect table** (proved in Lemmas/VmEffectSound.lean, restated here):
for every instruction to which `Ver.simpleEffect` assigns `(pops, pushes)`, the M-VM handler started on any machine
state with `sp = s` and run to completion leaves `fp`, `pp` and the stack size alone and ends with
`sp = s + pushes - pops`, or with an exception raised (the handler entered next resets `sp` from the frame), or
stopped in `VM_ERROR` (failed `assert`).  The attempt to prove this found the defect repaired by d4916ed
(`c_string_ptr` popped its operand). -/
theorem simple_effect_sound (md : Module) (ins : Instr) (orc : Oracle) (p q : Nat) (h : simpleEffect ins = some (p, q)) (s : Int) :
    ∀ vm a vm', vm.sp = s → (exec md ins orc).run vm = .ok (a, vm') →
      vm'.fp = vm.fp ∧ vm'.pp = vm.pp ∧ vm'.stackSize = vm.stackSize ∧
      (vm'.sp = s + ((q : Int) - (p : Int)) ∨ vm'.running = 2 ∨ vm'.running = 3) :=
  Vm.simple_effect_sound md ins orc p q h s

/-- the table is defined on 198 of the 222 opcodes (operand 1); the rest are the frame opcodes of Lemmas/Frame.lean,
MK_INIT_ARRAY (handled with constant propagation), JUMP, the FFI opcodes and the placeholders -/
example : (Opc.all.toList.filter fun op => (simpleEffect { op := op, w0 := 1, w1 := 0, w2 := 0 }).isSome).length = 198 := by decide +kernel

/-- **The height map of a verified module is flow-consistent**: at every reached address that holds an instruction of
the effect table (any except `JUMPZ`), the operands exist and the height recorded for the next address is
`h − pops + pushes`. (From the certificate re-check `flowOk` that `verifyH` applies to its own result.) -/
theorem verified_flow (md : Module) (sm : Summary) (hm : HMap) (hv : verifyH md = .ok (sm, hm))
    (a : Nat) (i : Instr) (st : AbsSt) (p q : Nat)
    (hi : md.code[a]? = some i) (hs : hm[a]? = some (some st)) (he : simpleEffect i = some (p, q)) (hj : i.op ≠ .JUMPZ) :
    ∃ st', hm[a + 1]? = some (some st') ∧ p ≤ st.h ∧ st'.h + p = st.h + q := by
  obtain ⟨_, hf⟩ := verifyH_ok md sm hm hv
  unfold flowOk at hf
  have ha : a < md.code.size := by
    rcases Nat.lt_or_ge a md.code.size with h | h
    · exact h
    · rw [Array.getElem?_eq_none (by omega)] at hi; cases hi
  have := (List.all_eq_true.mp hf) a (List.mem_range.mpr ha)
  unfold flowOkAt at this
  simp only [hi, hs, he] at this
  have hj' : (i.op == Opc.JUMPZ) = false := by simpa using hj
  simp only [hj'] at this
  cases hn : hm[a + 1]? with
  | none => simp [hn] at this
  | some o =>
    cases o with
    | none => simp [hn] at this
    | some st' =>
      simp [hn] at this
      exact ⟨st', rfl, this.1, this.2⟩

/-- **A verified module runs at the verified heights, instruction by instruction.**  Let the machine be running at an
address `a` of a verified module that holds an instruction of the effect table (not `JUMPZ`), with
`sp = base + h(a)` for the height `h(a)` the verifier recorded (`base` = `pp + nparams` of the running function). After one
`step`: the frame registers are unchanged and either the machine is running at `a + 1` with `sp = base + h(a + 1)` — the
recorded height of that address —, or an exception was raised and control is at the handler the (well-formed) exception
table assigns to `a`, or the machine stopped in VM_ERROR. -/
theorem verified_step_keeps_height (md : Module) (orc : Oracle) (sm : Summary) (hm : HMap) (hv : verifyH md = .ok (sm, hm))
    (vm vm' : Vm) (i : Instr) (st : AbsSt) (p q : Nat) (base : Int)
    (hi : md.code[vm.ip]? = some i) (hs : hm[vm.ip]? = some (some st)) (he : simpleEffect i = some (p, q)) (hj : i.op ≠ .JUMPZ)
    (hrun : vm.running = 1) (hinv : vm.sp = base + (st.h : Int))
    (hstep : (step md orc).run vm = .ok ((), vm')) :
    vm'.fp = vm.fp ∧ vm'.pp = vm.pp ∧ vm'.stackSize = vm.stackSize ∧
    ((vm'.running = 1 ∧ vm'.ip = vm.ip + 1 ∧ ∃ st', hm[vm'.ip]? = some (some st') ∧ vm'.sp = base + (st'.h : Int)) ∨
     (vm'.running = 1 ∧ excHandler md.exctab md.excCount vm.ip = some vm'.ip) ∨
     vm'.running = 3) := by
  obtain ⟨st', h1, h2, h3⟩ := verified_flow md sm hm hv vm.ip i st p q hi hs he hj
  obtain ⟨a1, a2, a3, a4⟩ := step_table md orc vm vm' i p q hi hrun he hj hstep
  refine ⟨a1, a2, a3, ?_⟩
  rcases a4 with ⟨r, hip, hsp⟩ | a4 | a4
  · left
    refine ⟨r, hip, st', by rw [hip]; exact h1, ?_⟩
    omega
  · right; left; exact a4
  · right; right; exact a4

/-- flow consistency at the two branch instructions: both successors of `JUMPZ` carry `h − 1`, the target of `JUMP` carries `h` -/
theorem verified_flow_branch (md : Module) (sm : Summary) (hm : HMap) (hv : verifyH md = .ok (sm, hm))
    (a : Nat) (i : Instr) (st : AbsSt) (hi : md.code[a]? = some i) (hs : hm[a]? = some (some st)) :
    (i.op = .JUMPZ → 1 ≤ st.h ∧ (∃ s1, hm[a + 1]? = some (some s1) ∧ s1.h + 1 = st.h) ∧
        (∃ s2, hm[((a : Int) + 1 + i32 i.w0).toNat]? = some (some s2) ∧ s2.h + 1 = st.h)) ∧
    (i.op = .JUMP → ∃ s2, hm[((a : Int) + 1 + i32 i.w0).toNat]? = some (some s2) ∧ s2.h = st.h) := by
  obtain ⟨_, hf⟩ := verifyH_ok md sm hm hv
  unfold flowOk at hf
  have ha : a < md.code.size := by
    rcases Nat.lt_or_ge a md.code.size with h | h
    · exact h
    · rw [Array.getElem?_eq_none (by omega)] at hi; cases hi
  have key := (List.all_eq_true.mp hf) a (List.mem_range.mpr ha)
  unfold flowOkAt at key
  simp only [hi, hs] at key
  constructor
  · intro hop
    have he : simpleEffect i = some (1, 0) := by simp [simpleEffect, hop, binOpOf, unOpOf, convOf, nilCmpOf, strAddOf, arrOpOf, mkArrayElem]
    simp only [he, hop, beq_self_eq_true, if_true, Bool.and_eq_true] at key
    obtain ⟨k1, k2⟩ := key
    cases hn : hm[a + 1]? with
    | none => simp [hn] at k1
    | some o =>
      cases o with
      | none => simp [hn] at k1
      | some s1 =>
        simp [hn] at k1
        cases ht : hm[((a : Int) + 1 + i32 i.w0).toNat]? with
        | none => simp [ht] at k2
        | some o2 =>
          cases o2 with
          | none => simp [ht] at k2
          | some s2 =>
            simp [ht] at k2
            exact ⟨k1.1, ⟨s1, rfl, by omega⟩, ⟨s2, rfl, by omega⟩⟩
  · intro hop
    have he : simpleEffect i = none := by simp [simpleEffect, hop, binOpOf, unOpOf, convOf, nilCmpOf, strAddOf, arrOpOf, mkArrayElem]
    simp only [he, hop, beq_self_eq_true, if_true] at key
    cases ht : hm[((a : Int) + 1 + i32 i.w0).toNat]? with
    | none => simp [ht] at key
    | some o2 =>
      cases o2 with
      | none => simp [ht] at key
      | some s2 =>
        simp [ht] at key
        exact ⟨s2, rfl, key⟩

/-- the branch instructions of a verified module also run at the verified heights: after one `step` on `JUMPZ` / `JUMP` the
machine is running at one of the successors the verifier followed, with `sp = base + h(successor)` -/
theorem verified_branch_keeps_height (md : Module) (orc : Oracle) (sm : Summary) (hm : HMap) (hv : verifyH md = .ok (sm, hm))
    (vm vm' : Vm) (i : Instr) (st : AbsSt) (base : Int)
    (hi : md.code[vm.ip]? = some i) (hs : hm[vm.ip]? = some (some st)) (hop : i.op = .JUMPZ ∨ i.op = .JUMP)
    (hrun : vm.running = 1) (hinv : vm.sp = base + (st.h : Int))
    (hstep : (step md orc).run vm = .ok ((), vm')) :
    vm'.fp = vm.fp ∧ vm'.pp = vm.pp ∧ vm'.stackSize = vm.stackSize ∧ vm'.running = 1 ∧
    ∃ st', hm[vm'.ip]? = some (some st') ∧ vm'.sp = base + (st'.h : Int) := by
  obtain ⟨fz, fj⟩ := verified_flow_branch md sm hm hv vm.ip i st hi hs
  obtain ⟨a1, a2, a3, a4, a5⟩ := step_branch md orc vm vm' i hi hrun hop hstep
  refine ⟨a1, a2, a3, a4, ?_⟩
  rcases a5 with ⟨hz, hsp, hip⟩ | ⟨hjmp, hsp, hip⟩
  · obtain ⟨h1, ⟨s1, e1, r1⟩, ⟨s2, e2, r2⟩⟩ := fz hz
    rcases hip with hip | hip
    · exact ⟨s1, by rw [hip]; exact e1, by omega⟩
    · exact ⟨s2, by rw [hip]; exact e2, by omega⟩
  · obtain ⟨s2, e2, r2⟩ := fj hjmp
    exact ⟨s2, by rw [hip]; exact e2, by omega⟩

/-- a module that verifies (`7 + 5` and HALT, one catch-all handler): the hypotheses of `verified_step_keeps_height` are met
at address 2, where `OP_ADD_INT` runs at the recorded height 2 and leaves height 1 -/
def tinyModule : Module := { code := #[⟨.INT, 7, 0, 0⟩, ⟨.INT, 5, 0, 0⟩, ⟨.OP_ADD_INT, 0, 0, 0⟩, ⟨.HALT, 0, 0, 0⟩, ⟨.UNHANDLED_EXCEPTION, 0, 0, 0⟩], strtab := #[], exctab := #[⟨0, 4⟩, ⟨4294967295, 0⟩], excCount := 1, codeEntry := 0, entryAddr := 0, params := [] }
example : (match verifyH tinyModule with
    | .ok (_, hm) => (hm.toList.map fun o => o.map (·.h)) == [some 0, some 1, some 2, some 1, some 0]
    | .error _ => false) = true := by decide +kernel

/-- how many opcodes that theorem covers (of `Opc.all`) — not vacuous -/
example : (Opc.all.toList.filter isArith).length = 77 := by decide +kernel

end Never.C07
