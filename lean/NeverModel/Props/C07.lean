import NeverModel.Model.Verify
namespace Never.C07
end Never.C07
