import NeverModel.Model.Verify
import NeverModel.Props.C03
import NeverModel.Lemmas.VmEffect
/-!
# C07 — emitted code is well-formed on every path, executed or not

`Ver.verify` (Model/Verify.lean) is the per-module certificate checker run on every module the real
compiler emits (checks/c07.py).  Theorems here connect a successful verification with the rest of
the development.  A full `verify_sound` (every execution of M-VM on a verified module keeps
`sp = fp + nparams + h(ip)` and stays inside its frame) has NOT been completed; what is proved is the
per-instruction half of it for the arithmetic families (`simple_effect_sound_arith`): the (pops, pushes)
pair the verifier uses for those opcodes is what the M-VM handler does to `sp`, on every machine state.
-/
namespace Never.C07
open Never Never.Vm Never.Ver

/-- a verified module has a well-formed exception table -/
theorem verified_table_wellformed (md : Module) (s : Summary) (h : verify md = .ok s) :
    ExcWF md.exctab md.excCount = true := by
  unfold verify at h
  simp only [bind, Except.bind] at h
  split at h
  · cases h
  · split at h
    · cases h
    · rename_i hwf
      simpa using hwf

/-- hence in a verified module every fault address (below the sentinel) has exactly one handler:
the `assert(res != NULL)` of `exception_tab_search` cannot fire and the lookup stays in bounds -/
theorem verified_every_fault_has_handler (md : Module) (s : Summary) (h : verify md = .ok s)
    (ip : Nat) (hip : ip < 4294967295) : (excHandler md.exctab md.excCount ip).isSome = true := by
  have hwf := verified_table_wellformed md s h
  obtain ⟨i, e1, e2, _, _, _, _, _, hh⟩ := C03.exctab_search_correct md.exctab md.excCount ip hwf hip
  simp [hh]

/-- a verified module is not empty -/
theorem verified_nonempty (md : Module) (s : Summary) (h : verify md = .ok s) : md.code.size ≠ 0 := by
  unfold verify at h
  simp only [bind, Except.bind] at h
  split at h
  · cases h
  · rename_i hn; simpa using hn

/-- the opcodes of the three typed arithmetic families (binary, unary, conversion) -/
def isArith (op : Opc) : Bool := (binOpOf op).isSome || (unOpOf op).isSome || (convOf op).isSome

/-- **Soundness of the verifier's stack-effect table on the arithmetic families.**  For every opcode of
the typed binary / unary / conversion families (`isArith`; counted below) the verifier's `simpleEffect`
is defined, and on *every* machine state on which the M-VM handler of that instruction completes, the
frame registers and the stack size are untouched and `sp` moves by exactly `pushes - pops`, or the
handler raised an exception (running = 2, `sp` unchanged: the exception path then resets the stack). -/
theorem simple_effect_sound_arith (md : Module) (ins : Instr) (orc : Oracle) (ha : isArith ins.op = true) :
    ∃ p q, simpleEffect ins = some (p, q) ∧
      ∀ vm vm', (exec md ins orc).run vm = .ok ((), vm') →
        vm'.fp = vm.fp ∧ vm'.pp = vm.pp ∧ vm'.stackSize = vm.stackSize ∧
        (vm'.sp = vm.sp - (p : Int) + (q : Int) ∨ (vm'.sp = vm.sp ∧ vm'.running = 2)) := by
  unfold isArith at ha
  cases hb : binOpOf ins.op with
  | some tb =>
    obtain ⟨ty, bop⟩ := tb
    refine ⟨2, 1, by simp [simpleEffect, hb], ?_⟩
    intro vm vm' h
    rw [exec_bin md ins orc ty bop hb] at h
    obtain ⟨a, b, c, d⟩ := execBin_effect ty bop vm vm' h
    refine ⟨a, b, c, ?_⟩
    rcases d with d | d
    · left; omega
    · right; exact d
  | none =>
    cases hu : unOpOf ins.op with
    | some tu =>
      obtain ⟨ty, uop⟩ := tu
      refine ⟨1, 1, by simp [simpleEffect, hb, hu], ?_⟩
      intro vm vm' h
      rw [exec_un md ins orc ty uop hb hu] at h
      obtain ⟨a, b, c, d⟩ := execUn_effect ty uop vm vm' h
      refine ⟨a, b, c, ?_⟩
      rcases d with d | d
      · left; omega
      · right; exact d
    | none =>
      cases hc : convOf ins.op with
      | some tc =>
        obtain ⟨src, dst⟩ := tc
        refine ⟨1, 1, by simp [simpleEffect, hb, hu, hc], ?_⟩
        intro vm vm' h
        rw [exec_conv md ins orc src dst hb hu hc] at h
        obtain ⟨a, b, c, d⟩ := execConv_effect src dst vm vm' h
        refine ⟨a, b, c, ?_⟩
        rcases d with d | d
        · left; omega
        · right; exact d
      | none => simp [hb, hu, hc] at ha

/-- how many opcodes that theorem covers (of `Opc.all`) — not vacuous -/
example : (Opc.all.toList.filter isArith).length = 77 := by decide +kernel

end Never.C07
