import NeverModel.Props.C16
/-!
# C16 — what the *pinned* tree gets wrong (counterexamples)

These theorems hold because front/parser.y of the pinned tree lacks three destructors.
They are kept apart from `Props/C16.lean`: when parser.y is repaired they stop being true
(the check then reports "repaired", not a violation), while every theorem of
`Props/C16.lean` stays true.
-/
namespace Never.C16
open Never Never.ParserTab

/-- names of the rows that violate the full-strength statement -/
def failing (t : List Sym) : List String :=
  (t.filter fun s => s.ownsHeap && !s.handedOut && !releases s).map (·.name)

/-- the failing rows of the current table, exactly -/
theorem destructor_table_failing_rows : failing syms = ["param_decl", "param_seq", "except"] := by
  decide +kernel

/-- **`destructor_table_complete` is false on the pinned tree** (witness: `param_seq`, whose
value is a `param_list *` built by `param_list_new` and which bison does discard) -/
theorem destructor_table_counterexample : ¬ Complete syms := by
  intro h
  have hall : syms.all (fun s => !s.ownsHeap || s.handedOut || releases s) = true := by
    apply List.all_eq_true.mpr
    intro s hs
    cases ho : s.ownsHeap <;> cases hh : s.handedOut <;> simp
    exact h s hs ho hh
  have : syms.all (fun s => !s.ownsHeap || s.handedOut || releases s) = false := by decide +kernel
  rw [this] at hall; cases hall

/-- of the three, bison can discard only `param_seq`; `param_decl` and `except` are
latent (never on the stack when an error is detected) -/
theorem failing_rows_discardable :
    (syms.filter fun s => s.ownsHeap && !s.handedOut && !releases s && s.discardable).map (·.name) = ["param_seq"] := by
  decide +kernel

end Never.C16
