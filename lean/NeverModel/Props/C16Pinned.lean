import NeverModel.Props.C16
/-!
# C16 — what the tree still gets wrong in its destructor table (counterexamples)

The pinned front/parser.y lacked three destructors (`param_decl`, `param_seq`, `except`).  The `fix:` commit
adb6ca8 added the one that mattered (`param_seq`, the only one of the three bison can discard); the other two
rows remain and are latent.  These theorems are kept apart from `Props/C16.lean`: when parser.y is repaired
further they stop being true (the check then reports "repaired", not a violation), while every theorem of
`Props/C16.lean` stays true.
-/
namespace Never.C16
open Never Never.ParserTab

/-- names of the rows that violate the full-strength statement -/
def failing (t : List Sym) : List String :=
  (t.filter fun s => s.ownsHeap && !s.handedOut && !releases s).map (·.name)

/-- the failing rows of the current table, exactly -/
theorem destructor_table_failing_rows : failing syms = ["param_decl", "except"] := by
  decide +kernel

/-- `destructor_table_complete` (every heap-owning symbol has a destructor) is still false: `param_decl` and
`except` have none — but neither can be on bison's stack when an error is detected (`failing_rows_discardable`) -/
theorem destructor_table_counterexample : ¬ Complete syms := by
  intro h
  have hall : syms.all (fun s => !s.ownsHeap || s.handedOut || releases s) = true := by
    apply List.all_eq_true.mpr
    intro s hs
    cases ho : s.ownsHeap <;> cases hh : s.handedOut <;> simp
    exact h s hs ho hh
  have : syms.all (fun s => !s.ownsHeap || s.handedOut || releases s) = false := by decide +kernel
  rw [this] at hall; cases hall

/-- none of the remaining rows can be discarded by bison: `param_decl` and `except` are latent
(never on the stack when an error is detected); `param_seq`, which could, was repaired -/
theorem failing_rows_discardable :
    (syms.filter fun s => s.ownsHeap && !s.handedOut && !releases s && s.discardable).map (·.name) = [] := by
  decide +kernel

/-! ## constructors (ownership table, `Gen/OwnTab.lean`) -/
open Never.Gen.OwnTab in
/-- full-strength statement "no constructor stores through a pointer member of the node it has just allocated unless it set
that member first" is false in the current tree: `object_new_string_arr` (back/object.c) writes `obj->string_arr_value->argc`
/ `->argv` with `string_arr_value` never set.  The function has no caller (latent).  One row, exactly. -/
theorem constructor_stores_through_unset_member : wildStores.length = 1 := by decide +kernel

end Never.C16
