namespace Drv

def words (line : String) : List String :=
  (line.trimAscii.toString.splitOn " ").filter (· ≠ "")

def joinWith (sep : String) (xs : List String) : String := sep.intercalate xs

def natList (xs : List Nat) : String := joinWith "," (xs.map toString)

def hexDigit (n : Nat) : Char := if n < 10 then Char.ofNat (48 + n) else Char.ofNat (87 + n)
def hexByte (b : UInt8) : String := String.ofList [hexDigit (b.toNat / 16), hexDigit (b.toNat % 16)]
def hexBytes (bs : List UInt8) : String := String.join (bs.map hexByte)

def unhexDigit (c : Char) : Nat :=
  if '0' ≤ c ∧ c ≤ '9' then c.toNat - 48 else if 'a' ≤ c ∧ c ≤ 'f' then c.toNat - 87 else 0
def unhex (s : String) : List UInt8 :=
  let rec go : List Char → List UInt8
    | a :: b :: r => UInt8.ofNat (unhexDigit a * 16 + unhexDigit b) :: go r
    | _ => []
  go s.toList

/-- read lines until EOF, calling `f` -/
partial def forLines {σ} (h : IO.FS.Stream) (s : σ) (f : σ → String → IO σ) : IO σ := do
  let line ← h.getLine
  if line.isEmpty then return s
  let s' ← f s line
  forLines h s' f

end Drv
