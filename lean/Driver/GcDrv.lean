import NeverModel.Model.Heap
import Driver.Util
open Never Drv

namespace GcDrv

def objRepr : Option Obj → String
  | none => "-"
  | some (.int v) => s!"I{v.toInt}"
  | some (.long v) => s!"L{v.toInt}"
  | some (.float v) => s!"F{v.toNat}"
  | some (.double v) => s!"D{v.toNat}"
  | some (.char v) => s!"C{v.toInt}"
  | some (.str s) => s!"S{hexBytes s}"
  | some (.strRef p) => s!"R{p}"
  | some (.strArr _) => "T"
  | some (.cptr _) => "P"
  | some (.vec fs) => s!"V{natList fs}"
  | some (.vecRef p) => s!"W{p}"
  | some (.arr dv es) => "A" ++ joinWith "x" (dv.map fun (e, m) => s!"{e}*{m}") ++ ";" ++ natList es
  | some (.arrRef p) => s!"B{p}"
  | some (.func env a) => s!"U{env}@{a}"

def chain (m : Mem) (fuel : Nat) (a : Nat) (acc : List Nat) : List Nat :=
  match fuel with
  | 0 => (0 :: acc).reverse   -- cycle marker: a trailing 0 never occurs otherwise
  | f+1 => if a = 0 then acc.reverse else chain m f (m.nextAt a) (a :: acc)

def stateLine (g : Gc) : String :=
  let cells := g.mem.toList.map fun c => s!"{if c.mark then 1 else 0}/{c.next}:{objRepr c.obj}"
  s!"st free={natList (chain g.mem (g.mem.size + 1) g.free [])} w={if g.w then 1 else 0} wb0={natList g.wb0} wb1={natList g.wb1} | {joinWith " " cells}"

def parseSlot (s : String) : Slot :=
  match s.splitOn ":" with
  | ["a", v] => .addr v.toNat!
  | ["i", v] => .ip v.toNat!
  | ["s", v] => .stk v.toInt!
  | _ => .unknown

/-- object_arr_dim_mult on extents (32-bit wrap-around as in C) -/
def dimMult (exts : List Nat) : List (Nat × Nat) × Nat :=
  let e := exts.foldl (fun e x => (e * x) % 4294967296) 1
  let rec go (e : Nat) : List Nat → List (Nat × Nat)
    | [] => []
    | x :: r => if x ≠ 0 then (x, e / x) :: go (e / x) r else (x, 1) :: go e r
  (go e exts, e)

def mkObj (ws : List String) : Option Obj :=
  match ws with
  | ["int", v] => some (.int (BitVec.ofInt 32 v.toInt!))
  | ["long", v] => some (.long (BitVec.ofInt 64 v.toInt!))
  | ["float", v] => some (.float (BitVec.ofNat 32 v.toNat!))
  | ["double", v] => some (.double (BitVec.ofNat 64 v.toNat!))
  | ["char", v] => some (.char (BitVec.ofInt 8 v.toInt!))
  | ["str", h] => some (.str (unhex h))
  | ["str"] => some (.str [])
  | ["strref", p] => some (.strRef p.toNat!)
  | ["cptr"] => some (.cptr 0)
  | ["vec", n] => some (.vec (List.replicate n.toNat! 0))
  | ["vecref", p] => some (.vecRef p.toNat!)
  | "arr" :: exts =>
      let (dv, e) := dimMult (exts.map String.toNat!)
      some (.arr dv (List.replicate e 0))
  | ["arrref", p] => some (.arrRef p.toNat!)
  | ["func", env, a] => some (.func env.toNat! a.toNat!)
  | _ => none

def parseOp (ws : List String) : Option Op :=
  match ws with
  | "alloc" :: rest => (mkObj rest).map Op.alloc
  | ["setvec", a, i, v] => some (.setVec a.toNat! i.toNat! v.toNat!)
  | ["setarr", a, i, v] => some (.setArr a.toNat! i.toNat! v.toNat!)
  | ["append", a, v] => some (.append a.toNat! v.toNat!)
  | ["setfuncvec", a, v] => some (.setFuncVec a.toNat! v.toNat!)
  | ["setvecref", a, v] => some (.setVecRef a.toNat! v.toNat!)
  | ["setarrref", a, v] => some (.setArrRef a.toNat! v.toNat!)
  | ["setstrref", a, v] => some (.setStrRef a.toNat! v.toNat!)
  | "collect" :: gp :: slots => some (.collect (slots.map parseSlot) gp.toNat!)
  | "omfalos" :: slots => some (.omfalos (slots.map parseSlot))
  | "run" :: gp :: slots => some (.run (slots.map parseSlot) gp.toNat!)
  | _ => none

/-- one protocol line; the answer is one line.  Every operation goes through
`Gc.wellTyped` and `Gc.apply`, the functions the C09/C04 theorems are stated about. -/
def step (g : Gc) (line : String) : Gc × String :=
  match words line with
  | ["new", n] => let g' := Gc.new n.toNat!; (g', "ok " ++ stateLine g')
  | ["sweep"] => let g' := g.sweep; (g', "ok " ++ stateLine g')
  | ["wants"] => (g, s!"wants {if g.wantsCollect then 1 else 0}")
  | ws =>
    match parseOp ws with
    | none => (g, "bad-op")
    | some op =>
      if !g.wellTyped op then (g, "ill-typed") else
      match op with
      | .alloc o =>
        match g.alloc o with
        | none => (g, "oom " ++ stateLine g)
        | some (g', loc) => (g', s!"-> {loc} " ++ stateLine g')
      | _ =>
        match g.apply op with
        | some g' => (g', "ok " ++ stateLine g')
        | none => (g, "crash")

def main : IO Unit := do
  let stdin ← IO.getStdin
  let stdout ← IO.getStdout
  let _ ← forLines stdin (Gc.new 2) fun g line => do
    let (g', out) := step g line
    stdout.putStrLn out
    pure g'
  stdout.flush

end GcDrv
