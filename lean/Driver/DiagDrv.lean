import NeverModel.Model.Diag
import Driver.Util
open Never.Diag Drv
namespace DiagDrv

def modeOf (w : String) : SizeArg :=
  if w = "remaining" then .remaining else if w = "clamped" then .clamped else .full

def maxHi (rs : List Range) : Nat := rs.foldl (fun m r => max m r.hi) 0

/-- the lexer as a reader of `use` lists: `todo` = remaining `use` names of the files being read
(innermost first).  It consults the model after each event to know whether the scanner switched
to the module's file.  Events are generated under the lexer protocol (nothing after the final EOF). -/
def walk (lim : Nat) (g : String → Option (List String)) (s : St) (todo : List (List String)) : Nat → St
  | 0 => s
  | fuel + 1 =>
    match todo with
    | [] => s
    | [] :: rest =>
      let s' := step lim s .eof
      if s'.terminated then s' else walk lim g s' rest fuel
    | ("!" :: _) :: _ => s      -- the lexer gave up here (`yyterminate()` in a C_STRING error rule)
    | (n :: ns) :: rest =>
      let s' := step lim s (.use n (g n).isSome)
      if s'.npush > s.npush then walk lim g s' (((g n).getD []) :: ns :: rest) fuel
      else walk lim g s' (ns :: rest) fuel

/-- `name=use1,use2` -/
def parseFile (w : String) : String × List String :=
  match w.splitOn "=" with
  | [n, us] => (n, (us.splitOn ",").filter (· ≠ ""))
  | [n] => (n, [])
  | _ => ("", [])

def stageOf (w : String) : StageOut :=
  match w.splitOn ":" with
  | [e, r] => ⟨e.toNat!, r.toInt!⟩
  | _ => ⟨0, 0⟩

/-- protocol
* `m M GROW MODE F LINE T L K`   print_msg (buffer M, array growth GROW) after K earlier messages →
  `inb=0|1 hi=<highest offset written> len=<stored strlen> count=<msg_count> size=<msg_array_size>`
* `u LIM file|str MAIN=use,.. MOD=use,.. ...`   a `use` graph (files that exist; the first is the main
  source; the name `!` = scanning stops there) → `ptr= dptr= errs= opens=a,b pushes= pops= destroyed= files_released= maxacc= minacc=`
* `r LIM file|str K`   the outermost source ends, then the lexer is entered K more times →
  `ptr= dptr= nullread=0|1 reentered=0|1`
* `p errs:rc errs:rc ...`   stage results in pipeline order → `errs=<total> ret=<rc> sound=0|1 complete=0|1 bad=<index of first stage breaking the contract|->`
* `consts` → the model's constants -/
def answer (line : String) : String :=
  match words line with
  | ["m", bm, gr, mode, f, ln, t, l, k] =>
    let m := modeOf mode
    let M := bm.toNat!
    let ws := printMsgWrites M m f.toNat! ln.toInt! t.toNat! l.toNat!
    let a := MsgArr.pushN gr.toNat! (k.toNat! + 1) MsgArr.init
    s!"inb={if inBounds M ws then 1 else 0} hi={maxHi ws} len={storedLen M m f.toNat! ln.toInt! t.toNat! l.toNat!} count={a.count} size={a.size}"
  | "u" :: limw :: kind :: files =>
    let lim := limw.toNat!
    let fs := files.map parseFile
    match fs with
    | [] => "bad-op"
    | (mainName, mainUses) :: mods =>
      let g : String → Option (List String) := fun n => (mods.find? (·.1 = n)).map (·.2)
      let s0 := St.init (if kind = "file" then some mainName else none)
      let s := walk lim g s0 [mainUses] 100000
      let d := destroy s
      let nfiles := (if kind = "file" then 1 else 0) + s.npush
      let mx := d.acc.foldl (fun m i => max m i) (-1)
      let mn := d.acc.foldl (fun m i => min m i) 0
      s!"ptr={s.ptr} dptr={d.ptr} errs={s.errs} opens={joinWith "," s.opens} pushes={d.npush} pops={d.npop} destroyed={d.ndestroy} released={d.released.length} created={d.fresh} files={nfiles} maxacc={mx} minacc={mn} proto={if s.calledAfterEof then 0 else 1}"
  | ["r", limw, kind, k] =>
    -- end of the outermost source, then K re-entries of the lexer (bison after `yyclearin` at YYEOF)
    let s := run limw.toNat! (St.init (if kind = "file" then some "main" else none)) (List.replicate (k.toNat! + 1) Ev.eof)
    let d := destroy s
    s!"ptr={s.ptr} dptr={d.ptr} nullread={if s.nullRead then 1 else 0} reentered={if s.calledAfterEof then 1 else 0}"
  | "p" :: sts =>
    let l := sts.map stageOf
    let r := pipeline l
    let rn := ran l
    let idx (p : StageOut → Bool) : String :=
      match rn.findIdx? (fun s => !p s) with
      | some i => toString i
      | none => "-"
    let snd := idx (fun s => decide s.sound)
    let cmp := idx (fun s => decide s.complete)
    s!"errs={r.1} ret={r.2} ran={rn.length} unsound={snd} incomplete={cmp}"
  | ["consts"] => s!"MAX_MSG_SIZE={MAX_MSG_SIZE} MAX_USE_DEPTH={MAX_USE_DEPTH} grow={MSG_ARRAY_GROW}"
  | _ => "bad-op"

def main : IO Unit := do
  let stdin ← IO.getStdin
  let stdout ← IO.getStdout
  let _ ← forLines stdin () fun _ line => do
    stdout.putStrLn (answer line)
    pure ()
  stdout.flush
end DiagDrv
