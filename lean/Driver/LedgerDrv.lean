import NeverModel.Model.Ledger
import Driver.GcDrv
open Never Drv

/-! `nmdrv ledger`: the protocol of `nmdrv gc` plus, per answer line, the number of malloc
and free events of the operation and the number of live blocks (`mal= fre= live=` before
the cell dump); extra operation `delete` (= gc_delete).  Every operation goes through
`LSt.exec`, `Gc.events`, `runEvents`, `LSt.delete` — the functions the C16 theorems are
stated about. -/
namespace LedgerDrv

def countMal (es : List Ev) : Nat := (es.filter fun e => match e with | .malloc _ => true | _ => false).length
def countFre (es : List Ev) : Nat := (es.filter fun e => match e with | .free _ => true | _ => false).length

/-- insert the ledger fields before the cell dump of a state line -/
def withLedger (line : String) (mal fre live : Nat) : String :=
  match line.splitOn " | " with
  | [h, c] => s!"{h} mal={mal} fre={fre} live={live} | {c}"
  | _ => s!"{line} mal={mal} fre={fre} live={live}"

structure St where
  s : LSt
  alive : Bool

def step (st : St) (line : String) : St × String :=
  match words line with
  | ["new", n] =>
    let s := LSt.new n.toNat!
    (⟨s, true⟩, withLedger ("ok " ++ GcDrv.stateLine s.g) s.live.length 0 s.live.length)
  | ["delete"] =>
    if !st.alive then (st, "bad-op") else
    match st.s.delete with
    | some l => (⟨⟨st.s.g, l⟩, false⟩, s!"deleted mal=0 fre={countFre st.s.g.deleteEvents} live={l.length}")
    | none => (st, "ledger-error")
  | ["sweep"] => (st, "bad-op")
  | ws =>
    if !st.alive then (st, "bad-op") else
    let (g', out) := GcDrv.step st.s.g line
    match ws, GcDrv.parseOp ws with
    | ["wants"], _ => (st, out)
    | _, none => (st, out)
    | _, some op =>
      if out == "ill-typed" || out == "crash" || out == "bad-op" then (st, out) else
      match st.s.exec [op] with
      | none => (st, "ledger-error")
      | some s' =>
        if s'.g != g' then (st, "model-inconsistent") else
        let es := st.s.g.events op
        (⟨s', true⟩, withLedger out (countMal es) (countFre es) s'.live.length)

def main : IO Unit := do
  let stdin ← IO.getStdin
  let stdout ← IO.getStdout
  let _ ← forLines stdin (⟨LSt.new 2, false⟩ : St) fun st line => do
    let (st', out) := step st line
    stdout.putStrLn out
    pure st'
  stdout.flush

end LedgerDrv
