import NeverModel.Model.Verify
import Driver.VmDrv
open Never Never.Vm Never.Ver
namespace VerDrv
/-- usage: nmdrv verify <dump>...  — one line per module: `ok …summary…` or `FAIL <reason>` -/
def main (args : List String) : IO UInt32 := do
  for f in args do
    let lines := (← IO.FS.lines f).toList
    let md := VmDrv.parseDump lines 0 []
    match verify md with
    | .ok s => IO.println s!"ok instrs={s.instrs} functions={s.functions} calls={s.calls} tail={s.tailCalls} jumps={s.jumps} handlers={s.handlers} maxh={s.maxHeight} unreached={s.unreached}"
    | .error e => IO.println s!"FAIL {e}"
  return 0
end VerDrv
