import NeverModel.Model.Verify
import Driver.VmDrv
open Never Never.Vm Never.Ver
namespace VerDrv
/-- usage: nmdrv verify <dump>...  — one line per module: `ok …summary…` or `FAIL <reason>` -/
def main (args : List String) : IO UInt32 := do
  let heights := args.head? == some "--heights"
  for f in (if heights then args.drop 1 else args) do
    let lines := (← IO.FS.lines f).toList
    let md := VmDrv.parseDump lines 0 []
    match verifyH md with
    | .ok (s, hm) =>
      IO.println s!"ok instrs={s.instrs} functions={s.functions} calls={s.calls} tail={s.tailCalls} jumps={s.jumps} handlers={s.handlers} maxh={s.maxHeight} unreached={s.unreached}"
      if heights then
        IO.println ("H " ++ " ".intercalate ((heightsOf md hm).map fun (a, h, np) => s!"{a}:{h}:{np}"))
    | .error e => IO.println s!"FAIL {e}"
  return 0
end VerDrv
