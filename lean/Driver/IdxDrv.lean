import NeverModel.Model.Index
import Driver.Util
open Never Never.Idx Drv
namespace IdxDrv

def ints (ws : List String) : List Int := ws.map String.toInt!
def nats (ws : List String) : List Nat := ws.map String.toNat!

/-- split a word list at "|" -/
def splitBar (ws : List String) : List (List String) :=
  ws.foldr (fun w acc => if w == "|" then [] :: acc else match acc with
    | [] => [[w]]
    | a :: r => (w :: a) :: r) [[]]

def rangesOf (ws : List String) : List (Int × Int) :=
  ws.map fun w => match w.splitOn ":" with
    | [a, b] => (a.toInt!, b.toInt!)
    | _ => (0, 0)

/-- one protocol line → answer. exception numbers as in include/vm.h (3 = index_out_of_bounds) -/
def answer (line : String) : String :=
  match words line with
  | "mult" :: es =>
    let (dv, n) := dimMult (nats es)
    "dv " ++ joinWith "," (dv.map fun (e, m) => s!"{e}*{m}") ++ s!" elems {n}"
  | "addr" :: rest =>
    (match splitBar rest with
     | [es, is] => (match dimAddr (dimMult (nats es)).1 (nats is) with
        | .ok a => s!"ok {a}"
        | .error d => s!"oob {d}")
     | _ => "bad-op")
  | ["srange", a, b, c, d] =>
    (match sliceRange a.toInt! b.toInt! c.toInt! d.toInt! with
     | some (r1, r2) => s!"some {r1} {r2}"
     | none => "oob")
  | "aderef" :: rest =>
    (match splitBar rest with
     | [es, is] =>
       let (dv, n) := dimMult (nats es)
       (match derefIndices dv (ints is) with
        | .ok a => if a < n then s!"ok {a}" else "crash"   -- element array read outside its `elems`
        | .error _ => "exc 3")
     | _ => "bad-op")
  | "sderef" :: rest =>
    (match splitBar rest with
     | [es, rs, is] =>
       let (dv, n) := dimMult (nats es)
       (match sliceDerefIndices dv (rangesOf rs) (ints is) with
        | .ok a => if a < n then s!"ok {a}" else "crash"
        | .error _ => "exc 3")
     | _ => "bad-op")
  | ["rderef", f, t, i] =>
    (match rangeDerefIndex f.toInt! t.toInt! i.toInt! with
     | .ok r => s!"ok {r}"
     | .error _ => "exc 3")
  | ["strderef", h, i] =>
    let s := unhex h
    let i := i.toInt!
    if stringDerefOk s.length i then
      (match s[i.toNat]? with
        | some c => s!"ok {c.toNat}"
        | none => "crash")
    else "exc 3"
  | ["strslice", h, f, t] =>
    (match sliceString (unhex h) f.toInt! t.toInt! with
     | some r => "ok " ++ hexBytes r
     | none => "exc 3")
  | "canadd" :: rest =>
    (match splitBar rest with
     | [a, b] => s!"{if canAdd (dimMult (nats a)).1 (dimMult (nats b)).1 then 1 else 0}"
     | _ => "bad-op")
  | "canmult" :: rest =>
    (match splitBar rest with
     | [a, b] => s!"{if canMult (dimMult (nats a)).1 (dimMult (nats b)).1 then 1 else 0}"
     | _ => "bad-op")
  | _ => "bad-op"

def main : IO Unit := do
  let stdin ← IO.getStdin
  let stdout ← IO.getStdout
  let _ ← forLines stdin () fun _ line => do
    stdout.putStrLn (answer line)
  stdout.flush
end IdxDrv
