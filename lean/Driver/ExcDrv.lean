import NeverModel.Model.ExcTab
import Driver.Util
open Never Drv
namespace ExcDrv

structure St where
  tab : Array ExcEntry := #[]
  count : Nat := 0

/-- protocol: `tab b:h b:h ...` (real entries; the sentinel is appended as the C code does),
`raw COUNT b:h ...` (entries given verbatim, including whatever is at index COUNT), `q IP`, `wf` -/
def step (s : St) (line : String) : St × String :=
  let ent (w : String) : ExcEntry :=
    match w.splitOn ":" with
    | [b, h] => ⟨b.toNat!, h.toNat!⟩
    | _ => ⟨0, 0⟩
  match words line with
  | "tab" :: es =>
    let t := (es.map ent).toArray.push ⟨4294967295, 4294967295⟩
    ({ tab := t, count := es.length }, s!"ok {es.length}")
  | "raw" :: c :: es => ({ tab := (es.map ent).toArray, count := c.toNat! }, s!"ok {c}")
  | ["q", ip] => (s, excAnswer s.tab s.count ip.toNat!)
  | ["wf"] => (s, s!"wf {if ExcWF s.tab s.count then 1 else 0}")
  | _ => (s, "bad-op")

def main : IO Unit := do
  let stdin ← IO.getStdin
  let stdout ← IO.getStdout
  let _ ← forLines stdin ({} : St) fun s line => do
    let (s', out) := step s line
    stdout.putStrLn out
    pure s'
  stdout.flush
end ExcDrv
