import NeverModel.Model.TailRec
import NeverModel.Lemmas.TailRec
import Driver.SrcDrv
open Never Never.Src Never.Src.Tail Drv
namespace TailDrv

/-! `nmdrv tail`: which calls does the model of front/tailrec.c (instantiated with the table regenerated from the C
    text, `cTab`) retag, and which self calls are in tail position by the rule (`SelfTailCall`).
    stdin  : `tail <id>` then one line holding the program s-expression (the `nmdrv src` format)
    stdout : one line per function (every nesting depth)
               `FN <id> <fid> <name> marked=<n> spec=<n> catch=<n> selfcalls=<n> paths=<p;p;…>`
             then `END <id>`;  a path is `slot.index/slot.index/…` from the function body -/

def slotName (s : Slot) : String := (toString (repr s)).replace "Never.Src.Tail.Slot." "" |>.replace " " ":" |>.replace "(" "" |>.replace ")" ""

def width : Expr → Nat
  | .seq items => items.length
  | .call _ args | .builtin _ args | .arrLit _ args _ | .arrNew args _ | .record _ args | .tuple args | .enumRec _ _ args => args.length
  | .index _ idx => idx.length
  | .matchE _ gs => gs.length
  | .listcomp _ qs _ => qs.length
  | _ => 1

/-- the children of a node, by trying every slot and index (so that the enumeration is `kid`'s, not a second definition) -/
def kidsOf (e : Expr) : List (Slot × Nat × Expr) :=
  Slot.all.flatMap fun s =>
    (List.range (max 1 (width e))).filterMap fun i =>
      match kid e s i with
      | some c => some (s, i, c)
      | none => none

partial def allPaths (e : Expr) : List Path :=
  [] :: (kidsOf e).flatMap fun (s, i, c) => (allPaths c).map (fun p => (s, i) :: p)

def pathStr (p : Path) : String := joinWith "/" (p.map fun (s, i) => s!"{slotName s}.{i}")

def isCallOf (self : Name) : Option Expr → Bool
  | some (.call (.var x) _) => x == self
  | _ => false

/-- the rule, decided: tail path, the node is a call of `self`, `self` not shadowed (lexical scope) -/
def specSelfTail (fn : Func) (p : Path) : Bool :=
  decide (TailPath fn.body p) && isCallOf fn.name (sub fn.body p) && fn.name != "" &&
    !((paramBinders fn.params).contains fn.name) && !((tailScope fn.body p).contains fn.name)

def main : IO Unit := do
  let stdin ← IO.getStdin
  let stdout ← IO.getStdout
  let _ ← forLines stdin () fun _ line => do
    match words line with
    | ["tail", id] =>
      let src ← stdin.getLine
      match SrcDrv.parseSX (SrcDrv.tokenize src) 0 with
      | none => stdout.putStrLn s!"ERROR {id} sexpr"
      | some (sx, _) =>
        match SrcDrv.progOf sx with
        | .error e => stdout.putStrLn s!"ERROR {id} {e.replace " " "_"}"
        | .ok p =>
          let fns := (p.funcs.map (SrcDrv.funsF p.topNames)).flatten
          for (_, fn) in fns do
            let paths := allPaths fn.body
            let marked := paths.filter (markedInBody cTab fn)
            let spec := paths.filter (specSelfTail fn)
            let selfc := paths.filter (fun q => isCallOf fn.name (sub fn.body q))
            let inCatch := (List.range fn.catches.length).foldl (fun acc j =>
              match fn.catches[j]? with
              | some c => acc + ((allPaths c.body).filter (markedInCatch cTab fn j)).length
              | none => acc) 0
            let nm := if fn.name = "" then "-" else fn.name
            stdout.putStrLn s!"FN {id} {fn.id} {nm} marked={marked.length} spec={spec.length} catch={inCatch} selfcalls={selfc.length} paths={joinWith ";" (marked.map pathStr)}"
          stdout.putStrLn s!"END {id}"
    | _ => stdout.putStrLn "bad-op"
    stdout.flush
  stdout.flush
end TailDrv
